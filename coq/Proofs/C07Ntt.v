(* C07 part B: NTT120 scalar layer -- constants, conversions, CRT reconstruction. *)
From PV Require Import Base.MachineInt Model.C07Ntt120.
From Coq Require Import Znumtheory.
Open Scope Z_scope.

Definition three_sets : list primeset := [primes29; primes30; primes31].

(* ---------------- constants ---------------- *)
Theorem crt_consts_ok : forall ps, In ps three_sets ->
  (forall i j, (i < j < 4)%nat -> Z.gcd (qk ps i) (qk ps j) = 1) /\
  (forall k, (k < 4)%nat -> (Qprod ps / qk ps k * crtk ps k) mod qk ps k = 1 /\ 0 <= crtk ps k < qk ps k).
Proof.
  intros ps Hin. split.
  - intros i j Hij.
    assert (Hc : forallb (fun i => forallb (fun j => if Nat.ltb i j then Z.gcd (qk ps i) (qk ps j) =? 1 else true) (seq 0 4)) (seq 0 4) = true).
    { cbn [In three_sets] in Hin. destruct Hin as [<-|[<-|[<-|[]]]]; vm_compute; reflexivity. }
    rewrite forallb_forall in Hc. specialize (Hc i ltac:(apply in_seq; lia)).
    rewrite forallb_forall in Hc. specialize (Hc j ltac:(apply in_seq; lia)).
    destruct (Nat.ltb_spec i j); [|lia]. apply Z.eqb_eq; exact Hc.
  - intros k Hk.
    assert (Hc : forallb (fun k => ((Qprod ps / qk ps k * crtk ps k) mod qk ps k =? 1) && (0 <=? crtk ps k) && (crtk ps k <? qk ps k)) (seq 0 4) = true).
    { cbn [In three_sets] in Hin. destruct Hin as [<-|[<-|[<-|[]]]]; vm_compute; reflexivity. }
    rewrite forallb_forall in Hc. specialize (Hc k ltac:(apply in_seq; lia)).
    apply andb_prop in Hc as [Hc H3]. apply andb_prop in Hc as [H1 H2].
    apply Z.eqb_eq in H1. apply Z.leb_le in H2. apply Z.ltb_lt in H3. auto.
Qed.

(* repeated squaring *)
Lemma iter_sq_pow q x n : 0 < q ->
  Nat.iter n (fun y => (y * y) mod q) (x mod q) = x ^ (2 ^ Z.of_nat n) mod q.
Proof.
  intros Hq. induction n as [|n IH].
  - cbn [Nat.iter]. change (2 ^ Z.of_nat 0) with 1. rewrite Z.pow_1_r. reflexivity.
  - change (Nat.iter (S n) (fun y => (y * y) mod q) (x mod q)) with
      ((Nat.iter n (fun y => (y * y) mod q) (x mod q) * Nat.iter n (fun y => (y * y) mod q) (x mod q)) mod q).
    rewrite IH.
    rewrite <- Z.mul_mod by lia. f_equal.
    rewrite Nat2Z.inj_succ, Z.pow_succ_r by lia.
    rewrite <- Z.pow_add_r by (pose proof (pow2_pos (Z.of_nat n)); lia).
    f_equal. lia.
Qed.

Theorem omega_order : forall ps, In ps three_sets -> forall k, (k < 4)%nat ->
  omegak ps k ^ (2 ^ log_max_n) mod qk ps k = qk ps k - 1 /\ 1 < qk ps k.
Proof.
  intros ps Hin k Hk.
  assert (Hc : forallb (fun k => (Nat.iter (Z.to_nat log_max_n) (fun y => (y * y) mod qk ps k) (omegak ps k mod qk ps k) =? qk ps k - 1)
                                 && (1 <? qk ps k)) (seq 0 4) = true).
  { cbn [In three_sets] in Hin. destruct Hin as [<-|[<-|[<-|[]]]]; vm_compute; reflexivity. }
  rewrite forallb_forall in Hc. specialize (Hc k ltac:(apply in_seq; lia)).
  apply andb_prop in Hc as [H1 H2]. apply Z.eqb_eq in H1. apply Z.ltb_lt in H2.
  split; [|exact H2].
  rewrite iter_sq_pow in H1 by lia. rewrite Z2Nat.id in H1 by (vm_compute; discriminate). exact H1.
Qed.

(* omega^(2^17) = 1: omega is a 2^17-th root of unity of exact order 2^17 (its 2^16-th power is -1 <> 1) *)
Corollary omega_root_of_unity : forall ps, In ps three_sets -> forall k, (k < 4)%nat ->
  omegak ps k ^ (2 ^ (log_max_n + 1)) mod qk ps k = 1.
Proof.
  intros ps Hin k Hk. destruct (omega_order ps Hin k Hk) as [H Hq].
  replace (2 ^ (log_max_n + 1)) with (2 ^ log_max_n + 2 ^ log_max_n)
    by (rewrite Z.pow_add_r by (vm_compute; discriminate); change (2 ^ 1) with 2; lia).
  rewrite Z.pow_add_r by (vm_compute; discriminate).
  rewrite Z.mul_mod, H by lia.
  replace ((qk ps k - 1) * (qk ps k - 1)) with (1 + (qk ps k - 2) * qk ps k) by ring.
  rewrite Z.mod_add by lia. apply Z.mod_small; lia.
Qed.

(* ---------------- machine-integer helpers ---------------- *)
Lemma u64_id x : 0 <= x < 2 ^ 64 -> u64 x = x.
Proof. intros H. unfold u64, wrapu. apply Z.mod_small; exact H. Qed.
Lemma u32_id x : 0 <= x < 2 ^ 32 -> u32 x = x.
Proof. intros H. unfold u32, wrapu. apply Z.mod_small; exact H. Qed.
Lemma u64_range x : 0 <= u64 x < 2 ^ 64.
Proof. unfold u64, wrapu. apply Z.mod_pos_bound. reflexivity. Qed.
Lemma i128_id x : - 2 ^ 127 <= x < 2 ^ 127 -> i128 x = x.
Proof. intros H. unfold i128. apply wrap_id; [lia|]. unfold in_range. change (128 - 1) with 127. exact H. Qed.

Lemma eqmod_divide q a b : 0 < q -> a mod q = b mod q -> (q | a - b).
Proof.
  intros Hq H. apply Z.mod_divide; [lia|]. rewrite Zminus_mod, H, Z.sub_diag. apply Z.mod_0_l; lia.
Qed.
Lemma divide_eqmod q a b : 0 < q -> (q | a - b) -> a mod q = b mod q.
Proof.
  intros Hq [c Hc]. replace a with (b + c * q) by lia. apply Z.mod_add; lia.
Qed.

(* ---------------- b_from_znx64 ---------------- *)
Theorem b_from_znx64_congr : forall x, in_range 64 x -> forall q, 0 < q < 2 ^ 32 ->
  b_from_znx64_k q x mod q = x mod q /\ 0 <= b_from_znx64_k q x < 2 ^ 64.
Proof.
  intros x Hx q Hq. unfold in_range in Hx. change (64 - 1) with 63 in Hx.
  unfold b_from_znx64_k. cbv zeta.
  assert (H64 : 2 ^ 64 = 2 * 2 ^ 63) by reflexivity.
  assert (H63 : 0 < 2 ^ 63) by reflexivity.
  pose proof (Z.mod_pos_bound (2 ^ 63) q ltac:(lia)) as Hm.
  destruct (Z.lt_ge_cases x 0) as [Hneg|Hpos].
  - (* negative: x as u64 = x + 2^64 *)
    assert (Hu : u64 x = x + 2 ^ 64).
    { unfold u64, wrapu. symmetry. apply (Z.mod_unique _ _ (-1)); lia. }
    rewrite Hu.
    destruct (Z.ltb_spec (2 ^ 63 - 1) (x + 2 ^ 64)) as [_|Hc]; [|lia].
    assert (Hl : (x + 2 ^ 64) mod 2 ^ 63 = x + 2 ^ 63).
    { symmetry. apply (Z.mod_unique _ _ 1); lia. }
    rewrite Hl. unfold oq.
    rewrite u64_id by (change (2 ^ 32) with 4294967296 in Hq; lia).
    split; [|change (2 ^ 32) with 4294967296 in Hq; lia].
    pose proof (Z.div_mod (2 ^ 63) q ltac:(lia)) as Hd.
    replace (x + 2 ^ 63 + (q - 2 ^ 63 mod q)) with (x + (1 + 2 ^ 63 / q) * q) by lia.
    apply Z.mod_add; lia.
  - assert (Hu : u64 x = x) by (apply u64_id; lia).
    rewrite Hu.
    destruct (Z.ltb_spec (2 ^ 63 - 1) x) as [Hc|_]; [lia|].
    rewrite (Z.mod_small x (2 ^ 63)) by lia. rewrite Z.add_0_r, u64_id by lia.
    split; [reflexivity|lia].
Qed.

(* vector form, on the generated prime sets *)
Corollary b_from_znx64_vec : forall ps, In ps three_sets -> forall x, in_range 64 x -> forall k, (k < 4)%nat ->
  nth k (b_from_znx64 ps x) 0 mod qk ps k = x mod qk ps k /\ 0 <= nth k (b_from_znx64 ps x) 0 < 2 ^ 64.
Proof.
  intros ps Hin x Hx k Hk.
  assert (Hq : 0 < qk ps k < 2 ^ 32).
  { assert (Hc : forallb (fun k => (0 <? qk ps k) && (qk ps k <? 2 ^ 32)) (seq 0 4) = true)
      by (cbn [In three_sets] in Hin; destruct Hin as [<-|[<-|[<-|[]]]]; vm_compute; reflexivity).
    rewrite forallb_forall in Hc. specialize (Hc k ltac:(apply in_seq; lia)).
    apply andb_prop in Hc as [H1 H2]. apply Z.ltb_lt in H1. apply Z.ltb_lt in H2. lia. }
  assert (Hn : nth k (b_from_znx64 ps x) 0 = b_from_znx64_k (qk ps k) x).
  { unfold b_from_znx64, qk.
    assert (Hl : length (ps_Q ps) = 4%nat) by (cbn [In three_sets] in Hin; destruct Hin as [<-|[<-|[<-|[]]]]; reflexivity).
    rewrite (nth_indep _ 0 (b_from_znx64_k 1 x)) by (rewrite map_length; lia).
    apply (map_nth (fun q => b_from_znx64_k q x)). }
  rewrite Hn. apply b_from_znx64_congr; assumption.
Qed.

Lemma land_le_r x m : 0 <= m -> Z.land x m <= m.
Proof.
  intros Hm.
  assert (Hz : Z.ldiff (Z.land x m) m = 0).
  { apply Z.bits_inj'; intros n Hn. rewrite Z.ldiff_spec, Z.land_spec, Z.bits_0.
    destruct (Z.testbit x n), (Z.testbit m n); reflexivity. }
  pose proof (Z.sub_nocarry_ldiff m (Z.land x m) Hz) as Hs.
  assert (0 <= Z.ldiff m (Z.land x m)) by (apply Z.ldiff_nonneg; left; exact Hm).
  lia.
Qed.

(* the masked form is the plain form on (x land mask), which is again an i64 *)
Lemma land_in_range x m : in_range 64 x -> in_range 64 m -> in_range 64 (Z.land x m).
Proof.
  unfold in_range. change (64 - 1) with 63. intros Hx Hm.
  assert (Hp63 : 0 < 2 ^ 63) by reflexivity.
  destruct (Z.lt_ge_cases x 0) as [Hxn|Hxp]; destruct (Z.lt_ge_cases m 0) as [Hmn|Hmp].
  - (* both negative: land = - (lor (-x-1) (-m-1)) - 1 *)
    assert (Hl : Z.land x m = Z.lnot (Z.lor (Z.lnot x) (Z.lnot m))).
    { rewrite Z.lnot_lor, !Z.lnot_involutive. reflexivity. }
    rewrite Hl.
    assert (0 <= Z.lnot x < 2 ^ 63) by (unfold Z.lnot; lia).
    assert (0 <= Z.lnot m < 2 ^ 63) by (unfold Z.lnot; lia).
    assert (0 <= Z.lor (Z.lnot x) (Z.lnot m)) by (apply Z.lor_nonneg; lia).
    assert (Z.lor (Z.lnot x) (Z.lnot m) < 2 ^ 63).
    { destruct (Z.eq_dec (Z.lor (Z.lnot x) (Z.lnot m)) 0) as [->|Hne]; [reflexivity|].
      apply Z.log2_lt_pow2; [lia|]. rewrite Z.log2_lor by lia.
      apply Z.max_lub_lt.
      - destruct (Z.eq_dec (Z.lnot x) 0) as [->|]; [reflexivity|apply Z.log2_lt_pow2; lia].
      - destruct (Z.eq_dec (Z.lnot m) 0) as [->|]; [reflexivity|apply Z.log2_lt_pow2; lia]. }
    set (L := Z.lor (Z.lnot x) (Z.lnot m)) in *. unfold Z.lnot. lia.
  - (* x negative, m >= 0: 0 <= land <= m *)
    assert (0 <= Z.land x m) by (apply Z.land_nonneg; lia).
    assert (Z.land x m <= m) by (apply land_le_r; lia).
    lia.
  - assert (0 <= Z.land x m) by (apply Z.land_nonneg; lia).
    assert (Z.land x m <= x) by (rewrite Z.land_comm; apply land_le_r; lia).
    lia.
  - assert (0 <= Z.land x m) by (apply Z.land_nonneg; lia).
    assert (Z.land x m <= x) by (rewrite Z.land_comm; apply land_le_r; lia).
    lia.
Qed.

Corollary b_from_znx64_masked_congr : forall x m, in_range 64 x -> in_range 64 m -> forall q, 0 < q < 2 ^ 32 ->
  b_from_znx64_k q (Z.land x m) mod q = Z.land x m mod q /\ 0 <= b_from_znx64_k q (Z.land x m) < 2 ^ 64.
Proof. intros x m Hx Hm q Hq. apply b_from_znx64_congr; [apply land_in_range; assumption|exact Hq]. Qed.

(* ---------------- c_from_b / c_from_znx64 ---------------- *)
Theorem c_from_b_correct : forall q x, 0 < q < 2 ^ 32 ->
  exists r r', c_from_b_k q x = [r; r'] /\ 0 <= r < q /\ 0 <= r' < q /\
               r mod q = x mod q /\ r' mod q = (x * 2 ^ 32) mod q.
Proof.
  intros q x Hq. change (2 ^ 32) with 4294967296 in *.
  pose proof (Z.mod_pos_bound x q ltac:(lia)) as Hr.
  exists (x mod q), ((x mod q * 4294967296) mod q).
  pose proof (Z.mod_pos_bound (x mod q * 4294967296) q ltac:(lia)) as Hr'.
  unfold c_from_b_k. cbv zeta. change (2 ^ 32) with 4294967296.
  rewrite (u64_id (x mod q * 4294967296)) by (change (2 ^ 64) with 18446744073709551616; nia).
  rewrite !u32_id by (change (2 ^ 32) with 4294967296; lia).
  repeat split; try lia.
  - apply Z.mod_mod; lia.
  - rewrite Z.mod_mod by lia. apply Z.mul_mod_idemp_l; lia.
Qed.

Corollary c_from_znx64_correct : forall q x, 0 < q < 2 ^ 32 ->
  exists r r', c_from_znx64_k q x = [r; r'] /\ 0 <= r < q /\ 0 <= r' < q /\
               r mod q = x mod q /\ r' mod q = (x * 2 ^ 32) mod q.
Proof. intros q x Hq. exact (c_from_b_correct q x Hq). Qed.

(* ---------------- CRT reconstruction ---------------- *)
(* b_to_znx128 only looks at the residue classes of its inputs *)
Theorem same_residue_same_output : forall ps x y,
  (forall k, (k < 4)%nat -> nth k x 0 mod qk ps k = nth k y 0 mod qk ps k) ->
  b_to_znx128 ps x = b_to_znx128 ps y.
Proof.
  intros ps x y H. unfold b_to_znx128. cbv zeta.
  cbn [seq fold_left]. unfold crt_term. cbv zeta.
  rewrite (H 0%nat), (H 1%nat), (H 2%nat), (H 3%nat) by lia. reflexivity.
Qed.

Lemma coprime_divide_mul a b d : Z.gcd a b = 1 -> (a | d) -> (b | d) -> (a * b | d).
Proof.
  intros Hg [e He] Hb. subst d.
  assert (Hbe : (b | e)).
  { apply (Z.gauss b a e); [rewrite Z.mul_comm; exact Hb|rewrite Z.gcd_comm; exact Hg]. }
  destruct Hbe as [f Hf]. subst e. exists f. ring.
Qed.

Lemma crt_term_cong q m c x : 0 < q -> (m * c) mod q = 1 -> ((x mod q * c) mod q * m) mod q = x mod q.
Proof.
  intros Hq H.
  rewrite Z.mul_mod_idemp_l by lia.
  rewrite <- Z.mul_assoc, (Z.mul_comm c m).
  rewrite Z.mul_mod_idemp_l by lia.
  rewrite <- Z.mul_mod_idemp_r, H, Z.mul_1_r by lia. reflexivity.
Qed.

Lemma term_vanish q m t : 0 < q -> m mod q = 0 -> (t * m) mod q = 0.
Proof. intros Hq H. rewrite <- Z.mul_mod_idemp_r, H, Z.mul_0_r by lia. apply Z.mod_0_l; lia. Qed.

Lemma add4_mod a b c d q : 0 < q -> (a + b + c + d) mod q = (a mod q + b mod q + c mod q + d mod q) mod q.
Proof.
  intros Hq.
  rewrite (Z.add_mod (a + b + c) d), (Z.add_mod (a + b) c), (Z.add_mod a b) by lia.
  rewrite (Z.add_mod (a mod q + b mod q + c mod q) (d mod q)), (Z.add_mod (a mod q + b mod q) (c mod q)) by lia.
  rewrite !Z.mod_mod by lia. reflexivity.
Qed.

(* the arithmetic facts about one prime set that the reconstruction needs; all decidable, checked by vm_compute *)
Definition crt_ready (ps : primeset) : bool :=
  let q k := qk ps k in let c k := crtk ps k in
  let Q := Qprod ps in
  (length (ps_Q ps) =? 4)%nat &&
  forallb (fun k => (1 <? q k) && (0 <=? c k) && (c k <? 2 ^ 32) && (q k <? 2 ^ 32) &&
                    (qm ps k =? Q / q k) && (Q mod q k =? 0) && ((qm ps k * c k) mod q k =? 1) &&
                    forallb (fun j => Nat.eqb j k || (qm ps j mod q k =? 0)) (seq 0 4)) (seq 0 4) &&
  (total_q ps =? Q) && (4 * Q <? 2 ^ 127) && Z.odd Q &&
  (Z.gcd (q 0%nat) (q 1%nat) =? 1) && (Z.gcd (q 0%nat * q 1%nat) (q 2%nat) =? 1) &&
  (Z.gcd (q 0%nat * q 1%nat * q 2%nat) (q 3%nat) =? 1).

Lemma crt_ready_three : forall ps, In ps three_sets -> crt_ready ps = true.
Proof. intros ps Hin. cbn [In three_sets] in Hin. destruct Hin as [<-|[<-|[<-|[]]]]; vm_compute; reflexivity. Qed.

Section Crt.
Variable ps : primeset.
Hypothesis Hready : crt_ready ps = true.

Let q k := qk ps k.
Let c k := crtk ps k.
Let Q := Qprod ps.

Lemma ready_k k : (k < 4)%nat ->
  1 < q k /\ 0 <= c k < 2 ^ 32 /\ q k < 2 ^ 32 /\ qm ps k = Q / q k /\ Q mod q k = 0 /\ (qm ps k * c k) mod q k = 1 /\
  (forall j, (j < 4)%nat -> j <> k -> qm ps j mod q k = 0).
Proof.
  intros Hk. unfold crt_ready in Hready. cbv zeta in Hready. fold q c Q in Hready.
  repeat (apply andb_prop in Hready as [Hready ?]).
  match goal with H : forallb _ (seq 0 4) = true |- _ => rewrite forallb_forall in H; specialize (H k ltac:(apply in_seq; lia)); rename H into Hk' end.
  repeat (apply andb_prop in Hk' as [Hk' ?]).
  repeat match goal with
    | H : (_ <? _) = true |- _ => apply Z.ltb_lt in H
    | H : (_ <=? _) = true |- _ => apply Z.leb_le in H
    | H : (_ =? _) = true |- _ => apply Z.eqb_eq in H
    end.
  repeat split; try assumption; try lia.
  intros j Hj Hne.
  match goal with H : forallb _ (seq 0 4) = true |- _ => rewrite forallb_forall in H; specialize (H j ltac:(apply in_seq; lia)) end.
  match goal with H : (_ || _) = true |- _ => apply orb_prop in H as [Hor|Hor] end.
  - apply Nat.eqb_eq in Hor; lia.
  - apply Z.eqb_eq; exact Hor.
Qed.

Lemma ready_global : total_q ps = Q /\ 4 * Q < 2 ^ 127 /\ Z.odd Q = true /\
  Z.gcd (q 0%nat) (q 1%nat) = 1 /\ Z.gcd (q 0%nat * q 1%nat) (q 2%nat) = 1 /\ Z.gcd (q 0%nat * q 1%nat * q 2%nat) (q 3%nat) = 1.
Proof.
  unfold crt_ready in Hready. cbv zeta in Hready. fold q c Q in Hready.
  repeat (apply andb_prop in Hready as [Hready ?]).
  repeat match goal with
    | H : (_ <? _) = true |- _ => apply Z.ltb_lt in H
    | H : (_ =? _) = true |- _ => apply Z.eqb_eq in H
    end.
  repeat split; assumption.
Qed.

Lemma Q_pos : 0 < Q.
Proof.
  destruct (ready_k 0%nat ltac:(lia)) as [? _]. destruct (ready_k 1%nat ltac:(lia)) as [? _].
  destruct (ready_k 2%nat ltac:(lia)) as [? _]. destruct (ready_k 3%nat ltac:(lia)) as [? _].
  unfold Q, Qprod. fold (q 0%nat) (q 1%nat) (q 2%nat) (q 3%nat).
  repeat apply Z.mul_pos_pos; lia.
Qed.

(* a reduced term: value and bounds, no wrap *)
Definition tk (k : nat) (xk : Z) : Z := ((xk mod q k) * c k) mod q k.

Lemma qm_bounds k : (k < 4)%nat -> 0 < qm ps k /\ q k * qm ps k = Q.
Proof.
  intros Hk. destruct (ready_k k Hk) as (Hq & _ & _ & Hm & Hd & _).
  pose proof Q_pos. fold (q k) in *.
  assert (HQ : Q = q k * (Q / q k)) by (apply Z.div_exact in Hd; lia).
  rewrite Hm. split; [|lia]. nia.
Qed.

Lemma crt_term_eq k xk : (k < 4)%nat ->
  crt_term ps k xk = tk k xk * qm ps k /\ 0 <= tk k xk * qm ps k <= Q - qm ps k.
Proof.
  intros Hk. destruct (ready_k k Hk) as (Hq & Hc & Hq32 & _).
  destruct (qm_bounds k Hk) as [Hmp HmQ]. destruct ready_global as (_ & H4 & _).
  pose proof Q_pos.
  unfold crt_term. cbv zeta. fold (q k) (c k).
  pose proof (Z.mod_pos_bound xk (q k) ltac:(lia)) as Hr.
  assert (Hrc : 0 <= xk mod q k * c k < 2 ^ 64).
  { change (2 ^ 64) with (2 ^ 32 * 2 ^ 32). split; [nia|].
    apply Z.le_lt_trans with ((q k - 1) * c k); [nia|]. nia. }
  rewrite (i128_id (xk mod q k * c k)) by (change (2 ^ 127) with (2 ^ 64 * 2 ^ 63); change (2 ^ 63) with 9223372036854775808; lia).
  rewrite Z.rem_mod_nonneg by lia. fold (tk k xk).
  pose proof (Z.mod_pos_bound (xk mod q k * c k) (q k) ltac:(lia)) as Ht. fold (tk k xk) in Ht.
  assert (Hb : 0 <= tk k xk * qm ps k <= Q - qm ps k) by nia.
  rewrite i128_id by lia. split; [reflexivity|exact Hb].
Qed.

Definition crt_sum (x : list Z) : Z :=
  tk 0 (nth 0 x 0) * qm ps 0 + tk 1 (nth 1 x 0) * qm ps 1 + tk 2 (nth 2 x 0) * qm ps 2 + tk 3 (nth 3 x 0) * qm ps 3.

(* the reconstruction without any machine wrap *)
Lemma b_to_znx128_unwrapped x :
  b_to_znx128 ps x = let m := crt_sum x mod Q in if (Q + 1) / 2 <=? m then m - Q else m.
Proof.
  destruct ready_global as (Htq & H4 & _). pose proof Q_pos as HQ.
  unfold b_to_znx128. cbv zeta. cbn [seq fold_left].
  destruct (crt_term_eq 0 (nth 0 x 0) ltac:(lia)) as [-> B0].
  destruct (crt_term_eq 1 (nth 1 x 0) ltac:(lia)) as [-> B1].
  destruct (crt_term_eq 2 (nth 2 x 0) ltac:(lia)) as [-> B2].
  destruct (crt_term_eq 3 (nth 3 x 0) ltac:(lia)) as [-> B3].
  destruct (qm_bounds 0 ltac:(lia)) as [M0 _]. destruct (qm_bounds 1 ltac:(lia)) as [M1 _].
  destruct (qm_bounds 2 ltac:(lia)) as [M2 _]. destruct (qm_bounds 3 ltac:(lia)) as [M3 _].
  rewrite Z.add_0_l.
  rewrite (i128_id (tk 0 _ * _)) by lia.
  rewrite (i128_id (tk 0 _ * _ + tk 1 _ * _)) by lia.
  rewrite (i128_id (tk 0 _ * _ + tk 1 _ * _ + tk 2 _ * _)) by lia.
  rewrite (i128_id (tk 0 _ * _ + tk 1 _ * _ + tk 2 _ * _ + tk 3 _ * _)) by lia.
  fold (crt_sum x). rewrite Htq.
  assert (Hs : 0 <= crt_sum x) by (unfold crt_sum; lia).
  rewrite Z.rem_mod_nonneg by lia.
  pose proof (Z.mod_pos_bound (crt_sum x) Q HQ) as Hm.
  rewrite (i128_id (Q + 1)) by lia.
  rewrite Z.quot_div_nonneg by lia.
  destruct (Z.leb_spec ((Q + 1) / 2) (crt_sum x mod Q)); [|reflexivity].
  apply i128_id. lia.
Qed.

Lemma crt_sum_residue x k : (k < 4)%nat -> crt_sum x mod q k = nth k x 0 mod q k.
Proof.
  intros Hk. destruct (ready_k k Hk) as (Hq & _ & _ & _ & _ & Hinv & Hz).
  unfold crt_sum. rewrite add4_mod by lia.
  destruct k as [|[|[|[|k]]]]; try lia.
  - rewrite (term_vanish _ (qm ps 1)), (term_vanish _ (qm ps 2)), (term_vanish _ (qm ps 3)) by (try apply Hz; lia).
    unfold tk. rewrite crt_term_cong by (fold (c 0%nat); lia). rewrite !Z.add_0_r. apply Z.mod_mod; lia.
  - rewrite (term_vanish _ (qm ps 0)), (term_vanish _ (qm ps 2)), (term_vanish _ (qm ps 3)) by (try apply Hz; lia).
    unfold tk. rewrite crt_term_cong by (fold (c 1%nat); lia). rewrite !Z.add_0_r, Z.add_0_l. apply Z.mod_mod; lia.
  - rewrite (term_vanish _ (qm ps 0)), (term_vanish _ (qm ps 1)), (term_vanish _ (qm ps 3)) by (try apply Hz; lia).
    unfold tk. rewrite crt_term_cong by (fold (c 2%nat); lia). rewrite !Z.add_0_r, Z.add_0_l. apply Z.mod_mod; lia.
  - rewrite (term_vanish _ (qm ps 0)), (term_vanish _ (qm ps 1)), (term_vanish _ (qm ps 2)) by (try apply Hz; lia).
    unfold tk. rewrite crt_term_cong by (fold (c 3%nat); lia). rewrite !Z.add_0_l. apply Z.mod_mod; lia.
Qed.

Lemma divide_Q d : (forall k, (k < 4)%nat -> (q k | d)) -> (Q | d).
Proof.
  intros H. destruct ready_global as (_ & _ & _ & G1 & G2 & G3).
  unfold Q, Qprod. fold (q 0%nat) (q 1%nat) (q 2%nat) (q 3%nat).
  apply coprime_divide_mul; [exact G3| |apply H; lia].
  apply coprime_divide_mul; [exact G2| |apply H; lia].
  apply coprime_divide_mul; [exact G1|apply H; lia|apply H; lia].
Qed.

Theorem b_to_znx128_exact_gen : forall x v,
  (forall k, (k < 4)%nat -> nth k x 0 mod q k = v mod q k) ->
  2 * Z.abs v < Q ->
  b_to_znx128 ps x = v.
Proof.
  intros x v Hres Hv. rewrite b_to_znx128_unwrapped. cbv zeta.
  pose proof Q_pos as HQ. destruct ready_global as (_ & _ & Hodd & _).
  set (m := crt_sum x mod Q).
  pose proof (Z.mod_pos_bound (crt_sum x) Q HQ) as Hm. fold m in Hm.
  assert (Hdiv : (Q | m - v)).
  { apply divide_Q. intros k Hk. destruct (ready_k k Hk) as (Hq & _ & _ & _ & Hd & _).
    apply eqmod_divide; [lia|]. rewrite <- Hres by exact Hk. rewrite <- crt_sum_residue by exact Hk.
    unfold m. symmetry. apply Zmod_div_mod; [lia|lia|]. apply Z.mod_divide; [lia|exact Hd]. }
  destruct Hdiv as [w Hw].
  assert (HQodd : Q = 2 * (Q / 2) + 1).
  { rewrite (Z.div_mod Q 2) at 1 by lia. rewrite Zmod_odd, Hodd. reflexivity. }
  assert (Hhalf : (Q + 1) / 2 = Q / 2 + 1).
  { rewrite HQodd at 1. replace (2 * (Q / 2) + 1 + 1) with ((Q / 2 + 1) * 2) by ring. apply Z.div_mul; lia. }
  rewrite Hhalf.
  assert (Hw01 : w = 0 \/ w = 1) by nia.
  destruct Hw01 as [-> | ->].
  - destruct (Z.leb_spec (Q / 2 + 1) m); lia.
  - destruct (Z.leb_spec (Q / 2 + 1) m); lia.
Qed.
End Crt.

Theorem b_to_znx128_exact : forall ps, In ps three_sets -> forall x v,
  (forall k, (k < 4)%nat -> nth k x 0 mod qk ps k = v mod qk ps k) ->
  2 * Z.abs v < Qprod ps ->
  b_to_znx128 ps x = v.
Proof. intros ps Hin. apply b_to_znx128_exact_gen. apply crt_ready_three; exact Hin. Qed.

(* round trip i64 -> q120b -> i128 *)
Corollary b_round_trip : forall ps, In ps three_sets -> forall x, in_range 64 x ->
  b_to_znx128 ps (b_from_znx64 ps x) = x.
Proof.
  intros ps Hin x Hx. apply b_to_znx128_exact; [exact Hin| |].
  - intros k Hk. apply (b_from_znx64_vec ps Hin x Hx k Hk).
  - unfold in_range in Hx. change (64 - 1) with 63 in Hx.
    assert (Hc : 2 ^ 64 <? Qprod ps = true) by (cbn [In three_sets] in Hin; destruct Hin as [<-|[<-|[<-|[]]]]; vm_compute; reflexivity).
    apply Z.ltb_lt in Hc. change (2 ^ 64) with (2 * 2 ^ 63) in Hc. lia.
Qed.
