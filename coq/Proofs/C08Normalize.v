(* C08, level 3: vec_znx_normalize_inter_base2k (same radix, any signed bit offset), per coefficient.
   Closed form: the output limbs are a window of the balanced expansion of the shifted input. *)
From PV Require Import Base.MachineInt Model.Znx Model.Limbs Model.C08Oracle
  Proofs.ZnxDigit Proofs.C08Steps Proofs.C08Chain Proofs.C08Loops Proofs.C08Value.
Open Scope Z_scope.

(* Rust's truncating % and / with the correction for negative offsets = floor division *)
Lemma split_offset_spec (b off : Z) : 1 <= b -> split_offset b off = (off mod b, off / b).
Proof.
  intros Hb. unfold split_offset.
  pose proof (Z.quot_rem' off b) as Hqr.
  set (r := Z.rem off b) in *. set (q := Z.quot off b) in *.
  destruct (Z.ltb_spec off 0) as [Hneg|Hpos]; cbn [andb].
  - pose proof (Z.rem_bound_pos_neg off b ltac:(lia) ltac:(lia)) as Hr. fold r in Hr.
    destruct (Z.eqb_spec r 0) as [E|E]; cbn [negb].
    + f_equal; [apply (Z.mod_unique off b q r)|apply (Z.div_unique off b q r)]; lia.
    + rewrite Z.rem_small by lia.
      f_equal; [apply (Z.mod_unique off b (q - 1) (r + b))|apply (Z.div_unique off b (q - 1) (r + b))]; lia.
  - pose proof (Z.rem_bound_pos off b ltac:(lia) ltac:(lia)) as Hr. fold r in Hr.
    f_equal; [apply (Z.mod_unique off b q r)|apply (Z.div_unique off b q r)]; lia.
Qed.

Lemma natc_cases (x : Z) (n : nat) :
  (x <= 0 /\ natc x 0 (zn n) = 0%nat) \/ (0 < x < zn n /\ zn (natc x 0 (zn n)) = x) \/
  (zn n <= x /\ natc x 0 (zn n) = n).
Proof. unfold natc, clampZ, zn. lia. Qed.

(* the index arithmetic of normalize_inter *)
Lemma inter_shape (lo : Z) (rsz asz : nat) :
  let res_end := natc (- lo) 0 (zn rsz) in
  let res_start := natc (zn asz - lo) 0 (zn rsz) in
  let a_end := natc lo 0 (zn asz) in
  let a_start := natc (zn rsz + lo) 0 (zn asz) in
  let a_out := (asz - a_start)%nat in
  let mid := (a_start - a_end)%nat in
  ((a_start <= asz)%nat /\ (mid <= a_start)%nat /\ (mid <= res_start)%nat /\
   (res_start - mid = res_end)%nat /\ (res_start <= rsz)%nat /\ (res_end <= rsz)%nat) /\
  ((0 < mid)%nat -> zn a_out + zn res_start = zn asz - lo) /\
  ((0 < res_end)%nat -> lo < 0 /\ (a_out + mid = asz)%nat /\
                   zn (Z.to_nat (- lo) - rsz) + zn res_end = - lo) /\
  (forall i, (res_start <= i < rsz)%nat -> zn asz - lo - 1 - zn i < 0).
Proof.
  intros res_end res_start a_end a_start a_out mid. unfold mid, a_out.
  destruct (natc_cases (-lo) rsz) as [[? E1]|[[? E1]|[? E1]]];
  destruct (natc_cases (zn asz - lo) rsz) as [[? E2]|[[? E2]|[? E2]]];
  destruct (natc_cases lo asz) as [[? E3]|[[? E3]|[? E3]]];
  destruct (natc_cases (zn rsz + lo) asz) as [[? E4]|[[? E4]|[? E4]]];
  fold res_end in E1; fold res_start in E2; fold a_end in E3; fold a_start in E4;
  clearbody res_end res_start a_end a_start; unfold zn in *;
  (split; [lia|split; [lia|split; [lia|intros i Hi; lia]]]).
Qed.

Section Inter.
Variable b : Z.
Hypothesis Hb : 1 <= b <= 62.

Let Hb1 : 1 <= b. Proof. lia. Qed.

(* the per-phase input sequences are pieces of the global sequence vin *)
Lemma car_low (lsh : Z) (a : list Z) (cnt : nat) : (cnt <= length a)%nat ->
  car b (fun t => nthZ a (length a - t - 1) * 2 ^ lsh) 0 cnt = car b (vin a lsh) 0 cnt.
Proof.
  intros Hc. apply car_ext. intros t Ht. unfold vin.
  destruct (Nat.ltb_spec t (length a)); [|lia]. f_equal. f_equal. lia.
Qed.

Lemma car_mid (lsh : Z) (a : list Z) (a_start p cnt : nat) :
  (a_start <= length a)%nat -> p = (length a - a_start)%nat -> (cnt <= a_start)%nat ->
  car b (fun t => nthZ a (a_start - t - 1) * 2 ^ lsh) (car b (vin a lsh) 0 p) cnt
  = car b (vin a lsh) 0 (p + cnt).
Proof.
  intros H1 H2 H3. rewrite car_shift. apply car_ext. intros t Ht. unfold vin.
  destruct (Nat.ltb_spec (p + t) (length a)); [|lia]. f_equal. f_equal. lia.
Qed.

Lemma dig_mid (lsh : Z) (a : list Z) (a_start p cnt s : nat) :
  (a_start <= length a)%nat -> p = (length a - a_start)%nat -> (cnt <= a_start)%nat -> (s < cnt)%nat ->
  dig b (fun t => nthZ a (a_start - t - 1) * 2 ^ lsh) (car b (vin a lsh) 0 p) s
  = dig b (vin a lsh) 0 (p + s).
Proof.
  intros H1 H2 H3 H4. rewrite dig_shift. apply dig_ext. intros t Ht. unfold vin.
  destruct (Nat.ltb_spec (p + t) (length a)); [|lia]. f_equal. f_equal. lia.
Qed.

(* continuing the chain above the top limb of a: zero inputs *)
Lemma car_above (lsh : Z) (a : list Z) (g : nat) :
  car b zseq (car b (vin a lsh) 0 (length a)) g = car b (vin a lsh) 0 (length a + g).
Proof.
  rewrite car_shift. apply car_ext. intros t Ht. rewrite vin_zero by lia. reflexivity.
Qed.

Lemma dig_above (lsh : Z) (a : list Z) (p s : nat) (u : nat -> Z) : (length a <= p)%nat ->
  (forall t, u t = 0) ->
  dig b u (car b (vin a lsh) 0 p) s = dig b (vin a lsh) 0 (p + s).
Proof.
  intros Hp Hu. rewrite dig_shift. apply dig_ext. intros t Ht. rewrite vin_zero by lia. apply Hu.
Qed.

Lemma vbound_vin (lsh : Z) (a : list Z) : 0 <= lsh < b -> hrl a -> vbound b (vin a lsh).
Proof.
  intros Hl Ha t. unfold vin. destruct (Nat.ltb_spec t (length a)).
  - apply shifted_bound; auto. pose proof H62_pos; lia.
  - pose proof (pow2_pos (b - 1) ltac:(lia)). pose proof H62_pos. cbn [Z.abs]. nia.
Qed.

Lemma car_vin_hr (lsh : Z) (a : list Z) (j : nat) : 0 <= lsh < b -> hrl a ->
  Z.abs (car b (vin a lsh) 0 j) <= 2 ^ 62.
Proof.
  intros Hl Ha. apply car_hr; auto. apply vbound_vin; auto. pose proof H62_pos; cbn [Z.abs]; lia.
Qed.

(* closed form of normalize_inter *)
Theorem normalize_inter_nth (off : Z) (a r0 : list Z) : hrl a ->
  let out := normalize_inter 64 b off a r0 in
  length out = length r0 /\
  forall i, (i < length r0)%nat ->
    nthZ out i = dgz b (vin a (off mod b)) (zn (length a) - off / b - 1 - zn i).
Proof.
  intros Ha. cbv zeta. unfold normalize_inter.
  rewrite (split_offset_spec b off) by lia.
  assert (Hl : 0 <= off mod b < b) by (apply Z.mod_pos_bound; lia).
  set (lsh := off mod b) in *. set (lo := off / b). clearbody lsh lo.
  set (rsz := length r0). set (asz := length a).
  set (res_end := natc (- lo) 0 (zn rsz)).
  set (res_start := natc (zn asz - lo) 0 (zn rsz)).
  set (a_end := natc lo 0 (zn asz)).
  set (a_start := natc (zn rsz + lo) 0 (zn asz)).
  set (a_out := (asz - a_start)%nat).
  set (mid := (a_start - a_end)%nat).
  set (V := vin a lsh).
  (* shape arithmetic *)
  destruct (inter_shape lo rsz asz) as (Hshape & Hpos_mid & Htop & Hzero).
  fold res_end res_start a_end a_start a_out mid in Hshape, Hpos_mid, Htop, Hzero.
  destruct Hshape as (S1 & S2 & S3 & S4 & S5 & S6).
  (* phases *)
  rewrite (carry_phase_car b Hb lsh a asz a_out Hl Ha).
  pose proof (car_low lsh a a_out ltac:(unfold a_out, asz; lia)) as CL. fold asz V in CL.
  rewrite CL. clear CL.
  destruct (zero_range_spec r0 res_start rsz) as [Z1 Z2].
  set (r1 := zero_range r0 res_start rsz) in *.
  assert (Hc0 : Z.abs (car b V 0 a_out) <= 2 ^ 62) by (apply car_vin_hr; auto).
  destruct (mid_phase_spec b Hb true lsh a res_start a_start mid r1 (car b V 0 a_out) Hl Ha
              ltac:(discriminate) Hc0 S3) as (M1 & M2 & M3).
  destruct (mid_phase 64 true b lsh a res_start a_start mid (r1, car b V 0 a_out)) as [r2 c2].
  cbn [fst snd] in M1, M2, M3. cbv beta iota.
  pose proof (car_mid lsh a a_start a_out mid S1 eq_refl S2) as CM. fold V in CM.
  rewrite CM in M1. clear CM.
  assert (Hc2 : Z.abs c2 <= 2 ^ 62) by (rewrite M1; apply car_vin_hr; auto).
  set (gap := (Z.to_nat (- lo) - rsz)%nat) in *.
  set (c3 := if lo <? 0 then gap_phase 64 b gap c2 else c2).
  assert (Hc3 : c3 = if lo <? 0 then car b zseq c2 gap else c2).
  { unfold c3. destruct (lo <? 0); [apply gap_phase_car; auto|reflexivity]. }
  assert (Hc3b : Z.abs c3 <= 2 ^ 62).
  { rewrite Hc3. destruct (lo <? 0); [|exact Hc2]. apply car_hr; auto. apply vbound_zseq; auto. }
  destruct (top_phase_spec b Hb true lsh res_end r2 c3 Hl ltac:(discriminate) Hc3b) as [T1 T2].
  cbv beta in T2.
  set (out := fst (top_phase 64 true b lsh res_end (r2, c3))) in *.
  clear Hc0 Hc2 Hc3b. (* magnitude bounds are no longer needed: they slow lia down *)
  split; [rewrite T1, M2; exact Z1|].
  intros i Hi. rewrite T2, M2, Z1.
  destruct (Nat.ltb_spec i res_end) as [Htp|Htp].
  - (* top limbs: carries only *)
    destruct (Nat.ltb_spec i (length r0)) as [_|]; [|unfold rsz in *; lia]. cbn [andb].
    destruct (Htop ltac:(lia)) as (Hlo & Ham & Hg).
    rewrite Hc3. destruct (Z.ltb_spec lo 0) as [_|]; [|lia].
    rewrite M1, Ham.
    pose proof (car_above lsh a gap) as CA. fold asz V in CA. rewrite CA. clear CA.
    pose proof (dig_above lsh a (asz + gap) (res_end - 1 - i)
                  (fun t : nat => if Nat.ltb t res_end then 0 * 2 ^ lsh else 0)
                  ltac:(unfold asz; lia) ltac:(intros t; cbv beta; destruct (Nat.ltb t res_end); [apply Z.mul_0_l|reflexivity])) as DA. fold V in DA. rewrite DA. clear DA.
    rewrite dgz_nonneg by (unfold zn in *; lia).
    f_equal. unfold zn in *. lia.
  - rewrite M3, Z1. fold rsz.
    destruct (Nat.ltb_spec i res_start) as [Hmd|Hmd].
    + (* limbs computed from a *)
      destruct (Nat.leb_spec (res_start - mid) i) as [_|]; [|lia].
      destruct (Nat.ltb_spec i rsz) as [_|]; [|unfold rsz in *; lia]. cbn [andb].
      rewrite Z.add_0_l.
      pose proof (dig_mid lsh a a_start a_out mid (res_start - 1 - i) S1 eq_refl S2 ltac:(lia)) as DM.
      fold V in DM. rewrite DM. clear DM. specialize (Hpos_mid ltac:(lia)).
      rewrite dgz_nonneg by (unfold zn in *; lia).
      f_equal. unfold zn in *. lia.
    + (* limbs below the precision of a: zero *)
      rewrite Bool.andb_false_r. cbn [andb]. rewrite Z2.
      destruct (Nat.leb_spec res_start i) as [_|]; [|lia].
      destruct (Nat.ltb_spec i rsz) as [_|]; [|unfold rsz in *; lia]. cbn [andb].
      rewrite dgz_neg; [reflexivity|]. apply Hzero; lia.
Qed.

End Inter.

Lemma Forall_of_nth (Q : Z -> Prop) (l : list Z) :
  (forall i, (i < length l)%nat -> Q (nthZ l i)) -> Forall Q l.
Proof.
  intros Hn. apply Forall_forall. intros x Hx.
  destruct (In_nth l x 0 Hx) as (i & Hi & Ei). rewrite <- Ei. apply Hn; auto.
Qed.

Lemma dgz_range (b : Z) (v : nat -> Z) (t : Z) : 1 <= b -> in_range b (dgz b v t).
Proof.
  intros Hb. unfold dgz. destruct (t <? 0); [|apply dig_range; auto].
  unfold in_range. pose proof (pow2_pos (b - 1) ltac:(lia)). lia.
Qed.

(* from a closed form (window of digits at top position T - 1) to the torus statement *)
Lemma window_value (b P lo lsh : Z) (a out : list Z) : 1 <= b -> 0 <= lsh < b ->
  (forall i, (i < length out)%nat ->
     nthZ out i = dgz b (vin a lsh) (zn (length a) - lo - 1 - zn i)) ->
  zn (length out) * b + zn (length a) * b + Z.abs (lo * b + lsh) <= P ->
  let D := tor_abs P (val_scaled P b out - val_scaled (P + (lo * b + lsh)) b a) in
  D <= 2 ^ (P - zn (length out) * b) /\
  (zn (length a) * b - (lo * b + lsh) <= zn (length out) * b -> D = 0).
Proof.
  intros Hb Hl Hn HP. cbv zeta.
  set (A := zn (length a)) in *. set (R := zn (length out)) in *.
  assert (HA : 0 <= A) by (unfold A, zn; lia). assert (HR : 0 <= R) by (unfold R, zn; lia).
  assert (HP0 : 0 <= P) by nia.
  set (T := A - lo). set (E := P - T * b).
  assert (Hexact : A * b - (lo * b + lsh) <= R * b -> T <= R) by (unfold T; nia).
  destruct (Z_le_gt_dec 0 E) as [HE|HE].
  - assert (Hval : val_scaled P b out = dval P b (vin a lsh) T (length out)).
    { rewrite val_scaled_sumn. unfold dval. apply sumn_ext. intros i Hi. rewrite Hn by auto.
      f_equal. }
    rewrite Hval, (val_scaled_vin b P lo lsh a Hb ltac:(lia) HE). fold A T E.
    destruct (dval_value b Hb (vin a lsh) (length a) (fun t Ht => vin_zero a lsh t Ht) P T (length out)
                ltac:(fold R; nia) HE) as (delta & Y & H1 & H2 & H3).
    fold E in H1. rewrite H1, tor_abs_add_mul by auto. fold R in H2, H3.
    split.
    + pose proof (tor_abs_le P delta HP0). lia.
    + intros Hx. rewrite H3 by auto. apply tor_abs_0; auto.
  - (* only possible when the output is empty and something is truncated *)
    assert (R = 0) by (unfold E, T in HE; nia).
    split.
    + replace (P - R * b) with P by nia. apply tor_abs_le_unit; auto.
    + intros Hx. specialize (Hexact Hx). unfold E in HE. nia.
Qed.

Section InterValue.
Variable b : Z.
Hypothesis Hb : 1 <= b <= 62.

Theorem normalize_inter_value (off : Z) (a r0 : list Z) :
  Forall (fun x => Z.abs x <= 2 ^ 62) a ->
  let out := normalize_inter 64 b off a r0 in
  length out = length r0 /\
  Forall (in_range b) out /\
  out = normalize_inter 64 b off a (zeros (length r0)) /\
  forall P, zn (length r0) * b + zn (length a) * b + Z.abs off <= P ->
    let D := tor_abs P (val_scaled P b out - val_scaled (P + off) b a) in
    D <= 2 ^ (P - zn (length r0) * b) /\
    (zn (length a) * b - off <= zn (length r0) * b -> D = 0).
Proof.
  intros HF. apply hrl_of_Forall in HF. cbv zeta.
  destruct (normalize_inter_nth b Hb off a r0 HF) as [L1 N1].
  destruct (normalize_inter_nth b Hb off a (zeros (length r0)) HF) as [L2 N2].
  rewrite zeros_length in L2, N2.
  split; [exact L1|]. split; [|split].
  - apply Forall_of_nth. intros i Hi. rewrite N1 by lia. apply dgz_range; lia.
  - apply list_eq_nth; [lia|]. intros i Hi. rewrite N1, N2 by lia. reflexivity.
  - intros P HP.
    pose proof (Z.div_mod off b ltac:(lia)) as Hoff.
    assert (Hl : 0 <= off mod b < b) by (apply Z.mod_pos_bound; lia).
    assert (Eo : off / b * b + off mod b = off) by lia.
    pose proof (window_value b P (off / b) (off mod b) a (normalize_inter 64 b off a r0)
                  ltac:(lia) Hl ltac:(intros i Hi; apply N1; lia)) as W.
    rewrite Eo, L1 in W. apply W. exact HP.
Qed.

End InterValue.
