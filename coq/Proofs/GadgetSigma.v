(* The exact Galois automorphism sigmaE g (Model/GadgetDerived.v) on Z[X]/(X^n+1), gcd g (2n) = 1:
   agreement with Poly.sigma w g on small coefficients (so that C09's theorems transfer), the characterisation
   sigma_g a (X^g) = a (X) on the exact extension ext', uniqueness, and from it the ring-homomorphism facts
   sigmaE_padd / psub / pneg / pscale / pzero / pmul, sup-norm invariance, composition, inverse.
   C03_automorphism_phase_sigma_lemma: C03_automorphism_phase with sg := sigmaE g, no homomorphism hypothesis left. *)
From Coq Require Import Znumtheory.
From PV Require Import Base.MachineInt Model.Znx Model.Limbs Model.Flat Model.Ring Model.Poly Model.DftAbs Model.Gadget Model.GadgetSpec Model.GadgetDerived
  Proofs.C07Dft Proofs.C07Ring Proofs.C09Lists Proofs.C09Ring Proofs.C09Sigma Proofs.GadgetDecomp Proofs.GadgetPhase Proofs.GadgetBound Proofs.C03Phase.
Open Scope Z_scope.

(* ---------- the exact extension ext' : periodicity, injectivity ---------- *)
Section ExtExact.
Lemma ext'_shift (b : list Z) (k q : Z) : (0 < length b)%nat ->
  ext' b (k + q * Z.of_nat (length b)) = if Z.even q then ext' b k else - ext' b k.
Proof.
  intros Hl. unfold ext'. cbv zeta. set (n := Z.of_nat (length b)). assert (Hn : 0 < n) by (unfold n; lia).
  rewrite Z.div_add, Z.mod_add by lia.
  rewrite Z.even_add. destruct (Z.even (k / n)); destruct (Z.even q); cbn [Bool.eqb]; lia.
Qed.

Lemma ext'_anti (b : list Z) k : (0 < length b)%nat -> ext' b (k + Z.of_nat (length b)) = - ext' b k.
Proof. intros Hl. rewrite <- (Z.mul_1_l (Z.of_nat (length b))) at 1. rewrite ext'_shift by exact Hl. reflexivity. Qed.

Lemma ext'_period (b : list Z) k s : (0 < length b)%nat -> ext' b (k + s * (2 * Z.of_nat (length b))) = ext' b k.
Proof.
  intros Hl. replace (s * (2 * Z.of_nat (length b))) with ((2 * s) * Z.of_nat (length b)) by ring.
  rewrite ext'_shift by exact Hl. rewrite Z.even_mul. reflexivity.
Qed.

Lemma ext'_nth (b : list Z) (i : nat) : (i < length b)%nat -> ext' b (Z.of_nat i) = nthZ b i.
Proof.
  intros H. unfold ext'. cbv zeta. rewrite Z.div_small, Z.mod_small by lia. cbn [Z.even]. rewrite Nat2Z.id. reflexivity.
Qed.

Lemma ext'_inj (a b : list Z) : length a = length b -> (forall k, ext' a k = ext' b k) -> a = b.
Proof.
  intros Hl H. apply nthZ_ext; [exact Hl|]. intros i Hi.
  rewrite <- !ext'_nth by lia. apply H.
Qed.

Lemma ext'_pscale c (b : list Z) k : ext' (pscale c b) k = c * ext' b k.
Proof. unfold ext'. cbv zeta. rewrite pscale_length. rewrite nthZ_pscale. destruct (Z.even _); ring. Qed.

Lemma ext'_pzero n k : ext' (pzero n) k = 0.
Proof. unfold ext'. cbv zeta. unfold nthZ. rewrite nth_pzero. destruct (Z.even _); ring. Qed.

(* agreement with the wrapped extension on small coefficients *)
Lemma wneg_small w x : 1 <= w -> Z.abs x < 2 ^ (w - 1) -> wneg w x = - x.
Proof. intros Hw H. unfold wneg. apply wrap_id; [exact Hw|]. unfold in_range. lia. Qed.

Lemma nthZ_small (b : list Z) M i : (forall x, In x b -> Z.abs x < M) -> 0 < M -> Z.abs (nthZ b i) < M.
Proof.
  intros H HM. destruct (Nat.lt_ge_cases i (length b)) as [G|G].
  - apply H. unfold nthZ. apply nth_In; exact G.
  - unfold nthZ. rewrite nth_overflow by exact G. cbn. exact HM.
Qed.

Lemma ext_ext' w (b : list Z) k : 1 <= w -> (forall x, In x b -> Z.abs x < 2 ^ (w - 1)) -> ext w b k = ext' b k.
Proof.
  intros Hw H. unfold ext, ext'. cbv zeta. destruct (Z.even _); [reflexivity|].
  apply wneg_small; [exact Hw|]. apply nthZ_small; [exact H|]. apply pow2_pos. lia.
Qed.
End ExtExact.

(* ---------- sigmaE agrees with Poly.sigma on small coefficients ---------- *)
Section Agree.
Lemma sigmaE_sigma w g (a : list Z) : 1 <= w -> (forall x, In x a -> Z.abs x < 2 ^ (w - 1)) -> sigma w g a = sigmaE g a.
Proof.
  intros Hw H. unfold sigma, sigmaE. cbv zeta. apply fold_left_ext_in. intros r j _.
  rewrite (wneg_small w (nthZ a j)); [reflexivity|exact Hw|].
  apply nthZ_small; [exact H|]. apply pow2_pos. lia.
Qed.

(* a width that fits a given list *)
Definition wfit (a : list Z) : Z := pnorm a + 2.
Lemma wfit_ok (a : list Z) : 1 <= wfit a /\ forall x, In x a -> Z.abs x < 2 ^ (wfit a - 1).
Proof.
  pose proof (pnorm_nonneg a) as H0. unfold wfit. split; [lia|]. intros x Hx.
  pose proof (pnorm_in a x Hx). replace (pnorm a + 2 - 1) with (pnorm a + 1) by lia.
  pose proof (Z.pow_gt_lin_r 2 (pnorm a + 1) ltac:(lia) ltac:(lia)). lia.
Qed.

Lemma small_in_range w (a : list Z) : (forall x, In x a -> Z.abs x < 2 ^ (w - 1)) -> Forall (in_range w) a.
Proof. intros H. apply Forall_forall. intros x Hx. specialize (H x Hx). unfold in_range. lia. Qed.
End Agree.


Section SigmaE.
Variable g : Z.
Variable a : list Z.
Local Notation n := (Z.of_nat (length a)).

Lemma sigmaE_length : length (sigmaE g a) = length a.
Proof.
  destruct (wfit_ok a) as [Hw Hs]. rewrite <- (sigmaE_sigma (wfit a) g a Hw Hs). apply sigma_length.
Qed.

(* coefficient at position sg_pos j is +- a_j *)
Lemma sigmaE_nth j : Z.gcd g n = 1 -> (j < length a)%nat ->
  nthZ (sigmaE g a) (sg_pos g a j) = if sg_e g a j <? n then nthZ a j else - nthZ a j.
Proof.
  intros Hg Hj. destruct (wfit_ok a) as [Hw Hs]. rewrite <- (sigmaE_sigma (wfit a) g a Hw Hs).
  rewrite sigma_nth by assumption. unfold sg_val. destruct (_ <? _); [reflexivity|].
  apply wneg_small; [exact Hw|]. apply nthZ_small; [exact Hs|]. apply pow2_pos; lia.
Qed.

Lemma sigmaE_in x : Z.gcd g n = 1 -> In x (sigmaE g a) -> exists j, (j < length a)%nat /\ (x = nthZ a j \/ x = - nthZ a j).
Proof.
  intros Hg Hx. destruct (In_nth _ _ 0 Hx) as [t [Ht <-]]. rewrite sigmaE_length in Ht.
  destruct (sg_pos_onto g a t Hg Ht) as [j [Hj <-]]. exists j. split; [exact Hj|].
  change (nth (sg_pos g a j) (sigmaE g a) 0) with (nthZ (sigmaE g a) (sg_pos g a j)).
  rewrite sigmaE_nth by assumption. destruct (_ <? _); auto.
Qed.

(* the sup norm is invariant *)
Theorem sigmaE_pnorm : Z.gcd g n = 1 -> pnorm (sigmaE g a) = pnorm a.
Proof.
  intros Hg. apply Z.le_antisymm.
  - apply pnorm_le; [apply pnorm_nonneg|]. intros x Hx.
    destruct (sigmaE_in x Hg Hx) as [j [Hj [-> | ->]]]; rewrite ?Z.abs_opp; apply pnorm_nth.
  - apply pnorm_le_nth; [apply pnorm_nonneg|]. intros j Hj.
    assert (Hn : 0 < n) by lia.
    pose proof (sigmaE_nth j Hg Hj) as E. pose proof (pnorm_nth (sigmaE g a) (sg_pos g a j)) as B.
    unfold nthZ in E. rewrite E in B. destruct (_ <? _); rewrite ?Z.abs_opp in B; exact B.
Qed.

Lemma sigmaE_small w : Z.gcd g n = 1 -> (forall x, In x a -> Z.abs x < 2 ^ (w - 1)) -> forall x, In x (sigmaE g a) -> Z.abs x < 2 ^ (w - 1).
Proof.
  intros Hg Hs x Hx. assert (HM : 0 < 2 ^ (w - 1)).
  { destruct (Z_lt_le_dec (w - 1) 0) as [G|G]; [|apply pow2_pos; exact G].
    destruct a as [|y l]; [destruct Hx|]. pose proof (Hs y (or_introl eq_refl)). lia. }
  destruct (sigmaE_in x Hg Hx) as [j [Hj [-> | ->]]]; rewrite ?Z.abs_opp; apply nthZ_small; assumption.
Qed.

(* sigma_g a (X^g) = a (X) on the whole exact extension *)
Theorem ext'_sigmaE k : Z.gcd g (2 * n) = 1 -> (0 < length a)%nat -> ext' (sigmaE g a) (k * g) = ext' a k.
Proof.
  intros Hg2 Hl. destruct (wfit_ok a) as [Hw Hs]. pose proof (gcd2n_gcdn g n Hg2) as Hg.
  rewrite <- (ext_ext' (wfit a) (sigmaE g a) (k * g) Hw (sigmaE_small (wfit a) Hg Hs)).
  rewrite <- (ext_ext' (wfit a) a k Hw Hs).
  rewrite <- (sigmaE_sigma (wfit a) g a Hw Hs).
  apply ext_sigma; try assumption. apply small_in_range; exact Hs.
Qed.
End SigmaE.

(* ---------- uniqueness: sigmaE g a is THE list c with c(X^g) = a(X) ---------- *)
Section Unique.
Lemma bezout_all g m : Z.gcd g m = 1 -> forall t, exists k s, t = k * g + s * m.
Proof.
  intros Hg t. assert (Hb : Bezout g m 1) by (apply rel_prime_bezout, Zgcd_1_rel_prime; exact Hg).
  destruct Hb as [u v Huv]. exists (t * u), (t * v). rewrite <- (Z.mul_1_r t) at 1. rewrite <- Huv. ring.
Qed.

Theorem sigmaE_unique g (a c : list Z) : Z.gcd g (2 * Z.of_nat (length a)) = 1 -> (0 < length a)%nat -> length c = length a ->
  (forall k, ext' c (k * g) = ext' a k) -> c = sigmaE g a.
Proof.
  intros Hg Hl Hc H. apply ext'_inj; [rewrite sigmaE_length; exact Hc|]. intros t.
  destruct (bezout_all g _ Hg t) as [k [s ->]].
  transitivity (ext' c (k * g)).
  - rewrite <- Hc. apply ext'_period. lia.
  - rewrite H, <- (ext'_sigmaE g a k Hg Hl). symmetry.
    rewrite <- (sigmaE_length g a). apply ext'_period. rewrite sigmaE_length. exact Hl.
Qed.
End Unique.


(* ---------- ring-homomorphism facts of sigmaE on lists of length n, gcd g (2n) = 1 ---------- *)
Section Hom.
Variables (n : nat) (g : Z).
Hypothesis Hn : (0 < n)%nat.
Hypothesis Hg : Z.gcd g (2 * Z.of_nat n) = 1.

Theorem sigmaE_len a : length a = n -> length (sigmaE g a) = n.
Proof. intros H. rewrite sigmaE_length. exact H. Qed.

Theorem sigmaE_padd a b : length a = n -> length b = n -> sigmaE g (padd a b) = padd (sigmaE g a) (sigmaE g b).
Proof.
  intros Ha Hb. assert (L : length (padd a b) = n) by (rewrite padd_length, Ha, Hb; apply Nat.min_id).
  symmetry. apply sigmaE_unique; rewrite ?L; try assumption.
  - rewrite padd_length, !sigmaE_length, Ha, Hb. apply Nat.min_id.
  - intros k. rewrite ext'_padd by (rewrite !sigmaE_length; lia).
    rewrite !ext'_sigmaE by (rewrite ?Ha, ?Hb; assumption).
    symmetry. apply ext'_padd. lia.
Qed.

Theorem sigmaE_psub a b : length a = n -> length b = n -> sigmaE g (psub a b) = psub (sigmaE g a) (sigmaE g b).
Proof.
  intros Ha Hb. assert (L : length (psub a b) = n) by (rewrite psub_length, Ha, Hb; apply Nat.min_id).
  symmetry. apply sigmaE_unique; rewrite ?L; try assumption.
  - rewrite psub_length, !sigmaE_length, Ha, Hb. apply Nat.min_id.
  - intros k. rewrite ext'_psub by (rewrite !sigmaE_length; lia).
    rewrite !ext'_sigmaE by (rewrite ?Ha, ?Hb; assumption).
    symmetry. apply ext'_psub. lia.
Qed.

Theorem sigmaE_pscale c a : length a = n -> sigmaE g (pscale c a) = pscale c (sigmaE g a).
Proof.
  intros Ha. assert (L : length (pscale c a) = n) by (rewrite pscale_length; exact Ha).
  symmetry. apply sigmaE_unique; rewrite ?L; try assumption.
  - rewrite pscale_length, sigmaE_length. exact Ha.
  - intros k. rewrite !ext'_pscale. rewrite ext'_sigmaE by (rewrite ?Ha; assumption). reflexivity.
Qed.

Theorem sigmaE_pneg a : length a = n -> sigmaE g (pneg a) = pneg (sigmaE g a).
Proof.
  intros Ha. assert (L : length (pneg a) = n) by (rewrite pneg_length; exact Ha).
  symmetry. apply sigmaE_unique; rewrite ?L; try assumption.
  - rewrite pneg_length, sigmaE_length. exact Ha.
  - intros k. rewrite !ext'_pneg. rewrite ext'_sigmaE by (rewrite ?Ha; assumption). reflexivity.
Qed.

Theorem sigmaE_pzero : sigmaE g (pzero n) = pzero n.
Proof.
  symmetry. apply sigmaE_unique; rewrite ?pzero_length; try assumption; [reflexivity|].
  intros k. rewrite !ext'_pzero. reflexivity.
Qed.
End Hom.

(* ---------- sums over a complete residue system ---------- *)
Section Perm.
Lemma period_all (F : Z -> Z) m : (forall z, F (z + m) = F z) -> forall s z, F (z + s * m) = F z.
Proof.
  intros H s. assert (Hpos : forall t, 0 <= t -> forall z, F (z + t * m) = F z).
  { intros t Ht. pattern t. apply natlike_ind; [intros z; f_equal; lia| |exact Ht].
    intros x Hx IH z. replace (z + Z.succ x * m) with ((z + x * m) + m) by lia. rewrite H. apply IH. }
  intros z. destruct (Z_le_gt_dec 0 s) as [G|G]; [apply Hpos; exact G|].
  rewrite <- (Hpos (- s) ltac:(lia) (z + s * m)). f_equal. lia.
Qed.

(* reindexing a sum by a bijection of [0, n) *)
Lemma zsum_reindex (G : nat -> Z) (p : nat -> nat) n :
  (forall i, (i < n)%nat -> (p i < n)%nat) ->
  (forall i j, (i < n)%nat -> (j < n)%nat -> p i = p j -> i = j) ->
  (forall t, (t < n)%nat -> exists i, (i < n)%nat /\ p i = t) ->
  zsum (fun i => G (p i)) n = zsum G n.
Proof.
  intros Hlt Hinj Honto.
  rewrite (zsum_ext _ (fun i => zsum (fun j => if Nat.eqb j (p i) then G j else 0) n)).
  2:{ intros i Hi. symmetry. apply zsum_single. apply Hlt; exact Hi. }
  rewrite zsum_swap. apply zsum_ext; intros j Hj.
  destruct (Honto j Hj) as [i0 [Hi0 E]].
  rewrite (zsum_ext _ (fun i => if Nat.eqb i i0 then (fun _ => G j) i else 0)).
  - exact (zsum_single (fun _ => G j) i0 n Hi0).
  - intros i Hi. destruct (Nat.eqb_spec j (p i)) as [E1|E1]; destruct (Nat.eqb_spec i i0) as [E2|E2]; try reflexivity.
    + exfalso. apply E2. apply Hinj; try assumption. lia.
    + exfalso. apply E1. subst i. symmetry; exact E.
Qed.

(* multiplication by a unit permutes the residues mod n *)
Lemma zsum_mul_unit (F : Z -> Z) (n : nat) g : (0 < n)%nat -> Z.gcd g (Z.of_nat n) = 1 ->
  (forall z, F (z + Z.of_nat n) = F z) ->
  zsum (fun i => F (Z.of_nat i * g)) n = zsum (fun i => F (Z.of_nat i)) n.
Proof.
  intros Hn Hg Hper.
  set (l := repeat 0 n). assert (Ll : length l = n) by apply repeat_length.
  assert (Hn' : 0 < Z.of_nat (length l)) by lia.
  assert (Hg' : Z.gcd g (Z.of_nat (length l)) = 1) by (rewrite Ll; exact Hg).
  rewrite (zsum_ext _ (fun i => (fun t => F (Z.of_nat t)) (sg_pos g l i))).
  - apply (zsum_reindex (fun t => F (Z.of_nat t)) (sg_pos g l) n).
    + intros i _. pose proof (sg_pos_lt g l i Hn') as G. rewrite Ll in G. exact G.
    + intros i j Hi Hj. apply sg_pos_inj; rewrite ?Ll; assumption.
    + intros t Ht. rewrite <- Ll in Ht. destruct (sg_pos_onto g l t Hg' Ht) as [i [Hi E]]. exists i. rewrite Ll in Hi. auto.
  - intros i _. cbv beta. rewrite (sg_pos_mod g l i Hn'). rewrite Ll.
    pose proof (Z.div_mod (Z.of_nat i * g) (Z.of_nat n) ltac:(lia)) as E.
    rewrite E at 1. rewrite Z.add_comm, (Z.mul_comm (Z.of_nat n)). apply period_all; exact Hper.
Qed.
End Perm.


Section Mul.
(* the convolution formula on the whole extension *)
Lemma ext'_pmul (a b : list Z) t : length b = length a -> (0 < length a)%nat ->
  ext' (pmul a b) t = zsum (fun i => nthZ a i * ext' b (t - Z.of_nat i)) (length a).
Proof.
  intros Hb Hl. set (n := Z.of_nat (length a)). assert (Hn : 0 < n) by (unfold n; lia).
  pose proof (Z.div_mod t n ltac:(lia)) as E. pose proof (Z.mod_pos_bound t n Hn) as Hr.
  set (q := t / n) in *. set (r := t mod n) in *.
  assert (Et : t = r + q * n) by lia.
  replace (ext' (pmul a b) t) with (ext' (pmul a b) (r + q * Z.of_nat (length (pmul a b))))
    by (rewrite pmul_length; fold n; rewrite <- Et; reflexivity).
  rewrite ext'_shift by (rewrite pmul_length; exact Hl).
  assert (Er : ext' (pmul a b) r = zsum (fun i => nthZ a i * ext' b (r - Z.of_nat i)) (length a)).
  { rewrite <- (Z2Nat.id r) by lia. rewrite ext'_nth by (rewrite pmul_length; lia).
    unfold nthZ at 1. rewrite pmul_spec by (try assumption; lia). reflexivity. }
  assert (Es : forall i, ext' b (t - Z.of_nat i) = if Z.even q then ext' b (r - Z.of_nat i) else - ext' b (r - Z.of_nat i)).
  { intros i. replace (t - Z.of_nat i) with ((r - Z.of_nat i) + q * Z.of_nat (length b)) by (rewrite Hb; fold n; lia).
    apply ext'_shift. lia. }
  rewrite Er. destruct (Z.even q) eqn:Hq.
  - apply zsum_ext; intros i _. rewrite Es. reflexivity.
  - rewrite <- zsum_opp. apply zsum_ext; intros i _. rewrite Es. ring.
Qed.

Variables (n : nat) (g : Z).
Hypothesis Hn : (0 < n)%nat.
Hypothesis Hg : Z.gcd g (2 * Z.of_nat n) = 1.

(* sigma_g is multiplicative *)
Theorem sigmaE_pmul a b : length a = n -> length b = n -> sigmaE g (pmul a b) = pmul (sigmaE g a) (sigmaE g b).
Proof.
  intros Ha Hb. pose proof (gcd2n_gcdn g (Z.of_nat n) Hg) as Hgn.
  assert (L : length (pmul a b) = n) by (rewrite pmul_length; exact Ha).
  assert (La : length (sigmaE g a) = n) by (rewrite sigmaE_length; exact Ha).
  assert (Lb : length (sigmaE g b) = n) by (rewrite sigmaE_length; exact Hb).
  symmetry. apply sigmaE_unique; rewrite ?L; try assumption; [rewrite pmul_length; exact La|].
  intros k.
  rewrite ext'_pmul by lia. rewrite ext'_pmul by lia. rewrite La, Ha.
  set (F := fun z => ext' (sigmaE g a) z * ext' (sigmaE g b) (k * g - z)).
  assert (Hper : forall z, F (z + Z.of_nat n) = F z).
  { intros z. unfold F.
    replace (z + Z.of_nat n) with (z + 1 * Z.of_nat (length (sigmaE g a))) by (rewrite La; lia).
    rewrite ext'_shift by lia. cbn [Z.even].
    replace (k * g - (z + 1 * Z.of_nat (length (sigmaE g a)))) with ((k * g - z) + (-1) * Z.of_nat (length (sigmaE g b))) by (rewrite La, Lb; lia).
    rewrite ext'_shift by lia. cbn [Z.even]. ring. }
  transitivity (zsum (fun i => F (Z.of_nat i)) n).
  - apply zsum_ext; intros i Hi. unfold F. rewrite ext'_nth by lia. reflexivity.
  - rewrite <- (zsum_mul_unit F n g Hn Hgn Hper). apply zsum_ext; intros i Hi. unfold F.
    rewrite ext'_sigmaE by (rewrite ?Ha; assumption || lia).
    replace (k * g - Z.of_nat i * g) with ((k - Z.of_nat i) * g) by ring.
    rewrite ext'_sigmaE by (rewrite ?Hb; assumption || lia).
    rewrite ext'_nth by lia. reflexivity.
Qed.
End Mul.


Section Group.
Variable a : list Z.
Hypothesis Hl : (0 < length a)%nat.
Local Notation n2 := (2 * Z.of_nat (length a)).

Theorem sigmaE_compose g h : Z.gcd g n2 = 1 -> Z.gcd h n2 = 1 -> sigmaE g (sigmaE h a) = sigmaE (g * h) a.
Proof.
  intros Hg Hh. apply sigmaE_unique; try assumption.
  - apply gcd_mul_2n; assumption.
  - rewrite !sigmaE_length. reflexivity.
  - intros k. replace (k * (g * h)) with ((k * h) * g) by ring.
    rewrite ext'_sigmaE by (rewrite sigmaE_length; assumption). apply ext'_sigmaE; assumption.
Qed.

Theorem sigmaE_1 : sigmaE 1 a = a.
Proof.
  symmetry. apply sigmaE_unique; try assumption; [apply Z.gcd_1_l|reflexivity|].
  intros k. rewrite Z.mul_1_r. reflexivity.
Qed.

Theorem sigmaE_congr g h : Z.gcd g n2 = 1 -> Z.gcd h n2 = 1 -> g mod n2 = h mod n2 -> sigmaE g a = sigmaE h a.
Proof.
  intros Hg Hh E. apply sigmaE_unique; try assumption; [apply sigmaE_length|].
  intros k.
  pose proof (Z.div_mod g n2 ltac:(lia)) as Eg. pose proof (Z.div_mod h n2 ltac:(lia)) as Eh.
  rewrite E in Eg.
  assert (Eh' : h = g + (h / n2 - g / n2) * n2) by (rewrite Eh at 1; rewrite Eg at 1; ring).
  replace (k * h) with (k * g + (k * (h / n2 - g / n2)) * (2 * Z.of_nat (length (sigmaE g a))))
    by (rewrite sigmaE_length; rewrite Eh' at 2; ring).
  rewrite ext'_period by (rewrite sigmaE_length; exact Hl). apply ext'_sigmaE; assumption.
Qed.

Theorem sigmaE_inverse g h : Z.gcd g n2 = 1 -> (g * h) mod n2 = 1 -> sigmaE h (sigmaE g a) = a.
Proof.
  intros Hg Hinv.
  assert (Hh : Z.gcd h n2 = 1).
  { apply Zgcd_1_rel_prime. apply bezout_rel_prime.
    pose proof (Z.div_mod (g * h) n2 ltac:(lia)) as Hd. rewrite Hinv in Hd.
    apply (Bezout_intro h n2 1 g (- ((g * h) / n2))). lia. }
  rewrite sigmaE_compose by assumption.
  rewrite (sigmaE_congr (h * g) 1).
  - apply sigmaE_1.
  - apply gcd_mul_2n; assumption.
  - apply Z.gcd_1_l.
  - rewrite (Z.mul_comm h g), Hinv. symmetry. apply Z.mod_small. lia.
Qed.
End Group.

(* ---------------------------------------------------------------------------------------------------------------- *)
(* (3d) instantiated: sg = the exact Galois automorphism sigmaE g, no ring-homomorphism hypothesis left *)
Section AutoSigma.
Variables (n : nat) (g : Z).
Variables (P b : Z) (rin cols_out msize a_size dsize dnum : nat).
Variable ct : cols_t.
Variable res0 : cols_t.
Variable K : pmat.
Variables (Sk St : nat -> list Z).
Variables (s_in : nat -> list Z) (e I : nat -> nat -> list Z).
Hypothesis Hg : Z.gcd g (2 * Z.of_nat n) = 1.
Hypothesis Hct : wf_cols n (S rin) a_size ct.
Hypothesis HK : wf_pmat_in n (dnum * rin) (msize * cols_out) K.
Hypothesis Hn : (1 <= n)%nat.
Hypothesis Hco : (1 <= cols_out)%nat.
Hypothesis Hd : (1 <= dsize)%nat.
Hypothesis Hdrop : (dsize - 2 <= msize)%nat.
Hypothesis HS : forall co, length (Sk co) = n.
Hypothesis HS0 : Sk 0%nat = pone n.
Hypothesis HSt : forall co, St co = sigmaE g (Sk co).
Hypothesis Hsin : forall ci, length (s_in ci) = n.
Hypothesis He : forall row ci, length (e row ci) = n.
Hypothesis HI : forall row ci, length (I row ci) = n.
Hypothesis Hb : 0 <= b.
Hypothesis HP : Z.of_nat msize * b <= P.
Hypothesis HP2 : Z.of_nat dnum * Z.of_nat dsize * b <= P.
Hypothesis key_row : key_rows_ok P b n rin cols_out msize dsize dnum K Sk s_in e I.

Theorem C03_automorphism_phase_sigma_lemma :
  exists ks, keyswitch_internal n cols_out msize res0 ct a_size dsize dnum msize K = Some ks /\
    wf_cols n cols_out msize ks /\
    phase_f P b n cols_out msize (limbs_of (map (map (sigmaE g)) ks)) St
    = padd (padd (sigmaE g (padd (pval P b n (acol n ct 0) (Nat.min msize a_size))
                                 (psumf n (fun ci => pmul (pval_used P b n a_size dsize dnum (acol n (tl ct)) ci) (s_in ci)) rin)))
                 (sigmaE g (gadget_err P b n rin cols_out msize dsize dnum (acol n (tl ct)) K Sk e)))
           (pscale (2 ^ P) (sigmaE g (gadget_int b n rin cols_out msize dsize dnum (acol n (tl ct)) K Sk I))) /\
    pnorm (sigmaE g (gadget_err P b n rin cols_out msize dsize dnum (acol n (tl ct)) K Sk e))
    = pnorm (gadget_err P b n rin cols_out msize dsize dnum (acol n (tl ct)) K Sk e).
Proof.
  assert (Hn0 : (0 < n)%nat) by lia.
  destruct (C03_automorphism_phase_lemma n (sigmaE g)
              (sigmaE_len n g) (sigmaE_padd n g Hn0 Hg) (sigmaE_pmul n g Hn0 Hg) (fun c a => sigmaE_pscale n g Hn0 Hg c a)
              P b rin cols_out msize a_size dsize dnum ct res0 K Sk St s_in e I
              Hct HK Hn Hco Hd Hdrop HS HS0 HSt Hsin He HI Hb HP HP2 key_row) as [ks [E1 [E2 E3]]].
  exists ks. split; [exact E1|]. split; [exact E2|]. split; [exact E3|].
  apply sigmaE_pnorm.
  assert (L : length (gadget_err P b n rin cols_out msize dsize dnum (acol n (tl ct)) K Sk e) = n)
    by (apply gadget_err_length; first [exact He | intros; apply (acol_length n rin a_size (tl ct) (wf_tl n rin a_size ct Hct))]).
  rewrite L. apply gcd2n_gcdn. exact Hg.
Qed.
End AutoSigma.

