(* C20 — calls on shared immutable objects.  A module, prepared keys and read-only ciphertexts are DATA: in the model
   they are part of the function g, never of the state.  Any number of threads, each performing any list of calls
   (slot, idx) — idx stands for the complete per-call argument tuple: which input, log_domain, extension factor, output
   layout, mode ... — with pairwise distinct output slots and private scratch: every complete interleaving leaves in
   every slot exactly what the same call yields when it runs alone. *)
From PV Require Import Base.MachineInt Model.C20Threads Proofs.C20Partition Proofs.C20Sched.
From Coq Require Import Arith PeanoNat Permutation.
Local Open Scope nat_scope.

Section Shared.
Variables V Sc : Type.
Variable g : nat -> Sc -> V * Sc.
Variable f : nat -> V.
Hypothesis Hg : forall i s, fst (g i s) = f i.

Notation state := (state V Sc).
Notation step := (step V Sc g).
Notation exec := (exec V Sc g).
Notation finished := (finished V Sc).

Variable W : list item.
Hypothesis HW : NoDup (map fst W).
Variable init : nat -> V.

Record InvS (st : state) : Prop := {
  invs_items : forall it, In it (concat (pend V Sc st)) -> In it W;
  invs_outs : forall slot idx, In (slot, idx) W -> ~ In slot (map fst (concat (pend V Sc st))) ->
                outs V Sc st slot = f idx;
  invs_frame : forall j, ~ In j (map fst W) -> outs V Sc st j = init j
}.

Lemma nodup_fst_unique (l : list item) : NoDup (map fst l) ->
  forall s i i', In (s, i) l -> In (s, i') l -> i = i'.
Proof.
  induction l as [|[s0 i0] l IH]; intros Hnd s i i' H1 H2; [contradiction|].
  cbn [map fst] in Hnd. inversion Hnd as [|? ? Hnot Hnd']; subst.
  destruct H1 as [E1|H1]; destruct H2 as [E2|H2].
  - congruence.
  - inversion E1; subst. exfalso. apply Hnot. apply in_map_iff. exists (s, i'). split; auto.
  - inversion E2; subst. exfalso. apply Hnot. apply in_map_iff. exists (s, i). split; auto.
  - eapply IH; eauto.
Qed.

Lemma step_invs (t : nat) (st st' : state) : step t st = Some st' -> InvS st -> InvS st'.
Proof.
  intros Hs [I1 I2 I3]. unfold C20Threads.step in Hs.
  destruct (nth_error (pend V Sc st) t) as [[|it rest]|] eqn:En; try discriminate.
  inversion Hs; subst st'; clear Hs.
  pose proof (set_nth_perm _ _ _ _ En) as Hp.
  assert (HitW : In it W).
  { apply I1. eapply Permutation_in; [apply Permutation_sym; exact Hp|left; reflexivity]. }
  constructor; cbn [pend outs trace scr].
  - intros it' Hin. apply I1. eapply Permutation_in; [apply Permutation_sym; exact Hp|]. right; exact Hin.
  - intros slot idx HinW Hnot. unfold upd.
    destruct (slot =? fst it) eqn:Ej.
    + apply Nat.eqb_eq in Ej. rewrite Hg. f_equal.
      destruct it as [s0 i0]. cbn [fst snd] in *. subst s0.
      eapply nodup_fst_unique; eauto.
    + apply Nat.eqb_neq in Ej. apply I2; [exact HinW|]. intros Hin. apply Hnot.
      apply in_map_iff in Hin. destruct Hin as (it' & Hf & Hin').
      pose proof (Permutation_in _ Hp Hin') as Hin2. destruct Hin2 as [<-|Hin2]; [congruence|].
      apply in_map_iff. exists it'. split; auto.
  - intros j Hj. unfold upd.
    destruct (j =? fst it) eqn:Ej; [|apply I3; exact Hj].
    apply Nat.eqb_eq in Ej. exfalso. apply Hj. subst j. apply in_map. exact HitW.
Qed.

Lemma exec_invs (sched : list nat) : forall st st', exec sched st = Some st' -> InvS st -> InvS st'.
Proof.
  induction sched as [|t sched IH]; intros st st' He Hi; cbn [C20Threads.exec] in He.
  - inversion He; subst; exact Hi.
  - destruct (step t st) as [st1|] eqn:Es; [|discriminate].
    eapply IH; eauto. eapply step_invs; eauto.
Qed.

End Shared.

(* every complete interleaving of arbitrary call lists on shared immutable objects: each slot holds the result of its
   call, slots nobody writes are untouched *)
Lemma shared_calls_closed (V Sc : Type) (g : nat -> Sc -> V * Sc) (f : nat -> V) :
  (forall i s, fst (g i s) = f i) ->
  forall (w : list (list item)) (init : nat -> V) (scr0 : nat -> Sc) (sched : list nat) (st : state V Sc),
    NoDup (map fst (concat w)) ->
    run_mt V Sc g (Some w) init scr0 sched = Some st ->
    (forall slot idx, In (slot, idx) (concat w) -> outs V Sc st slot = f idx) /\
    (forall j, ~ In j (map fst (concat w)) -> outs V Sc st j = init j).
Proof.
  intros Hg w init scr0 sched st Hnd Hr. unfold run_mt in Hr.
  destruct (exec V Sc g sched (init_state V Sc w init scr0)) as [st1|] eqn:He; [|discriminate].
  destruct (finished V Sc st1) eqn:Hf; [|discriminate]. inversion Hr; subst st1; clear Hr.
  assert (Hi : InvS V Sc f (concat w) init (init_state V Sc w init scr0)).
  { constructor; cbn [init_state pend outs].
    - auto.
    - intros slot idx Hin Hnot. exfalso. apply Hnot. apply in_map_iff. exists (slot, idx). split; auto.
    - reflexivity. }
  destruct (exec_invs V Sc g f Hg (concat w) Hnd init sched _ _ He Hi) as [I1 I2 I3].
  pose proof (finished_concat V Sc st Hf) as Hnil.
  split.
  - intros slot idx Hin. apply (I2 slot idx Hin). rewrite Hnil. intros [].
  - exact I3.
Qed.

(* C20_shared_calls_eq_solo: ... equals what the call yields ALONE (one thread, one call, its own scratch, any prior
   output contents), for every per-call parameter tuple idx *)
Lemma shared_calls_eq_solo (V Sc : Type) (g : nat -> Sc -> V * Sc) (f : nat -> V) :
  (forall i s, fst (g i s) = f i) ->
  forall (w : list (list item)) (init : nat -> V) (scr0 : nat -> Sc) (sched : list nat) (st : state V Sc),
    NoDup (map fst (concat w)) ->
    run_mt V Sc g (Some w) init scr0 sched = Some st ->
    forall slot idx, In (slot, idx) (concat w) ->
    forall (init' : nat -> V) (scr0' : nat -> Sc) (sched' : list nat) (st' : state V Sc),
      run_mt V Sc g (Some [[(slot, idx)]]) init' scr0' sched' = Some st' ->
      outs V Sc st slot = outs V Sc st' slot.
Proof.
  intros Hg w init scr0 sched st Hnd Hr slot idx Hin init' scr0' sched' st' Hr'.
  destruct (shared_calls_closed V Sc g f Hg w init scr0 sched st Hnd Hr) as [H1 _].
  assert (Hnd' : NoDup (map fst (concat [[(slot, idx)]]))) by (cbn; constructor; [intros []|constructor]).
  destruct (shared_calls_closed V Sc g f Hg _ init' scr0' sched' st' Hnd' Hr') as [H2 _].
  rewrite (H1 slot idx Hin). symmetry. apply H2. cbn. left; reflexivity.
Qed.
