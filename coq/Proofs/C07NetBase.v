(* C07 butterfly networks, base layer: congruence library, powers / sums, the primitive u64 operations,
   list plumbing for blocks / levels / butterflies. *)
From PV Require Import Base.MachineInt Model.DftAbs Model.C07Ntt120 Model.C07NttNet Proofs.C07Ring.
From Coq Require Import Morphisms Setoid.
Open Scope Z_scope.

(* ---------------- congruences ---------------- *)
(* (an inductive wrapper so that `rewrite` treats it as a setoid relation and never unfolds it) *)
Inductive cong (q a b : Z) : Prop := cong_intro : a mod q = b mod q -> cong q a b.
Lemma cong_unfold q a b : cong q a b <-> a mod q = b mod q.
Proof. split; [intros [H]; exact H|apply cong_intro]. Qed.

Lemma cong_refl q a : cong q a a. Proof. constructor; reflexivity. Qed.
Lemma cong_sym q a b : cong q a b -> cong q b a. Proof. intros [H]; constructor; congruence. Qed.
Lemma cong_trans q a b c : cong q a b -> cong q b c -> cong q a c. Proof. intros [H] [H']; constructor; congruence. Qed.
#[export] Instance cong_equiv q : Equivalence (cong q).
Proof. split; [exact (cong_refl q)|exact (cong_sym q)|exact (cong_trans q)]. Qed.
#[export] Instance cong_add q : Proper (cong q ==> cong q ==> cong q) Z.add.
Proof. intros a a' [Ha] b b' [Hb]; constructor. rewrite (Zplus_mod a b), (Zplus_mod a' b'), Ha, Hb. reflexivity. Qed.
#[export] Instance cong_sub q : Proper (cong q ==> cong q ==> cong q) Z.sub.
Proof. intros a a' [Ha] b b' [Hb]; constructor. rewrite (Zminus_mod a b), (Zminus_mod a' b'), Ha, Hb. reflexivity. Qed.
#[export] Instance cong_mul q : Proper (cong q ==> cong q ==> cong q) Z.mul.
Proof. intros a a' [Ha] b b' [Hb]; constructor. rewrite (Zmult_mod a b), (Zmult_mod a' b'), Ha, Hb. reflexivity. Qed.
#[export] Instance cong_opp q : Proper (cong q ==> cong q) Z.opp.
Proof. intros a a' Ha. rewrite <- (Z.sub_0_l a), <- (Z.sub_0_l a'). rewrite Ha. reflexivity. Qed.

Lemma cong_mod q a : cong q (a mod q) a.
Proof. constructor. apply Zmod_mod. Qed.
Lemma cong_mult_q q a k : cong q (a + k * q) a.
Proof. constructor. apply Z_mod_plus_full. Qed.
Lemma cong_0_mul q k : cong q (k * q) 0.
Proof. constructor. rewrite Z_mod_mult, Zmod_0_l. reflexivity. Qed.

(* ---------------- powers with nat exponents ---------------- *)
Fixpoint zp (z : Z) (e : nat) : Z := match e with O => 1 | S e' => z * zp z e' end.

Lemma zp_pow z e : zp z e = z ^ Z.of_nat e.
Proof.
  induction e as [|e IH]; [reflexivity|].
  rewrite Nat2Z.inj_succ, Z.pow_succ_r by lia. cbn [zp]. rewrite IH. reflexivity.
Qed.
Lemma zp_add z a b : zp z (a + b) = zp z a * zp z b.
Proof. induction a as [|a IH]; cbn [zp Nat.add]; [ring|rewrite IH; ring]. Qed.
Lemma zp_1_l e : zp 1 e = 1.
Proof. induction e as [|e IH]; cbn [zp]; [reflexivity|rewrite IH; reflexivity]. Qed.
Lemma zp_mul_base x y e : zp (x * y) e = zp x e * zp y e.
Proof. induction e as [|e IH]; cbn [zp]; [ring|rewrite IH; ring]. Qed.
Lemma zp_mul z a b : zp z (a * b) = zp (zp z a) b.
Proof.
  induction b as [|b IH]; [rewrite Nat.mul_0_r; reflexivity|].
  rewrite Nat.mul_succ_r, zp_add, IH. cbn [zp]. ring.
Qed.
Lemma zp_1_r z : zp z 1 = z. Proof. cbn [zp]; ring. Qed.
#[export] Instance cong_zp q : Proper (cong q ==> eq ==> cong q) zp.
Proof.
  intros a a' Ha e e' <-. induction e as [|e IH]; cbn [zp]; [reflexivity|]. apply cong_mul; [exact Ha|exact IH].
Qed.
Lemma zp_m1_even e : zp (-1) (2 * e) = 1.
Proof. rewrite zp_mul. cbn [zp]. replace (-1 * (-1 * 1)) with 1 by ring. apply zp_1_l. Qed.
Lemma zp_m1_odd e : zp (-1) (2 * e + 1) = -1.
Proof. rewrite zp_add, zp_m1_even. reflexivity. Qed.

Lemma pow2n_S m : pow2n (S m) = (2 * pow2n m)%nat.
Proof. unfold pow2n. rewrite Nat.pow_succ_r'. reflexivity. Qed.
Lemma pow2n_pos m : (0 < pow2n m)%nat.
Proof. induction m as [|m IH]; [unfold pow2n; cbn; lia|rewrite pow2n_S; lia]. Qed.
Lemma pow2n_0 : pow2n 0 = 1%nat. Proof. reflexivity. Qed.
Lemma pow2n_Z m : Z.of_nat (pow2n m) = 2 ^ Z.of_nat m.
Proof.
  induction m as [|m IH]; [reflexivity|].
  rewrite pow2n_S, Nat2Z.inj_mul, IH. replace (Z.of_nat (S m)) with (Z.succ (Z.of_nat m)) by lia.
  rewrite Z.pow_succ_r by lia. reflexivity.
Qed.

(* ---------------- sums ---------------- *)
Lemma zsum_cong q f g n : (forall i, (i < n)%nat -> cong q (f i) (g i)) -> cong q (zsum f n) (zsum g n).
Proof.
  induction n as [|n IH]; intros H; [reflexivity|].
  rewrite !zsum_S. rewrite IH by (intros; apply H; lia). rewrite (H n) by lia. reflexivity.
Qed.
Lemma zsum_app f n m : zsum f (n + m) = zsum f n + zsum (fun i => f (n + i)%nat) m.
Proof.
  induction m as [|m IH]; [rewrite Nat.add_0_r, zsum_0; ring|].
  rewrite Nat.add_succ_r, !zsum_S, IH. ring.
Qed.
Lemma zsum_double f n : zsum f (2 * n) = zsum (fun i => f i + f (n + i)%nat) n.
Proof. replace (2 * n)%nat with (n + n)%nat by lia. rewrite zsum_app, zsum_add. reflexivity. Qed.
Lemma zsum_even_odd f n : zsum f (2 * n) = zsum (fun i => f (2 * i)%nat) n + zsum (fun i => f (2 * i + 1)%nat) n.
Proof.
  induction n as [|n IH]; [reflexivity|].
  replace (2 * S n)%nat with (S (S (2 * n))) by lia. rewrite !zsum_S, IH.
  replace (S (2 * n)) with (2 * n + 1)%nat by lia. ring.
Qed.
Lemma zsum_const c n : zsum (fun _ => c) n = Z.of_nat n * c.
Proof. induction n as [|n IH]; [rewrite zsum_0; ring|rewrite zsum_S, IH, Nat2Z.inj_succ; ring]. Qed.

(* ---------------- primitive u64 operations ---------------- *)
Lemma w64_wrapu x : w64 x = wrapu 64 x.
Proof. unfold w64, ones64, wrapu. apply Z.land_ones. lia. Qed.
Lemma w64_u64 x : w64 x = u64 x. Proof. apply w64_wrapu. Qed.
Lemma w64_small x : 0 <= x < 2 ^ 64 -> w64 x = x.
Proof. intros H. rewrite w64_wrapu. unfold wrapu. apply Z.mod_small. exact H. Qed.
Lemma land_mask x k : 0 <= k -> Z.land x (2 ^ k - 1) = x mod 2 ^ k.
Proof. intros H. rewrite <- Z.land_ones by exact H. f_equal. rewrite Z.ones_equiv. lia. Qed.
Lemma land_ones32 x : Z.land x ones32 = x mod 2 ^ 32.
Proof. unfold ones32. apply Z.land_ones. lia. Qed.
Lemma hi_div x k : 0 <= k -> hi x k = x / 2 ^ k.
Proof. intros H. unfold hi. apply Z.shiftr_div_pow2. exact H. Qed.
Lemma isu_true x : isu x = true <-> 0 <= x < 2 ^ 64.
Proof. unfold isu. rewrite andb_true_iff, Z.leb_le, Z.ltb_lt. tauto. Qed.

(* x = 2^k (x / 2^k) + x mod 2^k, both parts non-negative and bounded *)
Lemma split_parts x k U : 0 <= k -> 0 <= x <= U ->
  0 <= x mod 2 ^ k <= 2 ^ k - 1 /\ 0 <= x / 2 ^ k <= U / 2 ^ k.
Proof.
  intros Hk [H0 HU]. pose proof (pow2_pos k Hk) as Hp.
  pose proof (Z.mod_pos_bound x (2 ^ k) Hp).
  split; [lia|]. split; [apply Z.div_pos; lia|apply Z.div_le_mono; lia].
Qed.
Lemma mul_bounds a b A B : 0 <= a <= A -> 0 <= b <= B -> 0 <= a * b <= A * B.
Proof. intros [? ?] [? ?]. split; [apply Z.mul_nonneg_nonneg; lia|apply Z.mul_le_mono_nonneg; lia]. Qed.

(* ---------------- lists: nth / firstn / skipn ---------------- *)
Lemma nth_skipn' (l : list Z) k i : nth i (skipn k l) 0 = nth (k + i) l 0.
Proof.
  revert l; induction k as [|k IH]; intros l; [reflexivity|].
  destruct l as [|a l]; [destruct i; reflexivity|]. cbn [skipn Nat.add nth]. apply IH.
Qed.
Lemma nth_firstn' (l : list Z) k i : (i < k)%nat -> nth i (firstn k l) 0 = nth i l 0.
Proof.
  revert l i; induction k as [|k IH]; intros l i H; [lia|].
  destruct l as [|a l]; [destruct i; reflexivity|]. destruct i; [reflexivity|]. cbn [firstn nth]. apply IH; lia.
Qed.
Lemma Forall_firstn' {A} (P : A -> Prop) k l : Forall P l -> Forall P (firstn k l).
Proof. revert l; induction k as [|k IH]; intros l H; [constructor|]. destruct H; cbn [firstn]; constructor; auto. Qed.
Lemma Forall_skipn' {A} (P : A -> Prop) k l : Forall P l -> Forall P (skipn k l).
Proof. revert l; induction k as [|k IH]; intros l H; [exact H|]. destruct H; cbn [skipn]; [constructor|auto]. Qed.
Lemma Forall_nth' (P : Z -> Prop) l : (forall i, (i < length l)%nat -> P (nth i l 0)) -> Forall P l.
Proof.
  induction l as [|a l IH]; intros H; constructor.
  - apply (H 0%nat). cbn; lia.
  - apply IH. intros i Hi. apply (H (S i)). cbn; lia.
Qed.
Lemma Forall_nth_elim (P : Z -> Prop) l i : Forall P l -> (i < length l)%nat -> P (nth i l 0).
Proof. intros H Hi. rewrite Forall_forall in H. apply H. apply nth_In. exact Hi. Qed.

(* ---------------- elementwise congruence of lists ---------------- *)
Definition lcong (q : Z) (x y : list Z) : Prop := length x = length y /\ forall i, cong q (nth i x 0) (nth i y 0).

Lemma lcong_refl q x : lcong q x x. Proof. split; [reflexivity|intros; reflexivity]. Qed.
Lemma lcong_sym q x y : lcong q x y -> lcong q y x.
Proof. intros [H1 H2]. split; [symmetry; exact H1|intros i; symmetry; apply H2]. Qed.
Lemma lcong_trans q x y z : lcong q x y -> lcong q y z -> lcong q x z.
Proof. intros [H1 H2] [H3 H4]. split; [congruence|intros i; rewrite H2; apply H4]. Qed.
Lemma lcong_firstn q k x y : lcong q x y -> lcong q (firstn k x) (firstn k y).
Proof.
  intros [H1 H2]. split; [rewrite !firstn_length, H1; reflexivity|].
  intros i. destruct (Nat.ltb_spec i k) as [Hi|Hi].
  - rewrite !nth_firstn' by exact Hi. apply H2.
  - rewrite !nth_overflow by (rewrite firstn_length; lia). reflexivity.
Qed.
Lemma lcong_skipn q k x y : lcong q x y -> lcong q (skipn k x) (skipn k y).
Proof. intros [H1 H2]. split; [rewrite !skipn_length, H1; reflexivity|]. intros i. rewrite !nth_skipn'. apply H2. Qed.
Lemma lcong_app q x y x' y' : lcong q x x' -> lcong q y y' -> lcong q (x ++ y) (x' ++ y').
Proof.
  intros [H1 H2] [H3 H4]. split; [rewrite !app_length; congruence|].
  intros i. destruct (Nat.ltb_spec i (length x)) as [Hi|Hi].
  - rewrite !app_nth1 by lia. apply H2.
  - rewrite !app_nth2 by lia. rewrite H1. apply H4.
Qed.

(* ---------------- blocks / level ---------------- *)
Lemma blocks_length cnt sz x : length (blocks cnt sz x) = cnt.
Proof. revert x; induction cnt as [|c IH]; intros x; cbn [blocks length]; [reflexivity|rewrite IH; reflexivity]. Qed.
Lemma blocks_sizes cnt sz x : length x = (cnt * sz)%nat -> Forall (fun b => length b = sz) (blocks cnt sz x).
Proof.
  revert x; induction cnt as [|c IH]; intros x H; cbn [blocks]; constructor.
  - rewrite firstn_length. lia.
  - apply IH. rewrite skipn_length. lia.
Qed.
Lemma concat_blocks cnt sz x : length x = (cnt * sz)%nat -> concat (blocks cnt sz x) = x.
Proof.
  revert x; induction cnt as [|c IH]; intros x H; cbn [blocks concat].
  - destruct x; [reflexivity|cbn in H; lia].
  - rewrite IH by (rewrite skipn_length; lia). apply firstn_skipn.
Qed.
Lemma blocks_app c1 c2 sz a b : length a = (c1 * sz)%nat ->
  blocks (c1 + c2) sz (a ++ b) = blocks c1 sz a ++ blocks c2 sz b.
Proof.
  revert a; induction c1 as [|c IH]; intros a H.
  - destruct a; [reflexivity|cbn in H; lia].
  - cbn [Nat.add blocks app]. rewrite firstn_app, skipn_app.
    assert (Hs : (sz - length a = 0)%nat) by (cbn in H; lia). rewrite Hs.
    cbn [firstn skipn]. rewrite app_nil_r. f_equal. apply IH. rewrite skipn_length. cbn in H. lia.
Qed.
Lemma blocks_one sz x : length x = sz -> blocks 1 sz x = [x].
Proof. intros H. cbn [blocks]. rewrite firstn_all2 by lia. reflexivity. Qed.
Lemma blocks_two sz x : length x = (2 * sz)%nat -> blocks 2 sz x = [firstn sz x; skipn sz x].
Proof.
  intros H. cbn [blocks]. f_equal. f_equal. apply firstn_all2. rewrite skipn_length. lia.
Qed.
(* the blocks of a concatenation of equal-size pieces are the pieces *)
Lemma blocks_concat sz (l : list (list Z)) : Forall (fun b => length b = sz) l ->
  blocks (length l) sz (concat l) = l.
Proof.
  induction l as [|b l IH]; intros H; [reflexivity|].
  inversion H as [|? ? Hb Hl]; subst. cbn [length concat].
  change (S (length l)) with (1 + length l)%nat. rewrite blocks_app by lia.
  rewrite blocks_one by reflexivity. rewrite IH by exact Hl. reflexivity.
Qed.
Lemma concat_length_const sz (l : list (list Z)) : Forall (fun b => length b = sz) l ->
  length (concat l) = (length l * sz)%nat.
Proof.
  induction l as [|b l IH]; intros H; [reflexivity|].
  inversion H; subst. cbn [concat length]. rewrite app_length, IH by assumption. lia.
Qed.
Lemma level_length F cnt sz x : length x = (cnt * sz)%nat -> (forall b, length b = sz -> length (F b) = sz) ->
  length (level F cnt sz x) = (cnt * sz)%nat.
Proof.
  intros Hx HF. unfold level. rewrite (concat_length_const sz).
  - rewrite map_length, blocks_length. reflexivity.
  - rewrite Forall_map. eapply Forall_impl; [|apply blocks_sizes; exact Hx]. intros b Hb. apply HF. exact Hb.
Qed.
Lemma level_blocks F cnt sz x : length x = (cnt * sz)%nat -> (forall b, length b = sz -> length (F b) = sz) ->
  blocks cnt sz (level F cnt sz x) = map F (blocks cnt sz x).
Proof.
  intros Hx HF. unfold level.
  rewrite <- (blocks_length cnt sz x) at 1. rewrite <- (map_length F). apply blocks_concat.
  rewrite Forall_map. eapply Forall_impl; [|apply blocks_sizes; exact Hx]. intros b Hb. apply HF. exact Hb.
Qed.
(* 2c blocks of size s against c blocks of size 2s *)
Lemma blocks_pairs c s x : length x = (c * (2 * s))%nat ->
  blocks (2 * c) s x = flat_map (fun b => [firstn s b; skipn s b]) (blocks c (2 * s) x).
Proof.
  revert x; induction c as [|c IH]; intros x H; [reflexivity|].
  replace (2 * S c)%nat with (2 + 2 * c)%nat by lia.
  rewrite <- (firstn_skipn (2 * s) x) at 1.
  rewrite blocks_app by (rewrite firstn_length; lia).
  rewrite blocks_two by (rewrite firstn_length; lia).
  rewrite IH by (rewrite skipn_length; lia). reflexivity.
Qed.
