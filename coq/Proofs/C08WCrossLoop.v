(* C08, cross-radix normalisation at any word width, offset >= 0: entry invariants of the outer iterations and the
   value statement from the final invariant.  Port of Proofs/C08CrossLoop.v (which fixes the width 64). *)
From PV Require Import Base.MachineInt Model.Znx Model.Limbs Model.C08Oracle
  Proofs.ZnxDigit Proofs.C08Steps Proofs.C08Chain Proofs.C08Loops Proofs.C08Value Proofs.C08Normalize
  Proofs.C08Shift Proofs.C08CrossInner Proofs.C08CrossGeom Proofs.C08CrossOuter Proofs.C08CrossLoop
  Proofs.C08WChain Proofs.C08WLoops Proofs.C08WCrossInner Proofs.C08WCrossGeom Proofs.C08WCrossOuter.
Open Scope Z_scope.

Section Loop.
Variable wd : Z.
Variables rb ab : Z.
Hypothesis Hrb : 1 <= rb <= wd - 2.
Hypothesis Hab : 1 <= ab <= wd - 2.
Variable a : list Z.
Hypothesis Ha : hrlw wd a.
Variable lsh : Z.
Hypothesis Hl : 0 <= lsh < ab.
Variable rsz : nat.
Variables z g : Z.
Hypothesis Hz : 0 <= z.
Hypothesis Hg : 0 <= g.
Hypothesis Hzg : z = 0 \/ g = 0.

Let Hab1 : 1 <= ab. Proof. lia. Qed.
Let Hab64 : 1 <= ab <= wd - 2. Proof. lia. Qed.
Let Hwd : 3 <= wd. Proof. lia. Qed.
Let HWp : 0 < 2 ^ (wd - 2). Proof. apply pow2_pos; lia. Qed.

Notation OuterI := (OuterW wd rb ab a lsh rsz z g).
Notation EntryI := (EntryW wd rb ab a lsh rsz z g).
Notation FinalI := (Final rb ab a lsh rsz z g).
Notation LvalI := (Lval ab a lsh).

(* the a-digit normalisation step on limb t of the stream *)
Lemma digit_stepW (t : nat) (c : Z) : (t < length a)%nat -> Z.abs c <= 2 ^ (wd - 2) ->
  let X := vin a lsh t + c in
  middle_step wd true ab lsh 0 (nthZ a (length a - 1 - t)) c = (wrap ab X, bdiv ab X) /\
  Z.abs X <= 2 ^ (wd - 2) * 2 ^ (ab - 1) + 2 ^ (wd - 2) /\ Z.abs (wrap ab X) <= 2 ^ ab /\ Z.abs (bdiv ab X) <= 2 ^ (wd - 2) /\
  X = wrap ab X + 2 ^ ab * bdiv ab X.
Proof.
  intros Ht Hc. cbv zeta.
  rewrite (vin_at a lsh t (length a - 1 - t) Ht eq_refl).
  set (x := nthZ a (length a - 1 - t)).
  assert (Hx : Z.abs x <= 2 ^ (wd - 2)) by apply Ha.
  rewrite (middle_step_ideal wd ab lsh Hab64 Hl true 0 x c Hx Hc ltac:(discriminate)).
  rewrite Z.add_0_l.
  assert (Hs : Z.abs (x * 2 ^ lsh) <= 2 ^ (wd - 2) * 2 ^ (ab - 1)) by (apply shifted_bound; auto; lia).
  split; [reflexivity|]. split; [lia|]. split.
  - pose proof (wrap_range ab (x * 2 ^ lsh + c) Hab1) as [W1 W2].
    pose proof (pow2_pos (ab - 1) ltac:(lia)). pose proof (pow2_split ab Hab1). lia.
  - split; [apply bdiv_chain; auto; lia|]. symmetry. apply wrap_bdiv; auto.
Qed.

(* generic iteration: from the outer invariant to the entry invariant of the inner loop *)
Lemma next_entryW (t : nat) (s : cstate) : OuterI t s -> (t < length a)%nat ->
  let m := middle_step wd true ab lsh 0 (nthZ a (length a - 1 - t)) (c_acarry s) in
  EntryI t {| c_res := c_res s; c_anorm := fst m; c_acarry := snd m; c_rcarry := c_rcarry s;
              c_atake := ab; c_racc := c_racc s; c_rlimb := c_rlimb s |}.
Proof.
  intros (Sh & Hr & Hrc & Hc & HF & drop & Hdrop & EV) Ht. cbv zeta.
  destruct (digit_stepW t (c_acarry s) Ht Hc) as (E & HX & Hw & Hb & Hdec). cbv zeta in E, HX, Hw, Hb, Hdec.
  rewrite E. cbn [fst snd]. set (X := vin a lsh t + c_acarry s) in *.
  unfold EntryW. cbn [c_res c_anorm c_acarry c_rcarry c_atake c_racc c_rlimb].
  assert (EFp : forall an ac, Fpos rb rsz {| c_res := c_res s; c_anorm := an; c_acarry := ac; c_rcarry := c_rcarry s;
                                    c_atake := ab; c_racc := c_racc s; c_rlimb := c_rlimb s |} = Fpos rb rsz s)
    by reflexivity.
  rewrite EFp.
  split; [exact Sh|]. split; [exact Hr|]. split; [lia|]. split; [exact Hw|]. split; [exact Hb|].
  split; [exact Hrc|]. split; [clear - HF; lia|].
  exists drop, X, 0. split; [exact Hdrop|]. split; [|split; [exact HX|split]].
  - rewrite Lval_S, Z.mul_add_distr_l, EV.
    assert (HF0 : 0 <= Fpos rb rsz s) by (apply (Fpos_nonnegW wd rb Hrb); [apply Sh|lia]).
    assert (E1 : 2 ^ (g + Fpos rb rsz s) = 2 ^ (z + zn t * ab)) by (f_equal; clear - HF; lia).
    assert (E2 : 2 ^ (z + (zn t + 1) * ab) = 2 ^ (z + zn t * ab) * 2 ^ ab).
    { rewrite <- pow2_add by (try apply Z.add_nonneg_nonneg; try apply Z.mul_nonneg_nonneg; unfold zn; lia).
      f_equal. ring. }
    assert (E3 : 2 ^ z * (vin a lsh t * 2 ^ (zn t * ab)) = 2 ^ (z + zn t * ab) * vin a lsh t).
    { rewrite pow2_add by (try apply Z.mul_nonneg_nonneg; unfold zn; lia). ring. }
    rewrite E1, E2, E3.
    replace (vin a lsh t) with (wrap ab X + 2 ^ ab * bdiv ab X - c_acarry s) by (unfold X in Hdec |- *; lia).
    ring.
  - rewrite Z.sub_diag. change (2 ^ 0) with 1. lia.
  - cbn [Z.abs]. rewrite Z.sub_diag. cbn. lia.
Qed.

(* first iteration, boundary digit straddling the bottom of res: its low `take` bits are rounded away *)
Lemma first_takeW (a_out : nat) (take ac0 Dlow : Z) : (1 <= rsz)%nat ->
  z = 0 -> g = zn a_out * ab + take -> 1 <= take < ab -> (a_out < length a)%nat ->
  LvalI a_out = Dlow + 2 ^ (zn a_out * ab) * ac0 -> Z.abs Dlow <= 2 ^ (zn a_out * ab) - 1 ->
  Z.abs ac0 <= 2 ^ (wd - 2) -> (a_out = 0%nat -> ac0 = 0 /\ Dlow = 0) ->
  let m := middle_step wd true ab lsh 0 (nthZ a (length a - 1 - a_out)) ac0 in
  EntryI a_out {| c_res := zeros rsz; c_anorm := mul_power_of_two wd (- take) (fst m); c_acarry := snd m;
                  c_rcarry := 0; c_atake := ab - take; c_racc := rb; c_rlimb := (rsz - 1)%nat |}.
Proof.
  intros Hrsz Ez Eg Htake Ht EL HD Hc0 H0. cbv zeta.
  assert (Hg' := Hg). (* keeps the statement's list of hypotheses stable *)
  destruct (digit_stepW a_out ac0 Ht Hc0) as (E & HX & Hw & Hb & Hdec). cbv zeta in E, HX, Hw, Hb, Hdec.
  rewrite E. cbn [fst snd]. set (X := vin a lsh a_out + ac0) in *.
  set (an := wrap ab X) in *. set (ac := bdiv ab X) in *.
  assert (Han62 : Z.abs an <= 2 ^ (wd - 2)).
  { assert (2 ^ ab <= 2 ^ (wd - 2)) by (apply pow2_le_mono; lia). lia. }
  destruct (mp2_roundW wd take an Hwd ltac:(lia) Han62) as (rho & Ern & Hrho & Hexact).
  set (rnd := mul_power_of_two wd (- take) an) in *.
  pose proof (wrap_range ab X Hab1) as [W1 W2]. fold an in W1, W2.
  assert (Eab : 2 ^ ab = 2 ^ take * 2 ^ (ab - take)) by (rewrite <- pow2_add by lia; f_equal; lia).
  pose proof (pow2_pos take ltac:(lia)) as Hpt. pose proof (pow2_pos (ab - take) ltac:(lia)) as Hpr.
  pose proof (pow2_split ab Hab1) as Hsab. pose proof (pow2_pos (ab - 1) ltac:(lia)) as Hpab.
  assert (Hrnd : Z.abs rnd <= 2 ^ (ab - take)).
  { apply (rnd_bound take ab an rho rnd); [lia|split; assumption|exact Ern|exact Hrho]. }
  set (s2 := {| c_res := zeros rsz; c_anorm := rnd; c_acarry := ac; c_rcarry := 0; c_atake := ab - take;
                c_racc := rb; c_rlimb := (rsz - 1)%nat |}).
  assert (EF : Fpos rb rsz s2 = 0).
  { unfold Fpos, s2. cbn [c_rlimb c_racc]. unfold zn. rewrite Nat2Z.inj_sub by lia. cbn. ring. }
  unfold EntryW. rewrite EF.
  change (c_res s2) with (zeros rsz). change (c_anorm s2) with rnd. change (c_acarry s2) with ac.
  change (c_rcarry s2) with 0. change (c_atake s2) with (ab - take). change (c_racc s2) with rb.
  split.
  { unfold shape, s2. cbn [c_res c_rlimb c_racc]. split; [apply zeros_length|]. split; [clear - Hrsz; lia|].
    split; [intros; apply nth_zeros|]. rewrite nth_zeros, Z.sub_diag. cbn. clear; lia. }
  split; [clear - Hrb; lia|]. split; [clear - Htake Hab1; lia|]. split; [exact Hrnd|]. split; [exact Hb|]. split; [reflexivity|].
  split; [rewrite Ez, Eg; ring|].
  assert (Hpa : 0 < 2 ^ (zn a_out * ab)) by (apply pow2_pos; apply Z.mul_nonneg_nonneg; unfold zn; lia).
  exists (Dlow + 2 ^ (zn a_out * ab) * rho), X, rho.
  split; [|split; [|split; [exact HX|split]]].
  - unfold dropok. split.
    + rewrite Eg, pow2_add by (try apply Z.mul_nonneg_nonneg; unfold zn; lia).
      assert (take_ge : 2 <= 2 ^ take).
      { pose proof (pow2_split take ltac:(clear - Htake; lia)) as Hs1. pose proof (pow2_pos (take - 1) ltac:(clear - Htake; lia)) as Hp1. clear - Hs1 Hp1. lia. }
      apply drop_bound; [exact Hpa|exact take_ge|exact HD|exact Hrho].
    + intros Hgl.
      assert (Ea0 : a_out = 0%nat).
      { destruct a_out as [|k]; [reflexivity|]. exfalso.
        apply (small_g (Z.of_nat k) ab take lsh); [lia|lia|lia| |lia].
        unfold zn in Eg. rewrite Nat2Z.inj_succ in Eg. clear - Eg Hgl. lia. }
      destruct (H0 Ea0) as [Hac0 HD0]. rewrite HD0.
      assert (rho = 0); [|subst rho; ring].
      apply Hexact.
      (* an is a multiple of 2^take: X is (lsh >= take), and 2^ab is *)
      assert (Etk : take = g) by (rewrite Eg, Ea0; change (zn 0) with 0; ring).
      assert (EX : X = nthZ a (length a - 1 - a_out) * 2 ^ lsh).
      { unfold X. rewrite Hac0, Z.add_0_r. apply vin_at; [exact Ht|reflexivity]. }
      assert (El : 2 ^ lsh = 2 ^ take * 2 ^ (lsh - take)) by (rewrite <- pow2_add by (clear - Htake Hgl Etk; lia); f_equal; ring).
      set (x := nthZ a (length a - 1 - a_out)) in *.
      assert (Hmul : an = (x * 2 ^ (lsh - take) - 2 ^ (ab - take) * ac) * 2 ^ take).
      { rewrite Z.mul_sub_distr_r.
        replace (2 ^ (ab - take) * ac * 2 ^ take) with (2 ^ ab * ac) by (rewrite Eab; ring).
        replace (x * 2 ^ (lsh - take) * 2 ^ take) with (x * 2 ^ lsh) by (rewrite El; ring).
        rewrite <- EX. clear - Hdec. lia. }
      rewrite Hmul. apply Z_mod_mult.
  - rewrite Ez, Z.pow_0_r, !Z.mul_1_l, Z.add_0_l, Z.add_0_r. rewrite Vres_zeros, Z.mul_0_r, Z.add_0_r.
    rewrite Lval_S, EL.
    assert (E1 : 2 ^ g = 2 ^ (zn a_out * ab) * 2 ^ take) by (rewrite Eg; apply pow2_add; [apply Z.mul_nonneg_nonneg; unfold zn; lia|lia]).
    assert (E2 : 2 ^ ((zn a_out + 1) * ab) = 2 ^ (zn a_out * ab) * 2 ^ ab).
    { rewrite <- pow2_add by (try apply Z.mul_nonneg_nonneg; unfold zn; lia). f_equal. ring. }
    rewrite E1, E2.
    replace (vin a lsh a_out) with (an + 2 ^ ab * ac - ac0) by (clear - Hdec; unfold X in Hdec; clearbody an ac; lia).
    rewrite Ern at 1. ring.
  - replace (ab - (ab - take)) with take by ring. rewrite Hdec at 1. rewrite Ern at 1. ring.
  - replace (ab - (ab - take)) with take by ring. exact Hrho.
Qed.

(* first iteration without a straddling digit: the outer invariant holds for the (adjusted) initial state *)
Lemma first_outerW (a_out res_start : nat) (m racc0 ac0 Dlow an0 at0 : Z) :
  (1 <= res_start <= rsz)%nat -> 0 <= m < rb -> racc0 = rb - m ->
  (zn rsz - zn res_start) * rb + m = z -> g = zn a_out * ab ->
  LvalI a_out = Dlow + 2 ^ (zn a_out * ab) * ac0 -> Z.abs Dlow <= 2 ^ (zn a_out * ab) - 1 ->
  Z.abs ac0 <= 2 ^ (wd - 2) -> (a_out = 0%nat -> Dlow = 0) ->
  OuterI a_out {| c_res := zeros rsz; c_anorm := an0; c_acarry := ac0; c_rcarry := 0; c_atake := at0;
                  c_racc := racc0; c_rlimb := (res_start - 1)%nat |}.
Proof.
  intros Hrs Hm Er Ez Eg EL HD Hc0 H0.
  unfold OuterW. cbn [c_res c_anorm c_acarry c_rcarry c_atake c_racc c_rlimb].
  assert (EF : Fpos rb rsz {| c_res := zeros rsz; c_anorm := an0; c_acarry := ac0; c_rcarry := 0; c_atake := at0;
                              c_racc := racc0; c_rlimb := (res_start - 1)%nat |} = z).
  { unfold Fpos. cbn [c_rlimb c_racc]. rewrite Er, <- Ez. unfold zn. rewrite Nat2Z.inj_sub by lia. cbn. ring. }
  rewrite EF. split.
  { unfold shape. cbn [c_res c_rlimb c_racc]. split; [apply zeros_length|]. split; [lia|].
    split; [intros; apply nth_zeros|]. rewrite nth_zeros, Er. replace (rb - (rb - m)) with m by ring.
    pose proof (pow2_pos m ltac:(lia)). cbn [Z.abs]. lia. }
  split; [lia|]. split; [reflexivity|]. split; [exact Hc0|]. split; [rewrite Eg; ring|].
  assert (Hpa : 0 < 2 ^ (zn a_out * ab)) by (apply pow2_pos; apply Z.mul_nonneg_nonneg; unfold zn; lia).
  exists Dlow. split.
  - unfold dropok. split; [rewrite Eg; lia|]. intros Hgl. apply H0.
    destruct a_out as [|k]; [reflexivity|]. exfalso.
    apply (small_g (Z.of_nat k) ab 0 lsh); [lia|lia|lia| |lia].
    unfold zn in Eg. rewrite Nat2Z.inj_succ in Eg. clear - Eg Hgl. lia.
  - rewrite Vres_zeros, Z.mul_0_r, Z.add_0_r, EL.
    rewrite pow2_add by (try apply Z.mul_nonneg_nonneg; unfold zn; lia). ring.
Qed.

(* all processed digits consumed without a break: the final invariant holds as well *)
Lemma outer_finalW (lo : Z) (t : nat) (s : cstate) : 0 <= lo ->
  (zn (length a) - lo) * ab = zn rsz * rb + g - z -> zn t = zn (length a) - lo ->
  OuterI t s -> FinalI (c_res s).
Proof.
  intros Hlo Hgeo Et (Sh & Hr & Hrc & Hc & HF & drop & Hdrop & EV).
  unfold Final. split; [apply Sh|].
  destruct (ival_split ab Hab1 (vin a lsh) (length a) (fun u Hu => vin_zero a lsh u Hu) t) as [Y HY].
  fold (LvalI (length a)) in HY. fold (LvalI t) in HY.
  exists drop, (c_acarry s + Y). split; [exact Hdrop|].
  rewrite HY, Z.mul_add_distr_l, EV.
  assert (E1 : z + zn t * ab = g + zn rsz * rb) by (rewrite Et; lia).
  rewrite E1.
  assert (E2 : 2 ^ z * (2 ^ (zn t * ab) * Y) = 2 ^ (g + zn rsz * rb) * Y).
  { rewrite <- E1, pow2_add by (try apply Z.mul_nonneg_nonneg; unfold zn; lia). ring. }
  rewrite E2. ring.
Qed.

(* the torus statement from the final invariant *)
Lemma final_valueW (lo P : Z) (res : list Z) : 0 <= lo ->
  (zn (length a) - lo) * ab = zn rsz * rb + g - z -> 0 < zn (length a) - lo ->
  FinalI res ->
  zn rsz * rb + zn (length a) * ab + (lo * ab + lsh) <= P ->
  let D := tor_abs P (val_scaled P rb res - val_scaled (P + (lo * ab + lsh)) ab a) in
  D <= 2 ^ (P - zn rsz * rb) /\ (zn (length a) * ab - (lo * ab + lsh) <= zn rsz * rb -> D = 0).
Proof.
  intros Hlo Hgeo HT (Lr & drop & K & [Hd1 Hd2] & EV) HP. cbv zeta.
  set (A := zn (length a)) in *. set (R := zn rsz) in *.
  assert (HA : 0 <= A) by (unfold A, zn; lia). assert (HR : 0 <= R) by (unfold R, zn; lia).
  assert (HRrb : 0 <= R * rb) by (apply Z.mul_nonneg_nonneg; lia).
  assert (HAab : 0 <= A * ab) by (apply Z.mul_nonneg_nonneg; lia).
  assert (Hloab : 0 <= lo * ab) by (apply Z.mul_nonneg_nonneg; lia).
  assert (HTab : 0 <= (A - lo) * ab) by (apply Z.mul_nonneg_nonneg; lia).
  assert (Hgle : g <= (A - lo) * ab) by (destruct Hzg; lia).
  set (E1 := P - R * rb - g).
  assert (HE1 : 0 <= E1) by (unfold E1; lia).
  assert (HP0 : 0 <= P) by lia.
  rewrite (val_scaled_Vres P rb rsz res ltac:(lia) Lr ltac:(fold R; lia)). fold R.
  rewrite (val_scaled_vin ab P lo lsh a Hab1 ltac:(lia) ltac:(fold A; lia)). fold A.
  fold (LvalI (length a)).
  assert (EA : P - (A - lo) * ab = E1 + z) by (unfold E1; lia).
  rewrite EA.
  assert (X1 : 2 ^ (E1 + z) * LvalI (length a)
               = 2 ^ (E1 + z) * drop + 2 ^ (E1 + g) * Vres rb rsz res + 2 ^ (E1 + (g + R * rb)) * K).
  { rewrite (pow2_add E1 z), (pow2_add E1 g), (pow2_add E1 (g + R * rb)) by lia.
    replace (2 ^ E1 * 2 ^ z * LvalI (length a)) with (2 ^ E1 * (2 ^ z * LvalI (length a))) by ring.
    rewrite EV. ring. }
  replace (E1 + g) with (P - R * rb) in X1 by (unfold E1; ring).
  replace (E1 + (g + R * rb)) with P in X1 by (unfold E1; ring).
  rewrite X1.
  replace (2 ^ (P - R * rb) * Vres rb rsz res
           - (2 ^ (E1 + z) * drop + 2 ^ (P - R * rb) * Vres rb rsz res + 2 ^ P * K))
    with (- (2 ^ (E1 + z) * drop) + 2 ^ P * (- K)) by ring.
  rewrite tor_abs_add_mul by auto.
  assert (Hex : g <= lsh -> tor_abs P (- (2 ^ (E1 + z) * drop)) = 0).
  { intros Hgl. rewrite (Hd2 Hgl), Z.mul_0_r. apply tor_abs_0; auto. }
  split.
  - destruct Hzg as [Ez|Eg].
    + pose proof (tor_abs_le P (- (2 ^ (E1 + z) * drop)) HP0) as Hle.
      rewrite Z.abs_opp, Z.abs_mul in Hle.
      pose proof (pow2_pos (E1 + z) ltac:(lia)) as Hp. rewrite (Z.abs_eq (2 ^ (E1 + z))) in Hle by lia.
      replace (P - R * rb) with ((E1 + z) + g) by (unfold E1; lia).
      rewrite (pow2_add (E1 + z) g) by lia.
      assert (2 ^ (E1 + z) * Z.abs drop <= 2 ^ (E1 + z) * 2 ^ g) by (apply Z.mul_le_mono_nonneg_l; lia).
      lia.
    + rewrite Hex by lia. pose proof (pow2_pos (P - R * rb) ltac:(lia)). lia.
  - intros Hx. apply Hex. destruct Hzg; lia.
Qed.

End Loop.
