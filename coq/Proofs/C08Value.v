(* C08, level 3 (pure arithmetic): the torus value of a window of the balanced expansion.
   No machine arithmetic and no loops here. *)
From PV Require Import Base.MachineInt Model.Znx Model.Limbs Model.C08Oracle
  Proofs.ZnxDigit Proofs.C08Steps Proofs.C08Chain.
Open Scope Z_scope.

(* ---------- val_scaled as a finite sum ---------- *)

Definition wt (P b : Z) (i : nat) : Z := 2 ^ (P - (zn i + 1) * b).

Lemma val_scaled_aux (P b : Z) (l : list Z) (s k : Z) :
  fold_left (fun (s : Z * Z) x => (fst s + x * 2 ^ (P - (snd s + 1) * b), snd s + 1)) l (s, k)
  = (s + sumn (length l) (fun i => nthZ l i * 2 ^ (P - (k + zn i + 1) * b)), k + zn (length l)).
Proof.
  revert s k; induction l as [|x t IH]; intros s k.
  - cbn [fold_left length sumn]. unfold zn. f_equal; cbn; lia.
  - cbn [fold_left fst snd]. rewrite IH. cbn [length].
    replace (S (length t)) with (1 + length t)%nat by lia. rewrite sumn_add. cbn [sumn].
    unfold zn. f_equal; [|lia].
    unfold nthZ at 2. cbn [nth]. rewrite Z.add_0_r, Z.add_0_l, <- Z.add_assoc. f_equal. f_equal.
    apply sumn_ext. intros i Hi. unfold nthZ. cbn [nth Nat.add]. f_equal. f_equal. lia.
Qed.

Lemma val_scaled_sumn (P b : Z) (l : list Z) :
  val_scaled P b l = sumn (length l) (fun i => nthZ l i * wt P b i).
Proof.
  unfold val_scaled. rewrite val_scaled_aux. cbn [fst]. rewrite Z.add_0_l.
  apply sumn_ext. intros i Hi. unfold wt. f_equal.
Qed.

(* ---------- distance on the torus ---------- *)

Lemma wrap_0_l (x : Z) : wrap 0 x = 0.
Proof. unfold wrap. cbn. rewrite Z.mod_1_r. reflexivity. Qed.

Lemma tor_abs_le (P x : Z) : 0 <= P -> tor_abs P x <= Z.abs x.
Proof.
  intros HP. unfold tor_abs. destruct (Z.eq_dec P 0) as [->|Hne]; [rewrite wrap_0_l; lia|].
  pose proof (wrap_range P x ltac:(lia)) as [H1 H2].
  destruct (Z_le_gt_dec (- 2 ^ (P - 1)) x) as [Hl|Hl]; [destruct (Z_lt_le_dec x (2 ^ (P - 1))) as [Hu|Hu]|].
  - rewrite wrap_id by (unfold in_range; lia). lia.
  - lia.
  - lia.
Qed.

Lemma tor_abs_add_mul (P x y : Z) : 0 <= P -> tor_abs P (x + 2 ^ P * y) = tor_abs P x.
Proof.
  intros HP. unfold tor_abs. destruct (Z.eq_dec P 0) as [->|Hne]; [rewrite !wrap_0_l; reflexivity|].
  rewrite wrap_add_mul by lia. reflexivity.
Qed.

Lemma tor_abs_le_unit (P x : Z) : 0 <= P -> tor_abs P x <= 2 ^ P.
Proof.
  intros HP. unfold tor_abs. destruct (Z.eq_dec P 0) as [->|Hne]; [rewrite wrap_0_l; cbn; lia|].
  pose proof (wrap_range P x ltac:(lia)) as [H1 H2].
  pose proof (pow2_split P ltac:(lia)). pose proof (pow2_pos (P - 1) ltac:(lia)). lia.
Qed.

Lemma tor_abs_0 (P : Z) : 0 <= P -> tor_abs P 0 = 0.
Proof. intros HP. pose proof (tor_abs_le P 0 HP). unfold tor_abs in *. lia. Qed.

(* ---------- the input sequence of a limb vector and the digit window ---------- *)

(* a (most significant first) shifted by lsh bits, as a least-significant-first sequence padded with 0 *)
Definition vin (a : list Z) (lsh : Z) (t : nat) : Z :=
  if Nat.ltb t (length a) then nthZ a (length a - 1 - t) * 2 ^ lsh else 0.

(* digit of position t of the balanced expansion (0 below position 0) *)
Definition dgz (b : Z) (v : nat -> Z) (t : Z) : Z :=
  if t <? 0 then 0 else dig b v 0 (Z.to_nat t).

(* the integer  sum_t v_t 2^(t b) *)
Definition ival (b : Z) (v : nat -> Z) (n : nat) : Z := sumn n (fun t => v t * 2 ^ (zn t * b)).

(* value of the window of rsz digits whose top digit has position T - 1 *)
Definition dval (P b : Z) (v : nat -> Z) (T : Z) (rsz : nat) : Z :=
  sumn rsz (fun i => dgz b v (T - 1 - zn i) * wt P b i).

Lemma vin_zero (a : list Z) (lsh : Z) (t : nat) : (length a <= t)%nat -> vin a lsh t = 0.
Proof. intros Ht. unfold vin. destruct (Nat.ltb_spec t (length a)); [lia|reflexivity]. Qed.

Lemma dgz_nonneg (b : Z) (v : nat -> Z) (t : Z) : 0 <= t -> dgz b v t = dig b v 0 (Z.to_nat t).
Proof. intros Ht. unfold dgz. destruct (Z.ltb_spec t 0); [lia|reflexivity]. Qed.

Lemma dgz_neg (b : Z) (v : nat -> Z) (t : Z) : t < 0 -> dgz b v t = 0.
Proof. intros Ht. unfold dgz. destruct (Z.ltb_spec t 0); [reflexivity|lia]. Qed.

Section Value.
Variable b : Z.
Hypothesis Hb : 1 <= b.

Lemma pow_zn_S (j : nat) : 2 ^ (zn (S j) * b) = 2 ^ (zn j * b) * 2 ^ b.
Proof. unfold zn. rewrite <- Z.pow_add_r by lia. f_equal. lia. Qed.

Lemma pow_zn_add (j k : nat) : 2 ^ (zn (j + k) * b) = 2 ^ (zn j * b) * 2 ^ (zn k * b).
Proof. unfold zn. rewrite <- Z.pow_add_r by lia. f_equal. lia. Qed.

(* reversal: big-endian weights of a window = scaled little-endian integer *)
Lemma window_rev (d : nat -> Z) (m : nat) (E : Z) : 0 <= E ->
  sumn m (fun i => d (m - 1 - i)%nat * 2 ^ (E + (zn m - zn i - 1) * b))
  = 2 ^ E * sumn m (fun t => d t * 2 ^ (zn t * b)).
Proof.
  intros HE. rewrite sumn_rev, <- sumn_scale. apply sumn_ext. intros t Ht.
  replace (m - 1 - (m - 1 - t))%nat with t by lia.
  replace (E + (zn m - zn (m - 1 - t) - 1) * b) with (E + zn t * b) by (unfold zn; nia).
  rewrite Z.pow_add_r by (unfold zn; nia). ring.
Qed.

Variable v : nat -> Z.
Variable n : nat.
Hypothesis Hv : forall t, (n <= t)%nat -> v t = 0.

(* the total integer seen from any position m: S n = S m + 2^(m b) X *)
Lemma ival_split (m : nat) : exists X, ival b v n = ival b v m + 2 ^ (zn m * b) * X.
Proof.
  unfold ival. destruct (Nat.le_gt_cases m n) as [Hm|Hm].
  - exists (sumn (n - m) (fun t => v (m + t)%nat * 2 ^ (zn t * b))).
    replace n with (m + (n - m))%nat at 1 by lia. rewrite sumn_add. f_equal.
    rewrite <- sumn_scale. apply sumn_ext. intros t Ht. rewrite pow_zn_add. ring.
  - exists 0. replace m with (n + (m - n))%nat at 1 by lia. rewrite sumn_add.
    rewrite (sumn_zero (m - n)); [lia|]. intros t Ht. rewrite Hv by lia. lia.
Qed.

(* the window value, relative to the exact value 2^(P - T b) * S n, modulo 2^P *)
Theorem dval_value (P T : Z) (rsz : nat) : zn rsz * b <= P -> 0 <= P - T * b ->
  exists delta Y, dval P b v T rsz - 2 ^ (P - T * b) * ival b v n = delta + 2 ^ P * Y /\
    Z.abs delta <= 2 ^ (P - zn rsz * b) /\ (T <= zn rsz -> delta = 0).
Proof.
  intros HP HE. set (E := P - T * b) in *.
  destruct (Z_le_gt_dec T (zn rsz)) as [HT|HT].
  - (* nothing truncated *)
    set (T' := Z.to_nat T).
    assert (HT' : (T' <= rsz)%nat) by (unfold T', zn in *; lia).
    destruct (ival_split T') as [X HX].
    pose proof (chain_sum b Hb v 0 T') as HC. fold (ival b v T') in HC.
    assert (Hval : dval P b v T rsz = 2 ^ E * sumn T' (fun t => dig b v 0 t * 2 ^ (zn t * b))).
    { unfold dval. replace rsz with (T' + (rsz - T'))%nat by lia. rewrite sumn_add.
      rewrite (sumn_zero (rsz - T')).
      2:{ intros t Ht. rewrite dgz_neg; [lia|]. unfold T', zn in *; lia. }
      rewrite Z.add_0_r, <- (window_rev _ T' E HE). apply sumn_ext. intros i Hi.
      rewrite dgz_nonneg by (unfold T', zn in *; lia).
      f_equal; [f_equal; unfold T', zn in *; lia|].
      unfold wt. f_equal. unfold E, T', zn in *. nia. }
    destruct (Z_le_gt_dec T 0) as [HT0|HT0].
    + (* everything is an integer *)
      assert (T' = 0%nat) by (unfold T'; lia).
      exists 0, (- 2 ^ (- T * b) * ival b v n). split; [|split; [|reflexivity]].
      * rewrite Hval. replace T' with 0%nat by auto. cbn [sumn].
        replace E with (P + - T * b) by (unfold E; lia). rewrite Z.pow_add_r by (unfold zn in *; nia). ring.
      * cbn [Z.abs]. pose proof (pow2_pos (P - zn rsz * b) ltac:(lia)). lia.
    + exists 0, (- (car b v 0 T' + X)). split; [|split; [|reflexivity]].
      * rewrite Hval, HX.
        assert (EP : 2 ^ P = 2 ^ E * 2 ^ (zn T' * b)).
        { rewrite <- Z.pow_add_r by (unfold zn; nia). f_equal. unfold E, T', zn. nia. }
        rewrite EP. nia.
      * cbn [Z.abs]. pose proof (pow2_pos (P - zn rsz * b) ltac:(lia)). lia.
  - (* k low digits are dropped *)
    set (k := Z.to_nat (T - zn rsz)).
    assert (Hk : zn k = T - zn rsz) by (unfold k, zn in *; lia).
    destruct (ival_split (k + rsz)) as [X HX].
    pose proof (chain_sum b Hb v 0 (k + rsz)) as HC. fold (ival b v (k + rsz)) in HC.
    rewrite sumn_add in HC.
    set (Dlow := sumn k (fun t => dig b v 0 t * 2 ^ (zn t * b))) in *.
    assert (Hmid : sumn rsz (fun t => dig b v 0 (k + t) * 2 ^ (zn (k + t) * b))
                   = 2 ^ (zn k * b) * sumn rsz (fun s => dig b v 0 (k + s) * 2 ^ (zn s * b))).
    { rewrite <- sumn_scale. apply sumn_ext. intros t Ht. rewrite pow_zn_add. ring. }
    rewrite Hmid in HC.
    set (E' := P - zn rsz * b).
    assert (Hval : dval P b v T rsz = 2 ^ E' * sumn rsz (fun s => dig b v 0 (k + s) * 2 ^ (zn s * b))).
    { unfold dval. rewrite <- (window_rev _ rsz E') by (unfold E'; lia). apply sumn_ext. intros i Hi.
      rewrite dgz_nonneg by (unfold zn in *; lia).
      f_equal; [f_equal; unfold zn in *; lia|].
      unfold wt. f_equal. unfold E'. lia. }
    assert (EE : 2 ^ E' = 2 ^ E * 2 ^ (zn k * b)).
    { rewrite <- Z.pow_add_r by (unfold zn in *; nia). f_equal. unfold E, E'. rewrite Hk. ring. }
    assert (EP : 2 ^ P = 2 ^ E * 2 ^ (zn (k + rsz) * b)).
    { rewrite <- Z.pow_add_r by (unfold zn in *; nia). f_equal. unfold E.
      replace (zn (k + rsz)) with T by (unfold zn in *; lia). ring. }
    exists (- 2 ^ E * Dlow), (- (car b v 0 (k + rsz) + X)). split; [|split; [|lia]].
    + rewrite Hval, HX, EE, EP. nia.
    + pose proof (digits_small b Hb (dig b v 0) k ltac:(intros; apply dig_range; auto)) as HD.
      fold Dlow in HD. fold E'. rewrite EE.
      pose proof (pow2_pos E HE). pose proof (pow2_pos (zn k * b) ltac:(unfold zn; nia)).
      rewrite Z.abs_mul, Z.abs_opp, (Z.abs_eq (2 ^ E)) by lia. nia.
Qed.

End Value.

(* value of a limb vector shifted by off = lo b + lsh bits, as the scaled integer of its input sequence *)
Lemma val_scaled_vin (b P lo lsh : Z) (a : list Z) : 1 <= b -> 0 <= lsh ->
  0 <= P - (zn (length a) - lo) * b ->
  val_scaled (P + (lo * b + lsh)) b a = 2 ^ (P - (zn (length a) - lo) * b) * ival b (vin a lsh) (length a).
Proof.
  intros Hb Hl HE. set (E := P - (zn (length a) - lo) * b) in *.
  rewrite val_scaled_sumn, sumn_rev. unfold ival. rewrite <- sumn_scale.
  apply sumn_ext. intros t Ht. unfold vin. destruct (Nat.ltb_spec t (length a)); [|lia].
  unfold wt.
  replace (P + (lo * b + lsh) - (zn (length a - 1 - t) + 1) * b) with (E + lsh + zn t * b)
    by (unfold E, zn; nia).
  rewrite !Z.pow_add_r by (unfold zn; nia). ring.
Qed.
