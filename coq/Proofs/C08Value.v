(* C08, level 3 (pure arithmetic): the torus value of a window of the balanced expansion.
   No machine arithmetic and no loops here. *)
From PV Require Import Base.MachineInt Model.Znx Model.Limbs Model.C08Oracle
  Proofs.ZnxDigit Proofs.C08Steps Proofs.C08Chain.
Open Scope Z_scope.

(* ---------- val_scaled as a finite sum ---------- *)

Definition wt (P b : Z) (i : nat) : Z := 2 ^ (P - (zn i + 1) * b).

Lemma val_scaled_aux (P b : Z) (l : list Z) (s k : Z) :
  fold_left (fun (s : Z * Z) x => (fst s + x * 2 ^ (P - (snd s + 1) * b), snd s + 1)) l (s, k)
  = (s + sumn (length l) (fun i => nthZ l i * 2 ^ (P - (k + zn i + 1) * b)), k + zn (length l)).
Proof.
  revert s k; induction l as [|x t IH]; intros s k.
  - cbn [fold_left length sumn]. unfold zn. f_equal; cbn; lia.
  - cbn [fold_left fst snd]. rewrite IH. cbn [length].
    replace (S (length t)) with (1 + length t)%nat by lia. rewrite sumn_add. cbn [sumn].
    unfold zn. f_equal; [|lia].
    unfold nthZ at 2. cbn [nth]. rewrite Z.add_0_r, Z.add_0_l, <- Z.add_assoc. f_equal. f_equal.
    apply sumn_ext. intros i Hi. unfold nthZ. cbn [nth Nat.add]. f_equal. f_equal. lia.
Qed.

Lemma val_scaled_sumn (P b : Z) (l : list Z) :
  val_scaled P b l = sumn (length l) (fun i => nthZ l i * wt P b i).
Proof.
  unfold val_scaled. rewrite val_scaled_aux. cbn [fst]. rewrite Z.add_0_l.
  apply sumn_ext. intros i Hi. unfold wt. f_equal.
Qed.

(* ---------- distance on the torus ---------- *)

Lemma wrap_0_l (x : Z) : wrap 0 x = 0.
Proof. unfold wrap. cbn. rewrite Z.mod_1_r. reflexivity. Qed.

Lemma tor_abs_le (P x : Z) : 0 <= P -> tor_abs P x <= Z.abs x.
Proof.
  intros HP. unfold tor_abs. destruct (Z.eq_dec P 0) as [->|Hne]; [rewrite wrap_0_l; lia|].
  pose proof (wrap_range P x ltac:(lia)) as [H1 H2].
  destruct (Z_le_gt_dec (- 2 ^ (P - 1)) x) as [Hl|Hl]; [destruct (Z_lt_le_dec x (2 ^ (P - 1))) as [Hu|Hu]|].
  - rewrite wrap_id by (unfold in_range; lia). lia.
  - lia.
  - lia.
Qed.

Lemma tor_abs_add_mul (P x y : Z) : 0 <= P -> tor_abs P (x + 2 ^ P * y) = tor_abs P x.
Proof.
  intros HP. unfold tor_abs. destruct (Z.eq_dec P 0) as [->|Hne]; [rewrite !wrap_0_l; reflexivity|].
  rewrite wrap_add_mul by lia. reflexivity.
Qed.

Lemma tor_abs_le_unit (P x : Z) : 0 <= P -> tor_abs P x <= 2 ^ P.
Proof.
  intros HP. unfold tor_abs. destruct (Z.eq_dec P 0) as [->|Hne]; [rewrite wrap_0_l; cbn; lia|].
  pose proof (wrap_range P x ltac:(lia)) as [H1 H2].
  pose proof (pow2_split P ltac:(lia)). pose proof (pow2_pos (P - 1) ltac:(lia)). lia.
Qed.

Lemma tor_abs_0 (P : Z) : 0 <= P -> tor_abs P 0 = 0.
Proof. intros HP. pose proof (tor_abs_le P 0 HP). unfold tor_abs in *. lia. Qed.

(* ---------- the input sequence of a limb vector and the digit window ---------- *)

(* a (most significant first) shifted by lsh bits, as a least-significant-first sequence padded with 0 *)
Definition vin (a : list Z) (lsh : Z) (t : nat) : Z :=
  if Nat.ltb t (length a) then nthZ a (length a - 1 - t) * 2 ^ lsh else 0.

(* digit of position t of the balanced expansion (0 below position 0) *)
Definition dgz (b : Z) (v : nat -> Z) (t : Z) : Z :=
  if t <? 0 then 0 else dig b v 0 (Z.to_nat t).

(* the integer  sum_t v_t 2^(t b) *)
Definition ival (b : Z) (v : nat -> Z) (n : nat) : Z := sumn n (fun t => v t * 2 ^ (zn t * b)).

(* value of the window of rsz digits whose top digit has position T - 1 *)
Definition dval (P b : Z) (v : nat -> Z) (T : Z) (rsz : nat) : Z :=
  sumn rsz (fun i => dgz b v (T - 1 - zn i) * wt P b i).

Lemma vin_zero (a : list Z) (lsh : Z) (t : nat) : (length a <= t)%nat -> vin a lsh t = 0.
Proof. intros Ht. unfold vin. destruct (Nat.ltb_spec t (length a)); [lia|reflexivity]. Qed.

Lemma dgz_nonneg (b : Z) (v : nat -> Z) (t : Z) : 0 <= t -> dgz b v t = dig b v 0 (Z.to_nat t).
Proof. intros Ht. unfold dgz. destruct (Z.ltb_spec t 0); [lia|reflexivity]. Qed.

Lemma dgz_neg (b : Z) (v : nat -> Z) (t : Z) : t < 0 -> dgz b v t = 0.
Proof. intros Ht. unfold dgz. destruct (Z.ltb_spec t 0); [reflexivity|lia]. Qed.

Section Value.
Variable b : Z.
Hypothesis Hb : 1 <= b.

Lemma pow_zn_S (j : nat) : 2 ^ (zn (S j) * b) = 2 ^ (zn j * b) * 2 ^ b.
Proof. unfold zn. rewrite <- Z.pow_add_r by lia. f_equal. lia. Qed.

Lemma pow_zn_add (j k : nat) : 2 ^ (zn (j + k) * b) = 2 ^ (zn j * b) * 2 ^ (zn k * b).
Proof. unfold zn. rewrite <- Z.pow_add_r by lia. f_equal. lia. Qed.

(* reversal: big-endian weights of a window = scaled little-endian integer *)
Lemma window_rev (d : nat -> Z) (m : nat) (E : Z) : 0 <= E ->
  sumn m (fun i => d (m - 1 - i)%nat * 2 ^ (E + (zn m - zn i - 1) * b))
  = 2 ^ E * sumn m (fun t => d t * 2 ^ (zn t * b)).
Proof.
  intros HE. rewrite sumn_rev, <- sumn_scale. apply sumn_ext. intros t Ht.
  replace (m - 1 - (m - 1 - t))%nat with t by lia.
  replace (E + (zn m - zn (m - 1 - t) - 1) * b) with (E + zn t * b) by (unfold zn; nia).
  rewrite Z.pow_add_r by (unfold zn; nia). ring.
Qed.

Variable v : nat -> Z.
Variable n : nat.
Hypothesis Hv : forall t, (n <= t)%nat -> v t = 0.

(* the total integer seen from any position m: S n = S m + 2^(m b) X *)
Lemma ival_split (m : nat) : exists X, ival b v n = ival b v m + 2 ^ (zn m * b) * X.
Proof.
  unfold ival. destruct (Nat.le_gt_cases m n) as [Hm|Hm].
  - exists (sumn (n - m) (fun t => v (m + t)%nat * 2 ^ (zn t * b))).
    replace n with (m + (n - m))%nat at 1 by lia. rewrite sumn_add. f_equal.
    rewrite <- sumn_scale. apply sumn_ext. intros t Ht. rewrite pow_zn_add. ring.
  - exists 0. replace m with (n + (m - n))%nat at 1 by lia. rewrite sumn_add.
    rewrite (sumn_zero (m - n)); [lia|]. intros t Ht. rewrite Hv by lia. lia.
Qed.

(* the window value, relative to the exact value 2^(P - T b) * S n, modulo 2^P *)
Theorem dval_value (P T : Z) (rsz : nat) : zn rsz * b <= P -> 0 <= P - T * b ->
  exists delta Y, dval P b v T rsz - 2 ^ (P - T * b) * ival b v n = delta + 2 ^ P * Y /\
    Z.abs delta <= 2 ^ (P - zn rsz * b) /\ (T <= zn rsz -> delta = 0).
Proof.
  intros HP HE. set (E := P - T * b) in *.
  destruct (Z_le_gt_dec T (zn rsz)) as [HT|HT].
  - (* nothing truncated *)
    set (T' := Z.to_nat T).
    assert (HT' : (T' <= rsz)%nat) by (unfold T', zn in *; lia).
    destruct (ival_split T') as [X HX].
    pose proof (chain_sum b Hb v 0 T') as HC. fold (ival b v T') in HC.
    assert (Hval : dval P b v T rsz = 2 ^ E * sumn T' (fun t => dig b v 0 t * 2 ^ (zn t * b))).
    { unfold dval. replace rsz with (T' + (rsz - T'))%nat by lia. rewrite sumn_add.
      rewrite (sumn_zero (rsz - T')).
      2:{ intros t Ht. rewrite dgz_neg; [lia|]. unfold T', zn in *; lia. }
      rewrite Z.add_0_r, <- (window_rev _ T' E HE). apply sumn_ext. intros i Hi.
      rewrite dgz_nonneg by (unfold T', zn in *; lia).
      f_equal; [f_equal; unfold T', zn in *; lia|].
      unfold wt. f_equal. unfold E, T', zn in *. nia. }
    destruct (Z_le_gt_dec T 0) as [HT0|HT0].
    + (* everything is an integer *)
      assert (T' = 0%nat) by (unfold T'; lia).
      exists 0, (- 2 ^ (- T * b) * ival b v n). split; [|split; [|reflexivity]].
      * rewrite Hval. replace T' with 0%nat by auto. cbn [sumn].
        replace E with (P + - T * b) by (unfold E; lia). rewrite Z.pow_add_r by (unfold zn in *; nia). ring.
      * cbn [Z.abs]. pose proof (pow2_pos (P - zn rsz * b) ltac:(lia)). lia.
    + exists 0, (- (car b v 0 T' + X)). split; [|split; [|reflexivity]].
      * rewrite Hval, HX.
        assert (EP : 2 ^ P = 2 ^ E * 2 ^ (zn T' * b)).
        { rewrite <- Z.pow_add_r by (unfold zn; nia). f_equal. unfold E, T', zn. nia. }
        rewrite EP. nia.
      * cbn [Z.abs]. pose proof (pow2_pos (P - zn rsz * b) ltac:(lia)). lia.
  - (* k low digits are dropped *)
    set (k := Z.to_nat (T - zn rsz)).
    assert (Hk : zn k = T - zn rsz) by (unfold k, zn in *; lia).
    destruct (ival_split (k + rsz)) as [X HX].
    pose proof (chain_sum b Hb v 0 (k + rsz)) as HC. fold (ival b v (k + rsz)) in HC.
    rewrite sumn_add in HC.
    set (Dlow := sumn k (fun t => dig b v 0 t * 2 ^ (zn t * b))) in *.
    assert (Hmid : sumn rsz (fun t => dig b v 0 (k + t) * 2 ^ (zn (k + t) * b))
                   = 2 ^ (zn k * b) * sumn rsz (fun s => dig b v 0 (k + s) * 2 ^ (zn s * b))).
    { rewrite <- sumn_scale. apply sumn_ext. intros t Ht. rewrite pow_zn_add. ring. }
    rewrite Hmid in HC.
    set (E' := P - zn rsz * b).
    assert (Hval : dval P b v T rsz = 2 ^ E' * sumn rsz (fun s => dig b v 0 (k + s) * 2 ^ (zn s * b))).
    { unfold dval. rewrite <- (window_rev _ rsz E') by (unfold E'; lia). apply sumn_ext. intros i Hi.
      rewrite dgz_nonneg by (unfold zn in *; lia).
      f_equal; [f_equal; unfold zn in *; lia|].
      unfold wt. f_equal. unfold E'. lia. }
    assert (EE : 2 ^ E' = 2 ^ E * 2 ^ (zn k * b)).
    { rewrite <- Z.pow_add_r by (unfold zn in *; nia). f_equal. unfold E, E'. rewrite Hk. ring. }
    assert (EP : 2 ^ P = 2 ^ E * 2 ^ (zn (k + rsz) * b)).
    { rewrite <- Z.pow_add_r by (unfold zn in *; nia). f_equal. unfold E.
      replace (zn (k + rsz)) with T by (unfold zn in *; lia). ring. }
    exists (- 2 ^ E * Dlow), (- (car b v 0 (k + rsz) + X)). split; [|split; [|lia]].
    + rewrite Hval, HX, EE, EP. nia.
    + pose proof (digits_small b Hb (dig b v 0) k ltac:(intros; apply dig_range; auto)) as HD.
      fold Dlow in HD. fold E'. rewrite EE.
      pose proof (pow2_pos E HE). pose proof (pow2_pos (zn k * b) ltac:(unfold zn; nia)).
      rewrite Z.abs_mul, Z.abs_opp, (Z.abs_eq (2 ^ E)) by lia. nia.
Qed.

End Value.

(* value of a limb vector shifted by off = lo b + lsh bits, as the scaled integer of its input sequence *)
Lemma val_scaled_vin (b P lo lsh : Z) (a : list Z) : 1 <= b -> 0 <= lsh ->
  0 <= P - (zn (length a) - lo) * b ->
  val_scaled (P + (lo * b + lsh)) b a = 2 ^ (P - (zn (length a) - lo) * b) * ival b (vin a lsh) (length a).
Proof.
  intros Hb Hl HE. set (E := P - (zn (length a) - lo) * b) in *.
  rewrite val_scaled_sumn, sumn_rev. unfold ival. rewrite <- sumn_scale.
  apply sumn_ext. intros t Ht. unfold vin. destruct (Nat.ltb_spec t (length a)); [|lia].
  unfold wt.
  replace (P + (lo * b + lsh) - (zn (length a - 1 - t) + 1) * b) with (E + lsh + zn t * b)
    by (unfold E, zn; nia).
  rewrite !Z.pow_add_r by (unfold zn; nia). ring.
Qed.

(* ---------- the window of digits against the exact shifted value ---------- *)

(* dval - exact value = delta (mod 2^P), |delta| <= one unit of the last limb, delta = 0 if nothing is cut *)
Lemma window_core (b P lo lsh : Z) (a : list Z) (rsz : nat) : 1 <= b -> 0 <= lsh < b ->
  zn rsz * b + zn (length a) * b + Z.abs (lo * b + lsh) <= P ->
  exists delta Y,
    dval P b (vin a lsh) (zn (length a) - lo) rsz - val_scaled (P + (lo * b + lsh)) b a = delta + 2 ^ P * Y /\
    Z.abs delta <= 2 ^ (P - zn rsz * b) /\
    (zn (length a) * b - (lo * b + lsh) <= zn rsz * b -> delta = 0).
Proof.
  intros Hb Hl HP.
  set (A := zn (length a)) in *. set (R := zn rsz) in *.
  assert (HA : 0 <= A) by (unfold A, zn; lia). assert (HR : 0 <= R) by (unfold R, zn; lia).
  assert (HP0 : 0 <= P) by nia.
  set (T := A - lo). set (E := P - T * b).
  assert (Hexact : A * b - (lo * b + lsh) <= R * b -> T <= R) by (unfold T; nia).
  destruct (Z_le_gt_dec 0 E) as [HE|HE].
  - rewrite (val_scaled_vin b P lo lsh a Hb ltac:(lia) HE). fold A T E.
    destruct (dval_value b Hb (vin a lsh) (length a) (fun t Ht => vin_zero a lsh t Ht) P T rsz
                ltac:(fold R; nia) HE) as (delta & Y & H1 & H2 & H3).
    exists delta, Y. fold E in H1. fold R in H2, H3. split; [exact H1|]. split; [exact H2|].
    intros Hx. apply H3. apply Hexact. exact Hx.
  - (* only possible when the output is empty and something is truncated *)
    assert (HR0 : R = 0) by (unfold E, T in HE; nia).
    assert (HP1 : 1 <= P) by (unfold E, T in HE; nia).
    set (X := dval P b (vin a lsh) T rsz - val_scaled (P + (lo * b + lsh)) b a).
    destruct (wrap_exists P X HP1) as [q Hq].
    exists (wrap P X), q. split; [lia|]. split.
    + pose proof (wrap_range P X HP1) as [W1 W2].
      pose proof (pow2_split P HP1). pose proof (pow2_pos (P - 1) ltac:(lia)).
      replace (P - R * b) with P by nia. lia.
    + intros Hx. specialize (Hexact Hx). unfold E in HE. nia.
Qed.

(* any routine whose output is  keep * r0 + s * window  (mod 1), s = +-1 *)
Lemma variant_value (b P lo lsh keep s : Z) (a r0 out : list Z) : 1 <= b -> 0 <= lsh < b ->
  s = 1 \/ s = -1 ->
  (exists Z0, val_scaled P b out
     = keep * val_scaled P b r0 + s * dval P b (vin a lsh) (zn (length a) - lo) (length out) + 2 ^ P * Z0) ->
  zn (length out) * b + zn (length a) * b + Z.abs (lo * b + lsh) <= P ->
  let D := tor_abs P (val_scaled P b out - keep * val_scaled P b r0
                      - s * val_scaled (P + (lo * b + lsh)) b a) in
  D <= 2 ^ (P - zn (length out) * b) /\
  (zn (length a) * b - (lo * b + lsh) <= zn (length out) * b -> D = 0).
Proof.
  intros Hb Hl Hs [Z0 HZ] HP. cbv zeta.
  destruct (window_core b P lo lsh a (length out) Hb Hl HP) as (delta & Y & H1 & H2 & H3).
  assert (HP0 : 0 <= P) by (unfold zn in *; nia).
  replace (val_scaled P b out - keep * val_scaled P b r0 - s * val_scaled (P + (lo * b + lsh)) b a)
    with (s * delta + 2 ^ P * (s * Y + Z0)) by (rewrite HZ; nia).
  rewrite tor_abs_add_mul by auto.
  split.
  - pose proof (tor_abs_le P (s * delta) HP0). destruct Hs; subst s; lia.
  - intros Hx. rewrite (H3 Hx). rewrite Z.mul_0_r. apply tor_abs_0; auto.
Qed.

(* value of a list given by index *)
Lemma val_scaled_ext (P b : Z) (l : list Z) (f : nat -> Z) :
  (forall i, (i < length l)%nat -> nthZ l i = f i) ->
  val_scaled P b l = sumn (length l) (fun i => f i * wt P b i).
Proof.
  intros Hf. rewrite val_scaled_sumn. apply sumn_ext. intros i Hi. rewrite Hf by auto. reflexivity.
Qed.

(* out_i = base_i + s * window_i *)
Lemma val_scaled_affine (P b s T : Z) (v : nat -> Z) (l r0 : list Z) (keep : Z) :
  length l = length r0 ->
  (forall i, (i < length l)%nat -> nthZ l i = keep * nthZ r0 i + s * dgz b v (T - 1 - zn i)) ->
  val_scaled P b l = keep * val_scaled P b r0 + s * dval P b v T (length l).
Proof.
  intros Hlen Hn. rewrite (val_scaled_ext P b l _ Hn), (val_scaled_sumn P b r0). unfold dval.
  rewrite <- Hlen, <- !sumn_scale, <- sumn_plus. apply sumn_ext. intros i Hi. ring.
Qed.
