(* C20 — every interleaving of the small-step system ends with the same outputs as the sequential run.
   Invariant argument by induction on schedules: a step of thread t writes one slot that no pending item of
   another thread will write (disjoint writes), reads only the immutable inputs baked into g and its private
   scratch, and the value written does not depend on the scratch contents (hypothesis Hg: C11/C12). *)
From PV Require Import Base.MachineInt Model.C20Threads Proofs.C20Partition.
From Coq Require Import Arith PeanoNat Permutation.
Local Open Scope nat_scope.

(* ---------- set_nth ---------- *)
Lemma set_nth_perm {X : Type} (p : list (list X)) : forall t x r,
  nth_error p t = Some (x :: r) -> Permutation (concat p) (x :: concat (set_nth t r p)).
Proof.
  induction p as [|l p IH]; intros t x r H.
  - destruct t; discriminate.
  - destruct t as [|t]; cbn [nth_error] in H.
    + inversion H; subst. cbn [set_nth concat app]. apply Permutation_refl.
    + cbn [set_nth concat]. specialize (IH t x r H).
      eapply Permutation_trans; [apply Permutation_app_head; exact IH|].
      apply Permutation_sym. apply Permutation_middle.
Qed.

Lemma set_nth_nth {X : Type} (p : list (list X)) : forall t0 t r,
  t0 < length p -> nth t (set_nth t0 r p) [] = if t =? t0 then r else nth t p [].
Proof.
  induction p as [|l p IH]; intros t0 t r Hlt; cbn [length] in Hlt; [lia|].
  destruct t0 as [|t0]; cbn [set_nth].
  - destruct t; reflexivity.
  - destruct t as [|t]; [reflexivity|]. cbn [nth]. rewrite IH by lia. reflexivity.
Qed.

Lemma set_nth_length {X : Type} (p : list X) : forall t x, length (set_nth t x p) = length p.
Proof.
  induction p as [|l p IH]; intros t x; [destruct t; reflexivity|].
  destruct t; cbn [set_nth length]; auto.
Qed.

Lemma zero_range_spec {V : Type} (zero : V) (len : nat) : forall from (m : nat -> V) j,
  zero_range V zero from len m j = if (from <=? j) && (j <? from + len) then zero else m j.
Proof.
  unfold zero_range. induction len as [|len IH]; intros from m j.
  - cbn [seq fold_left]. destruct (from <=? j) eqn:E1; cbn [andb]; [|reflexivity].
    destruct (j <? from + 0) eqn:E2; [|reflexivity].
    apply Nat.leb_le in E1. apply Nat.ltb_lt in E2. lia.
  - cbn [seq fold_left]. rewrite IH. unfold upd.
    destruct (S from <=? j) eqn:E1; destruct (j <? S from + len) eqn:E2; cbn [andb];
    destruct (from <=? j) eqn:E3; destruct (j <? from + S len) eqn:E4; cbn [andb];
    destruct (j =? from) eqn:E5; try reflexivity;
    repeat match goal with
           | H : (_ <=? _) = true |- _ => apply Nat.leb_le in H
           | H : (_ <=? _) = false |- _ => apply Nat.leb_gt in H
           | H : (_ <? _) = true |- _ => apply Nat.ltb_lt in H
           | H : (_ <? _) = false |- _ => apply Nat.ltb_ge in H
           | H : (_ =? _) = true |- _ => apply Nat.eqb_eq in H
           | H : (_ =? _) = false |- _ => apply Nat.eqb_neq in H
           end; lia.
Qed.

Section Exists.
Variables V Sc : Type.
Variable g : nat -> Sc -> V * Sc.
Notation state := (state V Sc).
Notation step := (step V Sc g).
Notation exec := (exec V Sc g).
Notation finished := (finished V Sc).

(* ---------- a complete schedule always exists ---------- *)
Lemma first_nonempty_none (p : list (list item)) :
  first_nonempty p = None -> forallb (fun l => match l with [] => true | _ => false end) p = true.
Proof.
  induction p as [|l p IH]; intros H; [reflexivity|]. cbn [first_nonempty] in H.
  destruct l; [|discriminate]. cbn [forallb andb].
  destruct (first_nonempty p); [discriminate|]. auto.
Qed.

Lemma first_nonempty_some (p : list (list item)) : forall t,
  first_nonempty p = Some t -> exists x r, nth_error p t = Some (x :: r).
Proof.
  induction p as [|l p IH]; intros t H; [discriminate|]. cbn [first_nonempty] in H.
  destruct l as [|x r].
  - destruct (first_nonempty p) as [t'|]; [|discriminate]. inversion H; subst.
    cbn [nth_error]. apply IH. reflexivity.
  - inversion H; subst. exists x, r. reflexivity.
Qed.

Lemma auto_sched_complete (fuel : nat) : forall st : state,
  total (pend V Sc st) <= fuel ->
  exists st', exec (auto_sched V Sc g fuel st) st = Some st' /\ finished st' = true.
Proof.
  induction fuel as [|fuel IH]; intros st Ht.
  - destruct (first_nonempty (pend V Sc st)) as [t|] eqn:Ef.
    + destruct (first_nonempty_some _ _ Ef) as (x & r & En).
      pose proof (Permutation_length (set_nth_perm _ _ _ _ En)) as Hl.
      unfold total in Ht. cbn [length] in Hl. lia.
    + exists st. split; [reflexivity|]. apply first_nonempty_none. exact Ef.
  - cbn [auto_sched]. destruct (first_nonempty (pend V Sc st)) as [t|] eqn:Ef.
    + destruct (first_nonempty_some _ _ Ef) as (x & r & En).
      assert (Hs : exists st1, step t st = Some st1 /\ pend V Sc st1 = set_nth t r (pend V Sc st)).
      { unfold C20Threads.step. rewrite En. eexists. split; reflexivity. }
      destruct Hs as (st1 & Hs & Hp). rewrite Hs.
      pose proof (Permutation_length (set_nth_perm _ _ _ _ En)) as Hl. cbn [length] in Hl.
      destruct (IH st1) as (st' & He & Hf).
      { unfold total in *. rewrite Hp. lia. }
      exists st'. split; [|exact Hf]. cbn [C20Threads.exec]. rewrite Hs. exact He.
    + exists st. split; [reflexivity|]. apply first_nonempty_none. exact Ef.
Qed.

Lemma run_exists (init : nat -> V) (w : list (list item)) (scr0 : nat -> Sc) :
  exists sched st, run_mt V Sc g (Some w) init scr0 sched = Some st.
Proof.
  destruct (auto_sched_complete (total w) (init_state V Sc w init scr0) (le_n _)) as (st' & He & Hf).
  exists (auto_sched V Sc g (total w) (init_state V Sc w init scr0)), st'.
  unfold run_mt. rewrite He, Hf. reflexivity.
Qed.

End Exists.

Section Sched.
Variables V Sc : Type.
Variable g : nat -> Sc -> V * Sc.
Variable f : nat -> V.
(* the result of an item does not depend on what the scratch contains (C11/C12) *)
Hypothesis Hg : forall i s, fst (g i s) = f i.

Notation state := (state V Sc).
Notation step := (step V Sc g).
Notation exec := (exec V Sc g).
Notation finished := (finished V Sc).

Variables base n : nat.
Variable init : nat -> V.

Definition expected (j : nat) : V := if (base <=? j) && (j <? base + n) then f j else init j.

(* what stays true along every execution *)
Record Inv (w : list (list item)) (st : state) : Prop := {
  inv_items : forall it, In it (concat (pend V Sc st)) -> fst it = snd it /\ base <= fst it < base + n;
  inv_outs : forall j, ~ In j (map fst (concat (pend V Sc st))) -> outs V Sc st j = expected j;
  inv_trace : Permutation (map snd (trace V Sc st) ++ concat (pend V Sc st)) (concat w);
  inv_len : length (pend V Sc st) = length w;
  inv_order : forall t, map snd (filter (fun e => fst e =? t) (trace V Sc st)) ++ nth t (pend V Sc st) [] = nth t w []
}.

Lemma step_inv (w : list (list item)) (t : nat) (st st' : state) :
  step t st = Some st' -> Inv w st -> Inv w st'.
Proof.
  intros Hs [I1 I2 I3 I4 I5]. unfold C20Threads.step in Hs.
  destruct (nth_error (pend V Sc st) t) as [[|it rest]|] eqn:En; try discriminate.
  inversion Hs; subst st'; clear Hs.
  pose proof (set_nth_perm _ _ _ _ En) as Hp.
  assert (Hlt : t < length (pend V Sc st)) by (apply nth_error_Some; congruence).
  constructor; cbn [pend outs trace scr].
  - intros it' Hin. apply I1. eapply Permutation_in; [apply Permutation_sym; exact Hp|]. right; exact Hin.
  - intros j Hj. unfold upd.
    destruct (I1 it) as [Heq Hr]; [eapply Permutation_in; [apply Permutation_sym; exact Hp|left; reflexivity]|].
    destruct (j =? fst it) eqn:Ej.
    + apply Nat.eqb_eq in Ej. subst j. rewrite Hg. unfold expected.
      destruct (base <=? fst it) eqn:E1; destruct (fst it <? base + n) eqn:E2; cbn [andb];
        try (rewrite Heq; reflexivity).
      * apply Nat.ltb_ge in E2. lia.
      * apply Nat.leb_gt in E1. lia.
      * apply Nat.leb_gt in E1. lia.
    + apply Nat.eqb_neq in Ej. apply I2. intros Hin. apply Hj.
      apply in_map_iff in Hin. destruct Hin as (it' & Hf & Hin').
      pose proof (Permutation_in _ Hp Hin') as Hin2. destruct Hin2 as [<-|Hin2]; [congruence|].
      apply in_map_iff. exists it'. split; auto.
  - rewrite map_app. cbn [map snd]. rewrite <- app_assoc. cbn [app].
    eapply Permutation_trans; [|exact I3].
    apply Permutation_app_head. apply Permutation_sym. exact Hp.
  - rewrite set_nth_length. exact I4.
  - intros t'. rewrite filter_app, map_app. cbn [filter fst].
    rewrite set_nth_nth by exact Hlt. rewrite (Nat.eqb_sym t t').
    destruct (t' =? t) eqn:Et.
    + apply Nat.eqb_eq in Et. subst t'. cbn [map snd]. rewrite <- app_assoc. cbn [app].
      rewrite <- (I5 t). f_equal. symmetry. apply nth_error_nth. exact En.
    + cbn [map]. rewrite app_nil_r. apply I5.
Qed.

Lemma exec_inv (w : list (list item)) (sched : list nat) : forall st st',
  exec sched st = Some st' -> Inv w st -> Inv w st'.
Proof.
  induction sched as [|t sched IH]; intros st st' He Hi; cbn [C20Threads.exec] in He.
  - inversion He; subst; exact Hi.
  - destruct (step t st) as [st1|] eqn:Es; [|discriminate].
    eapply IH; eauto. eapply step_inv; eauto.
Qed.

Lemma finished_concat (st : state) : finished st = true -> concat (pend V Sc st) = [].
Proof.
  unfold C20Threads.finished. induction (pend V Sc st) as [|l p IH]; intros H; [reflexivity|].
  cbn [forallb] in H. apply andb_prop in H. destruct H as [H1 H2].
  destruct l; [|discriminate]. cbn [concat app]. auto.
Qed.

Lemma finished_nth (st : state) : finished st = true -> forall t, nth t (pend V Sc st) [] = [].
Proof.
  unfold C20Threads.finished. induction (pend V Sc st) as [|l p IH]; intros H t; [destruct t; reflexivity|].
  cbn [forallb] in H. apply andb_prop in H. destruct H as [H1 H2].
  destruct l; [|discriminate]. destruct t; cbn [nth]; auto.
Qed.

Lemma concat_map_dup (cs : list (list nat)) : concat (map (map dup) cs) = map dup (concat cs).
Proof. symmetry. apply concat_map. Qed.

Lemma init_inv (cs : list (list nat)) (scr0 : nat -> Sc) :
  concat cs = seq base n ->
  Inv (map (map dup) cs) (init_state V Sc (map (map dup) cs) init scr0).
Proof.
  intros Hc. constructor; cbn [init_state pend outs trace].
  - intros it Hin. rewrite concat_map_dup, Hc in Hin. apply in_map_iff in Hin.
    destruct Hin as (j & <- & Hj). apply in_seq in Hj. cbn [dup fst snd]. lia.
  - intros j Hj. unfold expected.
    destruct (base <=? j) eqn:E1; destruct (j <? base + n) eqn:E2; cbn [andb]; try reflexivity.
    exfalso. apply Hj. apply Nat.leb_le in E1. apply Nat.ltb_lt in E2.
    rewrite concat_map_dup, Hc, map_map. cbn [dup fst]. rewrite map_id. apply in_seq. lia.
  - cbn [map app]. apply Permutation_refl.
  - reflexivity.
  - intros t. reflexivity.
Qed.

(* the core statement on complete runs *)
Lemma run_complete (cs : list (list nat)) (scr0 : nat -> Sc) (sched : list nat) (st : state) :
  concat cs = seq base n ->
  run_mt V Sc g (Some (map (map dup) cs)) init scr0 sched = Some st ->
  (forall j, outs V Sc st j = expected j) /\
  Permutation (map snd (trace V Sc st)) (map dup (seq base n)) /\
  (forall t, map snd (filter (fun e => fst e =? t) (trace V Sc st)) = map dup (nth t cs [])).
Proof.
  intros Hc Hr. unfold run_mt in Hr.
  destruct (exec sched (init_state V Sc (map (map dup) cs) init scr0)) as [st1|] eqn:He; [|discriminate].
  destruct (finished st1) eqn:Hf; [|discriminate]. inversion Hr; subst st1; clear Hr.
  pose proof (exec_inv _ _ _ _ He (init_inv cs scr0 Hc)) as [I1 I2 I3 I4 I5].
  pose proof (finished_concat _ Hf) as Hnil.
  split; [|split].
  - intros j. apply I2. rewrite Hnil. cbn [map]. intros [].
  - rewrite Hnil, app_nil_r, concat_map_dup, Hc in I3. exact I3.
  - intros t. specialize (I5 t). rewrite (finished_nth _ Hf), app_nil_r in I5. rewrite I5.
    change (@nil item) with (map dup []). apply map_nth.
Qed.

End Sched.

(* ------------------------------------------------------------------------------------------------ *)
(* the two entry points *)
Section EntryPlain.
Variables V Sc : Type.
Variable g : nat -> Sc -> V * Sc.
Variable zero : V.

(* complete executions exist under the guard (so the statements above are not vacuous), for every thread count *)
Lemma eval_schedule_exists (threads out_len output_size : nat) (init : nat -> V) (scr0 : nat -> Sc) :
  1 <= threads -> 1 <= output_size <= out_len ->
  exists sched o, eval_mt V Sc g zero threads out_len output_size init scr0 sched = Some o.
Proof.
  intros Ht Hn. unfold eval_mt.
  destruct (out_len <? output_size) eqn:El; [apply Nat.ltb_lt in El; lia|].
  rewrite eval_work_closed by lia.
  match goal with |- context [run_mt V Sc g (Some ?w) _ _ _] =>
    destruct (run_exists V Sc g init w scr0) as (sched & st & Hr) end.
  exists sched. rewrite Hr. eexists; reflexivity.
Qed.

Lemma prepare_schedule_exists (threads bits start count : nat) (init : nat -> V) (scr0 : nat -> Sc) :
  1 <= threads -> 1 <= count -> start + count <= bits ->
  exists sched o, prepare_mt V Sc g zero threads bits start count init scr0 sched = Some o.
Proof.
  intros Ht Hn Hb. unfold prepare_mt.
  rewrite prepare_work_closed by lia.
  match goal with |- context [run_mt V Sc g (Some ?w) _ _ _] =>
    destruct (run_exists V Sc g init w scr0) as (sched & st & Hr) end.
  exists sched. rewrite Hr. eexists; reflexivity.
Qed.

(* degenerate inputs: the Rust code panics, the model has no run *)
Lemma eval_mt_guard (threads out_len output_size : nat) (init : nat -> V) (scr0 : nat -> Sc) (sched : list nat) :
  threads = 0 \/ output_size = 0 \/ out_len < output_size ->
  eval_mt V Sc g zero threads out_len output_size init scr0 sched = None.
Proof.
  intros H. unfold eval_mt. destruct (out_len <? output_size) eqn:El; [reflexivity|]. apply Nat.ltb_ge in El.
  rewrite eval_work_guard; [reflexivity|]. destruct H as [H|[H|H]]; auto. lia.
Qed.

Lemma prepare_mt_guard (threads bits start count : nat) (init : nat -> V) (scr0 : nat -> Sc) (sched : list nat) :
  threads = 0 \/ count = 0 \/ bits < start + count ->
  prepare_mt V Sc g zero threads bits start count init scr0 sched = None.
Proof. intros H. unfold prepare_mt. rewrite prepare_work_guard by exact H. reflexivity. Qed.

End EntryPlain.

Section Entry.
Variables V Sc : Type.
Variable g : nat -> Sc -> V * Sc.
Variable f : nat -> V.
Hypothesis Hg : forall i s, fst (g i s) = f i.
Variable zero : V.

(* C20_tail_zeroed (eval): closed form of the outputs of ANY complete run: item results in the active range,
   zeros up to out_len, untouched beyond *)
Lemma eval_mt_closed (threads out_len output_size : nat) (init : nat -> V) (scr0 : nat -> Sc) (sched : list nat) o :
  eval_mt V Sc g zero threads out_len output_size init scr0 sched = Some o ->
  1 <= threads /\ 1 <= output_size <= out_len /\
  forall j, o j = if j <? output_size then f j else if j <? out_len then zero else init j.
Proof.
  intros H. unfold eval_mt in H.
  destruct (out_len <? output_size) eqn:El; [discriminate|]. apply Nat.ltb_ge in El.
  destruct (Nat.eq_dec threads 0) as [->|Ht0]; [rewrite eval_work_guard in H by auto; discriminate|].
  destruct (Nat.eq_dec output_size 0) as [->|Hn0]; [rewrite eval_work_guard in H by auto; discriminate|].
  rewrite eval_work_closed in H by lia.
  destruct (run_mt V Sc g _ init scr0 sched) as [st|] eqn:Hr; [|discriminate].
  inversion H; subst o; clear H.
  assert (Hc : concat (chunks_mut (div_ceil output_size threads) (seq 0 output_size)) = seq 0 output_size).
  { unfold chunks_mut. apply chunks_aux_concat; [apply div_ceil_pos; lia | apply le_n]. }
  destruct (run_complete V Sc g f Hg 0 output_size init _ scr0 sched st Hc Hr) as (Ho & _ & _).
  split; [lia|]. split; [lia|]. intros j. rewrite zero_range_spec, Ho. unfold expected.
  cbn [Nat.leb Nat.add andb].
  destruct (j <? output_size) eqn:E1; destruct (output_size <=? j) eqn:E2; destruct (j <? out_len) eqn:E3;
    destruct (j <? output_size + (out_len - output_size)) eqn:E4; cbn [andb]; try reflexivity;
    repeat match goal with
           | H : (_ <=? _) = true |- _ => apply Nat.leb_le in H
           | H : (_ <=? _) = false |- _ => apply Nat.leb_gt in H
           | H : (_ <? _) = true |- _ => apply Nat.ltb_lt in H
           | H : (_ <? _) = false |- _ => apply Nat.ltb_ge in H
           end; lia.
Qed.

(* C20_tail_zeroed (prepare) *)
Lemma prepare_mt_closed (threads bits start count : nat) (init : nat -> V) (scr0 : nat -> Sc) (sched : list nat) o :
  prepare_mt V Sc g zero threads bits start count init scr0 sched = Some o ->
  1 <= threads /\ 1 <= count /\ start + count <= bits /\
  forall j, o j = if (start <=? j) && (j <? start + count) then f j else if j <? bits then zero else init j.
Proof.
  intros H. unfold prepare_mt in H.
  destruct (Nat.eq_dec threads 0) as [->|Ht0]; [rewrite prepare_work_guard in H by auto; discriminate|].
  destruct (Nat.eq_dec count 0) as [->|Hn0]; [rewrite prepare_work_guard in H by auto; discriminate|].
  destruct (Nat.lt_ge_cases bits (start + count)) as [Hb|Hb]; [rewrite prepare_work_guard in H by auto; discriminate|].
  rewrite prepare_work_closed in H by lia.
  destruct (run_mt V Sc g _ init scr0 sched) as [st|] eqn:Hr; [|discriminate].
  inversion H; subst o; clear H.
  assert (Hc : concat (chunks_mut (div_ceil count threads) (seq start count)) = seq start count).
  { unfold chunks_mut. apply chunks_aux_concat; [apply div_ceil_pos; lia | apply le_n]. }
  destruct (run_complete V Sc g f Hg start count init _ scr0 sched st Hc Hr) as (Ho & _ & _).
  split; [lia|]. split; [lia|]. split; [lia|]. intros j. rewrite !zero_range_spec, Ho. unfold expected.
  destruct (start <=? j) eqn:E1; destruct (j <? start + count) eqn:E2; destruct (j <? bits) eqn:E3;
    destruct (start + count <=? j) eqn:E4; destruct (j <? start + count + (bits - (start + count))) eqn:E5;
    destruct (0 <=? j) eqn:E6; destruct (j <? 0 + start) eqn:E7; cbn [andb]; try reflexivity;
    repeat match goal with
           | H : (_ <=? _) = true |- _ => apply Nat.leb_le in H
           | H : (_ <=? _) = false |- _ => apply Nat.leb_gt in H
           | H : (_ <? _) = true |- _ => apply Nat.ltb_lt in H
           | H : (_ <? _) = false |- _ => apply Nat.ltb_ge in H
           end; lia.
Qed.

(* C20_any_schedule_eq_sequential *)
Lemma eval_any_schedule_eq_sequential
      (threads threads' out_len output_size : nat) (init : nat -> V)
      (scr0 scr0' : nat -> Sc) (sched sched' : list nat) (o o' : nat -> V) :
  eval_mt V Sc g zero threads out_len output_size init scr0 sched = Some o ->
  eval_mt V Sc g zero threads' out_len output_size init scr0' sched' = Some o' ->
  forall j, o j = o' j.
Proof.
  intros H1 H2 j.
  destruct (eval_mt_closed _ _ _ _ _ _ _ H1) as (_ & _ & E1).
  destruct (eval_mt_closed _ _ _ _ _ _ _ H2) as (_ & _ & E2).
  rewrite E1, E2. reflexivity.
Qed.

Lemma prepare_any_schedule_eq_sequential
      (threads threads' bits start count : nat) (init : nat -> V)
      (scr0 scr0' : nat -> Sc) (sched sched' : list nat) (o o' : nat -> V) :
  prepare_mt V Sc g zero threads bits start count init scr0 sched = Some o ->
  prepare_mt V Sc g zero threads' bits start count init scr0' sched' = Some o' ->
  forall j, o j = o' j.
Proof.
  intros H1 H2 j.
  destruct (prepare_mt_closed _ _ _ _ _ _ _ _ H1) as (_ & _ & _ & E1).
  destruct (prepare_mt_closed _ _ _ _ _ _ _ _ H2) as (_ & _ & _ & E2).
  rewrite E1, E2. reflexivity.
Qed.

(* no work item is skipped or executed twice; each thread executes its chunk in program order *)
Lemma eval_each_item_once (threads output_size : nat) (init : nat -> V) (scr0 : nat -> Sc) (sched : list nat) st :
  run_mt V Sc g (eval_work threads output_size) init scr0 sched = Some st ->
  Permutation (map snd (trace V Sc st)) (map (fun j => (j, j)) (seq 0 output_size)) /\
  NoDup (map snd (trace V Sc st)) /\
  length (trace V Sc st) = output_size /\
  exists cs, chunks output_size threads = Some cs /\
             forall t, map snd (filter (fun e => fst e =? t) (trace V Sc st)) = map (fun j => (j, j)) (nth t cs []).
Proof.
  intros Hr.
  destruct (Nat.eq_dec threads 0) as [->|Ht0]; [rewrite eval_work_guard in Hr by auto; discriminate|].
  destruct (Nat.eq_dec output_size 0) as [->|Hn0]; [rewrite eval_work_guard in Hr by auto; discriminate|].
  unfold chunks. rewrite eval_work_closed in * by lia.
  assert (Hc : concat (chunks_mut (div_ceil output_size threads) (seq 0 output_size)) = seq 0 output_size).
  { unfold chunks_mut. apply chunks_aux_concat; [apply div_ceil_pos; lia | apply le_n]. }
  destruct (run_complete V Sc g f Hg 0 output_size init _ scr0 sched st Hc Hr) as (_ & Hp & Ho).
  split; [exact Hp|]. split; [|split].
  - eapply Permutation_NoDup; [apply Permutation_sym; exact Hp|].
    apply FinFun.Injective_map_NoDup; [|apply seq_NoDup].
    intros a b Hab. inversion Hab; reflexivity.
  - pose proof (Permutation_length Hp) as Hl. rewrite !map_length, seq_length in Hl. exact Hl.
  - cbn [option_map]. rewrite map_map_fst_dup. eexists; split; [reflexivity|]. exact Ho.
Qed.

Lemma prepare_each_item_once (threads bits start count : nat) (init : nat -> V) (scr0 : nat -> Sc) (sched : list nat) st :
  run_mt V Sc g (prepare_work threads bits start count) init scr0 sched = Some st ->
  Permutation (map snd (trace V Sc st)) (map (fun j => (j, j)) (seq start count)) /\
  NoDup (map snd (trace V Sc st)) /\
  length (trace V Sc st) = count /\
  exists cs, chunks_prepare threads bits start count = Some cs /\
             forall t, map snd (filter (fun e => fst e =? t) (trace V Sc st)) = map (fun j => (j, j)) (nth t cs []).
Proof.
  intros Hr.
  destruct (Nat.eq_dec threads 0) as [->|Ht0]; [rewrite prepare_work_guard in Hr by auto; discriminate|].
  destruct (Nat.eq_dec count 0) as [->|Hn0]; [rewrite prepare_work_guard in Hr by auto; discriminate|].
  destruct (Nat.lt_ge_cases bits (start + count)) as [Hb|Hb]; [rewrite prepare_work_guard in Hr by auto; discriminate|].
  unfold chunks_prepare. rewrite prepare_work_closed in * by lia.
  assert (Hc : concat (chunks_mut (div_ceil count threads) (seq start count)) = seq start count).
  { unfold chunks_mut. apply chunks_aux_concat; [apply div_ceil_pos; lia | apply le_n]. }
  destruct (run_complete V Sc g f Hg start count init _ scr0 sched st Hc Hr) as (_ & Hp & Ho).
  split; [exact Hp|]. split; [|split].
  - eapply Permutation_NoDup; [apply Permutation_sym; exact Hp|].
    apply FinFun.Injective_map_NoDup; [|apply seq_NoDup].
    intros a b Hab. inversion Hab; reflexivity.
  - pose proof (Permutation_length Hp) as Hl. rewrite !map_length, seq_length in Hl. exact Hl.
  - cbn [option_map]. rewrite map_map_fst_dup. eexists; split; [reflexivity|]. exact Ho.
Qed.

End Entry.
