(* C14: "equal up to a bounded error and a multiple of M" on exact polynomials -- the relation in which the phase equation of
   the external product holds (C04: phase(res) = m2 (x) phase(a) + E + 2^P I), closed under the operations of the CGGI loops. *)
From PV Require Import Base.MachineInt Model.Znx Model.Limbs Model.Ring Model.Poly Model.C14Lut Model.C14Blind.
From PV Require Import Proofs.C09Lists Proofs.C09Ring Proofs.C14Rotate Proofs.C14Poly.
Open Scope Z_scope.

Lemma len_padd a b : length (padd a b) = Nat.min (length a) (length b).
Proof. apply map2_length. Qed.
Lemma len_psub a b : length (psub a b) = Nat.min (length a) (length b).
Proof. apply map2_length. Qed.
Lemma len_zeros n : length (zeros n) = n.
Proof. apply repeat_length. Qed.

Ltac plen := repeat (rewrite ?len_padd, ?len_psub, ?zrot_length, ?pscale_length, ?xp_minus_one_length, ?len_zeros in * ); try lia.

Lemma zext_pscale c a k : zext (pscale c a) k = c * zext a k.
Proof.
  destruct (Nat.eq_dec (length a) 0) as [H0|H0].
  { destruct a; [|discriminate]. change (pscale c []) with (@nil Z). rewrite !zext_nil. lia. }
  set (n := Z.of_nat (length a)).
  destruct (exp_decomp n k ltac:(lia)) as [q [i [Hk Hi]]].
  rewrite (zext_at_nat (pscale c a) k q i) by (rewrite pscale_length; fold n; auto; lia).
  rewrite (zext_at_nat a k q i) by (fold n; auto; lia).
  rewrite pscale_nth by lia. destruct (Z.even q); lia.
Qed.
Lemma zext_xp_minus_one p a k : zext (xp_minus_one p a) k = zext a (k - p) - zext a k.
Proof. unfold xp_minus_one. rewrite zext_psub by apply zrot_length. rewrite zext_zrot. reflexivity. Qed.
Lemma nthZ_zeros_g n i : nthZ (zeros n) i = 0.
Proof. unfold zeros, nthZ. revert i. induction n; intros [|i]; cbn [repeat nth]; auto. Qed.
Lemma zext_zeros n k : zext (zeros n) k = 0.
Proof. unfold zext. cbv zeta. rewrite nthZ_zeros_g. destruct (Z.even _); reflexivity. Qed.

(* identify extension arguments that are equal as integers, so that lia sees the same atoms *)
Ltac zext_norm := repeat match goal with
  | |- context [zext ?a ?k1] =>
      match goal with |- context [zext a ?k2] => assert_fails (constr_eq k1 k2); replace k2 with k1 by lia end
  end.
(* equalities of polynomials of the same length are decided on the extensions, which are linear *)
Ltac pext := apply zext_inj; [plen | intros ?k; repeat (rewrite ?zext_padd, ?zext_psub, ?zext_xp_minus_one, ?zext_zrot, ?zext_pscale, ?zext_zeros by plen); zext_norm].

Lemma bounded_weaken B B' a : B <= B' -> bounded B a -> bounded B' a.
Proof. intros H Hb. eapply Forall_impl; [|exact Hb]. cbv beta. intros; lia. Qed.

(* x = y + E + M J, |E|_inf <= B, all of length L *)
Definition approx (L : nat) (M B : Z) (x y : poly) : Prop :=
  length x = L /\ length y = L /\
  exists E J, length E = L /\ length J = L /\ bounded B E /\ x = padd (padd y E) (pscale M J).

Section Approx.
Variables (L : nat) (M : Z).

Lemma approx_refl B x : length x = L -> 0 <= B -> approx L M B x x.
Proof.
  intros Hl HB. split; [auto|]. split; [auto|]. exists (zeros L), (zeros L).
  split; [apply len_zeros|]. split; [apply len_zeros|]. split; [apply bounded_zeros; auto|].
  pext. lia.
Qed.
Lemma approx_eq B x y : length x = L -> 0 <= B -> x = y -> approx L M B x y.
Proof. intros Hl HB <-. apply approx_refl; auto. Qed.
Lemma approx_weaken B B' x y : B <= B' -> approx L M B x y -> approx L M B' x y.
Proof.
  intros H (Hx & Hy & E & J & HE & HJ & Hb & Heq). split; [auto|]. split; [auto|].
  exists E, J. repeat split; auto. eapply bounded_weaken; eauto.
Qed.
Lemma approx_len_l B x y : approx L M B x y -> length x = L.
Proof. intros H; apply H. Qed.
Lemma approx_len_r B x y : approx L M B x y -> length y = L.
Proof. intros H; apply H. Qed.

Lemma approx_zrot B p x y : approx L M B x y -> approx L M B (zrot p x) (zrot p y).
Proof.
  intros (Hx & Hy & E & J & HE & HJ & Hb & Heq). split; [plen|]. split; [plen|].
  exists (zrot p E), (zrot p J). split; [plen|]. split; [plen|]. split; [apply zrot_bounded; auto|].
  rewrite Heq. pext. lia.
Qed.
Lemma approx_padd B1 B2 x y x' y' :
  approx L M B1 x y -> approx L M B2 x' y' -> approx L M (B1 + B2) (padd x x') (padd y y').
Proof.
  intros (Hx & Hy & E & J & HE & HJ & Hb & Heq) (Hx' & Hy' & E' & J' & HE' & HJ' & Hb' & Heq').
  split; [plen|]. split; [plen|].
  exists (padd E E'), (padd J J'). split; [plen|]. split; [plen|].
  split; [apply padd_bounded; auto; lia|]. rewrite Heq, Heq'. pext. lia.
Qed.
Lemma approx_psub B1 B2 x y x' y' :
  approx L M B1 x y -> approx L M B2 x' y' -> approx L M (B1 + B2) (psub x x') (psub y y').
Proof.
  intros (Hx & Hy & E & J & HE & HJ & Hb & Heq) (Hx' & Hy' & E' & J' & HE' & HJ' & Hb' & Heq').
  split; [plen|]. split; [plen|].
  exists (psub E E'), (psub J J'). split; [plen|]. split; [plen|].
  split; [apply psub_bounded; auto; lia|]. rewrite Heq, Heq'. pext. lia.
Qed.
Lemma approx_trans B1 B2 x y z : approx L M B1 x y -> approx L M B2 y z -> approx L M (B1 + B2) x z.
Proof.
  intros (Hx & Hy & E & J & HE & HJ & Hb & Heq) (_ & Hz & E' & J' & HE' & HJ' & Hb' & Heq').
  split; [auto|]. split; [auto|].
  exists (padd E E'), (padd J J'). split; [plen|]. split; [plen|].
  split; [apply padd_bounded; auto; lia|]. rewrite Heq, Heq'. pext. lia.
Qed.
Lemma approx_xp_minus_one B p x y : approx L M B x y -> approx L M (2 * B) (xp_minus_one p x) (xp_minus_one p y).
Proof.
  intros H. unfold xp_minus_one. replace (2 * B) with (B + B) by ring.
  apply approx_psub; [apply approx_zrot; exact H | exact H].
Qed.
(* adding something that is approximately zero *)
Lemma approx_padd_zero B1 B2 c c' x : approx L M B1 c c' -> approx L M B2 x (zeros L) -> approx L M (B1 + B2) (padd c x) c'.
Proof.
  intros H1 H2. pose proof (approx_padd _ _ _ _ _ _ H1 H2) as H.
  replace (padd c' (zeros L)) with c' in H; [exact H|].
  pose proof (approx_len_r _ _ _ H1). pext. lia.
Qed.

(* sums *)
Lemma approx_fold_padd B (xs ys : list poly) : Forall2 (approx L M B) xs ys ->
  forall Ba a a', approx L M Ba a a' ->
  approx L M (Ba + B * Z.of_nat (length xs)) (fold_left padd xs a) (fold_left padd ys a').
Proof.
  induction 1 as [|x y xs ys Hxy Hrest IH]; intros Ba a a' Ha; cbn [fold_left length].
  - replace (Ba + B * Z.of_nat 0) with Ba by lia. exact Ha.
  - pose proof (IH (Ba + B) (padd a x) (padd a' y) (approx_padd _ _ _ _ _ _ Ha Hxy)) as H.
    replace (Ba + B * Z.of_nat (S (length xs))) with (Ba + B + B * Z.of_nat (length xs)) by lia. exact H.
Qed.
Lemma approx_psum B (xs ys : list poly) : 0 <= B -> Forall2 (approx L M B) xs ys ->
  approx L M (B * Z.of_nat (length xs)) (psum L xs) (psum L ys).
Proof.
  intros HB H. unfold psum.
  pose proof (approx_fold_padd B xs ys H 0 (zeros L) (zeros L) (approx_refl 0 _ (len_zeros L) ltac:(lia))) as H1.
  replace (0 + B * Z.of_nat (length xs)) with (B * Z.of_nat (length xs)) in H1 by lia. exact H1.
Qed.

End Approx.

Lemma Forall2_map_same {A B C} (R : B -> C -> Prop) (f : A -> B) (g : A -> C) (l : list A) :
  (forall x, In x l -> R (f x) (g x)) -> Forall2 R (map f l) (map g l).
Proof.
  induction l as [|h t IH]; intros H; cbn [map]; constructor.
  - apply H. left; reflexivity.
  - apply IH. intros x Hx. apply H. right; exact Hx.
Qed.
