(* Key-row lemma for the modelled encryption routines: the value-level body equation of a key / GGSW cell implies the key-row
   hypothesis of the phase theorems (key_rows_ok / C04_ggsw_cells), with the same error e and the explicit integer part I = J. *)
From PV Require Import Base.MachineInt Model.Znx Model.Limbs Model.Flat Model.Ring Model.Poly Model.DftAbs Model.Gadget Model.GadgetSpec Model.GadgetEnc Proofs.C07Dft Proofs.C07Ring Proofs.GadgetDecomp Proofs.GadgetPhase Proofs.C03Phase Proofs.C04Phase.
Open Scope Z_scope.

Section EncTools.
Lemma psumf_single n (g : nat -> list Z) c m : (c < m)%nat -> (forall i, length (g i) = n) ->
  psumf n (fun i => if Nat.eqb i c then g i else pzero n) m = g c.
Proof.
  intros Hc Hg. apply list_eq_nth.
  - rewrite Hg. apply psumf_length. intros i _. destruct (Nat.eqb i c); [apply Hg|apply pzero_length].
  - intros k _. rewrite psumf_coeff by (intros i _; destruct (Nat.eqb i c); [apply Hg|apply pzero_length]).
    rewrite <- (zsum_single (fun i => nth k (g i) 0) c m Hc). apply zsum_ext; intros i _.
    destruct (Nat.eqb i c); [reflexivity|apply nth_pzero].
Qed.

Lemma kphase_cols P b n cols_out msize K Sk q :
  kphase P b n cols_out msize K Sk q = psumf n (fun co => pmul (kcol P b n cols_out msize K q co) (Sk co)) cols_out.
Proof. reflexivity. Qed.

Lemma kcol_length P b n cols_out msize K rows q co : wf_pmat_in n rows (msize * cols_out) K -> (q < rows)%nat -> (co < cols_out)%nat ->
  length (kcol P b n cols_out msize K q co) = n.
Proof.
  intros HK Hq Hc. unfold kcol. apply pval_length. intros j Hj. apply HK; [exact Hq|]. apply flat_in; assumption.
Qed.
End EncTools.

Section EncRows.
Variables (P b : Z) (n cin rank msize dsize dnum : nat).
Variable K : pmat.
Variable Sk : nat -> list Z.
Variables (src : nat -> list Z) (e J : nat -> nat -> list Z).
Hypothesis Hn : (1 <= n)%nat.
Hypothesis HK : wf_pmat_in n (dnum * cin) (msize * S rank) K.
Hypothesis HS : forall co, length (Sk co) = n.
Hypothesis HS0 : Sk 0%nat = pone n.
Hypothesis Hsrc : forall ci, length (src ci) = n.
Hypothesis He : forall row ci, length (e row ci) = n.
Hypothesis HJ : forall row ci, length (J row ci) = n.
Hypothesis body_ok : enc_body_ok P b n cin rank msize dsize dnum K Sk src e J.

(* (a) the key-row hypothesis follows from the body equation of the encryption routine *)
Theorem key_rows_of_enc_body : key_rows_ok P b n cin (S rank) msize dsize dnum K Sk src e J.
Proof.
  intros row ci Hrow Hci. set (q := (row * cin + ci)%nat).
  assert (Hq : (q < dnum * cin)%nat) by (apply flat_in; assumption).
  assert (LC : forall co, (co < S rank)%nat -> length (kcol P b n (S rank) msize K q co) = n)
    by (intros; apply (kcol_length P b n (S rank) msize K (dnum * cin)); assumption).
  rewrite kphase_cols.
  rewrite psumf_shift by (intros co Hco; rewrite pmul_length; apply LC; exact Hco).
  fold (kmask P b n (S rank) msize K Sk rank q).
  rewrite HS0, (pmul_pone_r n _ Hn (LC 0%nat ltac:(lia))).
  pose proof (body_ok row ci Hrow Hci) as Eb. fold q in Eb. rewrite Eb. clear Eb.
  set (M := kmask P b n (S rank) msize K Sk rank q).
  assert (LM : length M = n).
  { unfold M, kmask. apply psumf_length. intros i Hi. rewrite pmul_length. apply LC. lia. }
  set (pt := pscale (2 ^ (P - (Z.of_nat row + 1) * Z.of_nat dsize * b)) (src ci)).
  assert (Lpt : length pt = n) by (unfold pt; rewrite pscale_length; apply Hsrc).
  set (JJ := pscale (2 ^ P) (J row ci)).
  assert (LJ : length JJ = n) by (unfold JJ; rewrite pscale_length; apply HJ).
  pose proof (He row ci) as Le.
  apply list_eq_nth.
  - repeat (rewrite ?padd_length, ?pneg_length). lia.
  - intros k _.
    repeat first [ rewrite nth_padd by (repeat (rewrite ?padd_length, ?pneg_length); lia) | rewrite nth_pneg ].
    ring.
Qed.
End EncRows.

Section GgswRows.
Variables (P b : Z) (n rank msize dsize dnum : nat).
Variable K : pmat.
Variable Sk : nat -> list Z.
Variable m2 : list Z.
Variables (e J : nat -> nat -> list Z).
Hypothesis Hn : (1 <= n)%nat.
Hypothesis HK : wf_pmat_in n (dnum * S rank) (msize * S rank) K.
Hypothesis HS : forall co, length (Sk co) = n.
Hypothesis HS0 : Sk 0%nat = pone n.
Hypothesis Hm2 : length m2 = n.
Hypothesis He : forall row ci, length (e row ci) = n.
Hypothesis HJ : forall row ci, length (J row ci) = n.
Hypothesis body_ok : ggsw_body_ok P b n rank msize dsize dnum K Sk m2 e J.

(* the GGSW body equations (plaintext subtracted from mask column col) are the GGLWE body equation with src_col = m2 (x) Sk col *)
Theorem enc_body_of_ggsw_body : enc_body_ok P b n (S rank) rank msize dsize dnum K Sk (fun ci => pmul m2 (Sk ci)) e J.
Proof.
  intros row col Hrow Hcol. pose proof (body_ok row col Hrow Hcol) as Eb. cbv zeta in Eb.
  set (q := (row * S rank + col)%nat) in *.
  assert (Hq : (q < dnum * S rank)%nat) by (apply flat_in; assumption).
  assert (LC : forall co, (co < S rank)%nat -> length (kcol P b n (S rank) msize K q co) = n)
    by (intros; apply (kcol_length P b n (S rank) msize K (dnum * S rank)); assumption).
  set (r := 2 ^ (P - (Z.of_nat row + 1) * Z.of_nat dsize * b)) in *.
  set (pt := pscale r m2) in *.
  assert (Lpt : length pt = n) by (unfold pt; rewrite pscale_length; exact Hm2).
  rewrite Eb. clear Eb.
  set (JJ := pscale (2 ^ P) (J row col)).
  assert (LJ : length JJ = n) by (unfold JJ; rewrite pscale_length; apply HJ).
  pose proof (He row col) as Le.
  set (M := kmask P b n (S rank) msize K Sk rank q).
  assert (LM : length M = n).
  { unfold M, kmask. apply psumf_length. intros i Hi. rewrite pmul_length. apply LC. lia. }
  destruct col as [|c].
  - (* col = 0 : no mask column is touched, the plaintext goes to the body *)
    cbn [Nat.eqb].
    assert (E1 : psumf n (fun i => pmul (kcol P b n (S rank) msize K q (S i)) (Sk (S i))) rank = M) by reflexivity.
    rewrite E1. do 2 f_equal. unfold pt. rewrite HS0, (pmul_pone_r n m2 Hn Hm2). reflexivity.
  - (* col = c+1 : mask column c+1 enters the product as (a - pt) *)
    assert (Hc : (c < rank)%nat) by lia.
    assert (E1 : psumf n (fun i => pmul (if Nat.eqb (S i) (S c) then psub (kcol P b n (S rank) msize K q (S i)) pt
                                         else kcol P b n (S rank) msize K q (S i)) (Sk (S i))) rank
                 = psub M (pmul pt (Sk (S c)))).
    { unfold M, kmask.
      rewrite <- (psumf_single n (fun i => pmul pt (Sk (S i))) c rank Hc) by (intros; rewrite pmul_length; exact Lpt).
      rewrite <- psumf_psub.
      - apply psumf_ext; intros i Hi. cbn [Nat.eqb]. destruct (Nat.eqb i c).
        + apply pmul_psub_distr_r; rewrite ?HS, ?Lpt, LC by lia; reflexivity.
        + symmetry. apply psub_pzero_r'. rewrite pmul_length. apply LC. lia.
      - intros i Hi. rewrite pmul_length. apply LC. lia.
      - intros i Hi. destruct (Nat.eqb i c); [rewrite pmul_length; exact Lpt|apply pzero_length]. }
    rewrite E1. cbn [Nat.eqb].
    assert (E2 : pscale r (pmul m2 (Sk (S c))) = pmul pt (Sk (S c))) by (unfold pt; rewrite pscale_pmul_l; reflexivity).
    rewrite E2. set (X := pmul pt (Sk (S c))).
    assert (LX : length X = n) by (unfold X; rewrite pmul_length; exact Lpt).
    apply list_eq_nth.
    + repeat (rewrite ?padd_length, ?pneg_length, ?psub_length, ?pzero_length). lia.
    + intros k _.
      repeat first [ rewrite nth_padd by (repeat (rewrite ?padd_length, ?pneg_length, ?psub_length, ?pzero_length); lia)
                   | rewrite nth_pneg | rewrite nth_psub by lia | rewrite nth_pzero ].
      ring.
Qed.

Corollary ggsw_cells_of_ggsw_body : key_rows_ok P b n (S rank) (S rank) msize dsize dnum K Sk (fun ci => pmul m2 (Sk ci)) e J.
Proof.
  apply key_rows_of_enc_body; try assumption; [intros; rewrite pmul_length; exact Hm2|apply enc_body_of_ggsw_body].
Qed.
End GgswRows.

(* ---------------------------------------------------------------------------------------------------------------- *)
(* the phase theorems with the body equation of the encryption routine instead of the key-row hypothesis *)
Section C03Enc.
Variables (P b : Z) (n rin msize a_size dsize dnum : nat).
Variable ct : cols_t.
Variable res0 : cols_t.
Variable K : pmat.
Variable sk_out : list (list Z).
Variables (s_in : nat -> list Z) (e J : nat -> nat -> list Z).
Let rank_out := length sk_out.
Let Sk := sk_ext n sk_out.
Hypothesis Hct : wf_cols n (S rin) a_size ct.
Hypothesis HK : wf_pmat_in n (dnum * rin) (msize * S rank_out) K.
Hypothesis Hn : (1 <= n)%nat.
Hypothesis Hd : (1 <= dsize)%nat.
Hypothesis Hdrop : (dsize - 2 <= msize)%nat.
Hypothesis Hsk : forall s, In s sk_out -> length s = n.
Hypothesis Hsin : forall ci, length (s_in ci) = n.
Hypothesis He : forall row ci, length (e row ci) = n.
Hypothesis HJ : forall row ci, length (J row ci) = n.
Hypothesis Hb : 0 <= b.
Hypothesis HP : Z.of_nat msize * b <= P.
Hypothesis HP2 : Z.of_nat dnum * Z.of_nat dsize * b <= P.
Hypothesis body_ok : enc_body_ok P b n rin rank_out msize dsize dnum K Sk s_in e J.

Theorem C03_keyswitch_phase_enc_lemma :
  exists ks, keyswitch_internal n (S rank_out) msize res0 ct a_size dsize dnum msize K = Some ks /\
    phase_val P b n sk_out ks
    = padd (padd (padd (pval P b n (acol n ct 0) (Nat.min msize a_size))
                       (psumf n (fun ci => pmul (pval_used P b n a_size dsize dnum (acol n (tl ct)) ci) (s_in ci)) rin))
                 (gadget_err P b n rin (S rank_out) msize dsize dnum (acol n (tl ct)) K Sk e))
           (pscale (2 ^ P) (gadget_int b n rin (S rank_out) msize dsize dnum (acol n (tl ct)) K Sk J)).
Proof.
  apply C03_keyswitch_internal_phase_val_lemma; try assumption.
  apply key_rows_of_enc_body; try assumption; [apply sk_ext_length; assumption|reflexivity].
Qed.
End C03Enc.

Section C04Enc.
Variables (P b : Z) (n msize a_size dsize dnum : nat) (clamp : bool).
Variable a : cols_t.
Variable res0 : cols_t.
Variable K : pmat.
Variable sk : list (list Z).
Variable m2 : list Z.
Variables (e J : nat -> nat -> list Z).
Let rank := length sk.
Let Sk := sk_ext n sk.
Hypothesis Ha : wf_cols n (S rank) a_size a.
Hypothesis Hres0 : acc_shape (S rank) msize clamp res0.
Hypothesis HK : wf_pmat_in n (dnum * S rank) (msize * S rank) K.
Hypothesis Hn : (1 <= n)%nat.
Hypothesis Hd : (1 <= dsize)%nat.
Hypothesis Hdrop : (dsize - 2 <= msize)%nat.
Hypothesis Hsk : forall s, In s sk -> length s = n.
Hypothesis Hm2 : length m2 = n.
Hypothesis He : forall row ci, length (e row ci) = n.
Hypothesis HJ : forall row ci, length (J row ci) = n.
Hypothesis Hb : 0 <= b.
Hypothesis HP : Z.of_nat msize * b <= P.
Hypothesis HP2 : Z.of_nat dnum * Z.of_nat dsize * b <= P.
Hypothesis body_ok : ggsw_body_ok P b n rank msize dsize dnum K Sk m2 e J.

Lemma ggsw_cells_enc : C04_ggsw_cells P b n rank msize dsize dnum K sk m2 e J.
Proof.
  unfold C04_ggsw_cells. apply ggsw_cells_of_ggsw_body; try assumption; [apply sk_ext_length; assumption|reflexivity].
Qed.

Theorem C04_external_product_phase_enc_lemma :
  exists res, gadget_product n (S rank) msize res0 a a_size dsize dnum msize clamp K = Some res /\
    wf_cols n (S rank) msize res /\
    phase_f P b n (S rank) msize (limbs_of res) Sk
    = padd (padd (pmul m2 (phase_f P b n (S rank) (Nat.min a_size (dnum * dsize)) (acol n a) Sk))
                 (gadget_err P b n (S rank) (S rank) msize dsize dnum (acol n a) K Sk e))
           (pscale (2 ^ P) (gadget_int b n (S rank) (S rank) msize dsize dnum (acol n a) K Sk J)).
Proof.
  apply C04_external_product_phase_lemma; try assumption; [apply sk_ext_length; assumption|apply ggsw_cells_enc].
Qed.

Theorem C04_external_product_phase_val_enc_lemma : (a_size <= dnum * dsize)%nat ->
  exists res, gadget_product n (S rank) msize res0 a a_size dsize dnum msize clamp K = Some res /\
    phase_val P b n sk res
    = padd (padd (pmul m2 (phase_val P b n sk a))
                 (gadget_err P b n (S rank) (S rank) msize dsize dnum (acol n a) K Sk e))
           (pscale (2 ^ P) (gadget_int b n (S rank) (S rank) msize dsize dnum (acol n a) K Sk J)).
Proof.
  intros Hfit. apply C04_external_product_phase_val_lemma; try assumption. apply ggsw_cells_enc.
Qed.
End C04Enc.

(* the body equations are satisfiable: the noise-free instances of Proofs/C03Phase.v / C04Phase.v (zero mask, plaintext in the body) *)
Lemma enc_body_satisfiable_lemma : enc_body_ok 8 4 2 1 1 2 2 1 ex3_K (sk_ext 2 ex3_sk) ex3_sin ex3_zero ex3_zero.
Proof.
  intros row ci Hrow Hci. destruct row as [|row]; [|lia]. destruct ci as [|ci]; [|lia]. vm_compute. reflexivity.
Qed.

Lemma ggsw_body_satisfiable_lemma : ggsw_body_ok 8 4 2 1 2 1 2 (ex4_K ex4_m2) (sk_ext 2 ex4_sk) ex4_m2 ex4_zero ex4_zero.
Proof.
  intros row col Hrow Hcol.
  destruct row as [|[|row]]; [| |lia]; (destruct col as [|[|col]]; [| |lia]); vm_compute; reflexivity.
Qed.
