(* C20 — the chunking of work items over threads is a partition, and the index formulas of both call sites
   enumerate exactly the items of each chunk. *)
From PV Require Import Base.MachineInt Model.C20Threads.
From Coq Require Import Arith PeanoNat.
Local Open Scope nat_scope.

(* ---------- div_ceil ---------- *)
Lemma div_ceil_ge (n t : nat) : 1 <= t -> n <= div_ceil n t * t.
Proof.
  intros Ht. unfold div_ceil.
  pose proof (Nat.div_mod n t ltac:(lia)) as Hdm.
  pose proof (Nat.mod_upper_bound n t ltac:(lia)) as Hm.
  destruct (n mod t =? 0) eqn:E.
  - apply Nat.eqb_eq in E. nia.
  - nia.
Qed.

Lemma div_ceil_pos (n t : nat) : 1 <= t -> 1 <= n -> 1 <= div_ceil n t.
Proof.
  intros Ht Hn. unfold div_ceil.
  pose proof (Nat.div_mod n t ltac:(lia)) as Hdm.
  destruct (n mod t =? 0) eqn:E.
  - apply Nat.eqb_eq in E. rewrite E in Hdm. destruct (n / t); [lia|lia].
  - lia.
Qed.

Lemma div_ceil_zero (t : nat) : 1 <= t -> div_ceil 0 t = 0.
Proof.
  intros Ht. unfold div_ceil. rewrite Nat.div_0_l, Nat.mod_0_l by lia. reflexivity.
Qed.

(* ---------- firstn / skipn on seq ---------- *)
Lemma firstn_seq' (c : nat) : forall a n, firstn c (seq a n) = seq a (min c n).
Proof.
  induction c as [|c IH]; intros a n; [reflexivity|].
  destruct n as [|n]; [reflexivity|]. cbn [seq firstn min Nat.min]. f_equal. apply IH.
Qed.

Lemma skipn_seq' (c : nat) : forall a n, skipn c (seq a n) = seq (a + c) (n - c).
Proof.
  induction c as [|c IH]; intros a n.
  - rewrite Nat.add_0_r, Nat.sub_0_r. reflexivity.
  - destruct n as [|n]; [reflexivity|]. cbn [seq skipn]. rewrite IH. f_equal; lia.
Qed.

(* ---------- chunks_aux ---------- *)
Lemma chunks_aux_concat {A : Type} (c : nat) (Hc : 1 <= c) : forall fuel (l : list A),
  length l <= fuel -> concat (chunks_aux fuel c l) = l.
Proof.
  induction fuel as [|f IH]; intros l Hl.
  - destruct l; [reflexivity|cbn [length] in Hl; lia].
  - cbn [chunks_aux]. destruct l as [|x l']; [reflexivity|].
    cbn [concat]. rewrite IH.
    + apply firstn_skipn.
    + rewrite skipn_length. cbn [length] in *. lia.
Qed.

Lemma chunks_aux_nonempty {A : Type} (c : nat) (Hc : 1 <= c) : forall fuel (l : list A) ch,
  In ch (chunks_aux fuel c l) -> ch <> [].
Proof.
  induction fuel as [|f IH]; intros l ch Hin; cbn [chunks_aux] in Hin; [contradiction|].
  destruct l as [|x l']; [contradiction|].
  destruct Hin as [<-|Hin].
  - destruct c; [lia|]. cbn [firstn]. discriminate.
  - eapply IH; eauto.
Qed.

(* number of chunks k: (k-1)*c < n <= k*c *)
Lemma chunks_aux_count {A : Type} (c : nat) (Hc : 1 <= c) : forall fuel (l : list A),
  length l <= fuel ->
  length (chunks_aux fuel c l) * c < length l + c /\ length l <= length (chunks_aux fuel c l) * c.
Proof.
  induction fuel as [|f IH]; intros l Hl.
  - destruct l; cbn [length] in *; [|lia]. cbn [chunks_aux length]. lia.
  - cbn [chunks_aux]. destruct l as [|x l']; [cbn [length]; lia|].
    set (l := x :: l') in *.
    assert (Hn : 1 <= length l) by (subst l; cbn [length]; lia).
    assert (Hs : length (skipn c l) <= f) by (rewrite skipn_length; lia).
    specialize (IH (skipn c l) Hs). rewrite skipn_length in IH.
    cbn [length]. destruct IH as [I1 I2].
    destruct (Nat.le_gt_cases (length l) c) as [Hle|Hgt].
    + replace (length l - c) with 0 in * by lia.
      assert (length (chunks_aux f c (skipn c l)) = 0) by nia. nia.
    + nia.
Qed.

Lemma chunks_count_le_threads (n t : nat) :
  1 <= t -> 1 <= n ->
  length (chunks_mut (div_ceil n t) (seq 0 n)) <= t.
Proof.
  intros Ht Hn. unfold chunks_mut.
  pose proof (div_ceil_ge n t Ht) as Hge. pose proof (div_ceil_pos n t Ht Hn) as Hpos.
  set (c := div_ceil n t) in *.
  destruct (chunks_aux_count c Hpos (length (seq 0 n)) (seq 0 n) (le_n _)) as [H1 H2].
  rewrite seq_length in *. set (k := length (chunks_aux n c (seq 0 n))) in *. nia.
Qed.

Lemma chunks_count_le_threads_from (a n t : nat) :
  1 <= t -> 1 <= n ->
  length (chunks_mut (div_ceil n t) (seq a n)) <= t.
Proof.
  intros Ht Hn. unfold chunks_mut.
  pose proof (div_ceil_ge n t Ht) as Hge. pose proof (div_ceil_pos n t Ht Hn) as Hpos.
  set (c := div_ceil n t) in *.
  destruct (chunks_aux_count c Hpos (length (seq a n)) (seq a n) (le_n _)) as [H1 H2].
  rewrite seq_length in *. set (k := length (chunks_aux n c (seq a n))) in *. nia.
Qed.

(* ---------- the index formulas ---------- *)
(* inside one chunk: enumerate pairs position `idx` with slot a+idx, the formula k+idx hits the same number *)
Lemma items_of_chunk (m : nat) : forall s a k,
  k + s = a ->
  map (fun q : nat * nat => (snd q, k + fst q)) (combine (seq s m) (seq a m)) = map (fun j => (j, j)) (seq a m).
Proof.
  induction m as [|m IH]; intros s a k Hk; [reflexivity|].
  cbn [seq combine map fst snd]. f_equal.
  - f_equal; lia.
  - apply IH. lia.
Qed.

Definition dup (j : nat) : item := (j, j).

(* the per-thread item lists, generic in the base index: thread s+i gets chunk i of seq a n where a = base + s*c *)
Lemma work_of_chunks (c base : nat) (Hc : 1 <= c) : forall fuel s a n,
  n <= fuel -> a = base + s * c ->
  map (fun p : nat * list nat => map (fun q : nat * nat => (snd q, base + fst p * c + fst q)) (enumerate (snd p)))
      (combine (seq s (length (chunks_aux fuel c (seq a n)))) (chunks_aux fuel c (seq a n)))
  = map (map dup) (chunks_aux fuel c (seq a n)).
Proof.
  induction fuel as [|f IH]; intros s a n Hn Ha; [reflexivity|].
  destruct n as [|n'].
  - reflexivity.
  - assert (E : chunks_aux (S f) c (seq a (S n'))
                = firstn c (seq a (S n')) :: chunks_aux f c (skipn c (seq a (S n')))) by reflexivity.
    set (n := S n') in *. rewrite E. clear E.
    cbn [length seq combine map fst snd].
    match goal with |- ?x :: ?xs = ?y :: ?ys => cut (x = y /\ xs = ys); [intros [-> ->]; reflexivity|split] end.
    + rewrite firstn_seq'. unfold enumerate. rewrite seq_length.
      apply items_of_chunk. lia.
    + rewrite skipn_seq'.
      destruct (Nat.le_gt_cases n c) as [Hle|Hgt].
      * replace (n - c) with 0 by lia. cbn [seq]. destruct f; reflexivity.
      * apply IH; [lia|]. lia.
Qed.

(* ---------- both call sites: closed form of the work lists ---------- *)
Lemma eval_work_closed (threads n : nat) :
  1 <= threads -> 1 <= n ->
  eval_work threads n = Some (map (map dup) (chunks_mut (div_ceil n threads) (seq 0 n))).
Proof.
  intros Ht Hn. unfold eval_work.
  destruct (threads =? 0) eqn:E0; [apply Nat.eqb_eq in E0; lia|].
  pose proof (div_ceil_pos n threads Ht Hn) as Hpos.
  destruct (div_ceil n threads =? 0) eqn:E1; [apply Nat.eqb_eq in E1; lia|].
  apply (f_equal (@Some (list (list item)))). unfold zip_enum. rewrite firstn_all2 by (apply chunks_count_le_threads; auto).
  unfold enumerate. unfold chunks_mut. rewrite seq_length.
  exact (work_of_chunks (div_ceil n threads) 0 Hpos n 0 0 n (le_n _) eq_refl).
Qed.

Lemma prepare_work_closed (threads bits start count : nat) :
  1 <= threads -> 1 <= count -> start + count <= bits ->
  prepare_work threads bits start count = Some (map (map dup) (chunks_mut (div_ceil count threads) (seq start count))).
Proof.
  intros Ht Hn Hb. unfold prepare_work.
  destruct (bits <? start + count) eqn:Eb; [apply Nat.ltb_lt in Eb; lia|].
  destruct (threads =? 0) eqn:E0; [apply Nat.eqb_eq in E0; lia|].
  pose proof (div_ceil_pos count threads Ht Hn) as Hpos.
  destruct (div_ceil count threads =? 0) eqn:E1; [apply Nat.eqb_eq in E1; lia|].
  apply (f_equal (@Some (list (list item)))). unfold zip_enum. rewrite firstn_all2 by (apply chunks_count_le_threads_from; auto).
  unfold enumerate. unfold chunks_mut. rewrite seq_length.
  cbn zeta.
  exact (work_of_chunks (div_ceil count threads) start Hpos count 0 start count (le_n _) ltac:(lia)).
Qed.

(* ---------- the guards: what makes the Rust code panic ---------- *)
Lemma eval_work_guard (threads n : nat) : threads = 0 \/ n = 0 -> eval_work threads n = None.
Proof.
  intros [->| ->]; unfold eval_work; [reflexivity|].
  destruct (threads =? 0) eqn:E; [reflexivity|].
  apply Nat.eqb_neq in E. rewrite div_ceil_zero by lia. reflexivity.
Qed.

Lemma prepare_work_guard (threads bits start count : nat) :
  threads = 0 \/ count = 0 \/ bits < start + count -> prepare_work threads bits start count = None.
Proof.
  intros H. unfold prepare_work.
  destruct (bits <? start + count) eqn:Eb; [reflexivity|]. apply Nat.ltb_ge in Eb.
  destruct (threads =? 0) eqn:E; [reflexivity|]. apply Nat.eqb_neq in E.
  destruct H as [H|[H|H]]; try lia. subst count. rewrite div_ceil_zero by lia. reflexivity.
Qed.

(* ---------- partitions ---------- *)
Lemma NoDup_app_disjoint {A : Type} (l1 l2 : list A) (x : A) :
  NoDup (l1 ++ l2) -> In x l1 -> In x l2 -> False.
Proof.
  induction l1 as [|y l1 IH]; intros Hnd H1 H2; [contradiction|].
  cbn [app] in Hnd. inversion Hnd as [|? ? Hnotin Hnd']; subst.
  destruct H1 as [->|H1].
  - apply Hnotin. apply in_or_app. right; exact H2.
  - eapply IH; eauto.
Qed.

Lemma NoDup_app_r {A : Type} (l1 l2 : list A) : NoDup (l1 ++ l2) -> NoDup l2.
Proof.
  induction l1 as [|y l1 IH]; intros H; [exact H|]. inversion H; subst. auto.
Qed.

Lemma concat_NoDup_disjoint {A : Type} (cs : list (list A)) : forall i j x,
  NoDup (concat cs) -> i < j -> In x (nth i cs []) -> In x (nth j cs []) -> False.
Proof.
  induction cs as [|ch cs IH]; intros i j x Hnd Hij Hi Hj.
  - destruct i; contradiction.
  - cbn [concat] in Hnd. destruct j as [|j]; [lia|]. destruct i as [|i]; cbn [nth] in *.
    + eapply NoDup_app_disjoint; eauto.
      destruct (Nat.lt_ge_cases j (length cs)) as [Hlt|Hge].
      * apply in_concat. exists (nth j cs []). split; [apply nth_In; exact Hlt|exact Hj].
      * rewrite nth_overflow in Hj by lia. contradiction.
    + apply (IH i j x); [eapply NoDup_app_r; exact Hnd | lia | exact Hi | exact Hj].
Qed.

(* a list of chunks whose concatenation is seq base n is a partition of base .. base+n-1 *)
Definition is_partition (base n threads : nat) (cs : list (list nat)) : Prop :=
  length cs <= threads /\
  (forall ch, In ch cs -> ch <> []) /\
  concat cs = seq base n /\
  (forall i j x, i <> j -> In x (nth i cs []) -> ~ In x (nth j cs [])) /\
  (forall x, base <= x < base + n -> exists i, i < length cs /\ In x (nth i cs []) /\
                                                forall i', In x (nth i' cs []) -> i' = i).

Lemma partition_of_concat (base n threads : nat) (cs : list (list nat)) :
  length cs <= threads -> (forall ch, In ch cs -> ch <> []) -> concat cs = seq base n ->
  is_partition base n threads cs.
Proof.
  intros Hlen Hne Hcat.
  assert (Hnd : NoDup (concat cs)) by (rewrite Hcat; apply seq_NoDup).
  assert (Hdis : forall i j x, i <> j -> In x (nth i cs []) -> ~ In x (nth j cs [])).
  { intros i j x Hij Hi Hj.
    destruct (Nat.lt_gt_cases i j) as [H _]. specialize (H Hij). destruct H as [H|H].
    - eapply (concat_NoDup_disjoint cs i j x); eauto.
    - eapply (concat_NoDup_disjoint cs j i x); eauto. }
  repeat split; auto.
  intros x Hx.
  assert (Hin : In x (concat cs)) by (rewrite Hcat; apply in_seq; lia).
  apply in_concat in Hin. destruct Hin as (ch & Hch & Hxch).
  destruct (In_nth cs ch [] Hch) as (i & Hi & Hnth).
  exists i. split; [exact Hi|]. split; [rewrite Hnth; exact Hxch|].
  intros i' Hi'. destruct (Nat.eq_dec i' i) as [|Hne']; [assumption|].
  exfalso. eapply (Hdis i' i x); eauto. rewrite Hnth; exact Hxch.
Qed.

Lemma map_map_fst_dup (cs : list (list nat)) : map (map fst) (map (map dup) cs) = cs.
Proof.
  induction cs as [|ch cs IH]; [reflexivity|]. cbn [map]. rewrite IH. f_equal.
  induction ch as [|x ch IHc]; [reflexivity|]. cbn [map dup fst]. f_equal. exact IHc.
Qed.
Lemma map_map_snd_dup (cs : list (list nat)) : map (map snd) (map (map dup) cs) = cs.
Proof.
  induction cs as [|ch cs IH]; [reflexivity|]. cbn [map]. rewrite IH. f_equal.
  induction ch as [|x ch IHc]; [reflexivity|]. cbn [map dup snd]. f_equal. exact IHc.
Qed.

Lemma chunks_mut_partition (base n threads : nat) :
  1 <= threads -> 1 <= n ->
  is_partition base n threads (chunks_mut (div_ceil n threads) (seq base n)).
Proof.
  intros Ht Hn. pose proof (div_ceil_pos n threads Ht Hn) as Hpos.
  apply partition_of_concat.
  - apply chunks_count_le_threads_from; auto.
  - intros ch Hin. eapply chunks_aux_nonempty; eauto.
  - unfold chunks_mut. apply chunks_aux_concat; auto.
Qed.

(* C20_chunks_partition *)
Lemma chunks_partition (items threads : nat) :
  1 <= items -> 1 <= threads ->
  exists cs, chunks items threads = Some cs /\ is_partition 0 items threads cs.
Proof.
  intros Hn Ht. unfold chunks. rewrite eval_work_closed by auto. cbn [option_map].
  rewrite map_map_fst_dup. eexists; split; [reflexivity|]. apply chunks_mut_partition; auto.
Qed.

Lemma chunks_prepare_partition (threads bits start count : nat) :
  1 <= count -> 1 <= threads -> start + count <= bits ->
  exists cs, chunks_prepare threads bits start count = Some cs /\ is_partition start count threads cs.
Proof.
  intros Hn Ht Hb. unfold chunks_prepare. rewrite prepare_work_closed by auto. cbn [option_map].
  rewrite map_map_fst_dup. eexists; split; [reflexivity|]. apply chunks_mut_partition; auto.
Qed.

(* C20_index_formula_enumerates: in both call sites the index handed to the per-item computation
   (thread_idx*chunk_size+idx, resp. bit_start+thread_index*chunk_size+local_bit: literally the closures of
   eval_work / prepare_work) is the absolute position of the output slot being written, and the indices of
   thread 0, then thread 1, ... are base, base+1, ..., base+items-1: each exactly once and nothing else *)
Lemma index_formula_eval (threads items : nat) :
  1 <= items -> 1 <= threads ->
  exists w, eval_work threads items = Some w /\
            length w <= threads /\
            map (map snd) w = map (map fst) w /\
            concat (map (map snd) w) = seq 0 items /\
            concat w = map (fun j => (j, j)) (seq 0 items).
Proof.
  intros Hn Ht. rewrite eval_work_closed by auto. eexists; split; [reflexivity|].
  pose proof (div_ceil_pos items threads Ht Hn) as Hpos.
  rewrite map_map_fst_dup, map_map_snd_dup, map_length.
  split; [apply chunks_count_le_threads; auto|]. split; [reflexivity|].
  split; [unfold chunks_mut; apply chunks_aux_concat; auto|].
  rewrite <- concat_map. unfold chunks_mut. rewrite chunks_aux_concat; auto.
Qed.

Lemma index_formula_prepare (threads bits start count : nat) :
  1 <= count -> 1 <= threads -> start + count <= bits ->
  exists w, prepare_work threads bits start count = Some w /\
            length w <= threads /\
            map (map snd) w = map (map fst) w /\
            concat (map (map snd) w) = seq start count /\
            concat w = map (fun j => (j, j)) (seq start count).
Proof.
  intros Hn Ht Hb. rewrite prepare_work_closed by auto. eexists; split; [reflexivity|].
  pose proof (div_ceil_pos count threads Ht Hn) as Hpos.
  rewrite map_map_fst_dup, map_map_snd_dup, map_length.
  split; [apply chunks_count_le_threads_from; auto|]. split; [reflexivity|].
  split; [unfold chunks_mut; apply chunks_aux_concat; auto|].
  rewrite <- concat_map. unfold chunks_mut. rewrite chunks_aux_concat; auto.
Qed.
