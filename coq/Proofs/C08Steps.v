(* C08, level 1: every normalisation step kernel, under an explicit headroom hypothesis, performs one
   exact balanced division step  v = x + 2^b * c'  with x the balanced residue of v (no wrap occurs). *)
From PV Require Import Base.MachineInt Model.Znx Proofs.ZnxDigit.
Open Scope Z_scope.

(* ---------- the ideal step: balanced residue / rounded quotient ---------- *)

(* quotient of the balanced division by 2^b (= round-half-up of v / 2^b) *)
Definition bdiv (b v : Z) : Z := (v + 2 ^ (b - 1)) / 2 ^ b.

Lemma wrap_bdiv (b v : Z) : 1 <= b -> wrap b v + 2 ^ b * bdiv b v = v.
Proof.
  intros Hb. unfold wrap, bdiv.
  pose proof (pow2_pos b ltac:(lia)) as Hp.
  pose proof (Z.div_mod (v + 2 ^ (b - 1)) (2 ^ b) ltac:(lia)). lia.
Qed.

Lemma decomp_unique (b v x k : Z) : 1 <= b -> in_range b x -> v = x + 2 ^ b * k ->
  wrap b v = x /\ bdiv b v = k.
Proof.
  intros Hb [Hx1 Hx2] Hv.
  pose proof (wrap_bdiv b v Hb) as Hd.
  pose proof (wrap_range b v Hb) as [Hw1 Hw2].
  pose proof (pow2_pos (b - 1) ltac:(lia)) as Hp.
  pose proof (pow2_split b Hb) as Hs.
  assert (Hk : bdiv b v = k) by nia.
  split; [|exact Hk]. rewrite Hk in Hd. lia.
Qed.

Lemma wrap_unique (b x k : Z) : 1 <= b -> in_range b x -> wrap b (x + 2 ^ b * k) = x.
Proof. intros Hb Hx. apply (decomp_unique b _ x k Hb Hx eq_refl). Qed.

Lemma bdiv_unique (b x k : Z) : 1 <= b -> in_range b x -> bdiv b (x + 2 ^ b * k) = k.
Proof. intros Hb Hx. apply (decomp_unique b _ x k Hb Hx eq_refl). Qed.

Lemma wrap_add_mul (b v k : Z) : 1 <= b -> wrap b (v + 2 ^ b * k) = wrap b v.
Proof.
  intros Hb. pose proof (wrap_bdiv b v Hb) as Hd.
  rewrite <- Hd at 1. replace (wrap b v + 2 ^ b * bdiv b v + 2 ^ b * k)
    with (wrap b v + 2 ^ b * (bdiv b v + k)) by ring.
  apply wrap_unique; auto. apply wrap_range; auto.
Qed.

Lemma bdiv_add_mul (b v k : Z) : 1 <= b -> bdiv b (v + 2 ^ b * k) = bdiv b v + k.
Proof.
  intros Hb. pose proof (wrap_bdiv b v Hb) as Hd.
  rewrite <- Hd at 1. replace (wrap b v + 2 ^ b * bdiv b v + 2 ^ b * k)
    with (wrap b v + 2 ^ b * (bdiv b v + k)) by ring.
  apply bdiv_unique; auto. apply wrap_range; auto.
Qed.

Lemma wrap_zero (b : Z) : 1 <= b -> wrap b 0 = 0.
Proof.
  intros Hb. apply wrap_id; auto. unfold in_range.
  pose proof (pow2_pos (b - 1) ltac:(lia)). lia.
Qed.

Lemma bdiv_zero (b : Z) : 1 <= b -> bdiv b 0 = 0.
Proof.
  intros Hb. pose proof (wrap_bdiv b 0 Hb) as Hd. rewrite wrap_zero in Hd by auto.
  pose proof (pow2_pos b ltac:(lia)). nia.
Qed.

(* magnitude of the rounded quotient *)
Lemma bdiv_abs (b v : Z) : 1 <= b -> Z.abs (bdiv b v) * 2 ^ b <= Z.abs v + 2 ^ (b - 1).
Proof.
  intros Hb. pose proof (wrap_bdiv b v Hb) as Hd.
  pose proof (wrap_range b v Hb) as [Hw1 Hw2].
  pose proof (pow2_pos b ltac:(lia)). nia.
Qed.

(* the chaining bound: limbs and carry within H  ==>  next carry within H (any H >= 0, any shift below b) *)
Lemma bdiv_chain (b H v c : Z) : 1 <= b -> 0 <= H ->
  Z.abs v <= H * 2 ^ (b - 1) -> Z.abs c <= H -> Z.abs (bdiv b (v + c)) <= H.
Proof.
  intros Hb HH Hv Hc.
  pose proof (bdiv_abs b (v + c) Hb) as Hk.
  pose proof (pow2_pos (b - 1) ltac:(lia)) as Hp.
  pose proof (pow2_split b Hb) as Hs.
  set (K := Z.abs (bdiv b (v + c))) in *.
  assert (K * 2 ^ b <= H * 2 ^ (b - 1) + H + 2 ^ (b - 1)) by lia.
  destruct (Z_le_gt_dec K H) as [|Hgt]; auto.
  assert ((H + 1) * 2 ^ b <= K * 2 ^ b) by (apply Z.mul_le_mono_nonneg_r; lia).
  nia.
Qed.

Lemma shifted_bound (b H a lsh : Z) : 0 <= lsh < b -> 0 <= H -> Z.abs a <= H ->
  Z.abs (a * 2 ^ lsh) <= H * 2 ^ (b - 1).
Proof.
  intros Hl HH Ha. rewrite Z.abs_mul.
  pose proof (pow2_pos lsh ltac:(lia)).
  rewrite (Z.abs_eq (2 ^ lsh)) by lia.
  assert (2 ^ lsh <= 2 ^ (b - 1)) by (apply Z.pow_le_mono_r; lia).
  nia.
Qed.

(* ---------- power-of-two bookkeeping for a word of width w and a radix b <= w - 2 ---------- *)

Lemma pow_facts (w b : Z) : 1 <= b <= w - 2 ->
  0 < 2 ^ (b - 1) /\ 2 ^ b = 2 * 2 ^ (b - 1) /\ 2 ^ b <= 2 ^ (w - 2) /\ 2 ^ (w - 1) = 2 * 2 ^ (w - 2).
Proof.
  intros Hb. repeat split.
  - apply pow2_pos; lia.
  - apply pow2_split; lia.
  - apply Z.pow_le_mono_r; lia.
  - replace (w - 2) with (w - 1 - 1) by lia. apply pow2_split; lia.
Qed.

(* the digit/carry pair of a word with headroom is the ideal step *)
Lemma digit_carry_ideal (w b x : Z) : 1 <= b <= w - 2 ->
  - 2 ^ (w - 2) - 2 ^ (b - 1) <= x < 2 ^ (w - 2) + 2 ^ (b - 1) ->
  get_digit w b x = wrap b x /\ get_carry w b x (get_digit w b x) = bdiv b x.
Proof.
  intros Hb Hx.
  destruct (pow_facts w b Hb) as (Hp & Hs & Hle & Hw).
  assert (Hd : get_digit w b x = wrap b x) by (apply digit_spec; lia).
  split; auto.
  pose proof (wrap_range b x ltac:(lia)) as [Hr1 Hr2].
  pose proof (wrap_bdiv b x ltac:(lia)) as Hdec.
  assert (Hr : in_range w (x - get_digit w b x)).
  { rewrite Hd. unfold in_range. rewrite Hw. lia. }
  pose proof (carry_spec w b x ltac:(lia) Hr) as Hc. rewrite Hd in *.
  pose proof (pow2_pos b ltac:(lia)). nia.
Qed.

Lemma shl_exact (w x k : Z) : 1 <= w -> in_range w (x * 2 ^ k) -> shl w x k = x * 2 ^ k.
Proof. intros; unfold shl; apply wrap_id; auto. Qed.

(* a balanced digit of radix b - lsh shifted left by lsh is a balanced digit of radix b *)
Lemma shifted_digit_range (b lsh d : Z) : 0 <= lsh < b -> in_range (b - lsh) d -> in_range b (d * 2 ^ lsh).
Proof.
  intros Hl [H1 H2]. unfold in_range.
  pose proof (pow2_pos lsh ltac:(lia)) as HL.
  assert (E : 2 ^ (b - 1) = 2 ^ (b - lsh - 1) * 2 ^ lsh)
    by (rewrite <- Z.pow_add_r by lia; f_equal; lia).
  rewrite E. nia.
Qed.

Lemma in_range_weaken (b w x : Z) : 1 <= b <= w -> in_range b x -> in_range w x.
Proof.
  intros Hb [H1 H2]. unfold in_range.
  assert (2 ^ (b - 1) <= 2 ^ (w - 1)) by (apply Z.pow_le_mono_r; lia). lia.
Qed.

(* ---------- first step ---------- *)

Section Steps.
Variables w b lsh : Z.
Hypothesis Hb : 1 <= b <= w - 2.
Hypothesis Hl : 0 <= lsh < b.

Let H := 2 ^ (w - 2).

Lemma H_pos : 0 < H.
Proof. apply pow2_pos; lia. Qed.

(* low part of a limb: digit of radix b - lsh, shifted; carry of radix b - lsh *)
Lemma low_part (a : Z) : Z.abs a <= H ->
  let d := get_digit w (b - lsh) a in
  let sh := if lsh =? 0 then d else shl w d lsh in
  let cr := get_carry w (b - lsh) a d in
  sh = wrap b (a * 2 ^ lsh) /\ cr = bdiv b (a * 2 ^ lsh) /\ in_range b sh.
Proof.
  intros Ha d sh cr.
  assert (Hbl : 1 <= b - lsh <= w - 2) by lia.
  destruct (pow_facts w (b - lsh) Hbl) as (Hp & Hs & Hle & Hw).
  destruct (digit_carry_ideal w (b - lsh) a Hbl ltac:(fold H; lia)) as [Hd Hc].
  fold d in Hd, Hc.
  pose proof (wrap_range (b - lsh) a ltac:(lia)) as Hdr. rewrite <- Hd in Hdr.
  pose proof (shifted_digit_range b lsh d Hl Hdr) as Hsr.
  pose proof (wrap_bdiv (b - lsh) a ltac:(lia)) as Hdec. rewrite <- Hd in Hdec.
  assert (Esh : sh = d * 2 ^ lsh).
  { unfold sh. destruct (Z.eqb_spec lsh 0) as [->|Hne]; [rewrite Z.pow_0_r; lia|].
    apply shl_exact; [lia|]. apply (in_range_weaken b w); [lia|auto]. }
  assert (Ecr : cr = bdiv (b - lsh) a) by exact Hc.
  assert (E2 : 2 ^ b = 2 ^ (b - lsh) * 2 ^ lsh)
    by (rewrite <- Z.pow_add_r by lia; f_equal; lia).
  assert (Hv : a * 2 ^ lsh = d * 2 ^ lsh + 2 ^ b * bdiv (b - lsh) a) by (rewrite E2; nia).
  destruct (decomp_unique b (a * 2 ^ lsh) (d * 2 ^ lsh) (bdiv (b - lsh) a) ltac:(lia) Hsr Hv) as [U1 U2].
  rewrite Esh, Ecr, U1, U2. split; [reflexivity|split; [reflexivity|exact Hsr]].
Qed.

Lemma first_step_assign_ideal (a : Z) : Z.abs a <= H ->
  first_step_assign w b lsh a = (wrap b (a * 2 ^ lsh), bdiv b (a * 2 ^ lsh)).
Proof.
  intros Ha. destruct (low_part a Ha) as (E1 & E2 & _).
  unfold first_step_assign. cbv zeta in *. revert E1 E2.
  destruct (Z.eqb_spec lsh 0) as [E0|Hne]; intros E1 E2.
  - replace (b - lsh) with b in * by lia. rewrite E2, E1. reflexivity.
  - rewrite E2, E1. reflexivity.
Qed.

Lemma first_step_carry_only_ideal (a : Z) : Z.abs a <= H ->
  first_step_carry_only w b lsh a = bdiv b (a * 2 ^ lsh).
Proof.
  intros Ha. destruct (low_part a Ha) as (E1 & E2 & _).
  unfold first_step_carry_only. cbv zeta in *. revert E1 E2.
  destruct (Z.eqb_spec lsh 0) as [E0|Hne]; intros E1 E2.
  - replace (b - lsh) with b in * by lia. exact E2.
  - exact E2.
Qed.

(* exact addition into a limb with headroom *)
Lemma wadd_digit_exact (x d : Z) : Z.abs x <= H -> in_range b d -> wadd w x d = x + d.
Proof.
  intros Hx [Hd1 Hd2]. destruct (pow_facts w b Hb) as (Hp & Hs & Hle & Hw).
  unfold wadd. apply wrap_id; [lia|]. unfold in_range. fold H in Hle. rewrite Hw. fold H. lia.
Qed.

Lemma wsub_digit_exact (x d : Z) : Z.abs x <= H -> in_range b d -> wsub w x d = x - d.
Proof.
  intros Hx [Hd1 Hd2]. destruct (pow_facts w b Hb) as (Hp & Hs & Hle & Hw).
  unfold wsub. apply wrap_id; [lia|]. unfold in_range. fold H in Hle. rewrite Hw. fold H. lia.
Qed.

Lemma first_step_ideal (ov : bool) (x a : Z) : Z.abs a <= H -> (ov = false -> Z.abs x <= H) ->
  first_step w ov b lsh x a =
    ((if ov then 0 else x) + wrap b (a * 2 ^ lsh), bdiv b (a * 2 ^ lsh)).
Proof.
  intros Ha Hx. destruct (low_part a Ha) as (E1 & E2 & E3).
  assert (Hadd : forall s, in_range b s -> (if ov then s else wadd w x s) = (if ov then 0 else x) + s).
  { intros s Hs. destruct ov; [lia|]. apply wadd_digit_exact; auto. }
  unfold first_step. cbv zeta in *. revert E1 E2 E3.
  destruct (Z.eqb_spec lsh 0) as [E0|Hne]; intros E1 E2 E3.
  - replace (b - lsh) with b in * by lia. rewrite E2, <- E1. f_equal. apply Hadd; exact E3.
  - rewrite E2, <- E1. f_equal. apply Hadd; exact E3.
Qed.

(* ---------- middle step ---------- *)

Lemma middle_core_ideal (a c : Z) : Z.abs a <= H -> Z.abs c <= H ->
  middle_core w b lsh a c = (wrap b (a * 2 ^ lsh + c), bdiv b (a * 2 ^ lsh + c)).
Proof.
  intros Ha Hc. destruct (low_part a Ha) as (E1 & E2 & E3).
  destruct (pow_facts w b Hb) as (Hp & Hs & Hle & Hw). fold H in Hle, Hw.
  unfold middle_core.
  assert (Ebl : (if lsh =? 0 then b else b - lsh) = b - lsh)
    by (destruct (Z.eqb_spec lsh 0); lia).
  rewrite Ebl in *. cbv zeta in *.
  set (d := get_digit w (b - lsh) a) in *.
  set (sh := if lsh =? 0 then d else shl w d lsh) in *.
  set (cr := get_carry w (b - lsh) a d) in *.
  destruct E3 as [S1 S2].
  assert (Edpc : wadd w sh c = sh + c).
  { unfold wadd. apply wrap_id; [lia|]. unfold in_range. rewrite Hw. lia. }
  rewrite Edpc.
  destruct (digit_carry_ideal w b (sh + c) Hb ltac:(fold H; lia)) as [Hd2 Hc2].
  rewrite Hc2, Hd2.
  pose proof (wrap_bdiv b (a * 2 ^ lsh) ltac:(lia)) as Hdec. rewrite <- E1, <- E2 in Hdec.
  assert (Ev : a * 2 ^ lsh + c = (sh + c) + 2 ^ b * cr) by lia.
  rewrite Ev, wrap_add_mul, bdiv_add_mul by lia.
  f_equal.
  assert (Hk : Z.abs (bdiv b (a * 2 ^ lsh + c)) <= H).
  { pose proof H_pos. apply bdiv_chain; try lia. apply shifted_bound; auto; lia. }
  rewrite Ev, bdiv_add_mul in Hk by lia.
  unfold wadd. rewrite Z.add_comm. apply wrap_id; [lia|]. unfold in_range. rewrite Hw. lia.
Qed.

(* the statement in the shape asked by the property: exact identity, balanced digit, carry bounds *)
Theorem middle_core_spec (a c : Z) : Z.abs a <= H -> Z.abs c <= H ->
  let '(x, c') := middle_core w b lsh a c in
  a * 2 ^ lsh + c = x + 2 ^ b * c' /\ in_range b x /\
  Z.abs c' * 2 ^ b <= Z.abs a * 2 ^ lsh + Z.abs c + 2 ^ (b - 1) /\ Z.abs c' <= H.
Proof.
  intros Ha Hc. rewrite middle_core_ideal by auto.
  pose proof (wrap_bdiv b (a * 2 ^ lsh + c) ltac:(lia)) as Hd.
  pose proof (bdiv_abs b (a * 2 ^ lsh + c) ltac:(lia)) as Hk.
  pose proof (pow2_pos lsh ltac:(lia)) as HL.
  repeat split.
  - lia.
  - apply wrap_range; lia.
  - apply wrap_range; lia.
  - assert (Z.abs (a * 2 ^ lsh + c) <= Z.abs a * 2 ^ lsh + Z.abs c).
    { rewrite <- (Z.abs_eq (2 ^ lsh)) at 2 by lia. rewrite <- Z.abs_mul. apply Z.abs_triangle. }
    lia.
  - pose proof H_pos. apply bdiv_chain; try lia. apply shifted_bound; auto; lia.
Qed.

Theorem first_step_assign_spec (a : Z) : Z.abs a <= H ->
  let '(x, c') := first_step_assign w b lsh a in
  a * 2 ^ lsh = x + 2 ^ b * c' /\ in_range b x /\
  Z.abs c' * 2 ^ b <= Z.abs a * 2 ^ lsh + 2 ^ (b - 1) /\ Z.abs c' <= H.
Proof.
  intros Ha. rewrite first_step_assign_ideal by auto.
  pose proof (wrap_bdiv b (a * 2 ^ lsh) ltac:(lia)) as Hd.
  pose proof (bdiv_abs b (a * 2 ^ lsh) ltac:(lia)) as Hk.
  pose proof (pow2_pos lsh ltac:(lia)) as HL.
  repeat split.
  - lia.
  - apply wrap_range; lia.
  - apply wrap_range; lia.
  - rewrite Z.abs_mul, (Z.abs_eq (2 ^ lsh)) in Hk by lia. lia.
  - replace (a * 2 ^ lsh) with (a * 2 ^ lsh + 0) by lia. pose proof H_pos.
    apply bdiv_chain; try lia. apply shifted_bound; auto; lia.
Qed.

Theorem first_step_spec (ov : bool) (x a : Z) : Z.abs a <= H -> (ov = false -> Z.abs x <= H) ->
  let '(x', c') := first_step w ov b lsh x a in
  exists d, x' = (if ov then 0 else x) + d /\
  a * 2 ^ lsh = d + 2 ^ b * c' /\ in_range b d /\
  Z.abs c' * 2 ^ b <= Z.abs a * 2 ^ lsh + 2 ^ (b - 1) /\ Z.abs c' <= H.
Proof.
  intros Ha Hx. rewrite first_step_ideal by auto.
  pose proof (first_step_assign_spec a Ha) as Hs. rewrite first_step_assign_ideal in Hs by auto.
  exists (wrap b (a * 2 ^ lsh)). split; [reflexivity|exact Hs].
Qed.

Theorem first_step_carry_only_spec (a : Z) : Z.abs a <= H ->
  first_step_carry_only w b lsh a = snd (first_step_assign w b lsh a).
Proof.
  intros Ha. rewrite first_step_carry_only_ideal, first_step_assign_ideal by auto. reflexivity.
Qed.

(* the first step is the middle step with a zero carry *)
Lemma first_is_middle (a : Z) : Z.abs a <= H ->
  first_step_assign w b lsh a = middle_core w b lsh a 0.
Proof.
  intros Ha. pose proof H_pos. rewrite first_step_assign_ideal, middle_core_ideal by (auto; lia).
  rewrite Z.add_0_r. reflexivity.
Qed.

(* ---------- final step ---------- *)

Lemma final_core_ideal (a c : Z) : Z.abs a <= H -> Z.abs c <= H ->
  final_core w b lsh a c = wrap b (a * 2 ^ lsh + c).
Proof.
  intros Ha Hc. destruct (low_part a Ha) as (E1 & E2 & E3).
  destruct (pow_facts w b Hb) as (Hp & Hs & Hle & Hw). fold H in Hle, Hw.
  cbv zeta in *. destruct E3 as [S1 S2].
  pose proof (wrap_bdiv b (a * 2 ^ lsh) ltac:(lia)) as Hdec. rewrite <- E1 in Hdec.
  unfold final_core. destruct (Z.eqb_spec lsh 0) as [E0|Hne].
  - replace (b - lsh) with b in * by lia.
    set (sh := get_digit w b a) in *.
    assert (Edpc : wadd w sh c = sh + c).
    { unfold wadd. apply wrap_id; [lia|]. unfold in_range. rewrite Hw. lia. }
    rewrite Edpc, digit_spec by lia.
    replace (a * 2 ^ lsh + c) with (sh + c + 2 ^ b * bdiv b (a * 2 ^ lsh)) by lia.
    rewrite wrap_add_mul by lia. reflexivity.
  - set (sh := shl w (get_digit w (b - lsh) a) lsh) in *.
    assert (Edpc : wadd w sh c = sh + c).
    { unfold wadd. apply wrap_id; [lia|]. unfold in_range. rewrite Hw. lia. }
    rewrite Edpc, digit_spec by lia.
    replace (a * 2 ^ lsh + c) with (sh + c + 2 ^ b * bdiv b (a * 2 ^ lsh)) by lia.
    rewrite wrap_add_mul by lia. reflexivity.
Qed.

Theorem final_core_spec (a c : Z) : Z.abs a <= H -> Z.abs c <= H ->
  let x := final_core w b lsh a c in
  (a * 2 ^ lsh + c - x) mod 2 ^ b = 0 /\ in_range b x.
Proof.
  intros Ha Hc. cbv zeta. rewrite final_core_ideal by auto.
  pose proof (wrap_bdiv b (a * 2 ^ lsh + c) ltac:(lia)) as Hd.
  split; [|apply wrap_range; lia].
  replace (a * 2 ^ lsh + c - wrap b (a * 2 ^ lsh + c)) with (bdiv b (a * 2 ^ lsh + c) * 2 ^ b) by lia.
  apply Z_mod_mult.
Qed.

(* the final step is the digit of the middle step *)
Lemma final_is_middle (a c : Z) : Z.abs a <= H -> Z.abs c <= H ->
  final_core w b lsh a c = fst (middle_core w b lsh a c).
Proof. intros Ha Hc. rewrite final_core_ideal, middle_core_ideal by auto. reflexivity. Qed.

(* ---------- the add / sub / overwrite variants ---------- *)

Lemma middle_step_ideal (ov : bool) (x a c : Z) : Z.abs a <= H -> Z.abs c <= H -> (ov = false -> Z.abs x <= H) ->
  middle_step w ov b lsh x a c =
    ((if ov then 0 else x) + wrap b (a * 2 ^ lsh + c), bdiv b (a * 2 ^ lsh + c)).
Proof.
  intros Ha Hc Hx. unfold middle_step. rewrite middle_core_ideal by auto. f_equal.
  destruct ov; [lia|]. apply wadd_digit_exact; auto. apply wrap_range; lia.
Qed.

Lemma middle_step_sub_ideal (x a c : Z) : Z.abs a <= H -> Z.abs c <= H -> Z.abs x <= H ->
  middle_step_sub w b lsh x a c = (x - wrap b (a * 2 ^ lsh + c), bdiv b (a * 2 ^ lsh + c)).
Proof.
  intros Ha Hc Hx. unfold middle_step_sub. rewrite middle_core_ideal by auto. f_equal.
  apply wsub_digit_exact; auto. apply wrap_range; lia.
Qed.

Lemma final_step_ideal (ov : bool) (x a c : Z) : Z.abs a <= H -> Z.abs c <= H -> (ov = false -> Z.abs x <= H) ->
  final_step w ov b lsh x a c = (if ov then 0 else x) + wrap b (a * 2 ^ lsh + c).
Proof.
  intros Ha Hc Hx. unfold final_step. rewrite final_core_ideal by auto.
  destruct ov; [lia|]. apply wadd_digit_exact; auto. apply wrap_range; lia.
Qed.

Lemma final_step_sub_ideal (x a c : Z) : Z.abs a <= H -> Z.abs c <= H -> Z.abs x <= H ->
  final_step_sub w b lsh x a c = x - wrap b (a * 2 ^ lsh + c).
Proof.
  intros Ha Hc Hx. unfold final_step_sub. rewrite final_core_ideal by auto.
  apply wsub_digit_exact; auto. apply wrap_range; lia.
Qed.

End Steps.

(* ---------- the two cross-radix kernels ---------- *)

(* extract_digit_addmul: peel a balanced digit of radix b off s, add it shifted into r *)
Theorem extract_digit_addmul_spec (w b lsh r s : Z) : 1 <= b <= w - 2 -> 0 <= lsh ->
  Z.abs s <= 2 ^ (w - 2) -> in_range w (r + wrap b s * 2 ^ lsh) -> in_range w (wrap b s * 2 ^ lsh) ->
  let '(r', s') := extract_digit_addmul w b lsh r s in
  exists d, in_range b d /\ s = d + 2 ^ b * s' /\ r' = r + d * 2 ^ lsh /\
            Z.abs s' * 2 ^ b <= Z.abs s + 2 ^ (b - 1).
Proof.
  intros Hb Hl Hs Hr Hd. unfold extract_digit_addmul.
  destruct (pow_facts w b Hb) as (Hp & Hs2 & Hle & Hw).
  destruct (digit_carry_ideal w b s Hb ltac:(lia)) as [E1 E2].
  cbv zeta. rewrite E2, E1. exists (wrap b s).
  pose proof (wrap_bdiv b s ltac:(lia)) as Hdec.
  repeat split.
  - apply wrap_range; lia.
  - apply wrap_range; lia.
  - lia.
  - unfold wadd. rewrite shl_exact by (auto; lia). apply wrap_id; [lia|auto].
  - apply bdiv_abs; lia.
Qed.

(* normalize_digit: split r into its balanced digit and push the carry into s *)
Theorem normalize_digit_spec (w b r s : Z) : 1 <= b <= w - 2 ->
  Z.abs r <= 2 ^ (w - 2) -> in_range w (s + bdiv b r) ->
  let '(r', s') := normalize_digit w b r s in
  in_range b r' /\ r + 2 ^ b * s = r' + 2 ^ b * s' /\ s' = s + bdiv b r.
Proof.
  intros Hb Hr Hs. unfold normalize_digit.
  destruct (pow_facts w b Hb) as (Hp & Hs2 & Hle & Hw).
  destruct (digit_carry_ideal w b r Hb ltac:(lia)) as [E1 E2].
  cbv zeta. rewrite E2, E1.
  pose proof (wrap_bdiv b r ltac:(lia)) as Hdec.
  assert (Ea : wadd w s (bdiv b r) = s + bdiv b r) by (unfold wadd; apply wrap_id; [lia|auto]).
  rewrite Ea. repeat split; try (apply wrap_range; lia). lia.
Qed.
