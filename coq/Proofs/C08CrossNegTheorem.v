(* C08, cross-radix normalisation with a negative offset, any word width wd >= 34, gap cap 32 kc bits:
   the value theorem, and with the theorem for offsets >= 0 the full statement for every offset. *)
From PV Require Import Base.MachineInt Model.Znx Model.Limbs Model.LimbsBig Model.C08Oracle
  Proofs.ZnxDigit Proofs.C08Steps Proofs.C08Chain Proofs.C08Loops Proofs.C08Value Proofs.C08Normalize
  Proofs.C08Shift Proofs.C08ShiftValue Proofs.C08CrossInner Proofs.C08CrossGeom Proofs.C08CrossOuter
  Proofs.C08CrossLoop Proofs.C08CrossMain
  Proofs.C08WChain Proofs.C08WLoops Proofs.C08WNormalize Proofs.C08WCrossInner Proofs.C08WCrossGeom Proofs.C08WCrossOuter
  Proofs.C08WCrossLoop Proofs.C08WCrossTheorem
  Proofs.C08CrossNegKernels Proofs.C08CrossNegInner Proofs.C08CrossNegGeom Proofs.C08CrossNegLoop.
Open Scope Z_scope.

(* ---------- the torus statement from the final invariant, negative limb offset ---------- *)

Section NegValue.
Variables rb ab : Z.
Hypothesis Hrb : 1 <= rb.
Hypothesis Hab : 1 <= ab.
Variable a : list Z.
Variable lsh : Z.
Hypothesis Hl : 0 <= lsh < ab.
Variable rsz : nat.
Variables z g : Z.
Hypothesis Hz : 0 <= z.
Hypothesis Hg : 0 <= g.
Hypothesis Hzg : z = 0 \/ g = 0.

Lemma final_value_neg (lo P : Z) (res : list Z) : lo < 0 ->
  (zn (length a) - lo) * ab = zn rsz * rb + g - z ->
  C08CrossOuter.Final rb ab a lsh rsz z g res ->
  zn rsz * rb + (zn (length a) - lo) * ab <= P ->
  let D := tor_abs P (val_scaled P rb res - val_scaled (P + (lo * ab + lsh)) ab a) in
  D <= 2 ^ (P - zn rsz * rb) /\ (zn (length a) * ab - (lo * ab + lsh) <= zn rsz * rb -> D = 0).
Proof.
  intros Hlo Hgeo (Lr & drop & K & [Hd1 Hd2] & EV) HP. cbv zeta.
  set (A := zn (length a)) in *. set (R := zn rsz) in *.
  assert (HA : 0 <= A) by (unfold A, zn; lia). assert (HR : 0 <= R) by (unfold R, zn; lia).
  assert (HRrb : 0 <= R * rb) by (apply Z.mul_nonneg_nonneg; lia).
  assert (HAab : 0 <= A * ab) by (apply Z.mul_nonneg_nonneg; lia).
  assert (HTab : 0 <= (A - lo) * ab) by (apply Z.mul_nonneg_nonneg; lia).
  assert (Hgle : g <= (A - lo) * ab) by (destruct Hzg; lia).
  set (E1 := P - R * rb - g).
  assert (HE1 : 0 <= E1) by (unfold E1; lia).
  assert (HP0 : 0 <= P) by lia.
  rewrite (val_scaled_Vres P rb rsz res ltac:(lia) Lr ltac:(fold R; lia)). fold R.
  rewrite (val_scaled_vin ab P lo lsh a Hab ltac:(lia) ltac:(fold A; lia)). fold A.
  fold (C08CrossOuter.Lval ab a lsh (length a)).
  assert (EA : P - (A - lo) * ab = E1 + z) by (unfold E1; lia).
  rewrite EA.
  assert (X1 : 2 ^ (E1 + z) * C08CrossOuter.Lval ab a lsh (length a)
               = 2 ^ (E1 + z) * drop + 2 ^ (E1 + g) * Vres rb rsz res + 2 ^ (E1 + (g + R * rb)) * K).
  { rewrite (pow2_add E1 z), (pow2_add E1 g), (pow2_add E1 (g + R * rb)) by lia.
    replace (2 ^ E1 * 2 ^ z * C08CrossOuter.Lval ab a lsh (length a))
      with (2 ^ E1 * (2 ^ z * C08CrossOuter.Lval ab a lsh (length a))) by ring.
    rewrite EV. ring. }
  replace (E1 + g) with (P - R * rb) in X1 by (unfold E1; ring).
  replace (E1 + (g + R * rb)) with P in X1 by (unfold E1; ring).
  rewrite X1.
  replace (2 ^ (P - R * rb) * Vres rb rsz res
           - (2 ^ (E1 + z) * drop + 2 ^ (P - R * rb) * Vres rb rsz res + 2 ^ P * K))
    with (- (2 ^ (E1 + z) * drop) + 2 ^ P * (- K)) by ring.
  rewrite tor_abs_add_mul by auto.
  assert (Hex : g <= lsh -> tor_abs P (- (2 ^ (E1 + z) * drop)) = 0).
  { intros Hgl. rewrite (Hd2 Hgl), Z.mul_0_r. apply tor_abs_0; auto. }
  split.
  - destruct Hzg as [Ez|Eg].
    + pose proof (tor_abs_le P (- (2 ^ (E1 + z) * drop)) HP0) as Hle.
      rewrite Z.abs_opp, Z.abs_mul in Hle.
      pose proof (pow2_pos (E1 + z) ltac:(lia)) as Hp. rewrite (Z.abs_eq (2 ^ (E1 + z))) in Hle by lia.
      replace (P - R * rb) with ((E1 + z) + g) by (unfold E1; lia).
      rewrite (pow2_add (E1 + z) g) by lia.
      assert (2 ^ (E1 + z) * Z.abs drop <= 2 ^ (E1 + z) * 2 ^ g) by (apply Z.mul_le_mono_nonneg_l; lia).
      lia.
    + rewrite Hex by lia. pose proof (pow2_pos (P - R * rb) ltac:(lia)). lia.
  - intros Hx. apply Hex. destruct Hzg; lia.
Qed.

End NegValue.

(* ---------- no overlap between the stream and res (or an empty a): carry, gap rounding, top phase ---------- *)

Section NegNone.
Variable wd : Z.
Variable kc : nat.
Variables rb ab : Z.
Hypothesis Hwd : 34 <= wd.
Hypothesis Hkc : (1 <= kc <= 8)%nat.
Hypothesis Hcap : wd - 2 <= 32 * (Z.of_nat kc - 1).
Hypothesis Hrb : 1 <= rb <= wd - 2.
Hypothesis Hab : 1 <= ab <= wd - 2.

Lemma none_final (a : list Z) (lsh lo : Z) (rsz re : nat) : hrlw wd a -> 0 <= lsh < ab -> lo < 0 ->
  (1 <= rsz)%nat -> (re <= rsz)%nat ->
  (zn rsz * rb <= - lo * ab /\ re = rsz) \/ (- lo * ab < zn rsz * rb /\ length a = 0%nat) ->
  let ac0 := car ab (vin a lsh) 0 (length a) in
  let c' := gapbits_phase wd 8 (Z.min (Z.max (- lo * ab - zn rsz * rb) 0) (32 * Z.of_nat kc)) ac0 in
  let out := fst (top_phase wd false rb 0 re (zeros rsz, c')) in
  length out = rsz /\
  exists z g, 0 <= z /\ 0 <= g /\ (z = 0 \/ g = 0) /\
    (zn (length a) - lo) * ab = zn rsz * rb + g - z /\
    C08CrossOuter.Final rb ab a lsh rsz z g out.
Proof.
  intros Ha Hl Hlo HR Hre Hcase ac0 c' out.
  assert (Hab1 : 1 <= ab) by lia. assert (Hrb1 : 1 <= rb) by lia.
  assert (Hac0 : Z.abs ac0 <= 2 ^ (wd - 2)) by (apply (car_vin_hrW wd ab Hab); auto).
  set (G := Z.max (- lo * ab - zn rsz * rb) 0) in *.
  assert (HG : 0 <= G) by (unfold G; lia).
  destruct (gapbits_spec wd Hwd kc G ac0 Hkc Hcap HG Hac0) as (S & ES & HS & Hc' & Hc0). cbv zeta in ES, HS, Hc', Hc0.
  fold c' in ES, Hc', Hc0.
  assert (Hc'1 : Z.abs c' <= 2 ^ (wd - 2) + 1) by lia.
  destruct (top_zero wd rb ltac:(lia) Hrb re (zeros rsz) c' ltac:(intros; apply nth_zeros) Hc'1) as [T1 T2].
  cbv zeta in T1, T2. fold out in T1, T2. rewrite zeros_length in T1.
  pose proof (Vres_top rb rsz re (zeros rsz) out c' Hrb1 Hre (zeros_length rsz) T1
                ltac:(intros; apply nth_zeros) T2) as HV.
  rewrite Vres_zeros, Z.add_0_l in HV.
  split; [exact T1|].
  pose proof (chain_sum ab Hab1 (vin a lsh) 0 (length a)) as HC. rewrite Z.add_0_r in HC. fold ac0 in HC.
  change (sumn (length a) (fun t => vin a lsh t * 2 ^ (zn t * ab))) with (C08CrossOuter.Lval ab a lsh (length a)) in HC.
  pose proof (digits_small ab Hab1 (dig ab (vin a lsh) 0) (length a) ltac:(intros; apply dig_range; auto)) as HD.
  set (Dlow := sumn (length a) (fun t => dig ab (vin a lsh) 0 t * 2 ^ (zn t * ab))) in *.
  assert (H0 : length a = 0%nat -> ac0 = 0 /\ Dlow = 0).
  { intros E. unfold ac0, Dlow. rewrite E. split; reflexivity. }
  set (A := zn (length a)) in *.
  assert (HA : 0 <= A) by (unfold A, zn; lia).
  assert (HAab : 0 <= A * ab) by (apply Z.mul_nonneg_nonneg; lia).
  assert (HRrb : 0 <= zn rsz * rb) by (apply Z.mul_nonneg_nonneg; unfold zn; lia).
  set (K := car rb zseq c' re) in *.
  destruct Hcase as [[Hge Ere]|[Hlt EA0]].
  - (* the whole of a lies below the precision of res *)
    subst re. rewrite Z.sub_diag, Z.mul_0_l in HV. change (2 ^ 0) with 1 in HV. rewrite Z.mul_1_l in HV.
    assert (EG : G = - lo * ab - zn rsz * rb) by (unfold G; lia).
    exists 0, (A * ab + G). split; [lia|]. split; [lia|]. split; [left; reflexivity|].
    split; [rewrite EG; ring|].
    unfold C08CrossOuter.Final. split; [exact T1|].
    exists (Dlow + 2 ^ (A * ab) * S), K. split.
    + unfold C08CrossOuter.dropok. split.
      * pose proof (pt_bound2 (A * ab) G Dlow S HAab HG HD HS) as Hb.
        rewrite pow2_add by assumption. lia.
      * intros Hgl.
        assert (EA0 : length a = 0%nat).
        { destruct (length a) as [|n] eqn:E; [reflexivity|]. exfalso.
          assert (1 * ab <= A * ab) by (apply Z.mul_le_mono_nonneg_r; unfold A, zn; lia). lia. }
        destruct (H0 EA0) as [E1 E2]. specialize (Hc0 E1). rewrite E2.
        assert (S = 0) by (rewrite E1, Hc0 in ES; lia). subst S. ring.
    + change (2 ^ 0) with 1. rewrite !Z.mul_1_l, HC, HV.
      rewrite (pow2_add (A * ab) G), (pow2_add (A * ab + G) (zn rsz * rb)) by lia.
      rewrite (pow2_add (A * ab) G) by assumption. rewrite ES at 1. ring.
  - (* a is empty *)
    destruct (H0 EA0) as [E1 E2]. specialize (Hc0 E1).
    assert (EA : A = 0) by (unfold A; rewrite EA0; reflexivity).
    exists (zn rsz * rb - - lo * ab), 0. split; [lia|]. split; [lia|]. split; [right; reflexivity|].
    split; [rewrite EA; ring|].
    unfold C08CrossOuter.Final. split; [exact T1|].
    exists 0, K. split.
    + unfold C08CrossOuter.dropok. split; [cbn; lia|reflexivity].
    + rewrite EA0. change (C08CrossOuter.Lval ab a lsh 0) with 0.
      rewrite HV, Hc0. change (2 ^ 0) with 1.
      assert (Hre0 : 0 <= zn re * rb) by (apply Z.mul_nonneg_nonneg; unfold zn; lia).
      assert (Hre1 : 0 <= (zn rsz - zn re) * rb) by (apply Z.mul_nonneg_nonneg; unfold zn; lia).
      replace (0 + zn rsz * rb) with ((zn rsz - zn re) * rb + zn re * rb) by ring.
      rewrite pow2_add by assumption. ring.
Qed.

End NegNone.

(* ---------- the value theorem for a negative offset ---------- *)

Section NegThm.
Variable wd : Z.
Variable kc : nat.
Variables rb ab : Z.
Hypothesis Hwd : 34 <= wd.
Hypothesis Hkc : (1 <= kc <= 8)%nat.
Hypothesis Hcap : wd - 2 <= 32 * (Z.of_nat kc - 1).
Hypothesis Hrb : 1 <= rb <= wd - 2.
Hypothesis Hab : 1 <= ab <= wd - 2.

(* statement with the scaling exponent large enough for the whole stream *)
Lemma normalize_cross_c_neg_big (off : Z) (a r0 : list Z) : off < 0 -> hrlw wd a ->
  exists out, normalize_cross_c wd (32 * Z.of_nat kc) rb ab off a r0 = Some out /\ length out = length r0 /\
    forall P, zn (length r0) * rb + (zn (length a) - off / ab) * ab <= P ->
      let D := tor_abs P (val_scaled P rb out - val_scaled (P + off) ab a) in
      D <= 2 ^ (P - zn (length r0) * rb) /\ (zn (length a) * ab - off <= zn (length r0) * rb -> D = 0).
Proof.
  intros Hoff Ha.
  assert (Hab1 : 1 <= ab) by lia. assert (Hrb1 : 1 <= rb) by lia.
  unfold normalize_cross_c.
  destruct (split_offset ab off) as [lsh lo] eqn:Esp.
  rewrite (split_offset_spec ab off Hab1) in Esp.
  assert (Hl : 0 <= lsh < ab) by (injection Esp as <- _; apply Z.mod_pos_bound; lia).
  assert (Elo : lo = off / ab) by (injection Esp as _ <-; reflexivity).
  assert (Eoff : lo * ab + lsh = off).
  { injection Esp as <- <-. pose proof (Z.div_mod off ab ltac:(lia)). lia. }
  assert (Hlo : lo < 0).
  { destruct (Z_lt_le_dec lo 0) as [|Hge]; [assumption|]. exfalso.
    assert (0 <= lo * ab) by (apply Z.mul_nonneg_nonneg; lia). clear - H Eoff Hl Hoff. lia. }
  clear Esp. rewrite <- Elo. clear Elo.
  set (rsz := length r0). set (asz := length a).
  set (res_end := Z.to_nat (clampZ (- lo * ab) 0 (zn rsz * rb) / rb)).
  set (res_start := Z.to_nat (div_ceil (clampZ (zn asz * ab - lo * ab) 0 (zn rsz * rb)) rb)).
  set (a_end := Z.to_nat (clampZ (lo * ab) 0 (zn asz * ab) / ab)).
  set (a_start := Z.to_nat (div_ceil (clampZ (zn rsz * rb + lo * ab) 0 (zn asz * ab)) ab)).
  set (take := (zn asz * ab - clampZ (zn rsz * rb + lo * ab) 0 (zn asz * ab)) mod ab).
  set (m := (zn rsz * rb - clampZ (zn asz * ab - lo * ab) 0 (zn rsz * rb)) mod rb).
  assert (HE : 0 < - lo * ab) by (apply Z.mul_pos_pos; lia).
  (* the conclusion from the final invariant *)
  assert (Hconcl : forall out z g, 0 <= z -> 0 <= g -> z = 0 \/ g = 0 ->
    (zn (length a) - lo) * ab = zn rsz * rb + g - z -> C08CrossOuter.Final rb ab a lsh rsz z g out ->
    length out = length r0 /\
    forall P, zn (length r0) * rb + (zn (length a) - lo) * ab <= P ->
      let D := tor_abs P (val_scaled P rb out - val_scaled (P + off) ab a) in
      D <= 2 ^ (P - zn (length r0) * rb) /\ (zn (length a) * ab - off <= zn (length r0) * rb -> D = 0)).
  { intros out z g Hz Hg Hzg Hgeo HF. split; [apply HF|].
    intros P HP. rewrite <- Eoff.
    apply (final_value_neg rb ab Hrb1 Hab1 a lsh Hl rsz z g Hz Hg Hzg lo P out Hlo Hgeo HF). exact HP. }
  assert (Ers0 : rsz = 0%nat -> res_start = 0%nat).
  { intros ER0. unfold res_start. rewrite ER0. change (zn 0) with 0. rewrite Z.mul_0_l.
    unfold clampZ. replace (Z.max 0 (Z.min (zn asz * ab - lo * ab) 0)) with 0 by (clear; lia).
    unfold div_ceil. rewrite Z.div_small by (clear - Hrb1; lia). reflexivity. }
  assert (HTab : 0 <= (zn asz - lo) * ab) by (apply Z.mul_nonneg_nonneg; unfold zn; clear - Hlo Hab1; lia).
  assert (HAab : 0 <= zn asz * ab) by (apply Z.mul_nonneg_nonneg; unfold zn; clear - Hab1; lia).
  destruct (Nat.eq_dec rsz 0) as [ER0|ER0].
  { (* res is empty *)
    rewrite (Ers0 ER0). cbn [Nat.eqb]. exists (zeros rsz). split; [reflexivity|]. split; [apply zeros_length|].
    intros P HP. rewrite ER0 in HP |- *. change (zn 0) with 0 in HP |- *. rewrite Z.mul_0_l, Z.sub_0_r.
    assert (HP0 : 0 <= P) by (clear - HP HTab; lia).
    split; [apply tor_abs_le_unit; exact HP0|].
    intros Hx. exfalso. clear - Hx HAab Hoff. lia. }
  clear Ers0.
  assert (HR1 : (1 <= rsz)%nat) by (clear - ER0; lia).
  destruct (Z_le_gt_dec (zn rsz * rb) (- lo * ab)) as [Hno|Hov'];
    [|apply Z.gt_lt in Hov'; rename Hov' into Hov; destruct (Nat.eq_dec asz 0) as [EA0|EA0]].
  - (* no overlap *)
    destruct (cross_geom_neg_none rb ab lo asz rsz Hrb1 Hab1 Hlo HR1 (or_introl Hno)) as (G1 & G2 & G3 & G4 & G5).
    fold a_start in G1. fold a_end in G2. fold res_start in G3. fold res_end in G4, G5.
    specialize (G4 Hno).
    destruct (Nat.eqb_spec res_start 0) as [E|_]; [contradiction|].
    rewrite G1, G2. cbn [Nat.sub seq fold_left Nat.eqb andb c_res c_acarry].
    destruct (Z.ltb_spec lo 0) as [_|]; [|lia].
    destruct (Nat.eqb_spec res_end 0) as [E|_]; [clear - E G4 HR1; lia|].
    rewrite Nat.sub_0_r. rewrite (carry_phase_carW wd ab Hab lsh a asz asz Hl Ha).
    pose proof (car_lowW ab lsh a asz (le_n _)) as CL. fold asz in CL. rewrite CL. clear CL.
    destruct (none_final wd kc rb ab Hwd Hkc Hcap Hrb Hab a lsh lo rsz res_end Ha Hl Hlo HR1 G5
                (or_introl (conj Hno G4))) as (L & z & g & Hz & Hg & Hzg & Hgeo & HF).
    cbv zeta in L, HF. fold asz in L, HF.
    eexists. split; [reflexivity|]. apply (Hconcl _ z g Hz Hg Hzg Hgeo HF).
  - (* a is empty *)
    destruct (cross_geom_neg_none rb ab lo asz rsz Hrb1 Hab1 Hlo HR1 (or_intror EA0)) as (G1 & G2 & G3 & _ & G5).
    fold a_start in G1. fold a_end in G2. fold res_start in G3. fold res_end in G5.
    destruct (Nat.eqb_spec res_start 0) as [E|_]; [contradiction|].
    rewrite G1, G2. cbn [Nat.sub seq fold_left Nat.eqb andb c_res c_acarry].
    destruct (Z.ltb_spec lo 0) as [_|]; [|lia].
    rewrite Nat.sub_0_r. rewrite (carry_phase_carW wd ab Hab lsh a asz asz Hl Ha).
    pose proof (car_lowW ab lsh a asz (le_n _)) as CL. fold asz in CL. rewrite CL. clear CL.
    destruct (none_final wd kc rb ab Hwd Hkc Hcap Hrb Hab a lsh lo rsz res_end Ha Hl Hlo HR1 G5
                (or_intror (conj Hov EA0))) as (L & z & g & Hz & Hg & Hzg & Hgeo & HF).
    cbv zeta in L, HF. fold asz in L, HF.
    destruct (Nat.eqb_spec res_end 0) as [E|_].
    + rewrite E in HF. cbn [top_phase seq fold_left fst] in HF.
      eexists. split; [reflexivity|]. apply (Hconcl _ z g Hz Hg Hzg Hgeo HF).
    + eexists. split; [reflexivity|]. apply (Hconcl _ z g Hz Hg Hzg Hgeo HF).
  - (* the stream overlaps res *)
    pose proof (cross_geom_neg rb ab lo asz rsz Hrb1 Hab1 Hlo) as G. cbv zeta in G.
    fold res_start a_start take m a_end res_end in G.
    destruct (G Hov ltac:(lia)) as (z & g & Hz & Hg & Hzg & Hgeo & Hast & Eaend & Eg & Htake & Hm & Hrs & Ez & Htk & Hzp & Erend).
    clear G. clearbody res_start a_start take m a_end res_end.
    destruct (Nat.eqb_spec res_start 0) as [E|_]; [lia|].
    cbn [c_res c_anorm c_acarry c_rcarry c_atake c_racc c_rlimb].
    set (a_out := (asz - a_start)%nat) in *.
    rewrite (carry_phase_carW wd ab Hab lsh a asz a_out Hl Ha).
    pose proof (car_lowW ab lsh a a_out ltac:(unfold a_out, asz; lia)) as CL. fold asz in CL. rewrite CL. clear CL.
    set (ac0 := car ab (vin a lsh) 0 a_out).
    assert (Hac0 : Z.abs ac0 <= 2 ^ (wd - 2)) by (apply (car_vin_hrW wd ab Hab); auto).
    pose proof (chain_sum ab Hab1 (vin a lsh) 0 a_out) as HC. rewrite Z.add_0_r in HC. fold ac0 in HC.
    change (sumn a_out (fun t => vin a lsh t * 2 ^ (zn t * ab))) with (Lval ab a lsh a_out) in HC.
    pose proof (digits_small ab Hab1 (dig ab (vin a lsh) 0) a_out ltac:(intros; apply dig_range; auto)) as HD.
    set (Dlow := sumn a_out (fun t => dig ab (vin a lsh) 0 t * 2 ^ (zn t * ab))) in *.
    assert (H0 : a_out = 0%nat -> ac0 = 0 /\ Dlow = 0).
    { intros E. unfold ac0, Dlow. rewrite E. split; reflexivity. }
    clearbody ac0 Dlow.
    set (fuel := (Z.to_nat ab + Z.to_nat rb + 4)%nat).
    assert (Hfuel : ab <= Z.of_nat fuel) by (unfold fuel; clear - Hab1; lia). clearbody fuel.
    set (s0 := {| c_res := zeros rsz; c_anorm := 0; c_acarry := ac0; c_rcarry := 0; c_atake := 0;
                  c_racc := rb; c_rlimb := (res_start - 1)%nat |}).
    assert (Hgeo' : (zn (length a) - lo) * ab = zn rsz * rb + g - z) by (fold asz; exact Hgeo).
    assert (Hwd5 : 5 <= wd) by lia.
    subst a_end. rewrite Nat.sub_0_r.
    match goal with |- context [fold_left ?f (seq 0 ?n) ?init] =>
      pose proof (fold_left_seq_ind f (fun j (acc : cstate * bool * bool) =>
        snd acc = false /\
        (snd (fst acc) = true -> Last wd rb ab a lsh rsz z g lo (fst (fst acc))) /\
        (snd (fst acc) = false -> (j < a_start)%nat /\
           ((j = 0%nat /\ fst (fst acc) = s0) \/
            ((1 <= j)%nat /\ OuterW wd rb ab a lsh rsz z g (a_out + j) (fst (fst acc)))))) n init) as HI
    end.
    destruct HI as (I1 & I2 & I3).
    + cbn [fst snd]. split; [reflexivity|]. split; [discriminate|]. intros _. split; [lia|]. left. split; reflexivity.
    + intros j [[s brk] bad] Hj (Ibad & Ibrk & Inb). cbn [fst snd] in Ibad, Ibrk, Inb. subst bad.
      destruct brk; cbn [orb].
      * cbn [fst snd]. split; [reflexivity|]. split; [intros _; apply Ibrk; reflexivity|discriminate].
      * destruct (Inb eq_refl) as [_ Inb']. clear Ibrk Inb.
        replace (a_start - j - 1)%nat with (length a - 1 - (a_out + j))%nat by (clear - Hj Hast; unfold a_out, asz in *; lia).
        set (t := (a_out + j)%nat).
        assert (Ht : (t < length a)%nat) by (clear - Hj Hast; unfold t, a_out, asz in *; lia).
        (* common ending: from the entry invariant of the actual inner-loop state *)
        assert (Hfin : forall st,
          EntryW wd rb ab a lsh rsz z g t st ->
          let r := cross_inner wd fuel rb ab (length a - 1 - t) st in
          let acc' := let (s3, c) := r in
                      match c with InnerDone => (s3, false, false) | OuterBreak => (s3, true, false)
                                 | Fuel => (s3, false, true) end in
          snd acc' = false /\
          (snd (fst acc') = true -> Last wd rb ab a lsh rsz z g lo (fst (fst acc'))) /\
          (snd (fst acc') = false -> (S j < a_start)%nat /\
             ((S j = 0%nat /\ fst (fst acc') = s0) \/
              ((1 <= S j)%nat /\ OuterW wd rb ab a lsh rsz z g (a_out + S j) (fst (fst acc')))))).
        { intros st HEn. cbv zeta.
          destruct (Nat.eq_dec (S t) (length a)) as [Elast|Enl].
          - (* the last digit *)
            replace (length a - 1 - t)%nat with 0%nat by (clear - Elast; lia).
            destruct (last_step wd rb ab Hrb Hab a lsh rsz z g lo Hg Hlo Hgeo' t st fuel HEn Elast Hfuel) as [C1 C2].
            cbv zeta in C1, C2.
            destruct (cross_inner wd fuel rb ab 0 st) as [s3 o]. cbn [fst snd] in *. subst o.
            cbn [fst snd]. split; [reflexivity|]. split; [intros _; exact C2|discriminate].
          - destruct (entry_step_neg wd rb ab Hwd5 Hrb Hab a lsh rsz z g lo Hg Hlo Hgeo' t st fuel HEn
                        ltac:(clear - Ht Enl; lia) Hfuel) as [C1 C2].
            cbv zeta in C1, C2.
            destruct (cross_inner wd fuel rb ab (length a - 1 - t) st) as [s3 o]. cbn [fst snd] in *. subst o.
            cbn [fst snd]. split; [reflexivity|]. split; [discriminate|]. intros _.
            split; [clear - Enl Hast Hj; unfold t, a_out, asz in *; lia|].
            right. split; [lia|]. replace (a_out + S j)%nat with (S t) by (unfold t; lia). exact C2. }
        destruct Inb' as [[Ej Es]|[Hj1 HO]].
        -- (* first iteration *)
           subst j s.
           assert (Et : t = a_out) by (unfold t; lia). clearbody t. subst t.
           cbn [Nat.eqb]. unfold s0. cbn [c_res c_anorm c_acarry c_rcarry c_atake c_racc c_rlimb].
           destruct (Z.eqb_spec take 0) as [Et0|Et0]; cbn [negb].
           ++ assert (Eg0 : g = zn a_out * ab) by (rewrite Eg, Et0; ring).
              destruct (Z.eqb_spec m 0) as [Em0|Em0]; cbn [negb].
              ** pose proof (first_outerW wd rb ab Hab a lsh Hl rsz z g Hz Hg a_out res_start 0 rb ac0 Dlow 0 0
                   Hrs ltac:(lia) ltac:(lia) ltac:(rewrite <- Ez, Em0; ring) Eg0 HC HD Hac0
                   ltac:(intros E; apply H0; exact E)) as HO0.
                 pose proof (next_entryW wd rb ab Hrb Hab a Ha lsh Hl rsz z g Hz Hg a_out _ HO0 Ht) as HEn.
                 cbv zeta in HEn. cbn [c_res c_anorm c_acarry c_rcarry c_atake c_racc c_rlimb] in HEn.
                 destruct (middle_step wd true ab lsh 0 (nthZ a (length a - 1 - a_out)) ac0) as [an ac].
                 cbn [fst snd] in HEn. apply (Hfin _ HEn).
              ** pose proof (first_outerW wd rb ab Hab a lsh Hl rsz z g Hz Hg a_out res_start m (rb - m) ac0 Dlow 0 0
                   Hrs Hm eq_refl Ez Eg0 HC HD Hac0 ltac:(intros E; apply H0; exact E)) as HO0.
                 pose proof (next_entryW wd rb ab Hrb Hab a Ha lsh Hl rsz z g Hz Hg a_out _ HO0 Ht) as HEn.
                 cbv zeta in HEn. cbn [c_res c_anorm c_acarry c_rcarry c_atake c_racc c_rlimb] in HEn.
                 destruct (middle_step wd true ab lsh 0 (nthZ a (length a - 1 - a_out)) ac0) as [an ac].
                 cbn [fst snd] in HEn. apply (Hfin _ HEn).
           ++ destruct (Htk Et0) as [Ez0 Ers]. subst res_start.
              pose proof (first_takeW wd rb ab Hrb Hab a Ha lsh Hl rsz z g Hg a_out take ac0 Dlow
                   ltac:(lia) Ez0 Eg ltac:(lia) Ht HC HD Hac0 H0) as HEn.
              cbv zeta in HEn.
              destruct (middle_step wd true ab lsh 0 (nthZ a (length a - 1 - a_out)) ac0) as [an ac].
              cbn [fst snd] in HEn. apply (Hfin _ HEn).
        -- (* later iterations *)
           destruct (Nat.eqb_spec j 0) as [|_]; [lia|].
           pose proof (next_entryW wd rb ab Hrb Hab a Ha lsh Hl rsz z g Hz Hg t s HO Ht) as HEn.
           cbv zeta in HEn.
           destruct (middle_step wd true ab lsh 0 (nthZ a (length a - 1 - t)) (c_acarry s)) as [an ac].
           cbn [fst snd] in HEn. apply (Hfin _ HEn).
    + destruct (fold_left _ (seq 0 a_start) (s0, false, false)) as [[s brk] bad].
      cbn [fst snd] in I1, I2, I3. subst bad.
      assert (HL : Last wd rb ab a lsh rsz z g lo s).
      { destruct brk; [apply I2; reflexivity|]. destruct (I3 eq_refl) as [Hlt _]. lia. }
      clear I2 I3.
      destruct (Nat.eqb_spec a_start 0) as [E|_]; [lia|]. cbn [andb].
      assert (Ere : res_end = c_rlimb s).
      { destruct HL as (_ & _ & Hpos & _). rewrite Erend.
        assert (Eq : - lo * ab / rb = zn (c_rlimb s)).
        { symmetry. apply (Z.div_unique (- lo * ab) rb (zn (c_rlimb s)) (- lo * ab - zn (c_rlimb s) * rb)); clear - Hpos Hrb1; lia. }
        rewrite Eq. unfold zn. clear. lia. }
      pose proof (last_final wd rb ab Hwd5 Hrb a lsh rsz z g lo Hg s _ HL eq_refl) as HF.
      rewrite <- Ere in HF.
      destruct (Nat.eqb_spec res_end 0) as [E|_].
      * rewrite E in HF. cbn [top_phase seq fold_left fst] in HF.
        eexists. split; [reflexivity|]. apply (Hconcl _ z g Hz Hg Hzg Hgeo' HF).
      * eexists. split; [reflexivity|]. apply (Hconcl _ z g Hz Hg Hzg Hgeo' HF).
Qed.

End NegThm.

(* ---------- the value theorem for every offset ---------- *)

Section AllOffsets.
Variable wd : Z.
Variable kc : nat.
Variables rb ab : Z.
Hypothesis Hwd : 34 <= wd.
Hypothesis Hkc : (1 <= kc <= 8)%nat.
Hypothesis Hcap : wd - 2 <= 32 * (Z.of_nat kc - 1).
Hypothesis Hrb : 1 <= rb <= wd - 2.
Hypothesis Hab : 1 <= ab <= wd - 2.

Theorem normalize_cross_c_value_neg (off : Z) (a r0 : list Z) : off < 0 ->
  Forall (fun x => Z.abs x <= 2 ^ (wd - 2)) a ->
  exists out, normalize_cross_c wd (32 * Z.of_nat kc) rb ab off a r0 = Some out /\ length out = length r0 /\
    forall P, zn (length r0) * rb + zn (length a) * ab + Z.abs off <= P ->
      let D := tor_abs P (val_scaled P rb out - val_scaled (P + off) ab a) in
      D <= 2 ^ (P - zn (length r0) * rb) /\ (zn (length a) * ab - off <= zn (length r0) * rb -> D = 0).
Proof.
  intros Hoff HF. apply hrlw_of_Forall in HF.
  destruct (normalize_cross_c_neg_big wd kc rb ab Hwd Hkc Hcap Hrb Hab off a r0 Hoff HF) as (out & E & L & HV).
  exists out. split; [exact E|]. split; [exact L|].
  intros P HP.
  assert (HRrb : 0 <= zn (length r0) * rb) by (apply Z.mul_nonneg_nonneg; unfold zn; lia).
  assert (HAab : 0 <= zn (length a) * ab) by (apply Z.mul_nonneg_nonneg; unfold zn; lia).
  pose proof (Z.div_mod off ab ltac:(lia)) as Hdm. pose proof (Z.mod_pos_bound off ab ltac:(lia)) as Hmb.
  assert (Hbig : zn (length r0) * rb + (zn (length a) - off / ab) * ab <= P + ab).
  { rewrite Z.mul_sub_distr_r. clear - HP Hdm Hmb Hoff. lia. }
  apply (value_scale_down P ab rb ab off (length r0) a out); [lia|lia|lia|lia|exact L|lia|lia|].
  apply (HV (P + ab)). exact Hbig.
Qed.

Theorem normalize_cross_c_value (off : Z) (a r0 : list Z) :
  Forall (fun x => Z.abs x <= 2 ^ (wd - 2)) a ->
  exists out, normalize_cross_c wd (32 * Z.of_nat kc) rb ab off a r0 = Some out /\ length out = length r0 /\
    forall P, zn (length r0) * rb + zn (length a) * ab + Z.abs off <= P ->
      let D := tor_abs P (val_scaled P rb out - val_scaled (P + off) ab a) in
      D <= 2 ^ (P - zn (length r0) * rb) /\ (zn (length a) * ab - off <= zn (length r0) * rb -> D = 0).
Proof.
  intros HF. destruct (Z_lt_le_dec off 0) as [Hneg|Hpos].
  - apply normalize_cross_c_value_neg; assumption.
  - destruct (normalize_cross_c_value_pos wd (32 * Z.of_nat kc) rb ab Hrb Hab off a r0 Hpos HF) as (out & E & L & HV).
    exists out. split; [exact E|]. split; [exact L|]. intros P HP. apply HV. rewrite Z.abs_eq in HP by exact Hpos. exact HP.
Qed.

End AllOffsets.

(* ---------- the two routines of the library ---------- *)

(* vec_znx_normalize_cross_base2k (i64 words, gap rounding capped at 128 bits): every offset *)
Theorem normalize_cross_value_all (rb ab : Z) : 1 <= rb <= 62 -> 1 <= ab <= 62 ->
  forall (off : Z) (a r0 : list Z), hr62 a ->
  exists out, normalize_cross 64 rb ab off a r0 = Some out /\ length out = length r0 /\
    forall P, zn (length r0) * rb + zn (length a) * ab + Z.abs off <= P ->
      let D := tor_abs P (val_scaled P rb out - val_scaled (P + off) ab a) in
      D <= 2 ^ (P - zn (length r0) * rb) /\ (zn (length a) * ab - off <= zn (length r0) * rb -> D = 0).
Proof.
  intros Hrb Hab off a r0 Ha. rewrite normalize_cross_is_c128.
  apply (normalize_cross_c_value 64 4 rb ab ltac:(lia) ltac:(lia) ltac:(cbn; lia) ltac:(lia) ltac:(lia) off a r0).
  exact Ha.
Qed.

(* vec_znx_normalize_cross_big_base2k of the NTT120 family (i128 words, cap 192 bits): every offset *)
Theorem normalize_cross_big_value (rb ab : Z) : 1 <= rb <= 126 -> 1 <= ab <= 126 ->
  forall (off : Z) (a r0 : list Z), Forall (fun x => Z.abs x <= 2 ^ 126) a ->
  exists out, normalize_cross_big 128 rb ab off a r0 = Some out /\ length out = length r0 /\
    forall P, zn (length r0) * rb + zn (length a) * ab + Z.abs off <= P ->
      let D := tor_abs P (val_scaled P rb out - val_scaled (P + off) ab a) in
      D <= 2 ^ (P - zn (length r0) * rb) /\ (zn (length a) * ab - off <= zn (length r0) * rb -> D = 0).
Proof.
  intros Hrb Hab off a r0 Ha. rewrite normalize_cross_big_is_c192.
  apply (normalize_cross_c_value 128 6 rb ab ltac:(lia) ltac:(lia) ltac:(cbn; lia) ltac:(lia) ltac:(lia) off a r0).
  exact Ha.
Qed.

(* the dispatcher of the NTT120 family: every pair of radices, every offset *)
Theorem normalize_big_value (rb ab : Z) : 1 <= rb <= 126 -> 1 <= ab <= 126 ->
  forall (off : Z) (a r0 : list Z), Forall (fun x => Z.abs x <= 2 ^ 126) a ->
  exists out, normalize_big 128 rb ab off a r0 = Some out /\ length out = length r0 /\
    forall P, zn (length r0) * rb + zn (length a) * ab + Z.abs off <= P ->
      let D := tor_abs P (val_scaled P rb out - val_scaled (P + off) ab a) in
      D <= 2 ^ (P - zn (length r0) * rb) /\ (zn (length a) * ab - off <= zn (length r0) * rb -> D = 0).
Proof.
  intros Hrb Hab off a r0 Ha. unfold normalize_big. destruct (Z.eqb_spec rb ab) as [E|E].
  - subst ab. destruct (normalize_inter_value_128 rb off a r0 Hrb Ha) as (L & _ & _ & V).
    exists (normalize_inter_c 128 128 rb off a r0). split; [reflexivity|]. split; [exact L|exact V].
  - apply normalize_cross_big_value; assumption.
Qed.

(* the dispatcher of the i64 family: every pair of radices, every offset *)
Theorem normalize_value_all (rb ab : Z) : 1 <= rb <= 62 -> 1 <= ab <= 62 ->
  forall (off : Z) (a r0 : list Z), hr62 a ->
  exists out, normalize 64 rb ab off a r0 = Some out /\ length out = length r0 /\
    forall P, zn (length r0) * rb + zn (length a) * ab + Z.abs off <= P ->
      let D := tor_abs P (val_scaled P rb out - val_scaled (P + off) ab a) in
      D <= 2 ^ (P - zn (length r0) * rb) /\ (zn (length a) * ab - off <= zn (length r0) * rb -> D = 0).
Proof.
  intros Hrb Hab off a r0 Ha. unfold normalize. destruct (Z.eqb_spec rb ab) as [E|E].
  - subst ab. destruct (normalize_inter_value_64 rb off a r0 Hrb Ha) as (L & _ & _ & V).
    exists (normalize_inter 64 rb off a r0). split; [reflexivity|]. split; [exact L|exact V].
  - apply normalize_cross_value_all; assumption.
Qed.
