(* C08, cross-radix normalisation at any word width wd (radices 1 <= rb, ab <= wd - 2, headroom 2^(wd-2)):
   the inner repacking loop.  Port of Proofs/C08CrossInner.v (which fixes wd = 64). *)
From PV Require Import Base.MachineInt Model.Znx Model.Limbs
  Proofs.ZnxDigit Proofs.C08Steps Proofs.C08Chain Proofs.C08Loops Proofs.C08CrossInner
  Proofs.C08WChain Proofs.C08WLoops.
Open Scope Z_scope.

Lemma pow_wd1 (wd : Z) : 3 <= wd -> 2 ^ (wd - 1) = 2 * 2 ^ (wd - 2).
Proof. intros H. replace (wd - 2) with (wd - 1 - 1) by lia. apply pow2_split; lia. Qed.

(* peel a balanced w-bit piece off s and add it at bit `scale` of a limb that is clean above `scale` *)
Lemma extractW (wd w scale r s : Z) : 3 <= wd -> 1 <= w -> 0 <= scale -> scale + w <= wd - 2 ->
  Z.abs s <= 2 ^ (wd - 2) -> Z.abs r <= 2 ^ scale - 1 ->
  extract_digit_addmul wd w scale r s = (r + wrap w s * 2 ^ scale, bdiv w s) /\
  Z.abs (r + wrap w s * 2 ^ scale) <= 2 ^ (scale + w) - 1.
Proof.
  intros Hwd Hw Hs Hsw Hs62 Hr.
  pose proof (pow_wd1 wd Hwd) as Hw1.
  pose proof (wrap_range w s Hw) as [D1 D2].
  pose proof (pow2_pos scale Hs) as Hp.
  pose proof (pow2_pos (w - 1) ltac:(lia)) as Hpw.
  assert (E : 2 ^ (scale + w) = 2 ^ scale * (2 * 2 ^ (w - 1))).
  { rewrite pow2_add by lia. f_equal. apply pow2_split; lia. }
  assert (Hle : 2 ^ (scale + w) <= 2 ^ (wd - 2)) by (apply pow2_le_mono; lia).
  assert (Hb : Z.abs (r + wrap w s * 2 ^ scale) <= 2 ^ (scale + w) - 1) by (rewrite E; nia).
  split; [|exact Hb].
  unfold extract_digit_addmul.
  destruct (digit_carry_ideal wd w s ltac:(lia)) as [E1 E2].
  { pose proof (pow2_pos (w - 1) ltac:(lia)). lia. }
  cbv zeta. rewrite E2, E1. f_equal.
  assert (Hd : in_range wd (wrap w s * 2 ^ scale)).
  { unfold in_range. rewrite Hw1. rewrite E in Hle. nia. }
  rewrite shl_exact by (auto; lia). unfold wadd. apply wrap_id; [lia|].
  unfold in_range. rewrite Hw1. lia.
Qed.


Section Inner.
Variable wd : Z.
Variables rb ab : Z.
Hypothesis Hrb : 1 <= rb <= wd - 2.
Hypothesis Hab : 1 <= ab <= wd - 2.
Variable rsz : nat.

Local Notation Vres := (C08CrossInner.Vres rb rsz).
Local Notation Fpos := (C08CrossInner.Fpos rb rsz).
Local Notation shape := (C08CrossInner.shape rb rsz).
Local Notation post := (C08CrossInner.post rb rsz).
Let Hwd : 3 <= wd. Proof. lia. Qed.

Variable a_limb : nat.

Definition preW (s : cstate) : Prop :=
  shape s /\ 0 < c_racc s <= rb /\ 0 < c_atake s <= ab /\ Z.abs (c_anorm s) <= 2 ^ c_atake s /\
  Z.abs (c_acarry s) <= 2 ^ (wd - 2) /\ c_rcarry s = 0 /\
  (a_limb = 0%nat -> Fpos s + c_atake s = zn rsz * rb).

Lemma Fpos_nonnegW (s : cstate) : (c_rlimb s < rsz)%nat -> 0 <= c_racc s <= rb -> 0 <= Fpos s.
Proof. intros Hl Hr. unfold Fpos, zn. nia. Qed.

Lemma weight_atW (s : cstate) : (c_rlimb s < rsz)%nat -> 0 <= c_racc s <= rb ->
  2 ^ (rb - c_racc s) * 2 ^ ((zn rsz - 1 - zn (c_rlimb s)) * rb) = 2 ^ Fpos s.
Proof.
  intros Hl Hr. unfold Fpos. rewrite <- pow2_add by (unfold zn; nia). f_equal. ring.
Qed.

(* interval form of a magnitude bound: friendlier to lia than Z.abs (no case split) *)
Local Notation absl H := (proj2 (Z.abs_le _ _) H).

Theorem cross_inner_specW : forall (fuel : nat) (s : cstate),
  preW s -> c_atake s <= Z.of_nat fuel ->
  post s (fst (cross_inner wd fuel rb ab a_limb s)) (snd (cross_inner wd fuel rb ab a_limb s)).
Proof.
  induction fuel as [|f IH]; intros s Hpre Hf.
  { destruct Hpre as (_ & _ & Ha & _). lia. }
  destruct Hpre as (Hsh & Hr & Ha & Hn & Hc & Hrc & Hal).
  destruct Hsh as (Sl & Sr & Sz & Sb).
  apply Z.abs_le in Hn, Hc, Sb.
  cbn [cross_inner]. unfold post.
  set (w := Z.min (Z.min ab (c_atake s)) (c_racc s)).
  assert (Hw : 1 <= w /\ w <= c_atake s /\ w <= c_racc s /\ (w = c_atake s \/ w = c_racc s))
    by (unfold w; clear - Ha Hr Hab; lia).
  destruct (Z.eqb_spec w 0) as [E|_]; [clear - E Hw; lia|].
  clearbody w.
  set (scale := rb - c_racc s).
  set (r := nthZ (c_res s) (c_rlimb s)) in *.
  assert (HM2 : 2 <= 2 ^ (wd - 2)).
  { assert (2 ^ 1 <= 2 ^ (wd - 2)) by (apply pow2_le_mono; lia). exact H. }
  assert (Hn62 : Z.abs (c_anorm s) <= 2 ^ (wd - 2)).
  { assert (2 ^ c_atake s <= 2 ^ (wd - 2)) by (apply pow2_le_mono; lia). apply Z.abs_le. clear - H Hn. lia. }
  destruct (extractW wd w scale r (c_anorm s) Hwd ltac:(clear - Hw; lia) ltac:(unfold scale; clear - Hr; lia)
              ltac:(unfold scale; clear - Hw Hrb; lia) Hn62 (absl Sb)) as [Ex Hrb'].
  rewrite Ex. clear Ex Hn62.
  set (d := wrap w (c_anorm s)) in *. set (n1 := bdiv w (c_anorm s)).
  pose proof (wrap_bdiv w (c_anorm s) ltac:(clear - Hw; lia)) as Hdec. fold d n1 in Hdec.
  pose proof (wrap_range w (c_anorm s) ltac:(clear - Hw; lia)) as Hdr. fold d in Hdr.
  assert (Hn1 : Z.abs n1 <= 2 ^ (c_atake s - w)) by (apply rest_bound; [clear - Hw; lia|exact (absl Hn)]).
  clearbody d n1.
  cbn [c_res c_anorm c_acarry c_rcarry c_atake c_racc c_rlimb].
  set (atake1 := c_atake s - w). set (racc1 := c_racc s - w).
  set (res1 := upd (c_res s) (c_rlimb s) (r + d * 2 ^ scale)).
  assert (Hz : 0 <= atake1 /\ 0 <= racc1 /\ (atake1 = 0 \/ racc1 = 0) /\ atake1 < c_atake s)
    by (unfold atake1, racc1; clear - Hw; lia).
  assert (L1 : length res1 = rsz) by (unfold res1; rewrite upd_length; exact Sl).
  pose proof (Fpos_nonnegW s Sr ltac:(clear - Hr; lia)) as HF0.
  assert (V1 : Vres res1 = Vres (c_res s) + 2 ^ Fpos s * d).
  { unfold res1. rewrite Vres_upd by auto. fold r.
    rewrite <- (weight_atW s Sr ltac:(clear - Hr; lia)). fold scale. ring. }
  assert (N1r : nthZ res1 (c_rlimb s) = r + d * 2 ^ scale).
  { unfold res1. rewrite nth_upd, Sl. rewrite Nat.eqb_refl.
    destruct (Nat.ltb_spec (c_rlimb s) rsz) as [_|Hge]; [reflexivity|clear - Hge Sr; lia]. }
  assert (N1z : forall i, (i < c_rlimb s)%nat -> nthZ res1 i = 0).
  { intros i Hi. unfold res1. rewrite nth_upd. destruct (Nat.eqb_spec i (c_rlimb s)) as [Ei|_]; [clear - Ei Hi; lia|].
    cbn [andb]. apply Sz; exact Hi. }
  assert (Esw : scale + w = rb - racc1) by (unfold scale, racc1; ring).
  (* facts shared by the InnerDone exits: all atake bits consumed *)
  assert (Hdone : atake1 = 0 ->
    c_anorm s = d + 2 ^ c_atake s * n1 /\ Z.abs d <= 2 ^ c_atake s - 1 /\ Z.abs n1 <= 1).
  { intros E0. assert (Ew : w = c_atake s) by (unfold atake1 in E0; clear - E0; lia).
    rewrite <- Ew. split; [symmetry; exact Hdec|]. split; [apply bal_abs; [clear - Hw; lia|exact Hdr]|].
    replace (c_atake s - w) with 0 in Hn1 by (clear - Ew; lia). exact Hn1. }
  assert (Hwadd : atake1 = 0 -> wadd wd (c_acarry s) n1 = c_acarry s + n1).
  { intros E0. destruct (Hdone E0) as (_ & _ & Hb1). apply Z.abs_le in Hb1. unfold wadd. apply wrap_id; [lia|].
    unfold in_range. rewrite (pow_wd1 wd Hwd). clear - Hb1 Hc HM2. lia. }
  destruct ((racc1 =? 0) || Nat.eqb a_limb 0)%bool eqn:Eb.
  - destruct (Nat.eqb a_limb 0 && (atake1 =? 0))%bool eqn:Ec.
    + (* the last a-limb is consumed: by alignment the res limbs are full *)
      apply andb_true_iff in Ec. destruct Ec as [Ea0 Et0].
      apply Nat.eqb_eq in Ea0. apply Z.eqb_eq in Et0.
      specialize (Hal Ea0).
      assert (Hfull : c_rlimb s = 0%nat /\ racc1 = 0).
      { destruct (full_pos (zn rsz) (zn (c_rlimb s)) rb racc1) as [Q1 Q2];
          [unfold zn; clear; lia|clear - Hrb; lia|clear - Hz; lia|
           unfold C08CrossInner.Fpos in Hal; unfold atake1, racc1 in *; clear - Hal Et0; lia|].
        split; [unfold zn in Q1; clear - Q1; lia|exact Q2]. }
      destruct Hfull as [Hrl0 Hr0].
      destruct (Z.eqb_spec racc1 0) as [_|Hne]; [|clear - Hne Hr0; lia].
      set (x0 := nthZ res1 (c_rlimb s)) in *.
      assert (Hx0 : Z.abs x0 <= 2 ^ (wd - 2)).
      { rewrite N1r. assert (H1 : 2 ^ (scale + w) <= 2 ^ (wd - 2)) by (apply pow2_le_mono; unfold scale; clear - Hw Hr Hrb; lia).
        clear - H1 Hrb'. lia. }
      unfold middle_step_assign.
      rewrite (mcW wd rb Hrb 0 x0 (c_rcarry s)); [|clear - Hrb; lia|exact Hx0|rewrite Hrc; clear - HM2; cbn [Z.abs]; lia].
      cbn [fst snd c_res]. split; [discriminate|]. split; [discriminate|]. intros _.
      split; [clear - Hal; lia|]. split; [rewrite upd_length; exact L1|].
      rewrite Hrc, Z.pow_0_r, Z.mul_1_r, Z.add_0_r.
      exists (- n1 - bdiv rb x0).
      rewrite Vres_upd by (auto; clear - Sr; lia). fold x0. rewrite V1.
      pose proof (wrap_bdiv rb x0 ltac:(clear - Hrb; lia)) as Hdx.
      assert (Ew : w = c_atake s) by (unfold atake1 in Et0; clear - Et0; lia).
      assert (EF : 2 ^ Fpos s * 2 ^ w = 2 ^ (zn rsz * rb)).
      { rewrite <- pow2_add by (clear - HF0 Hw; lia). f_equal. clear - Hal Ew. lia. }
      assert (EW : 2 ^ (zn rsz * rb) = 2 ^ rb * 2 ^ ((zn rsz - 1 - zn (c_rlimb s)) * rb)).
      { rewrite Hrl0. change (zn 0) with 0.
        assert (HR1 : 0 <= zn rsz - 1 - 0) by (unfold zn; clear - Sr; lia).
        rewrite <- pow2_add; [f_equal; ring|clear - Hrb; lia|apply Z.mul_nonneg_nonneg; [exact HR1|clear - Hrb; lia]]. }
      set (W := 2 ^ ((zn rsz - 1 - zn (c_rlimb s)) * rb)) in *.
      replace (wrap rb x0 - x0) with (- 2 ^ rb * bdiv rb x0) by (clear - Hdx; lia).
      rewrite <- Hdec.
      replace (2 ^ Fpos s * (d + 2 ^ w * n1)) with (2 ^ Fpos s * d + (2 ^ Fpos s * 2 ^ w) * n1) by ring.
      rewrite EF, EW. ring.
    + assert (Hr0 : racc1 = 0).
      { destruct (Z.eqb_spec racc1 0) as [|Hne]; [assumption|]. cbn [orb] in Eb.
        apply Nat.eqb_eq in Eb. rewrite Eb in Ec. cbn [andb] in Ec. apply Z.eqb_neq in Ec. clear - Ec Hz Hne. lia. }
      destruct (Nat.eqb_spec (c_rlimb s) 0) as [Erl|Erl].
      * (* res is full *)
        cbn [fst snd c_res c_anorm]. split; [discriminate|]. split; [discriminate|]. intros _.
        assert (EFw : zn rsz * rb = Fpos s + w).
        { unfold C08CrossInner.Fpos, racc1 in *. rewrite Erl. change (zn 0) with 0. clear - Hr0. lia. }
        split; [clear - EFw Hw; lia|]. split; [exact L1|].
        exists (- n1). rewrite V1.
        assert (EF : 2 ^ (zn rsz * rb) = 2 ^ Fpos s * 2 ^ w).
        { rewrite <- pow2_add by (clear - HF0 Hw; lia). f_equal. exact EFw. }
        rewrite EF. rewrite <- Hdec. ring.
      * (* move on to the next res limb *)
        cbn [c_res c_anorm c_acarry c_rcarry c_atake c_racc c_rlimb].
        set (s2 := {| c_res := res1; c_anorm := n1; c_acarry := c_acarry s; c_rcarry := c_rcarry s;
                      c_atake := atake1; c_racc := racc1 + rb; c_rlimb := (c_rlimb s - 1)%nat |}).
        assert (F2 : Fpos s2 = Fpos s + w).
        { unfold C08CrossInner.Fpos, s2. cbn [c_rlimb c_racc]. unfold racc1, zn.
          rewrite Nat2Z.inj_sub by (clear - Erl; lia). change (Z.of_nat 1) with 1. ring. }
        assert (Sh2 : shape s2).
        { unfold C08CrossInner.shape, s2. cbn [c_res c_rlimb c_racc]. split; [exact L1|]. split; [clear - Sr Erl; lia|].
          split; [intros i Hi; apply N1z; clear - Hi Erl; lia|].
          rewrite N1z by (clear - Erl; lia). rewrite Hr0. replace (rb - (0 + rb)) with 0 by (clear; lia).
          cbn. clear; lia. }
        destruct (Z.eqb_spec atake1 0) as [E0|E0].
        -- cbn [fst snd]. split; [discriminate|]. split; [|discriminate]. intros _.
           destruct (Hdone E0) as (D1 & D2 & D3).
           exists d. cbn [c_acarry c_res c_racc c_rcarry]. rewrite (Hwadd E0).
           replace (c_acarry s + n1 - c_acarry s) with n1 by ring.
           split; [exact D1|]. split; [exact D2|]. split; [exact V1|].
           split; [change (Fpos s2 = Fpos s + c_atake s); rewrite F2; unfold atake1 in E0; clear - E0; lia|].
           split; [exact Sh2|]. split; [clear - Hr0 Hrb; lia|]. split; [exact Hrc|exact D3].
        -- (* recursion *)
           assert (Hpre2 : preW s2).
           { unfold preW. split; [exact Sh2|]. unfold s2; cbn [c_racc c_atake c_anorm c_acarry c_rcarry].
             split; [clear - Hr0 Hrb; lia|]. split; [clear - Hz E0 Ha; lia|]. split; [exact Hn1|]. split; [exact (absl Hc)|].
             split; [exact Hrc|].
             intros Ea0. fold s2. rewrite F2. specialize (Hal Ea0). unfold atake1. clear - Hal. lia. }
           destruct (IH s2 Hpre2 ltac:(unfold s2; cbn [c_atake]; clear - Hz Hf; lia)) as (P1 & P2 & P3).
           fold s2. set (s' := fst (cross_inner wd f rb ab a_limb s2)) in *.
           set (o := snd (cross_inner wd f rb ab a_limb s2)) in *.
           assert (Ea : 2 ^ c_atake s = 2 ^ w * 2 ^ atake1)
             by (rewrite <- pow2_add by (clear - Hw Hz; lia); f_equal; unfold atake1; ring).
           assert (EF : 2 ^ Fpos s2 = 2 ^ Fpos s * 2 ^ w).
           { rewrite F2. apply pow2_add; [exact HF0|clear - Hw; lia]. }
           split; [exact P1|]. split.
           ++ intros Ho. destruct (P2 Ho) as (Pi1 & Q1 & Q2 & Q3 & Q4 & Q5 & Q6 & Q7 & Q8).
              change (c_anorm s2) with n1 in Q1. change (c_atake s2) with atake1 in Q1, Q2.
              change (c_acarry s2) with (c_acarry s) in Q1, Q8. change (c_res s2) with res1 in Q3.
              exists (d + 2 ^ w * Pi1).
              split; [rewrite Ea; rewrite <- Hdec, Q1; ring|].
              split; [rewrite Ea; apply pieces_bound; [clear - Hw; lia|clear - Hz; lia|exact Hdr|exact Q2]|].
              split; [rewrite Q3, V1, EF; ring|].
              split; [rewrite Q4, F2; change (c_atake s2) with atake1; unfold atake1; ring|].
              split; [exact Q5|]. split; [exact Q6|]. split; [exact Q7|exact Q8].
           ++ intros Ho. destruct (P3 Ho) as (Q0 & QL & K & Q).
              change (c_res s2) with res1 in Q. change (c_anorm s2) with n1 in Q.
              change (c_atake s2) with atake1 in Q0.
              split; [rewrite F2 in Q0; unfold atake1 in Q0; clear - Q0; lia|]. split; [exact QL|].
              exists K. rewrite Q, V1, EF. rewrite <- Hdec. ring.
  - (* the res limb is not full and more a-limbs follow: this a-limb is exhausted *)
    apply Bool.orb_false_iff in Eb. destruct Eb as [Eb _]. apply Z.eqb_neq in Eb.
    destruct (Z.eqb_spec atake1 0) as [E0|E0]; [|clear - E0 Eb Hz; lia].
    cbn [fst snd]. split; [discriminate|]. split; [|discriminate]. intros _.
    destruct (Hdone E0) as (D1 & D2 & D3).
    exists d. cbn [c_acarry c_res c_racc c_rcarry c_rlimb]. rewrite (Hwadd E0).
    replace (c_acarry s + n1 - c_acarry s) with n1 by ring.
    split; [exact D1|]. split; [exact D2|]. split; [exact V1|].
    split; [unfold C08CrossInner.Fpos; cbn [c_rlimb c_racc]; unfold racc1, atake1 in *; clear - E0; lia|].
    split.
    { unfold C08CrossInner.shape. cbn [c_res c_rlimb c_racc]. split; [exact L1|]. split; [exact Sr|].
      split; [exact N1z|]. rewrite N1r, <- Esw. exact Hrb'. }
    split; [clear - Eb Hz Hw Hr; unfold racc1 in *; lia|]. split; [exact Hrc|exact D3].
Qed.

End Inner.
