(* C09 item 5: Galois-element arithmetic: mod_exp_u64 is exponentiation mod 2^64,
   galois_element_inv inverts odd elements modulo 2n = 2^(m+1). *)
From Coq Require Import Znumtheory Zpow_facts.
From PV Require Import Base.MachineInt Model.C09Galois.
Open Scope Z_scope.

(* ---------- square-and-multiply ---------- *)
Lemma mod_exp_loop_spec fuel : forall y xp e,
  0 <= y < 2 ^ 64 -> 0 <= e < 2 ^ Z.of_nat fuel ->
  mod_exp_loop fuel y xp e = (y * xp ^ e) mod 2 ^ 64.
Proof.
  induction fuel as [|f IH]; intros y xp e Hy He.
  - cbn [mod_exp_loop]. assert (e = 0) by (cbn in He; lia). subst e.
    rewrite Z.pow_0_r, Z.mul_1_r. symmetry; apply Z.mod_small; lia.
  - cbn [mod_exp_loop]. destruct (Z.leb_spec e 0) as [H0|Hpos].
    + assert (e = 0) by lia. subst e.
      rewrite Z.pow_0_r, Z.mul_1_r. symmetry; apply Z.mod_small; lia.
    + assert (HM : 0 < 2 ^ 64) by (apply pow2_pos; lia).
      assert (He2 : 0 <= e / 2 < 2 ^ Z.of_nat f).
      { rewrite Nat2Z.inj_succ, Z.pow_succ_r in He by lia.
        split; [apply Z.div_pos; lia | apply Z.div_lt_upper_bound; lia]. }
      rewrite IH; auto.
      2:{ unfold wrapu. destruct (Z.odd e); [apply Z.mod_pos_bound; lia | lia]. }
      unfold wrapu.
      pose proof (Z.div_mod e 2 ltac:(lia)) as Hdm.
      rewrite Zmult_mod. rewrite <- Zpower_mod by lia. rewrite <- Zmult_mod.
      rewrite <- Z.pow_2_r, <- Z.pow_mul_r by lia.
      rewrite Zodd_mod.
      destruct (Zeq_bool (e mod 2) 1) eqn:Hb.
      * apply Zeq_bool_eq in Hb.
        rewrite Zmult_mod, Z.mod_mod, <- Zmult_mod by lia.
        f_equal. rewrite <- Z.mul_assoc. f_equal.
        rewrite <- (Z.pow_1_r xp) at 1. rewrite <- Z.pow_add_r by lia. f_equal. lia.
      * apply Zeq_bool_neq in Hb.
        f_equal. f_equal. f_equal. pose proof (Z.mod_pos_bound e 2 ltac:(lia)). lia.
Qed.

Lemma mod_exp_u64_spec x e : 0 <= e < 2 ^ 64 -> mod_exp_u64 x e = x ^ e mod 2 ^ 64.
Proof.
  intros He. unfold mod_exp_u64. rewrite mod_exp_loop_spec.
  - rewrite Z.mul_1_l. reflexivity.
  - split; [lia | apply (pow2_pos 64); lia].
  - exact He.
Qed.

(* ---------- odd^(2^m) = 1 mod 2^(m+1) ---------- *)
Lemma odd_pow_pow2_nat g (k : nat) :
  Z.odd g = true -> exists t, g ^ (2 ^ Z.of_nat k) = 1 + 2 ^ (Z.of_nat k + 1) * t.
Proof.
  intros Ho. induction k as [|k [t Ht]].
  - cbn [Z.of_nat]. rewrite Z.pow_0_r, Z.pow_1_r. change (2 ^ (0 + 1)) with 2.
    apply Zodd_bool_iff, Zodd_ex_iff in Ho. destruct Ho as [t Ht]. exists t. lia.
  - rewrite Nat2Z.inj_succ.
    pose proof (pow2_pos (Z.of_nat k) ltac:(lia)) as Hp.
    rewrite (Z.pow_succ_r 2 (Z.of_nat k)) by lia.
    rewrite (Z.mul_comm 2), Z.pow_mul_r by lia.
    rewrite Ht. exists (t + 2 ^ Z.of_nat k * t * t).
    replace (Z.succ (Z.of_nat k) + 1) with (Z.of_nat k + 1 + 1) by lia.
    rewrite (Z.pow_add_r 2 (Z.of_nat k + 1) 1) by lia.
    rewrite (Z.pow_add_r 2 (Z.of_nat k) 1) by lia. rewrite Z.pow_1_r.
    ring.
Qed.

Lemma odd_pow_pow2 g m : 0 <= m -> Z.odd g = true -> g ^ (2 ^ m) mod 2 ^ (m + 1) = 1.
Proof.
  intros Hm Ho. destruct (odd_pow_pow2_nat g (Z.to_nat m) Ho) as [t Ht].
  rewrite Z2Nat.id in Ht by lia. rewrite Ht.
  pose proof (pow2_pos (m + 1) ltac:(lia)) as Hp.
  assert (2 <= 2 ^ (m + 1)) by (rewrite Z.pow_add_r, Z.pow_1_r by lia; pose proof (pow2_pos m Hm); lia).
  rewrite Z.mul_comm, Z.mod_add by lia. apply Z.mod_small. lia.
Qed.

Lemma odd_pow_pow2_order g c : 1 <= c -> Z.odd g = true -> g ^ (2 ^ c) mod 2 ^ c = 1.
Proof.
  intros Hc Ho. destruct (odd_pow_pow2_nat g (Z.to_nat c) Ho) as [t Ht].
  rewrite Z2Nat.id in Ht by lia. rewrite Ht.
  pose proof (pow2_pos c ltac:(lia)) as Hp.
  assert (2 <= 2 ^ c) by (rewrite (pow2_split c) by lia; pose proof (pow2_pos (c - 1) ltac:(lia)); lia).
  rewrite Z.pow_add_r, Z.pow_1_r by lia.
  replace (1 + 2 ^ c * 2 * t) with (1 + (2 * t) * 2 ^ c) by ring.
  rewrite Z.mod_add by lia. apply Z.mod_small. lia.
Qed.

(* ---------- masks ---------- *)
Lemma land_pow2_mask x c : 0 <= c -> Z.land x (2 ^ c - 1) = x mod 2 ^ c.
Proof. intros Hc. rewrite <- Z.land_ones by lia. rewrite Z.ones_equiv. reflexivity. Qed.

Lemma mod_mod_pow2 x c d : 0 <= c <= d -> (x mod 2 ^ d) mod 2 ^ c = x mod 2 ^ c.
Proof.
  intros H. symmetry. apply Zmod_div_mod; try (apply pow2_pos; lia).
  exists (2 ^ (d - c)). rewrite <- Z.pow_add_r by lia. f_equal. lia.
Qed.

(* common shape of galois_element / galois_element_inv for co = 2^c, 1 <= c <= 63 *)
Lemma masked_signed_value x s c :
  1 <= c <= 63 -> (s = 1 \/ s = -1) ->
  wrap 64 (wrap 64 (Z.land x (wrapu 64 (2 ^ c - 1))) * s) = (x mod 2 ^ c) * s.
Proof.
  intros Hc Hs.
  pose proof (pow2_pos c ltac:(lia)) as Hp.
  assert (Hle : 2 ^ c <= 2 ^ 63) by (apply Z.pow_le_mono_r; lia).
  assert (H64 : 2 ^ 64 = 2 * 2 ^ 63) by reflexivity.
  unfold wrapu. rewrite (Z.mod_small (2 ^ c - 1)) by lia.
  rewrite land_pow2_mask by lia.
  pose proof (Z.mod_pos_bound x (2 ^ c) Hp) as Hb.
  assert (Hr : in_range 64 (x mod 2 ^ c)).
  { unfold in_range. replace (64 - 1) with 63 by lia. lia. }
  rewrite (wrap_id 64 (x mod 2 ^ c)) by (auto; lia).
  apply wrap_id; [lia|]. unfold in_range. replace (64 - 1) with 63 by lia.
  destruct Hs; subst s; lia.
Qed.

Lemma sgn_pm g : g <> 0 -> Z.sgn g = 1 \/ Z.sgn g = -1.
Proof. intros; destruct g; cbn; auto; congruence. Qed.

Lemma abs_sgn g : g = Z.abs g * Z.sgn g.
Proof. destruct g; cbn; lia. Qed.

(* closed forms *)
Lemma galois_element_inv_value g c :
  1 <= c <= 63 -> g <> 0 ->
  galois_element_inv g (2 ^ c) = ((Z.abs g) ^ (2 ^ c - 1) mod 2 ^ c) * Z.sgn g.
Proof.
  intros Hc Hg. unfold galois_element_inv. cbv zeta.
  pose proof (pow2_pos c ltac:(lia)) as Hp.
  assert (Hle : 2 ^ c <= 2 ^ 63) by (apply Z.pow_le_mono_r; lia).
  assert (H64 : 2 ^ 64 = 2 * 2 ^ 63) by reflexivity.
  rewrite masked_signed_value by (auto using sgn_pm).
  f_equal.
  unfold wrapu at 2. rewrite (Z.mod_small (2 ^ c - 1)) by lia.
  rewrite mod_exp_u64_spec by lia.
  rewrite mod_mod_pow2 by lia.
  unfold wrapu.
  rewrite (Zpower_mod (Z.abs g mod 2 ^ 64)) by lia.
  rewrite mod_mod_pow2 by lia.
  rewrite <- Zpower_mod by lia. reflexivity.
Qed.

Lemma galois_element_value k c :
  1 <= c <= 63 -> k <> 0 -> Z.abs k < 2 ^ 64 ->
  galois_element k (2 ^ c) = (5 ^ Z.abs k mod 2 ^ c) * Z.sgn k.
Proof.
  intros Hc Hk Hb. unfold galois_element, GALOISGENERATOR. cbv zeta.
  destruct (Z.eqb_spec k 0); [contradiction|].
  rewrite masked_signed_value by (auto using sgn_pm).
  f_equal. unfold wrapu at 1. rewrite (Z.mod_small (Z.abs k)) by lia.
  rewrite mod_exp_u64_spec by lia.
  apply mod_mod_pow2. lia.
Qed.

(* ---------- the inverse is an inverse ---------- *)
Theorem galois_inv_correct g m :
  0 <= m <= 62 -> Z.odd g = true ->
  (g * galois_element_inv g (2 * 2 ^ m)) mod (2 * 2 ^ m) = 1.
Proof.
  intros Hm Ho.
  replace (2 * 2 ^ m) with (2 ^ (m + 1)) by (rewrite Z.pow_add_r by lia; lia).
  assert (Hg : g <> 0) by (intros ->; discriminate).
  rewrite galois_element_inv_value by lia.
  pose proof (pow2_pos (m + 1) ltac:(lia)) as Hp.
  rewrite (abs_sgn g) at 1.
  replace (Z.abs g * Z.sgn g * (Z.abs g ^ (2 ^ (m + 1) - 1) mod 2 ^ (m + 1) * Z.sgn g))
    with ((Z.sgn g * Z.sgn g) * (Z.abs g * (Z.abs g ^ (2 ^ (m + 1) - 1) mod 2 ^ (m + 1)))) by ring.
  replace (Z.sgn g * Z.sgn g) with 1 by (destruct (sgn_pm g Hg) as [-> | ->]; reflexivity).
  rewrite Z.mul_1_l.
  rewrite Zmult_mod, Z.mod_mod, <- Zmult_mod by lia.
  rewrite <- (Z.pow_1_r (Z.abs g)) at 1. rewrite <- Z.pow_add_r by lia.
  replace (1 + (2 ^ (m + 1) - 1)) with (2 ^ (m + 1)) by lia.
  apply odd_pow_pow2_order; [lia|].
  destruct g; cbn [Z.abs]; auto.
Qed.

Lemma galois_element_inv_odd g m :
  0 <= m <= 62 -> Z.odd g = true -> Z.odd (galois_element_inv g (2 * 2 ^ m)) = true.
Proof.
  intros Hm Ho. pose proof (galois_inv_correct g m Hm Ho) as H.
  pose proof (pow2_pos m ltac:(lia)) as Hp.
  destruct (Z.odd (galois_element_inv g (2 * 2 ^ m))) eqn:E; auto. exfalso.
  assert (He : Z.even (galois_element_inv g (2 * 2 ^ m)) = true) by (rewrite <- Z.negb_odd, E; reflexivity).
  apply Z.even_spec in He. destruct He as [t Ht]. rewrite Ht in H.
  pose proof (Z.div_mod (g * (2 * t)) (2 * 2 ^ m) ltac:(lia)) as Hd. rewrite H in Hd. lia.
Qed.

(* ---------- the signed generator convention: sign flips, it does NOT invert ---------- *)
Theorem galois_element_neg k c :
  1 <= c <= 63 -> k <> 0 -> Z.abs k < 2 ^ 64 ->
  galois_element (- k) (2 ^ c) = - galois_element k (2 ^ c).
Proof.
  intros Hc Hk Hb. rewrite !galois_element_value by (auto; try lia).
  rewrite Z.abs_opp, Z.sgn_opp. ring.
Qed.

Theorem galois_element_odd k c :
  1 <= c <= 63 -> Z.abs k < 2 ^ 64 -> Z.odd (galois_element k (2 ^ c)) = true.
Proof.
  intros Hc Hb. destruct (Z.eq_dec k 0) as [->|Hk]; [reflexivity|].
  rewrite galois_element_value by auto.
  rewrite Z.odd_mul.
  assert (Hs : Z.odd (Z.sgn k) = true) by (destruct (sgn_pm k Hk) as [-> | ->]; reflexivity).
  rewrite Hs, Bool.andb_true_r.
  pose proof (pow2_pos c ltac:(lia)) as Hp.
  pose proof (Z.div_mod (5 ^ Z.abs k) (2 ^ c) ltac:(lia)) as Hd.
  assert (H5 : Z.odd (5 ^ Z.abs k) = true) by (rewrite Z.odd_pow by lia; reflexivity).
  replace (2 ^ c) with (2 * 2 ^ (c - 1)) in Hd at 1 by (rewrite <- (pow2_split c); lia).
  rewrite Hd in H5. rewrite <- Z.mul_assoc, Z.add_comm, Z.odd_add_mul_2 in H5. exact H5.
Qed.

(* galois_element (-k) is the NEGATIVE of galois_element k, not its inverse mod 2n *)
Theorem galois_element_neg_is_inverse_refuted :
  exists k co, co = 16 /\ (galois_element k co * galois_element (- k) co) mod co <> 1.
Proof. exists 1, 16. split; [reflexivity|]. vm_compute. discriminate. Qed.
