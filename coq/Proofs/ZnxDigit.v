(* Characterisation of the digit / carry kernels (C08 foundation). *)
From PV Require Import Base.MachineInt Model.Znx.
Open Scope Z_scope.

Lemma digit_spec (w b x : Z) : 1 <= b <= w -> get_digit w b x = wrap b x.
Proof.
  intros Hb. unfold get_digit, shl, asr.
  replace w with (b + (w - b)) at 1 by lia.
  rewrite wrap_mul_pow2 by lia.
  apply Z.div_mul. pose proof (pow2_pos (w - b) ltac:(lia)); lia.
Qed.

(* the digit is the balanced residue *)
Lemma digit_range (w b x : Z) : 1 <= b <= w -> in_range b (get_digit w b x).
Proof. intros; rewrite digit_spec by auto; apply wrap_range; lia. Qed.

Lemma digit_congr (w b x : Z) : 1 <= b <= w -> exists q, x = get_digit w b x + q * 2 ^ b.
Proof.
  intros Hb; rewrite digit_spec by auto.
  destruct (wrap_exists b x ltac:(lia)) as [q Hq]. exists q; lia.
Qed.

(* carry: exact whenever x - digit does not overflow the word *)
Lemma carry_spec (w b x : Z) : 1 <= b <= w -> in_range w (x - get_digit w b x) ->
  get_carry w b x (get_digit w b x) * 2 ^ b + get_digit w b x = x.
Proof.
  intros Hb Hr. unfold get_carry, wsub, asr. rewrite wrap_id by (auto; lia).
  destruct (digit_congr w b x Hb) as [q Hq].
  set (d := get_digit w b x) in *.
  replace (x - d) with (q * 2 ^ b) by lia.
  rewrite Z.div_mul by (pose proof (pow2_pos b ltac:(lia)); lia). lia.
Qed.

(* headroom that makes x - digit representable: x < 2^(w-1) - 2^(b-1) is enough *)
Lemma carry_no_overflow (w b x : Z) : 1 <= b < w -> in_range w x ->
  x < 2 ^ (w - 1) - 2 ^ (b - 1) -> in_range w (x - get_digit w b x).
Proof.
  intros Hb [Hx1 Hx2] Hh. pose proof (digit_range w b x ltac:(lia)) as [Hd1 Hd2].
  destruct (digit_congr w b x ltac:(lia)) as [q Hq].
  set (d := get_digit w b x) in *. unfold in_range.
  pose proof (pow2_pos (b - 1) ltac:(lia)).
  pose proof (pow2_split b ltac:(lia)).
  assert (Hp : 2 ^ (w - 1) = 2 ^ (w - 1 - b) * 2 ^ b) by (rewrite <- Z.pow_add_r by lia; f_equal; lia).
  pose proof (pow2_pos (w - 1 - b) ltac:(lia)).
  split; [|lia].
  (* x - d = q*2^b >= -2^(w-1): since x >= -2^(w-1) = -(2^(w-1-b))*2^b and x - d is the nearest multiple *)
  assert (- 2 ^ (w - 1 - b) <= q) by nia. nia.
Qed.

(* the carry wraps at the top of the range: i64::MAX with b = 2 *)
Lemma carry_wraps_refuted :
  exists x, in_range 64 x /\
    get_carry 64 2 x (get_digit 64 2 x) * 2 ^ 2 + get_digit 64 2 x <> x.
Proof. exists (2 ^ 63 - 1). split; [unfold in_range; lia | vm_compute; discriminate]. Qed.

(* magnitude of a carry *)
Lemma carry_bound (w b x : Z) : 1 <= b <= w -> in_range w (x - get_digit w b x) ->
  Z.abs (get_carry w b x (get_digit w b x)) * 2 ^ b <= Z.abs x + 2 ^ (b - 1).
Proof.
  intros Hb Hr. pose proof (carry_spec w b x Hb Hr) as Hs.
  pose proof (digit_range w b x Hb) as [Hd1 Hd2].
  pose proof (pow2_pos b ltac:(lia)). pose proof (pow2_pos (b-1) ltac:(lia)). nia.
Qed.
