(* C16 — value semantics over the exact phase model.

   A ciphertext with metadata (log_delta, log_budget) whose phase (decryption without noise) is the torus element p
   stands for the message  value = p * 2^log_budget.  The GLWE layer is taken in its exact form (C02 / C08): a left
   shift by s bits multiplies the phase by 2^s, add / sub / negate act on phases, a tensor product with convolution
   offset c yields the product of the phases times 2^c, a right shift by s divides by 2^s.  Truncation to the
   destination's last limb, noise and wrap-around are outside this file: they are what the envelope of
   Model/C16Oracle.v measures.  What is proved here is that the *shift amounts* the CKKS layer hands to the GLWE layer
   (the log of `meta_step`) are exactly the ones that make the resulting metadata tell the truth about the value. *)
From Coq Require Import QArith Qpower ZifyBool.
From PV Require Import Base.MachineInt Model.C16Meta Model.C16Spec.
Open Scope Z_scope.

Definition two : Q := 2 # 1.
Definition valQ (p : Q) (l : Z) : Q := (p * two ^ l)%Q.

Lemma two_nz : ~ (two == 0)%Q.
Proof. unfold two, Qeq; cbn; lia. Qed.

(* shifting the phase by s bits while the budget drops by s keeps the value *)
Lemma valQ_shift (p : Q) (s l l' : Z) : s + l' = l -> (valQ (p * two ^ s) l' == valQ p l)%Q.
Proof.
  intros <-. unfold valQ. rewrite (Qpower_plus two s l' two_nz). ring.
Qed.

(* ---- the shift log of each operation, by role ---- *)
Ltac run :=
  cbv beta iota zeta delta [meta_step meta_m new_size lin_into lin_assign neg_into unary_into mulpow2_into divpow2_into
    rescale_into rescale_assign divpow2_assign rotate_into negb mul_into mul_assign square_into square_assign mulptz_into mulptz_assign
    ptznx_into ptznx_assign ensure_plaintext_alignment apply_params_asserting mul_ct_params mul_pt_params
    offset_unary offset_binary ssub eff maxk compact
    bind ret fail panic get set_meta set_lb set_ld shift csub usub uadd passert fst snd app];
  repeat (match goal with
          | |- context [if ?c then _ else _] => let E := fresh "E" in destruct c eqn:E
          end; cbv beta iota zeta delta [app]).

Ltac done_inv H := try discriminate H; injection H as <- <- <-.

(* unary forms written into another ciphertext: one shift s with  s + log_budget' = log_budget(src) + gain *)
Definition unary_gain (o : op) : option Z :=
  match o with
  | ONegInto | OConjInto | ORotateInto _ | ORescaleInto _ => Some 0
  | OMulPow2Into bits => Some bits
  | ODivPow2Into bits => Some (- bits)
  | _ => None
  end.

Lemma unary_into_shift (chk : bool) (B : Z) (o : op) (d a b : ct) (g : Z) (m : meta) (sz : Z) (sh : list Z) :
  unary_gain o = Some g -> 0 <= lb (cm a) < two63 -> 0 <= ld (cm a) ->
  meta_step chk B o d a b = Done m sz sh ->
  fold_right Z.add 0 sh + lb m = lb (cm a) + g.
Proof.
  intros Hg Hl Hd. unfold two63 in Hl. destruct o; cbn in Hg; try discriminate Hg; inversion Hg; subst g; clear Hg;
  destruct d as [[dl db] ds], a as [[al ab] asz]; cbn [cm csize ld lb] in *; try destruct key.
  all: run; intros H; done_inv H; cbn [cm csize ld lb fold_right] in *;
       unfold two64 in *; lia.
Qed.

(* in-place forms: rescale_assign shifts the destination itself, mul_pow2_assign too (budget unchanged: value * 2^bits) *)
Lemma rescale_assign_shift (chk : bool) (B k : Z) (d a b : ct) (m : meta) (sz : Z) (sh : list Z) :
  meta_step chk B (ORescaleAssign k) d a b = Done m sz sh -> sh = [k] /\ k + lb m = lb (cm d) /\ ld m = ld (cm d).
Proof.
  destruct d as [[dl db] ds]. run; intros H; done_inv H; cbn [cm ld lb]; repeat split; lia.
Qed.

Lemma mulpow2_assign_shift (chk : bool) (B bits : Z) (d a b : ct) (m : meta) (sz : Z) (sh : list Z) :
  meta_step chk B (OMulPow2Assign bits) d a b = Done m sz sh -> sh = [bits] /\ m = cm d.
Proof. destruct d as [[dl db] ds]. run; intros H; done_inv H; split; reflexivity. Qed.

(* add / sub of two ciphertexts: shifts (sa, sb) applied to a and b *)
Definition lin_roles (a b : ct) (sh : list Z) : Z * Z :=
  match sh with
  | [s1; s2] => if lb (cm a) <=? lb (cm b) then (s1, s2) else (s2, s1)
  | _ => (0, 0)
  end.

Lemma lin_into_shifts (chk : bool) (B : Z) (d a b : ct) (m : meta) (sz : Z) (sh : list Z) :
  meta_step chk B OLinInto d a b = Done m sz sh ->
  fst (lin_roles a b sh) + lb m = lb (cm a) /\ snd (lin_roles a b sh) + lb m = lb (cm b) /\
  ld m = Z.min (ld (cm a)) (ld (cm b)).
Proof.
  destruct d as [[dl db] ds], a as [[al ab] asz], b as [[bl bb] bs]. cbn [cm csize ld lb].
  run; intros H; done_inv H; unfold lin_roles; cbn [cm csize ld lb fst snd];
    repeat match goal with |- context [if ?c then _ else _] => destruct c eqn:? end; cbn [fst snd cm csize ld lb] in *; unfold two64 in *; lia.
Qed.

(* in place: one of the two is shifted *)
Definition lin_assign_roles (d a : ct) (sh : list Z) : Z * Z :=
  match sh with
  | [s] => if lb (cm d) <? lb (cm a) then (0, s) else (s, 0)
  | _ => (0, 0)
  end.

Lemma lin_assign_shifts (chk : bool) (B : Z) (d a b : ct) (m : meta) (sz : Z) (sh : list Z) :
  meta_step chk B OLinAssign d a b = Done m sz sh ->
  fst (lin_assign_roles d a sh) + lb m = lb (cm d) /\ snd (lin_assign_roles d a sh) + lb m = lb (cm a).
Proof.
  destruct d as [[dl db] ds], a as [[al ab] asz]. cbn [cm csize ld lb].
  run; intros H; done_inv H; unfold lin_assign_roles; cbn [cm csize ld lb fst snd];
    repeat match goal with |- context [if ?c then _ else _] => destruct c eqn:? end; cbn [fst snd cm csize ld lb] in *; unfold two64 in *; lia.
Qed.

(* products: the convolution offset c with  c + log_budget' = log_budget(x) + log_budget(y) *)
Lemma mul_into_offset (chk : bool) (B : Z) (d a b : ct) (m : meta) (sz : Z) (sh : list Z) :
  meta_step chk B OMulInto d a b = Done m sz sh ->
  fold_right Z.add 0 sh + lb m = lb (cm a) + lb (cm b) /\ ld m = Z.min (ld (cm a)) (ld (cm b)).
Proof.
  destruct d as [[dl db] ds], a as [[al ab] asz], b as [[bl bb] bs]. cbn [cm csize ld lb].
  run; intros H; done_inv H; cbn [cm csize ld lb fold_right]; lia.
Qed.

Lemma square_into_offset (chk : bool) (B : Z) (d a b : ct) (m : meta) (sz : Z) (sh : list Z) :
  meta_step chk B OSquareInto d a b = Done m sz sh ->
  fold_right Z.add 0 sh + lb m = 2 * lb (cm a) /\ ld m = ld (cm a).
Proof.
  destruct d as [[dl db] ds], a as [[al ab] asz]. cbn [cm csize ld lb].
  run; intros H; done_inv H; cbn [cm csize ld lb fold_right]; lia.
Qed.

(* ct x vector plaintext: the plaintext's phase is  value_p * 2^(log_delta_p - max_k_p) *)
Lemma mulptz_into_offset (chk : bool) (B : Z) (d a b : ct) (p : ptz) (m : meta) (sz : Z) (sh : list Z) :
  meta_step chk B (OMulPtZnxInto p) d a b = Done m sz sh ->
  fold_right Z.add 0 sh + lb m = lb (cm a) + (pmaxk p - ld (pm p)) /\ ld m = ld (cm a).
Proof.
  destruct d as [[dl db] ds], a as [[al ab] asz], p as [[pl pb] pk pbk]. cbn [cm csize ld lb pm pmaxk pb2k].
  run; intros H; done_inv H; cbn [cm csize ld lb fold_right]; lia.
Qed.

(* ct + vector plaintext in place: the plaintext is shifted right by s with  log_budget - s = max_k_p - log_delta_p *)
Lemma ptznx_assign_shift (chk : bool) (B : Z) (d a b : ct) (p : ptz) (m : meta) (sz : Z) (sh : list Z) :
  meta_step chk B (OPtZnxAssign p) d a b = Done m sz sh ->
  m = cm d /\ lb m - fold_right Z.add 0 sh = pmaxk p - ld (pm p).
Proof.
  destruct d as [[dl db] ds], p as [[pl pb] pk pbk]. cbn [cm csize ld lb pm pmaxk pb2k].
  run; intros H; done_inv H; cbn [cm csize ld lb fold_right]; unfold two64 in *; split; try reflexivity; lia.
Qed.

Lemma pow_split (s l' l : Z) : s + l' = l -> (two ^ s * two ^ l' == two ^ l)%Q.
Proof. intros <-. rewrite (Qpower_plus two _ _ two_nz). reflexivity. Qed.

(* ---- the same statements about values, in Q ---- *)
Section Values.
Variables (chk : bool) (B : Z) (d a b : ct) (m : meta) (sz : Z) (sh : list Z).
Variables (pa pb pd : Q).        (* exact phases of a, b and (for the in-place forms) of d before the call *)

(* neg / conjugate / rotate / rescale written into d: same value (the automorphism or sign acts on the phase) *)
Theorem value_unary_into (o : op) (g : Z) :
  unary_gain o = Some g -> (0 <= lb (cm a) < two63)%Z -> (0 <= ld (cm a))%Z ->
  meta_step chk B o d a b = Done m sz sh ->
  (valQ (pa * two ^ (fold_right Z.add 0%Z sh)) (lb m) == valQ pa (lb (cm a)) * two ^ g)%Q.
Proof.
  intros Hg H1 H2 H. pose proof (unary_into_shift chk B o d a b g m sz sh Hg H1 H2 H) as E.
  unfold valQ.
  assert (E1 : (two ^ (fold_right Z.add 0%Z sh) * two ^ (lb m) == two ^ (lb (cm a)) * two ^ g)%Q).
  { rewrite <- !(Qpower_plus two _ _ two_nz). rewrite E. reflexivity. }
  transitivity (pa * (two ^ (fold_right Z.add 0%Z sh) * two ^ (lb m)))%Q; [ ring | ]. rewrite E1. ring.
Qed.

Theorem value_add_into :
  meta_step chk B OLinInto d a b = Done m sz sh ->
  let '(sa, sb) := lin_roles a b sh in
  (valQ (pa * two ^ sa + pb * two ^ sb) (lb m) == valQ pa (lb (cm a)) + valQ pb (lb (cm b)))%Q /\
  (valQ (pa * two ^ sa - pb * two ^ sb) (lb m) == valQ pa (lb (cm a)) - valQ pb (lb (cm b)))%Q.
Proof.
  intros H. destruct (lin_into_shifts chk B d a b m sz sh H) as (Ea & Eb & _).
  destruct (lin_roles a b sh) as [sa sb]. cbn [fst snd] in *.
  pose proof (pow_split _ _ _ Ea) as Qa. pose proof (pow_split _ _ _ Eb) as Qb. unfold valQ. split.
  - transitivity (pa * (two ^ sa * two ^ lb m) + pb * (two ^ sb * two ^ lb m))%Q; [ ring | ]. rewrite Qa, Qb. ring.
  - transitivity (pa * (two ^ sa * two ^ lb m) - pb * (two ^ sb * two ^ lb m))%Q; [ ring | ]. rewrite Qa, Qb. ring.
Qed.

Theorem value_add_assign :
  meta_step chk B OLinAssign d a b = Done m sz sh ->
  let '(sd, sa) := lin_assign_roles d a sh in
  (valQ (pd * two ^ sd + pa * two ^ sa) (lb m) == valQ pd (lb (cm d)) + valQ pa (lb (cm a)))%Q /\
  (valQ (pd * two ^ sd - pa * two ^ sa) (lb m) == valQ pd (lb (cm d)) - valQ pa (lb (cm a)))%Q.
Proof.
  intros H. destruct (lin_assign_shifts chk B d a b m sz sh H) as (Ed & Ea).
  destruct (lin_assign_roles d a sh) as [sd sa]. cbn [fst snd] in *.
  pose proof (pow_split _ _ _ Ed) as Qd. pose proof (pow_split _ _ _ Ea) as Qa. unfold valQ. split.
  - transitivity (pd * (two ^ sd * two ^ lb m) + pa * (two ^ sa * two ^ lb m))%Q; [ ring | ]. rewrite Qd, Qa. ring.
  - transitivity (pd * (two ^ sd * two ^ lb m) - pa * (two ^ sa * two ^ lb m))%Q; [ ring | ]. rewrite Qd, Qa. ring.
Qed.

Theorem value_rescale_assign (k : Z) :
  meta_step chk B (ORescaleAssign k) d a b = Done m sz sh ->
  (valQ (pd * two ^ k) (lb m) == valQ pd (lb (cm d)))%Q.
Proof.
  intros H. destruct (rescale_assign_shift chk B k d a b m sz sh H) as (_ & E & _).
  apply valQ_shift. exact E.
Qed.

Theorem value_mul_pow2_assign (bits : Z) :
  meta_step chk B (OMulPow2Assign bits) d a b = Done m sz sh ->
  (valQ (pd * two ^ bits) (lb m) == valQ pd (lb (cm d)) * two ^ bits)%Q.
Proof.
  intros H. destruct (mulpow2_assign_shift chk B bits d a b m sz sh H) as (_ & ->). unfold valQ. ring.
Qed.

(* ct x ct: the tensor product with convolution offset c has phase pa * pb * 2^c *)
Theorem value_mul_into :
  meta_step chk B OMulInto d a b = Done m sz sh ->
  (valQ (pa * pb * two ^ (fold_right Z.add 0%Z sh)) (lb m) == valQ pa (lb (cm a)) * valQ pb (lb (cm b)))%Q.
Proof.
  intros H. destruct (mul_into_offset chk B d a b m sz sh H) as (E & _).
  unfold valQ.
  assert (E1 : (two ^ (fold_right Z.add 0%Z sh) * two ^ (lb m) == two ^ (lb (cm a)) * two ^ (lb (cm b)))%Q).
  { rewrite <- !(Qpower_plus two _ _ two_nz). rewrite E. reflexivity. }
  transitivity (pa * pb * (two ^ (fold_right Z.add 0%Z sh) * two ^ (lb m)))%Q; [ ring | ]. rewrite E1. ring.
Qed.
End Values.

(* the fused path of ckks_dot_product_ct (>= 2 terms, one log_delta per list): all products are formed from the
   inputs rescaled to the smallest budget of their list, with one convolution offset c such that
   c + log_budget' = min log_budget(a-list) + min log_budget(b-list)   (repaired in 18a4236) *)
Lemma dot_ct_fused_offset (chk : bool) (B : Z) (d x0 y0 : ct) (q : ct * ct) (rest : list (ct * ct)) (xs ys : list ct)
      (m : meta) (sz : Z) (sh : list Z) :
  combine xs ys = (x0, y0) :: q :: rest ->
  (zlen xs =? 0) || negb (zlen xs =? zlen ys) = false ->
  forallb (fun c => ld_of c =? ld_of x0) xs && forallb (fun c => ld_of c =? ld_of y0) ys = true ->
  comp_step chk B CDotCt d xs ys = Done m sz sh ->
  fold_right Z.add 0 sh + lb m = min_over lb_of xs + min_over lb_of ys /\ ld m = Z.min (ld_of x0) (ld_of y0).
Proof.
  intros Hc Hlen Hu. unfold comp_step, comp_m, dot_ct. rewrite Hlen, Hc, Hu. cbn [negb].
  destruct d as [[dl db] ds]. unfold ld_of.
  cbv beta iota zeta delta [acc_fits ssub eff maxk bind ret fail panic set_lb set_ld shift csub csize app].
  repeat (match goal with
          | |- context [if ?c then _ else _] => let E := fresh "E" in destruct c eqn:E
          end; cbv beta iota zeta delta [app]).
  all: intros H; try discriminate H; injection H as <- <- <-; cbn [ld lb fold_right]; split; lia.
Qed.
