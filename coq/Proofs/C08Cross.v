(* C08, cross-radix normalisation: the fuel of the model's inner loop is never exhausted, i.e. the
   model function is total (`normalize_cross ... <> None`) for all radices >= 1, sizes, offsets, contents. *)
From PV Require Import Base.MachineInt Model.Znx Model.Limbs Proofs.C08Chain.
Open Scope Z_scope.

Section Cross.
Variables rb ab : Z.
Hypothesis Hrb : 1 <= rb.
Hypothesis Hab : 1 <= ab.

(* one run of the inner loop: the number of bits left in the current a-limb strictly decreases *)
Lemma cross_inner_ok (a_limb : nat) : forall (fuel : nat) (s : cstate),
  0 < c_atake s <= ab -> c_atake s <= Z.of_nat fuel -> 0 < c_racc s ->
  snd (cross_inner 64 fuel rb ab a_limb s) <> Fuel /\
  (snd (cross_inner 64 fuel rb ab a_limb s) = InnerDone -> 0 < c_racc (fst (cross_inner 64 fuel rb ab a_limb s))).
Proof.
  induction fuel as [|f IH]; intros s Ha Hf Hr; [lia|].
  cbn [cross_inner].
  set (a_take := Z.min (Z.min ab (c_atake s)) (c_racc s)).
  assert (Hat : 1 <= a_take /\ a_take <= c_atake s /\ a_take <= c_racc s /\
                (a_take = c_atake s \/ a_take = c_racc s)) by (unfold a_take; lia).
  destruct (Z.eqb_spec a_take 0) as [E|_]; [lia|].
  destruct (extract_digit_addmul 64 a_take (rb - c_racc s) (nthZ (c_res s) (c_rlimb s)) (c_anorm s)) as [r' n'].
  cbn [c_res c_anorm c_acarry c_rcarry c_atake c_racc c_rlimb].
  set (atake' := c_atake s - a_take). set (racc' := c_racc s - a_take).
  assert (Hz : 0 <= atake' /\ 0 <= racc' /\ (atake' = 0 \/ racc' = 0) /\ atake' < c_atake s)
    by (unfold atake', racc'; lia).
  destruct ((racc' =? 0) || Nat.eqb a_limb 0)%bool eqn:Eb.
  - destruct (Nat.eqb a_limb 0 && (atake' =? 0))%bool eqn:Ec.
    + (* last a-limb fully consumed: break *)
      destruct (racc' =? 0).
      * destruct (middle_step_assign 64 rb 0 _ _) as [x rc]. cbn [fst snd]. split; [discriminate|discriminate].
      * destruct (extract_digit_addmul 64 racc' _ _ _) as [r2 n2].
        destruct (middle_step_assign 64 rb 0 _ _) as [x rc]. cbn [fst snd]. split; [discriminate|discriminate].
    + destruct (Nat.eqb (c_rlimb s) 0).
      * cbn [fst snd]. split; [discriminate|discriminate].
      * cbn [c_res c_anorm c_acarry c_rcarry c_atake c_racc c_rlimb].
        destruct (Z.eqb_spec atake' 0) as [E0|E0].
        -- cbn [fst snd c_racc]. split; [discriminate|]. intros _. lia.
        -- apply IH; cbn [c_atake c_racc]; lia.
  - (* the current res limb is not full and this is not the last a-limb: the a-limb must be exhausted *)
    apply Bool.orb_false_iff in Eb. destruct Eb as [Eb _]. apply Z.eqb_neq in Eb.
    destruct (Z.eqb_spec atake' 0) as [E0|E0]; [|lia].
    cbn [fst snd c_racc]. split; [discriminate|]. intros _. lia.
Qed.

(* vec_znx_normalize_cross_base2k never runs out of fuel *)
Theorem normalize_cross_total (off : Z) (a r0 : list Z) : normalize_cross 64 rb ab off a r0 <> None.
Proof.
  unfold normalize_cross.
  destruct (split_offset ab off) as [lsh lo].
  set (rsz := length r0). set (asz := length a).
  set (a_tot := zn asz * ab). set (r_tot := zn rsz * rb).
  set (res_start_bit := clampZ (a_tot - lo * ab) 0 r_tot).
  set (a_start_bit := clampZ (r_tot + lo * ab) 0 a_tot).
  set (res_start := Z.to_nat (div_ceil res_start_bit rb)).
  set (a_start := Z.to_nat (div_ceil a_start_bit ab)).
  set (a_end := Z.to_nat (clampZ (lo * ab) 0 a_tot / ab)).
  destruct (Nat.eqb res_start 0); [discriminate|].
  set (fuel := (Z.to_nat ab + Z.to_nat rb + 4)%nat).
  set (s0 := {| c_res := zeros rsz; c_anorm := 0;
                c_acarry := carry_phase 64 ab lsh a asz (asz - a_start); c_rcarry := 0;
                c_atake := 0; c_racc := rb; c_rlimb := (res_start - 1)%nat |}).
  match goal with |- context [fold_left ?f (seq 0 ?n) ?init] =>
    pose proof (fold_left_seq_ind f (fun j (acc : cstate * bool * bool) =>
      snd acc = false /\ (snd (fst acc) = false -> 0 < c_racc (fst (fst acc)) /\
                          (j = 0%nat -> c_racc (fst (fst acc)) = rb))) n init) as HI
  end.
  destruct HI as [I1 _].
  - cbn [fst snd s0 c_racc]. split; [reflexivity|]. intros _. split; [lia|reflexivity].
  - intros j [[s brk] bad] Hj [Ibad Ir]. cbn [fst snd] in Ibad, Ir. subst bad.
    destruct brk; cbn [orb].
    + cbn [fst snd]. split; [reflexivity|discriminate].
    + destruct (Ir eq_refl) as [Hracc Hj0].
      destruct (middle_step 64 true ab lsh 0 (nthZ a (a_start - j - 1)) (c_acarry s)) as [an ac].
      cbn [c_res c_anorm c_acarry c_rcarry c_atake c_racc c_rlimb].
      match goal with |- context [cross_inner 64 fuel rb ab ?al ?st] =>
        assert (Hst : 0 < c_atake st <= ab /\ 0 < c_racc st); [|
          destruct (cross_inner_ok al fuel st (proj1 Hst) ltac:(unfold fuel; lia) (proj2 Hst)) as [C1 C2];
          destruct (cross_inner 64 fuel rb ab al st) as [s3 [| |]]; cbn [fst snd] in *;
          [split; [reflexivity|intros _; split; [apply C2; reflexivity|lia]]
          |split; [reflexivity|discriminate]
          |exfalso; apply C1; reflexivity]]
      end.
      destruct (Nat.eqb_spec j 0) as [E0|E0].
      * specialize (Hj0 E0).
        destruct (negb ((a_tot - a_start_bit) mod ab =? 0)) eqn:E1.
        -- cbn [c_atake c_racc].
           pose proof (Z.mod_pos_bound (a_tot - a_start_bit) ab ltac:(lia)).
           apply Bool.negb_true_iff, Z.eqb_neq in E1. lia.
        -- destruct (negb ((r_tot - res_start_bit) mod rb =? 0)) eqn:E2; cbn [c_atake c_racc]; [|lia].
           pose proof (Z.mod_pos_bound (r_tot - res_start_bit) rb ltac:(lia)). lia.
      * cbn [c_atake c_racc]. lia.
  - destruct (fold_left _ (seq 0 (a_start - a_end)) (s0, false, false)) as [[s brk] bad].
    cbn [snd] in I1. subst bad.
    destruct (Nat.eqb (Z.to_nat (clampZ (- lo * ab) 0 r_tot / rb)) 0); discriminate.
Qed.

End Cross.
