(* C15 — the bit layout: bit_index is a bijection, encode/decode and pack/get_bit round trips. *)
From Coq Require Import ZArith List Bool Lia.
From PV Require Import Gen.C15_gen Model.C15Uint.
Import ListNotations.
Open Scope Z_scope.

(* ------------------------------------------------------------------------------------------------ *)
(** * Arithmetic helpers *)

Lemma pow2_pos' k : 0 <= k -> 0 < 2 ^ k.
Proof. intros; apply Z.pow_pos_nonneg; lia. Qed.

Lemma div_mod_small a b q r : 0 < b -> 0 <= r < b -> a = b * q + r -> a / b = q /\ a mod b = r.
Proof.
  intros Hb Hr E. split.
  - symmetry. apply (Z.div_unique a b q r); [left; lia | exact E].
  - symmetry. apply (Z.mod_unique a b q r); [left; lia | exact E].
Qed.

Lemma land_shiftl_small a n b : 0 <= n -> 0 <= b < 2 ^ n -> Z.land (Z.shiftl a n) b = 0.
Proof.
  intros Hn Hb. apply Z.bits_inj'. intros m Hm. rewrite Z.land_spec, Z.bits_0.
  destruct (Z_lt_le_dec m n).
  - rewrite Z.shiftl_spec_low by lia. reflexivity.
  - replace b with (b mod 2 ^ n) by (apply Z.mod_small; lia).
    rewrite Z.mod_pow2_bits_high by lia. apply andb_false_r.
Qed.

Lemma lor_shiftl_small a n b : 0 <= n -> 0 <= b < 2 ^ n -> Z.lor (Z.shiftl a n) b = a * 2 ^ n + b.
Proof.
  intros Hn Hb. pose proof (land_shiftl_small a n b Hn Hb) as H0.
  rewrite <- (Z.lxor_lor _ _ H0), <- (Z.add_nocarry_lxor _ _ H0), Z.shiftl_mul_pow2 by lia. reflexivity.
Qed.

(* ------------------------------------------------------------------------------------------------ *)
(** * bit_index *)

Lemma bit_index_arith_eq lb i : 0 <= lb -> 0 <= i < 8 * 2 ^ lb -> bit_index lb i = bit_index_arith lb i.
Proof.
  intros Hlb Hi. unfold bit_index, bit_index_arith.
  change 7 with (Z.ones 3). rewrite Z.land_ones by lia. rewrite Z.shiftr_div_pow2 by lia.
  change (2 ^ 3) with 8. apply lor_shiftl_small; [lia|].
  pose proof (pow2_pos' lb Hlb). split; [apply Z.div_pos; lia | apply Z.div_lt_upper_bound; lia].
Qed.

Section Arith.
  Variable P : Z.
  Hypothesis HP : 0 < P.

  Lemma bia_range i : 0 <= i < 8 * P -> 0 <= (i mod 8) * P + i / 8 < 8 * P.
  Proof.
    intros Hi. assert (0 <= i mod 8 < 8) by (apply Z.mod_pos_bound; lia).
    assert (0 <= i / 8 < P) by (split; [apply Z.div_pos; lia | apply Z.div_lt_upper_bound; lia]).
    nia.
  Qed.

  Lemma bia_inv_left i : 0 <= i < 8 * P ->
    let c := (i mod 8) * P + i / 8 in 8 * (c mod P) + c / P = i.
  Proof.
    intros Hi c.
    assert (0 <= i / 8 < P) by (split; [apply Z.div_pos; lia | apply Z.div_lt_upper_bound; lia]).
    destruct (div_mod_small c P (i mod 8) (i / 8) HP ltac:(lia) ltac:(unfold c; lia)) as [E1 E2].
    rewrite E1, E2. pose proof (Z.div_mod i 8 ltac:(lia)). lia.
  Qed.

  Lemma bia_inv_right c : 0 <= c < 8 * P ->
    let i := 8 * (c mod P) + c / P in (i mod 8) * P + i / 8 = c /\ 0 <= i < 8 * P.
  Proof.
    intros Hc i.
    assert (0 <= c mod P < P) by (apply Z.mod_pos_bound; lia).
    assert (0 <= c / P < 8) by (split; [apply Z.div_pos; lia | apply Z.div_lt_upper_bound; lia]).
    destruct (div_mod_small i 8 (c mod P) (c / P) ltac:(lia) ltac:(lia) ltac:(unfold i; lia)) as [E1 E2].
    rewrite E1, E2. pose proof (Z.div_mod c P ltac:(lia)). split; [lia | unfold i; nia].
  Qed.
End Arith.

Lemma bit_index_range lb i : 0 <= lb -> 0 <= i < 8 * 2 ^ lb -> 0 <= bit_index lb i < 8 * 2 ^ lb.
Proof. intros Hlb Hi. rewrite bit_index_arith_eq by auto. apply bia_range; auto using pow2_pos'. Qed.

Lemma bit_index_inv_left lb i : 0 <= lb -> 0 <= i < 8 * 2 ^ lb -> bit_index_inv lb (bit_index lb i) = i.
Proof. intros Hlb Hi. rewrite bit_index_arith_eq by auto. apply (bia_inv_left (2 ^ lb)); auto using pow2_pos'. Qed.

Lemma bit_index_inv_right lb c : 0 <= lb -> 0 <= c < 8 * 2 ^ lb ->
  bit_index lb (bit_index_inv lb c) = c /\ 0 <= bit_index_inv lb c < 8 * 2 ^ lb.
Proof.
  intros Hlb Hc. destruct (bia_inv_right (2 ^ lb) (pow2_pos' lb Hlb) c Hc) as [E R].
  split; [|exact R]. rewrite bit_index_arith_eq by (auto; exact R). exact E.
Qed.

Lemma bit_index_inj lb i j : 0 <= lb -> 0 <= i < 8 * 2 ^ lb -> 0 <= j < 8 * 2 ^ lb ->
  bit_index lb i = bit_index lb j -> i = j.
Proof.
  intros Hlb Hi Hj E. rewrite <- (bit_index_inv_left lb i), <- (bit_index_inv_left lb j) by auto. now rewrite E.
Qed.

(* a permutation of [0, BITS) *)
Definition bijective_on (bits : Z) (f : Z -> Z) : Prop :=
  (forall i, 0 <= i < bits -> 0 <= f i < bits) /\
  (forall i j, 0 <= i < bits -> 0 <= j < bits -> f i = f j -> i = j) /\
  (forall c, 0 <= c < bits -> exists i, 0 <= i < bits /\ f i = c).

Lemma bit_index_bijective_std lb : 0 <= lb -> bijective_on (8 * 2 ^ lb) (bit_index lb).
Proof.
  intros Hlb. repeat split.
  - apply bit_index_range; auto.
  - apply bit_index_range; auto.
  - intros i j; apply bit_index_inj; auto.
  - intros c Hc. exists (bit_index_inv lb c). destruct (bit_index_inv_right lb c Hlb Hc); auto.
Qed.

(* the generated word types are the documented ones: u8 .. u128 have LOG_BYTES 0 .. 4 and the trait's formula *)
Lemma wtypes_std : wtypes = map std_wty [0; 1; 2; 3; 4].
Proof. reflexivity. Qed.

Lemma bit_index_bijective_gen : Forall (fun T => bijective_on (w_bits T) (w_bidx T)) wtypes.
Proof.
  rewrite wtypes_std. cbn [map].
  repeat (apply Forall_cons; [cbn [std_wty w_bits w_bidx]; apply bit_index_bijective_std; lia|]). apply Forall_nil.
Qed.

(* ------------------------------------------------------------------------------------------------ *)
(** * word_of_bits *)

Lemma wob_range n f : 0 <= word_of_bits n f < 2 ^ Z.of_nat n.
Proof.
  induction n as [|k IH]; [cbn; lia|].
  cbn [word_of_bits]. rewrite Nat2Z.inj_succ, Z.pow_succ_r by lia.
  pose proof (pow2_pos' (Z.of_nat k) ltac:(lia)). destruct (f (Z.of_nat k)); cbn [Z.b2z]; lia.
Qed.

Lemma wob_testbit n f i : 0 <= i < Z.of_nat n -> Z.testbit (word_of_bits n f) i = f i.
Proof.
  induction n as [|k IH]; [lia|]. intros Hi. cbn [word_of_bits].
  pose proof (wob_range k f) as R. pose proof (pow2_pos' (Z.of_nat k) ltac:(lia)) as Hp.
  destruct (Z.eq_dec i (Z.of_nat k)) as [->|Hne].
  - set (X := word_of_bits k f + Z.b2z (f (Z.of_nat k)) * 2 ^ Z.of_nat k).
    assert (E : Z.testbit X (Z.of_nat k) = Z.testbit (X / 2 ^ Z.of_nat k) 0)
      by (rewrite Z.div_pow2_bits by lia; f_equal; lia).
    rewrite E. unfold X. rewrite Z.div_add by lia. rewrite Z.div_small by lia.
    rewrite Z.add_0_l. apply Z.b2z_bit0.
  - assert (E : (word_of_bits k f + Z.b2z (f (Z.of_nat k)) * 2 ^ Z.of_nat k) mod 2 ^ Z.of_nat k = word_of_bits k f)
      by (rewrite Z.mod_add by lia; apply Z.mod_small; lia).
    rewrite <- (Z.mod_pow2_bits_low _ (Z.of_nat k)) by lia. rewrite E. apply IH; lia.
Qed.

Lemma wob_ext n f g : (forall i, 0 <= i < Z.of_nat n -> f i = g i) -> word_of_bits n f = word_of_bits n g.
Proof.
  induction n as [|k IH]; [reflexivity|]. intros H. cbn [word_of_bits].
  rewrite IH by (intros; apply H; lia). rewrite (H (Z.of_nat k)) by lia. reflexivity.
Qed.

Lemma wob_of_testbit n w : 0 <= w < 2 ^ Z.of_nat n -> word_of_bits n (Z.testbit w) = w.
Proof.
  intros Hw. apply Z.bits_inj'. intros i Hi.
  destruct (Z_lt_le_dec i (Z.of_nat n)).
  - apply wob_testbit; lia.
  - pose proof (wob_range n (Z.testbit w)).
    rewrite <- (Z.mod_small (word_of_bits n (Z.testbit w)) (2 ^ Z.of_nat n)) by lia.
    rewrite <- (Z.mod_small w (2 ^ Z.of_nat n)) at 2 by lia.
    rewrite !Z.mod_pow2_bits_high by lia. reflexivity.
Qed.

(* ------------------------------------------------------------------------------------------------ *)
(** * zseq *)

Lemma in_zseq s n i : In i (zseq s n) <-> s <= i < s + Z.of_nat n.
Proof.
  revert s; induction n as [|k IH]; intros s; cbn [zseq In].
  - lia.
  - rewrite IH. lia.
Qed.

Lemma zseq_length s n : length (zseq s n) = n.
Proof. revert s; induction n; intros; cbn; auto. Qed.

Lemma nth_zseq s n k d : (k < n)%nat -> nth k (zseq s n) d = s + Z.of_nat k.
Proof.
  revert s k; induction n as [|m IH]; intros s k Hk; [lia|].
  destruct k; cbn [zseq nth]; [lia|]. rewrite IH by lia. lia.
Qed.

(* ------------------------------------------------------------------------------------------------ *)
(** * encode / decode for any word type whose bit_index is injective *)

Section Enc.
  Variable T : wty.
  Variable logn : Z.
  Hypothesis Hbits : 0 <= w_bits T.
  Hypothesis Hinj : forall i j, 0 <= i < w_bits T -> 0 <= j < w_bits T -> cidx T logn i = cidx T logn j -> i = j.

  Let upd (w : Z) (f : poly) (i : Z) : poly := fun j => if j =? cidx T logn i then bitz w i else f j.

  Lemma enc_fold_off w l f j : (forall i, In i l -> cidx T logn i <> j) -> fold_left (upd w) l f j = f j.
  Proof.
    revert f; induction l as [|x l IH]; intros f H; [reflexivity|].
    cbn [fold_left]. rewrite IH by (intros; apply H; now right).
    unfold upd. destruct (Z.eqb_spec j (cidx T logn x)); [exfalso; apply (H x); [now left | auto]| reflexivity].
  Qed.

  Lemma enc_fold_at w l f i :
    In i l -> (forall i', In i' l -> cidx T logn i' = cidx T logn i -> i' = i) ->
    fold_left (upd w) l f (cidx T logn i) = bitz w i.
  Proof.
    revert f; induction l as [|x l IH]; intros f Hin H; [destruct Hin|].
    cbn [fold_left]. destruct (in_dec Z.eq_dec i l) as [Hl|Hl].
    - apply IH; auto. intros; apply H; auto. now right.
    - destruct Hin as [->|Hin]; [|contradiction].
      rewrite enc_fold_off.
      + unfold upd. now rewrite Z.eqb_refl.
      + intros i' Hi' E. apply Hl. rewrite <- (H i'); auto. now right.
  Qed.

  Lemma nbits_Z : Z.of_nat (nbits T) = w_bits T.
  Proof. unfold nbits. apply Z2Nat.id; auto. Qed.

  Lemma enc_at w i : 0 <= i < w_bits T -> p_enc T logn w (cidx T logn i) = bitz w i.
  Proof.
    intros Hi. unfold p_enc. apply (enc_fold_at w).
    - apply in_zseq. rewrite nbits_Z. lia.
    - intros i' Hi' E. apply in_zseq in Hi'. rewrite nbits_Z in Hi'. apply Hinj; auto; lia.
  Qed.

  Lemma enc_off w j : (forall i, 0 <= i < w_bits T -> cidx T logn i <> j) -> p_enc T logn w j = 0.
  Proof.
    intros H. unfold p_enc. rewrite (enc_fold_off w); [reflexivity|].
    intros i Hi. apply in_zseq in Hi. rewrite nbits_Z in Hi. apply H; lia.
  Qed.

  Lemma bitz_nonzero w i : negb (bitz w i mod 256 =? 0) = Z.testbit w i.
  Proof. unfold bitz. destruct (Z.testbit w i); reflexivity. Qed.

  (* decrypt (encrypt w) = w *)
  Lemma dec_enc w : 0 <= w < 2 ^ w_bits T -> p_dec T logn (p_enc T logn w) = w.
  Proof.
    intros Hw. unfold p_dec.
    rewrite (wob_ext _ _ (Z.testbit w)).
    - apply wob_of_testbit. now rewrite nbits_Z.
    - intros i Hi. rewrite nbits_Z in Hi. rewrite enc_at by lia. apply bitz_nonzero.
  Qed.

  (* decode reads exactly the positions cidx i *)
  Lemma dec_testbit q i : 0 <= i < w_bits T -> Z.testbit (p_dec T logn q) i = negb (q (cidx T logn i) mod 256 =? 0).
  Proof. intros Hi. unfold p_dec. rewrite wob_testbit; [reflexivity | rewrite nbits_Z; lia]. Qed.

  (* pack: position cidx i receives the constant coefficient of the i-th ciphertext *)
  Lemma pack_fold_off (cts : list (Z * poly)) acc j :
    (forall ic, In ic cts -> cidx T logn (fst ic) <> j) ->
    fold_left (fun a (ic : Z * poly) => if j =? cidx T logn (fst ic) then snd ic 0 else a) cts acc = acc.
  Proof.
    revert acc; induction cts as [|x l IH]; intros acc H; [reflexivity|]. cbn [fold_left].
    rewrite IH by (intros; apply H; now right).
    destruct (Z.eqb_spec j (cidx T logn (fst x))); [exfalso; apply (H x); [now left|auto] | reflexivity].
  Qed.
End Enc.
