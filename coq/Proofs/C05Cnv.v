(* C05 part 1 — proofs about the HAL convolution model (Model/C05Cnv.v): the computed window equals the explicit sum
   over index pairs, offsets past the end, family independence, preparation, the pairwise trick, constants,
   the (hi, lo) offset split and the top-limb mask. *)
From PV Require Import Base.MachineInt Model.Znx Model.Limbs Model.Ring Model.DftAbs Model.C05Cnv Model.C05Spec Model.C05Core.
From PV Require Import Proofs.C07Dft Proofs.C07Ring.
Open Scope Z_scope.

(* ---------- shapes ---------- *)
Definition wfl (n : nat) (a : plimbs) : Prop := forall j, (j < length a)%nat -> length (lim a j) = n.

Lemma lim_mk' rsz f j : (j < rsz)%nat -> lim (mk rsz f) j = f j.
Proof.
  intros H. unfold lim, mk.
  rewrite (nth_indep _ [] (f 0%nat)) by (rewrite map_length, seq_length; exact H).
  rewrite map_nth, seq_nth by exact H. reflexivity.
Qed.
Lemma mk_len rsz f : length (mk rsz f) = rsz.
Proof. unfold mk; rewrite map_length, seq_length; reflexivity. Qed.

(* ---------- psumf ---------- *)
Lemma psumf_S n f m : psumf n f (S m) = padd (psumf n f m) (f m).
Proof. unfold psumf. rewrite seq_S, fold_left_app. reflexivity. Qed.

Lemma psumf_length n f m : (forall q, (q < m)%nat -> length (f q) = n) -> length (psumf n f m) = n.
Proof.
  induction m as [|m IH]; intros H; [apply pzero_length|].
  rewrite psumf_S, padd_length, IH, H by auto with arith. apply Nat.min_id.
Qed.

Lemma psumf_coeff n f m k : (forall q, (q < m)%nat -> length (f q) = n) ->
  nth k (psumf n f m) 0 = zsum (fun q => nth k (f q) 0) m.
Proof.
  induction m as [|m IH]; intros H; [cbn [psumf seq fold_left]; apply nth_pzero|].
  rewrite psumf_S, zsum_S, nth_padd, IH by (rewrite ?psumf_length; auto with arith). reflexivity.
Qed.

Lemma psumf_ext n f g m : (forall q, (q < m)%nat -> f q = g q) -> psumf n f m = psumf n g m.
Proof.
  induction m as [|m IH]; intros H; [reflexivity|].
  rewrite !psumf_S, IH, H by auto with arith. reflexivity.
Qed.

Lemma padd_pzero_r' n l : length l = n -> padd l (pzero n) = l.
Proof.
  intros H. apply list_eq_nth; [rewrite padd_length, pzero_length; lia|].
  intros k _. rewrite nth_padd by (rewrite pzero_length; lia). rewrite nth_pzero. lia.
Qed.

Lemma psumf_zero n m : psumf n (fun _ => pzero n) m = pzero n.
Proof.
  induction m as [|m IH]; [reflexivity|]. rewrite psumf_S, IH. apply padd_pzero_r'. apply pzero_length.
Qed.

(* fold over a shifted range *)
Lemma seq_as_map lo len : seq lo len = map (Nat.add lo) (seq 0 len).
Proof.
  revert lo; induction len as [|len IH]; intros lo; [reflexivity|].
  cbn [seq map]. rewrite Nat.add_0_r. f_equal.
  rewrite IH, <- seq_shift, map_map. apply map_ext. intros t. lia.
Qed.

Lemma fold_left_map' {A B C} (f : A -> B -> A) (g : C -> B) l a :
  fold_left f (map g l) a = fold_left (fun a x => f a (g x)) l a.
Proof. revert a; induction l as [|x l IH]; intros a; [reflexivity|]. cbn [map fold_left]. apply IH. Qed.

Lemma fold_range_psumf n (g : nat -> list Z) lo len :
  fold_left (fun acc j => padd acc (g j)) (seq lo len) (pzero n) = psumf n (fun t => g (lo + t)%nat) len.
Proof. unfold psumf. rewrite (seq_as_map lo len), fold_left_map'. reflexivity. Qed.

(* ---------- windows of Z sums ---------- *)
Lemma zsum_window (g : nat -> Z) lo hi m :
  zsum (fun j => if Nat.leb lo j && Nat.ltb j hi then g j else 0) m = zsum (fun t => g (lo + t)%nat) (Nat.min hi m - lo).
Proof.
  induction m as [|m IH].
  - rewrite Nat.min_0_r. reflexivity.
  - rewrite zsum_S, IH.
    destruct (Nat.leb_spec lo m) as [H1|H1]; destruct (Nat.ltb_spec m hi) as [H2|H2]; cbn [andb].
    + replace (Nat.min hi (S m) - lo)%nat with (S (Nat.min hi m - lo)) by lia.
      rewrite zsum_S. f_equal. f_equal. lia.
    + replace (Nat.min hi (S m)) with (Nat.min hi m) by lia. lia.
    + replace (Nat.min hi (S m) - lo)%nat with 0%nat by lia. replace (Nat.min hi m - lo)%nat with 0%nat by lia. lia.
    + replace (Nat.min hi (S m) - lo)%nat with 0%nat by lia. replace (Nat.min hi m - lo)%nat with 0%nat by lia. lia.
Qed.

(* a sum with at most one non-zero term *)
Lemma zsum_pick (g : nat -> Z) (c : nat -> bool) i0 n :
  (forall i, (i < n)%nat -> c i = true -> i = i0) ->
  zsum (fun i => if c i then g i else 0) n = if Nat.ltb i0 n && c i0 then g i0 else 0.
Proof.
  intros H. induction n as [|n IH].
  - reflexivity.
  - rewrite zsum_S, IH by (intros; apply H; auto with arith).
    destruct (c n) eqn:Hc.
    + assert (n = i0) by (apply H; auto with arith). subst i0.
      rewrite Nat.ltb_irrefl. cbn [andb]. replace (Nat.ltb n (S n)) with true by (symmetry; apply Nat.ltb_lt; lia).
      rewrite Hc. cbn [andb]. lia.
    + destruct (Nat.ltb_spec i0 n) as [H1|H1]; cbn [andb].
      * replace (Nat.ltb i0 (S n)) with true by (symmetry; apply Nat.ltb_lt; lia). cbn [andb]. lia.
      * destruct (Nat.ltb_spec i0 (S n)) as [H2|H2]; cbn [andb]; [|lia].
        assert (i0 = n) by lia. subst i0. rewrite Hc. lia.
Qed.

(* ---------- bivariate coefficient: coefficient-wise formula ---------- *)
Section Coeff.
Variables (n : nat) (a b : plimbs).
Hypothesis wa : wfl n a.
Hypothesis wb : wfl n b.

Lemma term_length i j K : (i < length a)%nat ->
  length (if Nat.eqb (i + j) K then pmul (lim a i) (lim b j) else pzero n) = n.
Proof. intros Hi. destruct (Nat.eqb (i + j) K); [rewrite pmul_length; apply wa; exact Hi|apply pzero_length]. Qed.

Lemma bivariate_length K : length (bivariate_coeff n a b K) = n.
Proof.
  unfold bivariate_coeff. apply psumf_length. intros i Hi. apply psumf_length. intros j _. apply term_length; exact Hi.
Qed.

Lemma bivariate_nth K c :
  nth c (bivariate_coeff n a b K) 0 =
  zsum (fun i => zsum (fun j => if Nat.eqb (i + j) K then nth c (pmul (lim a i) (lim b j)) 0 else 0) (length b)) (length a).
Proof.
  unfold bivariate_coeff.
  rewrite psumf_coeff by (intros i Hi; apply psumf_length; intros j _; apply term_length; exact Hi).
  apply zsum_ext; intros i Hi.
  rewrite psumf_coeff by (intros j _; apply term_length; exact Hi).
  apply zsum_ext; intros j _.
  destruct (Nat.eqb (i + j) K); [reflexivity|apply nth_pzero].
Qed.

Lemma bivariate_zero K : (length a + length b - 1 <= K)%nat -> bivariate_coeff n a b K = pzero n.
Proof.
  intros H. apply list_eq_nth; [rewrite bivariate_length, pzero_length; reflexivity|].
  intros c _. rewrite bivariate_nth, nth_pzero.
  apply zsum_none; intros i Hi. apply zsum_none; intros j Hj.
  destruct (Nat.eqb_spec (i + j) K); [lia|reflexivity].
Qed.

(* the window the kernels iterate over *)
Lemma cnv_coeff_spec K : (1 <= length a)%nat -> (1 <= length b)%nat ->
  cnv_coeff n a b K = bivariate_coeff n a b K.
Proof.
  intros Ha Hb. unfold cnv_coeff.
  destruct (Nat.leb_spec (length a + length b) K) as [Hbig|Hsmall].
  { symmetry; apply bivariate_zero; lia. }
  set (j_min := (K - (length a - 1))%nat). set (j_max := Nat.min (K + 1) (length b)).
  rewrite fold_range_psumf.
  assert (Hlen : forall t, (t < j_max - j_min)%nat -> length (pmul (lim a (K - (j_min + t))) (lim b (j_min + t))) = n).
  { intros t Ht. rewrite pmul_length. apply wa. subst j_min j_max. lia. }
  apply list_eq_nth; [rewrite psumf_length by exact Hlen; rewrite bivariate_length; reflexivity|].
  intros c _. rewrite psumf_coeff by exact Hlen. rewrite bivariate_nth.
  rewrite zsum_swap.
  transitivity (zsum (fun j => if Nat.leb j_min j && Nat.ltb j (K + 1)
                                then nth c (pmul (lim a (K - j)) (lim b j)) 0 else 0) (length b)).
  - rewrite zsum_window. reflexivity.
  - apply zsum_ext; intros j Hj. symmetry.
    (* inner sum over i: only i = K - j can contribute *)
    transitivity (zsum (fun i => if Nat.eqb (i + j) K then nth c (pmul (lim a (K - j)) (lim b j)) 0 else 0) (length a)).
    { apply zsum_ext; intros i _. destruct (Nat.eqb_spec (i + j) K) as [E|E]; [|reflexivity].
      replace (K - j)%nat with i by lia. reflexivity. }
    rewrite (zsum_pick (fun _ => nth c (pmul (lim a (K - j)) (lim b j)) 0) (fun i => Nat.eqb (i + j) K) (K - j)%nat).
    2:{ intros i _ E. apply Nat.eqb_eq in E. lia. }
    subst j_min.
    destruct (Nat.ltb_spec (K - j) (length a)); destruct (Nat.eqb_spec (K - j + j) K);
      destruct (Nat.leb_spec (K - (length a - 1)) j); destruct (Nat.ltb_spec j (K + 1)); cbn [andb]; try reflexivity; lia.
Qed.
End Coeff.

(* ---------- cnv_apply ---------- *)
Theorem cnv_apply_spec fft n rsz off a b k : wfl n a -> wfl n b -> (1 <= length a)%nat -> (1 <= length b)%nat ->
  (k < rsz)%nat -> lim (cnv_apply fft n rsz off a b) k = bivariate_coeff n a b (k + off).
Proof.
  intros wa wb Ha Hb Hk. unfold cnv_apply. rewrite lim_mk' by exact Hk.
  unfold cnv_min_size, cnv_off, cnv_bound.
  set (bound := (length a + length b - 1)%nat).
  destruct (Nat.ltb_spec k (if fft then Nat.min rsz bound else Nat.min rsz (bound + 1 - Nat.min off bound))) as [H|H].
  - rewrite cnv_coeff_spec by assumption.
    destruct (Nat.le_gt_cases off bound) as [Ho|Ho].
    + rewrite Nat.min_l by exact Ho. reflexivity.
    + rewrite Nat.min_r by lia. rewrite !bivariate_zero by (try assumption; subst bound; lia). reflexivity.
  - symmetry. apply bivariate_zero; try assumption. fold bound. destruct fft; lia.
Qed.

Lemma cnv_apply_length fft n rsz off a b : length (cnv_apply fft n rsz off a b) = rsz.
Proof. apply mk_len. Qed.

Lemma cnv_apply_wfl fft n rsz off a b : wfl n a -> wfl n b -> (1 <= length a)%nat -> (1 <= length b)%nat ->
  wfl n (cnv_apply fft n rsz off a b).
Proof.
  intros wa wb Ha Hb j Hj. rewrite cnv_apply_length in Hj.
  rewrite cnv_apply_spec by assumption. apply bivariate_length; assumption.
Qed.

(* offsets past the end give zero *)
Corollary cnv_apply_past_end fft n rsz off a b k : wfl n a -> wfl n b -> (1 <= length a)%nat -> (1 <= length b)%nat ->
  (k < rsz)%nat -> (length a + length b - 1 <= k + off)%nat -> lim (cnv_apply fft n rsz off a b) k = pzero n.
Proof. intros. rewrite cnv_apply_spec by assumption. apply bivariate_zero; assumption. Qed.

(* the two families compute the same limbs *)
Corollary cnv_apply_family_independent n rsz off a b : wfl n a -> wfl n b -> (1 <= length a)%nat -> (1 <= length b)%nat ->
  cnv_apply true n rsz off a b = cnv_apply false n rsz off a b.
Proof.
  intros wa wb Ha Hb. unfold cnv_apply at 1 2. unfold mk. apply map_ext_in. intros k Hk. apply in_seq in Hk.
  pose proof (cnv_apply_spec true n rsz off a b k wa wb Ha Hb ltac:(lia)) as H1.
  pose proof (cnv_apply_spec false n rsz off a b k wa wb Ha Hb ltac:(lia)) as H2.
  unfold cnv_apply in H1, H2. rewrite lim_mk' in H1, H2 by lia. rewrite H1, H2. reflexivity.
Qed.

(* the index pairs that cannot contribute may be skipped *)
Lemma bivariate_fast_eq n a b K : wfl n a -> wfl n b -> bivariate_coeff_fast n a b K = bivariate_coeff n a b K.
Proof.
  intros wa wb. unfold bivariate_coeff_fast, bivariate_coeff. apply psumf_ext. intros i Hi.
  assert (Hl : length (pmul (lim a i) (lim b (K - i))) = n) by (rewrite pmul_length; apply wa; exact Hi).
  apply list_eq_nth.
  { rewrite psumf_length by (intros j _; apply term_length; [exact wa|exact Hi]).
    destruct (Nat.leb i K && Nat.ltb (K - i) (length b)); [exact Hl|apply pzero_length]. }
  intros c _.
  rewrite psumf_coeff by (intros j _; apply term_length; [exact wa|exact Hi]).
  rewrite (zsum_ext _ (fun j => if Nat.eqb (i + j) K then nth c (pmul (lim a i) (lim b (K - i))) 0 else 0)).
  2:{ intros j _. destruct (Nat.eqb_spec (i + j) K) as [E|E]; [|apply nth_pzero]. replace (K - i)%nat with j by lia. reflexivity. }
  rewrite (zsum_pick (fun _ => nth c (pmul (lim a i) (lim b (K - i))) 0) (fun j => Nat.eqb (i + j) K) (K - i)%nat).
  2:{ intros j _ E. apply Nat.eqb_eq in E. lia. }
  destruct (Nat.leb_spec i K); destruct (Nat.ltb_spec (K - i) (length b)); destruct (Nat.eqb_spec (i + (K - i)) K);
    cbn [andb]; try reflexivity; try lia; rewrite ?nth_pzero; reflexivity.
Qed.

(* ---------- preparation ---------- *)
Lemma mask_limb_length m l : length (mask_limb m l) = length l.
Proof. apply map_length. Qed.

Lemma cnv_prepare_length n psz mask a : length (cnv_prepare n psz mask a) = psz.
Proof. apply mk_len. Qed.

Theorem cnv_prepare_spec n psz mask a j : (j < psz)%nat ->
  lim (cnv_prepare n psz mask a) j =
  let min_size := Nat.min psz (length a) in
  if Nat.ltb (S j) min_size then lim a j
  else if Nat.ltb j min_size then mask_limb mask (lim a j) else pzero n.
Proof. intros H. unfold cnv_prepare. rewrite lim_mk' by exact H. reflexivity. Qed.

Lemma cnv_prepare_wfl n psz mask a : wfl n a -> wfl n (cnv_prepare n psz mask a).
Proof.
  intros wa j Hj. rewrite cnv_prepare_length in Hj. rewrite cnv_prepare_spec by exact Hj. cbv zeta.
  destruct (Nat.ltb_spec (S j) (Nat.min psz (length a))); [apply wa; lia|].
  destruct (Nat.ltb_spec j (Nat.min psz (length a))); [rewrite mask_limb_length; apply wa; lia|apply pzero_length].
Qed.

(* with the all-ones mask and psz = a.size the prepared operand is the operand *)
Lemma land_m1 x : Z.land x (-1) = x.
Proof. apply Z.land_m1_r. Qed.
Lemma mask_limb_m1 l : mask_limb (-1) l = l.
Proof. unfold mask_limb. rewrite (map_ext _ (fun x => x)) by apply land_m1. apply map_id. Qed.

(* ---------- pairwise ---------- *)
Lemma nth_combine_gen {A B} (a : list A) (b : list B) k da db : (k < length a)%nat -> (k < length b)%nat ->
  nth k (combine a b) (da, db) = (nth k a da, nth k b db).
Proof.
  revert b k; induction a as [|x a IH]; intros [|y b] [|k] Ha Hb; cbn [length] in *; try lia; cbn [combine nth].
  - reflexivity.
  - apply IH; lia.
Qed.

Lemma plimbs_add_length a b : length (plimbs_add a b) = Nat.min (length a) (length b).
Proof. apply map2_length. Qed.

Lemma lim_plimbs_add a b i : (i < length a)%nat -> (i < length b)%nat ->
  lim (plimbs_add a b) i = padd (lim a i) (lim b i).
Proof.
  intros Ha Hb. unfold lim, plimbs_add, map2.
  rewrite (nth_map' _ _ _ _ ([], [])) by (rewrite combine_length; lia).
  rewrite nth_combine_gen by assumption. reflexivity.
Qed.

Lemma plimbs_add_wfl n a b : wfl n a -> wfl n b -> length b = length a -> wfl n (plimbs_add a b).
Proof.
  intros wa wb Hl j Hj. rewrite plimbs_add_length in Hj.
  rewrite lim_plimbs_add by lia. rewrite padd_length, wa, wb by lia. apply Nat.min_id.
Qed.

Lemma pmul_bilinear_nth x1 x2 y1 y2 c : length x2 = length x1 -> length y1 = length x1 -> length y2 = length x1 ->
  nth c (pmul (padd x1 x2) (padd y1 y2)) 0 =
  nth c (pmul x1 y1) 0 + nth c (pmul x1 y2) 0 + nth c (pmul x2 y1) 0 + nth c (pmul x2 y2) 0.
Proof.
  intros H1 H2 H3.
  rewrite pmul_padd_distr_r by (try rewrite padd_length; lia).
  rewrite !pmul_padd_distr_l by lia.
  repeat rewrite nth_padd by (rewrite ?padd_length, ?pmul_length; lia).
  ring.
Qed.

(* (a_i + a_j)(b_i + b_j) - a_i b_i - a_j b_j = a_i b_j + a_j b_i, for every coefficient in Y of the bivariate product *)
Theorem pairwise_bivariate n ai aj bi bj K : wfl n ai -> wfl n aj -> wfl n bi -> wfl n bj ->
  length aj = length ai -> length bj = length bi ->
  psub (psub (bivariate_coeff n (plimbs_add ai aj) (plimbs_add bi bj) K) (bivariate_coeff n ai bi K)) (bivariate_coeff n aj bj K)
  = padd (bivariate_coeff n ai bj K) (bivariate_coeff n aj bi K).
Proof.
  intros wai waj wbi wbj Ha Hb.
  pose proof (plimbs_add_wfl n ai aj wai waj Ha) as was.
  pose proof (plimbs_add_wfl n bi bj wbi wbj Hb) as wbs.
  apply list_eq_nth.
  { rewrite !psub_length, padd_length, !bivariate_length by assumption. lia. }
  intros c _.
  rewrite !nth_psub, nth_padd by (rewrite ?psub_length, !bivariate_length by assumption; lia).
  rewrite !bivariate_nth by assumption.
  rewrite !plimbs_add_length, Ha, Hb, !Nat.min_id.
  rewrite <- !zsum_sub, <- zsum_add. apply zsum_ext; intros i Hi.
  rewrite <- !zsum_sub, <- zsum_add. apply zsum_ext; intros j Hj.
  destruct (Nat.eqb (i + j) K); [|ring].
  rewrite !lim_plimbs_add by lia.
  rewrite pmul_bilinear_nth by (rewrite ?waj, ?wbi, ?wbj, ?wai by lia; reflexivity).
  ring.
Qed.

Theorem cnv_pairwise_spec fft n rsz off ai aj bi bj same k :
  wfl n ai -> wfl n aj -> wfl n bi -> wfl n bj -> length aj = length ai -> length bj = length bi ->
  (1 <= length ai)%nat -> (1 <= length bi)%nat -> (k < rsz)%nat ->
  lim (cnv_pairwise fft n rsz off ai aj bi bj same) k =
  if same then bivariate_coeff n ai bi (k + off)
  else bivariate_coeff n (plimbs_add ai aj) (plimbs_add bi bj) (k + off).
Proof.
  intros wai waj wbi wbj Ha Hb H1 H2 Hk. unfold cnv_pairwise. destruct same.
  - apply cnv_apply_spec; assumption.
  - apply cnv_apply_spec; try assumption.
    + apply plimbs_add_wfl; assumption.
    + apply plimbs_add_wfl; assumption.
    + rewrite plimbs_add_length; lia.
    + rewrite plimbs_add_length; lia.
Qed.

(* the identity as the code uses it: pairwise(i, j) - apply(i, i) - apply(j, j) = apply(a_i, b_j) + apply(a_j, b_i), limb by limb *)
Theorem pairwise_identity_cnv fft n rsz off ai aj bi bj k :
  wfl n ai -> wfl n aj -> wfl n bi -> wfl n bj -> length aj = length ai -> length bj = length bi ->
  (1 <= length ai)%nat -> (1 <= length bi)%nat -> (k < rsz)%nat ->
  psub (psub (lim (cnv_pairwise fft n rsz off ai aj bi bj false) k) (lim (cnv_apply fft n rsz off ai bi) k))
       (lim (cnv_apply fft n rsz off aj bj) k)
  = padd (lim (cnv_apply fft n rsz off ai bj) k) (lim (cnv_apply fft n rsz off aj bi) k).
Proof.
  intros wai waj wbi wbj Ha Hb H1 H2 Hk.
  rewrite cnv_pairwise_spec by assumption.
  rewrite !cnv_apply_spec by (try assumption; lia).
  apply pairwise_bivariate; assumption.
Qed.

(* ---------- multiplication by a constant polynomial ---------- *)
Lemma pconst_length n c : length (pconst n c) = n.
Proof. destruct n; cbn [pconst length]; [reflexivity|]. unfold zeros. rewrite repeat_length. reflexivity. Qed.

Lemma nth_pconst n c i : nthZ (pconst n c) i = if Nat.eqb i 0 then (if Nat.eqb n 0 then 0 else c) else 0.
Proof.
  unfold nthZ. destruct n as [|n]; cbn [pconst].
  - destruct i; reflexivity.
  - destruct i as [|i]; cbn [nth Nat.eqb]; [reflexivity|].
    unfold zeros. apply nth_repeat.
Qed.

Lemma pscale_length c q : length (pscale c q) = length q.
Proof. apply map_length. Qed.
Lemma nth_pscale c q k : nth k (pscale c q) 0 = c * nth k q 0.
Proof.
  unfold pscale. destruct (Nat.lt_ge_cases k (length q)).
  - rewrite (nth_map' _ _ _ _ 0) by assumption. reflexivity.
  - rewrite !nth_overflow by (rewrite ?map_length; lia). lia.
Qed.

(* a * (constant polynomial c) = c . a *)
Theorem pmul_pconst x c : (1 <= length x)%nat -> pmul x (pconst (length x) c) = pscale c x.
Proof.
  intros Hn. rewrite pmul_comm by apply pconst_length.
  apply list_eq_nth; [rewrite pmul_length, pconst_length, pscale_length; reflexivity|].
  rewrite pmul_length, pconst_length. intros k Hk.
  rewrite pmul_spec by (rewrite ?pconst_length; auto).
  rewrite pconst_length.
  rewrite (zsum_ext _ (fun i => if Nat.eqb i 0 then c * nth k x 0 else 0)).
  2:{ intros i _. rewrite nth_pconst. destruct (Nat.eqb_spec i 0) as [->|]; [|ring].
      destruct (Nat.eqb_spec (length x) 0); [lia|].
      replace (Z.of_nat k - Z.of_nat 0) with (Z.of_nat k - Z.of_nat 0%nat) by reflexivity.
      rewrite ext'_lo by lia. rewrite Nat.sub_0_r. reflexivity. }
  rewrite (zsum_single (fun _ => c * nth k x 0) 0%nat) by lia.
  rewrite nth_pscale. reflexivity.
Qed.

(* ---------- scalar helpers of poulpy-core/src/operations/glwe.rs ---------- *)
Theorem offset_split_correct b cnv : 1 <= b -> 0 <= cnv ->
  let '(hi, lo) := offset_split b cnv in
  hi * b + lo = cnv - b /\ 0 <= hi /\ - b <= lo < b /\
  (cnv < b -> hi = 0 /\ lo = cnv - b) /\ (b <= cnv -> hi = cnv / b - 1 /\ lo = cnv mod b).
Proof.
  intros Hb Hc. unfold offset_split.
  destruct (Z.ltb_spec cnv b) as [H|H].
  - rewrite Z.mod_small by lia. repeat split; lia.
  - assert (1 <= cnv / b) by (apply Z.div_le_lower_bound; lia).
    rewrite Z.max_l by lia.
    pose proof (Z.div_mod cnv b ltac:(lia)). pose proof (Z.mod_pos_bound cnv b ltac:(lia)).
    repeat split; try lia.
Qed.

Lemma land_neg_pow2 x s : 0 <= s -> Z.land x (- 2 ^ s) = x - x mod 2 ^ s.
Proof.
  intros Hs.
  replace (- 2 ^ s) with (Z.lnot (Z.ones s)) by (unfold Z.lnot; rewrite Z.ones_equiv; lia).
  rewrite <- Z.ldiff_land, Z.ldiff_ones_r by exact Hs.
  rewrite Z.shiftl_mul_pow2, Z.shiftr_div_pow2 by exact Hs.
  pose proof (pow2_pos s Hs). pose proof (Z.div_mod x (2 ^ s) ltac:(lia)). lia.
Qed.

Theorem msb_mask_spec b k x : 1 <= b <= 63 -> 0 <= k ->
  Z.land x (msb_mask b k) = if k mod b =? 0 then x else x - x mod 2 ^ (b - k mod b).
Proof.
  intros Hb Hk. unfold msb_mask.
  pose proof (Z.mod_pos_bound k b ltac:(lia)) as Hr.
  destruct (Z.eqb_spec (k mod b) 0) as [E|E]; [apply Z.land_m1_r|].
  unfold shl. rewrite wrap_id; [|lia|].
  - replace (-1 * 2 ^ (b - k mod b)) with (- 2 ^ (b - k mod b)) by lia. apply land_neg_pow2. lia.
  - unfold in_range. 
    assert (2 ^ (b - k mod b) <= 2 ^ 62) by (apply Z.pow_le_mono_r; lia).
    pose proof (pow2_pos (b - k mod b) ltac:(lia)). change (2 ^ (64 - 1)) with (2 * 2 ^ 62). lia.
Qed.
