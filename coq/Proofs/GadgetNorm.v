(* Composition with the final normalisation (shared by C03 / C04).
   1. val_scaled / poly_val link, lift_coeff with a total per-coefficient function.
   2. normalize_value_ok : what one column normalisation does to the value (out = big + r + 2^P I, |r| <= one unit of the last limb);
      big_normalize_value_fft64 : PROVED for the FFT64 family, same radix, from C08's normalize_inter_value (Proofs/C08Normalize.v,
      imported read-only).  For NTT120 (LimbsBig.normalize_big) and cross-radix it stays a hypothesis of the composition theorems.
   3. normalize_cols_phase : normalising every column changes the phase by R + 2^P I with |R| <= (1 + rank n S) units of the last limb.
   4. C03_glwe_keyswitch_phase_final(_fft64)_lemma, C04_glwe_external_product_phase_final_lemma : Gadget.glwe_keyswitch /
      Gadget.glwe_external_product in the same-radix case input radix = key radix. *)
From PV Require Import Base.MachineInt Model.Znx Model.Limbs Model.Flat Model.Ring Model.Poly Model.DftAbs Model.Gadget Model.GadgetSpec Model.C08Oracle Proofs.C07Dft Proofs.C07Ring Proofs.C08Normalize Proofs.GadgetDecomp Proofs.GadgetPhase Proofs.GadgetBound Proofs.C03Phase Proofs.C04Phase.
Open Scope Z_scope.

(* ---------------------------------------------------------------------------------------------------------------- *)
(* value of a coefficient's limb list (C08's val_scaled) = coefficient of the polynomial value (Gadget.poly_val) *)
Section ValScaled.
Lemma val_fold_snd P b l a k :
  snd (fold_left (fun (s : Z * Z) x => (fst s + x * 2 ^ (P - (snd s + 1) * b), snd s + 1)) l (a, k)) = k + Z.of_nat (length l).
Proof.
  revert a k; induction l as [|x l IH]; intros a k; cbn [fold_left length]; [cbn [snd]; lia|].
  cbn [fst snd]. rewrite IH. lia.
Qed.

Lemma val_scaled_app P b l x : val_scaled P b (l ++ [x]) = val_scaled P b l + x * 2 ^ (P - (Z.of_nat (length l) + 1) * b).
Proof.
  unfold val_scaled. rewrite fold_left_app. cbn [fold_left fst].
  pose proof (val_fold_snd P b l 0 0) as E. rewrite Z.add_0_l in E. rewrite E. reflexivity.
Qed.

Lemma val_scaled_zsum P b l : val_scaled P b l = zsum (fun j => nthZ l j * 2 ^ (P - (Z.of_nat j + 1) * b)) (length l).
Proof.
  induction l as [|x l IH] using rev_ind; [reflexivity|].
  rewrite val_scaled_app, IH, app_length. cbn [length]. rewrite Nat.add_1_r, zsum_S. f_equal.
  - apply zsum_ext; intros j Hj. f_equal. unfold nthZ. symmetry. apply app_nth1; exact Hj.
  - f_equal. unfold nthZ. rewrite app_nth2 by lia. rewrite Nat.sub_diag. reflexivity.
Qed.

Lemma poly_val_coeff P b n (limbs : plimbs) k : (forall j, (j < length limbs)%nat -> length (lim limbs j) = n) ->
  nth k (poly_val P b n limbs) 0 = val_scaled P b (map (fun l => nthZ l k) limbs).
Proof.
  intros H. rewrite poly_val_pval. unfold pval.
  rewrite psumf_coeff by (intros; rewrite pscale_length; auto).
  rewrite val_scaled_zsum, map_length. apply zsum_ext; intros j Hj.
  rewrite nth_pscale. unfold nthZ at 1. rewrite (nth_map' _ _ _ _ []) by exact Hj. unfold lim, nthZ. ring.
Qed.
End ValScaled.

(* ---------------------------------------------------------------------------------------------------------------- *)
(* lift_coeff with a total per-coefficient function *)
Section Lift.
Lemma sequence_map_some {X Y} (g : X -> Y) (l : list X) : sequence (map (fun x => Some (g x)) l) = Some (map g l).
Proof. induction l as [|x l IH]; cbn [map sequence]; [reflexivity|]. rewrite IH. reflexivity. Qed.

Lemma lift_coeff_total (G : list Z -> list Z -> list Z) n rsize (a r : list (list Z)) :
  lift_coeff (fun al rl => Some (G al rl)) n rsize a r
  = Some (untranspose rsize (map (fun p => G (fst p) (snd p)) (combine (transpose n a) (transpose n r)))).
Proof.
  unfold lift_coeff.
  rewrite (sequence_map_some (fun p => G (fst p) (snd p))). reflexivity.
Qed.

Lemma transpose_nth n (a : list (list Z)) k : (k < n)%nat -> nth k (transpose n a) [] = map (fun l => nthZ l k) a.
Proof.
  intros H. unfold transpose. rewrite (nth_map' _ _ _ _ 0%nat) by (rewrite seq_length; exact H).
  rewrite seq_nth by exact H. reflexivity.
Qed.
Lemma transpose_length n (a : list (list Z)) : length (transpose n a) = n.
Proof. unfold transpose. rewrite map_length, seq_length. reflexivity. Qed.

(* coefficient k of the lifted result is G applied to coefficient k of the inputs *)
Lemma untranspose_coeff (G : list Z -> list Z -> list Z) n rsize (a r : list (list Z)) k :
  (k < n)%nat -> length (G (map (fun l => nthZ l k) a) (map (fun l => nthZ l k) r)) = rsize ->
  let out := untranspose rsize (map (fun p => G (fst p) (snd p)) (combine (transpose n a) (transpose n r))) in
  length out = rsize /\ (forall j, (j < rsize)%nat -> length (lim out j) = n) /\
  map (fun l => nthZ l k) out = G (map (fun l => nthZ l k) a) (map (fun l => nthZ l k) r).
Proof.
  intros Hk HG out.
  set (cs := map (fun p => G (fst p) (snd p)) (combine (transpose n a) (transpose n r))) in *.
  assert (Lcs : length cs = n) by (unfold cs; rewrite map_length, combine_length, !transpose_length; apply Nat.min_id).
  assert (Hcs : nth k cs [] = G (map (fun l => nthZ l k) a) (map (fun l => nthZ l k) r)).
  { unfold cs. rewrite (nth_map' _ _ _ _ ([], [])) by (rewrite combine_length, !transpose_length; lia).
    rewrite combine_nth by (rewrite !transpose_length; reflexivity). cbn [fst snd].
    rewrite !transpose_nth by exact Hk. reflexivity. }
  unfold out, untranspose. split; [rewrite map_length, seq_length; reflexivity|]. split.
  - intros j Hj. unfold lim. rewrite (nth_map' _ _ _ _ 0%nat) by (rewrite seq_length; exact Hj). rewrite map_length. exact Lcs.
  - rewrite map_map.
    apply (nth_ext _ _ 0 0).
    + rewrite map_length, seq_length, HG. reflexivity.
    + rewrite map_length, seq_length. intros j Hj.
      rewrite (nth_map' _ _ _ _ 0%nat) by (rewrite seq_length; exact Hj). rewrite seq_nth by exact Hj. cbn [Nat.add].
      unfold nthZ at 1. rewrite (nth_map' _ _ _ _ []) by lia. rewrite Hcs. reflexivity.
Qed.
End Lift.


(* what one column normalisation does to the value: out = big + r + 2^P I with |r| <= one unit of the last output limb.
   This is the shape the composition theorems need; it is PROVED below for the FFT64 family in the same-radix case from
   C08's normalize_inter_value, and is a hypothesis for the other cases (NTT120: LimbsBig.normalize_big, cross radix). *)
Definition normalize_value_ok (wb P : Z) (n : nat) (rb ab : Z) (rsize : nat) (big : plimbs) : Prop :=
  exists out r I,
    big_normalize wb n rb ab rsize big = Some out /\
    length out = rsize /\ (forall j, (j < rsize)%nat -> length (lim out j) = n) /\
    length r = n /\ length I = n /\
    poly_val P rb n out = padd (padd (poly_val P ab n big) r) (pscale (2 ^ P) I) /\
    pnorm r <= 2 ^ (P - Z.of_nat rsize * rb).

Section Fft64.
Lemma wrap_split P x : 0 <= P -> x = wrap P x + 2 ^ P * ((x + 2 ^ (P - 1)) / 2 ^ P).
Proof.
  intros HP. unfold wrap. pose proof (pow2_pos P HP) as Hp.
  pose proof (Z.div_mod (x + 2 ^ (P - 1)) (2 ^ P) ltac:(lia)). lia.
Qed.

Lemma wrap64_digits b l : 1 <= b <= 62 -> Forall (in_range b) l -> map (wrap 64) l = l.
Proof.
  intros Hb H. rewrite <- (map_id l) at 2. apply map_ext_in. intros x Hx.
  rewrite Forall_forall in H. specialize (H x Hx). apply wrap_id; [lia|].
  unfold in_range in *.
  assert (2 ^ (b - 1) <= 2 ^ (64 - 1)) by (apply Z.pow_le_mono_r; lia). lia.
Qed.

Theorem big_normalize_value_fft64 (b : Z) (n rsize : nat) (a : plimbs) (P : Z) :
  1 <= b <= 62 ->
  (forall j, (j < length a)%nat -> length (lim a j) = n) ->
  (forall j k, Z.abs (nth k (lim a j) 0) <= 2 ^ 62) ->
  (Z.of_nat rsize + Z.of_nat (length a)) * b <= P ->
  normalize_value_ok 64 P n b b rsize a.
Proof.
  intros Hb Hwf Hmag HP.
  assert (HP0 : 0 <= P) by nia.
  set (G := fun al rl : list Z => map (wrap 64) (normalize_inter 64 b 0 al rl)).
  assert (EG : big_normalize 64 n b b rsize a
               = Some (untranspose rsize (map (fun p => G (fst p) (snd p)) (combine (transpose n a) (transpose n (repeat (pzero n) rsize)))))).
  { unfold big_normalize. rewrite <- lift_coeff_total. f_equal.
    unfold normalize_bigw, normalize, G. cbn [Z.eqb Pos.eqb]. rewrite Z.eqb_refl. reflexivity. }
  set (out := untranspose rsize (map (fun p => G (fst p) (snd p)) (combine (transpose n a) (transpose n (repeat (pzero n) rsize))))) in *.
  (* per coefficient *)
  set (ac := fun k => map (fun l => nthZ l k) a).
  set (rc := fun k => map (fun l => nthZ l k) (repeat (pzero n) rsize)).
  assert (Hac : forall k, Forall (fun x => Z.abs x <= 2 ^ 62) (ac k)).
  { intros k. apply Forall_forall. intros x Hx. unfold ac in Hx. apply in_map_iff in Hx. destruct Hx as [l [<- Hl]].
    destruct (In_nth a l [] Hl) as [j [Hj <-]]. apply (Hmag j k). }
  assert (Lrc : forall k, length (rc k) = rsize) by (intros; unfold rc; rewrite map_length, repeat_length; reflexivity).
  assert (Lac : forall k, length (ac k) = length a) by (intros; unfold ac; apply map_length).
  (* C08 on coefficient k *)
  assert (HC : forall k, let o := normalize_inter 64 b 0 (ac k) (rc k) in
             G (ac k) (rc k) = o /\ length o = rsize /\
             Z.abs (wrap P (val_scaled P b o - val_scaled P b (ac k))) <= 2 ^ (P - Z.of_nat rsize * b) /\
             (Z.of_nat (length a) * b <= Z.of_nat rsize * b -> wrap P (val_scaled P b o - val_scaled P b (ac k)) = 0)).
  { intros k o.
    destruct (normalize_inter_value b Hb 0 (ac k) (rc k) (Hac k)) as (L & B & _ & V). fold o in L, B, V.
    split; [unfold G; fold o; apply (wrap64_digits b); assumption|].
    split; [rewrite L; apply Lrc|].
    specialize (V P). rewrite Lrc, Lac in V. unfold zn in V. change (Z.abs 0) with 0 in V. rewrite !Z.add_0_r, Z.sub_0_r in V.
    specialize (V ltac:(lia)). cbv zeta in V. unfold tor_abs in V. destruct V as [V1 V2].
    split; [exact V1|]. intros H. specialize (V2 H). lia. }
  set (d := fun k => val_scaled P b (normalize_inter 64 b 0 (ac k) (rc k)) - val_scaled P b (ac k)).
  set (r := map (fun k => wrap P (d k)) (seq 0 n)).
  set (I := map (fun k => (d k + 2 ^ (P - 1)) / 2 ^ P) (seq 0 n)).
  assert (Hout : forall k, (k < n)%nat ->
     length out = rsize /\ (forall j, (j < rsize)%nat -> length (lim out j) = n) /\
     map (fun l => nthZ l k) out = normalize_inter 64 b 0 (ac k) (rc k)).
  { intros k Hk. destruct (HC k) as (E1 & E2 & _).
    destruct (untranspose_coeff G n rsize a (repeat (pzero n) rsize) k Hk) as (O1 & O2 & O3).
    - fold (ac k) (rc k). rewrite E1. exact E2.
    - fold out in O1, O2, O3. fold (ac k) (rc k) in O3. rewrite E1 in O3. auto. }
  assert (Lout : length out = rsize) by (unfold out, untranspose; rewrite map_length, seq_length; reflexivity).
  assert (Wout : forall j, (j < rsize)%nat -> length (lim out j) = n).
  { intros j Hj. unfold out, untranspose, lim. rewrite (nth_map' _ _ _ _ 0%nat) by (rewrite seq_length; exact Hj).
    rewrite !map_length, combine_length, !transpose_length. apply Nat.min_id. }
  exists out, r, I. split; [exact EG|]. split; [exact Lout|]. split; [exact Wout|].
  assert (Lr : length r = n) by (unfold r; rewrite map_length, seq_length; reflexivity).
  assert (LI : length I = n) by (unfold I; rewrite map_length, seq_length; reflexivity).
  split; [exact Lr|]. split; [exact LI|].
  assert (Lpa : length (poly_val P b n a) = n).
  { rewrite poly_val_pval. apply pval_length. exact Hwf. }
  assert (Lpo : length (poly_val P b n out) = n).
  { rewrite poly_val_pval. apply pval_length. rewrite Lout. exact Wout. }
  split.
  - apply list_eq_nth; [repeat (rewrite ?padd_length, ?pscale_length); lia|].
    rewrite Lpo. intros k Hk.
    repeat first [ rewrite nth_padd by (repeat (rewrite ?padd_length, ?pscale_length); lia) | rewrite nth_pscale ].
    rewrite poly_val_coeff by (rewrite Lout; exact Wout). rewrite poly_val_coeff by exact Hwf.
    destruct (Hout k Hk) as (_ & _ & O3). rewrite O3. fold (ac k).
    unfold r, I. rewrite !nth_map_seq by exact Hk.
    pose proof (wrap_split P (d k) HP0) as W. unfold d in *. lia.
  - apply pnorm_le_nth; [apply Z.pow_nonneg; lia|]. rewrite Lr. intros k Hk.
    unfold r. rewrite nth_map_seq by exact Hk. destruct (HC k) as (_ & _ & E3 & _). exact E3.
Qed.
End Fft64.


Section NormTools.
Lemma sequence_map_forall {X Y} (f : X -> option Y) (Q : X -> Y -> Prop) (l : list X) :
  (forall x, In x l -> exists y, f x = Some y /\ Q x y) -> exists ys, sequence (map f l) = Some ys /\ Forall2 Q l ys.
Proof.
  induction l as [|x l IH]; intros H; [exists []; split; [reflexivity|constructor]|].
  destruct (H x (or_introl eq_refl)) as [y [E Hy]].
  destruct (IH (fun x' Hx' => H x' (or_intror Hx'))) as [ys [Es Hys]].
  exists (y :: ys). cbn [map sequence]. rewrite E, Es. split; [reflexivity|constructor; assumption].
Qed.

Lemma Forall2_nth_both {X Y} (Q : X -> Y -> Prop) l ys dx dy : Forall2 Q l ys ->
  length l = length ys /\ forall i, (i < length l)%nat -> Q (nth i l dx) (nth i ys dy).
Proof.
  induction 1 as [|x y l ys Hxy HF [IH1 IH2]]; [split; [reflexivity|cbn; lia]|].
  cbn [length]. split; [lia|]. intros [|i] Hi; cbn [nth]; [exact Hxy|apply IH2; lia].
Qed.

Lemma fin_choice {X} (d : X) m (Pr : nat -> X -> Prop) :
  (forall i, (i < m)%nat -> exists x, Pr i x) -> exists f, forall i, (i < m)%nat -> Pr i (f i).
Proof.
  induction m as [|m IH]; intros H; [exists (fun _ => d); intros; lia|].
  destruct (IH (fun i Hi => H i (Nat.lt_lt_succ_r _ _ Hi))) as [f Hf].
  destruct (H m (Nat.lt_succ_diag_r m)) as [x Hx].
  exists (fun i => if Nat.eqb i m then x else f i). intros i Hi.
  destruct (Nat.eqb_spec i m) as [->|Hne]; [exact Hx|apply Hf; lia].
Qed.

(* Gadget.phase_val as a sum over the column values *)
Lemma phase_val_cols P b n (sk : list (list Z)) (ct : cols_t) size :
  (1 <= n)%nat -> wf_cols n (S (length sk)) size ct -> (forall s, In s sk -> length s = n) ->
  phase_val P b n sk ct = psumf n (fun co => pmul (poly_val P b n (col ct co)) (sk_ext n sk co)) (S (length sk)).
Proof.
  intros Hn Hw Hsk.
  rewrite (phase_val_phase_f P b n sk ct size Hn Hw) by (intros; apply Hsk, nth_In; assumption).
  unfold phase_f. apply psumf_ext; intros co Hco. f_equal.
  rewrite poly_val_pval. destruct Hw as [_ Hc]. destruct (Hc co Hco) as [-> _]. reflexivity.
Qed.
End NormTools.

(* ---------------------------------------------------------------------------------------------------------------- *)
(* normalising every column of a big ciphertext: phase(out) = phase(big) + R + 2^P I, |R| <= (1 + rank n S) units of the last limb *)
Section NormCols.
Variables (wb P : Z) (n : nat) (rb kb : Z) (res_size msize : nat).
Variable sk : list (list Z).
Variable Sb : Z.
Variable big : cols_t.
Let rank := length sk.
Hypothesis Hn : (1 <= n)%nat.
Hypothesis Hbig : wf_cols n (S rank) msize big.
Hypothesis Hsk : forall s, In s sk -> length s = n.
Hypothesis HS : forall s, In s sk -> pnorm s <= Sb.
Hypothesis HS0 : 0 <= Sb.
Hypothesis Hnorm : forall co, (co < S rank)%nat -> normalize_value_ok wb P n rb kb res_size (col big co).

Theorem normalize_cols_phase :
  exists res R I,
    sequence (map (big_normalize wb n rb kb res_size) big) = Some res /\
    wf_cols n (S rank) res_size res /\
    length R = n /\ length I = n /\
    phase_val P rb n sk res = padd (padd (phase_val P kb n sk big) R) (pscale (2 ^ P) I) /\
    pnorm R <= (1 + Z.of_nat rank * Z.of_nat n * Sb) * 2 ^ (P - Z.of_nat res_size * rb).
Proof.
  destruct Hbig as [Hlb Hcb].
  set (Q := fun (c out : plimbs) => length out = res_size /\ (forall j, (j < res_size)%nat -> length (lim out j) = n) /\
              exists r I, length r = n /\ length I = n /\
                poly_val P rb n out = padd (padd (poly_val P kb n c) r) (pscale (2 ^ P) I) /\
                pnorm r <= 2 ^ (P - Z.of_nat res_size * rb)).
  destruct (sequence_map_forall (big_normalize wb n rb kb res_size) Q big) as [res [Eres HF]].
  { intros c Hc. destruct (In_nth big c [] Hc) as [co [Hco <-]].
    destruct (Hnorm co ltac:(unfold plimbs in *; lia)) as (out & r & I & E & L & W & Lr & LI & V & B).
    exists out. split; [exact E|]. unfold Q. split; [exact L|]. split; [exact W|]. exists r, I. auto. }
  destruct (Forall2_nth_both Q big res [] [] HF) as [Hlen Hnth].
  assert (Hlr : length res = S rank) by (unfold plimbs in *; lia).
  assert (HQ : forall co, (co < S rank)%nat -> Q (col big co) (col res co)).
  { intros co Hco. apply Hnth. unfold plimbs in *; lia. }
  assert (Wres : wf_cols n (S rank) res_size res).
  { split; [exact Hlr|]. intros co Hco. destruct (HQ co Hco) as (L & W & _). split; assumption. }
  destruct (fin_choice (pzero n, pzero n) (S rank)
              (fun co (p : list Z * list Z) => length (fst p) = n /\ length (snd p) = n /\
                 poly_val P rb n (col res co) = padd (padd (poly_val P kb n (col big co)) (fst p)) (pscale (2 ^ P) (snd p)) /\
                 pnorm (fst p) <= 2 ^ (P - Z.of_nat res_size * rb))) as [f Hf].
  { intros co Hco. destruct (HQ co Hco) as (_ & _ & r & I & H1 & H2 & H3 & H4). exists (r, I). cbn [fst snd]. auto. }
  set (Sk := sk_ext n sk).
  assert (LS : forall co, length (Sk co) = n) by (apply sk_ext_length; assumption).
  set (u := 2 ^ (P - Z.of_nat res_size * rb)).
  set (R := psumf n (fun co => pmul (fst (f co)) (Sk co)) (S rank)).
  set (I := psumf n (fun co => pmul (snd (f co)) (Sk co)) (S rank)).
  exists res, R, I. split; [exact Eres|]. split; [exact Wres|].
  assert (Lf1 : forall co, (co < S rank)%nat -> length (fst (f co)) = n) by (intros co Hco; apply (Hf co Hco)).
  assert (Lf2 : forall co, (co < S rank)%nat -> length (snd (f co)) = n) by (intros co Hco; apply (Hf co Hco)).
  assert (LB : forall co, (co < S rank)%nat -> length (poly_val P kb n (col big co)) = n).
  { intros co Hco. rewrite poly_val_pval. apply pval_length. destruct (Hcb co Hco) as [-> W]. exact W. }
  split; [unfold R; apply psumf_length; intros co Hco; rewrite pmul_length; apply Lf1; exact Hco|].
  split; [unfold I; apply psumf_length; intros co Hco; rewrite pmul_length; apply Lf2; exact Hco|].
  split.
  - rewrite (phase_val_cols P rb n sk res res_size Hn Wres Hsk).
    rewrite (phase_val_cols P kb n sk big msize Hn (conj Hlb Hcb) Hsk). fold rank Sk.
    unfold R, I. rewrite pscale_psumf, <- !psumf_padd. apply psumf_ext; intros co Hco.
    destruct (Hf co Hco) as (H1 & H2 & H3 & _). rewrite H3.
    rewrite !pmul_padd_distr_r by (repeat (rewrite ?padd_length, ?pscale_length, ?LB, ?H1, ?H2, ?LS by exact Hco); lia).
    rewrite pscale_pmul_l. reflexivity.
  - unfold R. rewrite psumf_shift by (intros co Hco; rewrite pmul_length; apply Lf1; exact Hco).
    destruct (Hf 0%nat ltac:(lia)) as (H1 & _ & _ & H4).
    assert (E0 : pmul (fst (f 0%nat)) (Sk 0%nat) = fst (f 0%nat)) by (apply (pmul_pone_r n _ Hn H1)).
    rewrite E0.
    eapply Z.le_trans; [apply pnorm_padd|].
    assert (Hu : 0 <= u) by (unfold u; apply Z.pow_nonneg; lia).
    assert (Hrest : pnorm (psumf n (fun i => pmul (fst (f (S i))) (Sk (S i))) rank) <= Z.of_nat rank * (Z.of_nat n * u * Sb)).
    { apply pnorm_psumf_le. intros i Hi.
      destruct (Hf (S i) ltac:(lia)) as (G1 & _ & _ & G4).
      eapply Z.le_trans; [apply pnorm_pmul; rewrite G1; apply LS|]. rewrite G1.
      assert (Hs : pnorm (Sk (S i)) <= Sb) by (unfold Sk; cbn [sk_ext]; apply HS, nth_In; exact Hi).
      pose proof (pnorm_nonneg (fst (f (S i)))). pose proof (pnorm_nonneg (Sk (S i))).
      rewrite <- !Z.mul_assoc. apply Z.mul_le_mono_nonneg_l; [lia|]. apply Z.mul_le_mono_nonneg; lia. }
    fold u in H4. nia.
Qed.
End NormCols.


Section FinalTools.
(* (X + 2^P Iq) + R + 2^P I' = X + R + 2^P (Iq + I') *)
Lemma regroup_int n P (X R Iq I' : list Z) : length X = n -> length R = n -> length Iq = n -> length I' = n ->
  padd (padd (padd X (pscale (2 ^ P) Iq)) R) (pscale (2 ^ P) I') = padd (padd X R) (pscale (2 ^ P) (padd Iq I')).
Proof.
  intros H1 H2 H3 H4. apply list_eq_nth; [repeat (rewrite ?padd_length, ?pscale_length); lia|].
  intros k _.
  repeat first [ rewrite nth_padd by (repeat (rewrite ?padd_length, ?pscale_length); lia) | rewrite nth_pscale ].
  ring.
Qed.
End FinalTools.

(* ---------------------------------------------------------------------------------------------------------------- *)
(* C03 : Gadget.glwe_keyswitch (glwe_keyswitch_default) in the same-radix case input radix = key radix = b; output radix rb.
   normalize_value_ok for the columns of the big result is a NAMED SECTION HYPOTHESIS here (Hnorm); it is proved for the FFT64
   family with rb = b in C03_glwe_keyswitch_phase_final_fft64 below from C08's normalize_inter_value. *)
Section C03Final.
Variables (be : Z) (P b rb : Z) (n rin msize a_size res_size dsize dnum : nat).
Variable ct : cols_t.
Variable K : pmat.
Variable sk_out : list (list Z).
Variables (s_in : nat -> list Z) (e I : nat -> nat -> list Z).
Variable Sb : Z.
Let rank_out := length sk_out.
Let Sk := sk_ext n sk_out.
Hypothesis Hct : wf_cols n (S rin) a_size ct.
Hypothesis HK : wf_pmat_in n (dnum * rin) (msize * S rank_out) K.
Hypothesis Hn : (1 <= n)%nat.
Hypothesis Hd : (1 <= dsize)%nat.
Hypothesis Hdrop : (dsize - 2 <= msize)%nat.
Hypothesis Hsk : forall s, In s sk_out -> length s = n.
Hypothesis HSb : forall s, In s sk_out -> pnorm s <= Sb.
Hypothesis Hsin : forall ci, length (s_in ci) = n.
Hypothesis He : forall row ci, length (e row ci) = n.
Hypothesis HI : forall row ci, length (I row ci) = n.
Hypothesis Hb : 0 <= b.
Hypothesis HP : Z.of_nat msize * b <= P.
Hypothesis HP2 : Z.of_nat dnum * Z.of_nat dsize * b <= P.
Hypothesis key_row : key_rows_ok P b n rin (S rank_out) msize dsize dnum K Sk s_in e I.
Hypothesis normalize_value_ok_cols : forall big,
  keyswitch_internal n (S rank_out) msize (zcols n (S rank_out) msize) ct a_size dsize dnum msize K = Some big ->
  forall co, (co < S rank_out)%nat -> normalize_value_ok (wbig be) P n rb b res_size (col big co).

Theorem C03_glwe_keyswitch_phase_final_lemma :
  exists res R Itot,
    glwe_keyswitch be n b b rb rank_out a_size res_size dsize dnum msize ct K = Some res /\
    wf_cols n (S rank_out) res_size res /\ length R = n /\ length Itot = n /\
    phase_val P rb n sk_out res
    = padd (padd (padd (padd (pval P b n (acol n ct 0) (Nat.min msize a_size))
                             (psumf n (fun ci => pmul (pval_used P b n a_size dsize dnum (acol n (tl ct)) ci) (s_in ci)) rin))
                       (gadget_err P b n rin (S rank_out) msize dsize dnum (acol n (tl ct)) K Sk e))
                 R)
           (pscale (2 ^ P) Itot) /\
    pnorm R <= (1 + Z.of_nat rank_out * Z.of_nat n * Sb) * 2 ^ (P - Z.of_nat res_size * rb).
Proof.
  pose proof (sk_ext_length n sk_out Hn Hsk) as HS.
  destruct (C03_keyswitch_internal_phase_lemma P b n rin (S rank_out) msize a_size dsize dnum ct (zcols n (S rank_out) msize) K Sk s_in e I
              Hct HK Hn ltac:(lia) Hd Hdrop HS eq_refl Hsin He HI Hb HP HP2 key_row) as [big [E1 [E2 E3]]].
  destruct (normalize_cols_phase (wbig be) P n rb b res_size msize sk_out Sb big Hn E2 Hsk HSb (normalize_value_ok_cols big E1))
    as (res & R & I' & F1 & F2 & F3 & F4 & F5 & F6).
  set (Iq := gadget_int b n rin (S rank_out) msize dsize dnum (acol n (tl ct)) K Sk I) in *.
  exists res, R, (padd Iq I').
  assert (LIq : length Iq = n) by (apply gadget_int_length; intros; apply (acol_length n rin a_size (tl ct) (wf_tl n rin a_size ct Hct))).
  split.
  { unfold glwe_keyswitch, pre_normalize. rewrite Z.eqb_refl. fold rank_out. rewrite E1. exact F1. }
  split; [exact F2|]. split; [exact F3|]. split; [apply padd_len; assumption|]. split; [|exact F6].
  rewrite F5.
  rewrite (phase_val_phase_f P b n sk_out big msize Hn E2) by (intros; apply Hsk, nth_In; assumption).
  fold rank_out Sk. rewrite E3.
  pose proof (acol_length n rin a_size (tl ct) (wf_tl n rin a_size ct Hct)) as LA.
  pose proof (acol_length n (S rin) a_size ct Hct) as LB.
  apply (regroup_int n); try assumption.
  apply padd_len; [apply padd_len|apply gadget_err_length; assumption].
  - apply pval_length; intros; apply LB.
  - apply psumf_length. intros ci _. rewrite pmul_length. unfold pval_used. apply pval_length; intros; apply LA.
Qed.
End C03Final.

(* FFT64 family (be <= 2), output radix = key radix: the normalisation hypothesis is discharged by C08's theorem; what remains is the
   magnitude domain of the i64 accumulator (|big coefficient| <= 2^62: "FFT64 inside its exact magnitude domain") *)
Section C03FinalFft64.
Variables (be : Z) (P b : Z) (n rin msize a_size res_size dsize dnum : nat).
Variable ct : cols_t.
Variable K : pmat.
Variable sk_out : list (list Z).
Variables (s_in : nat -> list Z) (e I : nat -> nat -> list Z).
Variable Sb : Z.
Let rank_out := length sk_out.
Let Sk := sk_ext n sk_out.
Hypothesis Hbe : be <= 2.
Hypothesis Hct : wf_cols n (S rin) a_size ct.
Hypothesis HK : wf_pmat_in n (dnum * rin) (msize * S rank_out) K.
Hypothesis Hn : (1 <= n)%nat.
Hypothesis Hd : (1 <= dsize)%nat.
Hypothesis Hdrop : (dsize - 2 <= msize)%nat.
Hypothesis Hsk : forall s, In s sk_out -> length s = n.
Hypothesis HSb : forall s, In s sk_out -> pnorm s <= Sb.
Hypothesis Hsin : forall ci, length (s_in ci) = n.
Hypothesis He : forall row ci, length (e row ci) = n.
Hypothesis HI : forall row ci, length (I row ci) = n.
Hypothesis Hb : 1 <= b <= 62.
Hypothesis HP : (Z.of_nat res_size + Z.of_nat msize) * b <= P.
Hypothesis HP2 : Z.of_nat dnum * Z.of_nat dsize * b <= P.
Hypothesis key_row : key_rows_ok P b n rin (S rank_out) msize dsize dnum K Sk s_in e I.
Hypothesis big_in_domain : forall big,
  keyswitch_internal n (S rank_out) msize (zcols n (S rank_out) msize) ct a_size dsize dnum msize K = Some big ->
  forall co j k, Z.abs (nth k (lim (col big co) j) 0) <= 2 ^ 62.

Theorem C03_glwe_keyswitch_phase_final_fft64_lemma :
  exists res R Itot,
    glwe_keyswitch be n b b b rank_out a_size res_size dsize dnum msize ct K = Some res /\
    wf_cols n (S rank_out) res_size res /\ length R = n /\ length Itot = n /\
    phase_val P b n sk_out res
    = padd (padd (padd (padd (pval P b n (acol n ct 0) (Nat.min msize a_size))
                             (psumf n (fun ci => pmul (pval_used P b n a_size dsize dnum (acol n (tl ct)) ci) (s_in ci)) rin))
                       (gadget_err P b n rin (S rank_out) msize dsize dnum (acol n (tl ct)) K Sk e))
                 R)
           (pscale (2 ^ P) Itot) /\
    pnorm R <= (1 + Z.of_nat rank_out * Z.of_nat n * Sb) * 2 ^ (P - Z.of_nat res_size * b).
Proof.
  assert (HPm : Z.of_nat msize * b <= P) by nia.
  apply (C03_glwe_keyswitch_phase_final_lemma be P b b n rin msize a_size res_size dsize dnum ct K sk_out s_in e I Sb); try assumption; try lia.
  intros big Ebig co Hco.
  pose proof (sk_ext_length n sk_out Hn Hsk) as HS.
  destruct (C03_keyswitch_internal_phase_lemma P b n rin (S rank_out) msize a_size dsize dnum ct (zcols n (S rank_out) msize) K Sk s_in e I
              Hct HK Hn ltac:(lia) Hd Hdrop HS eq_refl Hsin He HI ltac:(lia) HPm HP2 key_row) as [big' [E1 [E2 _]]].
  assert (Eb : Some big = Some big') by (rewrite <- Ebig, <- E1; reflexivity). injection Eb as <-.
  destruct E2 as [_ Hc]. destruct (Hc co Hco) as [Lc Wc].
  assert (Ew : wbig be = 64) by (unfold wbig; destruct (Z.leb_spec be 2); [reflexivity|lia]).
  rewrite Ew. apply big_normalize_value_fft64; try assumption.
  - rewrite Lc. exact Wc.
  - apply (big_in_domain big Ebig).
  - rewrite Lc. exact HP.
Qed.
End C03FinalFft64.

(* ---------------------------------------------------------------------------------------------------------------- *)
(* C04 : Gadget.glwe_external_product (glwe_external_product_default), input radix = GGSW radix = b, output radix rb *)
Section C04Final.
Variables (be : Z) (P b rb : Z) (n msize a_size res_size dsize dnum : nat).
Variable a : cols_t.
Variable K : pmat.
Variable sk : list (list Z).
Variable m2 : list Z.
Variables (e I : nat -> nat -> list Z).
Variable Sb : Z.
Let rank := length sk.
Let Sk := sk_ext n sk.
Hypothesis Ha : wf_cols n (S rank) a_size a.
Hypothesis HK : wf_pmat_in n (dnum * S rank) (msize * S rank) K.
Hypothesis Hn : (1 <= n)%nat.
Hypothesis Hd : (1 <= dsize)%nat.
Hypothesis Hdrop : (dsize - 2 <= msize)%nat.
Hypothesis Hsk : forall s, In s sk -> length s = n.
Hypothesis HSb : forall s, In s sk -> pnorm s <= Sb.
Hypothesis Hm2 : length m2 = n.
Hypothesis He : forall row ci, length (e row ci) = n.
Hypothesis HI : forall row ci, length (I row ci) = n.
Hypothesis Hb : 0 <= b.
Hypothesis HP : Z.of_nat msize * b <= P.
Hypothesis HP2 : Z.of_nat dnum * Z.of_nat dsize * b <= P.
Hypothesis ggsw_cells : C04_ggsw_cells P b n rank msize dsize dnum K sk m2 e I.
Hypothesis normalize_value_ok_cols : forall big,
  gadget_product n (S rank) msize (zcols n (S rank) msize) a a_size dsize dnum msize false K = Some big ->
  forall co, (co < S rank)%nat -> normalize_value_ok (wbig be) P n rb b res_size (col big co).

Theorem C04_glwe_external_product_phase_final_lemma :
  exists res R Itot,
    glwe_external_product be n b b rb rank a_size res_size dsize dnum msize a K = Some res /\
    wf_cols n (S rank) res_size res /\ length R = n /\ length Itot = n /\
    phase_val P rb n sk res
    = padd (padd (padd (pmul m2 (phase_f P b n (S rank) (Nat.min a_size (dnum * dsize)) (acol n a) Sk))
                       (gadget_err P b n (S rank) (S rank) msize dsize dnum (acol n a) K Sk e))
                 R)
           (pscale (2 ^ P) Itot) /\
    pnorm R <= (1 + Z.of_nat rank * Z.of_nat n * Sb) * 2 ^ (P - Z.of_nat res_size * rb).
Proof.
  pose proof (sk_ext_length n sk Hn Hsk) as HS.
  destruct (C04_external_product_phase_lemma P b n rank msize a_size dsize dnum false a (zcols n (S rank) msize) K Sk m2 e I
              Ha (acc_shape_zcols n (S rank) msize false) HK Hd Hdrop HS Hm2 He HI Hb HP HP2 ggsw_cells) as [big [E1 [E2 E3]]].
  destruct (normalize_cols_phase (wbig be) P n rb b res_size msize sk Sb big Hn E2 Hsk HSb (normalize_value_ok_cols big E1))
    as (res & R & I' & F1 & F2 & F3 & F4 & F5 & F6).
  set (Iq := gadget_int b n (S rank) (S rank) msize dsize dnum (acol n a) K Sk I) in *.
  pose proof (acol_length n (S rank) a_size a Ha) as LA.
  exists res, R, (padd Iq I').
  assert (LIq : length Iq = n) by (apply gadget_int_length; exact LA).
  split.
  { unfold glwe_external_product, pre_normalize. rewrite Z.eqb_refl. fold rank. rewrite E1. exact F1. }
  split; [exact F2|]. split; [exact F3|]. split; [apply padd_len; assumption|]. split; [|exact F6].
  rewrite F5.
  rewrite (phase_val_phase_f P b n sk big msize Hn E2) by (intros; apply Hsk, nth_In; assumption).
  fold rank Sk. rewrite E3.
  apply (regroup_int n); try assumption.
  apply padd_len; [|apply gadget_err_length; assumption].
  rewrite pmul_length. exact Hm2.
Qed.
End C04Final.

