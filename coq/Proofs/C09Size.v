(* C09 item 8: the size rule of the vector-level operations: limb j of the result is the limb-level map of
   limbs j of the operands, missing operand limbs read as zero limbs; out-of-place forms only see length r0. *)
From Coq Require Import Znumtheory.
From PV Require Import Base.MachineInt Model.Znx Model.Limbs Model.Ring Model.Poly
  Proofs.C09Lists Proofs.C09Ring Proofs.C09Sigma Proofs.C09Switch.
Open Scope Z_scope.

(* operand limb j, zero limb when the operand has fewer limbs *)
Definition lz (n : nat) (l : limbs) (j : nat) : list Z := if Nat.ltb j (length l) then lnth l j else zlimb n.

(* every limb has n words, every word is a w-bit value *)
Definition limbs_wf (w : Z) (n : nat) (l : limbs) : Prop :=
  forall j, (j < length l)%nat -> length (lnth l j) = n /\ Forall (in_range w) (lnth l j).
Definition limbs_len (n : nat) (l : limbs) : Prop :=
  forall j, (j < length l)%nat -> length (lnth l j) = n.

Lemma limbs_wf_len w n l : limbs_wf w n l -> limbs_len n l.
Proof. intros H j Hj. apply (H j Hj). Qed.

(* ---------- word-wise maps ---------- *)
Lemma zeros_length n : length (zeros n) = n.
Proof. apply repeat_length. Qed.

Lemma map2_length {A B C} (f : A -> B -> C) l1 l2 :
  length l1 = length l2 -> length (map2 f l1 l2) = length l1.
Proof. intros H. unfold map2. rewrite map_length, combine_length, H. apply Nat.min_id. Qed.

Lemma nthZ_map2 (f : Z -> Z -> Z) (l1 l2 : list Z) i :
  length l1 = length l2 -> (i < length l1)%nat ->
  nthZ (map2 f l1 l2) i = f (nthZ l1 i) (nthZ l2 i).
Proof.
  intros Hl Hi. unfold map2, nthZ.
  rewrite (nth_indep _ 0 ((fun p => f (fst p) (snd p)) (0, 0)))
    by (rewrite map_length, combine_length, <- Hl, Nat.min_id; exact Hi).
  rewrite (map_nth (fun p => f (fst p) (snd p))).
  rewrite combine_nth by exact Hl. reflexivity.
Qed.

Lemma wadd_0_l w x : 1 <= w -> in_range w x -> wadd w 0 x = x.
Proof. intros; unfold wadd; rewrite Z.add_0_l; apply wrap_id; auto. Qed.
Lemma wadd_0_r w x : 1 <= w -> in_range w x -> wadd w x 0 = x.
Proof. intros; unfold wadd; rewrite Z.add_0_r; apply wrap_id; auto. Qed.
Lemma wsub_0_r w x : 1 <= w -> in_range w x -> wsub w x 0 = x.
Proof. intros; unfold wsub; rewrite Z.sub_0_r; apply wrap_id; auto. Qed.
Lemma wsub_0_l w x : wsub w 0 x = wneg w x.
Proof. unfold wsub, wneg. f_equal. Qed.
Lemma in_range_0 w : 1 <= w -> in_range w 0.
Proof. intros; unfold in_range; pose proof (pow2_pos (w - 1) ltac:(lia)); lia. Qed.

Lemma vadd_zeros_l w n b :
  1 <= w -> length b = n -> Forall (in_range w) b -> vadd w (zeros n) b = b.
Proof.
  intros Hw Hl Hr. unfold vadd.
  apply nthZ_ext; [rewrite map2_length; rewrite zeros_length; auto|].
  intros i Hi. rewrite map2_length, zeros_length in Hi by (rewrite zeros_length; auto).
  rewrite nthZ_map2 by (rewrite zeros_length; auto).
  rewrite nthZ_zeros. apply wadd_0_l; auto. apply Forall_nthZ; auto; lia.
Qed.

Lemma vadd_zeros_r w n a :
  1 <= w -> length a = n -> Forall (in_range w) a -> vadd w a (zeros n) = a.
Proof.
  intros Hw Hl Hr. unfold vadd.
  apply nthZ_ext; [rewrite map2_length; rewrite ?zeros_length; auto|].
  intros i Hi. rewrite map2_length in Hi by (rewrite zeros_length; auto).
  rewrite nthZ_map2 by (rewrite ?zeros_length; auto).
  rewrite nthZ_zeros. apply wadd_0_r; auto. apply Forall_nthZ; auto; lia.
Qed.

Lemma vadd_zeros_zeros w n : 1 <= w -> vadd w (zeros n) (zeros n) = zeros n.
Proof.
  intros Hw. apply vadd_zeros_l; auto; [apply zeros_length|].
  apply Forall_of_nthZ. intros i _. rewrite nthZ_zeros. apply in_range_0; auto.
Qed.

Lemma vsub_zeros_r w n a :
  1 <= w -> length a = n -> Forall (in_range w) a -> vsub w a (zeros n) = a.
Proof.
  intros Hw Hl Hr. unfold vsub.
  apply nthZ_ext; [rewrite map2_length; rewrite ?zeros_length; auto|].
  intros i Hi. rewrite map2_length in Hi by (rewrite zeros_length; auto).
  rewrite nthZ_map2 by (rewrite ?zeros_length; auto).
  rewrite nthZ_zeros. apply wsub_0_r; auto. apply Forall_nthZ; auto; lia.
Qed.

Lemma vsub_zeros_l w n b : length b = n -> vsub w (zeros n) b = vneg w b.
Proof.
  intros Hl. unfold vsub, vneg.
  apply nthZ_ext; [rewrite map2_length, map_length; rewrite zeros_length; auto|].
  intros i Hi. rewrite map2_length, zeros_length in Hi by (rewrite zeros_length; auto).
  rewrite nthZ_map2 by (rewrite zeros_length; auto).
  rewrite nthZ_zeros, nthZ_map by lia. apply wsub_0_l.
Qed.

Lemma vneg_zeros w n : 1 <= w -> vneg w (zeros n) = zeros n.
Proof.
  intros Hw. unfold vneg.
  apply nthZ_ext; [rewrite map_length; reflexivity|].
  intros i Hi. rewrite map_length in Hi. rewrite nthZ_map by auto.
  rewrite nthZ_zeros. apply wneg_0; auto.
Qed.

Lemma vsub_zeros_zeros w n : 1 <= w -> vsub w (zeros n) (zeros n) = zeros n.
Proof. intros Hw. rewrite vsub_zeros_l by apply zeros_length. apply vneg_zeros; auto. Qed.

(* ---------- vec_add / vec_sub ---------- *)
Theorem vec_add_size_rule w n a b r0 :
  1 <= w -> limbs_wf w n a -> limbs_wf w n b ->
  vec_add w n a b r0 = build (length r0) (fun j => vadd w (lz n a j) (lz n b j)).
Proof.
  intros Hw Ha Hb. unfold vec_add, build, lz, zlimb. cbv zeta.
  apply map_seq_ext. intros j Hj.
  destruct (Nat.ltb_spec j (Nat.min (length a) (length b))) as [H1|H1].
  - destruct (Nat.ltb_spec j (length a)); [|lia].
    destruct (Nat.ltb_spec j (length b)); [|lia]. reflexivity.
  - destruct (Nat.ltb_spec j (Nat.max (length a) (length b))) as [H2|H2].
    + destruct (Nat.leb_spec (length a) (length b)) as [H3|H3].
      * destruct (Nat.ltb_spec j (length a)); [lia|].
        destruct (Nat.ltb_spec j (length b)); [|lia].
        destruct (Hb j ltac:(lia)). symmetry; apply vadd_zeros_l; auto.
      * destruct (Nat.ltb_spec j (length a)); [|lia].
        destruct (Nat.ltb_spec j (length b)); [lia|].
        destruct (Ha j ltac:(lia)). symmetry; apply vadd_zeros_r; auto.
    + destruct (Nat.ltb_spec j (length a)); [lia|].
      destruct (Nat.ltb_spec j (length b)); [lia|].
      symmetry; apply vadd_zeros_zeros; auto.
Qed.

Theorem vec_sub_size_rule w n a b r0 :
  1 <= w -> limbs_wf w n a -> limbs_wf w n b ->
  vec_sub w n a b r0 = build (length r0) (fun j => vsub w (lz n a j) (lz n b j)).
Proof.
  intros Hw Ha Hb. unfold vec_sub, build, lz, zlimb. cbv zeta.
  apply map_seq_ext. intros j Hj.
  destruct (Nat.ltb_spec j (Nat.min (length a) (length b))) as [H1|H1].
  - destruct (Nat.ltb_spec j (length a)); [|lia].
    destruct (Nat.ltb_spec j (length b)); [|lia]. reflexivity.
  - destruct (Nat.ltb_spec j (Nat.max (length a) (length b))) as [H2|H2].
    + destruct (Nat.leb_spec (length a) (length b)) as [H3|H3].
      * destruct (Nat.ltb_spec j (length a)); [lia|].
        destruct (Nat.ltb_spec j (length b)); [|lia].
        destruct (Hb j ltac:(lia)). symmetry; apply vsub_zeros_l; auto.
      * destruct (Nat.ltb_spec j (length a)); [|lia].
        destruct (Nat.ltb_spec j (length b)); [lia|].
        destruct (Ha j ltac:(lia)). symmetry; apply vsub_zeros_r; auto.
    + destruct (Nat.ltb_spec j (length a)); [lia|].
      destruct (Nat.ltb_spec j (length b)); [lia|].
      symmetry; apply vsub_zeros_zeros; auto.
Qed.

Theorem vec_add_indep w n a b r0 r1 :
  length r0 = length r1 -> vec_add w n a b r0 = vec_add w n a b r1.
Proof. intros H. unfold vec_add. rewrite H. reflexivity. Qed.
Theorem vec_sub_indep w n a b r0 r1 :
  length r0 = length r1 -> vec_sub w n a b r0 = vec_sub w n a b r1.
Proof. intros H. unfold vec_sub. rewrite H. reflexivity. Qed.

Theorem vec_add_length w n a b r0 : length (vec_add w n a b r0) = length r0.
Proof. apply build_length. Qed.
Theorem vec_sub_length w n a b r0 : length (vec_sub w n a b r0) = length r0.
Proof. apply build_length. Qed.

(* ---------- unary operations ---------- *)
Theorem vec_unary_size_rule n f a r0 :
  f (zlimb n) = zlimb n ->
  vec_unary n f a r0 = build (length r0) (fun j => f (lz n a j)).
Proof.
  intros Hf. unfold vec_unary, build, lz. apply map_seq_ext. intros j Hj.
  destruct (Nat.ltb j (length a)); auto.
Qed.

Theorem vec_unary_indep n f a r0 r1 :
  length r0 = length r1 -> vec_unary n f a r0 = vec_unary n f a r1.
Proof. intros H. unfold vec_unary. rewrite H. reflexivity. Qed.

Theorem vec_unary_length n f a r0 : length (vec_unary n f a r0) = length r0.
Proof. apply build_length. Qed.

Theorem vec_negate_size_rule w n a r0 :
  1 <= w -> vec_unary n (vneg w) a r0 = build (length r0) (fun j => vneg w (lz n a j)).
Proof. intros Hw. apply vec_unary_size_rule. apply vneg_zeros; auto. Qed.

Lemma monomial_mul_zeros w p n : 1 <= w -> monomial_mul w p (zeros n) = zeros n.
Proof.
  intros Hw. apply nthZ_ext; [apply monomial_mul_length|].
  intros i Hi. rewrite monomial_mul_length in Hi. rewrite monomial_mul_nth by auto.
  rewrite nthZ_zeros. rewrite zeros_length in Hi.
  destruct (exp_decomp (Z.of_nat n) (Z.of_nat i - p) ltac:(lia)) as [q [t [Hk Ht]]].
  rewrite (ext_at_nat w (zeros n) _ q t) by (rewrite zeros_length; auto; lia).
  rewrite nthZ_zeros. destruct (Z.even q); [reflexivity | apply wneg_0; auto].
Qed.

Theorem vec_rotate_size_rule w n p a r0 :
  1 <= w -> vec_rotate w n p a r0 = build (length r0) (fun j => monomial_mul w p (lz n a j)).
Proof.
  intros Hw. unfold vec_rotate. rewrite vec_unary_size_rule.
  - unfold build. apply map_seq_ext. intros j Hj. apply rotate_is_monomial_mul.
  - rewrite rotate_is_monomial_mul. apply monomial_mul_zeros; auto.
Qed.

(* ---------- vec_automorphism ---------- *)
Lemma sigma_zeros w g n : 1 <= w -> Z.gcd g (Z.of_nat n) = 1 -> sigma w g (zeros n) = zeros n.
Proof.
  intros Hw Hg. apply nthZ_ext; [apply sigma_length|].
  intros t Ht. rewrite sigma_length in Ht.
  assert (Hg' : Z.gcd g (Z.of_nat (length (zeros n))) = 1) by (rewrite zeros_length; auto).
  destruct (sg_pos_onto g (zeros n) t Hg' Ht) as [j [Hj <-]].
  rewrite sigma_nth by auto. unfold sg_val. rewrite !nthZ_zeros.
  destruct (_ <? _); [reflexivity | apply wneg_0; auto].
Qed.

Theorem vec_automorphism_size_rule_gcd w n g a r0 :
  1 <= w -> Z.gcd g (Z.of_nat n) = 1 -> limbs_len n a -> limbs_len n r0 ->
  vec_automorphism w n g a r0 = build (length r0) (fun j => sigma w g (lz n a j)).
Proof.
  intros Hw Hg Ha Hr. unfold vec_automorphism, build, lz, zlimb.
  apply map_seq_ext. intros j Hj.
  destruct (Nat.ltb_spec j (length a)) as [H|H].
  - apply automorphism_is_sigma_gcd; rewrite (Ha j H); auto.
  - symmetry; apply sigma_zeros; auto.
Qed.

Theorem vec_automorphism_size_rule w n m g a r0 :
  1 <= w -> 0 <= m -> Z.of_nat n = 2 ^ m -> Z.odd g = true -> limbs_len n a -> limbs_len n r0 ->
  vec_automorphism w n g a r0 = build (length r0) (fun j => sigma w g (lz n a j)).
Proof.
  intros Hw Hm Hn Ho Ha Hr. apply vec_automorphism_size_rule_gcd; auto.
  apply gcd2n_gcdn. rewrite Hn. apply odd_pow2_coprime; auto.
Qed.

(* out of place: two destinations with the same shape receive the same result *)
Theorem vec_automorphism_indep w n m g a r0 r1 :
  1 <= w -> 0 <= m -> Z.of_nat n = 2 ^ m -> Z.odd g = true ->
  limbs_len n a -> limbs_len n r0 -> limbs_len n r1 -> length r0 = length r1 ->
  vec_automorphism w n g a r0 = vec_automorphism w n g a r1.
Proof.
  intros Hw Hm Hn Ho Ha H0 H1 Hl.
  rewrite (vec_automorphism_size_rule w n m g a r0), (vec_automorphism_size_rule w n m g a r1) by auto.
  rewrite Hl. reflexivity.
Qed.

(* ---------- vec_switch_ring ---------- *)
Definition switch_spec (n_in n_out : nat) (l : list Z) : list Z :=
  if Nat.leb n_in n_out then embed n_out l else subsample n_out l.

Lemma embed_zeros n_out n_in : embed n_out (zeros n_in) = zeros n_out.
Proof.
  unfold embed. rewrite (zeros_as_map n_out). apply map_seq_ext. intros t Ht.
  rewrite nthZ_zeros. destruct (Nat.eqb _ 0); reflexivity.
Qed.

Lemma subsample_zeros n_out n_in : subsample n_out (zeros n_in) = zeros n_out.
Proof.
  unfold subsample. rewrite (zeros_as_map n_out). apply map_seq_ext. intros t Ht.
  apply nthZ_zeros.
Qed.

Theorem vec_switch_ring_size_rule n_in n_out a r0 :
  (0 < n_in)%nat -> limbs_len n_in a ->
  vec_switch_ring n_out a r0 = build (length r0) (fun j => switch_spec n_in n_out (lz n_in a j)).
Proof.
  intros Hn Ha. unfold vec_switch_ring, build, lz, zlimb, switch_spec.
  apply map_seq_ext. intros j Hj.
  destruct (Nat.ltb_spec j (length a)) as [H|H].
  - rewrite switch_ring_spec by (rewrite (Ha j H); auto). rewrite (Ha j H). reflexivity.
  - destruct (Nat.leb n_in n_out); [rewrite embed_zeros | rewrite subsample_zeros]; reflexivity.
Qed.

Theorem vec_switch_ring_indep n_out a r0 r1 :
  length r0 = length r1 -> vec_switch_ring n_out a r0 = vec_switch_ring n_out a r1.
Proof. intros H. unfold vec_switch_ring. rewrite H. reflexivity. Qed.

Lemma build_ext n (f g : nat -> list Z) :
  (forall j, (j < n)%nat -> f j = g j) -> build n f = build n g.
Proof. intros H. unfold build. apply map_seq_ext; auto. Qed.

(* ---------- multiplication by (X^p - 1) ---------- *)
Theorem vec_mul_xp_minus_one_size_rule w n p a r0 :
  1 <= w ->
  vec_mul_xp_minus_one w n p a r0
  = build (length r0) (fun j => vsub w (monomial_mul w p (lz n a j)) (lz n a j)).
Proof.
  intros Hw. unfold vec_mul_xp_minus_one, vec_sub_assign.
  rewrite vec_rotate_size_rule by auto. rewrite build_length.
  apply build_ext. intros j Hj.
  rewrite lnth_build by auto. unfold lz, zlimb.
  destruct (Nat.ltb j (length a)); [reflexivity|].
  rewrite monomial_mul_zeros by auto. symmetry; apply vsub_zeros_zeros; auto.
Qed.

Theorem vec_rotate_assign_spec w p r0 :
  vec_rotate_assign w p r0 = map (monomial_mul w p) r0.
Proof.
  unfold vec_rotate_assign, vec_unary_assign. apply map_ext. intros l. apply rotate_is_monomial_mul.
Qed.

Theorem vec_mul_xp_minus_one_assign_spec w p r0 :
  vec_mul_xp_minus_one_assign w p r0 = map (fun l => vsub w (monomial_mul w p l) l) r0.
Proof.
  unfold vec_mul_xp_minus_one_assign. apply map_ext. intros l. rewrite rotate_is_monomial_mul. reflexivity.
Qed.

(* boolean reflections, to discharge the shape hypotheses on concrete inputs *)
Definition limbs_wfb (w : Z) (n : nat) (l : limbs) : bool :=
  forallb (fun x => Nat.eqb (length x) n && forallb (in_rangeb w) x) l.
Definition limbs_lenb (n : nat) (l : limbs) : bool := forallb (fun x => Nat.eqb (length x) n) l.

Lemma limbs_wfb_sound w n l : limbs_wfb w n l = true -> limbs_wf w n l.
Proof.
  intros H j Hj. unfold limbs_wfb in H. rewrite forallb_forall in H.
  specialize (H (lnth l j) ltac:(apply nth_In; exact Hj)).
  apply andb_prop in H. destruct H as [H1 H2]. apply Nat.eqb_eq in H1.
  split; [exact H1 | apply Forall_in_rangeb; exact H2].
Qed.

Lemma limbs_lenb_sound n l : limbs_lenb n l = true -> limbs_len n l.
Proof.
  intros H j Hj. unfold limbs_lenb in H. rewrite forallb_forall in H.
  specialize (H (lnth l j) ltac:(apply nth_In; exact Hj)). apply Nat.eqb_eq in H. exact H.
Qed.

(* ---------- vec_automorphism_assign: through a scratch limb with arbitrary prior content ---------- *)
Lemma limbs_len_Forall n (l : limbs) : limbs_len n l -> Forall (fun x => length x = n) l.
Proof.
  intros H. apply Forall_forall. intros x Hx.
  destruct (In_nth l x [] Hx) as [j [Hj <-]]. apply (H j Hj).
Qed.

Lemma automorphism_assign_loop w g n (r0 : limbs) : forall (t : list Z) (acc : limbs),
  Z.gcd g (Z.of_nat n) = 1 -> length t = n -> Forall (fun x => length x = n) r0 ->
  snd (fold_left (fun (s : list Z * limbs) l =>
         let t := znx_automorphism_onto w g (fst s) l in (t, snd s ++ [t])) r0 (t, acc))
  = acc ++ map (sigma w g) r0.
Proof.
  induction r0 as [|l r0 IH]; intros t acc Hg Ht Hr.
  - cbn [fold_left snd map]. rewrite app_nil_r. reflexivity.
  - inversion Hr as [|x xs Hl Hr']; subst.
    cbn [fold_left map]. cbv zeta. cbn [fst snd].
    rewrite (automorphism_is_sigma_gcd w g l t) by (rewrite ?Hl; auto).
    rewrite IH; auto.
    + rewrite <- app_assoc. reflexivity.
    + rewrite sigma_length. exact Hl.
Qed.

Theorem vec_automorphism_assign_spec w n m g t0 r0 :
  0 <= m -> Z.of_nat n = 2 ^ m -> Z.odd g = true -> length t0 = n -> limbs_len n r0 ->
  vec_automorphism_assign w g t0 r0 = map (sigma w g) r0.
Proof.
  intros Hm Hn Ho Ht Hr. unfold vec_automorphism_assign.
  rewrite (automorphism_assign_loop w g n); auto.
  - apply gcd2n_gcdn. rewrite Hn. apply odd_pow2_coprime; auto.
  - apply limbs_len_Forall; auto.
Qed.
