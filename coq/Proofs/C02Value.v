(* C02: shift / normalise commute with the phase up to one unit of the last limb per truncated column.

   The per-column, per-coefficient value statement is C08's business (normalize_inter_value, lsh_value, rsh_value are
   being proved in Proofs/C08*.v).  This file does NOT depend on those files: the statement enters as the Section
   hypothesis `column_value_ok` and the GLWE-level theorem is derived from it; discharging the hypothesis with C08's
   theorems (one instantiation per kernel: f, rb, ab, off, keep, sgn, guard, u) is the remaining link.

   Bound: if every column c of the result satisfies  val(out_c) = keep*val(res_c) + sgn*2^off*val(a_c) + e_c (mod 1)
   with |e_c| <= u coefficient-wise, then the phase satisfies the same relation with the error polynomial
   e_0 + sum_i s_i * e_i, whose coefficients are bounded by  u * (1 + sum_i ||s_i||_1)  (|(s*e)_t| <= ||s||_1 ||e||_inf):
   one unit per truncated column, reaching the phase through the secret.  u = 0 when nothing is truncated. *)
From PV Require Import Base.MachineInt Model.Znx Model.Limbs Model.Flat Model.Ring Model.DftAbs Model.C02Ops
                       Proofs.C02Poly Proofs.C02Exact Proofs.C02Canon Proofs.C02Phase.
Open Scope Z_scope.

(* ---------------------------------------------------------------- plumbing: sequence, transpose *)
Lemma sequence_some {A} (l : list (option A)) (l' : list A) : sequence l = Some l' ->
  length l' = length l /\ forall i d d', (i < length l)%nat -> nth i l d = Some (nth i l' d').
Proof.
  revert l'; induction l as [|[x|] t IH]; intros l' H; cbn [sequence] in H; try discriminate.
  - injection H as <-. split; [reflexivity|]. intros i d d' Hi. cbn in Hi. lia.
  - destruct (sequence t) as [t'|] eqn:E; [|discriminate]. injection H as <-.
    destruct (IH t' eq_refl) as [Hl Hn]. split; [cbn [length]; lia|].
    intros [|i] d d' Hi; cbn [nth]; [reflexivity|]. apply Hn. cbn [length] in Hi. lia.
Qed.

Lemma transpose_length n c : length (transpose n c) = n.
Proof. unfold transpose. apply map_seq_length. Qed.
Lemma transpose_nth n c t : (t < n)%nat -> nth t (transpose n c) [] = coeff_limbs c t.
Proof. intros H. unfold transpose. rewrite nth_map_seq by exact H. reflexivity. Qed.

Lemma lift_coeff_some f n rsize al rl out : lift_coeff f n rsize al rl = Some out ->
  exists cs, length cs = n /\ out = untranspose rsize cs /\
             forall t, (t < n)%nat -> f (coeff_limbs al t) (coeff_limbs rl t) = Some (nth t cs []).
Proof.
  unfold lift_coeff. destruct (sequence _) as [cs|] eqn:E; [|discriminate]. intros [= <-].
  destruct (sequence_some _ _ E) as [Hl Hn].
  rewrite map_length, combine_length, !transpose_length, Nat.min_id in Hl.
  exists cs. split; [exact Hl|]. split; [reflexivity|]. intros t Ht.
  specialize (Hn t None [] ltac:(rewrite map_length, combine_length, !transpose_length; lia)).
  rewrite <- Hn.
  rewrite (nth_indep _ None ((fun p => f (fst p) (snd p)) ([], [])))
    by (rewrite map_length, combine_length, !transpose_length; lia).
  rewrite (map_nth (fun p => f (fst p) (snd p))).
  rewrite combine_nth by (rewrite !transpose_length; reflexivity).
  rewrite !transpose_nth by exact Ht. reflexivity.
Qed.

Lemma list_as_map_seq (l : list Z) : l = map (fun i => nthZ l i) (seq 0 (length l)).
Proof.
  apply nthZ_ext; [rewrite map_seq_length; reflexivity|].
  intros i Hi. rewrite nthZ_map_seq by exact Hi. reflexivity.
Qed.

Lemma coeff_untranspose rsize cs t : (t < length cs)%nat -> length (nth t cs []) = rsize ->
  coeff_limbs (untranspose rsize cs) t = nth t cs [].
Proof.
  intros Ht Hl. unfold coeff_limbs, untranspose. rewrite map_map.
  transitivity (map (fun i => nthZ (nth t cs []) i) (seq 0 (length (nth t cs [])))); [|symmetry; apply list_as_map_seq].
  rewrite Hl. apply map_seq_ext. intros j _.
  unfold nthZ at 1. rewrite (nth_indep _ 0 ((fun c => nthZ c j) [])) by (rewrite map_length; exact Ht).
  rewrite (map_nth (fun c => nthZ c j)). reflexivity.
Qed.

Lemma valp_length P b n c : length (valp P b n c) = n.
Proof. unfold valp. apply map_seq_length. Qed.
Lemma valp_nth P b n c t : (t < n)%nat -> nthZ (valp P b n c) t = val_of P b (coeff_limbs c t).
Proof. intros H. unfold valp. rewrite nthZ_map_seq by exact H. reflexivity. Qed.
Lemma valp_nil P b n t : nthZ (valp P b n []) t = 0.
Proof.
  destruct (Nat.lt_ge_cases t n) as [H|H].
  - rewrite valp_nth by exact H. reflexivity.
  - apply nthZ_overflow. rewrite valp_length. exact H.
Qed.

(* finite choice for two integer witnesses *)
Lemma fin_choice2 (R : nat -> Z -> Z -> Prop) n : (forall t, (t < n)%nat -> exists e m, R t e m) ->
  exists ev mv, length ev = n /\ length mv = n /\ forall t, (t < n)%nat -> R t (nthZ ev t) (nthZ mv t).
Proof.
  induction n as [|n IH]; intros H.
  - exists [], []. repeat split. intros t Ht. lia.
  - destruct (IH ltac:(intros; apply H; lia)) as (ev & mv & Le & Lm & Hr).
    destruct (H n ltac:(lia)) as (e & m & Hn).
    exists (ev ++ [e]), (mv ++ [m]). repeat split; try (rewrite app_length; cbn [length]; lia).
    intros t Ht. destruct (Nat.eq_dec t n) as [->|Hne].
    + rewrite !nthZ_app_r by lia. rewrite Le, Lm, Nat.sub_diag. exact Hn.
    + rewrite !nthZ_app_l by lia. apply Hr. lia.
Qed.

Lemma zsum_mul_r c f n : zsum (fun i => f i * c) n = zsum f n * c.
Proof. induction n; cbn [zsum]; lia. Qed.

(* sums over an index list *)
Definition lsum (g : nat -> Z) (L : list nat) : Z := fold_right (fun i acc => g i + acc) 0 L.

Lemma psum_nth n (G : nat -> list Z) (L : list nat) t : (forall i, In i L -> length (G i) = n) ->
  nthZ (psum n (map G L)) t = lsum (fun i => nthZ (G i) t) L.
Proof.
  intros HG. induction L as [|i L IH]; cbn [map psum fold_right lsum].
  - apply nthZ_pzero.
  - fold (psum n (map G L)). fold (lsum (fun i => nthZ (G i) t) L).
    rewrite nthZ_padd; [rewrite IH by (intros; apply HG; right; assumption); reflexivity|].
    rewrite HG by (left; reflexivity). apply psum_length. intros x Hx. apply in_map_iff in Hx.
    destruct Hx as (u & <- & Hu). apply HG. right. exact Hu.
Qed.

Lemma lval_zeros P b j (l : list Z) : (forall x, In x l -> x = 0) -> lval P b j l = 0.
Proof.
  revert j; induction l as [|x t IH]; intros j H; cbn [lval]; [reflexivity|].
  rewrite (H x (or_introl eq_refl)). rewrite IH by (intros; apply H; right; assumption). lia.
Qed.
Lemma valp_vec_zero P b n (r0 : limbs) t : nthZ (valp P b n (vec_zero n r0)) t = 0.
Proof.
  destruct (Nat.lt_ge_cases t n) as [H|H].
  - rewrite valp_nth by exact H. unfold val_of. apply lval_zeros. intros x Hx.
    unfold coeff_limbs, vec_zero in Hx. rewrite map_map in Hx. apply in_map_iff in Hx.
    destruct Hx as (l & <- & _). apply nthZ_zeros.
  - apply nthZ_overflow. rewrite valp_length. exact H.
Qed.

Section Value.
Variables (n : nat) (rb ab off keep sgn P u : Z).
Variable ovz : bool.                                         (* zero-fill (true) or keep (false) the columns of res that a does not have *)
Variable f : list Z -> list Z -> option (list Z).          (* per-coefficient kernel: limbs of a, prior limbs of res -> new limbs of res *)
Variable guard : list Z -> list Z -> Prop.                   (* headroom precondition of the per-coefficient theorem *)
Hypothesis Hu : 0 <= u.

(* THE DEPENDENCY (to be discharged by C08): value of one coefficient of one column *)
Hypothesis column_value_ok : forall a r0 out, f a r0 = Some out -> guard a r0 ->
  length out = length r0 /\
  exists e m, val_of P rb out = keep * val_of P rb r0 + sgn * val_of (P + off) ab a + e + m * 2 ^ P /\ Z.abs e <= u.

(* the relation "X = keep*Y + sgn*Z + E + M*2^P" between four numbers *)
Definition rel (X Y Z E M : Z) : Prop := X = keep * Y + sgn * Z + E + M * 2 ^ P.

Lemma col_value ca r0 c' : col_coeff f n ca r0 = Some c' ->
  (forall t, (t < n)%nat -> guard (coeff_limbs ca t) (coeff_limbs r0 t)) ->
  exists ev mv, length ev = n /\ length mv = n /\
    (forall t, rel (nthZ (valp P rb n c') t) (nthZ (valp P rb n r0) t) (nthZ (valp (P + off) ab n ca) t) (nthZ ev t) (nthZ mv t)) /\
    (forall t, Z.abs (nthZ ev t) <= u).
Proof.
  intros Hc Hg. unfold col_coeff in Hc. destruct (lift_coeff_some _ _ _ _ _ _ Hc) as (cs & Lcs & -> & Hf).
  assert (Hpt : forall t, (t < n)%nat -> exists e m,
            rel (nthZ (valp P rb n (untranspose (length r0) cs)) t) (nthZ (valp P rb n r0) t) (nthZ (valp (P + off) ab n ca) t) e m
            /\ Z.abs e <= u).
  { intros t Ht. destruct (column_value_ok _ _ _ (Hf t Ht) (Hg t Ht)) as (Hlen & e & m & Hv & He).
    exists e, m. split; [|exact He]. unfold rel. rewrite !valp_nth by exact Ht.
    rewrite coeff_untranspose; [exact Hv | lia |].
    rewrite Hlen. unfold coeff_limbs. apply map_length. }
  destruct (fin_choice2 _ n Hpt) as (ev & mv & Le & Lm & Hr).
  exists ev, mv. repeat split; try assumption.
  - intros t. destruct (Nat.lt_ge_cases t n) as [Ht|Ht]; [apply Hr; exact Ht|].
    unfold rel. rewrite !nthZ_overflow by (rewrite ?valp_length; lia). lia.
  - intros t. destruct (Nat.lt_ge_cases t n) as [Ht|Ht]; [apply Hr; exact Ht|].
    rewrite nthZ_overflow by lia. cbn. exact Hu.
Qed.

(* multiplication by a secret polynomial preserves the relation *)
Lemma pmul_rel s V Y Z ev mv : length s = n -> length V = n -> length Y = n -> length Z = n -> length ev = n -> length mv = n ->
  (forall t, rel (nthZ V t) (nthZ Y t) (nthZ Z t) (nthZ ev t) (nthZ mv t)) ->
  forall t, rel (nthZ (pmul s V) t) (nthZ (pmul s Y) t) (nthZ (pmul s Z) t) (nthZ (pmul s ev) t) (nthZ (pmul s mv) t).
Proof.
  intros Ls LV LY LZ Le Lm H t. unfold rel in *.
  destruct (Nat.lt_ge_cases t n) as [Ht|Ht].
  - rewrite !pmul_nth by lia. rewrite Ls.
    rewrite (zsum_ext _ (fun i => keep * (nthZ s i * xext Y (Z.of_nat t - Z.of_nat i))
                                  + sgn * (nthZ s i * xext Z (Z.of_nat t - Z.of_nat i))
                                  + nthZ s i * xext ev (Z.of_nat t - Z.of_nat i)
                                  + (nthZ s i * xext mv (Z.of_nat t - Z.of_nat i)) * 2 ^ P)).
    + rewrite !zsum_add, !zsum_mul_l, zsum_mul_r. reflexivity.
    + intros i Hi.
      destruct (exp_decomp (Z.of_nat n) (Z.of_nat t - Z.of_nat i) ltac:(lia)) as (q & r & Hk & Hr).
      rewrite (xext_at V _ q r), (xext_at Y _ q r), (xext_at Z _ q r), (xext_at ev _ q r), (xext_at mv _ q r) by lia.
      rewrite (H r). ring.
  - rewrite !nthZ_overflow by (rewrite pmul_length; lia). lia.
Qed.

Lemma lsum_rel (X Y Z B : nat -> Z) (L : list nat) :
  (forall i, In i L -> exists E M, rel (X i) (Y i) (Z i) E M /\ Z.abs E <= B i) ->
  exists E M, rel (lsum X L) (lsum Y L) (lsum Z L) E M /\ Z.abs E <= lsum B L.
Proof.
  induction L as [|i L IH]; intros H; cbn [lsum fold_right].
  - exists 0, 0. unfold rel. split; lia.
  - fold (lsum X L) (lsum Y L) (lsum Z L) (lsum B L).
    destruct (IH ltac:(intros; apply H; right; assumption)) as (E1 & M1 & R1 & B1).
    destruct (H i (or_introl eq_refl)) as (E0 & M0 & R0 & B0).
    exists (E0 + E1), (M0 + M1). unfold rel in *. split; lia.
Qed.

Variable s : list (list Z).
Hypothesis Hs : secret_ok n s.

Definition err_bound (ncols : nat) : Z :=
  u + lsum (fun i => l1norm (nth i s []) * (if Nat.ltb (S i) ncols then u else 0)) (seq 0 (length s)).

Theorem colloop_phase_value res a r :
  wf_glwe n res -> wf_glwe n a -> (g_ncols a <= g_ncols res)%nat ->
  ((g_ncols a < g_ncols res)%nat -> keep = if ovz then 0 else 1) ->
  (forall i t, (i < g_ncols a)%nat -> (t < n)%nat -> guard (coeff_limbs (gcol a i) t) (coeff_limbs (gcol res i) t)) ->
  colloop f ovz n res a = Some r ->
  forall t, exists E M,
    rel (nthZ (VP P rb n s r) t) (nthZ (VP P rb n s res) t) (nthZ (VP (P + off) ab n s a) t) E M /\
    Z.abs E <= err_bound (g_ncols a).
Proof.
  intros Hres Ha Hc Hk Hg Hl t. unfold colloop, mapi_cols_opt in Hl.
  destruct (sequence _) as [cs|] eqn:E; [|discriminate]. injection Hl as <-.
  destruct (sequence_some _ _ E) as [Lcs Hn]. rewrite map_seq_length in Lcs.
  (* every column index, existing or not, satisfies the column relation *)
  set (r := with_cols res cs).
  assert (Hcol : forall i, exists ev mv, length ev = n /\ length mv = n /\
            (forall t, rel (nthZ (valp P rb n (gcol r i)) t) (nthZ (valp P rb n (gcol res i)) t)
                           (nthZ (valp (P + off) ab n (gcol a i)) t) (nthZ ev t) (nthZ mv t)) /\
            (forall t, Z.abs (nthZ ev t) <= if Nat.ltb i (g_ncols a) then u else 0)).
  { intros i. change (gcol r i) with (nth i cs []). destruct (Nat.ltb_spec i (g_ncols a)) as [Hia|Hia].
    - specialize (Hn i None [] ltac:(rewrite map_seq_length; lia)).
      rewrite nth_map_seq in Hn by lia.
      destruct (Nat.ltb_spec i (g_ncols a)) as [_|]; [|lia].
      apply (col_value _ _ _ Hn). intros t' Ht'. apply Hg; assumption.
    - exists (pzero n), (pzero n). repeat split; try apply pzero_length.
      + intros t'. rewrite (gcol_out a) by lia. unfold rel. rewrite valp_nil, !nthZ_pzero.
        destruct (Nat.lt_ge_cases i (g_ncols res)) as [Hi|Hi].
        * specialize (Hn i None [] ltac:(rewrite map_seq_length; lia)).
          rewrite nth_map_seq in Hn by lia.
          destruct (Nat.ltb_spec i (g_ncols a)) as [|_]; [lia|]. injection Hn as Hn. rewrite <- Hn.
          rewrite (Hk ltac:(lia)). destruct ovz; [rewrite valp_vec_zero|]; lia.
        * rewrite (nth_overflow cs) by lia. rewrite (gcol_out res) by lia. rewrite !valp_nil. lia.
      + intros t'. rewrite nthZ_pzero. cbn. lia. }
  clearbody r.
  assert (Lp : forall (V : nat -> list Z), length (psum n (map (fun i => pmul (nth i s []) (V i)) (seq 0 (length s)))) = n)
    by (intros V; apply psum_pmul_length; exact Hs).
  assert (HG : forall (V : nat -> list Z) i, In i (seq 0 (length s)) -> length (pmul (nth i s []) (V i)) = n).
  { intros V i Hi. rewrite pmul_length. apply (sec_len n s Hs). apply nth_In. apply in_seq in Hi. lia. }
  unfold VP.
  rewrite !nthZ_padd by (rewrite (Lp (fun i => valp _ _ n (gcol _ (S i)))), valp_length; reflexivity).
  rewrite (psum_nth n (fun i => pmul (nth i s []) (valp P rb n (gcol r (S i))))) by (apply (HG (fun i => valp P rb n (gcol r (S i))))).
  rewrite (psum_nth n (fun i => pmul (nth i s []) (valp P rb n (gcol res (S i))))) by (apply (HG (fun i => valp P rb n (gcol res (S i))))).
  rewrite (psum_nth n (fun i => pmul (nth i s []) (valp (P + off) ab n (gcol a (S i))))) by (apply (HG (fun i => valp (P + off) ab n (gcol a (S i))))).
  destruct (Hcol 0%nat) as (ev0 & mv0 & Le0 & Lm0 & R0 & B0).
  destruct (lsum_rel
              (fun i => nthZ (pmul (nth i s []) (valp P rb n (gcol r (S i)))) t)
              (fun i => nthZ (pmul (nth i s []) (valp P rb n (gcol res (S i)))) t)
              (fun i => nthZ (pmul (nth i s []) (valp (P + off) ab n (gcol a (S i)))) t)
              (fun i => l1norm (nth i s []) * (if Nat.ltb (S i) (g_ncols a) then u else 0))
              (seq 0 (length s))) as (E1 & M1 & R1 & B1).
  { intros i Hi. destruct (Hcol (S i)) as (ev & mv & Le & Lm & Rr & Bb).
    assert (Li : length (nth i s []) = n) by (apply (sec_len n s Hs); apply nth_In; apply in_seq in Hi; lia).
    exists (nthZ (pmul (nth i s []) ev) t), (nthZ (pmul (nth i s []) mv) t). split.
    - apply pmul_rel; try assumption; apply valp_length.
    - apply pmul_bound; [lia | destruct (Nat.ltb_spec (S i) (g_ncols a)); lia | exact Bb]. }
  exists (nthZ ev0 t + E1), (nthZ mv0 t + M1). specialize (R0 t). specialize (B0 t).
  unfold rel in *. unfold err_bound. split; [lia|].
  destruct (Nat.ltb_spec 0 (g_ncols a)); lia.
Qed.

End Value.

(* ---------------------------------------------------------------- the public operations are instances of the column loop *)

(* the statement C08 has to provide for a per-coefficient kernel f (this is `column_value_ok` above, closed) *)
Definition column_value_stmt (rb ab off keep sgn P u : Z) (f : list Z -> list Z -> option (list Z))
           (guard : list Z -> list Z -> Prop) : Prop :=
  forall a r0 out, f a r0 = Some out -> guard a r0 ->
    length out = length r0 /\
    exists e m, val_of P rb out = keep * val_of P rb r0 + sgn * val_of (P + off) ab a + e + m * 2 ^ P /\ Z.abs e <= u.

(* kernel, source operand and (off, keep, sgn) of the shift / normalise opcodes of exec_op *)
Definition sn_kernel (opc rb ab k : Z) : list Z -> list Z -> option (list Z) :=
  match opc with
  | 13 => fun _ r => Some (rsh_assign W64 rb k r)
  | 14 => fun _ r => Some (lsh_assign W64 rb k r)
  | 15 => fun x r => Some (lsh W64 true rb k x r)
  | 16 => fun x r => Some (lsh W64 false rb k x r)
  | 17 => fun x r => Some (lsh_sub W64 rb k x r)
  | 18 => fun x r => normalize W64 rb ab 0 x r
  | _ => fun _ r => Some (normalize_assign W64 rb r)
  end.
Definition sn_inplace (opc : Z) : bool := (opc =? 13) || (opc =? 14) || (opc =? 19).
Definition sn_off (opc k : Z) : Z := match opc with 13 => - k | 14 | 15 | 16 | 17 => k | _ => 0 end.
Definition sn_keep (opc : Z) : Z := match opc with 16 | 17 => 1 | _ => 0 end.
Definition sn_sgn (opc : Z) : Z := match opc with 17 => -1 | _ => 1 end.

Lemma mapi_cols_opt_ext g (f1 f2 : nat -> limbs -> option limbs) :
  (forall i, (i < g_ncols g)%nat -> f1 i (gcol g i) = f2 i (gcol g i)) -> mapi_cols_opt g f1 = mapi_cols_opt g f2.
Proof.
  intros H. unfold mapi_cols_opt.
  rewrite (map_seq_ext (fun i => f1 i (gcol g i)) (fun i => f2 i (gcol g i))) by exact H. reflexivity.
Qed.

Definition sn_src (opc : Z) (res a : glwe) : glwe := if sn_inplace opc then res else a.
Definition sn_ovz (opc : Z) : bool := opc =? 15.

Lemma exec_op_colloop n opc scr k res a b r : 13 <= opc <= 19 ->
  wf_glwe n res -> wf_glwe n a ->
  exec_op opc n scr k res a b = Some r ->
  colloop (sn_kernel opc (g_b res) (g_b a) k) (sn_ovz opc) n res (sn_src opc res a) = Some r /\
  (g_ncols (sn_src opc res a) <= g_ncols res)%nat /\
  ((g_ncols (sn_src opc res a) < g_ncols res)%nat -> sn_keep opc = if sn_ovz opc then 0 else 1).
Proof.
  intros Ho Hres Ha He.
  pose proof (ncols_rank n res Hres) as Nr. pose proof (ncols_rank n a Ha) as Na.
  assert (Hself : forall f g, (forall i, (i < g_ncols res)%nat -> g i (gcol res i) = col_coeff f n (gcol res i) (gcol res i)) ->
            forall ovz, mapi_cols_opt res g = colloop f ovz n res res).
  { intros f g Hg ovz. unfold colloop. apply mapi_cols_opt_ext. intros i Hi.
    destruct (Nat.ltb_spec i (g_ncols res)); [apply Hg; exact Hi | lia]. }
  assert (Hcases : opc = 13 \/ opc = 14 \/ opc = 15 \/ opc = 16 \/ opc = 17 \/ opc = 18 \/ opc = 19) by lia.
  destruct Hcases as [-> | [-> | [-> | [-> | [-> | [-> | ->]]]]]];
    unfold sn_src, sn_ovz; cbn [exec_op sn_kernel sn_inplace sn_keep Z.eqb Pos.eqb orb] in *.
  - unfold glwe_rsh in He. destruct (_ <=? _); [|discriminate]. repeat split; try lia.
    rewrite <- He. symmetry. apply Hself. intros; reflexivity.
  - unfold glwe_lsh_assign in He. destruct (_ <=? _); [|discriminate]. repeat split; try lia.
    rewrite <- He. symmetry. apply Hself. intros; reflexivity.
  - unfold glwe_lsh, glwe_lsh_gen in He. destruct (_ && _)%bool eqn:E; [|discriminate]. split_andb E.
    apply Nat.leb_le in E0. repeat split; [exact He | lia].
  - unfold glwe_lsh_add, glwe_lsh_gen in He. destruct (_ && _)%bool eqn:E; [|discriminate]. split_andb E.
    apply Nat.leb_le in E0. repeat split; [exact He | lia].
  - unfold glwe_lsh_sub, glwe_lsh_gen in He. destruct (_ && _)%bool eqn:E; [|discriminate]. split_andb E.
    apply Nat.leb_le in E0. repeat split; [exact He | lia].
  - unfold glwe_normalize in He. destruct (_ && _)%bool eqn:E; [|discriminate]. split_andb E.
    apply Nat.eqb_eq in E1. repeat split; try lia.
    rewrite <- He. unfold colloop. apply mapi_cols_opt_ext. intros i Hi.
    destruct (Nat.ltb_spec i (g_ncols a)); [reflexivity | lia].
  - unfold glwe_normalize_assign in He. destruct (_ <=? _); [|discriminate]. repeat split; try lia.
    rewrite <- He. symmetry. apply Hself. intros; reflexivity.
Qed.

(* shift / normalise at the GLWE level, from the per-column statement; `a` may have a lower rank than res
   (glwe_lsh zero-fills, glwe_lsh_add / glwe_lsh_sub keep the columns of res that a does not have) *)
Theorem exec_op_phase_value n s opc scr k res a b r P u guard :
  13 <= opc <= 19 -> 0 <= u ->
  column_value_stmt (g_b res) (g_b (sn_src opc res a)) (sn_off opc k) (sn_keep opc) (sn_sgn opc) P u
                    (sn_kernel opc (g_b res) (g_b a) k) guard ->
  secret_ok n s -> wf_glwe n res -> wf_glwe n a ->
  (forall i t, (i < g_ncols (sn_src opc res a))%nat -> (t < n)%nat ->
     guard (coeff_limbs (gcol (sn_src opc res a) i) t) (coeff_limbs (gcol res i) t)) ->
  exec_op opc n scr k res a b = Some r ->
  forall t, exists E M,
    nthZ (VP P (g_b res) n s r) t =
      sn_keep opc * nthZ (VP P (g_b res) n s res) t +
      sn_sgn opc * nthZ (VP (P + sn_off opc k) (g_b (sn_src opc res a)) n s (sn_src opc res a)) t +
      E + M * 2 ^ P /\
    Z.abs E <= err_bound u s (g_ncols (sn_src opc res a)).
Proof.
  intros Ho Hu Hcv Hs Hres Ha Hg He t.
  destruct (exec_op_colloop n opc scr k res a b r Ho Hres Ha He) as (Hl & Hc & Hk).
  assert (Wsrc : wf_glwe n (sn_src opc res a)) by (unfold sn_src; destruct (sn_inplace opc); assumption).
  exact (colloop_phase_value n (g_b res) (g_b (sn_src opc res a)) (sn_off opc k) (sn_keep opc) (sn_sgn opc) P u (sn_ovz opc) _ guard
           Hu Hcv s Hs res (sn_src opc res a) r Hres Wsrc Hc Hk Hg Hl t).
Qed.

(* ---------------------------------------------------------------- VP is the value of the limb-wise phase *)
Lemma zsum_shift f m : zsum f (S m) = f 0%nat + zsum (fun j => f (S j)) m.
Proof. induction m as [|m IH]; cbn [zsum] in *; lia. Qed.

Definition wgt (P b : Z) (j : nat) : Z := 2 ^ (P - (Z.of_nat j + 1) * b).

Lemma lval_sum P b j0 l : lval P b (Z.of_nat j0) l = zsum (fun j => nthZ l j * wgt P b (j0 + j)) (length l).
Proof.
  revert j0; induction l as [|x t IH]; intros j0; [reflexivity|].
  cbn [lval length]. rewrite zsum_shift.
  replace (Z.of_nat j0 + 1) with (Z.of_nat (S j0)) by lia. rewrite IH.
  unfold nthZ at 2. cbn [nth]. unfold wgt at 2. rewrite Nat.add_0_r. f_equal; [f_equal; f_equal; lia|].
  apply zsum_ext. intros j _. unfold nthZ. cbn [nth]. f_equal. f_equal. lia.
Qed.
Lemma val_of_sum P b l : val_of P b l = zsum (fun j => nthZ l j * wgt P b j) (length l).
Proof. unfold val_of. change 0 with (Z.of_nat 0). rewrite lval_sum. reflexivity. Qed.

Lemma zsum_lsum_swap (Fij : nat -> nat -> Z) (L : list nat) m :
  zsum (fun j => lsum (fun i => Fij i j) L) m = lsum (fun i => zsum (fun j => Fij i j) m) L.
Proof.
  induction L as [|i L IH]; cbn [lsum fold_right].
  - apply zsum_zero.
  - fold (lsum (fun i => zsum (fun j => Fij i j) m) L). rewrite <- IH. rewrite <- zsum_add. reflexivity.
Qed.
Lemma lsum_ext (f g : nat -> Z) L : (forall i, In i L -> f i = g i) -> lsum f L = lsum g L.
Proof.
  induction L as [|i L IH]; intros H; cbn [lsum fold_right]; [reflexivity|].
  fold (lsum f L) (lsum g L). rewrite IH by (intros; apply H; right; assumption).
  rewrite (H i (or_introl eq_refl)). reflexivity.
Qed.

Lemma lsum_mul_r (f : nat -> Z) c L : lsum f L * c = lsum (fun i => f i * c) L.
Proof.
  induction L as [|i L IH]; cbn [lsum fold_right]; [lia|].
  fold (lsum f L) (lsum (fun i => f i * c) L). rewrite <- IH. ring.
Qed.

Section ValPhase.
Variables (n : nat) (s : list (list Z)) (P b : Z) (g : glwe).
Hypothesis Hs : secret_ok n s.
Hypothesis Hg : wf_glwe n g.

Lemma coeff_limbs_nth (c : limbs) t j : (j < length c)%nat -> nthZ (coeff_limbs c t) j = nthZ (nth j c []) t.
Proof.
  intros Hj. unfold coeff_limbs, nthZ at 1.
  rewrite (nth_indep _ 0 ((fun l => nthZ l t) [])) by (rewrite map_length; exact Hj).
  rewrite (map_nth (fun l => nthZ l t)). reflexivity.
Qed.

(* value polynomial of column i = weighted sum of the zero-extended limbs, also for a missing column *)
Lemma valp_gl i t : (t < n)%nat ->
  nthZ (valp P b n (gcol g i)) t = zsum (fun j => nthZ (gl n g i j) t * wgt P b j) (g_size g).
Proof.
  intros Ht. destruct (Nat.lt_ge_cases i (g_ncols g)) as [Hi|Hi].
  - rewrite valp_nth by exact Ht. rewrite val_of_sum. unfold coeff_limbs at 2. rewrite map_length.
    rewrite (gcol_length n g i Hg Hi). apply zsum_ext. intros j Hj.
    rewrite coeff_limbs_nth by (rewrite (gcol_length n g i Hg Hi); exact Hj).
    rewrite gl_cl by exact Hg. rewrite cl_in by (rewrite (gcol_length n g i Hg Hi); exact Hj). reflexivity.
  - rewrite gcol_out by exact Hi. rewrite valp_nil.
    rewrite (zsum_ext _ (fun _ => 0)); [symmetry; apply zsum_zero|].
    intros j _. rewrite gl_col_out by exact Hi. rewrite nthZ_pzero. lia.
Qed.

Lemma xext_valp i m : xext (valp P b n (gcol g i)) m = zsum (fun j => xext (gl n g i j) m * wgt P b j) (g_size g).
Proof.
  destruct (Nat.eq_dec n 0) as [H0|H0].
  - rewrite xext_len0 by (rewrite valp_length; exact H0).
    rewrite (zsum_ext _ (fun _ => 0)); [symmetry; apply zsum_zero|].
    intros j _. rewrite xext_len0 by (rewrite gl_length by exact Hg; exact H0). lia.
  - destruct (exp_decomp (Z.of_nat n) m ltac:(lia)) as (q & r & Hm & Hr).
    rewrite (xext_at (valp P b n (gcol g i)) m q r) by (rewrite valp_length; lia).
    rewrite valp_gl by lia. rewrite <- zsum_mul_l. apply zsum_ext. intros j _.
    rewrite (xext_at (gl n g i j) m q r) by (rewrite gl_length by exact Hg; lia). ring.
Qed.

Lemma pmul_valp t0 i t : In t0 s -> (t < n)%nat ->
  nthZ (pmul t0 (valp P b n (gcol g i))) t = zsum (fun j => nthZ (pmul t0 (gl n g i j)) t * wgt P b j) (g_size g).
Proof.
  intros Hin Ht. pose proof (sec_len n s Hs t0 Hin) as Lt.
  rewrite pmul_nth by (rewrite ?valp_length; lia). rewrite Lt.
  rewrite (zsum_ext _ (fun u => zsum (fun j => nthZ t0 u * xext (gl n g i j) (Z.of_nat t - Z.of_nat u) * wgt P b j) (g_size g))).
  - rewrite zsum_swap. apply zsum_ext. intros j _.
    rewrite pmul_nth by (rewrite ?gl_length by exact Hg; lia). rewrite Lt. rewrite <- zsum_mul_r. reflexivity.
  - intros u _. rewrite xext_valp. rewrite <- zsum_mul_l. apply zsum_ext. intros j _. ring.
Qed.

Theorem value_of_phase t : nthZ (valp P b n (phase n s g)) t = nthZ (VP P b n s g) t.
Proof.
  destruct (Nat.lt_ge_cases t n) as [Ht|Ht].
  2:{ rewrite !nthZ_overflow; try reflexivity.
      - unfold VP. rewrite padd_length, valp_length, psum_pmul_length by exact Hs. lia.
      - rewrite valp_length. exact Ht. }
  assert (HG : forall (V : nat -> list Z) i, In i (seq 0 (length s)) -> length (pmul (nth i s []) (V i)) = n).
  { intros V i Hi. rewrite pmul_length. apply (sec_len n s Hs). apply nth_In. apply in_seq in Hi. lia. }
  unfold VP. rewrite nthZ_padd by (rewrite valp_length; apply psum_pmul_length; exact Hs).
  rewrite (psum_nth n (fun i => pmul (nth i s []) (valp P b n (gcol g (S i))))) by (apply (HG (fun i => valp P b n (gcol g (S i))))).
  rewrite valp_nth by exact Ht. rewrite val_of_sum.
  unfold coeff_limbs at 2. rewrite map_length, phase_length.
  rewrite (zsum_ext _ (fun j => nthZ (gl n g 0 j) t * wgt P b j
                               + lsum (fun i => nthZ (pmul (nth i s []) (gl n g (S i) j)) t * wgt P b j) (seq 0 (length s)))).
  - rewrite zsum_add. rewrite valp_gl by exact Ht. f_equal.
    rewrite zsum_lsum_swap. apply lsum_ext. intros i Hi.
    rewrite pmul_valp; [reflexivity | apply nth_In; apply in_seq in Hi; lia | exact Ht].
  - intros j Hj. rewrite coeff_limbs_nth by (rewrite phase_length; exact Hj).
    unfold phase. rewrite nth_map_seq by exact Hj. unfold phase_limb.
    rewrite nthZ_padd by (rewrite gl_length by exact Hg; apply psum_pmul_length; exact Hs).
    rewrite (psum_nth n (fun i => pmul (nth i s []) (gl n g (S i) j))) by (apply (HG (fun i => gl n g (S i) j))).
    rewrite Z.mul_add_distr_r. f_equal. apply lsum_mul_r.
Qed.

End ValPhase.

(* ---------------------------------------------------------------- the result of the column loop is well formed;
   the theorem stated on the value of the limb-wise phase *)
Lemma colloop_wf f ovz n res a r : wf_glwe n res -> colloop f ovz n res a = Some r -> wf_glwe n r.
Proof.
  intros (Hn & Hc & Hf) Hl. unfold colloop, mapi_cols_opt in Hl.
  destruct (sequence _) as [cs|] eqn:E; [|discriminate]. injection Hl as <-.
  destruct (sequence_some _ _ E) as [Lcs Hnth]. rewrite map_seq_length in Lcs.
  repeat split; cbn [with_cols g_n g_size g_cols].
  - exact Hn.
  - unfold g_ncols. cbn [with_cols g_cols]. rewrite Lcs. exact Hc.
  - rewrite Forall_forall. intros c Hin. destruct (In_nth cs c [] Hin) as (i & Hi & <-).
    specialize (Hnth i None [] ltac:(rewrite map_seq_length; lia)).
    rewrite nth_map_seq in Hnth by lia.
    assert (Hwc : wf_col n (g_size res) (gcol res i)).
    { rewrite Forall_forall in Hf. apply (Hf (gcol res i)). apply nth_In. unfold g_ncols in Lcs. lia. }
    destruct (Nat.ltb i (g_ncols a)).
    + unfold col_coeff in Hnth.
      destruct (lift_coeff_some _ _ _ _ _ _ Hnth) as (cs' & Lcs' & -> & _).
      rewrite (proj1 Hwc). split.
      * unfold untranspose. apply map_seq_length.
      * rewrite Forall_forall. intros l Hl. unfold untranspose in Hl. apply in_map_iff in Hl.
        destruct Hl as (j & <- & _). rewrite map_length. exact Lcs'.
    + injection Hnth as <-. destruct ovz; [|exact Hwc]. split.
      * unfold vec_zero. rewrite map_length. apply Hwc.
      * rewrite Forall_forall. intros l Hl. unfold vec_zero in Hl. apply in_map_iff in Hl.
        destruct Hl as (x & <- & _). apply zeros_length.
Qed.

Theorem exec_op_phase_value_limbs n s opc scr k res a b r P u guard :
  13 <= opc <= 19 -> 0 <= u ->
  column_value_stmt (g_b res) (g_b (sn_src opc res a)) (sn_off opc k) (sn_keep opc) (sn_sgn opc) P u
                    (sn_kernel opc (g_b res) (g_b a) k) guard ->
  secret_ok n s -> wf_glwe n res -> wf_glwe n a ->
  (forall i t, (i < g_ncols (sn_src opc res a))%nat -> (t < n)%nat ->
     guard (coeff_limbs (gcol (sn_src opc res a) i) t) (coeff_limbs (gcol res i) t)) ->
  exec_op opc n scr k res a b = Some r ->
  wf_glwe n r /\
  forall t, exists E M,
    nthZ (valp P (g_b res) n (phase n s r)) t =
      sn_keep opc * nthZ (valp P (g_b res) n (phase n s res)) t +
      sn_sgn opc * nthZ (valp (P + sn_off opc k) (g_b (sn_src opc res a)) n (phase n s (sn_src opc res a))) t +
      E + M * 2 ^ P /\
    Z.abs E <= err_bound u s (g_ncols (sn_src opc res a)).
Proof.
  intros Ho Hu Hcv Hs Hres Ha Hg He.
  assert (Wr : wf_glwe n r).
  { destruct (exec_op_colloop n opc scr k res a b r Ho Hres Ha He) as (Hl & _). apply (colloop_wf _ _ n res _ r Hres Hl). }
  assert (Wsrc : wf_glwe n (sn_src opc res a)) by (unfold sn_src; destruct (sn_inplace opc); assumption).
  split; [exact Wr|]. intros t.
  rewrite !value_of_phase by assumption.
  apply (exec_op_phase_value n s opc scr k res a b r P u guard); assumption.
Qed.
