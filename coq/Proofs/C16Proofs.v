(* C16 — proofs about the CKKS metadata / error algebra of Model/C16Meta.v against Model/C16Spec.v *)
From Coq Require Import ZifyBool.
From PV Require Import Base.MachineInt Model.C16Meta Model.C16Spec.
Open Scope Z_scope.

(* ------------------------------------------------------------------ div_ceil *)
Lemma cdiv_le_iff (B k s : Z) : 1 <= B -> (cdiv k B <= s <-> k <= s * B).
Proof. intros HB. unfold cdiv. split; intros H; nia. Qed.

Lemma cdiv_ge1 (B k : Z) : 1 <= B -> 1 <= k -> 1 <= cdiv k B.
Proof. intros. unfold cdiv. nia. Qed.

Lemma cdiv_bounds (B k s : Z) : 1 <= B -> 0 <= k -> k <= s * B ->
  0 <= cdiv k B /\ k <= cdiv k B * B /\ cdiv k B * B <= s * B.
Proof.
  intros HB Hk Hs.
  assert (H1 : cdiv k B <= s) by (apply cdiv_le_iff; lia).
  assert (H2 : k <= cdiv k B * B) by (apply cdiv_le_iff; lia).
  assert (H3 : 0 <= cdiv k B) by (unfold cdiv; nia).
  repeat split; try lia. nia.
Qed.

Lemma min_k_ge1 (B l b : Z) : 1 <= B -> 1 <= l + b -> 1 <= min_k B (Meta l b).
Proof.
  intros HB H. unfold min_k, eff; cbn [ld lb].
  pose proof (cdiv_ge1 B (l + b) HB H). nia.
Qed.

(* ------------------------------------------------------------------ one call: code vs documented algebra *)
(* what the transcribed code does, classified against the closed-form algebra:
   Ok  -> the algebra says Ok with the same metadata and limb count,
   Err -> the algebra says the same error,
   panic -> the call is either not admissible or in a known panic class *)
(* a successful encryption has passed the noise-limb assertion *)
Definition enc_ok (B : Z) (o : op) (d : ct) : Prop :=
  match o with OEncrypt _ k => cdiv k B <= csize d | _ => True end.

Definition step_verdict (chk : bool) (B : Z) (o : op) (d a b : ct) : Prop :=
  match meta_step chk B o d a b with
  | Done m sz _ => spec_step B o d a b = SOk m sz /\ enc_ok B o d
  | Fail e m => spec_step B o d a b = SErr e /\ good B (Ct m (csize d))
  | Panic => admissible B o d a -> known_panic B o d a b
  end.

Ltac rdx :=
  cbv beta iota zeta delta [step_verdict enc_ok meta_step meta_m spec_step new_size
    encrypt lin_into lin_assign ptznx_into ptznx_assign ptrnx_into ptrnx_assign cstznx_into cstznx_assign
    cstrnx_into cstrnx_assign neg_into mul_into mul_assign square_into square_assign mulptz_into mulptz_assign
    mulcst_into mulcst_assign mulcstrnx_prec mulacc on_tmp mulpow2_into divpow2_into divpow2_assign
    rotate_into rotate_assign rescale_into rescale_assign extract_pt unary_into to_znx_check
    apply_params apply_params_asserting mul_ct_params mul_pt_params ensure_plaintext_alignment
    cst_at_k cst_meta_of_prec cst_to_znx ptz_alloc compact
    s_unary s_align s_f64 s_mul_ct s_mul_pt s_acc s_compact cpt
    offset_unary offset_binary offu offb ssub eff maxk
    bind ret fail panic get set_meta set_lb set_ld shift csub usub uadd passert when
    admissible known_panic compact_ct
    fst snd cm csize ld lb pm pmaxk pb2k km klen knone];
  cbv beta iota zeta.

Ltac go :=
  rdx;
  repeat (match goal with
          | |- context [if ?c then _ else _] => let E := fresh "E" in destruct c eqn:E
          end; rdx).

Ltac hyps :=
  unfold good, inv, wf_op in *; unfold wf_ptz in *; unfold smallm, small in *;
  unfold eff, maxk, two62, two63, two64, f64_prec in *; cbn [cm csize ld lb pm pmaxk pb2k km klen knone] in *.

Ltac cdivs :=
  repeat match goal with
  | HB : 1 <= ?B |- context [cdiv ?k ?B] =>
      lazymatch goal with
      | _ : 1 <= k -> 1 <= cdiv k B |- _ => fail
      | _ => pose proof (cdiv_ge1 B k HB)
      end
  end.

Ltac goodgoal := unfold good, inv, eff, maxk, two62 in *; cbn [cm csize ld lb] in *; repeat split; lia.

Ltac fin :=
  try match goal with
  | |- _ = _ /\ _ => split; [ | first [exact I | lia | goodgoal | idtac ] ]
  end;
  try match goal with
  | |- SOk _ _ = SOk _ _ => f_equal; try f_equal; lia
  | |- SErr _ = SErr _ => first [reflexivity | exfalso; lia]
  | |- SOk _ _ = SErr _ => exfalso; lia
  | |- SErr _ = SOk _ _ => exfalso; lia
  | |- _ -> _ => intros; first [exfalso; lia | lia | tauto]
  end.

Ltac split_op o :=
  destruct o as [ s | pt k | | | p | p | prec | prec | l k none | l k none | prec none | prec none | |
                  | | | | | p | p | prec | prec | prec none | prec none | prec none | prec none
                  | | p | prec | prec none | prec none | bits | bits | bits | bits | key | key | | | k | k
                  | | s | | m' | pt ];
  try (destruct p as [[pl pb] pk pbk]); try (destruct prec as [pl pb]); try (destruct pt as [pl pb]);
  try (destruct m' as [pl pb]); try (destruct none); try (destruct key).

Lemma step_cases (chk : bool) (B : Z) (o : op) (d a b : ct) :
  1 <= B -> wf_op B o -> good B d -> good B a -> good B b -> step_verdict chk B o d a b.
Proof.
  intros HB Hwf Hd Ha Hb.
  split_op o;
  destruct d as [[dl db] ds], a as [[al ab] asz], b as [[bl bb] bs]; hyps.
  all: go; unfold two64, f64_prec in *; fin.
  all: cdivs; fin.
  (* compact_limbs_copy: the slice exists because the source satisfies the invariant *)
  all: try (pose proof (cdiv_le_iff B (al + ab) asz HB); intros; exfalso; lia).
  (* constants: to_znx has one limb to write into as soon as the precision is not (0, 0) *)
  all: try (pose proof (min_k_ge1 B pl pb HB); intros; exfalso; lia).
  (* a failed encryption (plaintext alignment) has passed the noise-limb assertion: enc_k <= max_k *)
  all: try (pose proof (cdiv_le_iff B k ds HB); goodgoal).
Qed.

(* ------------------------------------------------------------------ consequences for one call *)
Lemma no_panic (chk : bool) (B : Z) (o : op) (d a b : ct) :
  1 <= B -> wf_op B o -> good B d -> good B a -> good B b ->
  admissible B o d a ->
  meta_step chk B o d a b <> Panic.
Proof.
  intros HB Hwf Hd Ha Hb Hadm Hp.
  pose proof (step_cases chk B o d a b HB Hwf Hd Ha Hb) as H.
  unfold step_verdict in H. rewrite Hp in H. exact (H Hadm).
Qed.

Lemma error_iff (chk : bool) (B : Z) (o : op) (d a b : ct) :
  1 <= B -> wf_op B o -> good B d -> good B a -> good B b ->
  admissible B o d a ->
  outcome_matches (meta_step chk B o d a b) (spec_step B o d a b).
Proof.
  intros HB Hwf Hd Ha Hb Hadm.
  pose proof (step_cases chk B o d a b HB Hwf Hd Ha Hb) as H.
  pose proof (no_panic chk B o d a b HB Hwf Hd Ha Hb Hadm) as Hn.
  unfold step_verdict in H. unfold outcome_matches.
  destruct (meta_step chk B o d a b) as [m sz sh | e m | ]; [ | | congruence ].
  - destruct H as [H _]. rewrite H. split; reflexivity.
  - destruct H as [H _]. rewrite H. reflexivity.
Qed.

(* the closed-form algebra keeps the invariant *)
Lemma spec_ok_good (B : Z) (o : op) (d a b : ct) (m : meta) (sz : Z) :
  1 <= B -> wf_op B o -> good B d -> good B a -> good B b -> enc_ok B o d ->
  spec_step B o d a b = SOk m sz -> good B (Ct m sz).
Proof.
  intros HB Hwf Hd Ha Hb Henc.
  split_op o;
  destruct d as [[dl db] ds], a as [[al ab] asz], b as [[bl bb] bs]; hyps; revert Henc.
  all: go; unfold two64, f64_prec in *; intros Henc Hs; try discriminate Hs;
       injection Hs as <- <-; hyps.
  all: try (repeat split; lia).
  (* encryption: the noise limb exists, hence enc_k <= max_k *)
  - pose proof (cdiv_le_iff B k ds HB). repeat split; lia.
  (* the three operations that change the limb count to ceil(effective_k / base2k) *)
  - pose proof (cdiv_bounds B (dl + db) ds HB ltac:(lia) ltac:(lia)). repeat split; lia.
  - pose proof (cdiv_le_iff B (dl + db) s HB). repeat split; lia.
  - pose proof (cdiv_bounds B (al + ab) asz HB ltac:(lia) ltac:(lia)). repeat split; lia.
Qed.

Lemma meta_never_exceeds (chk : bool) (B : Z) (o : op) (d a b : ct) (m : meta) (sz : Z) (sh : list Z) :
  1 <= B -> wf_op B o -> good B d -> good B a -> good B b ->
  meta_step chk B o d a b = Done m sz sh ->
  good B (Ct m sz).
Proof.
  intros HB Hwf Hd Ha Hb Hdone.
  pose proof (step_cases chk B o d a b HB Hwf Hd Ha Hb) as H.
  unfold step_verdict in H. rewrite Hdone in H. destruct H as [H1 H2].
  exact (spec_ok_good B o d a b m sz HB Hwf Hd Ha Hb H2 H1).
Qed.

(* a failed call leaves metadata that the destination can hold *)
Lemma fail_keeps_good (chk : bool) (B : Z) (o : op) (d a b : ct) (e : ekind) (m : meta) :
  1 <= B -> wf_op B o -> good B d -> good B a -> good B b ->
  meta_step chk B o d a b = Fail e m ->
  good B (Ct m (csize d)).
Proof.
  intros HB Hwf Hd Ha Hb Hf.
  pose proof (step_cases chk B o d a b HB Hwf Hd Ha Hb) as H.
  unfold step_verdict in H. rewrite Hf in H. exact (proj2 H).
Qed.

(* ------------------------------------------------------------------ programs *)
Lemma good_default (B : Z) : 1 <= B -> good B (Ct (Meta 0 0) 0).
Proof. intros. unfold good, inv, eff, maxk, two62; cbn. lia. Qed.

Lemma rget_good (B : Z) (rs : regs) (i : nat) : 1 <= B -> Forall (good B) rs -> good B (rget rs i).
Proof.
  intros HB H. unfold rget. revert i. induction H as [ | x l Hx Hl IH ]; intros i.
  - destruct i; apply good_default; assumption.
  - destruct i; cbn; [ exact Hx | apply IH ].
Qed.

Lemma rset_good (B : Z) (rs : regs) (i : nat) (c : ct) :
  Forall (good B) rs -> good B c -> Forall (good B) (rset rs i c).
Proof.
  intros H Hc. revert i. induction H as [ | x l Hx Hl IH ]; intros i; cbn.
  - constructor.
  - destruct i; constructor; auto.
Qed.

Lemma exec_step_good (chk : bool) (B : Z) (rs : regs) (s : step) :
  1 <= B -> Forall (good B) rs -> wf_op B (sop s) ->
  Forall (good B) (snd (exec_step chk B rs s)).
Proof.
  intros HB Hrs Hwf. unfold exec_step. cbn [fst snd].
  pose proof (rget_good B rs (sd s) HB Hrs) as Gd.
  pose proof (rget_good B rs (sa s) HB Hrs) as Ga.
  pose proof (rget_good B rs (sb s) HB Hrs) as Gb.
  destruct (meta_step chk B (sop s) (rget rs (sd s)) (rget rs (sa s)) (rget rs (sb s))) as [m sz sh | e m | ] eqn:E;
    cbn [apply_outcome].
  - apply rset_good; [ exact Hrs | ]. exact (meta_never_exceeds chk B (sop s) _ _ _ m sz sh HB Hwf Gd Ga Gb E).
  - apply rset_good; [ exact Hrs | ]. exact (fail_keeps_good chk B (sop s) _ _ _ e m HB Hwf Gd Ga Gb E).
  - exact Hrs.
Qed.

(* after any straight-line program -- whether its calls succeed, fail (and the caller goes on) or panic -- every
   register satisfies the invariant *)
Lemma program_meta (chk : bool) (B : Z) (p : list step) : forall rs : regs,
  1 <= B -> Forall (good B) rs -> wf_prog B p ->
  Forall (good B) (snd (exec_prog chk B rs p)).
Proof.
  induction p as [ | s tl IH ]; intros rs HB Hrs Hwf.
  - exact Hrs.
  - inversion Hwf as [ | x l Hs Htl ]; subst.
    pose proof (exec_step_good chk B rs s HB Hrs Hs) as Hg.
    cbn [exec_prog]. destruct (exec_step chk B rs s) as [o rs'] eqn:E. cbn [snd] in Hg.
    destruct o; cbn [snd].
    + specialize (IH rs' HB Hg Htl). destruct (exec_prog chk B rs' tl) as [os rf]. exact IH.
    + specialize (IH rs' HB Hg Htl). destruct (exec_prog chk B rs' tl) as [os rf]. exact IH.
    + exact Hg.
Qed.

(* ------------------------------------------------------------------ where the faithful model violates the property *)
Definition c8 (l b : Z) : ct := Ct (Meta l b) 8.

(* ------------------------------------------------------------------ the hypotheses are satisfiable; regression witnesses *)
Lemma example_step :
  let B := 19 in let d := Ct (Meta 0 0) 6 in let a := c8 30 122 in
  1 <= B /\ wf_op B ONegInto /\ good B d /\ good B a /\ admissible B ONegInto d a /\
  meta_step true B ONegInto d a a = Done (Meta 30 84) 6 [38].
Proof.
  unfold good, inv, wf_op, admissible, eff, maxk, two62, c8; cbn.
  repeat split; try lia; try reflexivity; tauto.
Qed.

(* the repaired classes: rescale into a smaller destination, a constant with too many digits, a failed call *)
Lemma example_repaired :
  meta_step true 19 (ORescaleInto 3) (Ct (Meta 0 0) 6) (c8 30 122) (c8 30 122) = Done (Meta 30 84) 6 [38] /\
  meta_step true 19 (OCstRnxAssign (Meta 50 0) false) (Ct (Meta 30 8) 2) (c8 0 0) (c8 0 0) = Fail EAlign (Meta 30 8) /\
  meta_step true 19 ONegInto (Ct (Meta 0 0) 1) (c8 30 122) (c8 30 122) = Fail ECapacity (Meta 0 0) /\
  meta_step false 19 (ODivPow2Into (two64 - 1)) (Ct (Meta 0 0) 7) (c8 30 122) (c8 30 122) = Fail ECapacity (Meta 0 0) /\
  meta_step false 19 (OSetMeta (Meta (two64 - 1) 2)) (Ct (Meta 0 0) 7) (c8 0 0) (c8 0 0) = Fail EShrink (Meta 0 0) /\
  meta_step true 19 OSquareInto (Ct (Meta 0 0) 8) (c8 30 92) (c8 30 92) = Fail ENotCompact (Meta 0 0).
Proof. repeat split; reflexivity. Qed.

Lemma example_program :
  let B := 19 in
  let rs := [Ct (Meta 0 0) 8; Ct (Meta 0 0) 8; Ct (Meta 0 0) 7] in
  let p := [Step (OEncrypt (Meta 30 10) 152) 0 0 0; Step OSquareInto 1 0 0; Step OCompact 1 1 1;
            Step (ORescaleInto 10) 2 1 1; Step OLinAssign 2 1 1; Step ONegInto 2 0 0] in
  1 <= B /\ Forall (good B) rs /\ wf_prog B p /\
  snd (exec_prog true B rs p) = [c8 30 122; Ct (Meta 30 92) 7; Ct (Meta 30 103) 7].
Proof.
  cbv zeta. split; [ lia | ]. split.
  { repeat constructor; unfold inv, eff, maxk, two62; cbn; lia. }
  split; [ | reflexivity ].
  unfold wf_prog. repeat constructor; unfold wf_op, smallm, small, two62, two64; cbn; lia.
Qed.
