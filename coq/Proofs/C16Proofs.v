(* C16 — proofs about the CKKS metadata / error algebra of Model/C16Meta.v against Model/C16Spec.v *)
From Coq Require Import ZifyBool.
From PV Require Import Base.MachineInt Model.C16Meta Model.C16Spec.
Open Scope Z_scope.

(* ------------------------------------------------------------------ div_ceil *)
Lemma cdiv_le_iff (B k s : Z) : 1 <= B -> (cdiv k B <= s <-> k <= s * B).
Proof. intros HB. unfold cdiv. split; intros H; nia. Qed.

Lemma cdiv_ge1 (B k : Z) : 1 <= B -> 1 <= k -> 1 <= cdiv k B.
Proof. intros. unfold cdiv. nia. Qed.

Lemma cdiv_bounds (B k s : Z) : 1 <= B -> 0 <= k -> k <= s * B ->
  0 <= cdiv k B /\ k <= cdiv k B * B /\ cdiv k B * B <= s * B.
Proof.
  intros HB Hk Hs.
  assert (H1 : cdiv k B <= s) by (apply cdiv_le_iff; lia).
  assert (H2 : k <= cdiv k B * B) by (apply cdiv_le_iff; lia).
  assert (H3 : 0 <= cdiv k B) by (unfold cdiv; nia).
  repeat split; try lia. nia.
Qed.

Lemma min_k_ge1 (B l b : Z) : 1 <= B -> 1 <= l + b -> 1 <= min_k B (Meta l b).
Proof.
  intros HB H. unfold min_k, eff; cbn [ld lb].
  pose proof (cdiv_ge1 B (l + b) HB H). nia.
Qed.

(* ------------------------------------------------------------------ one call: code vs documented algebra *)
(* what the transcribed code does, classified against the closed-form algebra:
   Ok  -> the algebra says Ok with the same metadata and limb count,
   Err -> the algebra says the same error,
   panic -> the call is either not admissible or in a known panic class *)
(* a successful encryption has passed the noise-limb assertion *)
Definition enc_ok (B : Z) (o : op) (d : ct) : Prop :=
  match o with OEncrypt _ k => cdiv k B <= csize d | _ => True end.

Definition step_verdict (chk : bool) (B : Z) (o : op) (d a b : ct) : Prop :=
  match meta_step chk B o d a b with
  | Done m sz _ => spec_step B o d a b = SOk m sz /\ enc_ok B o d
  | Fail e _ => spec_step B o d a b = SErr e
  | Panic => admissible B o d a -> known_panic B o d a b
  end.

Ltac rdx :=
  cbv beta iota zeta delta [step_verdict enc_ok meta_step meta_m spec_step new_size
    encrypt lin_into lin_assign ptznx_into ptznx_assign ptrnx_into ptrnx_assign cstznx_into cstznx_assign
    cstrnx_into cstrnx_assign neg_into mul_into mul_assign square_into square_assign mulptz_into mulptz_assign
    mulcst_into mulcst_assign mulcstrnx_prec mulacc on_tmp mulpow2_into divpow2_into divpow2_assign
    rotate_into rotate_assign rescale_into rescale_assign extract_pt unary_into to_znx_check
    apply_params apply_params_asserting mul_ct_params mul_pt_params ensure_plaintext_alignment
    cst_at_k cst_meta_of_prec cst_to_znx ptz_alloc compact
    s_unary s_align s_f64 s_mul_ct s_mul_pt s_acc
    offset_unary offset_binary offu offb ssub eff maxk
    bind ret fail panic get set_meta set_lb set_ld shift csub usub uadd passert when
    admissible known_panic k1_rescale_into_small_dst k2_const_digits_beyond_dst k3_product_of_noncompact
    k6_product_base2k_mismatch compact_ct
    fst snd cm csize ld lb pm pmaxk pb2k km klen knone];
  cbv beta iota zeta.

Ltac go :=
  rdx;
  repeat (match goal with
          | |- context [if ?c then _ else _] => let E := fresh "E" in destruct c eqn:E
          end; rdx).

Ltac hyps :=
  unfold good, inv, wf_op in *; unfold wf_ptz in *; unfold smallm, small in *;
  unfold eff, maxk, two62, two63, two64, f64_prec in *; cbn [cm csize ld lb pm pmaxk pb2k km klen knone] in *.

Ltac cdivs :=
  repeat match goal with
  | HB : 1 <= ?B |- context [cdiv ?k ?B] =>
      lazymatch goal with
      | _ : 1 <= k -> 1 <= cdiv k B |- _ => fail
      | _ => pose proof (cdiv_ge1 B k HB)
      end
  end.

Ltac fin :=
  try match goal with
  | |- _ = _ /\ _ => split; [ | first [exact I | lia] ]
  end;
  try match goal with
  | |- SOk _ _ = SOk _ _ => f_equal; try f_equal; lia
  | |- SErr _ = SErr _ => first [reflexivity | exfalso; lia]
  | |- SOk _ _ = SErr _ => exfalso; lia
  | |- SErr _ = SOk _ _ => exfalso; lia
  | |- _ -> _ => intros; first [exfalso; lia | lia | tauto]
  end.

Ltac split_op o :=
  destruct o as [ s | pt k | | | p | p | prec | prec | l k none | l k none | prec none | prec none | |
                  | | | | | p | p | prec | prec | prec none | prec none | prec none | prec none
                  | | p | prec | prec none | prec none | bits | bits | bits | bits | key | key | | | k | k
                  | | s | | m' | pt ];
  try (destruct p as [[pl pb] pk pbk]); try (destruct prec as [pl pb]); try (destruct pt as [pl pb]);
  try (destruct m' as [pl pb]); try (destruct none); try (destruct key).

Lemma step_cases (chk : bool) (B : Z) (o : op) (d a b : ct) :
  1 <= B -> wf_op B o -> good B d -> good B a -> good B b -> step_verdict chk B o d a b.
Proof.
  intros HB Hwf Hd Ha Hb.
  split_op o;
  destruct d as [[dl db] ds], a as [[al ab] asz], b as [[bl bb] bs]; hyps.
  all: go; unfold two64, f64_prec in *; fin.
  all: cdivs; fin.
  (* compact_limbs_copy: the slice exists because the source satisfies the invariant *)
  all: try (pose proof (cdiv_le_iff B (al + ab) asz HB); intros; exfalso; lia).
  (* constants: to_znx has one limb to write into as soon as the precision is not (0, 0) *)
  all: pose proof (min_k_ge1 B pl pb HB); intros; exfalso; lia.
Qed.

(* ------------------------------------------------------------------ consequences for one call *)
Lemma no_panic (chk : bool) (B : Z) (o : op) (d a b : ct) :
  1 <= B -> wf_op B o -> good B d -> good B a -> good B b ->
  admissible B o d a -> ~ known_panic B o d a b ->
  meta_step chk B o d a b <> Panic.
Proof.
  intros HB Hwf Hd Ha Hb Hadm Hk Hp.
  pose proof (step_cases chk B o d a b HB Hwf Hd Ha Hb) as H.
  unfold step_verdict in H. rewrite Hp in H. exact (Hk (H Hadm)).
Qed.

Lemma error_iff (chk : bool) (B : Z) (o : op) (d a b : ct) :
  1 <= B -> wf_op B o -> good B d -> good B a -> good B b ->
  admissible B o d a -> ~ known_panic B o d a b ->
  outcome_matches (meta_step chk B o d a b) (spec_step B o d a b).
Proof.
  intros HB Hwf Hd Ha Hb Hadm Hk.
  pose proof (step_cases chk B o d a b HB Hwf Hd Ha Hb) as H.
  pose proof (no_panic chk B o d a b HB Hwf Hd Ha Hb Hadm Hk) as Hn.
  unfold step_verdict in H. unfold outcome_matches.
  destruct (meta_step chk B o d a b) as [m sz sh | e m | ]; [ | | congruence ].
  - destruct H as [H _]. rewrite H. split; reflexivity.
  - rewrite H. reflexivity.
Qed.

(* the closed-form algebra keeps the invariant (outside K1) *)
Lemma spec_ok_good (B : Z) (o : op) (d a b : ct) (m : meta) (sz : Z) :
  1 <= B -> wf_op B o -> good B d -> good B a -> good B b ->
  ~ k1_rescale_into_small_dst B o d a -> enc_ok B o d ->
  spec_step B o d a b = SOk m sz -> good B (Ct m sz).
Proof.
  intros HB Hwf Hd Ha Hb Hk1 Henc.
  split_op o;
  destruct d as [[dl db] ds], a as [[al ab] asz], b as [[bl bb] bs]; hyps; revert Hk1 Henc.
  all: go; unfold two64, f64_prec in *; intros Hk1 Henc Hs; try discriminate Hs;
       injection Hs as <- <-; hyps.
  all: try (repeat split; lia).
  (* encryption: the noise limb exists, hence enc_k <= max_k *)
  - pose proof (cdiv_le_iff B k ds HB). repeat split; lia.
  (* the three operations that change the limb count to ceil(effective_k / base2k) *)
  - pose proof (cdiv_bounds B (dl + db) ds HB ltac:(lia) ltac:(lia)). repeat split; lia.
  - pose proof (cdiv_le_iff B (dl + db) s HB). repeat split; lia.
  - pose proof (cdiv_bounds B (al + ab) asz HB ltac:(lia) ltac:(lia)). repeat split; lia.
Qed.

Lemma meta_never_exceeds (chk : bool) (B : Z) (o : op) (d a b : ct) (m : meta) (sz : Z) (sh : list Z) :
  1 <= B -> wf_op B o -> good B d -> good B a -> good B b ->
  ~ k1_rescale_into_small_dst B o d a ->
  meta_step chk B o d a b = Done m sz sh ->
  good B (Ct m sz).
Proof.
  intros HB Hwf Hd Ha Hb Hk1 Hdone.
  pose proof (step_cases chk B o d a b HB Hwf Hd Ha Hb) as H.
  unfold step_verdict in H. rewrite Hdone in H. destruct H as [H1 H2].
  exact (spec_ok_good B o d a b m sz HB Hwf Hd Ha Hb Hk1 H2 H1).
Qed.

(* ------------------------------------------------------------------ programs *)
Lemma good_default (B : Z) : 1 <= B -> good B (Ct (Meta 0 0) 0).
Proof. intros. unfold good, inv, eff, maxk, two62; cbn. lia. Qed.

Lemma rget_good (B : Z) (rs : regs) (i : nat) : 1 <= B -> Forall (good B) rs -> good B (rget rs i).
Proof.
  intros HB H. unfold rget. revert i. induction H as [ | x l Hx Hl IH ]; intros i.
  - destruct i; apply good_default; assumption.
  - destruct i; cbn; [ exact Hx | apply IH ].
Qed.

Lemma rset_good (B : Z) (rs : regs) (i : nat) (c : ct) :
  Forall (good B) rs -> good B c -> Forall (good B) (rset rs i c).
Proof.
  intros H Hc. revert i. induction H as [ | x l Hx Hl IH ]; intros i; cbn.
  - constructor.
  - destruct i; constructor; auto.
Qed.

Lemma exec_step_good (chk : bool) (B : Z) (rs : regs) (s : step) :
  1 <= B -> Forall (good B) rs -> wf_op B (sop s) ->
  ~ k1_rescale_into_small_dst B (sop s) (rget rs (sd s)) (rget rs (sa s)) ->
  is_done (fst (exec_step chk B rs s)) ->
  Forall (good B) (snd (exec_step chk B rs s)).
Proof.
  intros HB Hrs Hwf Hk1 Hdone. unfold exec_step in *. cbn [fst snd] in *.
  destruct (meta_step chk B (sop s) (rget rs (sd s)) (rget rs (sa s)) (rget rs (sb s))) as [m sz sh | e m | ] eqn:E;
    cbn in Hdone; try contradiction.
  cbn [apply_outcome]. apply rset_good; [ exact Hrs | ].
  exact (meta_never_exceeds chk B (sop s) _ _ _ m sz sh HB Hwf (rget_good B rs _ HB Hrs) (rget_good B rs _ HB Hrs)
           (rget_good B rs _ HB Hrs) Hk1 E).
Qed.

Lemma exec_prog_snd (chk : bool) (B : Z) (rs : regs) (s : step) (tl : list step) :
  is_done (fst (exec_step chk B rs s)) ->
  snd (exec_prog chk B rs (s :: tl)) = snd (exec_prog chk B (snd (exec_step chk B rs s)) tl).
Proof.
  intros H. cbn [exec_prog]. destruct (exec_step chk B rs s) as [o rs'] eqn:E. cbn [fst snd] in *.
  destruct o; cbn in H; try contradiction.
  destruct (exec_prog chk B rs' tl) as [os rf]. reflexivity.
Qed.

Lemma program_meta (chk : bool) (B : Z) (p : list step) : forall rs : regs,
  1 <= B -> Forall (good B) rs -> clean_run chk B rs p ->
  Forall (good B) (snd (exec_prog chk B rs p)).
Proof.
  induction p as [ | s tl IH ]; intros rs HB Hrs Hc.
  - exact Hrs.
  - cbn [clean_run] in Hc. destruct Hc as (Hwf & Hk1 & Hdone & Htl).
    rewrite exec_prog_snd by exact Hdone.
    apply IH; [ exact HB | | exact Htl ].
    apply exec_step_good; assumption.
Qed.

(* every outcome of a clean run is Ok *)
Lemma program_all_done (chk : bool) (B : Z) (p : list step) : forall rs : regs,
  clean_run chk B rs p -> Forall is_done (fst (exec_prog chk B rs p)).
Proof.
  induction p as [ | s tl IH ]; intros rs Hc; cbn [exec_prog].
  - constructor.
  - cbn [clean_run] in Hc. destruct Hc as (_ & _ & Hdone & Htl).
    destruct (exec_step chk B rs s) as [o rs'] eqn:E. cbn [fst snd] in *.
    specialize (IH rs' Htl).
    destruct o; cbn in Hdone; try contradiction.
    destruct (exec_prog chk B rs' tl) as [os rf]. cbn [fst] in *. constructor; [ exact I | exact IH ].
Qed.

(* ------------------------------------------------------------------ where the faithful model violates the property *)
Definition c8 (l b : Z) : ct := Ct (Meta l b) 8.

(* K1: rescale into a smaller destination: Ok with log_delta + log_budget > max_k *)
Lemma rescale_into_exceeds_refuted :
  exists (B : Z) (d a : ct) (k : Z) (m : meta) (sz : Z) (sh : list Z),
    1 <= B /\ wf_op B (ORescaleInto k) /\ good B d /\ good B a /\
    meta_step true B (ORescaleInto k) d a a = Done m sz sh /\ maxk B (Ct m sz) < eff m.
Proof.
  exists 19, (Ct (Meta 0 0) 6), (c8 30 122), 3, (Meta 30 119), 6, [3].
  unfold good, inv, wf_op, small, eff, maxk, two62, two63, c8; cbn. repeat split; try lia; reflexivity.
Qed.

(* K2: adding a constant that is more precise than what the destination stores panics *)
Lemma const_add_panics_refuted :
  exists (B : Z) (d : ct) (prec : meta),
    1 <= B /\ wf_op B (OCstRnxAssign prec false) /\ good B d /\ admissible B (OCstRnxAssign prec false) d d /\
    meta_step true B (OCstRnxAssign prec false) d d d = Panic /\
    meta_step false B (OCstRnxAssign prec false) d d d = Panic.
Proof.
  exists 19, (Ct (Meta 30 8) 2), (Meta 50 0).
  unfold good, inv, wf_op, smallm, admissible, eff, maxk, two62; cbn. repeat split; try lia; try reflexivity; try (right; lia).
Qed.

(* K3: a product of a ciphertext that is not stored compactly panics (after a rescale, or the result of a product) *)
Lemma product_noncompact_panics_refuted :
  exists (B : Z) (d a : ct),
    1 <= B /\ good B d /\ good B a /\ admissible B OSquareInto d a /\
    meta_step true B OSquareInto d a a = Panic /\ meta_step false B OSquareInto d a a = Panic.
Proof.
  exists 19, (Ct (Meta 0 0) 8), (c8 30 92).
  unfold good, inv, admissible, eff, maxk, two62, c8; cbn. repeat split; try lia; reflexivity.
Qed.

(* K6: a product with a vector plaintext of another base2k panics instead of returning PlaintextBase2KMismatch *)
Lemma product_base2k_panics_refuted :
  exists (B : Z) (d a : ct) (p : ptz),
    1 <= B /\ wf_op B (OMulPtZnxInto p) /\ good B d /\ good B a /\ compact_ct B a /\
    meta_step true B (OMulPtZnxInto p) d a a = Panic.
Proof.
  exists 19, (Ct (Meta 0 0) 8), (c8 30 122), (Ptz (Meta 20 0) 20 20).
  unfold good, inv, wf_op, wf_ptz, smallm, compact_ct, eff, maxk, two62, c8; cbn. repeat split; try lia; reflexivity.
Qed.

(* K4: a failed call leaves metadata that the destination cannot hold; the next call on it succeeds *)
Lemma program_meta_refuted :
  exists (B : Z) (rs : regs) (p : list step),
    1 <= B /\ Forall (good B) rs /\ Forall (fun s => wf_op B (sop s)) p /\
    (exists e m m' sz sh, fst (exec_prog true B rs p) = [Fail e m; Done m' sz sh]) /\
    ~ Forall (inv B) (snd (exec_prog true B rs p)).
Proof.
  exists 19, [c8 30 122; Ct (Meta 0 0) 1], [Step ONegInto 1 0 0; Step ONegAssign 1 1 1].
  split; [ lia | ]. split.
  { repeat constructor; unfold inv, eff, maxk, two62, c8; cbn; lia. }
  split. { repeat constructor. }
  split. { vm_compute. do 5 eexists. reflexivity. }
  assert (E : snd (exec_prog true 19 [c8 30 122; Ct (Meta 0 0) 1] [Step ONegInto 1 0 0; Step ONegAssign 1 1 1])
               = [c8 30 122; Ct (Meta 30 122) 1]) by (vm_compute; reflexivity).
  rewrite E. intros H. inversion H as [ | x l H1 H2 ]; subst. inversion H2 as [ | y l' H3 H4 ]; subst.
  unfold inv, eff, maxk in H3; cbn in H3. lia.
Qed.

(* K5: scalars above 2^63: panic with overflow checks, wrapped metadata without *)
Lemma huge_scalar_refuted :
  exists (B : Z) (d a : ct) (bits : Z) (m : meta) (sz : Z) (sh : list Z),
    1 <= B /\ good B d /\ good B a /\ 0 <= bits < two64 /\
    meta_step true B (ODivPow2Into bits) d a a = Panic /\
    meta_step false B (ODivPow2Into bits) d a a = Done m sz sh /\ ld m < ld (cm a).
Proof.
  exists 19, (Ct (Meta 0 0) 7), (c8 30 122), (two64 - 1), (Meta 29 104), 7, [19].
  unfold good, inv, eff, maxk, two62, two64, c8; cbn. repeat split; try lia; reflexivity.
Qed.

(* ------------------------------------------------------------------ the hypotheses are satisfiable *)
Lemma example_step :
  let B := 19 in let d := Ct (Meta 0 0) 6 in let a := c8 30 122 in
  1 <= B /\ wf_op B ONegInto /\ good B d /\ good B a /\ admissible B ONegInto d a /\ ~ known_panic B ONegInto d a a /\
  ~ k1_rescale_into_small_dst B ONegInto d a /\
  meta_step true B ONegInto d a a = Done (Meta 30 84) 6 [38].
Proof.
  unfold good, inv, wf_op, admissible, known_panic, k1_rescale_into_small_dst, k2_const_digits_beyond_dst,
    k3_product_of_noncompact, k6_product_base2k_mismatch, eff, maxk, two62, c8; cbn.
  repeat split; try lia; try reflexivity; tauto.
Qed.

Lemma example_program :
  let B := 19 in
  let rs := [Ct (Meta 0 0) 8; Ct (Meta 0 0) 8; Ct (Meta 0 0) 7] in
  let p := [Step (OEncrypt (Meta 30 10) 152) 0 0 0; Step OSquareInto 1 0 0; Step OCompact 1 1 1;
            Step (ORescaleInto 10) 2 1 1; Step OLinAssign 2 1 1] in
  1 <= B /\ Forall (good B) rs /\ clean_run true B rs p /\
  snd (exec_prog true B rs p) = [c8 30 122; Ct (Meta 30 92) 7; Ct (Meta 30 82) 7].
Proof.
  cbv zeta. split; [ lia | ]. split.
  { repeat constructor; unfold inv, eff, maxk, two62; cbn; lia. }
  split; [ | reflexivity ].
  cbn [clean_run]. unfold wf_op, smallm, small, two62, two63, k1_rescale_into_small_dst; cbn [sop sd sa sb].
  vm_compute. repeat split; try lia; try (intros H; lia); try discriminate; auto.
Qed.
