(* C08, cross-radix normalisation with a negative offset, any word width wd: the last run of the inner repacking
   loop (a-limb 0).  The top of the stream lies E > 0 bits below the top of res: the a-carry partially fills the
   current res limb, the limb is normalised, and what remains is handed over as the res-carry. *)
From PV Require Import Base.MachineInt Model.Znx Model.Limbs
  Proofs.ZnxDigit Proofs.C08Steps Proofs.C08Chain Proofs.C08Loops Proofs.C08CrossInner Proofs.C08CrossGeom
  Proofs.C08WChain Proofs.C08WLoops Proofs.C08WCrossInner.
Open Scope Z_scope.

Lemma pt_bound2 (e k low p : Z) : 0 <= e -> 0 <= k -> Z.abs low <= 2 ^ e - 1 -> Z.abs p <= 2 ^ k - 1 ->
  Z.abs (low + 2 ^ e * p) <= 2 ^ e * 2 ^ k - 1.
Proof.
  intros He Hk Hl Hp. pose proof (pow2_pos e He). pose proof (pow2_pos k Hk).
  assert (Z.abs (2 ^ e * p) = 2 ^ e * Z.abs p) by (rewrite Z.abs_mul, (Z.abs_eq (2 ^ e)) by lia; reflexivity).
  nia.
Qed.

(* value bookkeeping of the hand-over (pure ring identity) *)
Lemma handover_identity (V V1 V2 V' pF pA pF1 pr pRre pb W d n1 anorm acarry ac d2 ac2 limb2 x' rc : Z) :
  V1 = V + pF * d -> anorm = d + pA * n1 -> ac = acarry + n1 -> ac = d2 + pr * ac2 ->
  V2 = V1 + d2 * pF1 -> limb2 = x' + pb * rc -> V' = V2 + (x' - limb2) * W ->
  pF1 = pF * pA -> pRre = pF1 * pr -> pRre = pb * W ->
  V' + pRre * (rc + ac2) = V + pF * anorm + pF1 * acarry.
Proof.
  intros -> -> E1 E2 -> -> -> -> -> E3.
  assert (acarry = d2 + pr * ac2 - n1) by lia. subst acarry.
  replace ((x' - (x' + pb * rc)) * W) with (- (pb * W) * rc) by ring. rewrite <- E3. ring.
Qed.

Section InnerLast.
Variable wd : Z.
Variables rb ab : Z.
Hypothesis Hrb : 1 <= rb <= wd - 2.
Hypothesis Hab : 1 <= ab <= wd - 2.
Variable rsz : nat.
Variable E : Z.
Hypothesis HE : 0 < E.

Local Notation Vres := (C08CrossInner.Vres rb rsz).
Local Notation Fpos := (C08CrossInner.Fpos rb rsz).
Local Notation shape := (C08CrossInner.shape rb rsz).
Let Hwd : 3 <= wd. Proof. lia. Qed.
Let M := 2 ^ (wd - 2).

Definition pre0 (s : cstate) : Prop :=
  shape s /\ 0 < c_racc s <= rb /\ 0 < c_atake s <= ab /\ Z.abs (c_anorm s) <= 2 ^ c_atake s /\
  Z.abs (c_acarry s) <= 2 ^ (wd - 2) /\ c_rcarry s = 0 /\
  Fpos s + c_atake s = zn rsz * rb - E /\
  exists X low, Z.abs X <= 2 ^ (wd - 2) * 2 ^ (ab - 1) + 2 ^ (wd - 2) /\
    X = low + 2 ^ (ab - c_atake s) * c_anorm s + 2 ^ ab * c_acarry s /\
    Z.abs low <= 2 ^ (ab - c_atake s) - 1.

Definition post0 (s s' : cstate) (o : couts) : Prop :=
  o = OuterBreak /\ length (c_res s') = rsz /\ (c_rlimb s' < rsz)%nat /\
  zn (c_rlimb s') * rb <= E < (zn (c_rlimb s') + 1) * rb /\
  (forall i, (i < c_rlimb s')%nat -> nthZ (c_res s') i = 0) /\
  Vres (c_res s') + 2 ^ ((zn rsz - zn (c_rlimb s')) * rb) * c_rcarry s'
    = Vres (c_res s) + 2 ^ Fpos s * c_anorm s + 2 ^ (Fpos s + c_atake s) * c_acarry s /\
  Z.abs (c_rcarry s') <= 2 ^ (wd - 2) + 1.

(* interval form of a magnitude bound: friendlier to lia than Z.abs (no case split) *)
Local Notation ivl H := (proj1 (Z.abs_le _ _) H).
Local Notation absl H := (proj2 (Z.abs_le _ _) H).

Theorem cross_inner_last : forall (fuel : nat) (s : cstate),
  pre0 s -> c_atake s <= Z.of_nat fuel ->
  post0 s (fst (cross_inner wd fuel rb ab 0 s)) (snd (cross_inner wd fuel rb ab 0 s)).
Proof.
  induction fuel as [|f IH]; intros s Hpre Hf.
  { destruct Hpre as (_ & _ & Ha & _). lia. }
  destruct Hpre as (Hsh & Hr & Ha & Hn & Hc & Hrc & Hpos & X & low & HX & EX & Hlow).
  destruct Hsh as (Sl & Sr & Sz & Sb).
  apply Z.abs_le in Hn, Hc, HX, Hlow, Sb.
  cbn [cross_inner].
  set (w := Z.min (Z.min ab (c_atake s)) (c_racc s)).
  assert (Hw : 1 <= w /\ w <= c_atake s /\ w <= c_racc s /\ (w = c_atake s \/ w = c_racc s))
    by (unfold w; clear - Ha Hr Hab; lia).
  destruct (Z.eqb_spec w 0) as [E0|_]; [lia|].
  clearbody w.
  set (scale := rb - c_racc s).
  set (r := nthZ (c_res s) (c_rlimb s)) in *.
  assert (HM2 : 2 <= 2 ^ (wd - 2)).
  { assert (2 ^ 1 <= 2 ^ (wd - 2)) by (apply pow2_le_mono; lia). exact H. }
  assert (Hn62 : Z.abs (c_anorm s) <= 2 ^ (wd - 2)).
  { assert (2 ^ c_atake s <= 2 ^ (wd - 2)) by (apply pow2_le_mono; lia). apply Z.abs_le. lia. }
  destruct (extractW wd w scale r (c_anorm s) Hwd ltac:(lia) ltac:(unfold scale; lia) ltac:(unfold scale; lia)
              Hn62 (absl Sb)) as [Ex Hrb'].
  rewrite Ex. clear Ex Hn62.
  set (d := wrap w (c_anorm s)) in *. set (n1 := bdiv w (c_anorm s)).
  pose proof (wrap_bdiv w (c_anorm s) ltac:(lia)) as Hdec. fold d n1 in Hdec.
  pose proof (wrap_range w (c_anorm s) ltac:(lia)) as Hdr. fold d in Hdr.
  assert (Hn1 : Z.abs n1 <= 2 ^ (c_atake s - w)) by (apply rest_bound; [lia|exact (absl Hn)]).
  clearbody d n1.
  cbn [c_res c_anorm c_acarry c_rcarry c_atake c_racc c_rlimb].
  set (atake1 := c_atake s - w). set (racc1 := c_racc s - w).
  set (res1 := upd (c_res s) (c_rlimb s) (r + d * 2 ^ scale)).
  assert (Hz : 0 <= atake1 /\ 0 <= racc1 /\ (atake1 = 0 \/ racc1 = 0) /\ atake1 < c_atake s)
    by (unfold atake1, racc1; clear - Hw; lia).
  assert (L1 : length res1 = rsz) by (unfold res1; rewrite upd_length; exact Sl).
  assert (V1 : Vres res1 = Vres (c_res s) + 2 ^ Fpos s * d).
  { unfold res1. rewrite Vres_upd by auto. fold r.
    rewrite <- (weight_atW wd rb Hrb rsz s Sr ltac:(lia)). fold scale. ring. }
  assert (N1r : nthZ res1 (c_rlimb s) = r + d * 2 ^ scale).
  { unfold res1. rewrite nth_upd, Sl. rewrite Nat.eqb_refl.
    destruct (Nat.ltb_spec (c_rlimb s) rsz) as [_|Hge]; [reflexivity|clear - Hge Sr; lia]. }
  assert (N1z : forall i, (i < c_rlimb s)%nat -> nthZ res1 i = 0).
  { intros i Hi. unfold res1. rewrite nth_upd. destruct (Nat.eqb_spec i (c_rlimb s)) as [Ei|_]; [clear - Ei Hi; lia|].
    cbn [andb]. apply Sz; exact Hi. }
  assert (Esw : scale + w = rb - racc1) by (unfold scale, racc1; ring).
  rewrite Bool.orb_true_r. cbn [Nat.eqb andb].
  pose proof (Fpos_nonnegW wd rb Hrb rsz s Sr ltac:(lia)) as HF0.
  destruct (Z.eqb_spec atake1 0) as [Et0|Et0].
  - (* exit: the digit is consumed *)
    assert (Ew : w = c_atake s) by (unfold atake1 in Et0; clear - Et0; lia).
    assert (D1 : c_anorm s = d + 2 ^ c_atake s * n1) by (rewrite <- Ew; symmetry; exact Hdec).
    assert (D2 : Z.abs d <= 2 ^ c_atake s - 1) by (rewrite <- Ew; apply bal_abs; [lia|exact Hdr]).
    assert (D3 : - 1 <= n1 <= 1).
    { replace (c_atake s - w) with 0 in Hn1 by (clear - Ew; lia). apply Z.abs_le in Hn1. exact Hn1. }
    clear Hn1.
    assert (Ewadd : wadd wd (c_acarry s) n1 = c_acarry s + n1).
    { unfold wadd. apply wrap_id; [lia|]. unfold in_range. rewrite (pow_wd1 wd Hwd). clear - Hc D3 HM2. lia. }
    rewrite Ewadd. set (ac := c_acarry s + n1).
    set (e := ab - c_atake s) in *.
    assert (He : 0 <= e) by (unfold e; lia).
    assert (Eab : 2 ^ ab = 2 ^ e * 2 ^ c_atake s) by (rewrite <- pow2_add by lia; f_equal; unfold e; ring).
    assert (Hac : Z.abs ac <= 2 ^ (wd - 2)).
    { apply (carry_after_pieces ab (2 ^ (wd - 2)) X (low + 2 ^ e * d) ac); [lia|lia|exact (absl HX)| |].
      - rewrite EX, D1, Eab. unfold ac. ring.
      - rewrite Eab. apply pt_bound2; [exact He|lia|exact (absl Hlow)|exact D2]. }
    clear HX EX Hlow D2 X low.
    (* position: the current limb is the one that contains the top of the stream *)
    assert (EF1 : Fpos s + c_atake s = (zn rsz - zn (c_rlimb s)) * rb - racc1).
    { unfold C08CrossInner.Fpos, racc1. rewrite Ew. ring. }
    assert (Hrl : zn (c_rlimb s) * rb <= E < (zn (c_rlimb s) + 1) * rb).
    { clear - EF1 Hpos Hz Hw Hr. unfold racc1 in *. lia. }
    assert (HR0 : 0 <= (zn rsz - zn (c_rlimb s)) * rb) by (apply Z.mul_nonneg_nonneg; unfold zn; lia).
    assert (HW0 : 0 <= (zn rsz - 1 - zn (c_rlimb s)) * rb) by (apply Z.mul_nonneg_nonneg; unfold zn; lia).
    assert (HFa : 0 <= Fpos s + c_atake s) by (clear - HF0 Ha; lia).
    assert (Hr10 : 0 <= racc1 <= rb) by (clear - Hz Hw Hr; unfold racc1 in *; lia).
    set (Wt := 2 ^ ((zn rsz - 1 - zn (c_rlimb s)) * rb)).
    assert (ERW : 2 ^ ((zn rsz - zn (c_rlimb s)) * rb) = 2 ^ rb * Wt).
    { unfold Wt. rewrite <- pow2_add by (clear - Hrb HW0; lia). f_equal. ring. }
    assert (EF1p : 2 ^ (Fpos s + c_atake s) = 2 ^ Fpos s * 2 ^ c_atake s) by (apply pow2_add; [exact HF0|clear - Ha; lia]).
    assert (ERr : 2 ^ ((zn rsz - zn (c_rlimb s)) * rb) = 2 ^ (Fpos s + c_atake s) * 2 ^ racc1).
    { rewrite <- pow2_add by (clear - HFa Hr10; lia). f_equal. rewrite EF1. ring. }
    set (x0 := nthZ res1 (c_rlimb s)) in *.
    assert (Hx0 : Z.abs x0 <= 2 ^ (rb - racc1) - 1) by (rewrite N1r, <- Esw; exact Hrb').
    clear Hrb'.
    (* the common tail: normalise the limb `limb2` and hand over rc + ac2 *)
    assert (Htail : forall res2 limb2 d2 ac2, length res2 = rsz -> nthZ res2 (c_rlimb s) = limb2 ->
      (forall i, (i < c_rlimb s)%nat -> nthZ res2 i = 0) ->
      Vres res2 = Vres res1 + d2 * 2 ^ (Fpos s + c_atake s) -> ac = d2 + 2 ^ racc1 * ac2 ->
      Z.abs limb2 <= 2 ^ rb - 1 -> Z.abs ac2 <= 2 ^ (wd - 2) ->
      post0 s
        (fst (let '(x, rc) := middle_step_assign wd rb 0 (nthZ res2 (c_rlimb s)) (c_rcarry s) in
              ({| c_res := upd res2 (c_rlimb s) x; c_anorm := n1; c_acarry := ac2; c_rcarry := wadd wd rc ac2;
                  c_atake := atake1; c_racc := racc1; c_rlimb := c_rlimb s |}, OuterBreak)))
        (snd (let '(x, rc) := middle_step_assign wd rb 0 (nthZ res2 (c_rlimb s)) (c_rcarry s) in
              ({| c_res := upd res2 (c_rlimb s) x; c_anorm := n1; c_acarry := ac2; c_rcarry := wadd wd rc ac2;
                  c_atake := atake1; c_racc := racc1; c_rlimb := c_rlimb s |}, OuterBreak)))).
    { intros res2 limb2 d2 ac2 L2 N2 Z2 V2 Eac Hl2 Hac2. rewrite N2, Hrc.
      assert (Hl2M : Z.abs limb2 <= 2 ^ (wd - 2)).
      { assert (2 ^ rb <= 2 ^ (wd - 2)) by (apply pow2_le_mono; lia). clear - H Hl2. lia. }
      unfold middle_step_assign.
      rewrite (mcW wd rb Hrb 0 limb2 0 ltac:(lia) Hl2M ltac:(clear - HM2; cbn [Z.abs]; lia)).
      change (2 ^ 0) with 1. rewrite Z.mul_1_r, Z.add_0_r. cbn [fst snd].
      pose proof (wrap_bdiv rb limb2 ltac:(lia)) as Hdl.
      assert (Hrc1 : Z.abs (bdiv rb limb2) <= 1).
      { replace 1 with (2 ^ (rb - rb)) by (rewrite Z.sub_diag; reflexivity). apply rest_bound; [lia|]. clear - Hl2. lia. }
      apply Z.abs_le in Hrc1, Hac2.
      assert (Ewr : wadd wd (bdiv rb limb2) ac2 = bdiv rb limb2 + ac2).
      { unfold wadd. apply wrap_id; [lia|]. unfold in_range. rewrite (pow_wd1 wd Hwd). clear - Hrc1 Hac2 HM2. lia. }
      rewrite Ewr. unfold post0. cbn [c_res c_rcarry c_rlimb].
      split; [reflexivity|]. split; [rewrite upd_length; exact L2|]. split; [exact Sr|]. split; [exact Hrl|].
      split.
      { intros i Hi. rewrite nth_upd. destruct (Nat.eqb_spec i (c_rlimb s)) as [Ei|_]; [clear - Ei Hi; lia|].
        cbn [andb]. apply Z2; exact Hi. }
      split; [|apply Z.abs_le; clear - Hrc1 Hac2; lia].
      rewrite Vres_upd by (auto; lia). rewrite N2. fold Wt.
      apply (handover_identity (Vres (c_res s)) (Vres res1) (Vres res2) _ (2 ^ Fpos s) (2 ^ c_atake s)
               (2 ^ (Fpos s + c_atake s)) (2 ^ racc1) _ (2 ^ rb) Wt d n1 (c_anorm s) (c_acarry s) ac d2 ac2 limb2
               (wrap rb limb2) (bdiv rb limb2)); try assumption; try reflexivity.
      symmetry. exact Hdl. }
    destruct (Z.eqb_spec racc1 0) as [Er0|Er0].
    + (* the limb is already full *)
      apply (Htail res1 x0 0 ac L1 eq_refl N1z).
      * ring.
      * rewrite Er0. change (2 ^ 0) with 1. ring.
      * rewrite Er0, Z.sub_0_r in Hx0. exact Hx0.
      * exact Hac.
    + (* partial fill from the a-carry *)
      assert (Hr1 : 1 <= racc1) by (clear - Er0 Hr10; lia).
      destruct (extractW wd racc1 (rb - racc1) x0 ac Hwd Hr1 ltac:(clear - Hr10; lia) ltac:(clear - Hrb; lia) Hac Hx0)
        as [Ex2 Hb2].
      rewrite Ex2.
      pose proof (wrap_bdiv racc1 ac Hr1) as Hd2.
      apply (Htail (upd res1 (c_rlimb s) (x0 + wrap racc1 ac * 2 ^ (rb - racc1)))
                   (x0 + wrap racc1 ac * 2 ^ (rb - racc1)) (wrap racc1 ac) (bdiv racc1 ac)).
      * rewrite upd_length; exact L1.
      * rewrite nth_upd, L1. rewrite Nat.eqb_refl.
        destruct (Nat.ltb_spec (c_rlimb s) rsz) as [_|Hge]; [reflexivity|clear - Hge Sr; lia].
      * intros i Hi. rewrite nth_upd. destruct (Nat.eqb_spec i (c_rlimb s)) as [Ei|_]; [clear - Ei Hi; lia|].
        cbn [andb]. apply N1z; exact Hi.
      * rewrite Vres_upd by (auto; lia). fold x0. fold Wt.
        assert (EWs : 2 ^ (rb - racc1) * Wt = 2 ^ (Fpos s + c_atake s)).
        { unfold Wt. rewrite <- pow2_add by (clear - Hr10 HW0; lia). f_equal. rewrite EF1. ring. }
        rewrite <- EWs. ring.
      * clear - Hd2. lia.
      * replace (rb - racc1 + racc1) with rb in Hb2 by ring. exact Hb2.
      * assert (H1 : Z.abs (bdiv racc1 ac) <= 2 ^ (wd - 2 - racc1)) by (apply rest_bound; [clear - Hr1 Hr10 Hrb; lia|exact Hac]).
        assert (H2 : 2 ^ (wd - 2 - racc1) <= 2 ^ (wd - 2)) by (apply pow2_le_mono; clear - Hr1 Hr10 Hrb; lia).
        clear - H1 H2. lia.
  - (* the digit is not exhausted: the res limb is full, move on *)
    assert (Hr0 : racc1 = 0) by (clear - Hz Et0; lia).
    destruct (Nat.eqb_spec (c_rlimb s) 0) as [Erl|Erl].
    { exfalso. clear - Erl Hr0 Hpos Hw HE. unfold C08CrossInner.Fpos, racc1 in *. rewrite Erl in Hpos.
      change (zn 0) with 0 in Hpos. lia. }
    set (s2 := {| c_res := res1; c_anorm := n1; c_acarry := c_acarry s; c_rcarry := c_rcarry s;
                  c_atake := atake1; c_racc := racc1 + rb; c_rlimb := (c_rlimb s - 1)%nat |}).
    assert (F2 : Fpos s2 = Fpos s + w).
    { unfold C08CrossInner.Fpos, s2. cbn [c_rlimb c_racc]. unfold racc1, zn. rewrite Nat2Z.inj_sub by (clear - Erl; lia).
      change (Z.of_nat 1) with 1. ring. }
    assert (Sh2 : shape s2).
    { unfold C08CrossInner.shape, s2. cbn [c_res c_rlimb c_racc]. split; [exact L1|]. split; [clear - Sr Erl; lia|].
      split; [intros i Hi; apply N1z; clear - Hi Erl; lia|].
      rewrite N1z by (clear - Erl; lia). rewrite Hr0. replace (rb - (0 + rb)) with 0 by (clear; lia).
      cbn. clear; lia. }
    set (e := ab - c_atake s) in *.
    assert (He : 0 <= e) by (unfold e; clear - Ha; lia).
    assert (Hat1 : 0 < atake1 <= ab) by (clear - Hz Et0 Ha; lia).
    assert (Hpre2 : pre0 s2).
    { unfold pre0. split; [exact Sh2|]. unfold s2; cbn [c_racc c_atake c_anorm c_acarry c_rcarry].
      split; [clear - Hr0 Hrb; lia|]. split; [exact Hat1|]. split; [exact Hn1|]. split; [exact (absl Hc)|].
      split; [exact Hrc|].
      fold s2. rewrite F2. split; [unfold atake1; clear - Hpos; lia|].
      exists X, (low + 2 ^ e * d).
      assert (Ee : 2 ^ (ab - atake1) = 2 ^ e * 2 ^ w).
      { rewrite <- pow2_add by (clear - He Hw; lia). f_equal. unfold e, atake1. ring. }
      split; [exact (absl HX)|]. split.
      - rewrite EX, Ee. rewrite <- Hdec. ring.
      - rewrite Ee. apply pt_bound2; [exact He|clear - Hw; lia|exact (absl Hlow)|apply bal_abs; [clear - Hw; lia|exact Hdr]]. }
    destruct (IH s2 Hpre2 ltac:(unfold s2; cbn [c_atake]; clear - Hz Hf; lia)) as (P1 & P2 & P3 & P4 & P5 & P6 & P7).
    fold s2. set (s' := fst (cross_inner wd f rb ab 0 s2)) in *.
    set (o := snd (cross_inner wd f rb ab 0 s2)) in *.
    unfold post0. split; [exact P1|]. split; [exact P2|]. split; [exact P3|]. split; [exact P4|].
    split; [exact P5|]. split; [|exact P7].
    rewrite P6. change (c_res s2) with res1. change (c_anorm s2) with n1. change (c_atake s2) with atake1.
    change (c_acarry s2) with (c_acarry s).
    rewrite F2, V1.
    assert (EFw : 2 ^ (Fpos s + w) = 2 ^ Fpos s * 2 ^ w) by (apply pow2_add; [exact HF0|clear - Hw; lia]).
    replace (Fpos s + w + atake1) with (Fpos s + c_atake s) by (unfold atake1; ring).
    rewrite EFw. rewrite <- Hdec. ring.
Qed.

End InnerLast.
