(* C08, cross-radix normalisation with a negative offset, any word width wd: the last run of the inner repacking
   loop (a-limb 0).  The top of the stream lies E > 0 bits below the top of res: the a-carry partially fills the
   current res limb, the limb is normalised, and what remains is handed over as the res-carry. *)
From PV Require Import Base.MachineInt Model.Znx Model.Limbs
  Proofs.ZnxDigit Proofs.C08Steps Proofs.C08Chain Proofs.C08Loops Proofs.C08CrossInner Proofs.C08CrossGeom
  Proofs.C08WChain Proofs.C08WLoops Proofs.C08WCrossInner.
Open Scope Z_scope.

Lemma pt_bound2 (e k low p : Z) : 0 <= e -> 0 <= k -> Z.abs low <= 2 ^ e - 1 -> Z.abs p <= 2 ^ k - 1 ->
  Z.abs (low + 2 ^ e * p) <= 2 ^ e * 2 ^ k - 1.
Proof.
  intros He Hk Hl Hp. pose proof (pow2_pos e He). pose proof (pow2_pos k Hk).
  assert (Z.abs (2 ^ e * p) = 2 ^ e * Z.abs p) by (rewrite Z.abs_mul, (Z.abs_eq (2 ^ e)) by lia; reflexivity).
  nia.
Qed.

(* value bookkeeping of the hand-over (pure ring identity) *)
Lemma handover_identity (V V1 V2 V' pF pA pF1 pr pRre pb W d n1 anorm acarry ac d2 ac2 limb2 x' rc : Z) :
  V1 = V + pF * d -> anorm = d + pA * n1 -> ac = acarry + n1 -> ac = d2 + pr * ac2 ->
  V2 = V1 + d2 * pF1 -> limb2 = x' + pb * rc -> V' = V2 + (x' - limb2) * W ->
  pF1 = pF * pA -> pRre = pF1 * pr -> pRre = pb * W ->
  V' + pRre * (rc + ac2) = V + pF * anorm + pF1 * acarry.
Proof.
  intros -> -> E1 E2 -> -> -> -> -> E3.
  assert (acarry = d2 + pr * ac2 - n1) by lia. subst acarry.
  replace ((x' - (x' + pb * rc)) * W) with (- (pb * W) * rc) by ring. rewrite <- E3. ring.
Qed.

Section InnerLast.
Variable wd : Z.
Variables rb ab : Z.
Hypothesis Hrb : 1 <= rb <= wd - 2.
Hypothesis Hab : 1 <= ab <= wd - 2.
Variable rsz : nat.
Variable E : Z.
Hypothesis HE : 0 < E.

Local Notation Vres := (C08CrossInner.Vres rb rsz).
Local Notation Fpos := (C08CrossInner.Fpos rb rsz).
Local Notation shape := (C08CrossInner.shape rb rsz).
Let Hwd : 3 <= wd. Proof. lia. Qed.
Let M := 2 ^ (wd - 2).

Definition pre0 (s : cstate) : Prop :=
  shape s /\ 0 < c_racc s <= rb /\ 0 < c_atake s <= ab /\ Z.abs (c_anorm s) <= 2 ^ c_atake s /\
  Z.abs (c_acarry s) <= 2 ^ (wd - 2) /\ c_rcarry s = 0 /\
  Fpos s + c_atake s = zn rsz * rb - E /\
  exists X low, Z.abs X <= 2 ^ (wd - 2) * 2 ^ (ab - 1) + 2 ^ (wd - 2) /\
    X = low + 2 ^ (ab - c_atake s) * c_anorm s + 2 ^ ab * c_acarry s /\
    Z.abs low <= 2 ^ (ab - c_atake s) - 1.

Definition post0 (s s' : cstate) (o : couts) : Prop :=
  o = OuterBreak /\ length (c_res s') = rsz /\ (c_rlimb s' < rsz)%nat /\
  zn (c_rlimb s') * rb <= E < (zn (c_rlimb s') + 1) * rb /\
  (forall i, (i < c_rlimb s')%nat -> nthZ (c_res s') i = 0) /\
  Vres (c_res s') + 2 ^ ((zn rsz - zn (c_rlimb s')) * rb) * c_rcarry s'
    = Vres (c_res s) + 2 ^ Fpos s * c_anorm s + 2 ^ (Fpos s + c_atake s) * c_acarry s /\
  Z.abs (c_rcarry s') <= 2 ^ (wd - 2) + 1.

Theorem cross_inner_last : forall (fuel : nat) (s : cstate),
  pre0 s -> c_atake s <= Z.of_nat fuel ->
  post0 s (fst (cross_inner wd fuel rb ab 0 s)) (snd (cross_inner wd fuel rb ab 0 s)).
Proof.
  induction fuel as [|f IH]; intros s Hpre Hf.
  { destruct Hpre as (_ & _ & Ha & _). lia. }
  destruct Hpre as (Hsh & Hr & Ha & Hn & Hc & Hrc & Hpos & X & low & HX & EX & Hlow).
  destruct Hsh as (Sl & Sr & Sz & Sb).
  cbn [cross_inner].
  set (w := Z.min (Z.min ab (c_atake s)) (c_racc s)).
  assert (Hw : 1 <= w /\ w <= c_atake s /\ w <= c_racc s /\ (w = c_atake s \/ w = c_racc s))
    by (unfold w; lia).
  destruct (Z.eqb_spec w 0) as [E0|_]; [lia|].
  set (scale := rb - c_racc s).
  set (r := nthZ (c_res s) (c_rlimb s)).
  assert (Hn62 : Z.abs (c_anorm s) <= 2 ^ (wd - 2)).
  { assert (2 ^ c_atake s <= 2 ^ (wd - 2)) by (apply pow2_le_mono; lia). lia. }
  destruct (extractW wd w scale r (c_anorm s) Hwd ltac:(lia) ltac:(unfold scale; lia) ltac:(unfold scale; lia)
              Hn62 Sb) as [Ex Hrb'].
  rewrite Ex. clear Ex.
  set (d := wrap w (c_anorm s)) in *. set (n1 := bdiv w (c_anorm s)).
  pose proof (wrap_bdiv w (c_anorm s) ltac:(lia)) as Hdec. fold d n1 in Hdec.
  pose proof (wrap_range w (c_anorm s) ltac:(lia)) as Hdr. fold d in Hdr.
  assert (Hn1 : Z.abs n1 <= 2 ^ (c_atake s - w)) by (apply rest_bound; lia).
  cbn [c_res c_anorm c_acarry c_rcarry c_atake c_racc c_rlimb].
  set (atake1 := c_atake s - w). set (racc1 := c_racc s - w).
  set (res1 := upd (c_res s) (c_rlimb s) (r + d * 2 ^ scale)).
  assert (Hz : 0 <= atake1 /\ 0 <= racc1 /\ (atake1 = 0 \/ racc1 = 0) /\ atake1 < c_atake s)
    by (unfold atake1, racc1; lia).
  assert (L1 : length res1 = rsz) by (unfold res1; rewrite upd_length; exact Sl).
  assert (V1 : Vres res1 = Vres (c_res s) + 2 ^ Fpos s * d).
  { unfold res1. rewrite Vres_upd by auto. fold r.
    rewrite <- (weight_atW wd rb Hrb rsz s Sr ltac:(lia)). fold scale. ring. }
  assert (N1r : nthZ res1 (c_rlimb s) = r + d * 2 ^ scale).
  { unfold res1. rewrite nth_upd, Sl. destruct (Nat.eqb_spec (c_rlimb s) (c_rlimb s)); [|lia].
    destruct (Nat.ltb_spec (c_rlimb s) rsz); [reflexivity|lia]. }
  assert (N1z : forall i, (i < c_rlimb s)%nat -> nthZ res1 i = 0).
  { intros i Hi. unfold res1. rewrite nth_upd. destruct (Nat.eqb_spec i (c_rlimb s)); [lia|].
    cbn [andb]. apply Sz; exact Hi. }
  assert (Esw : scale + w = rb - racc1) by (unfold scale, racc1; lia).
  rewrite Bool.orb_true_r. cbn [Nat.eqb andb].
  Show.
Abort.
End InnerLast.
