(* The rejection loop of znx_add_normal_f64_ref / znx_fill_normal_f64_ref over an ARBITRARY stream of samples:
   every value it returns is bounded by ceil(bound). *)
From PV Require Import Base.MachineInt Model.Znx Model.Limbs Model.EncModel.
Open Scope Z_scope.

(* ceil(bn / 2^bl) *)
Definition ceil_bound (bn bl : Z) : Z := (bn + 2 ^ bl - 1) / 2 ^ bl.

Lemma round_half_away_bound (num dl bn bl : Z) : 0 <= dl -> 0 <= bl -> 0 <= bn ->
  exceeds num dl bn bl = false -> Z.abs (round_half_away num dl) <= ceil_bound bn bl.
Proof.
  intros Hdl Hbl Hbn Hex. unfold exceeds in Hex. apply Z.ltb_ge in Hex.
  pose proof (pow2_pos dl Hdl) as Hd. pose proof (pow2_pos bl Hbl) as Hl.
  unfold ceil_bound. set (c := (bn + 2 ^ bl - 1) / 2 ^ bl).
  assert (Hc : bn <= c * 2 ^ bl).
  { unfold c. pose proof (Z.div_mod (bn + 2 ^ bl - 1) (2 ^ bl) ltac:(lia)).
    pose proof (Z.mod_pos_bound (bn + 2 ^ bl - 1) (2 ^ bl) Hl). nia. }
  assert (Hc0 : 0 <= c) by (unfold c; apply Z.div_pos; lia).
  assert (Hn : Z.abs num <= c * 2 ^ dl).
  { apply (Zmult_le_reg_r _ _ (2 ^ bl)); [lia|].
    assert (bn * 2 ^ dl <= c * 2 ^ bl * 2 ^ dl) by (apply Z.mul_le_mono_nonneg_r; lia). lia. }
  assert (Hq : (2 * Z.abs num + 2 ^ dl) / (2 * 2 ^ dl) <= c).
  { assert ((2 * Z.abs num + 2 ^ dl) / (2 * 2 ^ dl) < c + 1); [|lia]. apply Z.div_lt_upper_bound; [lia|]. nia. }
  assert (Hq0 : 0 <= (2 * Z.abs num + 2 ^ dl) / (2 * 2 ^ dl)) by (apply Z.div_pos; lia).
  unfold round_half_away. destruct (Z.leb_spec 0 num).
  - rewrite Z.abs_eq in Hq by lia. rewrite Z.abs_eq in Hq0 by lia. lia.
  - rewrite Z.abs_neq in Hq by lia. rewrite Z.abs_neq in Hq0 by lia. lia.
Qed.

Definition wf_samples (xs : list (Z * Z)) : Prop := Forall (fun x => 0 <= snd x) xs.

Lemma sample_one_bound (bn bl : Z) : 0 <= bl -> 0 <= bn -> forall (xs : list (Z * Z)) (e : Z) (rest : list (Z * Z)),
  wf_samples xs -> sample_one bn bl xs = Some (e, rest) ->
  Z.abs e <= ceil_bound bn bl /\ wf_samples rest /\ (length rest < length xs)%nat.
Proof.
  intros Hbl Hbn. induction xs as [|[num dl] xs IH]; intros e rest Hwf H; cbn [sample_one] in H; [discriminate|].
  inversion Hwf as [|? ? Hx Hwf']; subst. cbn [snd] in Hx.
  destruct (exceeds num dl bn bl) eqn:Ex.
  - destruct (IH e rest Hwf' H) as (A & B & C). repeat split; auto. cbn [length]. lia.
  - inversion H; subst. split; [apply round_half_away_bound; auto|]. split; [exact Hwf'|cbn [length]; lia].
Qed.

Theorem sample_n_bound (bn bl : Z) : 0 <= bl -> 0 <= bn -> forall (cnt : nat) (xs : list (Z * Z)) (es : list Z) (rest : list (Z * Z)),
  wf_samples xs -> sample_n bn bl cnt xs = Some (es, rest) ->
  length es = cnt /\ Forall (fun e => Z.abs e <= ceil_bound bn bl) es.
Proof.
  intros Hbl Hbn. induction cnt as [|cnt IH]; intros xs es rest Hwf H; cbn [sample_n] in H.
  - inversion H; subst. split; [reflexivity|constructor].
  - destruct (sample_one bn bl xs) as [[e r1]|] eqn:E1; [|discriminate].
    destruct (sample_n bn bl cnt r1) as [[es' r2]|] eqn:E2; [|discriminate].
    inversion H; subst.
    destruct (sample_one_bound bn bl Hbl Hbn xs e r1 Hwf E1) as (A & B & _).
    destruct (IH r1 es' rest B E2) as (L & F).
    split; [cbn [length]; lia|constructor; assumption].
Qed.

(* the loop accepts the first sample within the bound and rejects every earlier one *)
Theorem sample_one_first_accepted (bn bl : Z) (xs : list (Z * Z)) (e : Z) (rest : list (Z * Z)) :
  sample_one bn bl xs = Some (e, rest) ->
  exists pre num dl, xs = pre ++ (num, dl) :: rest /\ Forall (fun x => exceeds (fst x) (snd x) bn bl = true) pre /\
                     exceeds num dl bn bl = false /\ e = round_half_away num dl.
Proof.
  revert e rest. induction xs as [|[num dl] xs IH]; intros e rest H; cbn [sample_one] in H; [discriminate|].
  destruct (exceeds num dl bn bl) eqn:Ex.
  - destruct (IH e rest H) as (pre & n' & d' & E & F & X & R).
    exists ((num, dl) :: pre), n', d'. split; [rewrite E; reflexivity|]. split; [constructor; auto|]. auto.
  - inversion H; subst. exists [], num, dl. repeat split; auto.
Qed.
