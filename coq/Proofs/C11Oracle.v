(* C11, soundness of the executable oracle of Model/C11Run.v: frame_eq / col_eq decide exactly the frame and
   the selected-column-agreement statements used by the theorems. *)
From PV Require Import Base.MachineInt Model.Znx Model.Limbs Model.Flat Model.C11Run Proofs.C11Frame Proofs.C11Read.
From Coq Require Import Arith PeanoNat List Bool.
Open Scope nat_scope.

(* the model's in_col and the proofs' in_col are the same function *)
Lemma in_col_same : C11Run.in_col = C11Frame.in_col.
Proof. reflexivity. Qed.

Lemma frame_eq_spec n cols size col (a : list Z) :
  forall b idx0,
  frame_eq n cols size col idx0 a b = true <->
  (length a = length b /\
   forall k, C11Frame.in_col n cols size col (idx0 + k) = false -> nth k a 0%Z = nth k b 0%Z).
Proof.
  rewrite <- in_col_same.
  induction a as [|x a IH]; intros [|y b] idx0; cbn [frame_eq length].
  - split; [intros _; split; [reflexivity|intros; reflexivity]|reflexivity].
  - split; [discriminate|intros [H _]; discriminate].
  - split; [discriminate|intros [H _]; discriminate].
  - rewrite andb_true_iff, orb_true_iff, IH, Z.eqb_eq. split.
    + intros [H0 [Hl Hk]]. split; [lia|].
      intros [|k] Hout.
      * rewrite Nat.add_0_r in Hout. cbn [nth].
        destruct H0 as [H0|H0]; [rewrite H0 in Hout; discriminate|exact H0].
      * cbn [nth]. apply Hk. replace (S idx0 + k) with (idx0 + S k) by lia. exact Hout.
    + intros [Hl Hk]. split; [|split; [lia|]].
      * destruct (C11Run.in_col n cols size col idx0) eqn:E; [left; reflexivity|right].
        apply (Hk 0). rewrite Nat.add_0_r. exact E.
      * intros k Hout. apply (Hk (S k)). replace (idx0 + S k) with (S idx0 + k) by lia. exact Hout.
Qed.

Lemma col_eq_spec n cols size col (a : list Z) :
  forall b idx0,
  col_eq n cols size col idx0 a b = true <->
  (length a = length b /\
   forall k, C11Frame.in_col n cols size col (idx0 + k) = true -> nth k a 0%Z = nth k b 0%Z).
Proof.
  rewrite <- in_col_same.
  induction a as [|x a IH]; intros [|y b] idx0; cbn [col_eq length].
  - split; [intros _; split; [reflexivity|intros; reflexivity]|reflexivity].
  - split; [discriminate|intros [H _]; discriminate].
  - split; [discriminate|intros [H _]; discriminate].
  - rewrite andb_true_iff, orb_true_iff, negb_true_iff, IH, Z.eqb_eq. split.
    + intros [H0 [Hl Hk]]. split; [lia|].
      intros [|k] Hin.
      * rewrite Nat.add_0_r in Hin. cbn [nth].
        destruct H0 as [H0|H0]; [rewrite H0 in Hin; discriminate|exact H0].
      * cbn [nth]. apply Hk. replace (S idx0 + k) with (idx0 + S k) by lia. exact Hin.
    + intros [Hl Hk]. split; [|split; [lia|]].
      * destruct (C11Run.in_col n cols size col idx0) eqn:E; [right|left; reflexivity].
        apply (Hk 0). rewrite Nat.add_0_r. exact E.
      * intros k Hin. apply (Hk (S k)). replace (idx0 + S k) with (S idx0 + k) by lia. exact Hin.
Qed.

(* the statements as used by oracle_c11 (idx0 = 0) *)
Theorem frame_eq_sound n cols size col (a b : list Z) :
  frame_eq n cols size col 0 a b = true <->
  (length a = length b /\
   forall idx, C11Frame.in_col n cols size col idx = false -> nth idx a 0%Z = nth idx b 0%Z).
Proof. apply frame_eq_spec. Qed.

Theorem col_eq_sound n cols size col (a b : list Z) :
  col_eq n cols size col 0 a b = true <->
  (length a = length b /\
   forall idx, C11Frame.in_col n cols size col idx = true -> nth idx a 0%Z = nth idx b 0%Z).
Proof. apply col_eq_spec. Qed.

(* ---------- agreement on the words of the column  <->  equal col_limbs ---------- *)

(* every word of the column is word i of limb j of the column, j < size, i < n *)
Lemma in_col_decompose n cols size col idx :
  0 < n -> 0 < cols -> C11Frame.in_col n cols size col idx = true ->
  exists j i, j < size /\ i < n /\ col < cols /\ idx = n * (j * cols + col) + i.
Proof.
  intros Hn Hc H. unfold C11Frame.in_col in H. apply andb_prop in H as [H1 H2].
  apply Nat.eqb_eq in H1. apply Nat.ltb_lt in H2.
  exists (idx / n / cols), (idx mod n).
  pose proof (Nat.div_mod idx n ltac:(lia)) as E1.
  pose proof (Nat.div_mod (idx / n) cols ltac:(lia)) as E2.
  pose proof (Nat.mod_upper_bound idx n ltac:(lia)).
  pose proof (Nat.mod_upper_bound (idx / n) cols ltac:(lia)).
  split; [exact H2|]. split; [assumption|]. split; [lia|].
  rewrite H1 in E2.
  replace (idx / n / cols * cols + col) with (idx / n) by lia. exact E1.
Qed.

Theorem col_limbs_eq_iff n cols size col (a b : list Z) :
  0 < n -> col < cols -> length a = length b -> n * cols * size <= length a ->
  (col_limbs n cols size a col = col_limbs n cols size b col <->
   forall idx, C11Frame.in_col n cols size col idx = true -> nth idx a 0%Z = nth idx b 0%Z).
Proof.
  intros Hn Hc Hl Hd. split.
  - intros E idx Hin.
    destruct (in_col_decompose n cols size col idx Hn ltac:(lia) Hin) as (j & i & Hj & Hi & _ & ->).
    rewrite <- !(limb_at_nth n cols _ col j i 0%Z Hi).
    rewrite <- !(col_limbs_nth n cols size _ col j Hj). rewrite E. reflexivity.
  - intros H. unfold col_limbs. apply map_ext_in. intros j Hj. apply in_seq in Hj.
    assert (Hfit : n * (j * cols + col) + n <= length a) by (apply (limb_fits n cols size); lia).
    apply (nth_ext _ _ 0%Z 0%Z).
    + rewrite !limb_at_length; [reflexivity|rewrite <- Hl; exact Hfit|exact Hfit].
    + intros i Hi. rewrite limb_at_length in Hi by exact Hfit.
      rewrite !limb_at_nth by exact Hi. apply H.
      apply (in_col_of_range n cols size col j); lia.
Qed.

(* the oracle's third conjunct is exactly the independence statement on well-sized buffers *)
Corollary col_eq_col_limbs n cols size col (a b : list Z) :
  0 < n -> col < cols -> n * cols * size <= length a ->
  (col_eq n cols size col 0 a b = true <->
   (length a = length b /\ col_limbs n cols size a col = col_limbs n cols size b col)).
Proof.
  intros Hn Hc Hd. rewrite col_eq_sound. split; intros [Hl H]; (split; [exact Hl|]).
  - apply col_limbs_eq_iff; assumption.
  - apply (col_limbs_eq_iff n cols size col a b); assumption.
Qed.
