(* C14: the three CGGI accumulator loops over ABSTRACT ciphertexts.  The external product enters only through its phase
   equation (named hypothesis external_product_phase, the shape of C04_external_product_phase: phase(acc [x] BRK_i) =
   s_i * phase(acc) + e + M * I with |e|_inf <= B, M = 2^P); the conclusion carries the accumulated error explicitly:
   phase(acc_final) = X^(sum a_i s_i) * phase(acc_0) + E + M * J. *)
From PV Require Import Base.MachineInt Model.Znx Model.Limbs Model.Ring Model.Poly Model.C14Lut Model.C14Spec Model.C14Blind.
From PV Require Import Proofs.C09Lists Proofs.C09Ring Proofs.C14Rotate Proofs.C14Poly Proofs.C14Approx Proofs.C14Blind.
Open Scope Z_scope.

(* the noise-free value of one term (X^p - 1) * (s * phi) *)
Lemma nf_term_zero (n : nat) (p : Z) (phi : poly) : length phi = n -> xp_minus_one p (pscale 0 phi) = zeros n.
Proof. intros H. pext. lia. Qed.

Lemma nth_repeat_g {A} (x d : A) e c : (c < e)%nat -> nth c (repeat x e) d = x.
Proof. revert c; induction e as [|e IH]; intros [|c] H; cbn [repeat nth]; try lia; auto. apply IH. lia. Qed.
Lemma nth_map2_ex {A} (f g : A -> poly) (l : list A) c : (c < length l)%nat ->
  exists x, nth c (map f l) [] = f x /\ nth c (map g l) [] = g x.
Proof.
  revert c; induction l as [|h t IH]; intros [|c] H; cbn [length] in H; try lia.
  - exists h. split; reflexivity.
  - cbn [map nth]. apply IH. lia.
Qed.

(* ================================================================== standard ===== *)
Section Standard.
Variable ct : Type.                       (* GLWE ciphertexts *)
Variable phase : ct -> poly.              (* exact phase (decryption before rounding), an integer polynomial *)
Variable N : nat.
Variables M B : Z.                        (* M = 2^P, the torus modulus at the working precision; B bounds the error of one product *)
Variable extprod : ct -> nat -> ct.       (* acc [x] BRK_i *)
Variable mulxp : Z -> ct -> ct.           (* glwe_mul_xp_minus_one_assign *)
Variable ctadd : ct -> ct -> ct.          (* glwe_add_assign *)
Variable s : nat -> Z.                    (* the LWE secret *)
Hypothesis HB : 0 <= B.
Hypothesis phase_length : forall c, length (phase c) = N.
Hypothesis s_binary : forall i, s i = 0 \/ s i = 1.
Hypothesis external_product_phase : forall acc i, approx N M B (phase (extprod acc i)) (pscale (s i) (phase acc)).
Hypothesis phase_mul_xp_minus_one : forall a c, phase (mulxp a c) = xp_minus_one a (phase c).
Hypothesis phase_add : forall c d, phase (ctadd c d) = padd (phase c) (phase d).

Fixpoint std_loop (i : nat) (av : list Z) (acc : ct) : ct :=
  match av with
  | [] => acc
  | a :: t => std_loop (S i) t (ctadd acc (mulxp a (extprod acc i)))
  end.
Fixpoint expo (i : nat) (av : list Z) : Z :=
  match av with [] => 0 | a :: t => a * s i + expo (S i) t end.

Theorem standard_phase (av : list Z) : forall (i : nat) (acc : ct),
  approx N M (2 * B * Z.of_nat (length av)) (phase (std_loop i av acc)) (zrot (expo i av) (phase acc)).
Proof.
  induction av as [|a t IH]; intros i acc.
  - cbn [std_loop expo length]. rewrite zrot_0. apply approx_refl; [apply phase_length | lia].
  - cbn [std_loop expo].
    set (acc1 := ctadd acc (mulxp a (extprod acc i))).
    pose proof (phase_length acc) as Hla.
    assert (H1 : approx N M (2 * B) (phase acc1) (zrot (a * s i) (phase acc))).
    { unfold acc1. rewrite phase_add, phase_mul_xp_minus_one.
      replace (zrot (a * s i) (phase acc)) with (padd (phase acc) (xp_minus_one a (pscale (s i) (phase acc)))).
      - replace (2 * B) with (0 + 2 * B) by ring.
        apply approx_padd; [apply approx_refl; auto; lia | apply approx_xp_minus_one, external_product_phase].
      - destruct (s_binary i) as [Hs|Hs]; rewrite Hs; pext; lia. }
    pose proof (approx_zrot N M _ (expo (S i) t) _ _ H1) as H2. rewrite zrot_compose in H2.
    pose proof (approx_trans N M _ _ _ _ _ (IH (S i) acc1) H2) as H3.
    replace (2 * B * Z.of_nat (length (a :: t))) with (2 * B * Z.of_nat (length t) + 2 * B) by (cbn [length]; lia).
    replace (a * s i + expo (S i) t) with (expo (S i) t + a * s i) by ring. exact H3.
Qed.

End Standard.

(* ================================================================== block-binary ===== *)
Section Block.
Variable ct : Type.
Variable phase : ct -> poly.
Variable N : nat.
Variables M B Bn : Z.      (* Bn bounds what the end-of-block vec_znx_big_normalize adds (truncation to the size of the result) *)
Variable extprod : ct -> nat -> ct.                (* the vmp product DFT(acc) x BRK_i, as a ciphertext *)
Variable blockupd : ct -> nat -> list Z -> ct.     (* one iteration of the outer loop: block starting at LWE index i, mask values blk *)
Variable s : nat -> Z.
Hypothesis HN : (0 < N)%nat.
Hypothesis HB : 0 <= B.
Hypothesis HBn : 0 <= Bn.
Hypothesis phase_length : forall c, length (phase c) = N.
Hypothesis s_binary : forall i, s i = 0 \/ s i = 1.
Hypothesis external_product_phase : forall acc i, approx N M B (phase (extprod acc i)) (pscale (s i) (phase acc)).

Definition idx (blk : list Z) : list (nat * Z) := combine (seq 0 (length blk)) blk.
(* acc_add_dft = sum_j DFT(X^{ai_pos}) * vmp_res_j - vmp_res_j, every product taken from the accumulator at the start of the block *)
Definition blk_terms (acc : ct) (i : nat) (blk : list Z) : list poly :=
  map (fun q : nat * Z => xp_minus_one ((snd q + 2 * Z.of_nat N) mod (2 * Z.of_nat N)) (phase (extprod acc (i + fst q)))) (idx blk).
(* idft, add acc, normalise: linear up to Bn and multiples of M (C07 exact products, C08 normalisation) *)
Hypothesis block_update_phase : forall acc i blk,
  approx N M Bn (phase (blockupd acc i blk)) (padd (phase acc) (psum N (blk_terms acc i blk))).

Fixpoint blk_loop (i : nat) (blks : list (list Z)) (acc : ct) : ct :=
  match blks with [] => acc | blk :: t => blk_loop (i + length blk) t (blockupd acc i blk) end.
Definition blk_pairs (i : nat) (blk : list Z) : list (Z * Z) := map (fun q : nat * Z => (snd q, s (i + fst q))) (idx blk).
Fixpoint blk_ok (i : nat) (blks : list (list Z)) : Prop :=
  match blks with [] => True | blk :: t => at_most_one (blk_pairs i blk) /\ blk_ok (i + length blk) t end.
Fixpoint blk_expo (i : nat) (blks : list (list Z)) : Z :=
  match blks with [] => 0 | blk :: t => dotp (blk_pairs i blk) + blk_expo (i + length blk) t end.
Fixpoint blk_bound (blks : list (list Z)) : Z :=
  match blks with [] => 0 | blk :: t => 2 * B * Z.of_nat (length blk) + Bn + blk_bound t end.

Lemma idx_length blk : length (idx blk) = length blk.
Proof. unfold idx. rewrite combine_length, seq_length. lia. Qed.

Lemma block_step (acc : ct) (i : nat) (blk : list Z) : at_most_one (blk_pairs i blk) ->
  approx N M (2 * B * Z.of_nat (length blk) + Bn) (phase (blockupd acc i blk)) (zrot (dotp (blk_pairs i blk)) (phase acc)).
Proof.
  intros Hamo. pose proof (phase_length acc) as Hla.
  set (two_n := 2 * Z.of_nat N).
  set (nf := fun q : nat * Z => xp_minus_one ((snd q + two_n) mod two_n) (pscale (s (i + fst q)) (phase acc))).
  assert (H1 : approx N M (2 * B * Z.of_nat (length blk)) (psum N (blk_terms acc i blk)) (psum N (map nf (idx blk)))).
  { replace (length blk) with (length (blk_terms acc i blk)) by (unfold blk_terms; rewrite map_length; apply idx_length).
    apply approx_psum; [lia|]. unfold blk_terms. apply Forall2_map_same. intros q _.
    apply approx_xp_minus_one, external_product_phase. }
  assert (H2 : padd (phase acc) (psum N (map nf (idx blk))) = zrot (dotp (blk_pairs i blk)) (phase acc)).
  { rewrite <- (cggi_block_step_rot N (blk_pairs i blk) (phase acc) HN Hla Hamo).
    unfold cggi_block_step. cbv zeta. f_equal. f_equal. unfold blk_pairs. rewrite map_map.
    apply map_ext. intros q. cbn [fst snd]. unfold nf. fold two_n.
    destruct (s_binary (i + fst q)) as [Hs|Hs]; rewrite Hs; cbn [Z.eqb]; [apply nf_term_zero; auto | reflexivity]. }
  pose proof (approx_padd N M 0 _ _ _ _ _ (approx_refl N M 0 (phase acc) Hla ltac:(lia)) H1) as H3.
  rewrite H2 in H3.
  pose proof (approx_trans N M _ _ _ _ _ (block_update_phase acc i blk) H3) as H4.
  eapply approx_weaken; [|exact H4]. lia.
Qed.

Theorem block_phase (blks : list (list Z)) : forall (i : nat) (acc : ct), blk_ok i blks ->
  approx N M (blk_bound blks) (phase (blk_loop i blks acc)) (zrot (blk_expo i blks) (phase acc)).
Proof.
  induction blks as [|blk t IH]; intros i acc Hok.
  - cbn [blk_loop blk_expo blk_bound]. rewrite zrot_0. apply approx_refl; [apply phase_length | lia].
  - destruct Hok as [Hamo Hrest]. cbn [blk_loop blk_expo blk_bound].
    pose proof (block_step acc i blk Hamo) as H1.
    pose proof (approx_zrot N M _ (blk_expo (i + length blk) t) _ _ H1) as H2. rewrite zrot_compose in H2.
    pose proof (approx_trans N M _ _ _ _ _ (IH (i + length blk)%nat (blockupd acc i blk) Hrest) H2) as H3.
    replace (dotp (blk_pairs i blk) + blk_expo (i + length blk) t) with (blk_expo (i + length blk) t + dotp (blk_pairs i blk)) by ring.
    eapply approx_weaken; [|exact H3]. lia.
Qed.

End Block.

(* ================================================================== extended ===== *)
(* component-wise approximation of vectors of polynomials *)
Definition approxv (e L : nat) (M B : Z) (xs ys : list poly) : Prop :=
  length xs = e /\ length ys = e /\ forall c, (c < e)%nat -> approx L M B (pnth xs c) (pnth ys c).

Lemma approxv_refl e L M B xs : length xs = e -> shaped L xs -> 0 <= B -> approxv e L M B xs xs.
Proof.
  intros He Hs HB. split; [auto|]. split; [auto|]. intros c Hc. apply approx_refl; auto.
  apply shaped_nth; auto. lia.
Qed.
Lemma approxv_weaken e L M B B' xs ys : B <= B' -> approxv e L M B xs ys -> approxv e L M B' xs ys.
Proof. intros H (H1 & H2 & H3). split; [auto|]. split; [auto|]. intros c Hc. eapply approx_weaken; eauto. Qed.

Lemma pnth_map2_padd (xs ys : list poly) c : length xs = length ys -> (c < length xs)%nat ->
  pnth (map2 padd xs ys) c = padd (pnth xs c) (pnth ys c).
Proof.
  intros Hl Hc. unfold pnth, map2.
  set (h := fun p : poly * poly => padd (fst p) (snd p)).
  rewrite (nth_indep _ [] (h ([], []))) by (rewrite map_length, combine_length; lia).
  rewrite (map_nth h). rewrite combine_nth by exact Hl. reflexivity.
Qed.
Lemma len_map2 {A B C} (g : A -> B -> C) l1 l2 : length (map2 g l1 l2) = Nat.min (length l1) (length l2).
Proof. unfold map2. rewrite map_length, combine_length. reflexivity. Qed.

Lemma approxv_padd e L M B1 B2 xs ys xs' ys' :
  approxv e L M B1 xs ys -> approxv e L M B2 xs' ys' -> approxv e L M (B1 + B2) (map2 padd xs xs') (map2 padd ys ys').
Proof.
  intros (H1 & H2 & H3) (H1' & H2' & H3'). split; [rewrite len_map2; lia|]. split; [rewrite len_map2; lia|].
  intros c Hc. rewrite !pnth_map2_padd by lia. apply approx_padd; auto.
Qed.
(* adding a vector that is approximately zero *)
Lemma approxv_padd_zero e L M B1 B2 cs cs' xs :
  approxv e L M B1 cs cs' -> approxv e L M B2 xs (repeat (zeros L) e) -> approxv e L M (B1 + B2) (map2 padd cs xs) cs'.
Proof.
  intros (H1 & H2 & H3) (H1' & H2' & H3'). split; [rewrite len_map2; lia|]. split; [auto|].
  intros c Hc. rewrite pnth_map2_padd by lia. apply approx_padd_zero; auto.
  specialize (H3' c Hc). unfold pnth in H3' at 2. rewrite nth_repeat_g in H3' by auto. exact H3'.
Qed.

Lemma pnth_map_seq (g : nat -> poly) e c : (c < e)%nat -> pnth (map g (seq 0 e)) c = g c.
Proof. intros H. unfold pnth. apply nth_map_seq. exact H. Qed.

Lemma ext_contrib_length n a s acc : length (ext_contrib n a s acc) = length acc.
Proof. unfold ext_contrib. cbv zeta. apply map_seq_length. Qed.

Lemma pnth_map (g : poly -> poly) (l : list poly) c : (c < length l)%nat -> pnth (map g l) c = g (pnth l c).
Proof. intros Hc. unfold pnth. rewrite (nth_indep _ [] (g [])) by (rewrite map_length; auto). apply map_nth. Qed.

(* the contribution of one LWE coefficient is linear in the products: approximations go through, with a factor 2 *)
Lemma approxv_ext_contrib e n M B a (vs us : list poly) : (0 < e)%nat -> 0 <= B ->
  approxv e n M B vs us -> approxv e n M (2 * B) (ext_contrib n a 1 vs) (ext_contrib n a 1 us).
Proof.
  intros He HB (H1 & H2 & H3). split; [rewrite ext_contrib_length; auto|]. split; [rewrite ext_contrib_length; auto|].
  intros c Hc. unfold ext_contrib. cbv zeta. rewrite H1, H2.
  rewrite !pnth_map_seq by auto.
  set (E := Z.of_nat e). set (t := 2 * Z.of_nat n * E). set (a_pos := (a + t) mod t).
  assert (Hlo : 0 <= a_pos mod E < E) by (apply Z.mod_pos_bound; unfold E; lia).
  assert (Hv : forall l : list poly, map (pscale 1) l = l).
  { intros l. rewrite <- (map_id l) at 2. apply map_ext. intros; apply pscale_1. }
  rewrite !Hv.
  replace (2 * B) with (B + B) by ring.
  destruct (Z.eqb_spec (a_pos mod E) 0).
  - destruct (Z.eqb_spec (a_pos / E) 0).
    + apply approx_refl; [apply len_zeros | lia].
    + apply approx_psub; [apply approx_zrot|]; apply H3; auto.
  - destruct (Z.ltb_spec (Z.of_nat c) (a_pos mod E)).
    + apply approx_psub; [apply approx_zrot|]; apply H3; unfold E in *; lia.
    + apply approx_psub; [apply approx_zrot|]; apply H3; unfold E in *; lia.
Qed.

Lemma ext_contrib_scale n a s (phis : list poly) : ext_contrib n a 1 (map (pscale s) phis) = ext_contrib n a s phis.
Proof.
  unfold ext_contrib. cbv zeta. rewrite map_length.
  replace (map (pscale 1) (map (pscale s) phis)) with (map (pscale s) phis); [reflexivity|].
  rewrite <- (map_id (map (pscale s) phis)) at 1. apply map_ext. intros; symmetry; apply pscale_1.
Qed.

(* with s = 0 every component of the contribution is zero *)
Lemma ext_contrib_zero e n a (phis : list poly) c : length phis = e -> shaped n phis -> (c < e)%nat ->
  pnth (ext_contrib n a 0 phis) c = zeros n.
Proof.
  intros He Hs Hc.
  unfold ext_contrib. cbv zeta. rewrite He. rewrite pnth_map_seq by auto.
  set (E := Z.of_nat e). set (t := 2 * Z.of_nat n * E). set (a_pos := (a + t) mod t).
  assert (Hlo : 0 <= a_pos mod E < E) by (apply Z.mod_pos_bound; unfold E; lia).
  assert (Hl : forall j, (j < e)%nat -> length (pnth (map (pscale 0) phis) j) = n).
  { intros j Hj. rewrite pnth_map by lia. rewrite pscale_length. apply shaped_nth; auto. lia. }
  assert (Hz : forall j, (j < e)%nat -> forall k, zext (pnth (map (pscale 0) phis) j) k = 0).
  { intros j Hj k. rewrite pnth_map by lia. rewrite zext_pscale. lia. }
  pose proof (Hl c Hc).
  destruct (Z.eqb_spec (a_pos mod E) 0); [destruct (Z.eqb_spec (a_pos / E) 0); [reflexivity|]|destruct (Z.ltb_spec (Z.of_nat c) (a_pos mod E))].
  - apply zext_inj; [rewrite len_psub, zrot_length, len_zeros, !Hl by auto; lia|].
    intros k. rewrite zext_psub, zext_zrot, !Hz, zext_zeros by (rewrite ?zrot_length; auto). lia.
  - pose proof (Hl (Z.to_nat (E - a_pos mod E) + c)%nat ltac:(unfold E in *; lia)).
    apply zext_inj; [rewrite len_psub, zrot_length, len_zeros; lia|].
    intros k. rewrite zext_psub, zext_zrot, !Hz, zext_zeros by (rewrite ?zrot_length; unfold E in *; lia). lia.
  - pose proof (Hl (c - Z.to_nat (a_pos mod E))%nat ltac:(lia)).
    apply zext_inj; [rewrite len_psub, zrot_length, len_zeros; lia|].
    intros k. rewrite zext_psub, zext_zrot, !Hz, zext_zeros by (rewrite ?zrot_length; lia). lia.
Qed.

(* component-wise approximation is approximation of the big-ring polynomials *)
Lemma fin_choice2 (e : nat) (P : nat -> poly -> poly -> Prop) :
  (forall c, (c < e)%nat -> exists E J, P c E J) ->
  exists Es Js, length Es = e /\ length Js = e /\ forall c, (c < e)%nat -> P c (pnth Es c) (pnth Js c).
Proof.
  induction e as [|e IH]; intros H.
  - exists [], []. repeat split; auto. intros; lia.
  - destruct (IH ltac:(intros c Hc; apply H; lia)) as (Es & Js & HE & HJ & HP).
    destruct (H e ltac:(lia)) as (E & J & HEJ).
    exists (Es ++ [E]), (Js ++ [J]). split; [rewrite app_length; cbn; lia|]. split; [rewrite app_length; cbn; lia|].
    intros c Hc. unfold pnth. destruct (Nat.eq_dec c e) as [->|Hne].
    + rewrite !app_nth2 by lia. rewrite HE, HJ, Nat.sub_diag. exact HEJ.
    + rewrite !app_nth1 by lia. apply HP. lia.
Qed.

Lemma zbig_nth n (xs : list poly) u : (u < n * length xs)%nat ->
  nthZ (zbig n xs) u = nthZ (pnth xs (u mod length xs)) (u / length xs).
Proof. intros Hu. unfold zbig. apply interleave_nth. exact Hu. Qed.
Lemma zbig_length n xs : length (zbig n xs) = (n * length xs)%nat.
Proof. apply interleave_length. Qed.

Lemma approxv_zbig e n M B xs ys : (0 < e)%nat -> approxv e n M B xs ys -> approx (n * e) M B (zbig n xs) (zbig n ys).
Proof.
  intros He (H1 & H2 & H3).
  destruct (fin_choice2 e (fun c E J => length E = n /\ length J = n /\ bounded B E /\
                                         pnth xs c = padd (padd (pnth ys c) E) (pscale M J))) as (Es & Js & HE & HJ & HP).
  { intros c Hc. destruct (H3 c Hc) as (_ & _ & E & J & Ha & Hb & Hc' & Hd). exists E, J. auto. }
  split; [rewrite zbig_length, H1; reflexivity|]. split; [rewrite zbig_length, H2; reflexivity|].
  exists (zbig n Es), (zbig n Js). split; [rewrite zbig_length, HE; reflexivity|]. split; [rewrite zbig_length, HJ; reflexivity|].
  split.
  - apply bounded_nth. intros u Hu. rewrite zbig_length, HE in Hu. rewrite zbig_nth by (rewrite HE; auto). rewrite HE.
    assert (Hc : (u mod e < e)%nat) by (apply Nat.mod_upper_bound; lia).
    destruct (HP _ Hc) as (Ha & _ & Hb & _). apply bounded_at; auto. rewrite Ha. apply Nat.div_lt_upper_bound; lia.
  - apply nthZ_ext; [rewrite !len_padd, pscale_length, !zbig_length; lia|].
    intros u Hu. rewrite zbig_length, H1 in Hu.
    assert (Hc : (u mod e < e)%nat) by (apply Nat.mod_upper_bound; lia).
    assert (Hd : (u / e < n)%nat) by (apply Nat.div_lt_upper_bound; lia).
    destruct (HP _ Hc) as (Ha & Hb & _ & Heq).
    pose proof (approx_len_r n M B _ _ (H3 _ Hc)) as Hy.
    rewrite padd_nth by (rewrite ?len_padd, ?pscale_length, !zbig_length; lia).
    rewrite padd_nth by (rewrite !zbig_length; lia).
    rewrite pscale_nth by (rewrite zbig_length; lia).
    rewrite !zbig_nth by lia. rewrite H1, H2, HE, HJ. rewrite Heq.
    rewrite padd_nth by (rewrite ?len_padd, ?pscale_length; lia).
    rewrite padd_nth by lia. rewrite pscale_nth by lia. reflexivity.
Qed.

Section Extended.
Variable ct : Type.
Variable phase : ct -> poly.
Variables N e : nat.                     (* ring degree, extension factor *)
Variables M B Bn : Z.
Variable extprod : ct -> nat -> ct.
Variable eblockupd : list ct -> nat -> list Z -> list ct.   (* one block on the ext accumulators *)
Variable s : nat -> Z.
Hypothesis HN : (0 < N)%nat.
Hypothesis He : (0 < e)%nat.
Hypothesis HB : 0 <= B.
Hypothesis HBn : 0 <= Bn.
Hypothesis phase_length : forall c, length (phase c) = N.
Hypothesis s_binary : forall i, s i = 0 \/ s i = 1.
Hypothesis external_product_phase : forall acc i, approx N M B (phase (extprod acc i)) (pscale (s i) (phase acc)).

Definition phases (accs : list ct) : list poly := map phase accs.
(* acc_add_dft[.] accumulates, for each LWE coefficient of the block, the ext contributions computed from the products
   vmp_res[j] = acc[j] (at the start of the block) x BRK; then idft + acc + normalise, component by component *)
Definition ext_target (accs : list ct) (i : nat) (blk : list Z) : list poly :=
  fold_left (fun (cur : list poly) (q : nat * Z) =>
               map2 padd cur (ext_contrib N (snd q) 1 (map (fun c => phase (extprod c (i + fst q))) accs)))
            (combine (seq 0 (length blk)) blk) (phases accs).
Hypothesis ext_block_update_phase : forall accs i blk, length accs = e ->
  approxv e N M Bn (phases (eblockupd accs i blk)) (ext_target accs i blk).

Fixpoint eblk_loop (i : nat) (blks : list (list Z)) (accs : list ct) : list ct :=
  match blks with [] => accs | blk :: t => eblk_loop (i + length blk) t (eblockupd accs i blk) end.
Definition eblk_pairs (i : nat) (blk : list Z) : list (Z * Z) :=
  map (fun q : nat * Z => (snd q, s (i + fst q))) (combine (seq 0 (length blk)) blk).
Fixpoint eblk_ok (i : nat) (blks : list (list Z)) : Prop :=
  match blks with [] => True | blk :: t => at_most_one (eblk_pairs i blk) /\ eblk_ok (i + length blk) t end.
Fixpoint eblk_expo (i : nat) (blks : list (list Z)) : Z :=
  match blks with [] => 0 | blk :: t => dotp (eblk_pairs i blk) + eblk_expo (i + length blk) t end.
Fixpoint eblk_bound (blks : list (list Z)) : Z :=
  match blks with [] => 0 | blk :: t => 2 * B * Z.of_nat (length blk) + Bn + eblk_bound t end.

Lemma phases_shape accs : length accs = e -> length (phases accs) = e /\ shaped N (phases accs).
Proof.
  intros Hl. unfold phases. split; [rewrite map_length; auto|].
  apply Forall_forall. intros p Hp. apply in_map_iff in Hp. destruct Hp as [c [<- _]]. apply phase_length.
Qed.

(* the fold of the target against the noise-free fold (ext_block_step), coefficient by coefficient *)
Lemma target_fold (accs : list ct) (i : nat) : length accs = e ->
  forall (l : list (nat * Z)) (cur cur' : list poly) (Bc : Z), 0 <= Bc ->
  approxv e N M Bc cur cur' ->
  approxv e N M (Bc + 2 * B * Z.of_nat (length l))
    (fold_left (fun (cur : list poly) (q : nat * Z) =>
                  map2 padd cur (ext_contrib N (snd q) 1 (map (fun c => phase (extprod c (i + fst q))) accs))) l cur)
    (fold_left (fun (cur : list poly) (q : Z * Z) =>
                  if snd q =? 0 then cur else map2 padd cur (ext_contrib N (fst q) (snd q) (phases accs)))
               (map (fun q : nat * Z => (snd q, s (i + fst q))) l) cur').
Proof.
  intros Hl. destruct (phases_shape accs Hl) as [Hpl Hps].
  induction l as [|q l IH]; intros cur cur' Bc HBc Hcur; cbn [fold_left map length].
  - replace (Bc + 2 * B * Z.of_nat 0) with Bc by lia. exact Hcur.
  - cbn [fst snd].
    (* the products of this coefficient approximate s * phases *)
    assert (Hprod : approxv e N M B (map (fun c => phase (extprod c (i + fst q))) accs) (map (pscale (s (i + fst q))) (phases accs))).
    { split; [rewrite map_length; auto|]. split; [rewrite map_length; auto|].
      intros c Hc. unfold phases. rewrite map_map. unfold pnth.
      destruct (nth_map2_ex (fun c0 => phase (extprod c0 (i + fst q))) (fun c0 => pscale (s (i + fst q)) (phase c0)) accs c ltac:(lia)) as (x & Hx1 & Hx2).
      rewrite Hx1, Hx2. apply external_product_phase. }
    pose proof (approxv_ext_contrib e N M B (snd q) _ _ He HB Hprod) as Hcon. rewrite ext_contrib_scale in Hcon.
    replace (Bc + 2 * B * Z.of_nat (S (length l))) with ((Bc + 2 * B) + 2 * B * Z.of_nat (length l)) by lia.
    apply IH; [lia|].
    destruct (s_binary (i + fst q)) as [Hs|Hs]; rewrite Hs in *; cbn [Z.eqb].
    + apply approxv_padd_zero; [exact Hcur|].
      destruct Hcon as (Ha & Hb & Hc). split; [auto|]. split; [apply repeat_length|]. intros c Hcc.
      unfold pnth at 2. rewrite nth_repeat_g by auto.
      rewrite <- (ext_contrib_zero e N (snd q) (phases accs) c Hpl Hps Hcc). apply Hc; auto.
    + apply approxv_padd; [exact Hcur | exact Hcon].
Qed.

Lemma ext_block_phase (accs : list ct) (i : nat) (blk : list Z) : length accs = e -> at_most_one (eblk_pairs i blk) ->
  length (eblockupd accs i blk) = e /\
  approx (N * e) M (2 * B * Z.of_nat (length blk) + Bn)
    (zbig N (phases (eblockupd accs i blk))) (zrot (dotp (eblk_pairs i blk)) (zbig N (phases accs))).
Proof.
  intros Hl Hamo. destruct (phases_shape accs Hl) as [Hpl Hps].
  pose proof (ext_block_update_phase accs i blk Hl) as Hupd.
  split; [destruct Hupd as (H & _); unfold phases in H; rewrite map_length in H; exact H|].
  pose proof (target_fold accs i Hl (combine (seq 0 (length blk)) blk) (phases accs) (phases accs) 0 ltac:(lia)
                (approxv_refl e N M 0 _ Hpl Hps ltac:(lia))) as Hfold.
  fold (ext_target accs i blk) in Hfold. fold (eblk_pairs i blk) in Hfold.
  change (fold_left _ (eblk_pairs i blk) (phases accs)) with (ext_block_step N (eblk_pairs i blk) (phases accs)) in Hfold.
  rewrite combine_length, seq_length, Nat.min_id in Hfold.
  (* component-wise, then in the big ring *)
  assert (Hv : approxv e N M (Bn + (0 + 2 * B * Z.of_nat (length blk))) (phases (eblockupd accs i blk))
                 (ext_block_step N (eblk_pairs i blk) (phases accs))).
  { destruct Hupd as (Ha & Hb & Hc). destruct Hfold as (Ha' & Hb' & Hc').
    split; [auto|]. split; [auto|]. intros c Hcc. eapply approx_trans; [apply Hc | apply Hc']; auto. }
  pose proof (approxv_zbig e N M _ _ _ He Hv) as Hbig.
  destruct (ext_block_step_rot N (eblk_pairs i blk) (phases accs) HN ltac:(rewrite Hpl; auto) Hps Hamo) as (_ & _ & Hrot).
  rewrite Hrot in Hbig. eapply approx_weaken; [|exact Hbig]. lia.
Qed.

Theorem extended_phase (blks : list (list Z)) : forall (i : nat) (accs : list ct), length accs = e -> eblk_ok i blks ->
  approx (N * e) M (eblk_bound blks) (zbig N (phases (eblk_loop i blks accs))) (zrot (eblk_expo i blks) (zbig N (phases accs))).
Proof.
  induction blks as [|blk t IH]; intros i accs Hl Hok.
  - cbn [eblk_loop eblk_expo eblk_bound]. rewrite zrot_0. apply approx_refl; [|lia].
    rewrite zbig_length. destruct (phases_shape accs Hl) as [H _]. rewrite H. reflexivity.
  - destruct Hok as [Hamo Hrest]. cbn [eblk_loop eblk_expo eblk_bound].
    destruct (ext_block_phase accs i blk Hl Hamo) as [Hl1 H1].
    pose proof (approx_zrot (N * e) M _ (eblk_expo (i + length blk) t) _ _ H1) as H2. rewrite zrot_compose in H2.
    pose proof (approx_trans (N * e) M _ _ _ _ _ (IH (i + length blk)%nat (eblockupd accs i blk) Hl1 Hrest) H2) as H3.
    replace (dotp (eblk_pairs i blk) + eblk_expo (i + length blk) t) with (eblk_expo (i + length blk) t + dotp (eblk_pairs i blk)) by ring.
    eapply approx_weaken; [|exact H3]. lia.
Qed.

End Extended.

(* ================================================================== the hypotheses are satisfiable ===== *)
(* ciphertext = its own phase, cut or padded to N coefficients; products without noise *)
Definition toy_phase (N : nat) (c : poly) : poly := firstn N (c ++ zeros N).
Lemma toy_phase_length N c : length (toy_phase N c) = N.
Proof. unfold toy_phase. rewrite firstn_length, app_length, len_zeros. lia. Qed.
Lemma toy_phase_id N c : length c = N -> toy_phase N c = c.
Proof. intros H. unfold toy_phase. rewrite firstn_app, H, Nat.sub_diag. cbn [firstn]. rewrite app_nil_r. rewrite <- H. apply firstn_all. Qed.

Theorem standard_hypotheses_satisfiable (N : nat) (s : nat -> Z) :
  let phase := toy_phase N in
  let extprod := fun (acc : poly) (i : nat) => pscale (s i) (phase acc) in
  let mulxp := fun (a : Z) (c : poly) => xp_minus_one a (phase c) in
  let ctadd := fun (c d : poly) => padd (phase c) (phase d) in
  (forall c, length (phase c) = N) /\
  (forall acc i, approx N 0 0 (phase (extprod acc i)) (pscale (s i) (phase acc))) /\
  (forall a c, phase (mulxp a c) = xp_minus_one a (phase c)) /\
  (forall c d, phase (ctadd c d) = padd (phase c) (phase d)).
Proof.
  cbv zeta. split; [apply toy_phase_length|]. split; [|split].
  - intros acc i. rewrite toy_phase_id by (rewrite pscale_length; apply toy_phase_length).
    apply approx_refl; [rewrite pscale_length; apply toy_phase_length | lia].
  - intros a c. apply toy_phase_id. rewrite xp_minus_one_length. apply toy_phase_length.
  - intros c d. apply toy_phase_id. rewrite len_padd, !toy_phase_length. lia.
Qed.
