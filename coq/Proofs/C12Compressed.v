(* C12 - the seeded ("compressed") encryptions: the declared size suffices on ring degrees that are multiples of 8.
   Every statement mentions the GENERATED formulas. *)
From PV Require Import Base.MachineInt Model.C12Scratch Gen.C12TmpBytes_gen Model.C12Trees
  Proofs.C12Arena Proofs.C12Hal Proofs.C12Core Proofs.C12KeySwitch Proofs.C12More Proofs.C12Conv Proofs.C12KeyEnc.
Open Scope Z_scope.

Section Compressed.
  Variables fam n : Z.
  Hypothesis Hf : is_fam fam.
  Hypothesis Hn0 : 0 <= n.
  Hypothesis Hn8 : n mod 8 = 0.

  (* glwe_encrypt_sk_internal against the size of glwe_encrypt_sk, either flavour *)
  Lemma internal_le_enc_sk (res : infos) (flag : bool) : 0 <= i_size res ->
    aligned_tree (t_glwe_encrypt_sk_internal fam n (i_size res) (i_rank res + 1) flag) /\
    demand (t_glwe_encrypt_sk_internal fam n (i_size res) (i_rank res + 1) flag) <= glwe_encrypt_sk_tmp_bytes fam n res /\
    0 <= glwe_encrypt_sk_tmp_bytes fam n res.
  Proof using Hf Hn0 Hn8.
    intros Hs. destruct (enc_sk_internal_spec fam n Hf Hn0 Hn8 (i_size res) (i_rank res + 1) flag Hs) as [A D].
    pose proof (al_vec_znx fam n Hf Hn0 Hn8 1 (i_size res) ltac:(lia) Hs) as Hvz.
    pose proof (al_dft fam n Hf Hn0 Hn8 1 (i_size res) ltac:(lia) Hs) as Hdft.
    pose proof (nn_norm fam n Hf Hn0 Hn8). pose proof (nn_bnorm fam n Hf Hn0 Hn8).
    split; [exact A|]. unfold glwe_encrypt_sk_tmp_bytes. cbv zeta. destruct flag; lia.
  Qed.

  Lemma suffices_glwe_compressed_encrypt_sk (res : infos) : 0 <= i_size res ->
    run_takes (tree_glwe_compressed_encrypt_sk fam n res) (0, glwe_compressed_encrypt_sk_tmp_bytes fam n res) <> None.
  Proof using Hf Hn0 Hn8.
    intros Hs. destruct (internal_le_enc_sk res false Hs) as (A & D & N0).
    apply aligned_suffices; unfold tree_glwe_compressed_encrypt_sk, glwe_compressed_encrypt_sk_tmp_bytes; cbv zeta.
    - cbn [aligned_tree]. split; [lia | exact A].
    - cbn [demand persist]. lia.
  Qed.

  Lemma gglwe_compressed_spec (res : infos) : wf_infos res -> i_n res = n ->
    aligned_tree (tree_gglwe_compressed_encrypt_sk fam n res) /\
    demand (tree_gglwe_compressed_encrypt_sk fam n res) <= gglwe_compressed_encrypt_sk_tmp_bytes fam n res /\
    0 <= gglwe_compressed_encrypt_sk_tmp_bytes fam n res.
  Proof using Hf Hn0 Hn8.
    intros Hr Hn. assert (Hs : 0 <= i_size res) by (destruct Hr as (_&?&_); lia).
    destruct (internal_le_enc_sk res false Hs) as (A & D & N0). pose proof (aligned_need_nonneg _ A).
    destruct (callee_normalize fam n Hf Hn0 Hn8) as [An Dn]. pose proof (nn_norm fam n Hf Hn0 Hn8).
    pose proof (al_vec_znx fam n Hf Hn0 Hn8 1 (i_size res) ltac:(lia) Hs) as Hvz.
    unfold tree_gglwe_compressed_encrypt_sk, gglwe_compressed_encrypt_sk_tmp_bytes. cbv zeta.
    rewrite (plaintext_bytes_eq fam n Hf Hn0 Hn8 res Hr Hn). split; [|split].
    - cbn [aligned_tree]. unfold ALIGN. intuition; lia.
    - cbn [demand persist]. rewrite Dn. destruct_loops; lia.
    - lia.
  Qed.

  Lemma suffices_gglwe_compressed_encrypt_sk (res : infos) : wf_infos res -> i_n res = n ->
    run_takes (tree_gglwe_compressed_encrypt_sk fam n res) (0, gglwe_compressed_encrypt_sk_tmp_bytes fam n res) <> None.
  Proof using Hf Hn0 Hn8. intros Hr Hn. destruct (gglwe_compressed_spec res Hr Hn) as (A & D & _). apply aligned_suffices; auto. Qed.

  Lemma suffices_ggsw_compressed_encrypt_sk (res : infos) : wf_infos res -> i_n res = n ->
    run_takes (tree_ggsw_compressed_encrypt_sk fam n res) (0, ggsw_compressed_encrypt_sk_tmp_bytes fam n res) <> None.
  Proof using Hf Hn0 Hn8.
    intros Hr Hn. pose proof (suffices_ggsw_encrypt_sk fam n Hf Hn0 Hn8 res Hr Hn) as H.
    unfold tree_ggsw_compressed_encrypt_sk, ggsw_compressed_encrypt_sk_tmp_bytes. cbv zeta.
    unfold tree_ggsw_encrypt_sk in H.
    (* same takes; only the outer assertion names the compressed size query, which equals the plain one *)
    unfold run_takes in *. cbn [run_tree] in *. exact H.
  Qed.

  Lemma suffices_glwe_switching_key_compressed_encrypt_sk (res : infos) : wf_infos res -> i_n res = n ->
    run_takes (tree_glwe_switching_key_compressed_encrypt_sk fam n res)
              (0, glwe_switching_key_compressed_encrypt_sk_tmp_bytes fam n res) <> None.
  Proof using Hf Hn0 Hn8.
    intros Hr Hn. destruct (gglwe_compressed_spec res Hr Hn) as (A & D & N0). pose proof (aligned_need_nonneg _ A).
    pose proof (al_scalar_znx fam n Hf Hn0 Hn8 (i_rank_in res) ltac:(destruct Hr as (_&_&_&?&_); lia)).
    pose proof (al_scalar_znx fam n Hf Hn0 Hn8 1 ltac:(lia)).
    pose proof (al_svp fam n Hf Hn0 Hn8 (i_rank res) ltac:(destruct Hr as (_&_&?&_); lia)).
    apply aligned_suffices; unfold tree_glwe_switching_key_compressed_encrypt_sk, glwe_switching_key_compressed_encrypt_sk_tmp_bytes,
      glwe_secret_prepared_bytes_of; cbv zeta.
    - cbn [aligned_tree]. unfold ALIGN. intuition; lia.
    - cbn [demand persist]. lia.
  Qed.

  Lemma suffices_glwe_automorphism_key_compressed_encrypt_sk (res : infos) : wf_infos res -> i_n res = n ->
    run_takes (tree_glwe_automorphism_key_compressed_encrypt_sk fam n res)
              (0, glwe_automorphism_key_compressed_encrypt_sk_tmp_bytes fam n res) <> None.
  Proof using Hf Hn0 Hn8.
    intros Hr Hn. destruct (gglwe_compressed_spec res Hr Hn) as (A & D & N0). pose proof (aligned_need_nonneg _ A).
    pose proof (al_scalar_znx fam n Hf Hn0 Hn8 (i_rank res) ltac:(destruct Hr as (_&_&?&_); lia)).
    pose proof (al_svp fam n Hf Hn0 Hn8 (i_rank res) ltac:(destruct Hr as (_&_&?&_); lia)).
    apply aligned_suffices; unfold tree_glwe_automorphism_key_compressed_encrypt_sk, glwe_automorphism_key_compressed_encrypt_sk_tmp_bytes,
      glwe_secret_prepared_bytes_of_from_infos, glwe_secret_prepared_bytes_of, GLWESecret_bytes_of_from_infos, GLWESecret_bytes_of;
      cbv zeta; rewrite Hn.
    - cbn [aligned_tree]. unfold ALIGN. intuition; lia.
    - cbn [demand persist]. lia.
  Qed.

  Lemma suffices_glwe_tensor_key_compressed_encrypt_sk (res : infos) : wf_infos res -> i_n res = n ->
    run_takes (tree_glwe_tensor_key_compressed_encrypt_sk fam n res)
              (0, glwe_tensor_key_compressed_encrypt_sk_tmp_bytes fam n res) <> None.
  Proof using Hf Hn0 Hn8.
    intros Hr Hn. assert (Hrr : 0 <= i_rank res) by (destruct Hr as (_&_&?&_); lia).
    destruct (pairs_facts (i_rank res) Hrr) as [Hp1 Hp2].
    assert (Wt : wf_infos (tensor_key_layout res) /\ i_n (tensor_key_layout res) = n).
    { destruct Hr as (Hb & Hs & Hrk & Hri & Hdn & Hds). split; [|exact Hn].
      unfold wf_infos, tensor_key_layout, mk_gglwe_layout; cbn [i_base2k i_size i_rank i_rank_in i_dnum i_dsize].
      pose proof (div_ceil_nonneg (i_max_k res) (i_base2k res) ltac:(unfold i_max_k; nia) Hb). lia. }
    destruct Wt as [Wt Nt].
    destruct (gglwe_compressed_spec (tensor_key_layout res) Wt Nt) as (A & D & N0). pose proof (aligned_need_nonneg _ A).
    destruct (tensor_prepare_spec fam n Hf Hn0 Hn8 (i_rank res) Hrr) as (Ap & Dp & Np). pose proof (aligned_need_nonneg _ Ap).
    pose proof (al_svp fam n Hf Hn0 Hn8 (i_rank res) Hrr).
    pose proof (al_scalar_znx fam n Hf Hn0 Hn8 (GLWESecretTensor_pairs (i_rank res)) ltac:(lia)).
    pose proof (scalar_znx_mono fam n Hf Hn0 Hn8 _ _ Hp2).
    apply aligned_suffices; unfold tree_glwe_tensor_key_compressed_encrypt_sk, glwe_tensor_key_compressed_encrypt_sk_tmp_bytes,
      glwe_secret_prepared_bytes_of, GLWESecretTensor_bytes_of_from_infos, GLWESecretTensor_bytes_of; cbv zeta;
      fold (tensor_key_layout res); rewrite Hn.
    - cbn [aligned_tree]. unfold ALIGN. intuition; lia.
    - cbn [demand persist]. lia.
  Qed.

  Lemma suffices_gglwe_to_ggsw_key_compressed_encrypt_sk (res : infos) : wf_infos res -> i_n res = n ->
    run_takes (tree_gglwe_to_ggsw_key_compressed_encrypt_sk fam n res)
              (0, gglwe_to_ggsw_key_compressed_encrypt_sk_tmp_bytes fam n res) <> None.
  Proof using Hf Hn0 Hn8.
    intros Hr Hn. assert (Hrr : 0 <= i_rank res) by (destruct Hr as (_&_&?&_); lia).
    destruct (pairs_facts (i_rank res) Hrr) as [Hp1 Hp2].
    destruct (gglwe_compressed_spec res Hr Hn) as (A & D & N0). pose proof (aligned_need_nonneg _ A).
    destruct (tensor_prepare_spec fam n Hf Hn0 Hn8 (i_rank res) Hrr) as (Ap & Dp & Np). pose proof (aligned_need_nonneg _ Ap).
    pose proof (al_svp fam n Hf Hn0 Hn8 (i_rank res) Hrr).
    pose proof (al_scalar_znx fam n Hf Hn0 Hn8 (GLWESecretTensor_pairs (i_rank res)) ltac:(lia)).
    pose proof (al_scalar_znx fam n Hf Hn0 Hn8 (i_rank res) Hrr).
    pose proof (scalar_znx_mono fam n Hf Hn0 Hn8 _ _ Hp2).
    apply aligned_suffices; unfold tree_gglwe_to_ggsw_key_compressed_encrypt_sk, gglwe_to_ggsw_key_compressed_encrypt_sk_tmp_bytes,
      glwe_secret_prepared_bytes_of, GLWESecretTensor_bytes_of_from_infos, GLWESecretTensor_bytes_of, GLWESecret_bytes_of; cbv zeta; rewrite Hn.
    - cbn [aligned_tree]. unfold ALIGN. intuition; lia.
    - cbn [demand persist]. destruct_loops; lia.
  Qed.
End Compressed.
