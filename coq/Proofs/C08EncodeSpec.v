(* C08 encoding, level 0: balanced radix-2^b expansions as lists (pure arithmetic, no machine words).
     ldigs b n N   the n balanced digits of N, least significant first
     lvalr b l     value of a least-significant-first digit list
     glo / ghi     the smallest / largest value n balanced digits can represent *)
From PV Require Import Base.MachineInt Model.Znx Model.Limbs Model.C08Encode Proofs.ZnxDigit Proofs.C08Steps.
Open Scope Z_scope.

Fixpoint ldigs (b : Z) (n : nat) (N : Z) : list Z :=
  match n with O => [] | S m => wrap b N :: ldigs b m (bdiv b N) end.

Fixpoint lvalr (b : Z) (l : list Z) : Z :=
  match l with [] => 0 | x :: t => x + 2 ^ b * lvalr b t end.

Fixpoint bdivn (b : Z) (n : nat) (N : Z) : Z :=
  match n with O => N | S m => bdivn b m (bdiv b N) end.

(* 1 + 2^b + ... + 2^((n-1) b) *)
Fixpoint geom (b : Z) (n : nat) : Z := match n with O => 0 | S m => 1 + 2 ^ b * geom b m end.

Definition glo (b : Z) (n : nat) : Z := - 2 ^ (b - 1) * geom b n.
Definition ghi (b : Z) (n : nat) : Z := (2 ^ (b - 1) - 1) * geom b n.

Lemma pow_nb (b : Z) (n : nat) : 0 <= b -> 2 ^ (Z.of_nat (S n) * b) = 2 ^ b * 2 ^ (Z.of_nat n * b).
Proof. intros Hb. rewrite <- Z.pow_add_r by lia. f_equal. lia. Qed.

Lemma pow_nb_pos (b : Z) (n : nat) : 0 <= b -> 0 < 2 ^ (Z.of_nat n * b).
Proof. intros; apply pow2_pos; lia. Qed.

Lemma ldigs_length (b : Z) (n : nat) (N : Z) : length (ldigs b n N) = n.
Proof. revert N; induction n as [|n IH]; intros N; cbn [ldigs length]; auto. Qed.

Lemma ldigs_balanced (b : Z) (n : nat) (N : Z) : 1 <= b -> Forall (in_range b) (ldigs b n N).
Proof.
  intros Hb. revert N; induction n as [|n IH]; intros N; cbn [ldigs]; constructor; auto.
  apply wrap_range; auto.
Qed.

(* digits + dropped carry = the number *)
Lemma ldigs_value (b : Z) (n : nat) (N : Z) : 1 <= b ->
  lvalr b (ldigs b n N) + 2 ^ (Z.of_nat n * b) * bdivn b n N = N.
Proof.
  intros Hb. revert N; induction n as [|n IH]; intros N; cbn [ldigs lvalr bdivn].
  - change (Z.of_nat 0) with 0. rewrite Z.mul_0_l, Z.pow_0_r. lia.
  - rewrite pow_nb by lia. pose proof (wrap_bdiv b N Hb). specialize (IH (bdiv b N)). nia.
Qed.

(* the expansion only depends on N modulo 2^(n b) *)
Lemma ldigs_periodic (b : Z) (n : nat) (N t : Z) : 1 <= b ->
  ldigs b n (N + 2 ^ (Z.of_nat n * b) * t) = ldigs b n N.
Proof.
  intros Hb. revert N t; induction n as [|n IH]; intros N t; cbn [ldigs]; [reflexivity|].
  rewrite pow_nb by lia.
  replace (N + 2 ^ b * 2 ^ (Z.of_nat n * b) * t) with (N + 2 ^ b * (2 ^ (Z.of_nat n * b) * t)) by ring.
  rewrite wrap_add_mul, bdiv_add_mul by auto. rewrite IH. reflexivity.
Qed.

Lemma ldigs_congr (b : Z) (n : nat) (N M : Z) : 1 <= b ->
  (N - M) mod 2 ^ (Z.of_nat n * b) = 0 -> ldigs b n N = ldigs b n M.
Proof.
  intros Hb H. pose proof (pow_nb_pos b n ltac:(lia)) as Hp.
  apply Z.mod_divide in H; [|lia]. destruct H as [q Hq].
  replace N with (M + 2 ^ (Z.of_nat n * b) * q) by lia. apply ldigs_periodic; auto.
Qed.

(* ---------- the normalising chain over a list of un-normalised limbs ---------- *)

Fixpoint nchain (b : Z) (l : list Z) (c : Z) : list Z :=
  match l with [] => [] | x :: t => wrap b (x + c) :: nchain b t (bdiv b (x + c)) end.

Lemma nchain_ldigs (b : Z) (l : list Z) (c : Z) : 1 <= b ->
  nchain b l c = ldigs b (length l) (lvalr b l + c).
Proof.
  intros Hb. revert c; induction l as [|x t IH]; intros c; cbn [nchain ldigs lvalr length]; [reflexivity|].
  replace (x + 2 ^ b * lvalr b t + c) with (x + c + 2 ^ b * lvalr b t) by ring.
  rewrite wrap_add_mul, bdiv_add_mul by auto. rewrite IH. f_equal. f_equal. ring.
Qed.

(* ---------- range of n balanced digits ---------- *)

Lemma geom_closed (b : Z) (n : nat) : 0 <= b -> (2 ^ b - 1) * geom b n = 2 ^ (Z.of_nat n * b) - 1.
Proof.
  intros Hb. induction n as [|n IH]; cbn [geom].
  - change (Z.of_nat 0) with 0. rewrite Z.mul_0_l, Z.pow_0_r. lia.
  - rewrite pow_nb by lia. nia.
Qed.

Lemma geom_nonneg (b : Z) (n : nat) : 0 <= b -> 0 <= geom b n.
Proof. intros Hb. induction n as [|n IH]; cbn [geom]; [lia|]. pose proof (pow2_pos b Hb). nia. Qed.

Lemma geom_ge_pow (b : Z) (n : nat) : 0 <= b -> 2 ^ (Z.of_nat n * b) <= geom b (S n).
Proof.
  intros Hb. induction n as [|n IH].
  - cbn [geom]. change (Z.of_nat 0) with 0. rewrite Z.mul_0_l, Z.pow_0_r, Z.mul_0_r. lia.
  - change (geom b (S (S n))) with (1 + 2 ^ b * geom b (S n)). rewrite pow_nb by lia.
    pose proof (pow2_pos b Hb). nia.
Qed.

Lemma ghi_glo (b : Z) (n : nat) : 1 <= b -> ghi b n - glo b n = 2 ^ (Z.of_nat n * b) - 1.
Proof.
  intros Hb. unfold ghi, glo. pose proof (geom_closed b n ltac:(lia)). pose proof (pow2_split b Hb). nia.
Qed.

Lemma glo_S (b : Z) (n : nat) : glo b (S n) = - 2 ^ (b - 1) + 2 ^ b * glo b n.
Proof. unfold glo. cbn [geom]. ring. Qed.
Lemma ghi_S (b : Z) (n : nat) : ghi b (S n) = (2 ^ (b - 1) - 1) + 2 ^ b * ghi b n.
Proof. unfold ghi. cbn [geom]. ring. Qed.

Lemma lvalr_range (b : Z) (l : list Z) : 1 <= b -> Forall (in_range b) l ->
  glo b (length l) <= lvalr b l <= ghi b (length l).
Proof.
  intros Hb H. induction H as [|x t [Hx1 Hx2] Ht IH]; cbn [lvalr length].
  - unfold glo, ghi. cbn [geom]. lia.
  - rewrite glo_S, ghi_S. pose proof (pow2_pos b ltac:(lia)). nia.
Qed.

(* a number inside the range is its own expansion: the dropped carry is zero *)
Lemma fits_bdivn (b : Z) (n : nat) (N : Z) : 1 <= b -> glo b n <= N <= ghi b n -> bdivn b n N = 0.
Proof.
  intros Hb. revert N; induction n as [|n IH]; intros N HN; cbn [bdivn].
  - unfold glo, ghi in HN. cbn [geom] in HN. lia.
  - apply IH. rewrite glo_S, ghi_S in HN.
    pose proof (wrap_bdiv b N Hb) as Hd. pose proof (wrap_range b N Hb) as [Hw1 Hw2].
    pose proof (pow2_pos b ltac:(lia)) as Hp. pose proof (pow2_split b Hb) as Hs.
    split; nia.
Qed.

Lemma fits_exact (b : Z) (n : nat) (N : Z) : 1 <= b -> glo b n <= N <= ghi b n -> lvalr b (ldigs b n N) = N.
Proof.
  intros Hb HN. pose proof (ldigs_value b n N Hb) as H. rewrite fits_bdivn in H by auto. lia.
Qed.

(* for b >= 2 a third of the full range lies on each side of zero *)
Lemma geom_third (b : Z) (n : nat) : 2 <= b -> 2 ^ (Z.of_nat n * b) - 1 <= 3 * ghi b n.
Proof.
  intros Hb. unfold ghi. pose proof (geom_closed b n ltac:(lia)) as Hc.
  pose proof (geom_nonneg b n ltac:(lia)) as Hg. pose proof (pow2_split b ltac:(lia)) as Hs.
  assert (2 <= 2 ^ (b - 1)).
  { replace 2 with (2 ^ 1) at 1 by reflexivity. apply Z.pow_le_mono_r; lia. }
  nia.
Qed.

Lemma glo_third (b : Z) (n : nat) : 1 <= b -> 3 * glo b n <= - (2 ^ (Z.of_nat n * b) - 1).
Proof.
  intros Hb. unfold glo. pose proof (geom_closed b n ltac:(lia)) as Hc.
  pose proof (geom_nonneg b n ltac:(lia)) as Hg. pose proof (pow2_split b ltac:(lia)) as Hs.
  pose proof (pow2_pos (b - 1) ltac:(lia)). nia.
Qed.

(* ---------- most-significant-first lists (the layout of a coefficient's limbs) ---------- *)

Lemma lval_app1 (b : Z) (l : list Z) (x : Z) : e_lval b (l ++ [x]) = e_lval b l * 2 ^ b + x.
Proof. unfold e_lval. rewrite fold_left_app. reflexivity. Qed.

Lemma lval_rev (b : Z) (l : list Z) : e_lval b (rev l) = lvalr b l.
Proof.
  induction l as [|x t IH]; [reflexivity|]. cbn [rev lvalr]. rewrite lval_app1, IH. ring.
Qed.

Lemma lvalr_repeat (b x : Z) (n : nat) : lvalr b (repeat x n) = x * geom b n.
Proof. induction n as [|n IH]; cbn [repeat lvalr geom]; [ring|]. rewrite IH. ring. Qed.

Lemma rev_repeat {A} (x : A) (n : nat) : rev (repeat x n) = repeat x n.
Proof.
  induction n as [|n IH]; [reflexivity|]. cbn [repeat rev]. rewrite IH.
  clear IH. induction n as [|n IH]; [reflexivity|]. cbn [repeat app]. f_equal. exact IH.
Qed.

Lemma lval_repeat (b x : Z) (n : nat) : e_lval b (repeat x n) = x * geom b n.
Proof. rewrite <- (rev_repeat x n), lval_rev. apply lvalr_repeat. Qed.

Lemma lvalr_zeros (b : Z) (n : nat) : lvalr b (zeros n) = 0.
Proof. unfold zeros. rewrite lvalr_repeat. ring. Qed.

Lemma lvalr_scale (b s : Z) (l : list Z) : lvalr b (map (fun x => x * s) l) = lvalr b l * s.
Proof. induction l as [|x t IH]; cbn [map lvalr]; [ring|]. rewrite IH. ring. Qed.

Lemma Forall_rev {A} (P : A -> Prop) (l : list A) : Forall P l -> Forall P (rev l).
Proof.
  intros H. apply Forall_forall. intros x Hx. apply in_rev in Hx.
  rewrite Forall_forall in H. auto.
Qed.
