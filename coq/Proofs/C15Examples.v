(* C15 — the hypotheses of C15_word_op_correct and C15_circuit_bootstrap_cells are satisfiable: the noise-free ideal
   scheme (a ciphertext IS its ideal plaintext, a GGSW IS its bit / its rows) satisfies every one of them, and the
   theorems then apply to concrete words. *)
From Coq Require Import ZArith List Bool Lia.
From PV Require Import Gen.C15_gen Model.C13Bdd Model.C15Uint Model.C15Cbt Model.C15Word
  Proofs.C13Circuits Proofs.C15Layout Proofs.C15Surgery Proofs.C15WordProof Proofs.C15CbtProof.
Import ListNotations.
Open Scope Z_scope.

Section IdealWord.
  Variable logn : Z.
  Hypothesis Hlogn : 5 <= logn.
  Let T := std_wty 2.
  Definition i_cmux (t f : poly) (s : bool) : poly := if s then t else f.
  Definition i_get_lwe (c : poly) (i : Z) : Z := get_bit_lwe T logn i c.
  Definition i_cbt (l : Z) : bool := l =? 1.
  Definition i_pack (cts : list poly) : poly := match pack T logn cts with Some q => q | None => p_zero end.
  Definition always {X} (_ : X) : Prop := True.

  Lemma Forall2_eq {A} (l l' : list A) : Forall2 eq l l' -> l = l'.
  Proof. induction 1; subst; auto. Qed.
  Lemma Forall_always {X} (l : list X) : Forall always l.
  Proof. apply Forall_forall. intros; exact I. Qed.

  (* the seven named hypotheses of C15_word_op_correct hold for the ideal scheme *)
  Lemma ideal_word_hyps :
    (forall t f s (bt bf b : bool),
       t = p_const (if bt then 1 else 0) -> f = p_const (if bf then 1 else 0) -> s = b -> always (i_cmux t f s) ->
       i_cmux t f s = p_const (if (if b then bt else bf) then 1 else 0)) /\
    (forall c q i, c = q -> 0 <= i < 32 -> always (i_get_lwe c i) -> i_get_lwe c i = get_bit_lwe T logn i q) /\
    (forall l m b, l = m -> cb_bit m = Some b -> always (i_cbt l) -> i_cbt l = b) /\
    (forall cts qs q, Forall2 eq cts qs -> pack T logn qs = Some q -> always (i_pack cts) -> i_pack cts = q) /\
    (forall c q, c = q -> always c -> p_dec T logn c = p_dec T logn q).
  Proof.
    repeat split.
    - intros t f s bt bf b -> -> -> _. destruct b; reflexivity.
    - intros c q i -> _ _. reflexivity.
    - intros l m b -> Hb _. unfold cb_bit, i_cbt in *.
      destruct (Z.eqb_spec m 0) as [->|]; [injection Hb as <-; reflexivity|].
      destruct (Z.eqb_spec m 1); [injection Hb as <-; reflexivity | discriminate].
    - intros cts qs q H Hp _. apply Forall2_eq in H. subst. unfold i_pack. now rewrite Hp.
    - intros c q -> _. reflexivity.
  Qed.

  (* hence the ideal pipeline computes every word operation on every pair of words *)
  Lemma ideal_word_op (o : wop) (a b : Z) : 0 <= a < 2 ^ 32 -> 0 <= b < 2 ^ 32 ->
    p_dec T logn (fst (hop2 poly bool i_cmux (p_const 0) (p_const 1) Z i_get_lwe i_cbt i_pack (wop_circ o)
                         (p_enc T logn a) (p_enc T logn b))) = wop_fun o a b.
  Proof.
    intros Ha Hb. destruct ideal_word_hyps as (H1 & H2 & H3 & H4 & H5).
    apply (word_op_correct poly bool Z i_cmux (p_const 0) (p_const 1) i_get_lwe i_cbt i_pack (p_dec T logn) logn Hlogn
             eq eq eq always always always eq_refl eq_refl H1 H2 H3 H4 H5 o a b); auto.
    - intros i Hi; split; exact I.
    - intros i Hi; split; exact I.
    - apply Forall_always.
    - exact I.
  Qed.
End IdealWord.

Section IdealCbt.
  Variables (logn base2k dnum rank bb : Z) (expo : bool) (ld lgo : Z).
  Hypothesis Hdnum : 0 <= dnum.
  Let n := 2 ^ logn.
  Definition j_blind_rotate (m : Z) : poly := br_acc logn base2k dnum bb expo ld m.
  Definition j_post (c : poly) : poly := match post_process logn dnum ld lgo c with Some q => q | None => p_zero end.
  Definition j_expand (rows : list poly) : list poly := rows.
  Definition j_cell (g : list poly) (row col : Z) (mp : poly) : Prop :=
    exists c, nth_error g (Z.to_nat row) = Some c /\ forall j, 0 <= j < n -> row_decoded base2k dnum bb row c j = mp j.

  Lemma ideal_cbt_cells m : 0 <= m < 2 ^ ld -> cbt_rows_ok logn base2k dnum bb expo ld lgo m = true ->
    forall row col, 0 <= row < dnum -> 0 <= col <= rank ->
      j_cell (cbt_ct Z poly (list poly) j_blind_rotate (p_rot n) (p_trace n) j_post j_expand logn dnum expo ld m)
             row col (cand logn expo lgo m).
  Proof.
    intros Hm Hok.
    apply (circuit_bootstrap_cells Z poly (list poly) j_blind_rotate (p_rot n) (p_trace n) j_post j_expand
             logn base2k dnum rank bb expo ld lgo Hdnum eq eq j_cell always always); auto.
    - intros l m' -> _ _. reflexivity.
    - intros k c q ->. reflexivity.
    - intros skip c q -> _. reflexivity.
    - intros c q q' -> Hp _. unfold j_post. now rewrite Hp.
    - intros rows mp _ H _ row col Hrow _. destruct (H row Hrow) as (c & q & E & -> & Hq). exists q; auto.
    - repeat split; try exact I. apply Forall_always.
  Qed.
End IdealCbt.
