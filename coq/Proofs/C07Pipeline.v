(* C07 part B: the scalar pipeline  i64 -> q120b,  i64 -> q120c,  one-term bbc product  is exact modulo each prime;
   together with b_to_znx128_exact this gives the exact integer product whenever 2|a*b| < Q. *)
From PV Require Import Base.MachineInt Model.C07Ntt120 Proofs.C07Ntt Proofs.C07Lazy Proofs.C07LazyBbb.
Open Scope Z_scope.

Theorem scalar_product_residue : forall h q a b,
  bbc_h_lo <= h < bbc_h_hi -> 2 ^ 15 <= q < 2 ^ 31 -> in_range 64 a ->
  let x := b_from_znx64_k q a in
  let r := nth 0 (c_from_znx64_k q b) 0 in let r' := nth 1 (c_from_znx64_k q b) 0 in
  bbc_k h q [(x mod 2 ^ 32, x / 2 ^ 32, (r, r'))] mod q = (a * b) mod q.
Proof.
  intros h q a b Hh Hq Ha. cbv zeta.
  assert (Hq32 : 0 < q < 2 ^ 32) by (change (2 ^ 15) with 32768 in Hq; change (2 ^ 31) with 2147483648 in Hq; change (2 ^ 32) with 4294967296; lia).
  destruct (b_from_znx64_congr a Ha q Hq32) as [Hx Hxr].
  destruct (c_from_znx64_correct q b Hq32) as (r & r' & Hc & Hr & Hr' & Er & Er').
  rewrite Hc. cbn [nth].
  set (x := b_from_znx64_k q a) in *.
  destruct (halves x Hxr) as (Xl & Xh & Ex).
  assert (Hok : forall t, In t [(x mod 2 ^ 32, x / 2 ^ 32, (r, r'))] -> term_ok t).
  { intros t [<-|[]]. cbn [term_ok]. unfold is_u32 in *. change (2 ^ 32) with 4294967296 in *. repeat split; lia. }
  assert (Hprep : forall t, In t [(x mod 2 ^ 32, x / 2 ^ 32, (r, r'))] -> prepared q t).
  { intros t [<-|[]]. cbn [prepared]. rewrite Er', <- (Z.mul_mod_idemp_l r), Er, Z.mul_mod_idemp_l by lia. reflexivity. }
  rewrite (bbc_congr h q _ Hh Hq) by (try assumption; cbn [length]; unfold bbc_max_ell; lia).
  cbn [map lsum dot_z]. rewrite Z.add_0_r, Ex.
  rewrite Z.mul_mod, Hx, Er, <- Z.mul_mod by lia. reflexivity.
Qed.
