(* C12 - LWE <-> GLWE conversions, lwe_keyswitch and glwe_pack: the declared size suffices (under the stated side conditions),
   and the two under-estimates found on exact windows (glwe_from_lwe with an LWE more precise than the result, glwe_pack with
   inputs larger than the result) as refuted statements.  Every statement mentions the GENERATED formulas. *)
From PV Require Import Base.MachineInt Model.C12Scratch Gen.C12TmpBytes_gen Model.C12Trees
  Proofs.C12Arena Proofs.C12Hal Proofs.C12Core Proofs.C12KeySwitch Proofs.C12More.
Open Scope Z_scope.

Lemma div_ceil_mono (a a' b : Z) : 1 <= b -> a' <= a -> div_ceil a' b <= div_ceil a b.
Proof. intros. unfold div_ceil. apply Z.div_le_mono; lia. Qed.

Lemma glwe_bytes_eq (l : infos) : wf_infos l ->
GLWE_bytes_of_from_infos l = VecZnx_bytes_of (i_n l) (i_rank l + 1) (i_size l).
Proof. intros (Hb & Hs & _). unfold GLWE_bytes_of_from_infos, GLWE_bytes_of, i_max_k. f_equal. apply div_ceil_mul; lia. Qed.

Section Conv.
  Variables fam n : Z.
  Hypothesis Hf : is_fam fam.
  Hypothesis Hn0 : 0 <= n.
  Hypothesis Hn8 : n mod 8 = 0.

  (* ---------------------------------------------------------------------------------------------- *)
  (* monotonicity of the key-switch size queries in the number of limbs / columns of the input *)
  Lemma dft_mono2 (c c' s s' : Z) : 0 <= c' <= c -> 0 <= s' <= s ->
    hal_bytes_of_vec_znx_dft fam n c' s' <= hal_bytes_of_vec_znx_dft fam n c s.
  Proof using Hf Hn0 Hn8.
    intros Hc Hs. autounfold with c12gen.
    assert (n * c' * s' <= n * c * s).
    { apply Z.mul_le_mono_nonneg; [nn | apply Z.mul_le_mono_nonneg_l; lia | lia | lia]. }
    destruct Hf as [-> | ->]; cbn [Z.eqb]; lia.
  Qed.

  Lemma vec_znx_mono (c s s' : Z) : 0 <= c -> s' <= s -> VecZnx_bytes_of n c s' <= VecZnx_bytes_of n c s.
  Proof using Hf Hn0 Hn8.
    intros. unfold VecZnx_bytes_of. assert (n * c * s' <= n * c * s) by (apply Z.mul_le_mono_nonneg_l; [nn|lia]). lia.
  Qed.

  Lemma product_mono (rs rs' s s' : Z) (key : infos) : wf_infos key -> 0 <= s' <= s ->
    gglwe_product_dft_tmp_bytes fam n rs' s' key <= gglwe_product_dft_tmp_bytes fam n rs s key.
  Proof using Hf Hn0 Hn8.
    intros (Hb & Hsz & Hr & Hri & Hdn & Hds) Hs.
    unfold gglwe_product_dft_tmp_bytes. cbv zeta.
    destruct (Z.eqb_spec (i_dsize key) 1) as [E|E].
    - rewrite (vmp_bytes_res_indep fam n Hf Hn0 Hn8 rs' rs). apply vmp_bytes_mono; auto; lia.
    - pose proof (div_ceil_mono s s' (i_dsize key) Hds ltac:(lia)) as Hd.
      pose proof (div_ceil_nonneg s' (i_dsize key) ltac:(lia) Hds) as Hd0.
      set (x' := Z.min (div_ceil s' (i_dsize key)) (i_dnum key)). set (x := Z.min (div_ceil s (i_dsize key)) (i_dnum key)).
      assert (Hx : 0 <= x' <= x) by (unfold x, x'; lia).
      pose proof (dft_mono fam n Hf Hn0 Hn8 (i_rank_in key) x x' Hri ltac:(lia)).
      rewrite (vmp_bytes_res_indep fam n Hf Hn0 Hn8 rs' rs).
      pose proof (vmp_bytes_mono fam n rs x x' (i_dnum key) (i_rank_in key) (i_rank key + 1) (i_size key) Hf ltac:(lia) Hri). lia.
  Qed.

  Lemma ks_internal_mono (r r' a a' key : infos) : wf_infos key ->
    0 <= i_rank a' <= i_rank a -> 0 <= i_size a' <= i_size a ->
    glwe_keyswitch_internal_tmp_bytes fam n r' a' key <= glwe_keyswitch_internal_tmp_bytes fam n r a key.
  Proof using Hf Hn0 Hn8.
    intros Hk Hr Hs. unfold glwe_keyswitch_internal_tmp_bytes. cbv zeta.
    pose proof (product_mono (i_size r) (i_size r') (i_size a) (i_size a') key Hk Hs).
    pose proof (dft_mono2 (i_rank a + 1 - 1) (i_rank a' + 1 - 1) (i_size a) (i_size a') ltac:(lia) Hs). lia.
  Qed.

  Lemma nn_ks_internal (r a key : infos) : wf_infos key -> 0 <= i_size a -> 0 <= i_rank a ->
    0 <= glwe_keyswitch_internal_tmp_bytes fam n r a key.
  Proof using Hf Hn0 Hn8.
    intros Hk Hs Hr. pose proof (ks_internal_lower fam n Hf Hn0 Hn8 r a key Hk Hs Hr).
    pose proof (al_dft fam n Hf Hn0 Hn8 (i_rank a) (i_size a) Hr Hs). lia.
  Qed.

  (* same radix on both sides, fewer limbs: the declared size shrinks (the result enters only through its rank) *)
  Lemma ks_tmp_mono (res res' a a' key : infos) : wf_infos key -> wf_infos a -> wf_infos a' ->
    i_rank res' = i_rank res -> i_n a = n -> i_n a' = n -> i_base2k a' = i_base2k a -> i_rank a' = i_rank a -> i_size a' <= i_size a ->
    glwe_keyswitch_tmp_bytes fam n res' a' key <= glwe_keyswitch_tmp_bytes fam n res a key.
  Proof using Hf Hn0 Hn8.
    intros Hk Ha Ha' Hrr Hn Hn' Hb Hr Hs.
    destruct Ha as (Hab & Has & Har & _). destruct Ha' as (Hab' & Has' & Har' & _).
    assert (Hkb : 1 <= i_base2k key) by (destruct Hk; lia).
    unfold glwe_keyswitch_tmp_bytes. cbv zeta. rewrite Hrr, Hb.
    destruct (negb (i_base2k a =? i_base2k key)).
    - set (c := mk_glwe_layout (i_n a) (i_base2k key) (i_max_k a) (i_rank a)).
      set (c' := mk_glwe_layout (i_n a') (i_base2k key) (i_max_k a') (i_rank a')).
      assert (Hcs : 0 <= i_size c' <= i_size c).
      { unfold c, c', mk_glwe_layout, i_max_k; cbn [i_size]. rewrite Hb. split.
        - apply div_ceil_nonneg; [nia|lia].
        - apply div_ceil_mono; [lia|]. apply Z.mul_le_mono_nonneg_r; lia. }
      assert (Hcr : i_rank c' = i_rank c) by (unfold c, c'; cbn [mk_glwe_layout i_rank]; lia).
      pose proof (ks_internal_mono res res' c c' key Hk ltac:(rewrite Hcr; unfold c; cbn [mk_glwe_layout i_rank]; lia) Hcs).
      assert (GLWE_bytes_of_from_infos c' <= GLWE_bytes_of_from_infos c).
      { unfold GLWE_bytes_of_from_infos, GLWE_bytes_of. rewrite Hcr.
        replace (i_n c') with n by (unfold c'; cbn [mk_glwe_layout i_n]; lia).
        replace (i_n c) with n by (unfold c; cbn [mk_glwe_layout i_n]; lia).
        replace (i_base2k c') with (i_base2k c) by reflexivity.
        assert (E : forall x, i_base2k x = i_base2k key -> 0 <= i_size x -> div_ceil (i_max_k x) (i_base2k x) = i_size x)
          by (intros x Hx Hx0; unfold i_max_k; apply div_ceil_mul; lia).
        rewrite (E c eq_refl ltac:(lia)). replace (i_base2k c) with (i_base2k c') by reflexivity.
        rewrite (E c' eq_refl ltac:(lia)).
        apply vec_znx_mono; [unfold c; cbn [mk_glwe_layout i_rank]; lia | lia]. }
      lia.
    - pose proof (ks_internal_mono res res' a a' key Hk ltac:(lia) ltac:(lia)). lia.
  Qed.
  (* a' already has the radix of the key: the declared size is at most the one of any a with at least as many columns whose
     precision, counted in limbs of the key's radix, is at least the one of a' *)
  Lemma ks_tmp_key_radix_le (res a a' key : infos) : wf_infos key -> wf_infos a -> wf_infos a' -> i_n a = n ->
    i_base2k a' = i_base2k key -> i_rank a' <= i_rank a -> i_size a' <= div_ceil (i_max_k a) (i_base2k key) ->
    glwe_keyswitch_tmp_bytes fam n res a' key <= glwe_keyswitch_tmp_bytes fam n res a key.
  Proof using Hf Hn0 Hn8.
    intros Hk Ha Ha' Hn Hb Hr Hs.
    destruct Ha as (Hab & Has & Har & _). destruct Ha' as (Hab' & Has' & Har' & _).
    assert (Hkb : 1 <= i_base2k key) by (destruct Hk; lia).
    unfold glwe_keyswitch_tmp_bytes. cbv zeta. rewrite Hb, Z.eqb_refl. cbn [negb].
    destruct (Z.eqb_spec (i_base2k a) (i_base2k key)) as [E|E]; cbn [negb].
    - assert (div_ceil (i_max_k a) (i_base2k key) = i_size a) by (unfold i_max_k; rewrite <- E; apply div_ceil_mul; lia).
      pose proof (ks_internal_mono res res a a' key Hk ltac:(lia) ltac:(lia)). lia.
    - set (c := mk_glwe_layout (i_n a) (i_base2k key) (i_max_k a) (i_rank a)).
      pose proof (ks_internal_mono res res c a' key Hk ltac:(unfold c, mk_glwe_layout; cbn [i_rank]; lia)
                    ltac:(unfold c, mk_glwe_layout; cbn [i_size]; lia)).
      assert (Hcs : 0 <= i_size c).
      { unfold c, mk_glwe_layout; cbn [i_size]. apply div_ceil_nonneg; [unfold i_max_k; nia | lia]. }
      assert (Wc : wf_infos c).
      { unfold wf_infos. unfold c at 1 3 4 5 6, mk_glwe_layout; cbn [i_base2k i_rank i_rank_in i_dnum i_dsize]. lia. }
      assert (0 <= GLWE_bytes_of_from_infos c).
      { rewrite (glwe_bytes_eq c Wc). change (i_n c) with (i_n a). change (i_rank c) with (i_rank a). rewrite Hn.
        apply (al_vec_znx fam n Hf Hn0 Hn8); lia. }
      lia.
  Qed.

  Lemma glwe1_facts (b2k k : Z) : 1 <= b2k -> 0 <= k ->
    let t := glwe1 n b2k k in
    wf_infos t /\ i_n t = n /\ i_rank t = 1 /\ i_base2k t = b2k /\ i_size t = div_ceil k b2k /\
    0 <= VecZnx_bytes_of (i_n t) (i_rank t + 1) (i_size t) /\ VecZnx_bytes_of (i_n t) (i_rank t + 1) (i_size t) mod 64 = 0.
  Proof using Hf Hn0 Hn8.
    intros Hb Hk t. pose proof (div_ceil_nonneg k b2k Hk Hb) as Hs.
    split; [unfold wf_infos, t, glwe1, mk_glwe_layout; cbn [i_base2k i_size i_rank i_rank_in i_dnum i_dsize]; lia|].
    repeat (split; [reflexivity|]).
    unfold t, glwe1, mk_glwe_layout; cbn [i_n i_rank i_size]. apply (al_vec_znx fam n Hf Hn0 Hn8); lia.
  Qed.

  (* ---------------------------------------------------------------------------------------------- *)
  (* the building blocks in (aligned, demand) form *)
  Lemma rotate_assign_spec (res : infos) :
    aligned_tree (tree_glwe_rotate_assign fam n res) /\ demand (tree_glwe_rotate_assign fam n res) <= glwe_rotate_tmp_bytes fam n.
  Proof using Hf Hn0 Hn8.
    destruct (callee_rotate_assign fam n Hf Hn0 Hn8) as [Ar Dr]. pose proof (aligned_need_nonneg _ Ar).
    unfold tree_glwe_rotate_assign, glwe_rotate_tmp_bytes. rewrite Dr in *. split.
    - cbn [aligned_tree]. split; [lia | exact Ar].
    - cbn [demand persist]. rewrite Dr. destruct_loops; lia.
  Qed.

  Lemma automorphism_spec (res a key : infos) :
    wf_infos res -> wf_infos a -> wf_infos key -> i_n a = n -> i_rank a = i_rank_in key ->
    aligned_tree (tree_glwe_automorphism fam n res a key) /\
    demand (tree_glwe_automorphism fam n res a key) <= glwe_automorphism_tmp_bytes fam n res a key.
  Proof using Hf Hn0 Hn8.
    intros. destruct (keyswitch_spec fam n Hf Hn0 Hn8 res a key) as (A & D & N0); auto.
    destruct (callee_automorphism_assign fam n Hf Hn0 Hn8) as [Aa Da].
    pose proof (aligned_need_nonneg _ Aa).
    unfold tree_glwe_automorphism, glwe_automorphism_tmp_bytes; cbv zeta. split.
    - cbn [aligned_tree]. intuition; lia.
    - cbn [demand persist]. rewrite Da in *. destruct_loops; lia.
  Qed.

  Lemma trace_spec (res a key : infos) (steps : Z) :
    wf_infos res -> wf_infos a -> wf_infos key -> i_n res = n -> i_rank res = i_rank_in key ->
    aligned_tree (tree_glwe_trace fam n res a key steps) /\
    demand (tree_glwe_trace fam n res a key steps) <= glwe_trace_tmp_bytes fam n res a key.
  Proof using Hf Hn0 Hn8.
    intros Hres Ha Hk Hn Hrk.
    assert (Hmk : 0 <= Z.max (i_max_k a) (i_max_k res)).
    { destruct Hres as (?&?&_). unfold i_max_k. assert (0 <= i_size res * i_base2k res) by nia. lia. }
    assert (Hrr : 0 <= i_rank res) by (destruct Hres as (_&_&?&_); lia).
    destruct (key_radix_layout_facts fam n Hf Hn0 Hn8 (i_n res) (Z.max (i_max_k a) (i_max_k res)) (i_rank res) key Hk Hn Hmk Hrr)
      as (Wt & Nt & Rt & Bt & Hcb & Hc0 & Hc64).
    fold (tmp_layout res a key) in *.
    destruct (trace_assign_same_spec fam n Hf Hn0 Hn8 (tmp_layout res a key) key steps Wt Hk Nt ltac:(lia)) as (As & Ds & S0).
    destruct (glwe_normalize_spec fam n Hf Hn0 Hn8 (i_rank res + 1)) as [Agn Dgn].
    pose proof (aligned_need_nonneg _ Agn).
    unfold tree_glwe_trace, glwe_trace_tmp_bytes, t_take_glwe; cbv zeta; fold (tmp_layout res a key); rewrite Hcb. split.
    - destruct (negb (i_base2k a =? i_base2k key)); destruct (negb (i_base2k res =? i_base2k key));
        cbn [aligned_tree]; unfold ALIGN; intuition; lia.
    - destruct (negb (i_base2k a =? i_base2k key)); destruct (negb (i_base2k res =? i_base2k key));
        cbn [demand persist]; lia.
  Qed.

  (* ---------------------------------------------------------------------------------------------- *)
  (* lwe_from_glwe (both branches: a_idx = 0 and a_idx > 0) *)
  Lemma suffices_lwe_from_glwe (lwe a key : infos) :
    wf_infos lwe -> wf_infos a -> wf_infos key -> i_n a = n -> i_rank a = i_rank_in key ->
    run_takes (tree_lwe_from_glwe fam n lwe a key) (0, lwe_from_glwe_tmp_bytes fam n lwe a key) <> None.
  Proof using Hf Hn0 Hn8.
    intros Hl Ha Hk Hn Hrk.
    assert (Hlb : 1 <= i_base2k lwe) by (destruct Hl; lia).
    assert (Hmk : 0 <= i_max_k lwe) by (destruct Hl as (?&?&_); unfold i_max_k; nia).
    destruct (glwe1_facts (i_base2k lwe) (i_max_k lwe) Hlb Hmk) as (Wt & Nt & Rt & Bt & St & T0 & T64).
    set (t := glwe1 n (i_base2k lwe) (i_max_k lwe)) in *.
    destruct (keyswitch_spec fam n Hf Hn0 Hn8 t a key Wt Ha Hk Hn Hrk) as (A & D & N0).
    pose proof (aligned_need_nonneg _ A).
    pose proof (glwe_bytes_eq a Ha) as Eb.
    destruct (al_vec_znx fam n Hf Hn0 Hn8 (i_rank a + 1) (i_size a)) as [A0 A64]; [destruct Ha as (_&_&?&_); lia | destruct Ha as (_&?&_); lia |].
    apply aligned_suffices; unfold tree_lwe_from_glwe, lwe_from_glwe_tmp_bytes, t_take_glwe; cbv zeta; fold t; rewrite Eb, Hn in *.
    - cbn [aligned_tree]. unfold ALIGN. intuition; lia.
    - cbn [demand persist]. unfold GLWE_bytes_of. rewrite Nt, Rt, St in *. fold (glwe1 n (i_base2k lwe) (i_max_k lwe)). fold t. lia.
  Qed.

  (* lwe_keyswitch: the two rank-1 containers are sized for the larger precision, the calls use the actual ones *)
  Lemma suffices_lwe_keyswitch (res a key : infos) :
    wf_infos res -> wf_infos a -> wf_infos key -> i_rank_in key = 1 ->
    run_takes (tree_lwe_keyswitch fam n res a key) (0, lwe_keyswitch_tmp_bytes fam n res a key) <> None.
  Proof using Hf Hn0 Hn8.
    intros Hr Ha Hk Hrk.
    assert (Hrb : 1 <= i_base2k res) by (destruct Hr; lia). assert (Hab : 1 <= i_base2k a) by (destruct Ha; lia).
    assert (Hmr : 0 <= i_max_k res) by (destruct Hr as (?&?&_); unfold i_max_k; nia).
    assert (Hma : 0 <= i_max_k a) by (destruct Ha as (?&?&_); unfold i_max_k; nia).
    set (mk := Z.max (i_max_k a) (i_max_k res)).
    destruct (glwe1_facts (i_base2k a) (i_max_k a) Hab Hma) as (Wi & Ni & Ri & Bi & Si & I0 & I64).
    destruct (glwe1_facts (i_base2k res) (i_max_k res) Hrb Hmr) as (Wo & No & Ro & Bo & So & O0 & O64).
    destruct (glwe1_facts (i_base2k a) mk Hab ltac:(unfold mk; lia)) as (WI & NI & RI & BI & SI & II0 & _).
    destruct (glwe1_facts (i_base2k res) mk Hrb ltac:(unfold mk; lia)) as (WO & NO & RO & BO & SO & OO0 & _).
    set (tin := glwe1 n (i_base2k a) (i_max_k a)) in *. set (tout := glwe1 n (i_base2k res) (i_max_k res)) in *.
    set (TI := glwe1 n (i_base2k a) mk) in *. set (TO := glwe1 n (i_base2k res) mk) in *.
    destruct (keyswitch_spec fam n Hf Hn0 Hn8 tout tin key Wo Wi Hk Ni ltac:(lia)) as (A & D & N0).
    pose proof (aligned_need_nonneg _ A).
    assert (Hsi : i_size tin <= i_size TI) by (rewrite Si, SI; apply div_ceil_mono; unfold mk; lia).
    assert (Hso : i_size tout <= i_size TO) by (rewrite So, SO; apply div_ceil_mono; unfold mk; lia).
    pose proof (ks_tmp_mono TO tout TI tin key Hk WI Wi ltac:(lia) NI Ni ltac:(lia) ltac:(lia) Hsi) as Hmono.
    pose proof (vec_znx_mono 2 (i_size TI) (i_size tin) ltac:(lia) Hsi).
    pose proof (vec_znx_mono 2 (i_size TO) (i_size tout) ltac:(lia) Hso).
    apply aligned_suffices; unfold tree_lwe_keyswitch, lwe_keyswitch_tmp_bytes, t_take_glwe; cbv zeta;
      fold mk; fold (glwe1 n (i_base2k a) mk); fold (glwe1 n (i_base2k res) mk); fold tin; fold tout; fold TI; fold TO;
      rewrite (glwe_bytes_eq TI WI), (glwe_bytes_eq TO WO); rewrite Ni, Ri, No, Ro, NI, RI, NO, RO in *.
    - cbn [aligned_tree]. unfold ALIGN. intuition; lia.
    - cbn [demand persist]. change (1 + 1) with 2 in *. lia.
  Qed.

  (* glwe_from_lwe (since 584fd63 the inner key-switch is sized on the temporary it acts on) *)
  Lemma suffices_glwe_from_lwe (res lwe key : infos) :
    wf_infos res -> wf_infos lwe -> wf_infos key -> i_rank_in key = 1 ->
    run_takes (tree_glwe_from_lwe fam n res lwe key) (0, glwe_from_lwe_tmp_bytes fam n res lwe key) <> None.
  Proof using Hf Hn0 Hn8.
    intros Hr Hl Hk Hrk.
    assert (Hkb : 1 <= i_base2k key) by (destruct Hk; lia).
    assert (Hml : 0 <= i_max_k lwe) by (destruct Hl as (?&?&_); unfold i_max_k; nia).
    assert (Hls : 0 <= i_size lwe) by (destruct Hl as (_&?&_); lia).
    destruct (glwe1_facts (i_base2k key) (i_max_k lwe) Hkb Hml) as (Wt & Nt & Rt & Bt & St & T0 & T64).
    set (t := glwe1 n (i_base2k key) (i_max_k lwe)) in *.
    destruct (keyswitch_spec fam n Hf Hn0 Hn8 res t key Hr Wt Hk Nt ltac:(lia)) as (A & D & N0).
    pose proof (aligned_need_nonneg _ A).
    destruct (callee_normalize fam n Hf Hn0 Hn8) as [An Dn]. pose proof (nn_norm fam n Hf Hn0 Hn8).
    destruct (al_vec_znx fam n Hf Hn0 Hn8 1 (i_size lwe) ltac:(lia) Hls) as [C0 C64].
    pose proof (vec_znx_mono 2 (div_ceil (Z.max (i_max_k lwe) (i_max_k res)) (i_base2k key)) (i_size t) ltac:(lia)
                  ltac:(rewrite St; apply div_ceil_mono; lia)).
    apply aligned_suffices; unfold tree_glwe_from_lwe, glwe_from_lwe_tmp_bytes, t_take_glwe, GLWE_bytes_of; cbv zeta;
      fold (glwe1 n (i_base2k key) (i_max_k lwe)); fold t; rewrite Nt, Rt in *; change (1 + 1) with 2 in *.
    - destruct (i_base2k lwe =? i_base2k key); cbn [aligned_tree]; unfold ALIGN; intuition; lia.
    - destruct (i_base2k lwe =? i_base2k key); cbn [demand persist]; rewrite ?Dn; lia.
  Qed.

  (* ---------------------------------------------------------------------------------------------- *)
  (* glwe_pack *)
  Lemma pack_shape (B F F2 : Z) (ro rs gn au ad tr : tree) (k : nat) :
    0 <= B -> B mod 64 = 0 -> 0 <= F -> 0 <= F2 ->
    aligned_tree ro -> aligned_tree rs -> aligned_tree gn -> aligned_tree au -> aligned_tree ad -> aligned_tree tr ->
    let both := Seq (Take B) (seq_scoped [ro; rs; rs; gn; au; gn; ro]) in
    let lo := Seq (Scoped rs) (Scoped ad) in
    let hi := Seq (Take B) (Seq (Scoped rs) (Scoped ad)) in
    let t := Seq (Need F) (Seq (Need F2) (Seq (Loop k (Branch both (Branch lo hi))) (Scoped tr))) in
    aligned_tree t /\
    demand t <= Z.max (Z.max F F2)
                  (Z.max (B + Z.max (Z.max (Z.max (demand ro) (demand rs)) (demand gn)) (Z.max (demand au) (demand ad))) (demand tr)).
  Proof using Hf Hn0 Hn8.
    intros HB HB64 HF HF2 Aro Ars Agn Aau Aad Atr.
    pose proof (aligned_need_nonneg _ Aro). pose proof (aligned_need_nonneg _ Ars). pose proof (aligned_need_nonneg _ Agn).
    pose proof (aligned_need_nonneg _ Aau). pose proof (aligned_need_nonneg _ Aad). pose proof (aligned_need_nonneg _ Atr).
    set (X := Z.max (Z.max (Z.max (demand ro) (demand rs)) (demand gn)) (Z.max (demand au) (demand ad))).
    assert (HX : 0 <= X /\ demand ro <= X /\ demand rs <= X /\ demand gn <= X /\ demand au <= X /\ demand ad <= X) by (unfold X; lia).
    clearbody X. destruct HX as (HX0 & Xro & Xrs & Xgn & Xau & Xad).
    set (l := [ro; rs; rs; gn; au; gn; ro]).
    assert (Hl : forall t, In t l -> aligned_tree t /\ demand t <= X).
    { intros t Ht. unfold l in Ht. cbn [In] in Ht. intuition; subst; auto. }
    destruct (demand_seq_scoped_le l X HX0 (fun t Ht => proj2 (Hl t Ht))) as [Dl Pl].
    pose proof (aligned_seq_scoped l (fun t Ht => proj1 (Hl t Ht))) as Al.
    cbv zeta. fold l. set (sl := seq_scoped l) in *. clearbody sl. split.
    - cbn [aligned_tree]. unfold ALIGN. intuition.
    - cbn [demand persist]. destruct k; lia.
  Qed.

  (* what the run needs is exactly what the (crate-internal) per-input query declares *)
  Lemma pack_spec (res a key : infos) (iters steps : Z) :
    wf_infos res -> wf_infos a -> wf_infos key -> i_n res = n -> i_n a = n -> i_rank res = i_rank_in key -> i_rank a = i_rank_in key ->
    aligned_tree (tree_glwe_pack fam n res a key iters steps) /\
    demand (tree_glwe_pack fam n res a key iters steps)
      <= Z.max (glwe_pack_tmp_bytes fam n res key) (glwe_pack_tmp_bytes_for_input fam n res a key).
  Proof using Hf Hn0 Hn8.
    intros Hr Ha Hk Hn Hna Hrk Hrka.
    destruct (rotate_assign_spec a) as [Aro Dro]. destruct (rsh_spec fam n Hf Hn0 Hn8 a) as [Ars Drs].
    destruct (glwe_normalize_spec fam n Hf Hn0 Hn8 (i_rank a + 1)) as [Agn Dgn].
    destruct (automorphism_spec a a key Ha Ha Hk Hna Hrka) as [Aau Dau].
    destruct (automorphism_add_spec fam n Hf Hn0 Hn8 a a key Ha Ha Hk Hna Hrka) as [Aad Dad].
    destruct (trace_spec res a key steps Hr Ha Hk Hn Hrk) as [Atr Dtr].
    destruct (trace_spec res res key steps Hr Hr Hk Hn Hrk) as [Atr' Dtr'].
    pose proof (aligned_need_nonneg _ Aro). pose proof (aligned_need_nonneg _ Atr). pose proof (aligned_need_nonneg _ Atr').
    destruct (al_vec_znx fam n Hf Hn0 Hn8 (i_rank a + 1) (i_size a)) as [A0 A64];
      [destruct Ha as (_&_&?&_); lia | destruct Ha as (_&?&_); lia |].
    rewrite <- Hna in A0, A64 at 1.
    assert (HF2 : 0 <= glwe_pack_tmp_bytes_for_input fam n res a key) by (unfold glwe_pack_tmp_bytes_for_input; cbv zeta; lia).
    assert (HF : 0 <= glwe_pack_tmp_bytes fam n res key) by (unfold glwe_pack_tmp_bytes, glwe_pack_tmp_bytes_for_input; cbv zeta; lia).
    destruct (pack_shape _ _ _ _ _ _ _ _ _ (nat_of iters) A0 A64 HF HF2 Aro Ars Agn Aau Aad Atr) as [A D].
    split; [exact A|].
    assert (Hb1 : VecZnx_bytes_of (i_n a) (i_rank a + 1) (i_size a)
                 + Z.max (Z.max (Z.max (demand (tree_glwe_rotate_assign fam n a)) (demand (tree_glwe_rsh fam n a)))
                                (demand (t_glwe_normalize fam n (i_rank a + 1))))
                         (Z.max (demand (tree_glwe_automorphism fam n a a key)) (demand (tree_glwe_automorphism_add fam n a a key)))
                 <= glwe_pack_tmp_bytes_for_input fam n res a key)
      by (unfold glwe_pack_tmp_bytes_for_input; cbv zeta; rewrite (glwe_bytes_eq a Ha); lia).
    assert (Hb2 : demand (tree_glwe_trace fam n res a key steps) <= glwe_pack_tmp_bytes_for_input fam n res a key)
      by (unfold glwe_pack_tmp_bytes_for_input; cbv zeta; lia).
    eapply Z.le_trans; [exact D|]. lia.
  Qed.

  (* inputs that have the layout of the result: glwe_pack_tmp_bytes(res, key) *)
  Lemma suffices_glwe_pack (res key : infos) (iters steps : Z) :
    wf_infos res -> wf_infos key -> i_n res = n -> i_rank res = i_rank_in key ->
    run_takes (tree_glwe_pack fam n res res key iters steps) (0, glwe_pack_tmp_bytes fam n res key) <> None.
  Proof using Hf Hn0 Hn8.
    intros Hr Hk Hn Hrk. destruct (pack_spec res res key iters steps Hr Hr Hk Hn Hn Hrk Hrk) as [A D].
    apply aligned_suffices; [exact A|]. unfold glwe_pack_tmp_bytes in *. lia.
  Qed.

  (* the per-input requirement is covered by the PUBLIC query evaluated on the result and on the input layout *)
  Lemma pack_for_input_le_max (res a key : infos) : i_n a = i_n res -> i_rank a = i_rank res ->
    glwe_pack_tmp_bytes_for_input fam n res a key <= Z.max (glwe_pack_tmp_bytes fam n res key) (glwe_pack_tmp_bytes fam n a key).
  Proof using Hf Hn0 Hn8.
    intros Hn Hr. unfold glwe_pack_tmp_bytes, glwe_pack_tmp_bytes_for_input, glwe_trace_tmp_bytes. cbv zeta. rewrite Hn, Hr.
    destruct (Z.max_spec (i_max_k a) (i_max_k res)) as [[_ ->] | [_ ->]]; rewrite !Z.max_id; lia.
  Qed.

  (* inputs of any layout: the maximum of the public query over the layouts involved *)
  Lemma suffices_glwe_pack_inputs (res a key : infos) (iters steps : Z) :
    wf_infos res -> wf_infos a -> wf_infos key -> i_n res = n -> i_n a = n -> i_rank res = i_rank_in key -> i_rank a = i_rank_in key ->
    run_takes (tree_glwe_pack fam n res a key iters steps)
              (0, Z.max (glwe_pack_tmp_bytes fam n res key) (glwe_pack_tmp_bytes fam n a key)) <> None.
  Proof using Hf Hn0 Hn8.
    intros Hr Ha Hk Hn Hna Hrk Hrka. destruct (pack_spec res a key iters steps Hr Ha Hk Hn Hna Hrk Hrka) as [A D].
    pose proof (pack_for_input_le_max res a key ltac:(lia) ltac:(lia)).
    apply aligned_suffices; [exact A|]. lia.
  Qed.
End Conv.

(* ---- refutations (witnesses replayed on the implementation by the harness: record 12647 before the per-input assertion) *)
(* glwe_pack_tmp_bytes(res, key) is sized for inputs that have the layout of the result: with inputs of more limbs the
   call is rejected (before a58.. deep inside a merge level, now by the per-input entry assertion) *)
Lemma suffices_glwe_pack_refuted :
  exists fam n res a key iters steps, is_fam fam /\ pow2 n /\ 8 <= n /\ wf_infos res /\ wf_infos a /\ wf_infos key /\
    i_n res = n /\ i_n a = n /\ i_rank res = i_rank_in key /\ i_rank a = i_rank res /\ i_base2k a = i_base2k res /\ 1 <= iters /\
    run_takes (tree_glwe_pack fam n res a key iters steps) (0, glwe_pack_tmp_bytes fam n res key) = None.
Proof.
  exists 0, 8, (mkInfos 8 17 2 1 1 0 1), (mkInfos 8 17 3 1 1 0 1), (mkInfos 8 17 3 1 1 2 1), 3, 0.
  split; [left; reflexivity|]. split; [exists 3; split; [lia|reflexivity]|].
  repeat (split; [unfold wf_infos; cbn; lia|]). vm_compute; reflexivity.
Qed.
