(* C05 — discharge of the Section hypotheses `nrm_shape`, `nrm_no_overflow`, `normalize_value_ok` for the concrete per-column
   normaliser of the FFT64 family with equal radices, from C08's theorem `normalize_inter_value` (read-only import of
   Proofs/C08*.v), and the resulting hypothesis-free forms of the tensor / mul_plain phase theorems. *)
From PV Require Import Base.MachineInt Model.Znx Model.Limbs Model.LimbsBig Model.Flat Model.Ring Model.DftAbs
  Model.C05Cnv Model.C05Spec Model.C05Core Model.C08Oracle.
From PV Require Import Proofs.C07Dft Proofs.C07Ring Proofs.C05Cnv Proofs.C05Core.
From PV Require Import Proofs.C08Chain Proofs.C08Value Proofs.C08Normalize.
Open Scope Z_scope.

Lemma sumn_zsum m f : sumn m f = zsum f m.
Proof. induction m as [|m IH]; [reflexivity|]. cbn [sumn]. rewrite zsum_S, IH. reflexivity. Qed.

(* the limbs of coefficient c of a column *)
Definition coefcol (c : nat) (D : plimbs) : list Z := map (fun l => nthZ l c) D.

Lemma nthZ_coefcol c D u : nthZ (coefcol c D) u = nth c (lim D u) 0.
Proof.
  unfold coefcol, nthZ, lim. destruct (Nat.lt_ge_cases u (length D)) as [H|H].
  - rewrite (nth_map' _ _ _ _ []) by exact H. reflexivity.
  - rewrite (nth_overflow (map _ D)) by (rewrite map_length; exact H). rewrite (nth_overflow D) by exact H. destruct c; reflexivity.
Qed.

Lemma val_scaled_cval P b c D : val_scaled P b (coefcol c D) = cval P b c D.
Proof.
  rewrite val_scaled_sumn, sumn_zsum. unfold cval, coefcol. rewrite map_length.
  apply zsum_ext; intros u _. fold (coefcol c D). rewrite nthZ_coefcol. unfold wt. ring.
Qed.

Lemma sequence_map_some {X Y} (g : X -> Y) l : sequence (map (fun x => Some (g x)) l) = Some (map g l).
Proof. induction l as [|x l IH]; [reflexivity|]. cbn [map sequence]. rewrite IH. reflexivity. Qed.

Lemma nth_transpose n (L : list (list Z)) c : (c < n)%nat -> nth c (transpose n L) [] = coefcol c L.
Proof.
  intros H. unfold transpose. rewrite (nth_indep _ [] (map (fun l => nthZ l 0%nat) L)) by (rewrite map_length, seq_length; exact H).
  rewrite (map_nth (fun i => map (fun l => nthZ l i) L)), seq_nth by exact H. reflexivity.
Qed.
Lemma transpose_length n (L : list (list Z)) : length (transpose n L) = n.
Proof. unfold transpose. rewrite map_length, seq_length. reflexivity. Qed.

(* FFT64, equal radices: coefficient c of the normalised column is normalize_inter of coefficient c of the accumulator *)
Definition nrm64 (n rsz : nat) (b lo : Z) : plimbs -> limbs := big_nrm true n rsz b b lo.
Definition dom62 (D : plimbs) : Prop := forall u c, Z.abs (nth c (lim D u) 0) <= 2 ^ 62.

Lemma dom62_coefcol D c : dom62 D -> Forall (fun x => Z.abs x <= 2 ^ 62) (coefcol c D).
Proof.
  intros H. apply Forall_forall. intros x Hx. unfold coefcol in Hx. apply in_map_iff in Hx. destruct Hx as (l & <- & Hl).
  destruct (In_nth _ _ [] Hl) as (u & Hu & E). specialize (H u c). unfold lim in H. rewrite E in H. exact H.
Qed.

Lemma nrm64_coeff n rsz b lo D u c : 1 <= b <= 62 -> dom62 D -> (c < n)%nat -> (u < rsz)%nat ->
  nth c (lim (nrm64 n rsz b lo D) u) 0 = nthZ (normalize_inter 64 b lo (coefcol c D) (zeros rsz)) u.
Proof.
  intros Hb Hd Hc Hu. unfold nrm64, big_nrm, lift_coeff.
  set (R := mk rsz (fun _ => pzero n)).
  rewrite (map_ext _ (fun p : list Z * list Z => Some (map (wrap 64) (normalize_inter 64 b lo (fst p) (snd p))))).
  2:{ intros p. unfold normalize. rewrite Z.eqb_refl. reflexivity. }
  rewrite sequence_map_some.
  match goal with |- context [untranspose rsz ?cs] => change (untranspose rsz cs) with (mk rsz (fun j => map (fun cf => nthZ cf j) cs)) end.
  rewrite lim_mk' by exact Hu.
  assert (Lc : length (combine (transpose n D) (transpose n R)) = n) by (rewrite combine_length, !transpose_length; apply Nat.min_id).
  rewrite (nth_map' _ _ _ _ []) by (rewrite map_length, Lc; exact Hc).
  rewrite (nth_map' _ _ _ _ ([], [])) by (rewrite Lc; exact Hc).
  rewrite nth_combine_gen by (rewrite transpose_length; exact Hc). cbn [fst snd].
  rewrite !nth_transpose by exact Hc.
  destruct (normalize_inter_value b Hb lo (coefcol c D) (coefcol c R) (dom62_coefcol D c Hd)) as (L & Bd & E & _).
  assert (LR : length (coefcol c R) = rsz) by (unfold coefcol, R; rewrite map_length; apply mk_len).
  rewrite LR in E. rewrite E in Bd |- *.
  set (out := normalize_inter 64 b lo (coefcol c D) (zeros rsz)) in *.
  rewrite (map_ext_in _ (fun x => x)), map_id; [reflexivity|].
  intros x Hx. rewrite Forall_forall in Bd. specialize (Bd x Hx). apply wrap_id; [lia|].
  unfold in_range in *. assert (2 ^ (b - 1) <= 2 ^ (64 - 1)) by (apply Z.pow_le_mono_r; lia). lia.
Qed.

Section Discharge.
Variables (n rsz dsz : nat) (P b lo : Z).
Hypothesis Hb : 1 <= b <= 62.
Hypothesis HP : zn rsz * b + zn dsz * b + Z.abs lo <= P.

Let nrm := nrm64 n rsz b lo.
Definition xy (D : plimbs) (c : nat) : Z := nth c (pval n P b (nrm D)) 0 - nth c (pval n (P + lo) b D) 0.
Definition eps64 (D : plimbs) : list Z := map (fun c => wrap P (xy D c)) (seq 0 n).
Definition kap64 (D : plimbs) : list Z := map (fun c => (xy D c + 2 ^ (P - 1)) / 2 ^ P) (seq 0 n).

Lemma nrm64_shape D : shaped n rsz (nrm D).
Proof. apply big_nrm_shape_same_radix. Qed.

Lemma out_facts D c : dom62 D -> length D = dsz ->
  let out := normalize_inter 64 b lo (coefcol c D) (zeros rsz) in
  length out = rsz /\ Forall (in_range b) out /\
  tor_abs P (val_scaled P b out - val_scaled (P + lo) b (coefcol c D)) <= 2 ^ (P - zn rsz * b).
Proof.
  intros Hd HL out.
  destruct (normalize_inter_value b Hb lo (coefcol c D) (zeros rsz) (dom62_coefcol D c Hd)) as (L & Bd & _ & V).
  assert (Lz : length (zeros rsz) = rsz) by (unfold zeros; apply repeat_length).
  rewrite Lz in L, V. split; [exact L|]. split; [exact Bd|].
  apply V. unfold coefcol. rewrite map_length, HL. exact HP.
Qed.

Lemma nrm64_no_overflow D : wfl n D -> length D = dsz -> dom62 D -> forall u c, Z.abs (nth c (lim (nrm D) u) 0) <= 2 ^ 61.
Proof.
  intros _ HL Hd u c. destruct (nrm64_shape D) as [Ls Ss].
  destruct (Nat.lt_ge_cases u rsz) as [Hu|Hu].
  - destruct (Nat.lt_ge_cases c n) as [Hc|Hc].
    + unfold nrm. rewrite nrm64_coeff by assumption.
      destruct (out_facts D c Hd HL) as (L & Bd & _). rewrite Forall_forall in Bd.
      assert (Hin : In (nthZ (normalize_inter 64 b lo (coefcol c D) (zeros rsz)) u) (normalize_inter 64 b lo (coefcol c D) (zeros rsz)))
        by (apply nth_In; rewrite L; exact Hu).
      specialize (Bd _ Hin). unfold in_range in Bd.
      assert (2 ^ (b - 1) <= 2 ^ 61) by (apply Z.pow_le_mono_r; lia). lia.
    + rewrite nth_overflow by (change (lim ?l u) with (lnth l u); rewrite Ss by exact Hu; exact Hc). cbn [Z.abs]. lia.
  - unfold lim. rewrite (nth_overflow (nrm D)) by (rewrite Ls; exact Hu). destruct c; cbn; lia.
Qed.

Lemma cval_nrm64 D c : dom62 D -> (c < n)%nat ->
  cval P b c (nrm D) = val_scaled P b (normalize_inter 64 b lo (coefcol c D) (zeros rsz)).
Proof.
  intros Hd Hc. destruct (nrm64_shape D) as [Ls _].
  destruct (normalize_inter_value b Hb lo (coefcol c D) (zeros rsz) (dom62_coefcol D c Hd)) as (L & _).
  assert (Lz : length (zeros rsz) = rsz) by (unfold zeros; apply repeat_length). rewrite Lz in L.
  rewrite val_scaled_sumn, sumn_zsum, L. unfold cval. rewrite Ls.
  apply zsum_ext; intros u Hu. unfold nrm. rewrite nrm64_coeff by assumption. unfold wt. ring.
Qed.

(* normalize_value_ok for the FFT64 normaliser with equal radices, from C08_normalize_inter_value *)
Theorem normalize_value_ok_fft64 D : wfl n D -> length D = dsz -> dom62 D ->
  length (eps64 D) = n /\ length (kap64 D) = n /\
  pval n P b (nrm D) = padd (padd (pval n (P + lo) b D) (eps64 D)) (pscale (2 ^ P) (kap64 D)) /\
  forall c, Z.abs (nth c (eps64 D) 0) <= 2 ^ (P - zn rsz * b).
Proof.
  intros w HL Hd.
  assert (Le : length (eps64 D) = n) by (unfold eps64; rewrite map_length, seq_length; reflexivity).
  assert (Lk : length (kap64 D) = n) by (unfold kap64; rewrite map_length, seq_length; reflexivity).
  assert (Lx : length (pval n P b (nrm D)) = n) by (apply pval_length; eapply shaped_wfl; apply nrm64_shape).
  assert (Ly : length (pval n (P + lo) b D) = n) by (apply pval_length; exact w).
  assert (P0 : 0 <= P) by (unfold zn in HP; nia).
  split; [exact Le|]. split; [exact Lk|]. split.
  - apply list_eq_nth; [rewrite !padd_length, pscale_length', Lx, Ly, Le, Lk; lia|].
    rewrite Lx. intros c Hc. unfold nthZ.
    rewrite !nth_padd by (rewrite ?padd_length, ?pscale_length'; lia). rewrite nth_pscale.
    unfold eps64, kap64. rewrite !nth_map_seq by exact Hc.
    pose proof (pow2_pos P P0) as Hp.
    unfold wrap. pose proof (Z.div_mod (xy D c + 2 ^ (P - 1)) (2 ^ P) ltac:(lia)) as E.
    unfold xy in *. lia.
  - intros c. destruct (Nat.lt_ge_cases c n) as [Hc|Hc].
    + unfold eps64. rewrite nth_map_seq by exact Hc. unfold xy.
      rewrite !nth_pval by (try exact w; eapply shaped_wfl; apply nrm64_shape).
      rewrite cval_nrm64 by assumption. rewrite <- val_scaled_cval.
      destruct (out_facts D c Hd HL) as (_ & _ & V). exact V.
    + rewrite nth_overflow by (rewrite Le; exact Hc). cbn [Z.abs]. apply Z.pow_nonneg. lia.
Qed.
End Discharge.

(* ---------- closed forms: FFT64 family, equal radices, no hypothesis on the normaliser left ---------- *)
Theorem tensor_phase_fft64 :
  forall (n rsz dsz hi cols asz bsz : nat) (P b lo : Z) (A B : list plimbs) (sigma : nat * nat -> list Z),
  1 <= b <= 62 -> zn rsz * b + zn dsz * b + Z.abs lo <= P ->
  (forall i, (i < cols)%nat -> wfl n (colsel A i) /\ length (colsel A i) = asz) ->
  (forall i, (i < cols)%nat -> wfl n (colsel B i) /\ length (colsel B i) = bsz) ->
  (1 <= asz)%nat -> (1 <= bsz)%nat ->
  (forall i, (i < cols)%nat -> dom62 (Cn true n dsz hi A B i i)) ->
  (forall i j, (i < cols)%nat -> (j < cols)%nat -> i <> j -> dom62 (Pw true n dsz hi A B i j)) ->
  (forall ij, length (sigma ij) = n) ->
  forall res0 : list (list (list Z)), length res0 = length (tpairs cols) -> (forall r, In r res0 -> length r = rsz) ->
  phase n P b (tensor_gen (cell_apply true n (big_nrm true n rsz b b lo) dsz hi A B) cols res0) (map sigma (tpairs cols)) =
  padd (padd (plsum n (map (fun ij => pmul (Gm true n dsz hi P b lo A B ij) (sigma ij)) (tpairs cols)))
             (plsum n (map (fun ij => pmul (Em true n dsz hi (eps64 n rsz P b lo) A B ij) (sigma ij)) (tpairs cols))))
       (pscale (2 ^ P) (plsum n (map (fun ij => pmul (Km true n dsz hi (kap64 n rsz P b lo) A B ij) (sigma ij)) (tpairs cols))))
  /\ forall ij c, (fst ij < cols)%nat -> (snd ij < cols)%nat ->
     Z.abs (nth c (Em true n dsz hi (eps64 n rsz P b lo) A B ij) 0) <= (if Nat.eqb (fst ij) (snd ij) then 1 else 3) * 2 ^ (P - zn rsz * b).
Proof.
  intros n rsz dsz hi cols asz bsz P b lo A B sigma Hb HP HA HB Ha Hbz Hd1 Hd2 Hs res0 HL Hr.
  pose proof (fun D => nrm64_shape n rsz b lo D) as S1.
  pose proof (nrm64_no_overflow n rsz dsz P b lo Hb HP) as S2.
  pose proof (normalize_value_ok_fft64 n rsz dsz P b lo Hb HP) as S3.
  split.
  - exact (tensor_phase true n rsz dsz hi cols asz bsz P b b lo (nrm64 n rsz b lo) (eps64 n rsz P b lo) (kap64 n rsz P b lo)
             dom62 A B sigma S1 S2 S3 HA HB Ha Hbz Hd1 Hd2 Hs res0 HL Hr).
  - intros ij c H1 H2.
    exact (Em_bound true n rsz dsz hi cols asz bsz P b b lo (nrm64 n rsz b lo) (eps64 n rsz P b lo) (kap64 n rsz P b lo)
             dom62 A B sigma S3 HA HB Ha Hbz Hd1 Hd2 Hs ij c H1 H2).
Qed.

Theorem mul_plain_phase_fft64 :
  forall (n rsz dsz hi : nat) (P b lo : Z) (B : plimbs) (A : list plimbs) (key : list (list Z)),
  1 <= b <= 62 -> zn rsz * b + zn dsz * b + Z.abs lo <= P ->
  wfl n B -> (1 <= length B)%nat ->
  (forall a, In a A -> wfl n a /\ (1 <= length a)%nat /\ dom62 (cnv_apply true n dsz hi a B)) -> (forall k, In k key -> length k = n) ->
  let Cf := fun a => cnv_apply true n dsz hi a B in
  phase n P b (map (fun a => big_nrm true n rsz b b lo (Cf a)) A) key =
  padd (padd (plsum n (map (fun q => pmul (pval n (P + lo) b (Cf (fst q))) (snd q)) (combine A key)))
             (plsum n (map (fun q => pmul (eps64 n rsz P b lo (Cf (fst q))) (snd q)) (combine A key))))
       (pscale (2 ^ P) (plsum n (map (fun q => pmul (kap64 n rsz P b lo (Cf (fst q))) (snd q)) (combine A key))))
  /\ forall a c, In a A -> Z.abs (nth c (eps64 n rsz P b lo (Cf a)) 0) <= 2 ^ (P - zn rsz * b).
Proof.
  intros n rsz dsz hi P b lo B A key Hb HP wB LB HA Hk Cf.
  pose proof (fun D => nrm64_shape n rsz b lo D) as S1.
  pose proof (normalize_value_ok_fft64 n rsz dsz P b lo Hb HP) as S3.
  split.
  - exact (mul_plain_phase true n rsz dsz hi P b b lo (nrm64 n rsz b lo) (eps64 n rsz P b lo) (kap64 n rsz P b lo) dom62 B
             S1 S3 wB LB A key HA Hk).
  - intros a c Ha. destruct (HA a Ha) as (wa & La & da).
    apply (S3 (Cf a)); [apply cnv_apply_wfl; assumption|apply cnv_apply_length|exact da].
Qed.
