(* C06: structure of the randomness of fresh ciphertexts. *)
From PV Require Import Base.MachineInt Model.Znx Model.Limbs Model.Flat Model.DftAbs Model.EncModel
  Proofs.EncValue Proofs.EncLists.
Open Scope Z_scope.

(* ---------------- the digit map is equidistributed ---------------- *)

(* "the set P has exactly N elements": a bijection between P and [0, N) *)
Definition has_card (P : Z -> Prop) (N : Z) : Prop :=
  exists (f g : Z -> Z),
    (forall q, 0 <= q < N -> P (f q)) /\ (forall u, P u -> 0 <= g u < N) /\
    (forall q, 0 <= q < N -> g (f q) = q) /\ (forall u, P u -> f (g u) = u).

Lemma uniform_digit_mod (b u : Z) : 0 <= b -> uniform_digit b u = u mod 2 ^ b - 2 ^ (b - 1).
Proof.
  intros Hb. unfold uniform_digit. replace (2 ^ b - 1) with (Z.ones b) by (rewrite Z.ones_equiv; lia).
  rewrite Z.land_ones by lia. reflexivity.
Qed.

Theorem uniform_digit_equidistributed (b d : Z) : 1 <= b <= 63 -> - 2 ^ (b - 1) <= d < 2 ^ (b - 1) ->
  has_card (fun u => 0 <= u < 2 ^ 64 /\ uniform_digit b u = d) (2 ^ (64 - b)).
Proof.
  intros Hb Hd.
  pose proof (pow2_pos b ltac:(lia)) as Hp. pose proof (pow2_split b ltac:(lia)) as Hs.
  pose proof (pow2_pos (64 - b) ltac:(lia)) as Hq.
  assert (H64 : 2 ^ 64 = 2 ^ (64 - b) * 2 ^ b) by (rewrite <- Z.pow_add_r by lia; f_equal; lia).
  set (r := d + 2 ^ (b - 1)). assert (Hr : 0 <= r < 2 ^ b) by (unfold r; lia).
  exists (fun q => q * 2 ^ b + r), (fun u => u / 2 ^ b).
  split; [|split; [|split]].
  - intros q Hq'. split; [nia|]. rewrite uniform_digit_mod by lia.
    rewrite Z.add_comm, Z_mod_plus_full. rewrite Z.mod_small by lia. unfold r. lia.
  - intros u [Hu _]. split; [apply Z.div_pos; lia|]. apply Z.div_lt_upper_bound; [lia|]. lia.
  - intros q Hq'. rewrite Z.add_comm, Z.div_add by lia. rewrite Z.div_small by lia. lia.
  - intros u [Hu Hdg]. rewrite uniform_digit_mod in Hdg by lia.
    pose proof (Z.div_mod u (2 ^ b) ltac:(lia)). unfold r. lia.
Qed.

(* next_u64n(2^b, 2^b - 1): the first masked word is always below the bound, the rejection loop never iterates *)
Theorem next_u64n_pow2_no_reject (b u : Z) : 0 <= b -> 0 <= Z.land u (2 ^ b - 1) < 2 ^ b.
Proof.
  intros Hb. replace (2 ^ b - 1) with (Z.ones b) by (rewrite Z.ones_equiv; lia).
  rewrite Z.land_ones by lia. apply Z.mod_pos_bound. apply pow2_pos. lia.
Qed.

(* ---------------- the mask is a function of the mask stream and the shape ---------------- *)

Lemma enc_sk_mask (wb b : Z) (n size rank : nat) (nk : Z) (pt : option (ccol * nat)) (sk : list poly) (us : nat -> Z)
      (e : poly) (ct : list ccol) :
  enc_sk wb b n size rank nk pt sk us e = Some ct -> tl ct = glwe_mask b n size rank us.
Proof. unfold enc_sk. destruct (enc_sk_body _ _ _ _ _ _ _ _ _); [|discriminate]. intros H. inversion H. reflexivity. Qed.

Theorem mask_depends_only_on_mask_seed (wb b : Z) (n size rank : nat) (us : nat -> Z)
        (nk nk' : Z) (pt pt' : option (ccol * nat)) (sk sk' : list poly) (e e' : poly) (ct ct' : list ccol) :
  enc_sk wb b n size rank nk pt sk us e = Some ct ->
  enc_sk wb b n size rank nk' pt' sk' us e' = Some ct' ->
  tl ct = glwe_mask b n size rank us /\ tl ct' = tl ct.
Proof. intros H1 H2. apply enc_sk_mask in H1. apply enc_sk_mask in H2. split; congruence. Qed.

(* only the first rank*size*n words of the stream are looked at *)
Theorem mask_consumption (b : Z) (n size rank : nat) (us us' : nat -> Z) :
  (forall i, (i < rank * size * n)%nat -> us i = us' i) -> glwe_mask b n size rank us = glwe_mask b n size rank us'.
Proof.
  intros H. unfold glwe_mask. apply map_ext_in. intros c Hc. apply in_seq in Hc.
  unfold mask_col. apply map_ext_in. intros k Hk. apply in_seq in Hk.
  apply map_ext_in. intros j Hj. apply in_seq in Hj.
  unfold mask_digit. f_equal. apply H.
  assert (A1 : (j * n + k < size * n)%nat).
  { assert ((j + 1) * n <= size * n)%nat by (apply Nat.mul_le_mono_r; lia). lia. }
  assert (A2 : ((c + 1) * (size * n) <= rank * (size * n))%nat) by (apply Nat.mul_le_mono_r; lia).
  lia.
Qed.

Theorem lwe_mask_consumption (b : Z) (n size : nat) (us us' : nat -> Z) :
  (forall i, (i < size * (n + 1))%nat -> us i = us' i) -> lwe_mask b n size us = lwe_mask b n size us'.
Proof.
  intros H. unfold lwe_mask. apply map_ext_in. intros j Hj. apply in_seq in Hj.
  apply map_ext_in. intros t Ht. apply in_seq in Ht. f_equal. apply H.
  assert (((j + 1) * (n + 1) <= size * (n + 1))%nat) by (apply Nat.mul_le_mono_r; lia). lia.
Qed.

(* determinism: the ciphertext is a function of (plaintext, secret, the consumed prefix of the mask stream, errors) *)
Theorem determinism (wb b : Z) (n size rank : nat) (nk : Z) (pt : option (ccol * nat)) (sk : list poly) (us us' : nat -> Z)
        (e : poly) :
  (forall i, (i < rank * size * n)%nat -> us i = us' i) ->
  enc_sk wb b n size rank nk pt sk us e = enc_sk wb b n size rank nk pt sk us' e.
Proof. intros H. unfold enc_sk. rewrite (mask_consumption b n size rank us us' H). reflexivity. Qed.

(* ---------------- another error stream changes only the body, coefficient by coefficient ---------------- *)

Theorem body_changes_only (wb b : Z) (n size rank : nat) (nk : Z) (pt : option (ccol * nat)) (sk : list poly) (us : nat -> Z)
        (e e' : poly) (ct ct' : list ccol) :
  enc_sk wb b n size rank nk pt sk us e = Some ct ->
  enc_sk wb b n size rank nk pt sk us e' = Some ct' ->
  tl ct' = tl ct /\
  forall k, (k < n)%nat -> nthZ e k = nthZ e' k -> coef (hd [] ct') k = coef (hd [] ct) k.
Proof.
  intros H1 H2. split.
  - apply enc_sk_mask in H1. apply enc_sk_mask in H2. congruence.
  - intros k Hk He. unfold enc_sk in H1, H2.
    destruct (enc_sk_body wb b n size nk pt sk (glwe_mask b n size rank us) e) as [body|] eqn:B1; [|discriminate].
    destruct (enc_sk_body wb b n size nk pt sk (glwe_mask b n size rank us) e') as [body'|] eqn:B2; [|discriminate].
    inversion H1; inversion H2; subst. cbn [hd].
    unfold enc_sk_body in B1, B2.
    destruct (Nat.leb size (target_limb nk b)); [discriminate|].
    destruct (sequence _) as [terms|]; [|discriminate].
    destruct (cmap_opt_nth _ _ _ B1) as [_ N1]. destruct (cmap_opt_nth _ _ _ B2) as [_ N2].
    specialize (N1 k Hk). specialize (N2 k Hk). cbn beta in N1, N2. rewrite <- He in N2. congruence.
Qed.
