(* C01, secret-key GLWE at the level of the model: glwe_encrypt_sk followed by glwe_decrypt. *)
From PV Require Import Base.MachineInt Model.Znx Model.Limbs Model.Flat Model.DftAbs Model.C08Oracle Model.EncModel
  Proofs.EncValue Proofs.EncLists Proofs.C01Sk.
Open Scope Z_scope.

Lemma Forall2_combine_seq {A B} (R : A -> B -> Prop) (l : list A) : forall (s : nat) (r : list B),
  Forall2 (fun (q : nat * A) t => R (snd q) t) (combine (seq s (length l)) l) r -> Forall2 R l r.
Proof.
  induction l as [|x l IH]; intros s r H; cbn [length seq combine] in H.
  - inversion H. constructor.
  - inversion H as [|? ? ? ? Hx Hr]; subst. constructor; [exact Hx|]. eapply IH. exact Hr.
Qed.

Lemma glwe_mask_length b n size rank us : length (glwe_mask b n size rank us) = rank.
Proof. unfold glwe_mask. rewrite map_length, seq_length. reflexivity. Qed.

(* the product limbs (s_i * a_i)_k of every mask column, for coefficient k *)
Definition prods_at (n size : nat) (sk : list poly) (a : list ccol) (k : nat) : list (list Z) :=
  map (fun q => coef (svp (fst q) n size (snd q)) k) (combine sk a).

Section Glwe.
Variables wb b pb : Z.
Variable D : Z -> Prop.
Variables n size psize rank : nat.
Variable nk : Z.
Hypothesis normalize_value_ok_small : normalize_value_ok_dom D (fun rb ab => normalize 64 rb ab 0) (2 ^ 62).
Hypothesis normalize_value_ok_big : normalize_value_ok_dom D (bnorm wb) (2 ^ (wb - 2)).
Hypothesis Hwb : 2 <= wb.
Hypothesis Hb : D b.
Hypothesis Hpb : D pb.
Hypothesis Hb_pos : 1 <= b.
Hypothesis Hpb_pos : 1 <= pb.
Variables S E M : Z.
Hypothesis HS : 0 <= S.

Lemma prods_at_ok (sk : list poly) (us : nat -> Z) (k : nat) : (k < n)%nat ->
  Forall (fun s => norm1 s <= S) sk ->
  Forall (fun X => length X = size /\ bnd (S * 2 ^ (b - 1)) X) (prods_at n size sk (glwe_mask b n size rank us) k).
Proof.
  intros Hk Hs. unfold prods_at. rewrite Forall_forall. intros X HX.
  apply in_map_iff in HX. destruct HX as [[s c] [<- Hin]]. cbn [fst snd].
  split; [apply coef_svp_length; lia|].
  pose proof (in_combine_l _ _ _ _ Hin) as Hs1. pose proof (in_combine_r _ _ _ _ Hin) as Hc1.
  rewrite Forall_forall in Hs. specialize (Hs s Hs1).
  unfold glwe_mask in Hc1. apply in_map_iff in Hc1. destruct Hc1 as [c0 [<- _]].
  pose proof (pow2_pos (b - 1) ltac:(lia)) as Hp.
  intros j. rewrite coef_svp by lia.
  destruct (Nat.lt_ge_cases j size) as [Hj|Hj].
  - unfold nthZ at 1. rewrite nth_map_seq by lia.
    eapply Z.le_trans; [apply (pmul_nth_bound s _ k (2 ^ (b - 1)))|].
    + apply limb_poly_mask_bnd. lia.
    + lia.
    + pose proof (norm1_nonneg s). nia.
  - rewrite nthZ_beyond by (rewrite map_length, seq_length; lia). nia.
Qed.

Theorem sk_roundtrip (pt : ccol) (sk : list poly) (us : nat -> Z) (e : poly) (ct : list ccol) (d : ccol) :
  length sk = rank ->
  Forall (fun s => norm1 s <= S) sk ->
  (forall k, (k < n)%nat -> Z.abs (nthZ e k) <= E) ->
  (forall k, (k < n)%nat -> bnd M (coef pt k)) ->
  zn rank * 2 ^ (b - 1) + E + M <= 2 ^ 62 ->
  zn rank * (S * 2 ^ (b - 1)) + 2 ^ (b - 1) <= 2 ^ (wb - 2) ->
  S * 2 ^ (b - 1) <= 2 ^ (wb - 2) ->
  enc_sk wb b n size rank nk (Some (pt, O)) sk us e = Some ct ->
  dec_glwe wb b pb n size psize sk ct = Some d ->
  let ell := target_limb nk b in
  (ell < size)%nat /\ tl ct = glwe_mask b n size rank us /\
  forall k, (k < n)%nat ->
    length (coef (hd [] ct) k) = size /\ Forall (in_range b) (coef (hd [] ct) k) /\ length (coef d k) = psize /\
    forall P, zn size * b <= P -> zn psize * pb <= P -> 1 <= P ->
    (exists q, lval P b size (coef (hd [] ct) k) + lvsum P b size (prods_at n size sk (tl ct) k)
               = lval P b size (coef pt k) + nthZ e k * wt P b ell + q * 2 ^ P) /\
    tor_abs P (val_scaled P pb (coef d k) - val_scaled P b (firstn size (coef pt k)) - nthZ e k * wt P b ell)
      <= 2 ^ (P - zn psize * pb).
Proof.
  intros Hlen Hs He Hm Hh64 Hhb HBp Henc Hdec. cbv zeta.
  unfold enc_sk in Henc.
  set (a := glwe_mask b n size rank us) in *.
  destruct (enc_sk_body wb b n size nk (Some (pt, O)) sk a e) as [body|] eqn:Hbody; [|discriminate].
  inversion Henc; subst ct. clear Henc. cbn [hd tl].
  unfold enc_sk_body in Hbody.
  destruct (Nat.leb size (target_limb nk b)) eqn:Hl; [discriminate|].
  apply Nat.leb_gt in Hl.
  destruct (sequence _) as [terms|] eqn:Hseq in Hbody; [|discriminate].
  apply sequence_Forall2 in Hseq.
  destruct (cmap_opt_nth _ _ _ Hbody) as [_ Hbk].
  unfold dec_glwe in Hdec. cbn [hd tl] in Hdec.
  destruct (cmap_opt_nth _ _ _ Hdec) as [_ Hdk].
  split; [exact Hl|]. split; [reflexivity|].
  intros k Hk.
  specialize (Hbk k Hk). specialize (Hdk k Hk). cbn beta in Hbk, Hdk.
  (* the normalised products of coefficient k *)
  assert (HT : Forall2 (fun X t => bnorm wb b b X (zeros size) = Some t)
                 (prods_at n size sk a k) (map (fun t => coef t k) terms)).
  { unfold prods_at. apply Forall2_map_l. apply Forall2_map_r.
    assert (La : length a = length (combine sk a)).
    { rewrite combine_length. unfold a. rewrite glwe_mask_length. lia. }
    rewrite La in Hseq.
    apply (Forall2_combine_seq (fun q t => bnorm wb b b (coef (svp (fst q) n size (snd q)) k) (zeros size) = Some (coef t k))
             (combine sk a) 0 terms).
    eapply Forall2_impl'; [|exact Hseq].
    intros [i [s c]] t _ Hst. cbn [fst snd] in *.
    unfold sk_term, sk_src in Hst. cbn [Nat.eqb] in Hst.
    destruct (cmap_opt_nth _ _ _ Hst) as [_ Htk]. specialize (Htk k Hk). exact Htk. }
  assert (HX := prods_at_ok sk us k Hk Hs). fold a in HX.
  assert (LX : length (prods_at n size sk a k) = rank).
  { unfold prods_at. rewrite map_length, combine_length. unfold a. rewrite glwe_mask_length. lia. }
  rewrite map_map in Hdk. fold (prods_at n size sk a k) in Hdk.
  pose proof (pow2_pos (b - 1) ltac:(lia)) as Hp.
  destruct (sk_roundtrip_coeff wb b pb D size psize (target_limb nk b)
              normalize_value_ok_small normalize_value_ok_big Hwb Hb Hpb Hb_pos Hl
              (S * 2 ^ (b - 1)) E M ltac:(nia)
              (prods_at n size sk a k) (map (fun t => coef t k) terms) (nthZ e k) (coef pt k) (coef body k) (coef d k)
              HX HT (He k Hk) (Hm k Hk) ltac:(rewrite LX; lia) ltac:(rewrite LX; lia) HBp Hbk Hdk)
    as (L1 & R1 & L2 & V).
  split; [exact L1|]. split; [exact R1|]. split; [exact L2|]. exact V.
Qed.

End Glwe.

(* the two halves of sk_roundtrip, in the form pinned by Props/C01.v *)
Lemma sk_roundtrip_value :
  forall (wb b pb R : Z) (n size psize rank : nat) (nk S E M : Z),
  normalize_value_ok (fun rb ab => normalize 64 rb ab 0) (2 ^ 62) R ->
  normalize_value_ok (bnorm wb) (2 ^ (wb - 2)) R ->
  2 <= wb -> 1 <= b <= R -> 1 <= pb <= R -> 0 <= S ->
  forall (pt : ccol) (sk : list poly) (us : nat -> Z) (e : poly) (ct : list ccol) (d : ccol),
  length sk = rank ->
  Forall (fun s => norm1 s <= S) sk ->
  (forall k, (k < n)%nat -> Z.abs (nthZ e k) <= E) ->
  (forall k, (k < n)%nat -> bnd M (coef pt k)) ->
  zn rank * 2 ^ (b - 1) + E + M <= 2 ^ 62 ->
  zn rank * (S * 2 ^ (b - 1)) + 2 ^ (b - 1) <= 2 ^ (wb - 2) ->
  S * 2 ^ (b - 1) <= 2 ^ (wb - 2) ->
  enc_sk wb b n size rank nk (Some (pt, O)) sk us e = Some ct ->
  dec_glwe wb b pb n size psize sk ct = Some d ->
  forall k, (k < n)%nat -> length (coef d k) = psize /\
    forall P, zn size * b <= P -> zn psize * pb <= P -> 1 <= P ->
    tor_abs P (val_scaled P pb (coef d k) - val_scaled P b (firstn size (coef pt k)) - nthZ e k * wt P b (target_limb nk b))
      <= 2 ^ (P - zn psize * pb).
Proof.
  intros wb b pb R n size psize rank nk S E M H1 H2 H3 H4 H5 H6 pt sk us e ct d A1 A2 A3 A4 A5 A6 A7 A8 A9 k Hk.
  destruct (sk_roundtrip wb b pb (fun x => 1 <= x <= R) n size psize rank nk H1 H2 H3 H4 H5 (proj1 H4) S E M H6 pt sk us e ct d A1 A2 A3 A4 A5 A6 A7 A8 A9)
    as (_ & _ & V). destruct (V k Hk) as (_ & _ & L & W). split; [exact L|]. intros P Q1 Q2 Q3. apply (W P Q1 Q2 Q3).
Qed.

Lemma sk_message_position :
  forall (wb b pb R : Z) (n size psize rank : nat) (nk S E M : Z),
  normalize_value_ok (fun rb ab => normalize 64 rb ab 0) (2 ^ 62) R ->
  normalize_value_ok (bnorm wb) (2 ^ (wb - 2)) R ->
  2 <= wb -> 1 <= b <= R -> 1 <= pb <= R -> 0 <= S ->
  forall (pt : ccol) (sk : list poly) (us : nat -> Z) (e : poly) (ct : list ccol) (d : ccol),
  length sk = rank ->
  Forall (fun s => norm1 s <= S) sk ->
  (forall k, (k < n)%nat -> Z.abs (nthZ e k) <= E) ->
  (forall k, (k < n)%nat -> bnd M (coef pt k)) ->
  zn rank * 2 ^ (b - 1) + E + M <= 2 ^ 62 ->
  zn rank * (S * 2 ^ (b - 1)) + 2 ^ (b - 1) <= 2 ^ (wb - 2) ->
  S * 2 ^ (b - 1) <= 2 ^ (wb - 2) ->
  enc_sk wb b n size rank nk (Some (pt, O)) sk us e = Some ct ->
  dec_glwe wb b pb n size psize sk ct = Some d ->
  (target_limb nk b < size)%nat /\ tl ct = glwe_mask b n size rank us /\
  forall k, (k < n)%nat ->
    length (coef (hd [] ct) k) = size /\ Forall (in_range b) (coef (hd [] ct) k) /\
    forall P, zn size * b <= P -> zn psize * pb <= P -> 1 <= P ->
    exists q, lval P b size (coef (hd [] ct) k) + lvsum P b size (prods_at n size sk (tl ct) k)
              = lval P b size (coef pt k) + nthZ e k * wt P b (target_limb nk b) + q * 2 ^ P.
Proof.
  intros wb b pb R n size psize rank nk S E M H1 H2 H3 H4 H5 H6 pt sk us e ct d A1 A2 A3 A4 A5 A6 A7 A8 A9.
  destruct (sk_roundtrip wb b pb (fun x => 1 <= x <= R) n size psize rank nk H1 H2 H3 H4 H5 (proj1 H4) S E M H6 pt sk us e ct d A1 A2 A3 A4 A5 A6 A7 A8 A9)
    as (L & T & V). split; [exact L|]. split; [exact T|]. intros k Hk. destruct (V k Hk) as (L1 & R1 & _ & W).
  split; [exact L1|]. split; [exact R1|]. intros P Q1 Q2 Q3. apply (W P Q1 Q2 Q3).
Qed.

(* error_is_full (C06): the exact phase of a fresh ciphertext is plaintext + e on limb ceil(nk/b)-1 with coefficient 1 *)
Lemma sk_error_is_full :
  forall (wb b pb R : Z) (n size psize rank : nat) (nk S E M : Z),
  normalize_value_ok (fun rb ab => normalize 64 rb ab 0) (2 ^ 62) R ->
  normalize_value_ok (bnorm wb) (2 ^ (wb - 2)) R ->
  2 <= wb -> 1 <= b <= R -> 1 <= pb <= R -> 0 <= S ->
  forall (pt : ccol) (sk : list poly) (us : nat -> Z) (e : poly) (ct : list ccol) (d : ccol),
  length sk = rank ->
  Forall (fun s => norm1 s <= S) sk ->
  (forall k, (k < n)%nat -> Z.abs (nthZ e k) <= E) ->
  (forall k, (k < n)%nat -> bnd M (coef pt k)) ->
  zn rank * 2 ^ (b - 1) + E + M <= 2 ^ 62 ->
  zn rank * (S * 2 ^ (b - 1)) + 2 ^ (b - 1) <= 2 ^ (wb - 2) ->
  S * 2 ^ (b - 1) <= 2 ^ (wb - 2) ->
  enc_sk wb b n size rank nk (Some (pt, O)) sk us e = Some ct ->
  dec_glwe wb b pb n size psize sk ct = Some d ->
  forall k, (k < n)%nat -> forall P, zn size * b <= P -> zn psize * pb <= P -> 1 <= P ->
    exists q, lval P b size (coef (hd [] ct) k) + lvsum P b size (prods_at n size sk (tl ct) k)
              = lval P b size (coef pt k) + nthZ e k * 2 ^ (P - (zn (target_limb nk b) + 1) * b) + q * 2 ^ P.
Proof.
  intros wb b pb R n size psize rank nk S E M H1 H2 H3 H4 H5 H6 pt sk us e ct d A1 A2 A3 A4 A5 A6 A7 A8 A9 k Hk P Q1 Q2 Q3.
  destruct (sk_roundtrip wb b pb (fun x => 1 <= x <= R) n size psize rank nk H1 H2 H3 H4 H5 (proj1 H4) S E M H6 pt sk us e ct d A1 A2 A3 A4 A5 A6 A7 A8 A9)
    as (_ & _ & V). destruct (V k Hk) as (_ & _ & _ & W). destruct (W P Q1 Q2 Q3) as [X _]. exact X.
Qed.
