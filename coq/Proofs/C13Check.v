(* C13 — soundness of the reflective checker:
     check A hint c = true  ->  forall e, eval_strict c e = Some (run A e)
   for every automaton satisfying [automaton_ok].  The hint is untrusted (no hypothesis about it). *)
From Coq Require Import ZArith List Bool Arith Lia.
From PV Require Import Model.C13Bdd.
Import ListNotations.

(* ---------- small list facts ---------- *)
Lemma nth_error_firstn_lt {X} (l : list X) : forall w j, j < w -> nth_error (firstn w l) j = nth_error l j.
Proof.
  induction l as [|x tl IH]; intros w j Hj.
  - rewrite firstn_nil. reflexivity.
  - destruct w; [lia|]. destruct j; cbn; [reflexivity|]. apply IH; lia.
Qed.

Lemma nth_error_seq s n j : j < n -> nth_error (seq s n) j = Some (s + j).
Proof.
  revert s j; induction n; intros s j Hj; [lia|].
  destruct j; cbn; [f_equal; lia|]. rewrite IHn by lia. f_equal; lia.
Qed.

Lemma rd_cons_0 x St : rd (x :: St) 0 = x.
Proof. unfold rd; cbn. destruct x; reflexivity. Qed.

Lemma init_rd w j : j < w -> rd (init_strict w) j = Some (Nat.eqb 1 j).
Proof.
  intros Hj. unfold rd, init_strict, init_buf, init_level; cbn [fst].
  rewrite nth_error_map, nth_error_firstn_lt by exact Hj.
  rewrite (map_nth_error (Nat.eqb 1) j (seq 0 (2 * w)) (d := j)).
  - reflexivity.
  - rewrite nth_error_seq by lia. reflexivity.
Qed.

Lemma run_levels_strict_app nin e l1 : forall St l2,
  run_levels_strict nin e St (l1 ++ l2) =
  match run_levels_strict nin e St l1 with
  | Some S1 => run_levels_strict nin e S1 l2
  | None => None
  end.
Proof.
  induction l1 as [|L tl IH]; intros St l2; cbn; [reflexivity|].
  destruct (level_strict nin e St 0 L); [apply IH | reflexivity].
Qed.

Lemma level_strict_nth nin e St L : forall j0 St',
  level_strict nin e St j0 L = Some St' ->
  forall j nd, nth_error L j = Some nd ->
  exists x, node_strict nin e St (j0 + j) nd = Some x /\ nth_error St' j = Some x.
Proof.
  induction L as [|n0 tl IH]; intros j0 St' H j nd Hj.
  - destruct j; discriminate.
  - cbn [level_strict] in H.
    destruct (node_strict nin e St j0 n0) as [x0|] eqn:H0; [|discriminate].
    destruct (level_strict nin e St (S j0) tl) as [r|] eqn:Hr; [|discriminate].
    injection H as <-. destruct j as [|j]; cbn in Hj.
    + injection Hj as <-. exists x0. rewrite Nat.add_0_r. split; [exact H0 | reflexivity].
    + destruct (IH (S j0) r Hr j nd Hj) as [x [Hx1 Hx2]].
      exists x. split; [|exact Hx2]. replace (j0 + S j) with (S j0 + j) by lia. exact Hx1.
Qed.

(* ---------- automata ---------- *)
Section Sound.
  Variable A : automaton.
  Hypothesis Aok : automaton_ok A.
  Variable hint : list nat.

  Lemma run_fuel_enough e : forall n q f,
    rank A q <= n -> rank A q < f -> run_fuel A f q e = run_fuel A (S (rank A q)) q e.
  Proof.
    induction n as [|n IH]; intros q f Hn Hf.
    - destruct f as [|f]; [lia|]. cbn [run_fuel].
      destruct (next A q) as [b|v q1 q0] eqn:Hq; [reflexivity|].
      destruct (proj2 Aok _ _ _ _ Hq); lia.
    - destruct f as [|f]; [lia|]. cbn [run_fuel].
      destruct (next A q) as [b|v q1 q0] eqn:Hq; [reflexivity|].
      destruct (proj2 Aok _ _ _ _ Hq) as [H1 H0].
      destruct (e v).
      + rewrite (IH q1 f), (IH q1 (rank A q)) by lia. reflexivity.
      + rewrite (IH q0 f), (IH q0 (rank A q)) by lia. reflexivity.
  Qed.

  Lemma run_unfold e q :
    run_from A q e =
    match next A q with
    | Leaf b => b
    | Read v q1 q0 => if e v then run_from A q1 e else run_from A q0 e
    end.
  Proof.
    unfold run_from. cbn [run_fuel].
    destruct (next A q) as [b|v q1 q0] eqn:Hq; [reflexivity|].
    destruct (proj2 Aok _ _ _ _ Hq) as [H1 H0].
    destruct (e v).
    - apply run_fuel_enough with (n := rank A q1); lia.
    - apply run_fuel_enough with (n := rank A q0); lia.
  Qed.

  Lemma leaf_all_sound e : forall f q b, leaf_all A f q b = true -> run_from A q e = b.
  Proof.
    induction f as [|f IH]; intros q b H; [discriminate|].
    cbn [leaf_all] in H. rewrite run_unfold.
    destruct (next A q) as [b'|v q1 q0].
    - apply eqb_prop in H. congruence.
    - apply andb_true_iff in H as [H1 H0]. destruct (e v); auto.
  Qed.

  (* ---------- de-duplicated work-lists ---------- *)
  Lemma pair_eqb_true (p1 p2 : pair A) : pair_eqb A p1 p2 = true -> p1 = p2.
  Proof.
    destruct p1 as [j1 q1], p2 as [j2 q2]. unfold pair_eqb; cbn [fst snd].
    intros H. apply andb_true_iff in H as [Hj Hq].
    apply Nat.eqb_eq in Hj. apply (proj1 Aok) in Hq. congruence.
  Qed.

  Lemma mem_In p l : mem A p l = true -> In p l.
  Proof.
    induction l as [|x tl IH]; cbn [mem]; [discriminate|].
    intros H. apply orb_true_iff in H as [H|H].
    - left. symmetry. apply pair_eqb_true. exact H.
    - right. auto.
  Qed.

  Lemma add_all_incl new : forall acc p, In p new \/ In p acc -> In p (add_all A new acc).
  Proof.
    induction new as [|p0 tl IH]; intros acc p H; cbn [add_all].
    - destruct H as [[]|H]; exact H.
    - destruct (mem A p0 acc) eqn:Hm.
      + apply IH. destruct H as [[<-|H]|H]; auto. right. apply mem_In. exact Hm.
      + apply IH. destruct H as [[<-|H]|H]; [right; left; reflexivity | auto | right; right; exact H].
  Qed.

  (* ---------- one level ---------- *)
  Variable nin : nat.
  Variable e : env.

  Lemma expand_sound L lvl St St' :
    level_strict nin e St 0 L = Some St' ->
    forall fuel j q ps,
    expand A hint fuel L lvl j q = Some ps ->
    (forall p, In p ps -> rd St (fst p) = Some (run_from A (snd p) e)) ->
    rd St' j = Some (run_from A q e).
  Proof.
    intros HL. induction fuel as [|f IH]; intros j q ps Hex Hps; [discriminate|].
    cbn [expand] in Hex.
    destruct (nth_error L j) as [nd|] eqn:Hnd; [|discriminate].
    destruct (level_strict_nth _ _ _ _ _ _ HL _ _ Hnd) as [x [Hx Hxj]]. cbn [plus] in Hx.
    assert (Hrd : rd St' j = x) by (unfold rd; rewrite Hxj; destruct x; reflexivity).
    destruct nd as [v hi lo| |]; [| |discriminate].
    - cbn [node_strict] in Hx.
      destruct (v <? nin); [|discriminate].
      destruct (rd St hi) as [h|] eqn:Hh; [|discriminate].
      destruct (rd St lo) as [l|] eqn:Hl; [|discriminate].
      injection Hx as <-. rewrite Hrd.
      assert (Hsame : ps = [(hi, q); (lo, q)] -> Some (if e v then h else l) = Some (run_from A q e)).
      { intros ->.
        pose proof (Hps (hi, q) (or_introl eq_refl)) as E1.
        pose proof (Hps (lo, q) (or_intror (or_introl eq_refl))) as E0.
        cbn [fst snd] in E1, E0. rewrite Hh in E1. rewrite Hl in E0.
        destruct (e v); congruence. }
      rewrite (run_unfold e q).
      destruct (next A q) as [b0|v' q1 q0] eqn:Hq.
      + injection Hex as <-. rewrite Hsame by reflexivity. rewrite (run_unfold e q), Hq. reflexivity.
      + destruct (Nat.eqb v v') eqn:Hv.
        * apply Nat.eqb_eq in Hv. subst v'. injection Hex as <-.
          pose proof (Hps (hi, q1) (or_introl eq_refl)) as E1.
          pose proof (Hps (lo, q0) (or_intror (or_introl eq_refl))) as E0.
          cbn [fst snd] in E1, E0. rewrite Hh in E1. rewrite Hl in E0.
          destruct (e v); congruence.
        * destruct (spec_first hint v' lvl).
          -- destruct (expand A hint f L lvl j q1) as [l1|] eqn:X1; [|discriminate].
             destruct (expand A hint f L lvl j q0) as [l0|] eqn:X0; [|discriminate].
             injection Hex as <-.
             assert (R1 : rd St' j = Some (run_from A q1 e)).
             { apply (IH j q1 l1 X1). intros p Hp. apply Hps. apply in_or_app. left; exact Hp. }
             assert (R0 : rd St' j = Some (run_from A q0 e)).
             { apply (IH j q0 l0 X0). intros p Hp. apply Hps. apply in_or_app. right; exact Hp. }
             rewrite Hrd in R1, R0. destruct (e v'); assumption.
          -- injection Hex as <-. rewrite Hsame by reflexivity. rewrite (run_unfold e q), Hq. reflexivity.
    - cbn [node_strict] in Hx. injection Hex as <-.
      destruct (rd St j) as [y|] eqn:Hy; [|discriminate].
      injection Hx as <-. rewrite Hrd.
      pose proof (Hps (j, q) (or_introl eq_refl)) as E. cbn [fst snd] in E. congruence.
  Qed.

  Lemma expand_all_sound L lvl : forall P acc P',
    expand_all A hint L lvl P acc = Some P' ->
    (forall p, In p acc -> In p P') /\
    (forall p, In p P -> exists ps, expand A hint EF L lvl (fst p) (snd p) = Some ps /\
                                    forall p', In p' ps -> In p' P').
  Proof.
    induction P as [|p0 tl IH]; intros acc P' H; cbn [expand_all] in H.
    - injection H as <-. split; [auto | intros p []].
    - destruct (expand A hint EF L lvl (fst p0) (snd p0)) as [ps|] eqn:Hex; [|discriminate].
      destruct (IH _ _ H) as [Hacc Htl]. split.
      + intros p Hp. apply Hacc. apply add_all_incl. right; exact Hp.
      + intros p [<-|Hp].
        * exists ps. split; [exact Hex|]. intros p' Hp'. apply Hacc. apply add_all_incl. left; exact Hp'.
        * apply Htl. exact Hp.
  Qed.

  (* ---------- all levels ---------- *)
  Lemma check_levels_sound w : forall lv_rev P,
    check_levels A hint w lv_rev P = true ->
    forall St, run_levels_strict nin e (init_strict w) (rev lv_rev) = Some St ->
    forall p, In p P -> rd St (fst p) = Some (run_from A (snd p) e).
  Proof.
    induction lv_rev as [|L below IH]; intros P Hc St Hrun p Hp.
    - cbn [rev run_levels_strict] in Hrun. injection Hrun as <-. cbn [check_levels] in Hc.
      rewrite forallb_forall in Hc. specialize (Hc p Hp).
      apply andb_true_iff in Hc as [Hlt Hleaf]. apply Nat.ltb_lt in Hlt.
      rewrite init_rd by exact Hlt. f_equal. symmetry. eapply leaf_all_sound. exact Hleaf.
    - cbn [check_levels] in Hc.
      destruct (expand_all A hint L (length (L :: below)) P []) as [P'|] eqn:Hex; [|discriminate].
      cbn [rev] in Hrun. rewrite run_levels_strict_app in Hrun.
      destruct (run_levels_strict nin e (init_strict w) (rev below)) as [S0|] eqn:H0; [|discriminate].
      cbn [run_levels_strict] in Hrun.
      destruct (level_strict nin e S0 0 L) as [S1|] eqn:H1; [|discriminate].
      injection Hrun as <-.
      destruct (expand_all_sound _ _ _ _ _ Hex) as [_ HP].
      destruct (HP p Hp) as [ps [Hps Hin]].
      eapply expand_sound; [exact H1 | exact Hps |].
      intros p' Hp'. eapply IH; [exact Hc | reflexivity | apply Hin; exact Hp'].
  Qed.

  (* ---------- the definedness pass guarantees that the strict evaluator does not fail ---------- *)
  Definition abs (D : list bool) (St : list slot) : Prop :=
    forall j, nth j D false = true -> exists b, rd St j = Some b.

  Lemma node_def_ok D St j nd d :
    abs D St -> node_def nin D j nd = Some d ->
    exists x, node_strict nin e St j nd = Some x /\ (d = true -> exists b, x = Some b).
  Proof.
    intros Habs H. destruct nd as [v hi lo| |]; cbn [node_def node_strict] in *.
    - destruct (v <? nin); [|discriminate]. cbn [andb] in H.
      destruct (nth hi D false) eqn:Dh; [|discriminate]. cbn [andb] in H.
      destruct (nth lo D false) eqn:Dl; [|discriminate].
      destruct (Habs _ Dh) as [h ->]. destruct (Habs _ Dl) as [l ->].
      eexists; split; [reflexivity|]. intros _; eexists; reflexivity.
    - destruct (nth j D false) eqn:Dj; [|discriminate].
      destruct (Habs _ Dj) as [y ->]. eexists; split; [reflexivity|]. intros _; eexists; reflexivity.
    - injection H as <-. eexists; split; [reflexivity|]. discriminate.
  Qed.

  Lemma level_def_ok D St L : forall j0 D',
    abs D St -> level_def nin D j0 L = Some D' ->
    exists St', level_strict nin e St j0 L = Some St' /\ abs D' St'.
  Proof.
    induction L as [|nd tl IH]; intros j0 D' Habs H; cbn [level_def level_strict] in *.
    - injection H as <-. exists []. split; [reflexivity|]. intros j Hj. destruct j; discriminate.
    - destruct (node_def nin D j0 nd) as [d|] eqn:Hd; [|discriminate].
      destruct (level_def nin D (S j0) tl) as [r|] eqn:Hr; [|discriminate].
      injection H as <-.
      destruct (node_def_ok _ _ _ _ _ Habs Hd) as [x [Hx Hxd]].
      destruct (IH _ _ Habs Hr) as [Sr [HSr Habs']].
      rewrite Hx, HSr. eexists; split; [reflexivity|].
      intros j Hj. destruct j as [|j]; cbn [nth] in Hj.
      + destruct (Hxd Hj) as [b ->]. exists b. reflexivity.
      + exact (Habs' j Hj).
  Qed.

  Lemma run_def_ok lv : forall D St D',
    abs D St -> run_def nin D lv = Some D' ->
    exists St', run_levels_strict nin e St lv = Some St' /\ abs D' St'.
  Proof.
    induction lv as [|L tl IH]; intros D St D' Habs H; cbn [run_def run_levels_strict] in *.
    - injection H as <-. exists St. split; [reflexivity | exact Habs].
    - destruct (level_def nin D 0 L) as [D1|] eqn:H1; [|discriminate].
      destruct (level_def_ok _ _ _ _ _ Habs H1) as [S1 [HS1 Habs1]].
      rewrite HS1. eapply IH; eauto.
  Qed.

  Lemma init_abs w : abs (repeat true w) (init_strict w).
  Proof.
    intros j Hj. destruct (Nat.lt_ge_cases j w) as [Hlt|Hge].
    - eexists. apply init_rd. exact Hlt.
    - rewrite nth_overflow in Hj by (rewrite repeat_length; exact Hge). discriminate.
  Qed.
End Sound.

(* ---------- the theorem ---------- *)
Theorem check_sound (A : automaton) (hint : list nat) (c : circuit) :
  automaton_ok A -> check A hint c = true -> forall e, eval_strict c e = Some (run A e).
Proof.
  intros Aok Hc e. unfold check in Hc. unfold eval_strict.
  destruct (c_width c) as [|w'] eqn:Hw.
  - f_equal. symmetry. unfold run. eapply leaf_all_sound; eauto.
  - apply andb_true_iff in Hc as [Hwf Hc]. unfold wf in Hwf. rewrite Hw in Hwf.
    destruct (levels_of c) as [lv|]; [|discriminate].
    destruct lv as [|L0 lv']; [discriminate|].
    set (lv := L0 :: lv') in *.
    apply andb_true_iff in Hwf as [Hshape Hdef].
    destruct (run_def (c_nin c) (repeat true (S w')) lv) as [D|] eqn:HD; [|discriminate].
    destruct (run_def_ok (c_nin c) e lv _ _ _ (init_abs (S w')) HD) as [Sf [HSf _]].
    assert (Hroot : rd Sf 0 = Some (run A e)).
    { assert (Hrev : run_levels_strict (c_nin c) e (init_strict (S w')) (rev (rev lv)) = Some Sf)
        by (rewrite rev_involutive; exact HSf).
      exact (check_levels_sound A Aok hint (c_nin c) e (S w') (rev lv) _ Hc Sf Hrev (0, start A) (or_introl eq_refl)). }
    assert (Hne : lv <> []) by discriminate.
    rewrite (app_removelast_last [] Hne) in HSf.
    rewrite run_levels_strict_app in HSf.
    destruct (run_levels_strict (c_nin c) e (init_strict (S w')) (removelast lv)) as [S1|]; [|discriminate].
    cbn [run_levels_strict] in HSf.
    destruct (last lv []) as [|[v hi lo| |] tl]; try discriminate.
    cbn [level_strict node_strict] in HSf. cbn [root_strict].
    destruct (v <? c_nin c); [|discriminate].
    destruct (rd S1 hi) as [h|]; [|discriminate].
    destruct (rd S1 lo) as [l|]; [|discriminate].
    destruct (level_strict (c_nin c) e S1 1 tl) as [r|]; [|discriminate].
    injection HSf as <-. rewrite rd_cons_0 in Hroot. exact Hroot.
Qed.

(* the checker applied to a whole family *)
Lemma check_family_sound (A : nat -> automaton) hints tab :
  (forall i, automaton_ok (A i)) -> check_family A hints tab = true ->
  forall i, i < 32 -> forall e, eval_strict (circuit_at tab i) e = Some (run (A i) e).
Proof.
  intros Aok H i Hi e. unfold check_family in H. rewrite forallb_forall in H.
  apply (check_sound (A i) (nth i hints [])); [apply Aok|].
  apply H. apply in_seq. lia.
Qed.
