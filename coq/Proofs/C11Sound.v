(* C11: the pair-run model run_c11 always satisfies its own oracle (oracle_c11 = 1) -- the executable check's verdict
   on the model outputs is a theorem, for every C08 / C09 single-destination opcode, any shape with n >= 1:
   overwriting forms for arbitrary (res, res_alt); accumulate forms when res and res_alt agree on the selected column. *)
From PV Require Import Base.MachineInt Model.Znx Model.Limbs Model.Flat Model.Ring Model.C08Run Model.C09Run Model.C11Run
  Proofs.C11Frame Proofs.C11Read Proofs.C11Ops Proofs.C11Oracle Proofs.C11Ring Proofs.C11Indep.
From Coq Require Import Arith PeanoNat List Bool.
Open Scope nat_scope.

Lemma with_alt_spec (res alt : list Z) rest : with_alt (res :: rest ++ [alt]) = alt :: rest.
Proof.
  unfold with_alt. f_equal.
  - rewrite app_comm_cons. apply last_last.
  - apply removelast_last.
Qed.

Lemma without_alt_spec (res alt : list Z) rest : without_alt (res :: rest ++ [alt]) = res :: rest.
Proof. unfold without_alt. rewrite app_comm_cons. apply removelast_last. Qed.

Lemma last_alt_spec (res alt : list Z) rest : last (res :: rest ++ [alt]) [] = alt.
Proof. rewrite app_comm_cons. apply last_last. Qed.

(* the three conjuncts of the oracle from the frame / independence facts *)
Lemma oracle_core n cols size col (res alt o1 o2 : list Z) :
  0 < n -> col < cols -> n * cols * size <= length o1 -> length o1 = length o2 ->
  (length o1 = length res /\
   forall idx d, C11Frame.in_col n cols size col idx = false -> nth idx o1 d = nth idx res d) ->
  (length o2 = length alt /\
   forall idx d, C11Frame.in_col n cols size col idx = false -> nth idx o2 d = nth idx alt d) ->
  col_limbs n cols size o1 col = col_limbs n cols size o2 col ->
  frame_eq n cols size col 0 res o1 && frame_eq n cols size col 0 alt o2 && col_eq n cols size col 0 o1 o2 = true.
Proof.
  intros Hn Hc Hd Hl [L1 F1] [L2 F2] Hcol.
  rewrite !andb_true_iff. repeat split.
  - apply frame_eq_sound. split; [lia|]. intros idx Hout. symmetry. apply F1. exact Hout.
  - apply frame_eq_sound. split; [lia|]. intros idx Hout. symmetry. apply F2. exact Hout.
  - apply col_eq_col_limbs; try assumption. split; assumption.
Qed.

Definition oracle_verdict (ps : list Z) (res alt o1 o2 : list Z) : bool :=
  let n := Z.to_nat (nth 1 ps 0%Z) in let cols := Z.to_nat (nth 2 ps 0%Z) in
  let size := Z.to_nat (nth 3 ps 0%Z) in let col := Z.to_nat (nth 5 ps 0%Z) in
  frame_eq n cols size col 0 res o1 && frame_eq n cols size col 0 alt o2 && col_eq n cols size col 0 o1 o2.

Lemma oracle_c11_unfold c ps (res alt : list Z) rest o1 o2 :
  (0 <= c)%Z -> c <> 9021%Z ->
  oracle_c11 (110000 + c) ps (res :: rest ++ [alt]) [o1; o2] = if oracle_verdict ps res alt o1 o2 then 1%Z else 0%Z.
Proof.
  intros Hc Hne. unfold oracle_c11.
  destruct (Z.leb_spec 110000 (110000 + c)) as [_|]; [|lia].
  replace (110000 + c - 110000)%Z with c by lia.
  destruct (Z.eqb_spec c 9021); [contradiction|].
  cbv zeta. rewrite last_alt_spec. reflexivity.
Qed.

Lemma run_c11_unfold c ps (res alt : list Z) rest :
  (0 <= c)%Z ->
  run_c11 (110000 + c) ps (res :: rest ++ [alt]) =
  match base_run c ps (res :: rest), base_run c ps (alt :: rest) with
  | Some (o1 :: _), Some (o2 :: _) => Some [o1; o2]
  | _, _ => None
  end.
Proof.
  intros Hc. unfold run_c11.
  destruct (Z.leb_spec 110000 (110000 + c)) as [_|]; [|lia].
  replace (110000 + c - 110000)%Z with c by lia.
  cbv zeta. rewrite with_alt_spec, without_alt_spec. reflexivity.
Qed.

(* ---------- C09 ---------- *)
Lemma base_run_c09 c ps vs : In c c09_single_codes -> base_run c ps vs = run_c09 c ps vs.
Proof.
  intros Hin. unfold c09_single_codes in Hin. cbn [In] in Hin.
  repeat (destruct Hin as [<- | Hin]; [reflexivity|]). contradiction.
Qed.

Lemma c09_codes_range c : In c c09_single_codes -> (0 <= c)%Z /\ c <> 9021%Z.
Proof.
  intros Hin. unfold c09_single_codes in Hin. cbn [In] in Hin.
  repeat (destruct Hin as [<- | Hin]; [split; [lia|discriminate]|]). contradiction.
Qed.

Lemma run_c09_single c ps res rest x t :
  In c c09_single_codes -> run_c09 c ps (res :: rest) = Some (x :: t) -> t = [].
Proof.
  intros Hin H. rewrite (run_c09_col c ps res rest Hin) in H.
  destruct (c09_col _ _ _ _); [|discriminate]. destruct (shape_ok _ _); [|discriminate].
  inversion H. reflexivity.
Qed.

Lemma shape_ok_len s (d d' : list Z) : shape_ok s d = true -> shape_ok s d' = true -> length d = length d'.
Proof.
  intros H H'. destruct (shape_ok_facts s d H) as (_ & _ & L). destruct (shape_ok_facts s d' H') as (_ & _ & L'). lia.
Qed.

Lemma oracle_header_c09 ps :
  shp ps 0 = {| s_n := Z.to_nat (nth 1 ps 0%Z); s_cols := Z.to_nat (nth 2 ps 0%Z); s_size := Z.to_nat (nth 3 ps 0%Z);
                s_max := Z.to_nat (nth 4 ps 0%Z); s_col := Z.to_nat (nth 5 ps 0%Z) |}.
Proof. reflexivity. Qed.

(* the agreement needed: none for the overwriting forms *)
Definition c09_agree_needed (c : Z) (ps : list Z) (res alt : list Z) : Prop :=
  In c c09_overwrite_codes \/ getcol (shp ps 0) res = getcol (shp ps 0) alt.

Theorem c11_oracle_c09 c ps res alt rest outs :
  In c c09_single_codes -> 0 < s_n (shp ps 0) -> c09_agree_needed c ps res alt ->
  run_c11 (110000 + c) ps (res :: rest ++ [alt]) = Some outs ->
  oracle_c11 (110000 + c) ps (res :: rest ++ [alt]) outs = 1%Z.
Proof.
  intros Hin Hn Hag H. destruct (c09_codes_range c Hin) as [Hc Hne].
  rewrite (run_c11_unfold c ps res alt rest Hc), !(base_run_c09 c ps _ Hin) in H.
  destruct (run_c09 c ps (res :: rest)) as [[|o1 t1]|] eqn:H1; try discriminate.
  destruct (run_c09 c ps (alt :: rest)) as [[|o2 t2]|] eqn:H2; try discriminate.
  inversion H; subst outs; clear H.
  rewrite (run_c09_single c ps res rest o1 t1 Hin H1) in H1.
  rewrite (run_c09_single c ps alt rest o2 t2 Hin H2) in H2.
  rewrite (oracle_c11_unfold c ps res alt rest o1 o2 Hc Hne).
  destruct (run_c09_inv c ps res rest o1 Hin H1) as (l1 & _ & S1 & E1 & _).
  destruct (run_c09_inv c ps alt rest o2 Hin H2) as (l2 & _ & S2 & E2 & _).
  pose proof (c09_frame_cons c ps res rest o1 Hin Hn H1) as F1.
  pose proof (c09_frame_cons c ps alt rest o2 Hin Hn H2) as F2.
  assert (Hcol : getcol (shp ps 0) o1 = getcol (shp ps 0) o2).
  { destruct Hag as [Hov|Hag].
    - apply (c09_indep_overwrite c ps res alt rest o1 o2 Hov H1 H2).
    - apply (c09_indep_agree c ps res alt rest o1 o2 Hin Hag H1 H2). }
  destruct (shape_fits _ _ S1) as [Hcc Hd].
  unfold oracle_verdict. cbv zeta.
  rewrite (oracle_header_c09 ps) in *. cbn [s_n s_cols s_size s_col] in *.
  rewrite oracle_core; [reflexivity|exact Hn|exact Hcc| | |exact F1|exact F2|exact Hcol].
  - destruct F1 as [L1 _]. rewrite L1. exact Hd.
  - destruct F1 as [L1 _]. destruct F2 as [L2 _]. rewrite L1, L2. apply (shape_ok_len _ _ _ S1 S2).
Qed.

(* ---------- C08 ---------- *)
Lemma base_run_c08 c ps vs : In c c08_flat_codes -> base_run c ps vs = run_c08_vec c ps vs.
Proof.
  intros Hin. unfold c08_flat_codes in Hin. cbn [In] in Hin.
  repeat (destruct Hin as [<- | Hin]; [reflexivity|]). contradiction.
Qed.

Lemma c08_codes_range c : In c c08_flat_codes -> (0 <= c)%Z /\ c <> 9021%Z.
Proof.
  intros Hin. unfold c08_flat_codes in Hin. cbn [In] in Hin.
  repeat (destruct Hin as [<- | Hin]; [split; [lia|discriminate]|]). contradiction.
Qed.

Lemma one_inv' (o : option (list Z)) x t : one o = Some (x :: t) -> o = Some x /\ t = [].
Proof. destruct o; cbn; intros H; inversion H; auto. Qed.

(* every C08 vector opcode is a col_op on the destination *)
Lemma c08_is_col_op c ps res rest x t :
  In c c08_flat_codes -> run_c08_vec c ps (res :: rest) = Some (x :: t) ->
  t = [] /\ exists f as_ a, col_op f (rshape ps) as_ res a = Some x.
Proof.
  intros Hin H. unfold c08_flat_codes in Hin. cbn [In] in Hin.
  repeat (destruct Hin as [Hc | Hin];
          [subst c; cbv beta iota zeta delta [run_c08_vec v nth] in H;
           apply one_inv' in H; destruct H as [H ->]; split; [reflexivity|];
           eexists; eexists; eexists; exact H |]).
  contradiction.
Qed.

Lemma oracle_header_c08 ps :
  rshape ps = {| s_n := Z.to_nat (nth 1 ps 0%Z); s_cols := Z.to_nat (nth 2 ps 0%Z); s_size := Z.to_nat (nth 3 ps 0%Z);
                 s_max := Z.to_nat (nth 4 ps 0%Z); s_col := Z.to_nat (nth 5 ps 0%Z) |}.
Proof. reflexivity. Qed.

Definition c08_agree_needed (c : Z) (ps : list Z) (res alt : list Z) : Prop :=
  In c c08_overwrite_codes \/ colsel (rshape ps) res = colsel (rshape ps) alt.

Theorem c11_oracle_c08 c ps res alt rest outs :
  In c c08_flat_codes -> 0 < s_n (rshape ps) -> c08_agree_needed c ps res alt ->
  run_c11 (110000 + c) ps (res :: rest ++ [alt]) = Some outs ->
  oracle_c11 (110000 + c) ps (res :: rest ++ [alt]) outs = 1%Z.
Proof.
  intros Hin Hn Hag H. destruct (c08_codes_range c Hin) as [Hc Hne].
  rewrite (run_c11_unfold c ps res alt rest Hc), !(base_run_c08 c ps _ Hin) in H.
  destruct (run_c08_vec c ps (res :: rest)) as [[|o1 t1]|] eqn:H1; try discriminate.
  destruct (run_c08_vec c ps (alt :: rest)) as [[|o2 t2]|] eqn:H2; try discriminate.
  inversion H; subst outs; clear H.
  destruct (c08_is_col_op c ps res rest o1 t1 Hin H1) as (-> & f1 & as1 & a1 & C1).
  destruct (c08_is_col_op c ps alt rest o2 t2 Hin H2) as (-> & f2 & as2 & a2 & C2).
  rewrite (oracle_c11_unfold c ps res alt rest o1 o2 Hc Hne).
  destruct (col_op_inv _ _ _ _ _ _ C1) as (l1 & _ & S1 & _ & _ & _).
  destruct (col_op_inv _ _ _ _ _ _ C2) as (l2 & _ & S2 & _ & _ & _).
  pose proof (col_op_frame _ _ _ _ _ _ Hn C1) as F1.
  pose proof (col_op_frame _ _ _ _ _ _ Hn C2) as F2.
  assert (Hcol : colsel (rshape ps) o1 = colsel (rshape ps) o2).
  { destruct Hag as [Hov|Hag].
    - apply (c08_indep_overwrite c ps res alt rest o1 o2 Hov H1 H2).
    - apply (c08_indep_agree c ps res alt rest o1 o2 Hin Hag H1 H2). }
  destruct (shape_fits _ _ S1) as [Hcc Hd].
  unfold oracle_verdict, colsel in *. cbv zeta.
  rewrite (oracle_header_c08 ps) in *. cbn [s_n s_cols s_size s_col] in *.
  rewrite oracle_core; [reflexivity|exact Hn|exact Hcc| | |exact F1|exact F2|exact Hcol].
  - destruct F1 as [L1 _]. rewrite L1. exact Hd.
  - destruct F1 as [L1 _]. destruct F2 as [L2 _]. rewrite L1, L2. apply (shape_ok_len _ _ _ S1 S2).
Qed.
