(* C15 — word operations: the homomorphic BDD evaluator refines C13's [eval_stale] under [cmux_selects]; composition
   with the circuit theorems of C13, the bit layout and the packing lemma gives: packed encryption -> prepare ->
   circuit evaluation -> repack decrypts to the word operation. *)
From Coq Require Import ZArith List Bool Arith Lia.
From PV Require Import Gen.C15_gen Model.C13Bdd Model.C15Uint Model.C15Word
  Proofs.C13Circuits Proofs.C15Layout Proofs.C15Surgery.
Import ListNotations.
Open Scope nat_scope.

Lemma Forall2_map_same {A B C} (R : B -> C -> Prop) (f : A -> B) (h : A -> C) l :
  (forall x, R (f x) (h x)) -> Forall2 R (map f l) (map h l).
Proof. intros H; induction l; cbn; constructor; auto. Qed.

Lemma Forall2_firstn {A B} (R : A -> B -> Prop) n l l' : Forall2 R l l' -> Forall2 R (firstn n l) (firstn n l').
Proof. intros H; revert n; induction H; intros [|n]; cbn; constructor; auto. Qed.

Lemma Forall2_skipn {A B} (R : A -> B -> Prop) n l l' : Forall2 R l l' -> Forall2 R (skipn n l) (skipn n l').
Proof. intros H; revert n; induction H; intros [|n]; cbn; auto. Qed.

Section Eval.
  Variables glwe ggsw : Type.
  Variable cmux : glwe -> glwe -> ggsw -> glwe.
  Variables ct_zero ct_one : glwe.
  Variable enc_bit : glwe -> bool -> Prop.       (* the ciphertext's ideal plaintext is this bit (scale 2^-2, coefficient 0) *)
  Variable enc_sel : ggsw -> bool -> Prop.       (* the prepared GGSW encrypts this bit *)
  Variable quiet : glwe -> Prop.                 (* its accumulated error is below the decoding threshold *)
  Hypothesis zero_ok : enc_bit ct_zero false.
  Hypothesis one_ok : enc_bit ct_one true.
  (* C04: cmux(t, f, s) = (t - f) * s + f selects t when s encrypts 1, f when it encrypts 0 *)
  Hypothesis cmux_selects : forall t f s bt bf b,
    enc_bit t bt -> enc_bit f bf -> enc_sel s b -> quiet (cmux t f s) -> enc_bit (cmux t f s) (if b then bt else bf).

  Notation hnode := (hnode glwe ggsw cmux ct_zero).
  Notation hlevel := (hlevel glwe ggsw cmux ct_zero).
  Notation hstep := (hstep glwe ggsw cmux ct_zero).
  Notation hinit := (hinit glwe ct_zero ct_one).
  Notation hroot := (hroot glwe ggsw cmux ct_zero).
  Notation hrun := (hrun glwe ggsw cmux ct_zero).
  Notation heval := (heval glwe ggsw cmux ct_zero ct_one).

  Lemma F2_nth l l' i : Forall2 enc_bit l l' -> enc_bit (nth i l ct_zero) (nth i l' false).
  Proof. intros H; revert i; induction H; intros [|i]; cbn; auto. Qed.

  Section Fixed.
    Variable s : nat -> ggsw.
    Variable e : env.
    Variables nb w : nat.
    Hypothesis Hsel : forall v, v < nb -> enc_sel (s v) (e v).

    Lemma hlevel_ok L : forall j prev pb next nx,
      Forall2 enc_bit prev pb -> Forall2 enc_bit next nx ->
      forallb (node_safe nb w) L = true -> Forall quiet (hlevel s prev next j L) ->
      Forall2 enc_bit (hlevel s prev next j L) (level_stale e pb nx j L).
    Proof.
      induction L as [|nd L IH]; intros j prev pb next nx Hp Hn Hs Hq; cbn; [constructor|].
      cbn in Hs. apply andb_true_iff in Hs as [Hnd Hs]. cbn in Hq. inversion Hq as [|? ? Hq1 Hq2]; subst.
      constructor; [|apply IH; auto].
      destruct nd as [v hi lo| |]; cbn in *.
      - apply andb_true_iff in Hnd as [Hnd _]. apply andb_true_iff in Hnd as [Hv _]. apply Nat.ltb_lt in Hv.
        apply cmux_selects; auto using F2_nth.
      - apply F2_nth; auto.
      - apply F2_nth; auto.
    Qed.

    Definition Inv (st : hstate glwe) (sb : list bool * list bool) : Prop :=
      Forall2 enc_bit (fst st) (fst sb) /\ Forall2 enc_bit (snd st) (snd sb).

    Lemma hrun_ok lv : forall st sb, Inv st sb ->
      forallb (forallb (node_safe nb w)) lv = true -> Forall quiet (snd (hrun s st lv)) ->
      Inv (fst (hrun s st lv)) (fold_left (step_stale e) lv sb).
    Proof.
      induction lv as [|L lv IH]; intros st sb [H1 H2] Hs Hq; cbn; [split; auto|].
      cbn in Hs. apply andb_true_iff in Hs as [HL Hs]. cbn in Hq. apply Forall_app in Hq as [Hq1 Hq2].
      apply IH; auto. split; cbn; [|exact H1]. apply hlevel_ok; auto.
    Qed.

    Lemma hinit_ok : Inv (hinit w) (init_buf w).
    Proof.
      unfold Inv, hinit, init_buf, init_level. cbn [fst snd].
      assert (H : Forall2 enc_bit (map (fun i => if Nat.eqb 1 i then ct_one else ct_zero) (seq 0 (2 * w)))
                                  (map (Nat.eqb 1) (seq 0 (2 * w)))).
      { apply Forall2_map_same. intros x. destruct (Nat.eqb 1 x); auto. }
      split; [apply Forall2_firstn | apply Forall2_skipn]; exact H.
    Qed.
  End Fixed.

  (* the homomorphic evaluation of one output bit encrypts what C13's evaluator computes on the selector bits *)
  Lemma heval_correct c s e nb : exec_safe nb c = true -> (forall v, v < nb -> enc_sel (s v) (e v)) ->
    Forall quiet (snd (heval c s)) -> enc_bit (fst (heval c s)) (eval_stale c e).
  Proof.
    intros Hsafe Hsel Hq. unfold heval, eval_stale, exec_safe in *.
    destruct (c_width c) as [|w'] eqn:Ew; [exact zero_ok|].
    destruct (levels_of c) as [lv|]; [|discriminate].
    unfold heval_levels, eval_levels_stale in *. destruct lv as [|L0 lv0]; [discriminate|].
    set (lv := L0 :: lv0) in *. apply andb_true_iff in Hsafe as [Hs1 Hs2].
    cbn [fst snd] in *. apply Forall_app in Hq as [Hq1 Hq2].
    pose proof (hrun_ok s e nb (S w') Hsel (removelast lv) (hinit (S w')) (init_buf (S w')) (hinit_ok (S w')) Hs1 Hq1) as [Hf _].
    destruct (last lv []) as [|nd tl]; [discriminate|]. destruct nd as [v hi lo| |]; try discriminate.
    cbn [hroot root_stale] in *. cbn [C15Word.hroot] in *. inversion Hq2 as [|? ? Hq3 _]; subst.
    cbn in Hs2. apply andb_true_iff in Hs2 as [Hs2 _]. apply andb_true_iff in Hs2 as [Hv _]. apply Nat.ltb_lt in Hv.
    apply cmux_selects; auto using F2_nth.
  Qed.
End Eval.

(* ------------------------------------------------------------------------------------------------ *)
(** * The eleven u32 word operations *)

Inductive wop := Wadd | Wsub | Wsll | Wsrl | Wsra | Wslt | Wsltu | Wand | Wor | Wxor.
Definition wop_circ (o : wop) : nat -> circuit :=
  match o with
  | Wadd => circuit_add | Wsub => circuit_sub | Wsll => circuit_sll | Wsrl => circuit_srl | Wsra => circuit_sra
  | Wslt => circuit_slt | Wsltu => circuit_sltu | Wand => circuit_and | Wor => circuit_or | Wxor => circuit_xor
  end.
(* the RISC-V word operation (definitions of Model/C13Bdd.v: (a+b) mod 2^32, a << (b & 31), signed <, ...) *)
Definition wop_fun (o : wop) : Z -> Z -> Z :=
  match o with
  | Wadd => op_add | Wsub => op_sub | Wsll => op_sll | Wsrl => op_srl | Wsra => op_sra
  | Wslt => op_slt | Wsltu => op_sltu | Wand => op_and | Wor => op_or | Wxor => op_xor
  end.

Open Scope Z_scope.

Lemma wop_correct o a b : 0 <= a < 2 ^ 32 -> 0 <= b < 2 ^ 32 -> forall i, (i < 32)%nat ->
  eval_stale (wop_circ o i) (env_of a b) = Z.testbit (wop_fun o a b) (Z.of_nat i).
Proof.
  destruct o; cbn [wop_circ wop_fun];
    [apply circuit_add_correct | apply circuit_sub_correct | apply circuit_sll_correct | apply circuit_srl_correct
     | apply circuit_sra_correct | apply circuit_slt_correct | apply circuit_sltu_correct | apply circuit_and_correct
     | apply circuit_or_correct | apply circuit_xor_correct].
Qed.

Lemma family_safe nin nout hb tab i : FamilyWellFormed nin nout hb tab -> exec_safe hb (circuit_at tab i) = true.
Proof.
  intros (_ & _ & _ & H). unfold circuit_at. destruct (nth_error tab i) as [c|] eqn:E.
  - rewrite (nth_error_nth _ _ _ E). apply (H i c E).
  - rewrite nth_overflow by (apply nth_error_None; exact E). reflexivity.
Qed.

Lemma wop_safe o i : exec_safe 64 (wop_circ o i) = true.
Proof.
  destruct o; cbn [wop_circ];
    [apply (family_safe _ _ _ _ _ wellformed_add) | apply (family_safe _ _ _ _ _ wellformed_sub)
     | apply (family_safe _ _ _ _ _ wellformed_sll) | apply (family_safe _ _ _ _ _ wellformed_srl)
     | apply (family_safe _ _ _ _ _ wellformed_sra) | apply (family_safe _ _ _ _ _ wellformed_slt)
     | apply (family_safe _ _ _ _ _ wellformed_sltu) | apply (family_safe _ _ _ _ _ wellformed_and)
     | apply (family_safe _ _ _ _ _ wellformed_or) | apply (family_safe _ _ _ _ _ wellformed_xor)].
Qed.

Lemma identity_safe i : exec_safe 32 (circuit_identity i) = true.
Proof. apply (family_safe _ _ _ _ _ wellformed_identity). Qed.

Lemma high_bits_false x n m : 0 <= x < 2 ^ n -> n <= m -> Z.testbit x m = false.
Proof.
  intros Hx Hm. assert (0 <= n) by (destruct (Z_lt_le_dec n 0); [rewrite Z.pow_neg_r in Hx by lia; lia | lia]).
  rewrite <- (Z.mod_small x (2 ^ n)) by lia. apply Z.mod_pow2_bits_high. lia.
Qed.

Lemma lt_pow2_of_bits x n : 0 <= n -> 0 <= x -> (forall m, n <= m -> Z.testbit x m = false) -> x < 2 ^ n.
Proof.
  intros Hn Hx H. assert (E : x = x mod 2 ^ n).
  { apply Z.bits_inj'. intros m Hm. destruct (Z_lt_le_dec m n).
    - now rewrite Z.mod_pow2_bits_low.
    - rewrite Z.mod_pow2_bits_high by lia. apply H; lia. }
  rewrite E. apply Z.mod_pos_bound. apply Z.pow_pos_nonneg; lia.
Qed.

Lemma wop_range o a b : 0 <= a < 2 ^ 32 -> 0 <= b < 2 ^ 32 -> 0 <= wop_fun o a b < 2 ^ 32.
Proof.
  intros Ha Hb. assert (Hp : 0 < 2 ^ 32) by (apply Z.pow_pos_nonneg; lia).
  destruct o; cbn [wop_fun]; unfold op_add, op_sub, op_sll, op_srl, op_sra, op_slt, op_sltu, op_and, op_or, op_xor;
    try (apply Z.mod_pos_bound; exact Hp).
  - assert (0 <= Z.land b 31) by (apply Z.land_nonneg; lia).
    rewrite Z.shiftr_div_pow2 by lia. assert (0 < 2 ^ Z.land b 31) by (apply Z.pow_pos_nonneg; lia).
    split; [apply Z.div_pos; lia|]. apply Z.le_lt_trans with a; [|lia]. apply Z.div_le_upper_bound; nia.
  - destruct (sgn32 a <? sgn32 b); lia.
  - destruct (a <? b); lia.
  - split; [apply Z.land_nonneg; lia|]. apply lt_pow2_of_bits; [lia | apply Z.land_nonneg; lia|].
    intros m Hm. rewrite Z.land_spec, (high_bits_false a 32 m) by lia. reflexivity.
  - split; [apply Z.lor_nonneg; lia|]. apply lt_pow2_of_bits; [lia | apply Z.lor_nonneg; lia|].
    intros m Hm. rewrite Z.lor_spec, (high_bits_false a 32 m), (high_bits_false b 32 m) by lia. reflexivity.
  - split; [apply Z.lxor_nonneg; lia|]. apply lt_pow2_of_bits; [lia | apply Z.lxor_nonneg; lia|].
    intros m Hm. rewrite Z.lxor_spec, (high_bits_false a 32 m), (high_bits_false b 32 m) by lia. reflexivity.
Qed.

Lemma Forall_concat' {A} (Q : A -> Prop) (ls : list (list A)) : Forall Q (concat ls) -> Forall (Forall Q) ls.
Proof. induction ls as [|l ls IH]; cbn; intros H; constructor; apply Forall_app in H as [H1 H2]; auto. Qed.

Lemma Forall2_map_in {A B C} (R : B -> C -> Prop) (f : A -> B) (h : A -> C) l :
  (forall x, In x l -> R (f x) (h x)) -> Forall2 R (map f l) (map h l).
Proof. induction l; cbn; intros H; constructor; auto. Qed.

Section WordOp.
  Variables glwe ggsw lwe : Type.
  Variable cmux : glwe -> glwe -> ggsw -> glwe.
  Variables ct_zero ct_one : glwe.
  Variable get_lwe : glwe -> Z -> lwe.
  Variable cbt : lwe -> ggsw.
  Variable gpack : list glwe -> glwe.
  Variable decrypt : glwe -> Z.
  Variable logn : Z.
  Hypothesis Hlogn : 5 <= logn.
  Let T := std_wty 2.                                  (* u32 *)

  Variable enc_poly : glwe -> poly -> Prop.            (* the ciphertext's ideal plaintext (scale 2^-2) is this polynomial *)
  Variable lwe_msg : lwe -> Z -> Prop.                 (* the LWE ciphertext's ideal message (scale 2^-2) *)
  Variable enc_sel : ggsw -> bool -> Prop.             (* the prepared GGSW encrypts this bit in every cell *)
  (* noise side conditions: the accumulated error of the object is below its decoding threshold *)
  Variable quiet : glwe -> Prop.
  Variable quiet_lwe : lwe -> Prop.
  Variable quiet_ggsw : ggsw -> Prop.
  Let enc_bit (c : glwe) (b : bool) : Prop := enc_poly c (p_const (if b then 1 else 0)).

  Hypothesis zero_ok : enc_bit ct_zero false.
  Hypothesis one_ok : enc_bit ct_one true.
  (* C04 *)
  Hypothesis cmux_selects : forall t f s bt bf b,
    enc_bit t bt -> enc_bit f bf -> enc_sel s b -> quiet (cmux t f s) -> enc_bit (cmux t f s) (if b then bt else bf).
  (* C03: key-switch to the LWE key, rotation by -idx and sample extraction read coefficient idx *)
  Hypothesis extract_bit : forall c q i, enc_poly c q -> 0 <= i < 32 -> quiet_lwe (get_lwe c i) ->
    lwe_msg (get_lwe c i) (get_bit_lwe T logn i q).
  (* C15_circuit_bootstrap_cells (constant mode, log_domain 1) followed by ggsw_prepare *)
  Hypothesis circuit_bootstrap : forall l m b, lwe_msg l m -> cb_bit m = Some b -> quiet_ggsw (cbt l) -> enc_sel (cbt l) b.
  (* C03: glwe_pack puts the constant coefficient of ciphertext k at position k and clears the rest *)
  Hypothesis pack_places : forall cts qs q, Forall2 enc_poly cts qs -> pack T logn qs = Some q -> quiet (gpack cts) ->
    enc_poly (gpack cts) q.
  (* C01: decryption decodes the ideal plaintext when the error is below the threshold *)
  Hypothesis decrypt_decodes : forall c q, enc_poly c q -> quiet c -> decrypt c = p_dec T logn q.

  Notation heval := (heval glwe ggsw cmux ct_zero ct_one).
  Notation hword := (hword glwe ggsw cmux ct_zero ct_one gpack).
  Notation prepare_ct := (prepare_ct glwe ggsw lwe get_lwe cbt).

  (* noise side condition of one operand's preparation *)
  Definition operand_quiet (c : glwe) : Prop :=
    forall i, 0 <= i < 32 -> quiet_lwe (get_lwe c i) /\ quiet_ggsw (cbt (get_lwe c i)).

  Lemma prepare_ok c w : enc_poly c (p_enc T logn w) -> operand_quiet c ->
    forall i, (i < 32)%nat -> enc_sel (prepare_ct c i) (Z.testbit w (Z.of_nat i)).
  Proof.
    intros Hc Hq i Hi. unfold C15Word.prepare_ct. destruct (Hq (Z.of_nat i) ltac:(lia)) as [Q1 Q2].
    apply (circuit_bootstrap _ (bitz w (Z.of_nat i))); auto.
    - rewrite <- (get_bit_lwe_enc 2 logn ltac:(lia) ltac:(lia) w (Z.of_nat i)) by (change (8 * 2 ^ 2) with 32; lia).
      apply extract_bit; auto. lia.
    - unfold cb_bit, bitz. destruct (Z.testbit w (Z.of_nat i)); reflexivity.
  Qed.

  Lemma nth_map_seq {A} (h : nat -> A) d k n : (k < n)%nat -> nth k (map h (seq 0 n)) d = h k.
  Proof. intros Hk. rewrite (nth_indep _ d (h 0%nat)) by (rewrite map_length, seq_length; lia). rewrite map_nth, seq_nth by lia. reflexivity. Qed.

  (* 32 circuits on selectors that encrypt the environment e, repacked: the decryption is the word whose bits the
     circuits compute *)
  Lemma hword_correct circ nb s e r :
    (forall i, (i < 32)%nat -> exec_safe nb (circ i) = true) ->
    (forall v, (v < nb)%nat -> enc_sel (s v) (e v)) ->
    (forall i, (i < 32)%nat -> eval_stale (circ i) e = Z.testbit r (Z.of_nat i)) ->
    0 <= r < 2 ^ 32 ->
    Forall quiet (snd (hword circ s)) -> quiet (fst (hword circ s)) ->
    decrypt (fst (hword circ s)) = r.
  Proof.
    intros Hsafe Hsel Hcirc Hr Hq Hqp. unfold C15Word.hword in *. cbn [fst snd] in *.
    set (outs := map (fun i => heval (circ i) s) (seq 0 32)) in *.
    set (bits := map (fun i => Z.testbit r (Z.of_nat i)) (seq 0 32)).
    assert (Hout : Forall2 enc_poly (map fst outs) (map (fun b : bool => p_const (if b then 1 else 0)) bits)).
    { unfold outs, bits. rewrite !map_map. apply Forall2_map_in. intros i Hi. apply in_seq in Hi.
      rewrite <- Hcirc by lia.
      apply (heval_correct glwe ggsw cmux ct_zero ct_one enc_bit enc_sel quiet zero_ok one_ok cmux_selects _ _ _ nb); auto.
      - apply Hsafe; lia.
      - apply Forall_concat' in Hq. rewrite Forall_forall in Hq. apply Hq. unfold outs. rewrite map_map.
        apply in_map_iff. exists i; split; [reflexivity | apply in_seq; lia]. }
    destruct (pack_bits 2 logn ltac:(lia) ltac:(lia) bits ltac:(unfold bits; rewrite map_length, seq_length; reflexivity))
      as (q & Eq & Edec & _).
    rewrite (decrypt_decodes _ q); [| eapply pack_places; eauto | exact Hqp].
    fold T in Edec. rewrite Edec. assert (En : nbits T = 32%nat) by reflexivity. rewrite En.
    rewrite (wob_ext _ _ (Z.testbit r)); [apply wob_of_testbit; exact Hr|].
    intros i Hi. unfold bits. rewrite nth_map_seq by lia. f_equal; lia.
  Qed.

  (* C15_word_op_correct: two packed encryptions, prepared through circuit bootstrapping, one of the ten two-word
     circuits, repacked: the decryption is the RISC-V word operation, provided every intermediate ciphertext stays
     below its decoding threshold *)
  Theorem word_op_correct : forall (o : wop) (a b : Z) (ca cb : glwe),
    0 <= a < 2 ^ 32 -> 0 <= b < 2 ^ 32 ->
    enc_poly ca (p_enc T logn a) -> enc_poly cb (p_enc T logn b) ->
    operand_quiet ca -> operand_quiet cb ->
    let res := hop2 glwe ggsw cmux ct_zero ct_one lwe get_lwe cbt gpack (wop_circ o) ca cb in
    Forall quiet (snd res) -> quiet (fst res) ->
    decrypt (fst res) = wop_fun o a b.
  Proof.
    intros o a b ca cb Ha Hb Hca Hcb Hqa Hqb res Hq Hqp. unfold res, hop2 in *.
    apply (hword_correct (wop_circ o) 64%nat _ (env_of a b)); auto.
    - intros; apply wop_safe.
    - intros v Hv. unfold helper2, env_of. destruct (Nat.ltb_spec v 32).
      + apply prepare_ok; auto.
      + apply prepare_ok; auto. lia.
    - intros; apply wop_correct; auto.
    - apply wop_range; auto.
  Qed.

  Theorem identity_correct : forall (a : Z) (ca : glwe),
    0 <= a < 2 ^ 32 -> enc_poly ca (p_enc T logn a) -> operand_quiet ca ->
    let res := hop1 glwe ggsw cmux ct_zero ct_one lwe get_lwe cbt gpack circuit_identity ca in
    Forall quiet (snd res) -> quiet (fst res) ->
    decrypt (fst res) = a.
  Proof.
    intros a ca Ha Hca Hqa res Hq Hqp. unfold res, hop1 in *.
    apply (hword_correct circuit_identity 32%nat _ (env_of a 0)); auto.
    - intros; apply identity_safe.
    - intros v Hv. unfold env_of. destruct (Nat.ltb_spec v 32); [|lia]. apply prepare_ok; auto.
    - intros i Hi. apply (circuit_identity_correct a 0); auto. lia.
  Qed.
End WordOp.
