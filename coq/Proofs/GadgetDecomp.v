(* Gadget decomposition (shared by C03 / C04), pure index arithmetic and the polynomial-sum library built on it.
   1. zsum_regroup / gadget_decomposition_exact / _clamped / _tail : limbs grouped by (step = dsize, offset = dsize-di-1)
      recombine to the value of the limb vector; with a key of dnum rows exactly the limbs l < dnum*dsize survive.
   2. psumf library (sums of polynomials of length n): swap, linearity, flattening, cut, reversal.
   3. gadget_decomposition_poly : (1) on polynomial limbs.
   4. dft_select_digit : the model's selection (Model/DftAbs.dft_select with step dsize, offset dsize-di-1) is that grouping. *)
From PV Require Import Base.MachineInt Model.Znx Model.Limbs Model.Flat Model.Ring Model.Poly Model.DftAbs Model.Gadget Model.GadgetSpec Proofs.C07Dft Proofs.C07Ring.
Open Scope Z_scope.

Section Regroup.
Lemma div_step_hit (N d : nat) : (1 <= d)%nat ->
  ((S N + (d - 1 - N mod d)) / d = S ((N + (d - 1 - N mod d)) / d))%nat /\
  (((N + (d - 1 - N mod d)) / d) * d + (d - (d - 1 - N mod d) - 1) = N)%nat.
Proof.
  intros Hd.
  pose proof (Nat.div_mod N d ltac:(lia)) as E.
  pose proof (Nat.mod_upper_bound N d ltac:(lia)) as Hr.
  set (r := (N mod d)%nat) in *. set (q := (N / d)%nat) in *.
  assert (H1 : ((N + (d - 1 - r)) / d = q)%nat).
  { symmetry. apply (Nat.div_unique _ _ _ (d - 1)%nat); lia. }
  assert (H2 : ((S N + (d - 1 - r)) / d = S q)%nat).
  { symmetry. apply (Nat.div_unique _ _ _ 0%nat); lia. }
  rewrite H1, H2. split; lia.
Qed.

Lemma div_step_miss (N d di : nat) : (1 <= d)%nat -> (di < d)%nat -> di <> (d - 1 - N mod d)%nat ->
  ((S N + di) / d = (N + di) / d)%nat.
Proof.
  intros Hd Hdi Hne.
  pose proof (Nat.div_mod N d ltac:(lia)) as E.
  pose proof (Nat.mod_upper_bound N d ltac:(lia)) as Hr.
  set (r := (N mod d)%nat) in *. set (q := (N / d)%nat) in *.
  destruct (Nat.lt_ge_cases (r + di) (d - 1)) as [H|H].
  - assert (H1 : ((N + di) / d = q)%nat) by (symmetry; apply (Nat.div_unique _ _ _ (r + di)%nat); lia).
    assert (H2 : ((S N + di) / d = q)%nat) by (symmetry; apply (Nat.div_unique _ _ _ (r + di + 1)%nat); lia).
    lia.
  - assert (H1 : ((N + di) / d = S q)%nat) by (symmetry; apply (Nat.div_unique _ _ _ (r + di - d)%nat); lia).
    assert (H2 : ((S N + di) / d = S q)%nat) by (symmetry; apply (Nat.div_unique _ _ _ (r + di + 1 - d)%nat); lia).
    lia.
Qed.

Theorem zsum_regroup (g : nat -> Z) (d N : nat) : (1 <= d)%nat ->
  zsum g N = zsum (fun di => zsum (fun q => g (q * d + (d - di - 1))%nat) ((N + di) / d)) d.
Proof.
  intros Hd. induction N as [|N IH].
  - rewrite zsum_0. symmetry. apply zsum_none. intros di Hdi.
    rewrite Nat.add_0_l, Nat.div_small by exact Hdi. apply zsum_0.
  - rewrite zsum_S, IH.
    set (d0 := (d - 1 - N mod d)%nat).
    rewrite (zsum_ext (fun di => zsum (fun q => g (q * d + (d - di - 1))%nat) ((S N + di) / d))
              (fun di => zsum (fun q => g (q * d + (d - di - 1))%nat) ((N + di) / d)
                         + (if Nat.eqb di d0 then (fun _ => g N) di else 0))).
    + rewrite zsum_add. f_equal. rewrite zsum_single; [reflexivity|].
      pose proof (Nat.mod_upper_bound N d ltac:(lia)). unfold d0. lia.
    + intros di Hdi. destruct (Nat.eqb_spec di d0) as [->|Hne].
      * destruct (div_step_hit N d Hd) as [H1 H2]. fold d0 in H1, H2.
        rewrite H1, zsum_S, H2. reflexivity.
      * rewrite (div_step_miss N d di Hd Hdi Hne). lia.
Qed.
End Regroup.


Section Exact.
Lemma gadget_exponent (P b : Z) (dsize q di : nat) : (di < dsize)%nat ->
  P - (Z.of_nat (q * dsize + (dsize - di - 1)) + 1) * b
  = P - (Z.of_nat q + 1) * Z.of_nat dsize * b + Z.of_nat di * b.
Proof.
  intros H.
  replace (Z.of_nat (q * dsize + (dsize - di - 1))) with (Z.of_nat q * Z.of_nat dsize + Z.of_nat dsize - Z.of_nat di - 1) by lia.
  ring.
Qed.

Theorem gadget_decomposition_exact (P b : Z) (dsize a_size : nat) (a : nat -> Z) : (1 <= dsize)%nat ->
  zsum (fun l => a l * 2 ^ (P - (Z.of_nat l + 1) * b)) a_size
  = zsum (fun di => zsum (fun q => a (q * dsize + (dsize - di - 1))%nat
                                   * 2 ^ (P - (Z.of_nat q + 1) * Z.of_nat dsize * b + Z.of_nat di * b))
                         ((a_size + di) / dsize)) dsize.
Proof.
  intros Hd.
  rewrite (zsum_regroup (fun l => a l * 2 ^ (P - (Z.of_nat l + 1) * b)) dsize a_size Hd).
  apply zsum_ext; intros di Hdi. apply zsum_ext; intros q _.
  rewrite gadget_exponent by exact Hdi. reflexivity.
Qed.

Lemma clamp_count (a_size dsize dnum di : nat) : (1 <= dsize)%nat -> (di < dsize)%nat ->
  Nat.min ((a_size + di) / dsize) dnum = ((Nat.min a_size (dnum * dsize) + di) / dsize)%nat.
Proof.
  intros Hd Hdi.
  destruct (Nat.le_gt_cases (dnum * dsize) a_size) as [H|H].
  - rewrite (Nat.min_r a_size) by exact H.
    assert (E : ((dnum * dsize + di) / dsize = dnum)%nat).
    { symmetry. apply (Nat.div_unique _ _ _ di); lia. }
    rewrite E. apply Nat.min_r.
    rewrite <- E at 1. apply Nat.div_le_mono; lia.
  - rewrite (Nat.min_l a_size) by lia. apply Nat.min_l.
    apply Nat.lt_succ_r. apply Nat.div_lt_upper_bound; [lia|]. nia.
Qed.

Theorem gadget_decomposition_clamped (P b : Z) (dsize dnum a_size : nat) (a : nat -> Z) : (1 <= dsize)%nat ->
  zsum (fun di => zsum (fun q => a (q * dsize + (dsize - di - 1))%nat
                                   * 2 ^ (P - (Z.of_nat q + 1) * Z.of_nat dsize * b + Z.of_nat di * b))
                         (Nat.min ((a_size + di) / dsize) dnum)) dsize
  = zsum (fun l => a l * 2 ^ (P - (Z.of_nat l + 1) * b)) (Nat.min a_size (dnum * dsize)).
Proof.
  intros Hd. rewrite (gadget_decomposition_exact P b dsize _ a Hd).
  apply zsum_ext; intros di Hdi. rewrite clamp_count by assumption. reflexivity.
Qed.

(* split of a sum at m *)
Lemma zsum_app f m k : zsum f (m + k) = zsum f m + zsum (fun i => f (m + i)%nat) k.
Proof.
  induction k as [|k IH]; [rewrite Nat.add_0_r, zsum_0; lia|].
  rewrite Nat.add_succ_r, !zsum_S, IH. lia.
Qed.

(* the difference to the full value is exactly the dropped tail l in [dnum*dsize, a_size) *)
Corollary gadget_decomposition_tail (P b : Z) (dsize dnum a_size : nat) (a : nat -> Z) : (1 <= dsize)%nat ->
  zsum (fun l => a l * 2 ^ (P - (Z.of_nat l + 1) * b)) a_size
  = zsum (fun di => zsum (fun q => a (q * dsize + (dsize - di - 1))%nat
                                   * 2 ^ (P - (Z.of_nat q + 1) * Z.of_nat dsize * b + Z.of_nat di * b))
                         (Nat.min ((a_size + di) / dsize) dnum)) dsize
    + zsum (fun i => a (dnum * dsize + i)%nat * 2 ^ (P - (Z.of_nat (dnum * dsize + i) + 1) * b)) (a_size - dnum * dsize).
Proof.
  intros Hd. rewrite gadget_decomposition_clamped by exact Hd.
  destruct (Nat.le_gt_cases (dnum * dsize) a_size) as [H|H].
  - rewrite (Nat.min_r a_size) by exact H.
    replace a_size with (dnum * dsize + (a_size - dnum * dsize))%nat at 1 by lia.
    apply zsum_app.
  - rewrite (Nat.min_l a_size) by lia. replace (a_size - dnum * dsize)%nat with 0%nat by lia.
    rewrite zsum_0. lia.
Qed.
End Exact.


(* ---------- polynomial sums ---------- *)
Section PolyBasics.

Lemma map2_comm_add (a b : list Z) : padd a b = padd b a.
Proof.
  unfold padd, map2. revert b; induction a as [|x a IH]; intros [|y b]; cbn [combine map]; try reflexivity.
  cbn [fst snd]. rewrite IH. f_equal. lia.
Qed.
Lemma padd_comm (a b : list Z) : padd a b = padd b a.
Proof. apply map2_comm_add. Qed.

Lemma padd_assoc (a b c : list Z) : padd (padd a b) c = padd a (padd b c).
Proof.
  unfold padd, map2. revert b c; induction a as [|x a IH]; intros [|y b] [|z c]; cbn [combine map]; try reflexivity.
  cbn [fst snd]. f_equal; [lia|]. apply IH.
Qed.

Lemma padd_swap4 (a b c d : list Z) : padd (padd a b) (padd c d) = padd (padd a c) (padd b d).
Proof. rewrite !padd_assoc. f_equal. rewrite <- !padd_assoc. f_equal. apply padd_comm. Qed.

Lemma padd_pzero_l n a : length a = n -> padd (pzero n) a = a.
Proof.
  intros H. apply list_eq_nth; [rewrite padd_length, pzero_length; lia|].
  intros k _. rewrite nth_padd by (rewrite pzero_length; exact H). rewrite nth_pzero. ring.
Qed.
Lemma padd_pzero_r n a : length a = n -> padd a (pzero n) = a.
Proof. intros H. rewrite padd_comm. apply padd_pzero_l; exact H. Qed.
Lemma padd_pzero_pzero n : padd (pzero n) (pzero n) = pzero n.
Proof. apply padd_pzero_l, pzero_length. Qed.

Lemma pscale_length c a : length (pscale c a) = length a.
Proof. apply map_length. Qed.
Lemma nth_pscale c a k : nth k (pscale c a) 0 = c * nth k a 0.
Proof.
  unfold pscale. destruct (Nat.lt_ge_cases k (length a)) as [H|H].
  - apply nth_map'; exact H.
  - rewrite !nth_overflow; [ring|lia|rewrite map_length; lia].
Qed.
Lemma pscale_padd c a b : pscale c (padd a b) = padd (pscale c a) (pscale c b).
Proof.
  unfold pscale, padd, map2. revert b; induction a as [|x a IH]; intros [|y b]; cbn [combine map]; try reflexivity.
  cbn [fst snd]. rewrite IH. f_equal. ring.
Qed.
Lemma pscale_pzero c n : pscale c (pzero n) = pzero n.
Proof.
  unfold pscale, pzero, zeros. induction n as [|n IH]; cbn [repeat map]; [reflexivity|]. rewrite IH. f_equal. ring.
Qed.
Lemma pscale_pscale c d a : pscale c (pscale d a) = pscale (c * d) a.
Proof. unfold pscale. rewrite map_map. apply map_ext; intros; ring. Qed.
Lemma pscale_1 a : pscale 1 a = a.
Proof. unfold pscale. rewrite <- (map_id a) at 2. apply map_ext; intros; ring. Qed.
Lemma pscale_0 a : pscale 0 a = pzero (length a).
Proof. unfold pscale, pzero, zeros. induction a as [|x a IH]; cbn [map length repeat]; [reflexivity|]. rewrite IH. reflexivity. Qed.

Lemma nthZ_pscale c a i : nthZ (pscale c a) i = c * nthZ a i.
Proof. apply nth_pscale. Qed.

(* scaling commutes with the product, on either side, for all lengths *)
Lemma pmul_fold_scale (c : Z) (f g : nat -> Z) (p : nat -> bool) l acc :
  fold_left (fun acc i => if p i then acc + c * f i else acc - c * g i) l (c * acc)
  = c * fold_left (fun acc i => if p i then acc + f i else acc - g i) l acc.
Proof.
  revert acc; induction l as [|h l IH]; intros acc; cbn [fold_left]; [reflexivity|].
  rewrite <- IH. f_equal. destruct (p h); ring.
Qed.

Lemma fold_left_ext2 {A B} (f g : A -> B -> A) l a : (forall acc i, f acc i = g acc i) -> fold_left f l a = fold_left g l a.
Proof. intros H. revert a; induction l as [|h l IH]; intros a; cbn [fold_left]; [reflexivity|]. rewrite H. apply IH. Qed.

Lemma pscale_pmul_l c a b : pmul (pscale c a) b = pscale c (pmul a b).
Proof.
  unfold pmul. cbv zeta. rewrite pscale_length. symmetry. unfold pscale at 1. rewrite map_map.
  apply map_ext; intros k. symmetry.
  rewrite <- (pmul_fold_scale c (fun i => nthZ a i * nthZ b (k - i)) (fun i => nthZ a i * nthZ b (length a + k - i)) (fun i => Nat.leb i k)).
  rewrite Z.mul_0_r.
  apply fold_left_ext2; intros acc i. rewrite nthZ_pscale. destruct (Nat.leb i k); ring.
Qed.

Lemma pscale_pmul_r c a b : pmul a (pscale c b) = pscale c (pmul a b).
Proof.
  unfold pmul. cbv zeta. symmetry. unfold pscale at 1. rewrite map_map.
  apply map_ext; intros k. symmetry.
  rewrite <- (pmul_fold_scale c (fun i => nthZ a i * nthZ b (k - i)) (fun i => nthZ a i * nthZ b (length a + k - i)) (fun i => Nat.leb i k)).
  rewrite Z.mul_0_r.
  apply fold_left_ext2; intros acc i. rewrite !nthZ_pscale. destruct (Nat.leb i k); ring.
Qed.
End PolyBasics.


Section PolySums.
Lemma psumf_0 n f : psumf n f 0 = pzero n.
Proof. reflexivity. Qed.
Lemma psumf_S n f m : psumf n f (S m) = padd (psumf n f m) (f m).
Proof. unfold psumf. rewrite seq_S, fold_left_app. reflexivity. Qed.

Lemma psumf_ext n f g m : (forall i, (i < m)%nat -> f i = g i) -> psumf n f m = psumf n g m.
Proof.
  induction m as [|m IH]; intros H; [reflexivity|].
  rewrite !psumf_S, IH, H by auto with arith. reflexivity.
Qed.

Lemma psumf_length n f m : (forall i, (i < m)%nat -> length (f i) = n) -> length (psumf n f m) = n.
Proof.
  induction m as [|m IH]; intros H; [apply pzero_length|].
  rewrite psumf_S, padd_length, IH, H by auto with arith. apply Nat.min_id.
Qed.

Lemma psumf_coeff n f m k : (forall i, (i < m)%nat -> length (f i) = n) ->
  nth k (psumf n f m) 0 = zsum (fun i => nth k (f i) 0) m.
Proof.
  induction m as [|m IH]; intros H; [rewrite psumf_0; apply nth_pzero|].
  rewrite psumf_S, zsum_S, nth_padd, IH by (rewrite ?psumf_length; auto with arith). reflexivity.
Qed.

Lemma psumf_pzero n m : psumf n (fun _ => pzero n) m = pzero n.
Proof. induction m as [|m IH]; [reflexivity|]. rewrite psumf_S, IH. apply padd_pzero_pzero. Qed.

Lemma psumf_zero n f m : (forall i, (i < m)%nat -> f i = pzero n) -> psumf n f m = pzero n.
Proof. intros H. rewrite (psumf_ext n f (fun _ => pzero n)) by exact H. apply psumf_pzero. Qed.

Lemma psumf_padd n f g m : psumf n (fun i => padd (f i) (g i)) m = padd (psumf n f m) (psumf n g m).
Proof.
  induction m as [|m IH]; [rewrite !psumf_0, padd_pzero_pzero; reflexivity|].
  rewrite !psumf_S, IH. apply padd_swap4.
Qed.

Lemma psumf_swap n (f : nat -> nat -> list Z) m1 m2 :
  psumf n (fun i => psumf n (fun j => f i j) m2) m1 = psumf n (fun j => psumf n (fun i => f i j) m1) m2.
Proof.
  induction m1 as [|m1 IH].
  - rewrite psumf_0. symmetry. apply psumf_pzero.
  - rewrite psumf_S, IH, <- psumf_padd. apply psumf_ext; intros j _. rewrite psumf_S. reflexivity.
Qed.

Lemma pscale_psumf c n f m : pscale c (psumf n f m) = psumf n (fun i => pscale c (f i)) m.
Proof.
  induction m as [|m IH]; [rewrite !psumf_0; apply pscale_pzero|].
  rewrite !psumf_S, pscale_padd, IH. reflexivity.
Qed.

Lemma pmul_psumf_r n f m s : length s = n -> (forall i, (i < m)%nat -> length (f i) = n) ->
  pmul (psumf n f m) s = psumf n (fun i => pmul (f i) s) m.
Proof.
  intros Hs. induction m as [|m IH]; intros H.
  - rewrite !psumf_0. rewrite <- Hs. apply pmul_pzero_l.
  - assert (Hm : length (psumf n f m) = n) by (apply psumf_length; auto with arith).
    rewrite !psumf_S, pmul_padd_distr_r, IH by (rewrite ?Hm; auto with arith). reflexivity.
Qed.

Lemma pmul_psumf_l n f m s : length s = n -> (forall i, (i < m)%nat -> length (f i) = n) ->
  pmul s (psumf n f m) = psumf n (fun i => pmul s (f i)) m.
Proof.
  intros Hs. induction m as [|m IH]; intros H.
  - rewrite !psumf_0. rewrite <- Hs. apply pmul_pzero_r.
  - rewrite !psumf_S, pmul_padd_distr_l, IH by (rewrite ?psumf_length, ?Hs; auto with arith). reflexivity.
Qed.

(* split at m *)
Lemma psumf_app n f m k : (forall i, (i < m + k)%nat -> length (f i) = n) ->
  psumf n f (m + k) = padd (psumf n f m) (psumf n (fun i => f (m + i)%nat) k).
Proof.
  induction k as [|k IH]; intros H.
  - rewrite Nat.add_0_r, psumf_0, padd_pzero_r; [reflexivity|]. apply psumf_length; intros; apply H; lia.
  - rewrite Nat.add_succ_r, !psumf_S, IH, padd_assoc by (intros; apply H; lia). reflexivity.
Qed.

(* a sum whose terms vanish beyond k *)
Lemma psumf_cut n f k m : (k <= m)%nat -> (forall i, (i < k)%nat -> length (f i) = n) ->
  (forall i, (k <= i)%nat -> (i < m)%nat -> f i = pzero n) -> psumf n f m = psumf n f k.
Proof.
  intros Hk Hl Hz. induction m as [|m IH]; [replace k with 0%nat by lia; reflexivity|].
  destruct (Nat.eq_dec k (S m)) as [->|Hne]; [reflexivity|].
  assert (IH' : psumf n f m = psumf n f k) by (apply IH; [lia|intros; apply Hz; lia]).
  rewrite psumf_S, Hz, IH' by lia. apply padd_pzero_r. apply psumf_length; exact Hl.
Qed.

Lemma psumf_cond n (c : nat -> bool) f k m : (k <= m)%nat -> (forall i, (i < k)%nat -> length (f i) = n) ->
  (forall i, (i < m)%nat -> c i = Nat.ltb i k) ->
  psumf n (fun i => if c i then f i else pzero n) m = psumf n f k.
Proof.
  intros Hk Hl Hc.
  rewrite (psumf_cut n _ k m Hk).
  - apply psumf_ext; intros i Hi. rewrite Hc by lia. destruct (Nat.ltb_spec i k); [reflexivity|lia].
  - intros i Hi. rewrite Hc by lia. destruct (Nat.ltb_spec i k); [auto|lia].
  - intros i H1 H2. rewrite Hc by lia. destruct (Nat.ltb_spec i k); [lia|reflexivity].
Qed.

(* flat index q = row*cin + ci *)
Lemma psumf_flatten n f rows cin : (forall q, (q < rows * cin)%nat -> length (f q) = n) ->
  psumf n f (rows * cin) = psumf n (fun row => psumf n (fun ci => f (row * cin + ci)%nat) cin) rows.
Proof.
  induction rows as [|rows IH]; intros H; [reflexivity|].
  rewrite psumf_S, <- IH by (intros; apply H; lia).
  replace (S rows * cin)%nat with (rows * cin + cin)%nat by lia.
  apply psumf_app. intros; apply H; lia.
Qed.

(* reversal *)
Lemma zsum_shift f m : zsum f (S m) = f 0%nat + zsum (fun i => f (S i)) m.
Proof. induction m as [|m IH]; [cbn; lia|]. rewrite zsum_S, IH, zsum_S. lia. Qed.

Lemma zsum_rev g m : zsum g m = zsum (fun i => g (m - 1 - i)%nat) m.
Proof.
  induction m as [|m IH]; [reflexivity|].
  rewrite zsum_S, zsum_shift, IH. replace (S m - 1 - 0)%nat with m by lia.
  rewrite Z.add_comm. f_equal. apply zsum_ext; intros i Hi. f_equal. lia.
Qed.

Lemma psumf_rev n f m : (forall i, (i < m)%nat -> length (f i) = n) ->
  psumf n f m = psumf n (fun i => f (m - 1 - i)%nat) m.
Proof.
  intros H. apply list_eq_nth.
  - rewrite !psumf_length; auto. intros; apply H; lia.
  - intros k _. rewrite !psumf_coeff by (intros; apply H; lia).
    apply (zsum_rev (fun i => nth k (f i) 0)).
Qed.
End PolySums.


Section PolyDecomp.
(* the decomposition on polynomial limbs *)
Theorem gadget_decomposition_poly (P b : Z) (n dsize dnum a_size : nat) (a : nat -> list Z) :
  (1 <= dsize)%nat -> (forall l, length (a l) = n) ->
  psumf n (fun di => psumf n (fun q =>
      pscale (2 ^ (P - (Z.of_nat q + 1) * Z.of_nat dsize * b + Z.of_nat di * b)) (a (q * dsize + (dsize - di - 1))%nat))
      (Nat.min ((a_size + di) / dsize) dnum)) dsize
  = pval P b n a (Nat.min a_size (dnum * dsize)).
Proof.
  intros Hd Ha. unfold pval.
  assert (L1 : forall c l, length (pscale c (a l)) = n) by (intros; rewrite pscale_length; apply Ha).
  apply list_eq_nth.
  - rewrite !psumf_length; auto. intros; apply psumf_length; auto.
  - intros k _.
    rewrite psumf_coeff by (intros; apply psumf_length; auto).
    rewrite (psumf_coeff n _ (Nat.min a_size (dnum * dsize))) by auto.
    rewrite (zsum_ext _ (fun l => (fun l => nth k (a l) 0) l * 2 ^ (P - (Z.of_nat l + 1) * b)) (Nat.min a_size (dnum * dsize)))
      by (intros; rewrite nth_pscale; ring).
    rewrite <- (gadget_decomposition_clamped P b dsize dnum a_size (fun l => nth k (a l) 0) Hd).
    apply zsum_ext; intros di _. rewrite psumf_coeff by auto.
    apply zsum_ext; intros q _. rewrite nth_pscale. ring.
Qed.

Corollary gadget_decomposition_poly_full (P b : Z) (n dsize a_size : nat) (a : nat -> list Z) :
  (1 <= dsize)%nat -> (forall l, length (a l) = n) ->
  psumf n (fun di => psumf n (fun q =>
      pscale (2 ^ (P - (Z.of_nat q + 1) * Z.of_nat dsize * b + Z.of_nat di * b)) (a (q * dsize + (dsize - di - 1))%nat))
      ((a_size + di) / dsize)) dsize
  = pval P b n a a_size.
Proof.
  intros Hd Ha.
  pose proof (gadget_decomposition_poly P b n dsize (a_size + 1) a_size a Hd Ha) as H.
  rewrite (Nat.min_l a_size) in H by nia. rewrite <- H.
  apply psumf_ext; intros di Hdi. f_equal. symmetry. apply Nat.min_l.
  apply Nat.lt_le_incl, Nat.div_lt_upper_bound; [lia|]. nia.
Qed.
End PolyDecomp.

Section Select.
Lemma digit_index_lt (len dsize di q : nat) : (1 <= dsize)%nat -> (di < dsize)%nat ->
  (q < (len + di) / dsize)%nat -> (q * dsize + (dsize - di - 1) < len)%nat.
Proof.
  intros Hd Hdi Hq.
  pose proof (Nat.mul_div_le (len + di) dsize ltac:(lia)) as H.
  assert (dsize * S q <= dsize * ((len + di) / dsize))%nat by (apply Nat.mul_le_mono_l; lia).
  nia.
Qed.

Lemma lim_mk' rsz f j : (j < rsz)%nat -> lim (mk rsz f) j = f j.
Proof.
  intros H. unfold lim, mk.
  rewrite (nth_map' f (seq 0 rsz) j [] 0%nat) by (rewrite seq_length; exact H).
  rewrite seq_nth by exact H. reflexivity.
Qed.

Lemma ceil_div_lt' a b j : (1 <= b)%nat -> (j * b < a)%nat -> (j < ceil_div a b)%nat.
Proof.
  intros Hb H. unfold ceil_div.
  assert (Hle : (b * S j <= a + b - 1)%nat) by (rewrite Nat.mul_succ_r; lia).
  apply Nat.div_le_lower_bound in Hle; lia.
Qed.

(* the (step = dsize, offset = dsize-di-1) selection of the model picks exactly the limbs of digit di *)
Theorem dft_select_digit n sz dsize di (a : plimbs) q : (1 <= dsize)%nat -> (di < dsize)%nat ->
  (q < sz)%nat -> (sz <= (length a + di) / dsize)%nat ->
  lim (dft_select n sz dsize (dsize - di - 1) a) q
  = (if Nat.ltb (q * dsize + (dsize - di - 1)) (length a) then lim a (q * dsize + (dsize - di - 1)) else pzero n)
  /\ (q * dsize + (dsize - di - 1) < length a)%nat.
Proof.
  intros Hd Hdi Hq Hsz.
  assert (Hi : (q * dsize + (dsize - di - 1) < length a)%nat) by (apply digit_index_lt; lia).
  split; [|exact Hi].
  unfold dft_select. cbv zeta. rewrite lim_mk' by exact Hq.
  assert (q < ceil_div (length a) dsize)%nat by (apply ceil_div_lt'; lia).
  destruct (Nat.ltb_spec q (Nat.min sz (ceil_div (length a) dsize))); [|lia].
  rewrite (Nat.add_comm (dsize - di - 1)). reflexivity.
Qed.

Corollary dft_select_digit_limz n sz dsize di (a : plimbs) q : (1 <= dsize)%nat -> (di < dsize)%nat ->
  (q < sz)%nat -> (sz <= (length a + di) / dsize)%nat ->
  lim (dft_select n sz dsize (dsize - di - 1) a) q = limz n a (q * dsize + (dsize - di - 1)).
Proof. intros. apply dft_select_digit; assumption. Qed.
End Select.

