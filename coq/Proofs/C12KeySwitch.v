(* C12 - key-switch family (gglwe_product_dft, glwe_keyswitch incl. dsize > 1 and cross-radix input,
   glwe_external_product, glwe_automorphism and variants): the declared size suffices on ring degrees that are multiples of 8.
   Every statement mentions the GENERATED formulas of Gen/C12TmpBytes_gen.v. *)
From PV Require Import Base.MachineInt Model.C12Scratch Gen.C12TmpBytes_gen Model.C12Trees
  Proofs.C12Arena Proofs.C12Hal Proofs.C12Core.
Open Scope Z_scope.

Lemma aligned_need_nonneg (t : tree) : aligned_tree t -> 0 <= demand t.
Proof. intros H. pose proof (aligned_persist t H). lia. Qed.

Section KS.
  Variables fam n : Z.
  Hypothesis Hf : is_fam fam.
  Hypothesis Hn0 : 0 <= n.
  Hypothesis Hn8 : n mod 8 = 0.

  Let nn1 := nn_norm fam n Hf Hn0 Hn8.
  Let nn2 := nn_bnorm fam n Hf Hn0 Hn8.

  (* the vmp scratch does not depend on the size of the result *)
  Lemma vmp_bytes_res_indep (rs rs' a rows ci co size : Z) :
    hal_vmp_apply_dft_to_dft_tmp_bytes fam n rs a rows ci co size = hal_vmp_apply_dft_to_dft_tmp_bytes fam n rs' a rows ci co size.
  Proof using Hf Hn0 Hn8. autounfold with c12gen. destruct Hf as [-> | ->]; reflexivity. Qed.

  Lemma nn_vmp (rs a rows ci co size : Z) : 0 <= a -> 0 <= rows -> 0 <= ci ->
    0 <= hal_vmp_apply_dft_to_dft_tmp_bytes fam n rs a rows ci co size.
  Proof using Hf Hn0 Hn8.
    intros. destruct (callee_vmp fam n Hf Hn0 Hn8 rs a rows ci co size) as [Av Dv]; try lia.
    rewrite <- Dv. apply aligned_need_nonneg; auto.
  Qed.

  (* ---------------------------------------------------------------------------------------------- *)
  (* gglwe_product_dft *)
  Lemma gglwe_product_spec (rs a_size : Z) (key : infos) : wf_infos key -> 0 <= a_size ->
    aligned_tree (t_gglwe_product_dft fam n rs (i_rank_in key) a_size key) /\
    demand (t_gglwe_product_dft fam n rs (i_rank_in key) a_size key) <= gglwe_product_dft_tmp_bytes fam n rs a_size key.
  Proof using Hf Hn0 Hn8.
    intros (Hb & Hsz & Hr & Hri & Hdn & Hds) Ha.
    unfold t_gglwe_product_dft, gglwe_product_dft_tmp_bytes. cbv zeta.
    destruct (Z.eqb_spec (i_dsize key) 1) as [E|E].
    - destruct (callee_vmp fam n Hf Hn0 Hn8 rs a_size (i_dnum key) (i_rank_in key) (i_rank key + 1) (i_size key)) as [Av Dv]; try lia.
      pose proof (aligned_need_nonneg _ Av). split.
      + cbn [aligned_tree]. split; [lia | exact Av].
      + cbn [demand persist]. lia.
    - set (dsize := i_dsize key) in *. set (dnum := i_dnum key) in *.
      set (a' := Z.min (div_ceil a_size dsize) dnum).
      assert (Ha' : 0 <= a') by (unfold a'; pose proof (div_ceil_nonneg a_size dsize Ha ltac:(lia)); lia).
      pose proof (al_dft fam n Hf Hn0 Hn8 (i_rank_in key) a' Hri Ha') as HD1.
      pose proof (al_dft fam n Hf Hn0 Hn8 (i_rank key + 1) (i_size key) ltac:(lia) Hsz) as HD2.
      pose proof (nn_vmp rs a' dnum (i_rank_in key) (i_rank key + 1) (i_size key) Ha' Hdn Hri) as HV.
      set (l := map (fun di => t_vmp_apply_dft_to_dft fam (Z.min ((a_size + di) / dsize) dnum) dnum (i_rank_in key)) (zrange dsize)).
      assert (Hl : forall t, In t l -> aligned_tree t /\
                   demand t <= hal_vmp_apply_dft_to_dft_tmp_bytes fam n rs a' dnum (i_rank_in key) (i_rank key + 1) (i_size key)).
      { intros t Ht. unfold l in Ht. apply in_map_iff in Ht. destruct Ht as (di & <- & Hdi). apply in_zrange in Hdi.
        assert (0 <= (a_size + di) / dsize) by (apply Z.div_pos; lia).
        destruct (callee_vmp fam n Hf Hn0 Hn8 rs (Z.min ((a_size + di) / dsize) dnum) dnum (i_rank_in key) (i_rank key + 1) (i_size key))
          as [Av Dv]; try lia.
        split; [exact Av|]. rewrite Dv. apply vmp_bytes_mono; auto.
        unfold a', div_ceil. assert ((a_size + di) / dsize <= (a_size + dsize - 1) / dsize) by (apply Z.div_le_mono; lia). lia. }
      destruct (demand_seq_scoped_le l _ HV (fun t Ht => proj2 (Hl t Ht))) as [Hd Hp].
      pose proof (aligned_seq_scoped l (fun t Ht => proj1 (Hl t Ht))) as Hal.
      split.
      + cbn [aligned_tree]. unfold ALIGN. fold a'. fold l. intuition; lia.
      + cbn [demand persist]. fold a'. fold l. lia.
  Qed.

  (* ---------------------------------------------------------------------------------------------- *)
  (* glwe_keyswitch_internal *)
  Lemma ks_internal_res_indep (r r' a key : infos) :
    glwe_keyswitch_internal_tmp_bytes fam n r a key = glwe_keyswitch_internal_tmp_bytes fam n r' a key.
  Proof using Hf Hn0 Hn8.
    unfold glwe_keyswitch_internal_tmp_bytes, gglwe_product_dft_tmp_bytes. cbv zeta.
    destruct (i_dsize key =? 1); repeat f_equal; apply vmp_bytes_res_indep.
  Qed.

  Lemma ks_internal_spec (a key : infos) : wf_infos key -> 0 <= i_size a -> i_rank a = i_rank_in key ->
    aligned_tree (t_glwe_keyswitch_internal fam n a key) /\
    demand (t_glwe_keyswitch_internal fam n a key) <= glwe_keyswitch_internal_tmp_bytes fam n key a key.
  Proof using Hf Hn0 Hn8.
    intros Hk Ha Hrk. destruct (gglwe_product_spec (i_size key) (i_size a) key Hk Ha) as [Ap Dp].
    destruct Hk as (Hb & Hsz & Hr & Hri & Hdn & Hds).
    pose proof (al_dft fam n Hf Hn0 Hn8 (i_rank a) (i_size a) ltac:(lia) Ha) as HD.
    pose proof (aligned_need_nonneg _ Ap).
    unfold t_glwe_keyswitch_internal, glwe_keyswitch_internal_tmp_bytes. cbv zeta. rewrite Hrk in *.
    replace (i_rank_in key + 1 - 1) with (i_rank_in key) by lia.
    split.
    + cbn [aligned_tree]. unfold ALIGN. intuition; lia.
    + cbn [demand persist]. lia.
  Qed.

  (* the cross-radix copy of the input *)
  Lemma conv_layout_facts (a key : infos) : wf_infos a -> wf_infos key -> i_n a = n ->
    let c := conv_layout a key in
    0 <= i_size c /\ i_rank c = i_rank a /\
    GLWE_bytes_of_from_infos c = VecZnx_bytes_of (i_n c) (i_rank c + 1) (i_size c) /\
    0 <= VecZnx_bytes_of (i_n c) (i_rank c + 1) (i_size c) /\ VecZnx_bytes_of (i_n c) (i_rank c + 1) (i_size c) mod 64 = 0.
  Proof using Hf Hn0 Hn8.
    intros (Hab & Has & Har & _) (Hkb & _) Hna c.
    assert (Hs : 0 <= i_size c).
    { unfold c, conv_layout, mk_glwe_layout; cbn [i_size]. apply div_ceil_nonneg; [unfold i_max_k; nia | lia]. }
    assert (Hr : i_rank c = i_rank a) by reflexivity.
    assert (Hn : i_n c = n) by (unfold c, conv_layout, mk_glwe_layout; cbn [i_n]; exact Hna).
    split; [exact Hs|]. split; [exact Hr|]. split.
    - unfold GLWE_bytes_of_from_infos, GLWE_bytes_of, i_max_k. f_equal.
      replace (i_base2k c) with (i_base2k key) by reflexivity. apply div_ceil_mul; lia.
    - rewrite Hn, Hr. apply (al_vec_znx fam n Hf Hn0 Hn8); lia.
  Qed.

  Lemma glwe_normalize_spec (cols : Z) :
    aligned_tree (t_glwe_normalize fam n cols) /\ demand (t_glwe_normalize fam n cols) <= glwe_normalize_tmp_bytes fam n.
  Proof using Hf Hn0 Hn8.
    destruct (callee_normalize fam n Hf Hn0 Hn8) as [An Dn]. pose proof nn1.
    unfold t_glwe_normalize, glwe_normalize_tmp_bytes. cbv zeta. split.
    - cbn [aligned_tree]. split; [lia | exact An].
    - cbn [demand persist]. rewrite Dn. destruct_loops; lia.
  Qed.

  (* ---------------------------------------------------------------------------------------------- *)
  (* glwe_keyswitch / glwe_keyswitch_assign (a := res) *)
  Lemma keyswitch_spec (res a key : infos) :
    wf_infos res -> wf_infos a -> wf_infos key -> i_n a = n -> i_rank a = i_rank_in key ->
    aligned_tree (tree_glwe_keyswitch fam n res a key) /\
    demand (tree_glwe_keyswitch fam n res a key) <= glwe_keyswitch_tmp_bytes fam n res a key /\
    0 <= glwe_keyswitch_tmp_bytes fam n res a key.
  Proof using Hf Hn0 Hn8.
    intros Hres Ha Hk Hna Hrk.
    assert (Hrr : 0 <= i_rank res) by (destruct Hres as (_&_&?&_); lia).
    assert (Has : 0 <= i_size a) by (destruct Ha as (_&?&_); lia).
    assert (Hks : 0 <= i_size key) by (destruct Hk as (_&?&_); lia).
    destruct (callee_big_normalize fam n Hf Hn0 Hn8) as [Ab Db]. pose proof nn1. pose proof nn2.
    pose proof (al_dft fam n Hf Hn0 Hn8 (i_rank res + 1) (i_size key) ltac:(lia) Hks) as HD0.
    destruct (glwe_normalize_spec (i_rank a + 1)) as [Agn Dgn].
    unfold tree_glwe_keyswitch, glwe_keyswitch_tmp_bytes. cbv zeta.
    destruct (Z.eqb_spec (i_base2k a) (i_base2k key)) as [E|E]; cbn [negb].
    - (* same radix *)
      destruct (ks_internal_spec a key Hk Has Hrk) as [Ai Di].
      rewrite (ks_internal_res_indep res key a key).
      pose proof (aligned_need_nonneg _ Ai).
      split; [|split].
      + cbn [aligned_tree]. unfold ALIGN. intuition; lia.
      + cbn [demand persist]. rewrite Db. destruct_loops; lia.
      + lia.
    - (* cross radix: a is first re-normalised into a temporary of the key's radix *)
      destruct (conv_layout_facts a key Ha Hk Hna) as (Hcs & Hcr & Hcb & Hc0 & Hc64).
      fold (conv_layout a key).
      destruct (ks_internal_spec (conv_layout a key) key Hk Hcs ltac:(lia)) as [Ai Di].
      rewrite (ks_internal_res_indep res key (conv_layout a key) key).
      pose proof (aligned_need_nonneg _ Ai). rewrite Hcb.
      unfold t_take_glwe.
      split; [|split].
      + cbn [aligned_tree]. unfold ALIGN. intuition; lia.
      + cbn [demand persist]. rewrite Db. destruct_loops; lia.
      + lia.
  Qed.

  Lemma suffices_glwe_keyswitch (res a key : infos) :
    wf_infos res -> wf_infos a -> wf_infos key -> i_n a = n -> i_rank a = i_rank_in key ->
    run_takes (tree_glwe_keyswitch fam n res a key) (0, glwe_keyswitch_tmp_bytes fam n res a key) <> None.
  Proof using Hf Hn0 Hn8.
    intros. destruct (keyswitch_spec res a key) as (A & D & _); auto. apply aligned_suffices; auto.
  Qed.

  (* glwe_automorphism = glwe_keyswitch followed by vec_znx_automorphism_assign on every column *)
  Lemma suffices_glwe_automorphism (res a key : infos) :
    wf_infos res -> wf_infos a -> wf_infos key -> i_n a = n -> i_rank a = i_rank_in key ->
    run_takes (tree_glwe_automorphism fam n res a key) (0, glwe_automorphism_tmp_bytes fam n res a key) <> None.
  Proof using Hf Hn0 Hn8.
    intros. destruct (keyswitch_spec res a key) as (A & D & N0); auto.
    destruct (callee_automorphism_assign fam n Hf Hn0 Hn8) as [Aa Da].
    pose proof (aligned_need_nonneg _ Aa).
    apply aligned_suffices; unfold tree_glwe_automorphism, glwe_automorphism_tmp_bytes; cbv zeta.
    - cbn [aligned_tree]. intuition; lia.
    - cbn [demand persist]. rewrite Da in *. destruct_loops; lia.
  Qed.

  (* ---------------------------------------------------------------------------------------------- *)
  (* glwe_external_product *)
  Lemma ep_internal_res_indep (r r' a g : infos) :
    glwe_external_product_internal_tmp_bytes fam n r a g = glwe_external_product_internal_tmp_bytes fam n r' a g.
  Proof using Hf Hn0 Hn8.
    unfold glwe_external_product_internal_tmp_bytes. cbv zeta.
    rewrite (vmp_bytes_res_indep (i_size r) (i_size r')). reflexivity.
  Qed.

  (* a holds size limbs of the GGSW's radix *)
  Lemma ep_internal_spec (a g : infos) : wf_infos g -> 0 <= i_size a -> i_base2k a = i_base2k g ->
    aligned_tree (t_glwe_external_product_internal fam n a g) /\
    demand (t_glwe_external_product_internal fam n a g) <= glwe_external_product_internal_tmp_bytes fam n g a g.
  Proof using Hf Hn0 Hn8.
    intros (Hb & Hsz & Hr & Hri & Hdn & Hds) Ha Hba.
    unfold t_glwe_external_product_internal, glwe_external_product_internal_tmp_bytes. cbv zeta.
    assert (Hin : div_ceil (i_max_k a) (i_base2k g) = i_size a) by (unfold i_max_k; rewrite Hba; apply div_ceil_mul; lia).
    rewrite Hin.
    set (dsize := i_dsize g) in *. set (cols := i_rank g + 1) in *. set (in_size := div_ceil (i_size a) dsize).
    assert (Hin0 : 0 <= in_size) by (apply div_ceil_nonneg; lia).
    pose proof (al_dft fam n Hf Hn0 Hn8 cols in_size ltac:(lia) Hin0) as HD1.
    pose proof (al_dft fam n Hf Hn0 Hn8 cols (i_size g) ltac:(lia) Hsz) as HD2.
    pose proof (nn_vmp (i_size g) in_size in_size cols cols (i_size g) Hin0 Hin0 ltac:(lia)) as HV.
    destruct (Z.eqb_spec dsize 1) as [E|E].
    - destruct (Z.ltb_spec 1 dsize) as [?|_]; [lia|].
      destruct (callee_vmp fam n Hf Hn0 Hn8 (i_size g) (i_size a) (i_dnum g) cols cols (i_size g)) as [Av Dv]; try lia.
      assert (Hi : in_size = i_size a) by (unfold in_size, div_ceil; rewrite E; replace (i_size a + 1 - 1) with (i_size a) by lia; apply Z.div_1_r).
      assert (Hm : hal_vmp_apply_dft_to_dft_tmp_bytes fam n (i_size g) (i_size a) (i_dnum g) cols cols (i_size g)
                   <= hal_vmp_apply_dft_to_dft_tmp_bytes fam n (i_size g) in_size in_size cols cols (i_size g)).
      { rewrite Hi. autounfold with c12gen.
        assert (Z.min (i_size a) (i_dnum g) * cols <= Z.min (i_size a) (i_size a) * cols) by (apply Z.mul_le_mono_nonneg_r; lia).
        destruct Hf as [-> | ->]; cbn [Z.eqb]; lia. }
      pose proof (aligned_need_nonneg _ Av).
      split.
      + cbn [aligned_tree]. unfold ALIGN. intuition; lia.
      + cbn [demand persist]. lia.
    - destruct (Z.ltb_spec 1 dsize) as [_|?]; [|lia].
      set (l := map (fun di => t_vmp_apply_dft_to_dft fam ((i_size a + di) / dsize) (i_dnum g) cols) (zrange dsize)).
      assert (Hl : forall t, In t l -> aligned_tree t /\
                   demand t <= hal_vmp_apply_dft_to_dft_tmp_bytes fam n (i_size g) in_size in_size cols cols (i_size g)).
      { intros t Ht. unfold l in Ht. apply in_map_iff in Ht. destruct Ht as (di & <- & Hdi). apply in_zrange in Hdi.
        assert (0 <= (i_size a + di) / dsize) by (apply Z.div_pos; lia).
        destruct (callee_vmp fam n Hf Hn0 Hn8 (i_size g) ((i_size a + di) / dsize) (i_dnum g) cols cols (i_size g)) as [Av Dv]; try lia.
        split; [exact Av|]. rewrite Dv.
        assert ((i_size a + di) / dsize <= in_size) by (unfold in_size, div_ceil; apply Z.div_le_mono; lia).
        autounfold with c12gen.
        assert (Z.min ((i_size a + di) / dsize) (i_dnum g) * cols <= Z.min in_size in_size * cols) by (apply Z.mul_le_mono_nonneg_r; lia).
        destruct Hf as [-> | ->]; cbn [Z.eqb]; lia. }
      destruct (demand_seq_scoped_le l _ HV (fun t Ht => proj2 (Hl t Ht))) as [Hd Hp].
      pose proof (aligned_seq_scoped l (fun t Ht => proj1 (Hl t Ht))) as Hal.
      split.
      + cbn [aligned_tree]. unfold ALIGN. fold l. intuition; lia.
      + cbn [demand persist]. fold l. lia.
  Qed.

  Lemma external_product_spec (res a g : infos) :
    wf_infos res -> wf_infos a -> wf_infos g -> i_n a = n ->
    aligned_tree (tree_glwe_external_product fam n res a g) /\
    demand (tree_glwe_external_product fam n res a g) <= glwe_external_product_tmp_bytes fam n res a g.
  Proof using Hf Hn0 Hn8.
    intros Hres Ha Hg Hna.
    assert (Hrr : 0 <= i_rank res) by (destruct Hres as (_&_&?&_); lia).
    assert (Has : 0 <= i_size a) by (destruct Ha as (_&?&_); lia).
    assert (Hgs : 0 <= i_size g) by (destruct Hg as (_&?&_); lia).
    destruct (callee_big_normalize fam n Hf Hn0 Hn8) as [Ab Db]. pose proof nn1. pose proof nn2.
    pose proof (al_dft fam n Hf Hn0 Hn8 (i_rank res + 1) (i_size g) ltac:(lia) Hgs) as HD0.
    destruct (glwe_normalize_spec (i_rank a + 1)) as [Agn Dgn].
    unfold tree_glwe_external_product, glwe_external_product_tmp_bytes. cbv zeta.
    destruct (Z.eqb_spec (i_base2k a) (i_base2k g)) as [E|E]; cbn [negb].
    - destruct (ep_internal_spec a g Hg Has E) as [Ai Di].
      rewrite (ep_internal_res_indep res g a g).
      pose proof (aligned_need_nonneg _ Ai).
      split.
      + cbn [aligned_tree]. unfold ALIGN. intuition; lia.
      + cbn [demand persist]. rewrite Db. destruct_loops; lia.
    - destruct (conv_layout_facts a g Ha Hg Hna) as (Hcs & Hcr & Hcb & Hc0 & Hc64).
      fold (conv_layout a g).
      destruct (ep_internal_spec (conv_layout a g) g Hg Hcs eq_refl) as [Ai Di].
      rewrite (ep_internal_res_indep res g (conv_layout a g) g).
      pose proof (aligned_need_nonneg _ Ai). rewrite Hcb. unfold t_take_glwe.
      split.
      + cbn [aligned_tree]. unfold ALIGN. intuition; lia.
      + cbn [demand persist]. rewrite Db. destruct_loops; lia.
  Qed.

  Lemma suffices_glwe_external_product (res a g : infos) :
    wf_infos res -> wf_infos a -> wf_infos g -> i_n a = n ->
    run_takes (tree_glwe_external_product fam n res a g) (0, glwe_external_product_tmp_bytes fam n res a g) <> None.
  Proof using Hf Hn0 Hn8.
    intros. destruct (external_product_spec res a g) as (A & D); auto. apply aligned_suffices; auto.
  Qed.
  (* ---------------------------------------------------------------------------------------------- *)
  (* matrix forms: the same operation on every (row, col), each time on the whole scratch *)
  Lemma loop_scoped_spec (b : Z) (k : nat) (t : tree) : aligned_tree t -> demand t <= b ->
    aligned_tree (Seq (Need b) (Loop k (Scoped t))) /\ demand (Seq (Need b) (Loop k (Scoped t))) <= b.
  Proof using Hf Hn0 Hn8.
    intros At Dt. pose proof (aligned_need_nonneg _ At). split.
    - cbn [aligned_tree]. split; [lia | exact At].
    - cbn [demand persist]. destruct k; lia.
  Qed.

  Lemma suffices_gglwe_keyswitch (res a key : infos) :
    wf_infos res -> wf_infos a -> wf_infos key -> i_n a = n -> i_rank a = i_rank_in key ->
    run_takes (tree_gglwe_keyswitch fam n res a key) (0, gglwe_keyswitch_tmp_bytes fam n res a key) <> None.
  Proof using Hf Hn0 Hn8.
    intros. destruct (keyswitch_spec res a key) as (A & D & _); auto.
    destruct (loop_scoped_spec (glwe_keyswitch_tmp_bytes fam n res a key) (nat_of (i_dnum res * i_rank_in res)) _ A D) as [A' D'].
    apply aligned_suffices; auto.
  Qed.
  Lemma suffices_gglwe_external_product (res a g : infos) :
    wf_infos res -> wf_infos a -> wf_infos g -> i_n a = n ->
    run_takes (tree_gglwe_external_product fam n res a g) (0, gglwe_external_product_tmp_bytes fam n res a g) <> None.
  Proof using Hf Hn0 Hn8.
    intros. destruct (external_product_spec res a g) as (A & D); auto.
    destruct (loop_scoped_spec (glwe_external_product_tmp_bytes fam n res a g) (nat_of (Z.min (i_dnum res) (i_dnum a) * i_rank_in res)) _ A D) as [A' D'].
    apply aligned_suffices; auto.
  Qed.
  Lemma suffices_ggsw_external_product (res a g : infos) :
    wf_infos res -> wf_infos a -> wf_infos g -> i_n a = n ->
    run_takes (tree_ggsw_external_product fam n res a g) (0, ggsw_external_product_tmp_bytes fam n res a g) <> None.
  Proof using Hf Hn0 Hn8.
    intros. destruct (external_product_spec res a g) as (A & D); auto.
    destruct (loop_scoped_spec (glwe_external_product_tmp_bytes fam n res a g)
                (nat_of (Z.min (i_dnum res) (i_dnum a) * (i_rank res + 1))) _ A D) as [A' D'].
    apply aligned_suffices; auto.
  Qed.
End KS.
