(* C08 encoding: arbitrary-precision decoding (decode_vec_float) is the exact rational value of the limbs:
   value = num / 2^e with e = size * b and num = sum_j limb_j 2^((size-1-j) b) = val_scaled (size b) b limbs. *)
From PV Require Import Base.MachineInt Model.Znx Model.Limbs Model.C08Encode Model.C08Oracle Proofs.C08EncodeSpec.
Open Scope Z_scope.

Lemma dec_float_aux (b : Z) (l : list Z) (n e : Z) : 0 <= b -> 0 <= e ->
  fold_left (fun (s : Z * Z) x => (fst s + x * 2 ^ (snd s), snd s + b)) l (n, e)
  = (n + 2 ^ e * lvalr b l, e + b * Z.of_nat (length l)).
Proof.
  intros Hb. revert n e; induction l as [|x t IH]; intros n e He.
  - cbn [fold_left lvalr length]. f_equal; cbn; lia.
  - cbn [fold_left fst snd lvalr]. rewrite IH by lia. rewrite Z.pow_add_r by lia.
    f_equal; [ring|]. cbn [length]. lia.
Qed.

Theorem dec_float_lval (b : Z) (l : list Z) : 0 <= b ->
  dec_float b l = (e_lval b l, Z.of_nat (length l) * b).
Proof.
  intros Hb. unfold dec_float. rewrite dec_float_aux by lia.
  rewrite <- lval_rev, rev_involutive, rev_length, Z.pow_0_r. f_equal; lia.
Qed.

Lemma lval_acc (b : Z) (l : list Z) (a : Z) : 0 <= b ->
  fold_left (fun acc x => acc * 2 ^ b + x) l a = a * 2 ^ (Z.of_nat (length l) * b) + e_lval b l.
Proof.
  intros Hb. revert a; induction l as [|x t IH]; intros a.
  - cbn [fold_left length]. unfold e_lval. cbn [fold_left]. change (Z.of_nat 0) with 0. rewrite Z.mul_0_l, Z.pow_0_r. ring.
  - unfold e_lval. cbn [fold_left]. rewrite !IH. cbn [length].
    replace (Z.of_nat (S (length t)) * b) with (b + Z.of_nat (length t) * b) by lia.
    rewrite Z.pow_add_r by lia. ring.
Qed.

Lemma lval_cons (b x : Z) (t : list Z) : 0 <= b -> e_lval b (x :: t) = x * 2 ^ (Z.of_nat (length t) * b) + e_lval b t.
Proof. intros Hb. unfold e_lval at 1. cbn [fold_left]. rewrite lval_acc by lia. ring. Qed.

Lemma val_scaled_acc (b : Z) (l : list Z) (acc j : Z) : 0 <= b ->
  fst (fold_left (fun (s : Z * Z) x => (fst s + x * 2 ^ ((j + Z.of_nat (length l)) * b - (snd s + 1) * b), snd s + 1)) l (acc, j))
  = acc + e_lval b l.
Proof.
  intros Hb. revert acc j; induction l as [|x t IH]; intros acc j.
  - cbn [fold_left fst]. unfold e_lval. cbn [fold_left]. lia.
  - cbn [fold_left fst snd length].
    replace (j + Z.of_nat (S (length t))) with ((j + 1) + Z.of_nat (length t)) by lia.
    rewrite IH. rewrite lval_cons by lia.
    replace (((j + 1 + Z.of_nat (length t)) * b - (j + 1) * b)) with (Z.of_nat (length t) * b) by ring. ring.
Qed.

Lemma val_scaled_lval (b : Z) (l : list Z) : 0 <= b -> val_scaled (Z.of_nat (length l) * b) b l = e_lval b l.
Proof.
  intros Hb. unfold val_scaled.
  pose proof (val_scaled_acc b l 0 0 Hb) as H. rewrite Z.add_0_l in H. exact H.
Qed.

(* decode_vec_float = sum_j limb_j 2^(-(j+1) b), as the scaled integer identity num = val_scaled (e) b limbs *)
Theorem dec_float_exact (b : Z) (l : list Z) : 0 <= b ->
  let '(num, e) := dec_float b l in
  e = Z.of_nat (length l) * b /\ num = val_scaled e b l.
Proof.
  intros Hb. rewrite dec_float_lval by lia. split; [reflexivity|]. symmetry. apply val_scaled_lval. lia.
Qed.
