(* C07 part A3: shape theorems of the DFT-domain operations (limb selection, limb-wise add/sub, svp, vmp). *)
From PV Require Import Base.MachineInt Model.Znx Model.Limbs Model.Ring Model.DftAbs Proofs.C07Dft Proofs.C07Ring.
Open Scope Z_scope.

Lemma lim_mk rsz f j : (j < rsz)%nat -> lim (mk rsz f) j = f j.
Proof.
  intros H. unfold lim, mk.
  rewrite (nth_map' f (seq 0 rsz) j [] 0%nat) by (rewrite seq_length; exact H).
  rewrite seq_nth by exact H. reflexivity.
Qed.

Lemma lim_mk_beyond rsz f j : (rsz <= j)%nat -> lim (mk rsz f) j = [].
Proof. intros H. unfold lim. apply nth_overflow. rewrite mk_length. exact H. Qed.

(* limb j of a vector, missing limbs read as the zero polynomial *)
Definition limz (n : nat) (a : plimbs) (j : nat) : list Z := if Nat.ltb j (length a) then lim a j else pzero n.
Definition wf (n : nat) (a : plimbs) : Prop := forall j, (j < length a)%nat -> length (lim a j) = n.

Lemma limz_length n a j : wf n a -> length (limz n a j) = n.
Proof. intros H. unfold limz. destruct (Nat.ltb_spec j (length a)); [apply H; assumption|apply pzero_length]. Qed.

(* ---- (step, offset) selection ---- *)
Theorem dft_select_spec n rsz step offset a j : (j < rsz)%nat ->
  lim (dft_select n rsz step offset a) j =
  if Nat.ltb j (Nat.min rsz (ceil_div (length a) step)) && Nat.ltb (offset + j * step) (length a)
  then lim a (offset + j * step) else pzero n.
Proof.
  intros H. unfold dft_select. cbv zeta. rewrite lim_mk by exact H.
  destruct (Nat.ltb j _); cbn [andb]; reflexivity.
Qed.

Lemma ceil_div_lt a b j : (1 <= b)%nat -> (j * b < a)%nat -> (j < ceil_div a b)%nat.
Proof.
  intros Hb H. unfold ceil_div.
  assert (Hle : (b * S j <= a + b - 1)%nat) by (rewrite Nat.mul_succ_r; lia).
  apply Nat.div_le_lower_bound in Hle; lia.
Qed.

(* the cut-off at ceil(asz/step) never removes a limb that exists: natural statement *)
Theorem dft_select_natural n rsz step offset a j : (1 <= step)%nat -> (j < rsz)%nat ->
  lim (dft_select n rsz step offset a) j = limz n a (offset + j * step).
Proof.
  intros Hs H. rewrite dft_select_spec by exact H. unfold limz.
  destruct (Nat.ltb_spec (offset + j * step) (length a)) as [Hl|Hl]; [|rewrite Bool.andb_false_r; reflexivity].
  assert (j < ceil_div (length a) step)%nat by (apply ceil_div_lt; lia).
  destruct (Nat.ltb_spec j (Nat.min rsz (ceil_div (length a) step))); [reflexivity|lia].
Qed.

(* selections pointing past the last limb give zero limbs *)
Corollary dft_select_past_end n rsz step offset a j : (1 <= step)%nat -> (j < rsz)%nat ->
  (length a <= offset + j * step)%nat -> lim (dft_select n rsz step offset a) j = pzero n.
Proof.
  intros Hs H Hp. rewrite dft_select_natural by assumption. unfold limz.
  destruct (Nat.ltb_spec (offset + j * step) (length a)); [lia|reflexivity].
Qed.

(* ---- limb-wise add / sub ---- *)
Lemma padd_pzero_l n l : length l = n -> padd (pzero n) l = l.
Proof.
  intros H. apply list_eq_nth; [rewrite padd_length, pzero_length; lia|].
  intros k _. rewrite nth_padd by (rewrite pzero_length; exact H). rewrite nth_pzero. ring.
Qed.
Lemma padd_pzero_r n l : length l = n -> padd l (pzero n) = l.
Proof.
  intros H. apply list_eq_nth; [rewrite padd_length, pzero_length; lia|].
  intros k _. rewrite nth_padd by (rewrite pzero_length; lia). rewrite nth_pzero. ring.
Qed.
Lemma psub_pzero_l n l : length l = n -> psub (pzero n) l = pneg l.
Proof.
  intros H. apply list_eq_nth; [rewrite psub_length, pzero_length, pneg_length; lia|].
  intros k _. rewrite nth_psub by (rewrite pzero_length; exact H). rewrite nth_pzero, nth_pneg. ring.
Qed.
Lemma psub_pzero_r n l : length l = n -> psub l (pzero n) = l.
Proof.
  intros H. apply list_eq_nth; [rewrite psub_length, pzero_length; lia|].
  intros k _. rewrite nth_psub by (rewrite pzero_length; lia). rewrite nth_pzero. ring.
Qed.

Theorem dft_add_limbwise n rsz a b j : wf n a -> wf n b -> (j < rsz)%nat ->
  lim (dft_add n rsz a b) j = padd (limz n a j) (limz n b j).
Proof.
  intros Ha Hb H. unfold dft_add. cbv zeta. rewrite lim_mk by exact H. unfold limz.
  destruct (Nat.ltb_spec j (Nat.min (length a) (length b))) as [H1|H1].
  - destruct (Nat.ltb_spec j (length a)); destruct (Nat.ltb_spec j (length b)); try lia. reflexivity.
  - destruct (Nat.ltb_spec j (Nat.max (length a) (length b))) as [H2|H2].
    + destruct (Nat.leb_spec (length a) (length b)).
      * destruct (Nat.ltb_spec j (length a)); destruct (Nat.ltb_spec j (length b)); try lia.
        symmetry; apply padd_pzero_l, Hb; assumption.
      * destruct (Nat.ltb_spec j (length a)); destruct (Nat.ltb_spec j (length b)); try lia.
        symmetry; apply padd_pzero_r, Ha; assumption.
    + destruct (Nat.ltb_spec j (length a)); destruct (Nat.ltb_spec j (length b)); try lia.
      symmetry; apply padd_pzero_l, pzero_length.
Qed.

Theorem dft_sub_limbwise n rsz a b j : wf n a -> wf n b -> (j < rsz)%nat ->
  lim (dft_sub n rsz a b) j = psub (limz n a j) (limz n b j).
Proof.
  intros Ha Hb H. unfold dft_sub. cbv zeta. rewrite lim_mk by exact H. unfold limz.
  destruct (Nat.ltb_spec j (Nat.min (length a) (length b))) as [H1|H1].
  - destruct (Nat.ltb_spec j (length a)); destruct (Nat.ltb_spec j (length b)); try lia. reflexivity.
  - destruct (Nat.ltb_spec j (Nat.max (length a) (length b))) as [H2|H2].
    + destruct (Nat.leb_spec (length a) (length b)).
      * destruct (Nat.ltb_spec j (length a)); destruct (Nat.ltb_spec j (length b)); try lia.
        symmetry; apply psub_pzero_l, Hb; assumption.
      * destruct (Nat.ltb_spec j (length a)); destruct (Nat.ltb_spec j (length b)); try lia.
        symmetry; apply psub_pzero_r, Ha; assumption.
    + destruct (Nat.ltb_spec j (length a)); destruct (Nat.ltb_spec j (length b)); try lia.
      symmetry; apply psub_pzero_r, pzero_length.
Qed.

(* coefficient view: limb j, coefficient k *)
Corollary dft_add_coeff n rsz a b j k : wf n a -> wf n b -> (j < rsz)%nat ->
  nth k (lim (dft_add n rsz a b) j) 0 = nth k (limz n a j) 0 + nth k (limz n b j) 0.
Proof. intros Ha Hb H. rewrite dft_add_limbwise by assumption. apply nth_padd. rewrite !limz_length by assumption. reflexivity. Qed.
Corollary dft_sub_coeff n rsz a b j k : wf n a -> wf n b -> (j < rsz)%nat ->
  nth k (lim (dft_sub n rsz a b) j) 0 = nth k (limz n a j) 0 - nth k (limz n b j) 0.
Proof. intros Ha Hb H. rewrite dft_sub_limbwise by assumption. apply nth_psub. rewrite !limz_length by assumption. reflexivity. Qed.

(* ---- scalar-vector product ---- *)
Theorem svp_is_product n rsz s b j : (j < rsz)%nat ->
  lim (svp_apply n rsz s b) j = if Nat.ltb j (length b) then pmul s (lim b j) else pzero n.
Proof. intros H. unfold svp_apply. apply lim_mk; exact H. Qed.

(* with the coefficient formula of the negacyclic product *)
Corollary svp_coeff n rsz s b j k : length s = n -> wf n b -> (j < rsz)%nat -> (j < length b)%nat -> (k < n)%nat ->
  nth k (lim (svp_apply n rsz s b) j) 0 = zsum (fun i => nthZ s i * ext' (lim b j) (Z.of_nat k - Z.of_nat i)) n.
Proof.
  intros Hs Hb H Hj Hk. rewrite svp_is_product by exact H.
  destruct (Nat.ltb_spec j (length b)); [|lia].
  rewrite pmul_spec by (rewrite ?Hs; auto). rewrite Hs. reflexivity.
Qed.

Theorem svp_assign_is_product s r0 j : (j < length r0)%nat -> lim (svp_apply_assign s r0) j = pmul s (lim r0 j).
Proof. intros H. unfold svp_apply_assign, lim. apply nth_map'; exact H. Qed.

(* ---- vector-matrix product ---- *)
Definition psum (n : nat) (f : nat -> list Z) (m : nat) : list Z :=
  fold_left (fun acc q => padd acc (f q)) (seq 0 m) (pzero n).

Lemma psum_S n f m : psum n f (S m) = padd (psum n f m) (f m).
Proof. unfold psum. rewrite seq_S, fold_left_app. reflexivity. Qed.

Lemma psum_length n f m : (forall q, (q < m)%nat -> length (f q) = n) -> length (psum n f m) = n.
Proof.
  induction m as [|m IH]; intros H; [apply pzero_length|].
  rewrite psum_S, padd_length, IH, H by auto with arith. apply Nat.min_id.
Qed.

Lemma psum_coeff n f m k : (forall q, (q < m)%nat -> length (f q) = n) ->
  nth k (psum n f m) 0 = zsum (fun q => nth k (f q) 0) m.
Proof.
  induction m as [|m IH]; intros H; [cbn [psum seq fold_left]; apply nth_pzero|].
  rewrite psum_S, zsum_S, nth_padd, IH by (rewrite ?psum_length; auto with arith). reflexivity.
Qed.

Section Vmp.
Variables (n rcols rsz acols asz rows msize limb_offset : nat).
Variables (aflat : nat -> list Z) (mflat : nat -> nat -> list Z).
Let nrows := (acols * rows)%nat.
Let ncols := (rcols * msize)%nat.
Let row_max := Nat.min nrows (acols * asz).
Let off := (limb_offset * rcols)%nat.
Let col_max := Nat.min ncols (rcols * rsz + off).

Theorem vmp_is_sum_of_row_products c :
  vmp n rcols rsz acols asz rows msize limb_offset aflat mflat c =
  if Nat.ltb c (col_max - off)
  then psum n (fun q => pmul (aflat q) (mflat q (c + off)%nat)) row_max
  else pzero n.
Proof.
  unfold vmp. cbv zeta. fold nrows ncols off. fold row_max col_max.
  destruct (Nat.leb_spec col_max off) as [H|H].
  - destruct (Nat.ltb_spec c (col_max - off)); [lia|reflexivity].
  - reflexivity.
Qed.

(* coefficient k of flat output column c is the sum over the rows of the negacyclic products *)
Corollary vmp_coeff c k : (forall q, length (aflat q) = n) -> (forall q c', length (mflat q c') = n) ->
  (c < col_max - off)%nat -> (k < n)%nat ->
  nth k (vmp n rcols rsz acols asz rows msize limb_offset aflat mflat c) 0 =
  zsum (fun q => zsum (fun i => nthZ (aflat q) i * ext' (mflat q (c + off)%nat) (Z.of_nat k - Z.of_nat i)) n) row_max.
Proof.
  intros Ha Hm Hc Hk. rewrite vmp_is_sum_of_row_products.
  destruct (Nat.ltb_spec c (col_max - off)); [|lia].
  rewrite psum_coeff by (intros; rewrite pmul_length; apply Ha).
  apply zsum_ext; intros q _. rewrite pmul_spec by (rewrite ?Ha, ?Hm; auto). rewrite Ha. reflexivity.
Qed.

Corollary vmp_outside c : (col_max - off <= c)%nat ->
  vmp n rcols rsz acols asz rows msize limb_offset aflat mflat c = pzero n.
Proof. intros H. rewrite vmp_is_sum_of_row_products. destruct (Nat.ltb_spec c (col_max - off)); [lia|reflexivity]. Qed.
End Vmp.
