(* C08, cross-radix normalisation: the inner repacking loop (cross_inner) moves the bits of one
   normalised a-digit into the res limbs as balanced pieces; value and position bookkeeping. *)
From PV Require Import Base.MachineInt Model.Znx Model.Limbs
  Proofs.ZnxDigit Proofs.C08Steps Proofs.C08Chain Proofs.C08Loops.
Open Scope Z_scope.

(* ---------- kernels at w = 64 ---------- *)

Lemma pow2_le_mono (x y : Z) : 0 <= x <= y -> 2 ^ x <= 2 ^ y.
Proof. intros; apply Z.pow_le_mono_r; lia. Qed.

Lemma pow2_add (x y : Z) : 0 <= x -> 0 <= y -> 2 ^ (x + y) = 2 ^ x * 2 ^ y.
Proof. intros; apply Z.pow_add_r; lia. Qed.

(* peel a balanced w-bit piece off s and add it at bit `scale` of a limb that is clean above `scale` *)
Lemma extract64 (w scale r s : Z) : 1 <= w -> 0 <= scale -> scale + w <= 62 ->
  Z.abs s <= 2 ^ 62 -> Z.abs r <= 2 ^ scale - 1 ->
  extract_digit_addmul 64 w scale r s = (r + wrap w s * 2 ^ scale, bdiv w s) /\
  Z.abs (r + wrap w s * 2 ^ scale) <= 2 ^ (scale + w) - 1.
Proof.
  intros Hw Hs Hsw Hs62 Hr.
  pose proof (wrap_range w s Hw) as [D1 D2].
  pose proof (pow2_pos scale Hs) as Hp.
  pose proof (pow2_pos (w - 1) ltac:(lia)) as Hpw.
  assert (E : 2 ^ (scale + w) = 2 ^ scale * (2 * 2 ^ (w - 1))).
  { rewrite pow2_add by lia. f_equal. apply pow2_split; lia. }
  assert (Hle : 2 ^ (scale + w) <= 2 ^ 62) by (apply pow2_le_mono; lia).
  assert (Hb : Z.abs (r + wrap w s * 2 ^ scale) <= 2 ^ (scale + w) - 1) by (rewrite E; nia).
  split; [|exact Hb].
  unfold extract_digit_addmul.
  destruct (digit_carry_ideal 64 w s ltac:(lia)) as [E1 E2].
  { change (2 ^ (64 - 2)) with (2 ^ 62). lia. }
  cbv zeta. rewrite E2, E1. f_equal.
  assert (Hd : in_range 64 (wrap w s * 2 ^ scale)).
  { unfold in_range. change (2 ^ (64 - 1)) with (2 * 2 ^ 62). rewrite E in Hle. nia. }
  rewrite shl_exact by (auto; lia). unfold wadd. apply wrap_id; [lia|].
  unfold in_range. change (2 ^ (64 - 1)) with (2 * 2 ^ 62). lia.
Qed.

(* remaining part after peeling w bits off a value bounded by 2^t *)
Lemma rest_bound (w t s : Z) : 1 <= w <= t -> Z.abs s <= 2 ^ t -> Z.abs (bdiv w s) <= 2 ^ (t - w).
Proof.
  intros Hw Hs. pose proof (bdiv_abs w s ltac:(lia)) as Hk.
  assert (E : 2 ^ t = 2 ^ w * 2 ^ (t - w)) by (rewrite <- pow2_add by lia; f_equal; lia).
  pose proof (pow2_pos (w - 1) ltac:(lia)). pose proof (pow2_split w ltac:(lia)).
  pose proof (pow2_pos (t - w) ltac:(lia)).
  set (K := Z.abs (bdiv w s)) in *.
  destruct (Z_le_gt_dec K (2 ^ (t - w))) as [|Hgt]; auto.
  assert ((2 ^ (t - w) + 1) * 2 ^ w <= K * 2 ^ w) by (apply Z.mul_le_mono_nonneg_r; lia).
  nia.
Qed.

Lemma bal_abs (w d : Z) : 1 <= w -> in_range w d -> Z.abs d <= 2 ^ w - 1.
Proof.
  intros Hw [H1 H2]. pose proof (pow2_pos (w - 1) ltac:(lia)). pose proof (pow2_split w ltac:(lia)). lia.
Qed.

Lemma pieces_bound (w t d p : Z) : 1 <= w -> 0 <= t -> in_range w d -> Z.abs p <= 2 ^ t - 1 ->
  Z.abs (d + 2 ^ w * p) <= 2 ^ w * 2 ^ t - 1.
Proof.
  intros Hw Ht [H1 H2] Hp. pose proof (pow2_pos (w - 1) ltac:(lia)). pose proof (pow2_split w ltac:(lia)).
  pose proof (pow2_pos t Ht). nia.
Qed.

Lemma full_pos (R rl rb x : Z) : 0 <= rl -> 1 <= rb -> 0 <= x -> (R - rl) * rb - x = R * rb -> rl = 0 /\ x = 0.
Proof. intros; nia. Qed.

(* ---------- value of the res limbs as one integer (limb rsz-1 is the least significant) ---------- *)

Section Inner.
Variables rb ab : Z.
Hypothesis Hrb : 1 <= rb <= 62.
Hypothesis Hab : 1 <= ab <= 62.
Variable rsz : nat.

Definition Vres (res : list Z) : Z :=
  sumn rsz (fun i => nthZ res i * 2 ^ ((zn rsz - 1 - zn i) * rb)).

Lemma sumn_point (n k : nat) (f : nat -> Z) (wgt : nat -> Z) (x : Z) : (k < n)%nat ->
  sumn n (fun i => (if Nat.eqb i k then x else f i) * wgt i) = sumn n (fun i => f i * wgt i) + (x - f k) * wgt k.
Proof.
  induction n as [|n IH]; intros Hk; [lia|]. cbn [sumn].
  destruct (Nat.eq_dec k n) as [->|Hne].
  - rewrite Nat.eqb_refl.
    rewrite (sumn_ext n _ (fun i => f i * wgt i)); [ring|].
    intros t Ht. destruct (Nat.eqb_spec t n); [lia|reflexivity].
  - rewrite IH by lia. destruct (Nat.eqb_spec n k); [lia|]. ring.
Qed.

Lemma Vres_upd (res : list Z) (k : nat) (x : Z) : length res = rsz -> (k < rsz)%nat ->
  Vres (upd res k x) = Vres res + (x - nthZ res k) * 2 ^ ((zn rsz - 1 - zn k) * rb).
Proof.
  intros Hl Hk. unfold Vres.
  rewrite <- (sumn_point rsz k (nthZ res) (fun i => 2 ^ ((zn rsz - 1 - zn i) * rb)) x Hk).
  apply sumn_ext. intros i Hi. rewrite nth_upd, Hl.
  destruct (Nat.ltb_spec k rsz); [|lia]. rewrite Bool.andb_true_r. reflexivity.
Qed.

(* position (in bits from the bottom of res) where the next piece goes *)
Definition Fpos (s : cstate) : Z := (zn rsz - zn (c_rlimb s)) * rb - c_racc s.

Definition shape (s : cstate) : Prop :=
  length (c_res s) = rsz /\ (c_rlimb s < rsz)%nat /\
  (forall i, (i < c_rlimb s)%nat -> nthZ (c_res s) i = 0) /\
  Z.abs (nthZ (c_res s) (c_rlimb s)) <= 2 ^ (rb - c_racc s) - 1.

Variable a_limb : nat.

Definition pre (s : cstate) : Prop :=
  shape s /\ 0 < c_racc s <= rb /\ 0 < c_atake s <= ab /\ Z.abs (c_anorm s) <= 2 ^ c_atake s /\
  Z.abs (c_acarry s) <= 2 ^ 62 /\ c_rcarry s = 0 /\
  (a_limb = 0%nat -> Fpos s + c_atake s = zn rsz * rb).

Definition post (s s' : cstate) (o : couts) : Prop :=
  o <> Fuel /\
  (o = InnerDone ->
     exists Pi, c_anorm s = Pi + 2 ^ c_atake s * (c_acarry s' - c_acarry s) /\
       Z.abs Pi <= 2 ^ c_atake s - 1 /\
       Vres (c_res s') = Vres (c_res s) + 2 ^ Fpos s * Pi /\
       Fpos s' = Fpos s + c_atake s /\ shape s' /\ 0 < c_racc s' <= rb /\ c_rcarry s' = 0 /\
       Z.abs (c_acarry s' - c_acarry s) <= 1) /\
  (o = OuterBreak ->
     zn rsz * rb <= Fpos s + c_atake s /\ length (c_res s') = rsz /\
     exists K, Vres (c_res s') = Vres (c_res s) + 2 ^ Fpos s * c_anorm s + 2 ^ (zn rsz * rb) * K).

Lemma Fpos_nonneg (s : cstate) : (c_rlimb s < rsz)%nat -> 0 <= c_racc s <= rb -> 0 <= Fpos s.
Proof. intros Hl Hr. unfold Fpos, zn. nia. Qed.

Lemma weight_at (s : cstate) : (c_rlimb s < rsz)%nat -> 0 <= c_racc s <= rb ->
  2 ^ (rb - c_racc s) * 2 ^ ((zn rsz - 1 - zn (c_rlimb s)) * rb) = 2 ^ Fpos s.
Proof.
  intros Hl Hr. unfold Fpos. rewrite <- pow2_add by (unfold zn; nia). f_equal. ring.
Qed.

(* `cross_inner_spec` (the specification of the inner loop under `pre`, with conclusion `post`) is proved for every
   word width in Proofs/C08WCrossInner.v (`cross_inner_specW`); its instance at width 64 is in Proofs/C08Cross64.v. *)

End Inner.
