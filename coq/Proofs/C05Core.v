(* C05 part 2 — proofs about the core-level model (Model/C05Core.v): bit-exact identities between the entry points
   (square = self-multiplication, accumulate = add the product), the value of every tensor column and the phase of the
   tensor under (1, s, s (x) s) over exact products, column-wise products (mul_plain / mul_const), the torus position
   of the convolution output.  The per-column big-normalisation enters through named Section hypotheses
   (`nrm_shape`, `nrm_no_overflow`, `normalize_value_ok`). *)
From PV Require Import Base.MachineInt Model.Znx Model.Limbs Model.LimbsBig Model.Flat Model.Ring Model.DftAbs
  Model.C05Cnv Model.C05Spec Model.C05Core.
From PV Require Import Proofs.C07Dft Proofs.C07Ring Proofs.C05Cnv.
Open Scope Z_scope.

(* ---------- shapes of limb vectors ---------- *)
Definition shaped (n rsz : nat) (l : limbs) : Prop := length l = rsz /\ forall j, (j < rsz)%nat -> length (lnth l j) = n.

Lemma build_length rsz f : length (build rsz f) = rsz.
Proof. unfold build; rewrite map_length, seq_length; reflexivity. Qed.
Lemma lnth_build rsz f j : (j < rsz)%nat -> lnth (build rsz f) j = f j.
Proof. apply lim_mk'. Qed.
Lemma build_ext rsz f g : (forall j, (j < rsz)%nat -> f j = g j) -> build rsz f = build rsz g.
Proof. intros H. unfold build. apply map_ext_in. intros j Hj. apply in_seq in Hj. apply H. lia. Qed.

(* ---------- wrap algebra ---------- *)
Lemma wrap_shift w x q : 1 <= w -> wrap w (x + q * 2 ^ w) = wrap w x.
Proof. intros Hw. apply wrap_eq_mod; auto. apply Z_mod_plus_full. Qed.

Lemma wrap3_square w p di dj : 1 <= w ->
  wsub w (wsub w p di) dj = wadd w (wsub w (wneg w di) dj) p.
Proof.
  intros Hw. unfold wsub, wadd, wneg.
  destruct (wrap_exists w (p - di) Hw) as [q1 E1]. destruct (wrap_exists w (- di) Hw) as [q2 E2].
  rewrite E1, E2.
  destruct (wrap_exists w (- di - q2 * 2 ^ w - dj) Hw) as [q3 E3]. rewrite E3.
  replace (p - di - q1 * 2 ^ w - dj) with ((p - di - dj) + (- q1) * 2 ^ w) by ring.
  replace (- di - q2 * 2 ^ w - dj - q3 * 2 ^ w + p) with ((p - di - dj) + (- q2 - q3) * 2 ^ w) by ring.
  rewrite !wrap_shift by exact Hw. reflexivity.
Qed.

Lemma wrap3_add_assign w r p di dj : 1 <= w ->
  wadd w (wsub w (wsub w r di) dj) p = wadd w r (wadd w (wsub w (wneg w di) dj) p).
Proof.
  intros Hw. unfold wsub, wadd, wneg.
  destruct (wrap_exists w (r - di) Hw) as [q1 E1]. rewrite E1.
  destruct (wrap_exists w (r - di - q1 * 2 ^ w - dj) Hw) as [q2 E2]. rewrite E2.
  destruct (wrap_exists w (- di) Hw) as [q3 E3]. rewrite E3.
  destruct (wrap_exists w (- di - q3 * 2 ^ w - dj) Hw) as [q4 E4]. rewrite E4.
  destruct (wrap_exists w (- di - q3 * 2 ^ w - dj - q4 * 2 ^ w + p) Hw) as [q5 E5]. rewrite E5.
  replace (r - di - q1 * 2 ^ w - dj - q2 * 2 ^ w + p) with ((r - di - dj + p) + (- q1 - q2) * 2 ^ w) by ring.
  replace (r + (- di - q3 * 2 ^ w - dj - q4 * 2 ^ w + p - q5 * 2 ^ w)) with ((r - di - dj + p) + (- q3 - q4 - q5) * 2 ^ w) by ring.
  rewrite !wrap_shift by exact Hw. reflexivity.
Qed.

(* limb level *)
Lemma map2_ext_nth (f g : Z -> Z -> Z) x y x' y' :
  length x = length x' -> length y = length y' ->
  (forall k, (k < length x)%nat -> (k < length y)%nat -> f (nth k x 0) (nth k y 0) = g (nth k x' 0) (nth k y' 0)) ->
  map2 f x y = map2 g x' y'.
Proof.
  intros Hx Hy H. apply list_eq_nth; [rewrite !map2_length; lia|].
  rewrite map2_length. intros k Hk. rewrite !nth_map2 by lia. apply H; lia.
Qed.

Lemma vadd_length w x y : length (vadd w x y) = Nat.min (length x) (length y).
Proof. apply map2_length. Qed.
Lemma vsub_length w x y : length (vsub w x y) = Nat.min (length x) (length y).
Proof. apply map2_length. Qed.
Lemma vneg_length w x : length (vneg w x) = length x.
Proof. apply map_length. Qed.
Lemma nth_vadd w x y k : (k < length x)%nat -> (k < length y)%nat -> nth k (vadd w x y) 0 = wadd w (nth k x 0) (nth k y 0).
Proof. apply nth_map2. Qed.
Lemma nth_vsub w x y k : (k < length x)%nat -> (k < length y)%nat -> nth k (vsub w x y) 0 = wsub w (nth k x 0) (nth k y 0).
Proof. apply nth_map2. Qed.
Lemma nth_vneg w x k : (k < length x)%nat -> nth k (vneg w x) 0 = wneg w (nth k x 0).
Proof. intros H. unfold vneg. rewrite (nth_map' _ _ _ _ 0) by exact H. reflexivity. Qed.

Lemma limb_square w p di dj n : 1 <= w -> length p = n -> length di = n -> length dj = n ->
  vsub w (vsub w p di) dj = vadd w (vsub w (vneg w di) dj) p.
Proof.
  intros Hw Hp Hi Hj. apply list_eq_nth.
  { rewrite vadd_length, !vsub_length, vneg_length. lia. }
  rewrite !vsub_length. intros k Hk.
  rewrite nth_vsub, nth_vsub, nth_vadd, nth_vsub, nth_vneg by (rewrite ?vsub_length, ?vneg_length; lia).
  apply wrap3_square; exact Hw.
Qed.

Lemma limb_add_assign w r p di dj n : 1 <= w -> length r = n -> length p = n -> length di = n -> length dj = n ->
  vadd w (vsub w (vsub w r di) dj) p = vadd w r (vadd w (vsub w (vneg w di) dj) p).
Proof.
  intros Hw Hr Hp Hi Hj. apply list_eq_nth.
  { rewrite !vadd_length, !vsub_length, vneg_length. lia. }
  rewrite vadd_length, !vsub_length. intros k Hk.
  rewrite nth_vadd, nth_vsub, nth_vsub, nth_vadd, nth_vadd, nth_vsub, nth_vneg
    by (rewrite ?vadd_length, ?vsub_length, ?vneg_length; lia).
  apply wrap3_add_assign; exact Hw.
Qed.

(* ---------- vector level ---------- *)
Section Cells.
Variables (fft : bool) (n rsz : nat).
Variable nrm : plimbs -> limbs.
Hypothesis nrm_shape : forall D, shaped n rsz (nrm D).

Lemma W_pos : 1 <= W. Proof. unfold W; lia. Qed.

Lemma diag_shape dsz hi A B i : shaped n rsz (diag fft n nrm dsz hi A B i).
Proof. apply nrm_shape. Qed.
Lemma pairw_shape dsz hi A B i j : shaped n rsz (pairw fft n nrm dsz hi A B i j).
Proof. apply nrm_shape. Qed.

Lemma cell_apply_shape dsz hi A B i j r0 : length r0 = rsz -> shaped n rsz (cell_apply fft n nrm dsz hi A B i j r0).
Proof.
  intros Hr. unfold cell_apply.
  destruct (nrm_shape (cnv_apply fft n dsz hi (colsel A i) (colsel B i))) as [Li Si].
  destruct (nrm_shape (cnv_apply fft n dsz hi (colsel A j) (colsel B j))) as [Lj Sj].
  destruct (nrm_shape (cnv_pairwise fft n dsz hi (colsel A i) (colsel A j) (colsel B i) (colsel B j) (Nat.eqb i j))) as [Lp Sp].
  unfold diag, pairw. destruct (Nat.eqb i j) eqn:E.
  - unfold vcopy, vec_unary. split; [rewrite build_length; exact Hr|]. intros u Hu. rewrite lnth_build by lia.
    rewrite Li. replace (Nat.ltb u rsz) with true by (symmetry; apply Nat.ltb_lt; exact Hu). apply Si; exact Hu.
  - unfold vec_add_assign, vec_sub_assign, vnegate, vec_unary. rewrite !build_length, Hr.
    split; [rewrite build_length; reflexivity|]. intros u Hu. rewrite !lnth_build by lia.
    rewrite Li, Lj, Lp. replace (Nat.ltb u rsz) with true by (symmetry; apply Nat.ltb_lt; exact Hu).
    rewrite vadd_length, vsub_length, vneg_length, Si, Sj, Sp by exact Hu. lia.
Qed.

(* square: the cross column computed as (pairwise - diag_i) - diag_j equals (-diag_i - diag_j) + pairwise, bit for bit *)
Lemma cell_square_eq_apply dsz hi A B i j r0 : length r0 = rsz ->
  cell_square fft n nrm dsz hi A B i j r0 = cell_apply fft n nrm dsz hi A B i j r0.
Proof.
  intros Hr. unfold cell_square, cell_apply. destruct (Nat.eqb i j); [reflexivity|].
  destruct (diag_shape dsz hi A B i) as [Li Si]. destruct (diag_shape dsz hi A B j) as [Lj Sj].
  destruct (pairw_shape dsz hi A B i j) as [Lp Sp].
  set (di := diag fft n nrm dsz hi A B i) in *. set (dj := diag fft n nrm dsz hi A B j) in *.
  set (p := pairw fft n nrm dsz hi A B i j) in *.
  unfold vec_sub_assign, vec_add_assign, vcopy, vnegate, vec_unary. rewrite !build_length, Hr.
  apply build_ext. intros u Hu. rewrite !lnth_build by lia.
  rewrite Li, Lj, Lp. replace (Nat.ltb u rsz) with true by (symmetry; apply Nat.ltb_lt; exact Hu).
  apply (limb_square W _ _ _ n W_pos); auto.
Qed.

(* add_assign: the accumulated column is the prior column plus the column glwe_tensor_apply would produce *)
Lemma cell_add_assign_eq dsz hi A B i j r0 : shaped n rsz r0 ->
  cell_add_assign fft n nrm dsz hi A B i j r0 = vec_add_assign W (cell_apply fft n nrm dsz hi A B i j r0) r0.
Proof.
  intros [Hr Sr]. unfold cell_add_assign, cell_apply.
  destruct (diag_shape dsz hi A B i) as [Li Si]. destruct (diag_shape dsz hi A B j) as [Lj Sj].
  destruct (pairw_shape dsz hi A B i j) as [Lp Sp].
  set (di := diag fft n nrm dsz hi A B i) in *. set (dj := diag fft n nrm dsz hi A B j) in *.
  set (p := pairw fft n nrm dsz hi A B i j) in *.
  destruct (Nat.eqb i j).
  - unfold vec_add_assign, vcopy, vec_unary. rewrite !build_length, Hr, Li.
    apply build_ext. intros u Hu. rewrite !lnth_build by lia.
    replace (Nat.ltb u rsz) with true by (symmetry; apply Nat.ltb_lt; exact Hu). reflexivity.
  - unfold vec_sub_assign, vec_add_assign, vnegate, vec_unary. rewrite !build_length, Hr.
    apply build_ext. intros u Hu. rewrite !lnth_build by lia.
    rewrite Li, Lj, Lp. replace (Nat.ltb u rsz) with true by (symmetry; apply Nat.ltb_lt; exact Hu).
    apply (limb_add_assign W _ _ _ _ n W_pos); auto.
Qed.

Lemma tensor_gen_ext (c1 c2 : nat -> nat -> limbs -> limbs) cols res0 :
  (forall i j r, In r res0 -> c1 i j r = c2 i j r) -> tensor_gen c1 cols res0 = tensor_gen c2 cols res0.
Proof.
  intros H. unfold tensor_gen. apply map_ext_in. intros [[i j] r] Hin. cbn [fst snd].
  apply H. apply in_combine_r in Hin. exact Hin.
Qed.

Theorem tensor_square_eq_apply dsz hi A B cols res0 : (forall r, In r res0 -> length r = rsz) ->
  tensor_gen (cell_square fft n nrm dsz hi A B) cols res0 = tensor_gen (cell_apply fft n nrm dsz hi A B) cols res0.
Proof. intros H. apply tensor_gen_ext. intros i j r Hr. apply cell_square_eq_apply. apply H; exact Hr. Qed.

Lemma map2_map_combine {X Y Z0} (f : Y -> Z0 -> Z0) (g : X * Y -> Z0) (tp : list X) (l : list Y) :
  map2 (fun r t => f r t) l (map g (combine tp l)) = map (fun q => f (snd q) (g q)) (combine tp l).
Proof.
  revert l; induction tp as [|x tp IH]; intros [|y l]; cbn [combine map]; try reflexivity.
  unfold map2 in *. cbn [combine map fst snd]. f_equal. apply IH.
Qed.

Theorem tensor_add_assign_adds dsz hi A B cols res0 : (forall r, In r res0 -> shaped n rsz r) ->
  tensor_gen (cell_add_assign fft n nrm dsz hi A B) cols res0 =
  map2 (fun r t => vec_add_assign W t r) res0 (tensor_gen (cell_apply fft n nrm dsz hi A B) cols res0).
Proof.
  intros H. unfold tensor_gen at 2.
  rewrite (map2_map_combine (fun r t => vec_add_assign W t r)).
  unfold tensor_gen. apply map_ext_in. intros [[i j] r] Hin. cbn [fst snd].
  apply cell_add_assign_eq. apply H. apply in_combine_r in Hin. exact Hin.
Qed.
End Cells.

(* ---------- values ---------- *)
Lemma shaped_wfl n rsz l : shaped n rsz l -> wfl n l.
Proof. intros [L S] j Hj. rewrite L in Hj. apply (S j Hj). Qed.

Lemma pscale_length' c q : length (pscale c q) = length q.
Proof. apply map_length. Qed.

Definition cval (Q b : Z) (c : nat) (l : plimbs) : Z :=
  zsum (fun u => 2 ^ (Q - (zn u + 1) * b) * nth c (lim l u) 0) (length l).

Lemma pval_length n Q b l : wfl n l -> length (pval n Q b l) = n.
Proof. intros wl. unfold pval. apply psumf_length. intros u Hu. rewrite pscale_length'. apply wl; exact Hu. Qed.

Lemma nth_pval n Q b l c : wfl n l -> nth c (pval n Q b l) 0 = cval Q b c l.
Proof.
  intros wl. unfold pval, cval.
  rewrite psumf_coeff by (intros u Hu; rewrite pscale_length'; apply wl; exact Hu).
  apply zsum_ext; intros u _. apply nth_pscale.
Qed.

(* lists of polynomials *)
Definition lsum (l : list Z) : Z := fold_right Z.add 0 l.

Lemma fold_padd_length n l acc : length acc = n -> (forall x, In x l -> length x = n) -> length (fold_left padd l acc) = n.
Proof.
  revert acc; induction l as [|x l IH]; intros acc Ha H; [exact Ha|].
  cbn [fold_left]. apply IH; [rewrite padd_length, Ha, (H x (or_introl eq_refl)); apply Nat.min_id|].
  intros y Hy; apply H; right; exact Hy.
Qed.
Lemma fold_padd_nth n l acc c : length acc = n -> (forall x, In x l -> length x = n) ->
  nth c (fold_left padd l acc) 0 = nth c acc 0 + lsum (map (fun x => nth c x 0) l).
Proof.
  revert acc; induction l as [|x l IH]; intros acc Ha H; [cbn; lia|].
  cbn [fold_left map lsum fold_right].
  rewrite IH; [|rewrite padd_length, Ha, (H x (or_introl eq_refl)); apply Nat.min_id|intros y Hy; apply H; right; exact Hy].
  rewrite nth_padd by (rewrite Ha; apply H; left; reflexivity). fold (lsum (map (fun x0 => nth c x0 0) l)). lia.
Qed.
Lemma plsum_length n l : (forall x, In x l -> length x = n) -> length (plsum n l) = n.
Proof. intros H. apply fold_padd_length; [apply pzero_length|exact H]. Qed.
Lemma nth_plsum n l c : (forall x, In x l -> length x = n) -> nth c (plsum n l) 0 = lsum (map (fun x => nth c x 0) l).
Proof. intros H. unfold plsum. rewrite (fold_padd_nth n) by (try apply pzero_length; exact H). rewrite nth_pzero. lia. Qed.

Lemma lsum_map_add {X} (f g : X -> Z) l : lsum (map (fun x => f x + g x) l) = lsum (map f l) + lsum (map g l).
Proof. induction l as [|x l IH]; cbn [map lsum fold_right]; [reflexivity|]. fold (lsum (map (fun x => f x + g x) l)) (lsum (map f l)) (lsum (map g l)). lia. Qed.
Lemma lsum_map_scale {X} k (f : X -> Z) l : lsum (map (fun x => k * f x) l) = k * lsum (map f l).
Proof. induction l as [|x l IH]; cbn [map lsum fold_right]; [lia|]. fold (lsum (map (fun x => k * f x) l)) (lsum (map f l)). lia. Qed.
Lemma lsum_map_ext {X} (f g : X -> Z) l : (forall x, In x l -> f x = g x) -> lsum (map f l) = lsum (map g l).
Proof. intros H. f_equal. apply map_ext_in. exact H. Qed.

(* pmul is linear in its first argument, coefficient-wise *)
Lemma nth_pmul_padd x y t c : length y = length x -> length t = length x ->
  nth c (pmul (padd x y) t) 0 = nth c (pmul x t) 0 + nth c (pmul y t) 0.
Proof. intros H1 H2. rewrite pmul_padd_distr_r by lia. rewrite nth_padd by (rewrite !pmul_length; lia). reflexivity. Qed.

Lemma nth_pmul_pscale k x t c : length t = length x -> nth c (pmul (pscale k x) t) 0 = k * nth c (pmul x t) 0.
Proof.
  intros H. destruct (Nat.lt_ge_cases c (length x)) as [Hc|Hc].
  - rewrite !pmul_spec by (rewrite ?pscale_length'; lia). rewrite pscale_length', <- zsum_mul_l.
    apply zsum_ext; intros i _. unfold nthZ. rewrite nth_pscale. ring.
  - rewrite !nth_overflow by (rewrite pmul_length, ?pscale_length'; lia). lia.
Qed.

Lemma wrap3_apply_val w p di dj : 1 <= w -> wadd w (wsub w (wneg w di) dj) p = wrap w (p - di - dj).
Proof.
  intros Hw. unfold wsub, wadd, wneg.
  destruct (wrap_exists w (- di) Hw) as [q2 E2]. rewrite E2.
  destruct (wrap_exists w (- di - q2 * 2 ^ w - dj) Hw) as [q3 E3]. rewrite E3.
  replace (- di - q2 * 2 ^ w - dj - q3 * 2 ^ w + p) with ((p - di - dj) + (- q2 - q3) * 2 ^ w) by ring.
  apply wrap_shift; exact Hw.
Qed.

Lemma cval_ext Q b c l l' : length l = length l' -> (forall u, (u < length l)%nat -> nth c (lim l u) 0 = nth c (lim l' u) 0) ->
  cval Q b c l = cval Q b c l'.
Proof. intros HL H. unfold cval. rewrite <- HL. apply zsum_ext; intros u Hu. rewrite H by exact Hu. reflexivity. Qed.

Lemma tpairs_bounds cols ij : In ij (tpairs cols) -> (fst ij <= snd ij)%nat /\ (snd ij < cols)%nat.
Proof.
  unfold tpairs. rewrite in_flat_map. intros (i & Hi & Hin). apply in_seq in Hi.
  apply in_map_iff in Hin. destruct Hin as (j & <- & Hj). apply in_seq in Hj. cbn [fst snd]. lia.
Qed.

Lemma combine_map_combine {X Y Z1 Z2} (f : X * Y -> Z1) (g : X -> Z2) (tp : list X) (r0 : list Y) :
  length r0 = length tp ->
  combine (map f (combine tp r0)) (map g tp) = map (fun q => (f q, g (fst q))) (combine tp r0).
Proof.
  revert r0; induction tp as [|x tp IH]; intros [|y r0] H; cbn [length] in H; try discriminate; [reflexivity|].
  cbn [combine map fst]. f_equal. apply IH. lia.
Qed.

Lemma map_fst_combine {X Y} (tp : list X) (r0 : list Y) : length r0 = length tp -> map fst (combine tp r0) = tp.
Proof.
  revert r0; induction tp as [|x tp IH]; intros [|y r0] H; cbn [length] in H; try discriminate; [reflexivity|].
  cbn [combine map fst]. f_equal. apply IH. lia.
Qed.

Lemma in_combine_fst {X Y} (tp : list X) (r0 : list Y) q : In q (combine tp r0) -> In (fst q) tp.
Proof. destruct q as [x y]. apply in_combine_l. Qed.


Section TensorPhase.
Variables (fft : bool) (n rsz dsz hi cols asz bsz : nat) (P rb ab lo : Z).
Variable nrm : plimbs -> limbs.
Variables eps kap : plimbs -> list Z.
Variable dom : plimbs -> Prop.
Variables A B : list plimbs.
Variable sigma : nat * nat -> list Z.

Definition Uu : Z := 2 ^ (P - zn rsz * rb).
Definition Vr (l : limbs) : list Z := pval n P rb l.
Definition Vd (D : plimbs) : list Z := pval n (P + lo) ab D.

Hypothesis nrm_shape : forall D, shaped n rsz (nrm D).
Hypothesis nrm_no_overflow : forall D, wfl n D -> length D = dsz -> dom D -> forall u c, Z.abs (nth c (lim (nrm D) u) 0) <= 2 ^ 61.
(* the value fact of the per-column big-normalisation (C08): one unit of the result's last limb, on the torus *)
Hypothesis normalize_value_ok : forall D, wfl n D -> length D = dsz -> dom D ->
  length (eps D) = n /\ length (kap D) = n /\
  Vr (nrm D) = padd (padd (Vd D) (eps D)) (pscale (2 ^ P) (kap D)) /\
  forall c, Z.abs (nth c (eps D) 0) <= Uu.

Hypothesis HA : forall i, (i < cols)%nat -> wfl n (colsel A i) /\ length (colsel A i) = asz.
Hypothesis HB : forall i, (i < cols)%nat -> wfl n (colsel B i) /\ length (colsel B i) = bsz.
Hypothesis Hasz : (1 <= asz)%nat.
Hypothesis Hbsz : (1 <= bsz)%nat.

Definition Cn (i j : nat) : plimbs := cnv_apply fft n dsz hi (colsel A i) (colsel B j).
Definition Pw (i j : nat) : plimbs := cnv_pairwise fft n dsz hi (colsel A i) (colsel A j) (colsel B i) (colsel B j) false.

Hypothesis Hdom_diag : forall i, (i < cols)%nat -> dom (Cn i i).
Hypothesis Hdom_pair : forall i j, (i < cols)%nat -> (j < cols)%nat -> i <> j -> dom (Pw i j).

Lemma Cn_wfl i j : (i < cols)%nat -> (j < cols)%nat -> wfl n (Cn i j) /\ length (Cn i j) = dsz.
Proof.
  intros Hi Hj. destruct (HA i Hi) as [wa La]. destruct (HB j Hj) as [wb Lb]. split.
  - apply cnv_apply_wfl; try assumption; lia.
  - apply cnv_apply_length.
Qed.
Lemma Pw_wfl i j : (i < cols)%nat -> (j < cols)%nat -> wfl n (Pw i j) /\ length (Pw i j) = dsz.
Proof.
  intros Hi Hj. destruct (HA i Hi) as [wa La]. destruct (HB i Hi) as [wb Lb].
  destruct (HA j Hj) as [wa' La']. destruct (HB j Hj) as [wb' Lb']. unfold Pw, cnv_pairwise. split.
  - apply cnv_apply_wfl; try (apply plimbs_add_wfl; try assumption; lia); rewrite plimbs_add_length; lia.
  - apply cnv_apply_length.
Qed.

(* the pairwise trick under the (linear) value map *)
Lemma cval_pairwise Q b c i j : (i < cols)%nat -> (j < cols)%nat ->
  cval Q b c (Pw i j) - cval Q b c (Cn i i) - cval Q b c (Cn j j) = cval Q b c (Cn i j) + cval Q b c (Cn j i).
Proof.
  intros Hi Hj. unfold cval.
  destruct (Pw_wfl i j Hi Hj) as [_ L0]. destruct (Cn_wfl i i Hi Hi) as [w1 L1]. destruct (Cn_wfl j j Hj Hj) as [w2 L2].
  destruct (Cn_wfl i j Hi Hj) as [w3 L3]. destruct (Cn_wfl j i Hj Hi) as [w4 L4].
  rewrite L0, L1, L2, L3, L4. rewrite <- !zsum_sub, <- zsum_add. apply zsum_ext; intros u Hu.
  destruct (HA i Hi) as [wa La]. destruct (HB i Hi) as [wb Lb]. destruct (HA j Hj) as [wa' La']. destruct (HB j Hj) as [wb' Lb'].
  pose proof (pairwise_identity_cnv fft n dsz hi (colsel A i) (colsel A j) (colsel B i) (colsel B j) u
                wa wa' wb wb' ltac:(lia) ltac:(lia) ltac:(lia) ltac:(lia) Hu) as E.
  apply (f_equal (fun l => nth c l 0)) in E.
  assert (G : forall x y, (x < cols)%nat -> (y < cols)%nat -> length (lim (Cn x y) u) = n).
  { intros x y Hx Hy. destruct (Cn_wfl x y Hx Hy) as [w L]. apply w. rewrite L. exact Hu. }
  assert (G0 : length (lim (Pw i j) u) = n).
  { destruct (Pw_wfl i j Hi Hj) as [w L]. apply w. rewrite L. exact Hu. }
  fold (Pw i j) (Cn i i) (Cn j j) (Cn i j) (Cn j i) in E.
  rewrite !nth_psub, nth_padd in E by (rewrite ?psub_length, ?G0, ?G by assumption; lia).
  unfold Cn, Pw in *. lia.
Qed.

Lemma cell_apply_shaped i j r0 : length r0 = rsz -> shaped n rsz (cell_apply fft n nrm dsz hi A B i j r0).
Proof. apply cell_apply_shape. exact nrm_shape. Qed.

(* value of a cross column of glwe_tensor_apply: no wrap-around happens, so V(T_ij) = V(pairwise) - V(diag_i) - V(diag_j) *)
Lemma cval_cell_cross c i j r0 : (i < cols)%nat -> (j < cols)%nat -> length r0 = rsz -> i <> j ->
  cval P rb c (cell_apply fft n nrm dsz hi A B i j r0) =
  cval P rb c (nrm (Pw i j)) - cval P rb c (nrm (Cn i i)) - cval P rb c (nrm (Cn j j)).
Proof.
  intros Hi Hj Hr Hij. unfold cell_apply. replace (Nat.eqb i j) with false by (symmetry; apply Nat.eqb_neq; exact Hij).
  unfold diag, pairw. replace (Nat.eqb i j) with false by (symmetry; apply Nat.eqb_neq; exact Hij).
  fold (Cn i i) (Cn j j) (Pw i j).
  destruct (nrm_shape (Cn i i)) as [Li Si]. destruct (nrm_shape (Cn j j)) as [Lj Sj]. destruct (nrm_shape (Pw i j)) as [Lp Sp].
  set (di := nrm (Cn i i)) in *. set (dj := nrm (Cn j j)) in *. set (p := nrm (Pw i j)) in *.
  pose proof (cell_apply_shaped i j r0 Hr) as [Lc _]. unfold cell_apply in Lc.
  replace (Nat.eqb i j) with false in Lc by (symmetry; apply Nat.eqb_neq; exact Hij).
  unfold diag, pairw in Lc. replace (Nat.eqb i j) with false in Lc by (symmetry; apply Nat.eqb_neq; exact Hij).
  fold (Cn i i) (Cn j j) (Pw i j) in Lc. fold di dj p in Lc.
  unfold cval. rewrite Lc, Li, Lj, Lp. rewrite <- !zsum_sub. apply zsum_ext; intros u Hu.
  change (lim ?l u) with (lnth l u).
  unfold vec_add_assign, vec_sub_assign, vnegate, vec_unary. rewrite !build_length, Hr. rewrite !lnth_build by lia.
  rewrite Li, Lj, Lp. replace (Nat.ltb u rsz) with true by (symmetry; apply Nat.ltb_lt; exact Hu).
  destruct (Nat.lt_ge_cases c n) as [Hc|Hc].
  - rewrite nth_vadd, nth_vsub, nth_vneg by (rewrite ?vsub_length, ?vneg_length, ?Si, ?Sj, ?Sp by exact Hu; lia).
    rewrite (wrap3_apply_val W) by apply W_pos.
    rewrite wrap_id; [ring|apply W_pos|].
    destruct (Cn_wfl i i Hi Hi) as [w1 l1]. destruct (Cn_wfl j j Hj Hj) as [w2 l2]. destruct (Pw_wfl i j Hi Hj) as [w3 l3].
    pose proof (nrm_no_overflow (Cn i i) w1 l1 (Hdom_diag i Hi) u c) as B1.
    pose proof (nrm_no_overflow (Cn j j) w2 l2 (Hdom_diag j Hj) u c) as B2.
    pose proof (nrm_no_overflow (Pw i j) w3 l3 (Hdom_pair i j Hi Hj Hij) u c) as B3.
    change (lim ?l u) with (lnth l u) in B1, B2, B3. fold di dj p in B1, B2, B3.
    unfold in_range, W. change (2 ^ (64 - 1)) with (4 * 2 ^ 61). lia.
  - rewrite !nth_overflow by (rewrite ?vadd_length, ?vsub_length, ?vneg_length, ?Si, ?Sj, ?Sp by exact Hu; lia). ring.
Qed.

Lemma cval_cell_diag c i r0 : length r0 = rsz ->
  cval P rb c (cell_apply fft n nrm dsz hi A B i i r0) = cval P rb c (nrm (Cn i i)).
Proof.
  intros Hr. unfold cell_apply. rewrite Nat.eqb_refl. unfold diag. fold (Cn i i).
  destruct (nrm_shape (Cn i i)) as [Li Si].
  apply cval_ext.
  - unfold vcopy, vec_unary. rewrite build_length, Hr, Li. reflexivity.
  - unfold vcopy, vec_unary. rewrite build_length, Hr. intros u Hu.
    change (lim ?l u) with (lnth l u). rewrite lnth_build by lia. rewrite Li.
    replace (Nat.ltb u rsz) with true by (symmetry; apply Nat.ltb_lt; exact Hu). reflexivity.
Qed.


Hypothesis Hsigma : forall ij, length (sigma ij) = n.

Definition Gm (ij : nat * nat) : list Z :=
  if Nat.eqb (fst ij) (snd ij) then Vd (Cn (fst ij) (fst ij)) else padd (Vd (Cn (fst ij) (snd ij))) (Vd (Cn (snd ij) (fst ij))).
Definition Em (ij : nat * nat) : list Z :=
  if Nat.eqb (fst ij) (snd ij) then eps (Cn (fst ij) (fst ij))
  else psub (psub (eps (Pw (fst ij) (snd ij))) (eps (Cn (fst ij) (fst ij)))) (eps (Cn (snd ij) (snd ij))).
Definition Km (ij : nat * nat) : list Z :=
  if Nat.eqb (fst ij) (snd ij) then kap (Cn (fst ij) (fst ij))
  else psub (psub (kap (Pw (fst ij) (snd ij))) (kap (Cn (fst ij) (fst ij)))) (kap (Cn (snd ij) (snd ij))).

Lemma nvo_diag i : (i < cols)%nat ->
  length (eps (Cn i i)) = n /\ length (kap (Cn i i)) = n /\
  Vr (nrm (Cn i i)) = padd (padd (Vd (Cn i i)) (eps (Cn i i))) (pscale (2 ^ P) (kap (Cn i i))) /\
  forall c, Z.abs (nth c (eps (Cn i i)) 0) <= Uu.
Proof. intros Hi. destruct (Cn_wfl i i Hi Hi) as [w L]. apply normalize_value_ok; auto. Qed.
Lemma nvo_pair i j : (i < cols)%nat -> (j < cols)%nat -> i <> j ->
  length (eps (Pw i j)) = n /\ length (kap (Pw i j)) = n /\
  Vr (nrm (Pw i j)) = padd (padd (Vd (Pw i j)) (eps (Pw i j))) (pscale (2 ^ P) (kap (Pw i j))) /\
  forall c, Z.abs (nth c (eps (Pw i j)) 0) <= Uu.
Proof. intros Hi Hj Hij. destruct (Pw_wfl i j Hi Hj) as [w L]. apply normalize_value_ok; auto. Qed.

Lemma Vd_length D : wfl n D -> length (Vd D) = n.
Proof. apply pval_length. Qed.

Lemma Gm_length ij : (fst ij < cols)%nat -> (snd ij < cols)%nat -> length (Gm ij) = n.
Proof.
  intros Hi Hj. unfold Gm. destruct (Nat.eqb (fst ij) (snd ij)).
  - apply Vd_length. apply Cn_wfl; assumption.
  - rewrite padd_length, !Vd_length by (apply Cn_wfl; assumption). apply Nat.min_id.
Qed.
Lemma Em_length ij : (fst ij < cols)%nat -> (snd ij < cols)%nat -> length (Em ij) = n.
Proof.
  intros Hi Hj. unfold Em. destruct (Nat.eqb_spec (fst ij) (snd ij)) as [E|E].
  - apply (nvo_diag _ Hi).
  - rewrite !psub_length. destruct (nvo_pair _ _ Hi Hj E) as [-> _]. destruct (nvo_diag _ Hi) as [-> _]. destruct (nvo_diag _ Hj) as [-> _]. lia.
Qed.
Lemma Km_length ij : (fst ij < cols)%nat -> (snd ij < cols)%nat -> length (Km ij) = n.
Proof.
  intros Hi Hj. unfold Km. destruct (Nat.eqb_spec (fst ij) (snd ij)) as [E|E].
  - apply (nvo_diag _ Hi).
  - rewrite !psub_length. destruct (nvo_pair _ _ Hi Hj E) as (_ & -> & _). destruct (nvo_diag _ Hi) as (_ & -> & _).
    destruct (nvo_diag _ Hj) as (_ & -> & _). lia.
Qed.

(* error of a tensor column: one normalisation unit on the diagonal, three on a cross column *)
Lemma Em_bound ij c : (fst ij < cols)%nat -> (snd ij < cols)%nat ->
  Z.abs (nth c (Em ij) 0) <= (if Nat.eqb (fst ij) (snd ij) then 1 else 3) * Uu.
Proof.
  intros Hi Hj. unfold Em. destruct (Nat.eqb_spec (fst ij) (snd ij)) as [E|E].
  - destruct (nvo_diag _ Hi) as (_ & _ & _ & Hb). specialize (Hb c). lia.
  - destruct (nvo_pair _ _ Hi Hj E) as (L1 & _ & _ & B1). destruct (nvo_diag _ Hi) as (L2 & _ & _ & B2).
    destruct (nvo_diag _ Hj) as (L3 & _ & _ & B3).
    rewrite !nth_psub by (rewrite ?psub_length; lia).
    specialize (B1 c). specialize (B2 c). specialize (B3 c). lia.
Qed.

(* each column of the tensor, as a value: the tensor product of the two ciphertext vectors, cell by cell *)
Theorem cell_value i j r0 : (i < cols)%nat -> (j < cols)%nat -> length r0 = rsz ->
  Vr (cell_apply fft n nrm dsz hi A B i j r0) = padd (padd (Gm (i, j)) (Em (i, j))) (pscale (2 ^ P) (Km (i, j))).
Proof.
  intros Hi Hj Hr.
  pose proof (cell_apply_shaped i j r0 Hr) as Sc.
  pose proof (Gm_length (i, j) Hi Hj) as LG. pose proof (Em_length (i, j) Hi Hj) as LE. pose proof (Km_length (i, j) Hi Hj) as LK.
  apply list_eq_nth.
  { unfold Vr. rewrite pval_length by (eapply shaped_wfl; exact Sc).
    rewrite !padd_length, pscale_length', LG, LE, LK. lia. }
  unfold Vr at 1. rewrite pval_length by (eapply shaped_wfl; exact Sc). intros c Hc.
  rewrite !nth_padd by (rewrite ?padd_length, ?pscale_length'; lia). rewrite nth_pscale.
  unfold Vr. rewrite nth_pval by (eapply shaped_wfl; exact Sc).
  unfold Gm, Em, Km. cbn [fst snd].
  destruct (Nat.eqb_spec i j) as [E|E].
  - subst j. rewrite cval_cell_diag by exact Hr.
    destruct (nvo_diag i Hi) as (L1 & L2 & V1 & _).
    rewrite <- (nth_pval n P rb (nrm (Cn i i)) c) by (eapply shaped_wfl; apply nrm_shape). fold (Vr (nrm (Cn i i))). rewrite V1.
    rewrite !nth_padd by (rewrite ?padd_length, ?pscale_length', ?Vd_length by (apply Cn_wfl; assumption); lia).
    rewrite nth_pscale. reflexivity.
  - rewrite cval_cell_cross by assumption.
    destruct (nvo_diag i Hi) as (L1 & L2 & V1 & _). destruct (nvo_diag j Hj) as (L3 & L4 & V2 & _).
    destruct (nvo_pair i j Hi Hj E) as (L5 & L6 & V3 & _).
    rewrite <- (nth_pval n P rb (nrm (Cn i i)) c), <- (nth_pval n P rb (nrm (Cn j j)) c), <- (nth_pval n P rb (nrm (Pw i j)) c)
      by (eapply shaped_wfl; apply nrm_shape).
    fold (Vr (nrm (Cn i i))) (Vr (nrm (Cn j j))) (Vr (nrm (Pw i j))). rewrite V1, V2, V3.
    assert (LV : forall x y, (x < cols)%nat -> (y < cols)%nat -> length (Vd (Cn x y)) = n)
      by (intros; apply Vd_length; apply Cn_wfl; assumption).
    assert (LP : length (Vd (Pw i j)) = n) by (apply Vd_length; apply Pw_wfl; assumption).
    rewrite !nth_padd, !nth_psub by (rewrite ?padd_length, ?psub_length, ?pscale_length', ?LV, ?LP by assumption; lia).
    rewrite !nth_pscale.
    unfold Vd. rewrite !nth_pval by (try (apply Cn_wfl; assumption); apply Pw_wfl; assumption).
    pose proof (cval_pairwise (P + lo) ab c i j Hi Hj). lia.
Qed.

(* decrypting the tensor with the keys sigma(i, j) (= s_i s_j for the real tensor secret): the phase is the phase of the
   coefficient-wise tensor product  sum_{i <= j} (c_i d_j + [i <> j] c_j d_i) sigma(i, j)  of the two ciphertext vectors,
   taken over exact products, plus the normalisation error (one resp. three units per column) plus a multiple of 2^P *)
Theorem tensor_phase res0 : length res0 = length (tpairs cols) -> (forall r, In r res0 -> length r = rsz) ->
  phase n P rb (tensor_gen (cell_apply fft n nrm dsz hi A B) cols res0) (map sigma (tpairs cols)) =
  padd (padd (plsum n (map (fun ij => pmul (Gm ij) (sigma ij)) (tpairs cols)))
             (plsum n (map (fun ij => pmul (Em ij) (sigma ij)) (tpairs cols))))
       (pscale (2 ^ P) (plsum n (map (fun ij => pmul (Km ij) (sigma ij)) (tpairs cols)))).
Proof.
  intros HL Hres.
  unfold phase, tensor_gen. rewrite combine_map_combine by exact HL. rewrite map_map. cbn [fst snd].
  assert (Hb : forall q, In q (combine (tpairs cols) res0) -> (fst (fst q) < cols)%nat /\ (snd (fst q) < cols)%nat /\ length (snd q) = rsz).
  { intros q Hq. pose proof (tpairs_bounds cols _ (in_combine_fst _ _ _ Hq)) as [H1 H2].
    destruct q as [ij r]. apply in_combine_r in Hq. cbn [fst snd] in *. repeat split; try lia. apply Hres; exact Hq. }
  assert (Hb' : forall ij, In ij (tpairs cols) -> (fst ij < cols)%nat /\ (snd ij < cols)%nat)
    by (intros ij Hij; destruct (tpairs_bounds cols ij Hij); lia).
  assert (LT : forall (M : nat * nat -> list Z), (forall ij, (fst ij < cols)%nat -> (snd ij < cols)%nat -> length (M ij) = n) ->
               forall x, In x (map (fun ij => pmul (M ij) (sigma ij)) (tpairs cols)) -> length x = n).
  { intros M HM x Hx. apply in_map_iff in Hx. destruct Hx as (ij & <- & Hij). rewrite pmul_length. apply HM; apply Hb'; exact Hij. }
  pose proof (LT Gm Gm_length) as LG. pose proof (LT Em Em_length) as LE. pose proof (LT Km Km_length) as LK.
  assert (LL : forall x, In x (map (fun q : nat * nat * limbs =>
                 pmul (pval n P rb (cell_apply fft n nrm dsz hi A B (fst (fst q)) (snd (fst q)) (snd q))) (sigma (fst q)))
                 (combine (tpairs cols) res0)) -> length x = n).
  { intros x Hx. apply in_map_iff in Hx. destruct Hx as (q & <- & Hq). destruct (Hb q Hq) as (H1 & H2 & H3).
    rewrite pmul_length. apply pval_length. eapply shaped_wfl. apply cell_apply_shaped. exact H3. }
  apply list_eq_nth.
  { rewrite plsum_length by exact LL. rewrite !padd_length, pscale_length', !plsum_length by assumption. lia. }
  rewrite plsum_length by exact LL. intros c Hc.
  rewrite !nth_padd by (rewrite ?padd_length, ?pscale_length', !plsum_length by assumption; lia).
  rewrite nth_pscale. rewrite !nth_plsum by assumption. rewrite !map_map.
  (* rewrite every term with the cell value *)
  rewrite (lsum_map_ext _ (fun q : nat * nat * limbs =>
     nth c (pmul (Gm (fst q)) (sigma (fst q))) 0 + nth c (pmul (Em (fst q)) (sigma (fst q))) 0
     + 2 ^ P * nth c (pmul (Km (fst q)) (sigma (fst q))) 0)).
  2:{ intros q Hq. destruct (Hb q Hq) as (H1 & H2 & H3). destruct q as [[i j] r]. cbn [fst snd] in *.
      change (pval n P rb (cell_apply fft n nrm dsz hi A B i j r)) with (Vr (cell_apply fft n nrm dsz hi A B i j r)).
      rewrite (cell_value i j r H1 H2 H3).
      pose proof (Gm_length (i, j) H1 H2) as L1. pose proof (Em_length (i, j) H1 H2) as L2. pose proof (Km_length (i, j) H1 H2) as L3.
      rewrite nth_pmul_padd by (rewrite ?padd_length, ?pscale_length', ?Hsigma; lia).
      rewrite nth_pmul_padd by (rewrite ?Hsigma; lia).
      rewrite nth_pmul_pscale by (rewrite Hsigma; lia). reflexivity. }
  rewrite !lsum_map_add, lsum_map_scale.
  rewrite <- !(map_map fst (fun ij => nth c (pmul (_ ij) (sigma ij)) 0)).
  rewrite !map_fst_combine by exact HL. reflexivity.
Qed.
End TensorPhase.

(* ---------- torus position of the convolution output ---------- *)
(* limb k of the convolution with offset hi, read in radix 2^ab at scale P + lo, is the window hi <= u+v < hi+dsz of the
   exact product (sum_u a_u 2^-(u+1)ab) (sum_v b_v 2^-(v+1)ab), scaled by 2^(P + cnv): position = cnv_offset BITS *)
Theorem product_position fft n dsz hi P ab lo cnv a b : wfl n a -> wfl n b -> (1 <= length a)%nat -> (1 <= length b)%nat ->
  zn hi * ab + lo = cnv - ab ->
  pval n (P + lo) ab (cnv_apply fft n dsz hi a b) =
  psumf n (fun u => psumf n (fun v =>
     if Nat.leb hi (u + v) && Nat.ltb (u + v) (hi + dsz)
     then pscale (2 ^ (P + cnv - (zn u + zn v + 2) * ab)) (pmul (lim a u) (lim b v)) else pzero n) (length b)) (length a).
Proof.
  intros wa wb Ha Hb Hsplit.
  pose proof (cnv_apply_wfl fft n dsz hi a b wa wb Ha Hb) as wc.
  assert (LT : forall u v, (u < length a)%nat ->
     length (if Nat.leb hi (u + v) && Nat.ltb (u + v) (hi + dsz)
             then pscale (2 ^ (P + cnv - (zn u + zn v + 2) * ab)) (pmul (lim a u) (lim b v)) else pzero n) = n).
  { intros u v Hu. destruct (_ && _); [rewrite pscale_length', pmul_length; apply wa; exact Hu|apply pzero_length]. }
  apply list_eq_nth.
  { rewrite pval_length by exact wc. symmetry. apply psumf_length. intros u Hu. apply psumf_length. intros v _. apply LT; exact Hu. }
  rewrite pval_length by exact wc. intros c Hc.
  rewrite nth_pval by exact wc. unfold cval. rewrite cnv_apply_length.
  rewrite psumf_coeff by (intros u Hu; apply psumf_length; intros v _; apply LT; exact Hu).
  transitivity (zsum (fun k => zsum (fun u => zsum (fun v =>
       if Nat.eqb (u + v) (k + hi) then 2 ^ (P + lo - (zn k + 1) * ab) * nth c (pmul (lim a u) (lim b v)) 0 else 0) (length b)) (length a)) dsz).
  { apply zsum_ext; intros k Hk. rewrite cnv_apply_spec by assumption. rewrite bivariate_nth by assumption.
    rewrite <- zsum_mul_l. apply zsum_ext; intros u _. rewrite <- zsum_mul_l. apply zsum_ext; intros v _.
    destruct (Nat.eqb (u + v) (k + hi)); ring. }
  rewrite zsum_swap. apply zsum_ext; intros u Hu.
  rewrite psumf_coeff by (intros v _; apply LT; exact Hu).
  rewrite zsum_swap. apply zsum_ext; intros v Hv.
  rewrite (zsum_pick (fun k => 2 ^ (P + lo - (zn k + 1) * ab) * nth c (pmul (lim a u) (lim b v)) 0)
                     (fun k => Nat.eqb (u + v) (k + hi)) (u + v - hi)%nat).
  2:{ intros k _ E. apply Nat.eqb_eq in E. lia. }
  destruct (Nat.leb_spec hi (u + v)) as [H1|H1]; destruct (Nat.ltb_spec (u + v) (hi + dsz)) as [H2|H2];
    destruct (Nat.ltb_spec (u + v - hi) dsz) as [H3|H3]; destruct (Nat.eqb_spec (u + v) (u + v - hi + hi)) as [H4|H4];
    cbn [andb]; try lia; rewrite ?nth_pzero; try reflexivity.
  rewrite nth_pscale. f_equal. f_equal. unfold zn in *. lia.
Qed.

(* ---------- column-wise products: glwe_mul_plain / glwe_mul_const ---------- *)
Lemma combine_map_l {X Y Z1} (f : X -> Z1) (l : list X) (k : list Y) :
  combine (map f l) k = map (fun q => (f (fst q), snd q)) (combine l k).
Proof.
  revert k; induction l as [|x l IH]; intros [|y k]; cbn [map combine fst snd]; try reflexivity. f_equal. apply IH.
Qed.


Section ColumnPhase.
Variables (n rsz dsz : nat) (P rb ab lo : Z).
Variable nrm : plimbs -> limbs.
Variables eps kap : plimbs -> list Z.
Variable dom : plimbs -> Prop.
Variable Cf : plimbs -> plimbs.          (* the big accumulator computed from one ciphertext column *)

Hypothesis nrm_shape : forall D, shaped n rsz (nrm D).
Hypothesis normalize_value_ok : forall D, wfl n D -> length D = dsz -> dom D ->
  length (eps D) = n /\ length (kap D) = n /\
  pval n P rb (nrm D) = padd (padd (pval n (P + lo) ab D) (eps D)) (pscale (2 ^ P) (kap D)) /\
  forall c, Z.abs (nth c (eps D) 0) <= 2 ^ (P - zn rsz * rb).

Theorem column_phase (A : list plimbs) (key : list (list Z)) :
  (forall a, In a A -> wfl n (Cf a) /\ length (Cf a) = dsz /\ dom (Cf a)) -> (forall k, In k key -> length k = n) ->
  phase n P rb (map (fun a => nrm (Cf a)) A) key =
  padd (padd (plsum n (map (fun q => pmul (pval n (P + lo) ab (Cf (fst q))) (snd q)) (combine A key)))
             (plsum n (map (fun q => pmul (eps (Cf (fst q))) (snd q)) (combine A key))))
       (pscale (2 ^ P) (plsum n (map (fun q => pmul (kap (Cf (fst q))) (snd q)) (combine A key)))).
Proof.
  intros HA Hkey. unfold phase. rewrite combine_map_l, map_map. cbn [fst snd].
  assert (Hq : forall q, In q (combine A key) -> In (fst q) A /\ length (snd q) = n).
  { intros [a k] Hin. split; [eapply in_combine_l; exact Hin|apply Hkey; eapply in_combine_r; exact Hin]. }
  assert (LT : forall (M : plimbs -> list Z), (forall a, In a A -> length (M a) = n) ->
               forall x, In x (map (fun q => pmul (M (fst q)) (snd q)) (combine A key)) -> length x = n).
  { intros M HM x Hx. apply in_map_iff in Hx. destruct Hx as (q & <- & Hin). rewrite pmul_length. apply HM. apply Hq; exact Hin. }
  assert (L1 : forall a, In a A -> length (pval n (P + lo) ab (Cf a)) = n) by (intros a Ha; apply pval_length; apply HA; exact Ha).
  assert (L2 : forall a, In a A -> length (eps (Cf a)) = n).
  { intros a Ha. destruct (HA a Ha) as (w & L & d). apply (normalize_value_ok _ w L d). }
  assert (L3 : forall a, In a A -> length (kap (Cf a)) = n).
  { intros a Ha. destruct (HA a Ha) as (w & L & d). apply (normalize_value_ok _ w L d). }
  assert (L0 : forall x, In x (map (fun q : plimbs * list Z => pmul (pval n P rb (nrm (Cf (fst q)))) (snd q)) (combine A key)) -> length x = n).
  { intros x Hx. apply in_map_iff in Hx. destruct Hx as (q & <- & Hin). rewrite pmul_length. apply pval_length.
    eapply shaped_wfl. apply nrm_shape. }
  pose proof (LT _ L1) as T1. pose proof (LT _ L2) as T2. pose proof (LT _ L3) as T3.
  apply list_eq_nth.
  { rewrite plsum_length by exact L0. rewrite !padd_length, pscale_length', !plsum_length by assumption. lia. }
  rewrite plsum_length by exact L0. intros c Hc.
  rewrite !nth_padd by (rewrite ?padd_length, ?pscale_length', !plsum_length by assumption; lia).
  rewrite nth_pscale, !nth_plsum by assumption. rewrite !map_map.
  rewrite <- lsum_map_scale, <- !lsum_map_add. apply lsum_map_ext. intros q Hin.
  destruct (Hq q Hin) as [Ha Lk]. destruct (HA _ Ha) as (w & L & d).
  destruct (normalize_value_ok _ w L d) as (E1 & E2 & EV & _). rewrite EV.
  rewrite nth_pmul_padd by (rewrite ?padd_length, ?pscale_length', ?L1, ?E1, ?E2, ?Lk by exact Ha; lia).
  rewrite nth_pmul_padd by (rewrite ?L1, ?E1, ?Lk by exact Ha; lia).
  rewrite nth_pmul_pscale by (rewrite E2, Lk; reflexivity). reflexivity.
Qed.
End ColumnPhase.

(* ---------- the concrete per-column normaliser keeps the shape (same radix: no fuel involved) ---------- *)
Lemma sequence_length {X} (l : list (option X)) cs : sequence l = Some cs -> length cs = length l.
Proof.
  revert cs; induction l as [|[x|] l IH]; intros cs H; cbn [sequence] in H; try discriminate.
  - injection H as <-. reflexivity.
  - destruct (sequence l) as [t|]; [|discriminate]. injection H as <-. cbn [length]. f_equal. apply IH. reflexivity.
Qed.

Lemma lift_coeff_shape f n rsz a r l : lift_coeff f n rsz a r = Some l -> shaped n rsz l.
Proof.
  unfold lift_coeff. destruct (sequence _) as [cs|] eqn:E; [|discriminate]. intros H; injection H as <-.
  apply sequence_length in E. rewrite map_length, combine_length in E.
  unfold transpose in E. rewrite !map_length, !seq_length, Nat.min_id in E.
  unfold untranspose. split; [rewrite map_length, seq_length; reflexivity|].
  intros j Hj. unfold lnth. rewrite (nth_indep _ [] (map (fun c => nthZ c 0%nat) cs)) by (rewrite map_length, seq_length; exact Hj).
  rewrite (map_nth (fun j => map (fun c => nthZ c j) cs)). rewrite map_length. exact E.
Qed.

Lemma sequence_all_some {X Y} (g : X -> option Y) l : (forall x, In x l -> g x <> None) -> sequence (map g l) <> None.
Proof.
  induction l as [|x l IH]; intros H; cbn [map sequence]; [discriminate|].
  destruct (g x) eqn:E; [|exfalso; apply (H x (or_introl eq_refl)); exact E].
  assert (IH' : sequence (map g l) <> None) by (apply IH; intros y0 Hy; apply H; right; exact Hy).
  destruct (sequence (map g l)); [discriminate|exfalso; apply IH'; reflexivity].
Qed.

Lemma big_nrm_shape_same_radix fft n rsz b lo D : shaped n rsz (big_nrm fft n rsz b b lo D).
Proof.
  unfold big_nrm.
  destruct (lift_coeff _ n rsz D (mk rsz (fun _ => pzero n))) as [l|] eqn:E; [eapply lift_coeff_shape; exact E|].
  exfalso. unfold lift_coeff in E. destruct (sequence _) eqn:E2; [discriminate|].
  revert E2. apply sequence_all_some. intros [x y] _. cbn [fst snd].
  unfold normalize, normalize_big. rewrite Z.eqb_refl. destruct fft; discriminate.
Qed.

(* ---------- the model's entry points ---------- *)
Theorem glwe_tensor_square_eq_self_mul fft n cnv rank b a_k a res0 :
  (forall r, In r res0 -> length r = length (colsel res0 0)) ->
  glwe_tensor fft n 2 cnv rank b b a_k a_k a a res0 = glwe_tensor fft n 0 cnv rank b b a_k a_k a a res0.
Proof.
  intros Hres. unfold glwe_tensor.
  destruct (negb _); [reflexivity|]. destruct (offset_split b cnv) as [hi lo].
  destruct (fft && _); [reflexivity|]. cbn [Z.eqb]. f_equal.
  apply (tensor_square_eq_apply fft n (length (colsel res0 0))).
  - intros D. apply big_nrm_shape_same_radix.
  - exact Hres.
Qed.

Theorem glwe_tensor_add_assign_adds fft n cnv rank b a_k b_k a b' res0 :
  (forall r, In r res0 -> shaped n (length (colsel res0 0)) r) ->
  glwe_tensor fft n 1 cnv rank b b a_k b_k a b' res0 =
  match glwe_tensor fft n 0 cnv rank b b a_k b_k a b' res0 with
  | Some t => Some (map2 (fun r x => vec_add_assign W x r) res0 t)
  | None => None
  end.
Proof.
  intros Hres. unfold glwe_tensor.
  destruct (negb _); [reflexivity|]. destruct (offset_split b cnv) as [hi lo].
  destruct (fft && _); [reflexivity|]. cbn [Z.eqb]. f_equal.
  apply (tensor_add_assign_adds fft n (length (colsel res0 0))).
  - intros D. apply big_nrm_shape_same_radix.
  - exact Hres.
Qed.

Lemma glwe_mul_plain_columns fft n cnv ab rb a_k b_k a b res0 cols :
  glwe_mul_plain fft n cnv ab rb a_k b_k a b res0 = Some cols ->
  length res0 = length a ->
  exists hi lo dsz, offset_split ab cnv = (hi, lo) /\ dsz = (length (colsel a 0) + length b - Z.to_nat hi)%nat /\
  cols = map (fun x => big_nrm fft n (length (colsel res0 0)) rb ab lo
                         (cnv_apply fft n dsz (Z.to_nat hi) x (cnv_prepare n (length b) (msb_mask ab b_k) b)))
             (prep_cols n (length (colsel a 0)) (msb_mask ab a_k) a).
Proof.
  unfold glwe_mul_plain. destruct (negb _); [discriminate|]. destruct (offset_split ab cnv) as [hi lo].
  destruct (Nat.ltb _ _); [discriminate|]. destruct (fft && _); [discriminate|].
  intros H HL. injection H as <-. exists hi, lo, (length (colsel a 0) + length b - Z.to_nat hi)%nat.
  repeat split.
  rewrite <- (map_map fst (fun x => big_nrm fft n (length (colsel res0 0)) rb ab lo
     (cnv_apply fft n (length (colsel a 0) + length b - Z.to_nat hi) (Z.to_nat hi) x (cnv_prepare n (length b) (msb_mask ab b_k) b)))).
  rewrite map_fst_combine; [reflexivity|]. unfold prep_cols. rewrite map_length. exact HL.
Qed.

(* ---------- instances of column_phase ---------- *)
Lemma wfl_map_map n (g : Z -> Z) X : wfl n X -> wfl n (map (map g) X).
Proof.
  intros w j Hj. rewrite map_length in Hj. unfold lim.
  rewrite (nth_indep _ [] (map g [])) by (rewrite map_length; exact Hj).
  rewrite map_nth, map_length. apply w; exact Hj.
Qed.

Lemma pconst_wfl n b : wfl n (map (pconst n) b).
Proof.
  intros j Hj. rewrite map_length in Hj. unfold lim.
  rewrite (nth_indep _ [] (pconst n 0)) by (rewrite map_length; exact Hj).
  rewrite map_nth. apply pconst_length.
Qed.

Lemma cnv_by_const_wfl fft n dsz hi a b : wfl n a -> (1 <= length a)%nat -> (1 <= length b)%nat ->
  wfl n (cnv_by_const fft n dsz hi a b) /\ length (cnv_by_const fft n dsz hi a b) = dsz.
Proof.
  intros wa Ha Hb. unfold cnv_by_const. split.
  - apply wfl_map_map. apply cnv_apply_wfl; try assumption; [apply pconst_wfl|rewrite map_length; exact Hb].
  - rewrite map_length. apply cnv_apply_length.
Qed.

(* limb k of cnv_by_const_apply: sum_{u+v = k+off} b_v . a_u, reduced to the accumulator's width *)
Theorem cnv_by_const_spec fft n dsz off a b k : wfl n a -> (1 <= length a)%nat -> (1 <= length b)%nat -> (k < dsz)%nat ->
  lim (cnv_by_const fft n dsz off a b) k = map (wrap (if fft then 64 else 128)) (bivariate_coeff n a (map (pconst n) b) (k + off)).
Proof.
  intros wa Ha Hb Hk. unfold cnv_by_const, lim.
  rewrite (nth_indep _ [] (map (wrap (if fft then 64 else 128)) [])) by (rewrite map_length, cnv_apply_length; exact Hk).
  rewrite map_nth. f_equal. apply cnv_apply_spec; try assumption; [apply pconst_wfl|rewrite map_length; exact Hb].
Qed.


(* ---------- placement in a destination with several columns ---------- *)
(* cnv_apply_dft / cnv_pairwise_apply_dft / cnv_by_const_apply of both families: the documented placement
   (column rcol receives the limbs, zero from min_size on, every other word keeps its prior content) *)
Theorem cnv_store_is_spec n rcols rsz rcol ms f r0 :
  cnv_store n rcols rsz rcol ms f r0 =
  cnv_store_spec n rcols rsz rcol (fun j => if Nat.ltb j ms then f j else pzero n) r0.
Proof.
  unfold cnv_store, cnv_store_spec. f_equal. apply map_ext. intros q.
  destruct (Nat.eqb_spec (q mod rcols) rcol) as [E|E]; cbn [andb].
  - destruct (Nat.leb_spec ms (q / rcols)); destruct (Nat.ltb_spec (q / rcols) ms); try lia; reflexivity.
  - reflexivity.
Qed.

(* ---------- a witness for the Section hypotheses: the normaliser of already-normalised accumulators ---------- *)
(* radices equal, no shift, as many result limbs as accumulator limbs: on accumulators whose entries are within 2^61
   (dom) the normaliser that reshapes and clamps is the identity and its value error is zero *)
Definition clampz (x : Z) : Z := Z.max (- 2 ^ 61) (Z.min x (2 ^ 61)).
Definition reshape (n rsz : nat) (D : plimbs) : limbs :=
  build rsz (fun u => map clampz (firstn n (lim D u ++ zeros n))).
Definition small_dom (n rsz : nat) (D : plimbs) : Prop :=
  shaped n rsz D /\ forall u c, Z.abs (nth c (lim D u) 0) <= 2 ^ 61.

Lemma reshape_shape n rsz D : shaped n rsz (reshape n rsz D).
Proof.
  split; [apply build_length|]. intros j Hj. unfold reshape. rewrite lnth_build by exact Hj.
  rewrite map_length, firstn_length, app_length. unfold zeros. rewrite repeat_length. lia.
Qed.

Lemma clampz_bound x : Z.abs (clampz x) <= 2 ^ 61.
Proof. unfold clampz. assert (0 < 2 ^ 61) by (apply pow2_pos; lia). lia. Qed.

Lemma reshape_no_overflow n rsz D u c : Z.abs (nth c (lim (reshape n rsz D) u) 0) <= 2 ^ 61.
Proof.
  unfold reshape. destruct (Nat.lt_ge_cases u rsz) as [Hu|Hu].
  - change (lim ?l u) with (lnth l u). rewrite lnth_build by exact Hu.
    set (l := firstn n (lim D u ++ zeros n)).
    destruct (Nat.lt_ge_cases c (length l)) as [Hc|Hc].
    + rewrite (nth_map' _ _ _ _ 0) by exact Hc. apply clampz_bound.
    + rewrite nth_overflow by (rewrite map_length; exact Hc). assert (0 < 2 ^ 61) by (apply pow2_pos; lia). cbn [Z.abs]. lia.
  - unfold lim. rewrite (nth_overflow (build _ _)) by (rewrite build_length; exact Hu).
    destruct c; cbn [nth Z.abs]; assert (0 < 2 ^ 61) by (apply pow2_pos; lia); lia.
Qed.

Lemma reshape_id n rsz D : small_dom n rsz D -> reshape n rsz D = D.
Proof.
  intros [[L S] Bd]. unfold reshape.
  apply (nth_ext _ _ [] []); [rewrite build_length; symmetry; exact L|].
  rewrite build_length. intros u Hu. fold (lnth (build rsz (fun u0 => map clampz (firstn n (lim D u0 ++ zeros n)))) u).
  rewrite lnth_build by exact Hu. fold (lnth D u). change (lim D u) with (lnth D u).
  rewrite firstn_app, (S u Hu), Nat.sub_diag. cbn [firstn]. rewrite app_nil_r.
  rewrite firstn_all2 by (rewrite (S u Hu); lia).
  apply list_eq_nth; [apply map_length|]. rewrite map_length. intros c Hc.
  rewrite (nth_map' _ _ _ _ 0) by exact Hc.
  specialize (Bd u c). change (lim D u) with (lnth D u) in Bd. unfold clampz. lia.
Qed.

Lemma pscale_pzero c n : pscale c (pzero n) = pzero n.
Proof.
  apply list_eq_nth; [rewrite pscale_length', !pzero_length; reflexivity|].
  intros k _. rewrite nth_pscale, nth_pzero. lia.
Qed.

Lemma reshape_value_ok n rsz P b D : wfl n D -> length D = rsz -> small_dom n rsz D ->
  length (pzero n) = n /\ length (pzero n) = n /\
  pval n P b (reshape n rsz D) = padd (padd (pval n (P + 0) b D) (pzero n)) (pscale (2 ^ P) (pzero n)) /\
  forall c, Z.abs (nth c (pzero n) 0) <= 2 ^ (P - zn rsz * b).
Proof.
  intros w L d. split; [apply pzero_length|]. split; [apply pzero_length|]. split.
  - rewrite reshape_id by exact d. rewrite Z.add_0_r, pscale_pzero.
    rewrite !padd_pzero_r' by (rewrite ?padd_pzero_r'; apply pval_length; exact w). reflexivity.
  - intros c. rewrite nth_pzero. cbn [Z.abs]. apply Z.pow_nonneg. lia.
Qed.

(* concrete instance *)
Definition exA : list plimbs := [[[1; 2]]; [[3; -1]]].
Definition exB : list plimbs := [[[2; 0]]; [[-1; 4]]].
Definition exsig (ij : nat * nat) : list Z := [Z.of_nat (fst ij) + 1; Z.of_nat (snd ij)].

Lemma small_dom_concrete (D : plimbs) :
  (length D = 2%nat /\ forallb (fun l => Nat.eqb (length l) 2%nat && forallb (fun x => Z.abs x <=? 2 ^ 61) l) D = true) ->
  small_dom 2%nat 2%nat D.
Proof.
  intros [L H]. destruct D as [|l0 [|l1 [|? ?]]]; cbn [length] in L; try discriminate.
  cbn [forallb] in H. rewrite !andb_true_r in H. apply andb_prop in H. destruct H as [H0 H1].
  apply andb_prop in H0. apply andb_prop in H1. destruct H0 as [A0 B0]. destruct H1 as [A1 B1].
  apply Nat.eqb_eq in A0, A1. rewrite forallb_forall in B0, B1.
  split.
  - split; [reflexivity|]. intros [|[|j]] Hj; cbn; try lia; assumption.
  - assert (G : forall l c, (forall x, In x l -> (Z.abs x <=? 2 ^ 61) = true) -> Z.abs (nth c l 0) <= 2 ^ 61).
    { intros l c Hl. destruct (Nat.lt_ge_cases c (length l)).
      - apply Z.leb_le. apply Hl. apply nth_In. assumption.
      - rewrite nth_overflow by assumption. cbn. lia. }
    intros [|[|u]] c; cbn [lim nth]; [apply G; exact B0|apply G; exact B1|].
    destruct u; destruct c; cbn; lia.
Qed.


(* ---------- resummation of the triangular tensor sum ---------- *)
Lemma lsum_app l1 l2 : lsum (l1 ++ l2) = lsum l1 + lsum l2.
Proof. unfold lsum. induction l1 as [|x l IH]; cbn [app fold_right]; lia. Qed.

Lemma lsum_flat_map {X Y} (f : Y -> Z) (h : X -> list Y) l :
  lsum (map f (flat_map h l)) = lsum (map (fun i => lsum (map f (h i))) l).
Proof.
  induction l as [|x l IH]; [reflexivity|]. cbn [flat_map map lsum fold_right].
  rewrite map_app, lsum_app, IH. reflexivity.
Qed.

Lemma lsum_seq (F : nat -> Z) lo len : lsum (map F (seq lo len)) = zsum (fun t => F (lo + t)%nat) len.
Proof.
  revert lo; induction len as [|len IH]; intros lo; [reflexivity|].
  rewrite seq_S, map_app, lsum_app, IH, zsum_S. cbn [map lsum fold_right]. lia.
Qed.

Lemma zsum_split3 (t : nat -> nat -> Z) m :
  zsum (fun i => zsum (fun j => if Nat.leb i j && Nat.ltb j m then (if Nat.eqb i j then t i i else t i j + t j i) else 0) m) m
  = zsum (fun i => zsum (fun j => t i j) m) m.
Proof.
  transitivity (zsum (fun i => zsum (fun j => (if Nat.ltb i j then t i j else 0) + (if Nat.ltb i j then t j i else 0)
                                              + (if Nat.eqb i j then t i j else 0)) m) m).
  { apply zsum_ext; intros i Hi. apply zsum_ext; intros j Hj.
    destruct (Nat.leb_spec i j); destruct (Nat.ltb_spec j m); destruct (Nat.eqb_spec i j); destruct (Nat.ltb_spec i j);
      cbn [andb]; subst; try lia. }
  rewrite (zsum_ext _ (fun i => zsum (fun j => if Nat.ltb i j then t i j else 0) m
                                + zsum (fun j => if Nat.ltb i j then t j i else 0) m
                                + zsum (fun j => if Nat.eqb i j then t i j else 0) m))
    by (intros i _; rewrite <- !zsum_add; reflexivity).
  rewrite !zsum_add.
  rewrite (zsum_swap (fun i j => if Nat.ltb i j then t j i else 0)).
  rewrite <- !zsum_add. apply zsum_ext; intros i Hi. rewrite <- !zsum_add. apply zsum_ext; intros j Hj.
  destruct (Nat.ltb_spec i j); destruct (Nat.ltb_spec j i); destruct (Nat.eqb_spec i j); subst; lia.
Qed.

Lemma lsum_tpairs (F : nat * nat -> Z) cols :
  lsum (map F (tpairs cols)) = zsum (fun i => zsum (fun j => if Nat.leb i j && Nat.ltb j cols then F (i, j) else 0) cols) cols.
Proof.
  unfold tpairs. rewrite lsum_flat_map, lsum_seq. apply zsum_ext; intros i Hi. cbn [Nat.add].
  rewrite map_map, lsum_seq. rewrite zsum_window. rewrite Nat.min_id. reflexivity.
Qed.

Theorem tensor_resummation n cols (g : nat -> nat -> list Z) (s : nat -> list Z) :
  (forall i j, length (g i j) = n) -> (forall i, length (s i) = n) ->
  plsum n (map (fun ij => pmul (if Nat.eqb (fst ij) (snd ij) then g (fst ij) (fst ij) else padd (g (fst ij) (snd ij)) (g (snd ij) (fst ij)))
                               (pmul (s (fst ij)) (s (snd ij)))) (tpairs cols))
  = psumf n (fun i => psumf n (fun j => pmul (g i j) (pmul (s i) (s j))) cols) cols.
Proof.
  intros Hg Hs.
  assert (LS : forall i j, length (pmul (s i) (s j)) = n) by (intros; rewrite pmul_length; apply Hs).
  assert (LG : forall ij, length (if Nat.eqb (fst ij) (snd ij) then g (fst ij) (fst ij) else padd (g (fst ij) (snd ij)) (g (snd ij) (fst ij))) = n).
  { intros ij. destruct (Nat.eqb _ _); [apply Hg|rewrite padd_length, !Hg; apply Nat.min_id]. }
  assert (L1 : forall x, In x (map (fun ij => pmul (if Nat.eqb (fst ij) (snd ij) then g (fst ij) (fst ij) else padd (g (fst ij) (snd ij)) (g (snd ij) (fst ij)))
                               (pmul (s (fst ij)) (s (snd ij)))) (tpairs cols)) -> length x = n).
  { intros x Hx. apply in_map_iff in Hx. destruct Hx as (ij & <- & _). rewrite pmul_length. apply LG. }
  assert (L2 : forall i j, length (pmul (g i j) (pmul (s i) (s j))) = n) by (intros; rewrite pmul_length; apply Hg).
  apply list_eq_nth.
  { rewrite plsum_length by exact L1. symmetry. apply psumf_length. intros i _. apply psumf_length. intros j _. apply L2. }
  rewrite plsum_length by exact L1. intros c Hc.
  rewrite nth_plsum by exact L1. rewrite map_map.
  rewrite psumf_coeff by (intros i _; apply psumf_length; intros j _; apply L2).
  rewrite (zsum_ext _ (fun i => zsum (fun j => nth c (pmul (g i j) (pmul (s i) (s j))) 0) cols))
    by (intros i _; apply psumf_coeff; intros j _; apply L2).
  rewrite lsum_tpairs. cbn [fst snd].
  rewrite <- (zsum_split3 (fun i j => nth c (pmul (g i j) (pmul (s i) (s j))) 0)).
  apply zsum_ext; intros i _. apply zsum_ext; intros j _.
  destruct (Nat.leb i j && Nat.ltb j cols); [|reflexivity].
  destruct (Nat.eqb_spec i j) as [->|]; [reflexivity|].
  rewrite nth_pmul_padd by (rewrite ?Hg, ?LS; reflexivity).
  rewrite (pmul_comm (s i) (s j)) by (rewrite !Hs; reflexivity). reflexivity.
Qed.

(* ---------- |x * t|_inf <= |x|_inf |t|_1 ---------- *)
Lemma norm1_fold l acc : fold_left (fun a x => a + Z.abs x) l acc = acc + norm1 l.
Proof.
  unfold norm1. revert acc; induction l as [|x l IH]; intros acc; cbn [fold_left]; [lia|].
  rewrite IH, (IH (0 + Z.abs x)). lia.
Qed.
Lemma norm1_app l x : norm1 (l ++ [x]) = norm1 l + Z.abs x.
Proof. unfold norm1. rewrite fold_left_app. cbn [fold_left]. reflexivity. Qed.
Lemma norm1_zsum l : norm1 l = zsum (fun i => Z.abs (nthZ l i)) (length l).
Proof.
  induction l as [|x l IH] using rev_ind; [reflexivity|].
  rewrite norm1_app, app_length, Nat.add_comm. cbn [length Nat.add]. rewrite zsum_S, IH.
  f_equal.
  - apply zsum_ext; intros i Hi. unfold nthZ. rewrite app_nth1 by exact Hi. reflexivity.
  - unfold nthZ. rewrite app_nth2, Nat.sub_diag by lia. reflexivity.
Qed.
Lemma norm1_nonneg l : 0 <= norm1 l.
Proof. rewrite norm1_zsum. induction (length l) as [|m IH]; [cbn; lia|rewrite zsum_S; lia]. Qed.

Lemma ext'_bound x k Bd : 0 <= Bd -> (forall i, Z.abs (nthZ x i) <= Bd) -> Z.abs (ext' x k) <= Bd.
Proof. intros HB H. unfold ext'. cbv zeta. destruct (Z.even _); [apply H|rewrite Z.abs_opp; apply H]. Qed.

Lemma zsum_abs_le (f g : nat -> Z) m : (forall i, (i < m)%nat -> Z.abs (f i) <= g i) -> Z.abs (zsum f m) <= zsum g m.
Proof.
  induction m as [|m IH]; intros H; [cbn; lia|].
  rewrite !zsum_S. specialize (IH (fun i Hi => H i (Nat.lt_lt_succ_r _ _ Hi))). specialize (H m (Nat.lt_succ_diag_r m)). lia.
Qed.

Theorem pmul_norm_bound x t c Bd : length t = length x -> 0 <= Bd -> (forall i, Z.abs (nth i x 0) <= Bd) ->
  Z.abs (nth c (pmul x t) 0) <= Bd * norm1 t.
Proof.
  intros HL HB Hx.
  destruct (Nat.lt_ge_cases c (length x)) as [Hc|Hc].
  - rewrite pmul_comm by exact HL. rewrite pmul_spec by lia.
    rewrite norm1_zsum, <- zsum_mul_l.
    apply zsum_abs_le. intros i _. rewrite Z.abs_mul.
    pose proof (ext'_bound x (Z.of_nat c - Z.of_nat i) Bd HB Hx). pose proof (Z.abs_nonneg (nthZ t i)). nia.
  - rewrite nth_overflow by (rewrite pmul_length; exact Hc). cbn [Z.abs]. pose proof (norm1_nonneg t). nia.
Qed.

Lemma lsum_abs_le {X} (f g : X -> Z) l : (forall x, In x l -> Z.abs (f x) <= g x) -> Z.abs (lsum (map f l)) <= lsum (map g l).
Proof.
  unfold lsum. induction l as [|x l IH]; intros H; cbn [map fold_right]; [lia|].
  specialize (IH (fun y Hy => H y (or_intror Hy))). specialize (H x (or_introl eq_refl)). lia.
Qed.

(* the error phase of a list of columns: sum of |error|_inf |key|_1 *)
Theorem error_phase_bound {X} n (E : X -> list Z) (sig : X -> list Z) (w : X -> Z) (l : list X) c :
  (forall x, In x l -> length (E x) = n /\ length (sig x) = n /\ 0 <= w x /\ forall k, Z.abs (nth k (E x) 0) <= w x) ->
  Z.abs (nth c (plsum n (map (fun x => pmul (E x) (sig x)) l)) 0) <= lsum (map (fun x => w x * norm1 (sig x)) l).
Proof.
  intros H. rewrite nth_plsum.
  2:{ intros y Hy. apply in_map_iff in Hy. destruct Hy as (x & <- & Hx). rewrite pmul_length. apply (H x Hx). }
  rewrite map_map. apply lsum_abs_le. intros x Hx. destruct (H x Hx) as (L1 & L2 & Hw & Hb).
  apply pmul_norm_bound; [lia|exact Hw|exact Hb].
Qed.

(* ---------- relinearisation: the tensor phase splits into the kept columns and the key-switched columns ---------- *)
Lemma combine_app_eq {X Y} (a1 a2 : list X) (b1 b2 : list Y) : length a1 = length b1 ->
  combine (a1 ++ a2) (b1 ++ b2) = combine a1 b1 ++ combine a2 b2.
Proof.
  revert b1; induction a1 as [|x a1 IH]; intros [|y b1] H; cbn [length] in H; try discriminate; [reflexivity|].
  cbn [app combine]. f_equal. apply IH. lia.
Qed.

Theorem phase_split n P b (T1 T2 : list plimbs) (k1 k2 : list (list Z)) :
  length T1 = length k1 -> (forall t, In t (T1 ++ T2) -> wfl n t) ->
  phase n P b (T1 ++ T2) (k1 ++ k2) = padd (phase n P b T1 k1) (phase n P b T2 k2).
Proof.
  intros HL HT. unfold phase. rewrite combine_app_eq by exact HL. rewrite map_app.
  assert (LL : forall Ta ka, (forall t, In t Ta -> wfl n t) ->
               forall x, In x (map (fun q : plimbs * list Z => pmul (pval n P b (fst q)) (snd q)) (combine Ta ka)) -> length x = n).
  { intros Ta ka Hw x Hx. apply in_map_iff in Hx. destruct Hx as ([t k] & <- & Hin). rewrite pmul_length. apply pval_length.
    apply Hw. eapply in_combine_l. exact Hin. }
  assert (W1 : forall t, In t T1 -> wfl n t) by (intros t Ht; apply HT; apply in_or_app; left; exact Ht).
  assert (W2 : forall t, In t T2 -> wfl n t) by (intros t Ht; apply HT; apply in_or_app; right; exact Ht).
  pose proof (LL T1 k1 W1) as L1. pose proof (LL T2 k2 W2) as L2.
  assert (L12 : forall x, In x (map (fun q : plimbs * list Z => pmul (pval n P b (fst q)) (snd q)) (combine T1 k1)
                                ++ map (fun q : plimbs * list Z => pmul (pval n P b (fst q)) (snd q)) (combine T2 k2)) -> length x = n).
  { intros x Hx. apply in_app_or in Hx. destruct Hx; [apply L1|apply L2]; assumption. }
  apply list_eq_nth.
  { rewrite plsum_length by exact L12. rewrite padd_length, !plsum_length by assumption. lia. }
  rewrite plsum_length by exact L12. intros c Hc.
  rewrite nth_padd by (rewrite !plsum_length by assumption; reflexivity).
  rewrite !nth_plsum by assumption. rewrite map_app, lsum_app. reflexivity.
Qed.

(* ---------- statements pinned in Props/C05.v ---------- *)
Theorem cnv_is_truncated_bivariate_product :
  forall (fft : bool) (n rsz cnv_offset pasz pbsz : nat) (mask_a mask_b : Z) (a b : plimbs) (k : nat),
  wfl n a -> wfl n b -> (1 <= pasz)%nat -> (1 <= pbsz)%nat -> (k < rsz)%nat ->
  let A := cnv_prepare n pasz mask_a a in let B := cnv_prepare n pbsz mask_b b in
  lim (cnv_apply fft n rsz cnv_offset A B) k =
  psumf n (fun i => psumf n (fun j =>
     if Nat.eqb (i + j) (k + cnv_offset) then pmul (lim A i) (lim B j) else pzero n) pbsz) pasz.
Proof.
  intros fft n rsz off pasz pbsz ma mb a b k wa wb Ha Hb Hk A B.
  pose proof (cnv_apply_spec fft n rsz off A B k) as H. unfold bivariate_coeff in H.
  subst A B. rewrite !cnv_prepare_length in H. apply H; try assumption; try (rewrite cnv_prepare_length; assumption);
    apply cnv_prepare_wfl; assumption.
Qed.

Theorem mul_plain_phase :
  forall (fft : bool) (n rsz dsz hi : nat) (P rb ab lo : Z) (nrm : plimbs -> limbs) (eps kap : plimbs -> list Z) (dom : plimbs -> Prop)
         (B : plimbs),
  (forall D, shaped n rsz (nrm D)) ->
  (forall D, wfl n D -> length D = dsz -> dom D ->
     length (eps D) = n /\ length (kap D) = n /\
     pval n P rb (nrm D) = padd (padd (pval n (P + lo) ab D) (eps D)) (pscale (2 ^ P) (kap D)) /\
     (forall c, Z.abs (nth c (eps D) 0) <= 2 ^ (P - zn rsz * rb))) ->
  wfl n B -> (1 <= length B)%nat ->
  forall (A : list plimbs) (key : list (list Z)),
  (forall a, In a A -> wfl n a /\ (1 <= length a)%nat /\ dom (cnv_apply fft n dsz hi a B)) -> (forall k, In k key -> length k = n) ->
  let Cf := fun a => cnv_apply fft n dsz hi a B in
  phase n P rb (map (fun a => nrm (Cf a)) A) key =
  padd (padd (plsum n (map (fun q => pmul (pval n (P + lo) ab (Cf (fst q))) (snd q)) (combine A key)))
             (plsum n (map (fun q => pmul (eps (Cf (fst q))) (snd q)) (combine A key))))
       (pscale (2 ^ P) (plsum n (map (fun q => pmul (kap (Cf (fst q))) (snd q)) (combine A key)))).
Proof.
  intros fft n rsz dsz hi P rb ab lo nrm eps kap dom B Hs Hv wB LB A key HA Hk Cf.
  apply (column_phase n rsz dsz P rb ab lo nrm eps kap dom Cf Hs Hv A key); [|exact Hk].
  intros a Ha. destruct (HA a Ha) as (wa & La & da). subst Cf. cbv beta. repeat split.
  - apply cnv_apply_wfl; assumption.
  - apply cnv_apply_length.
  - exact da.
Qed.

Theorem mul_const_phase :
  forall (fft : bool) (n rsz dsz hi : nat) (P rb ab lo : Z) (nrm : plimbs -> limbs) (eps kap : plimbs -> list Z) (dom : plimbs -> Prop)
         (b : list Z),
  (forall D, shaped n rsz (nrm D)) ->
  (forall D, wfl n D -> length D = dsz -> dom D ->
     length (eps D) = n /\ length (kap D) = n /\
     pval n P rb (nrm D) = padd (padd (pval n (P + lo) ab D) (eps D)) (pscale (2 ^ P) (kap D)) /\
     (forall c, Z.abs (nth c (eps D) 0) <= 2 ^ (P - zn rsz * rb))) ->
  (1 <= length b)%nat ->
  forall (A : list plimbs) (key : list (list Z)),
  (forall a, In a A -> wfl n a /\ (1 <= length a)%nat /\ dom (cnv_by_const fft n dsz hi a b)) -> (forall k, In k key -> length k = n) ->
  let Cf := fun a => cnv_by_const fft n dsz hi a b in
  phase n P rb (map (fun a => nrm (Cf a)) A) key =
  padd (padd (plsum n (map (fun q => pmul (pval n (P + lo) ab (Cf (fst q))) (snd q)) (combine A key)))
             (plsum n (map (fun q => pmul (eps (Cf (fst q))) (snd q)) (combine A key))))
       (pscale (2 ^ P) (plsum n (map (fun q => pmul (kap (Cf (fst q))) (snd q)) (combine A key)))).
Proof.
  intros fft n rsz dsz hi P rb ab lo nrm eps kap dom b Hs Hv Lb A key HA Hk Cf.
  apply (column_phase n rsz dsz P rb ab lo nrm eps kap dom Cf Hs Hv A key); [|exact Hk].
  intros a Ha. destruct (HA a Ha) as (wa & La & da). subst Cf. cbv beta.
  destruct (cnv_by_const_wfl fft n dsz hi a b wa La Lb) as [w L]. repeat split; assumption.
Qed.
