(* C08, cross-radix normalisation with a negative offset, any word width wd: the pieces that only this case
   uses.  (1) steps over an all-zero limb with a carry slightly above the headroom, (2) the top phase over
   zero limbs, (3) gapbits_phase: rounding a carry through gap bits in chunks of 32 with a cap. *)
From PV Require Import Base.MachineInt Model.Znx Model.Limbs
  Proofs.ZnxDigit Proofs.C08Steps Proofs.C08Chain Proofs.C08Loops Proofs.C08CrossInner
  Proofs.C08WChain Proofs.C08WLoops Proofs.C08WCrossInner.
Open Scope Z_scope.

(* ---------- steps over a zero limb, carry within 2^(wd-2) + 1 ---------- *)

Section ZeroLimb.
Variable wd : Z.
Variable b : Z.
Hypothesis Hwd : 5 <= wd.
Hypothesis Hb : 1 <= b <= wd - 2.

Let M := 2 ^ (wd - 2).

Lemma M_facts : 8 <= M /\ 2 ^ (wd - 1) = 2 * M /\ 2 * 2 ^ (b - 1) <= M /\ 0 < 2 ^ (b - 1) /\ 2 ^ b = 2 * 2 ^ (b - 1).
Proof.
  unfold M. split; [|split; [|split; [|split]]].
  - change 8 with (2 ^ 3). apply pow2_le_mono; lia.
  - apply pow_wd1; lia.
  - rewrite <- pow2_split by lia. apply pow2_le_mono; lia.
  - apply pow2_pos; lia.
  - apply pow2_split; lia.
Qed.

Lemma digit_carry_slack (c : Z) : Z.abs c <= M + 1 ->
  get_digit wd b c = wrap b c /\ get_carry wd b c (get_digit wd b c) = bdiv b c.
Proof.
  intros Hc. destruct M_facts as (M8 & Mw & Mb & Hp & Hs).
  assert (Hd : get_digit wd b c = wrap b c) by (apply digit_spec; lia).
  split; [exact Hd|].
  pose proof (wrap_range b c ltac:(lia)) as [Hr1 Hr2].
  pose proof (wrap_bdiv b c ltac:(lia)) as Hdec.
  assert (Hr : in_range wd (c - get_digit wd b c)).
  { rewrite Hd. unfold in_range. rewrite Mw. lia. }
  pose proof (carry_spec wd b c ltac:(lia) Hr) as Hcs. rewrite Hd in *.
  pose proof (pow2_pos b ltac:(lia)). nia.
Qed.

Lemma middle_core_zero (c : Z) : Z.abs c <= M + 1 ->
  middle_core wd b 0 0 c = (wrap b c, bdiv b c).
Proof.
  intros Hc. destruct M_facts as (M8 & Mw & Mb & Hp & Hs).
  unfold middle_core. rewrite Z.eqb_refl. cbv zeta.
  assert (Ed0 : get_digit wd b 0 = 0) by (rewrite digit_spec by lia; apply wrap_zero; lia).
  rewrite Ed0.
  assert (Ec0 : get_carry wd b 0 0 = 0).
  { unfold get_carry, wsub, asr. rewrite Z.sub_0_r, wrap_id; [apply Z.div_0_l; pose proof (pow2_pos b ltac:(lia)); lia|lia|].
    unfold in_range. rewrite Mw. lia. }
  rewrite Ec0.
  assert (Ea : wadd wd 0 c = c).
  { unfold wadd. rewrite Z.add_0_l. apply wrap_id; [lia|]. unfold in_range. rewrite Mw. lia. }
  rewrite Ea. destruct (digit_carry_slack c Hc) as [E1 E2]. rewrite E2, E1. f_equal.
  pose proof (bdiv_abs b c ltac:(lia)) as Hk.
  unfold wadd. rewrite Z.add_0_l. apply wrap_id; [lia|]. unfold in_range. rewrite Mw.
  pose proof (pow2_pos b ltac:(lia)).
  assert (Z.abs (bdiv b c) <= M + 1); [|lia].
  destruct (Z_le_gt_dec (Z.abs (bdiv b c)) (M + 1)) as [|Hgt]; auto. exfalso.
  assert ((M + 2) * 2 ^ b <= Z.abs (bdiv b c) * 2 ^ b) by (apply Z.mul_le_mono_nonneg_r; lia). nia.
Qed.

Lemma final_core_zero (c : Z) : Z.abs c <= M + 1 -> final_core wd b 0 0 c = wrap b c.
Proof.
  intros Hc. destruct M_facts as (M8 & Mw & Mb & Hp & Hs).
  unfold final_core. rewrite Z.eqb_refl.
  assert (Ed0 : get_digit wd b 0 = 0) by (rewrite digit_spec by lia; apply wrap_zero; lia).
  rewrite Ed0.
  assert (Ea : wadd wd 0 c = c).
  { unfold wadd. rewrite Z.add_0_l. apply wrap_id; [lia|]. unfold in_range. rewrite Mw. lia. }
  rewrite Ea. apply digit_spec. lia.
Qed.

Lemma car_zseq_slack (c : Z) (j : nat) : Z.abs c <= M + 1 -> Z.abs (car b zseq c j) <= M + 1.
Proof.
  intros Hc. destruct M_facts as (M8 & Mw & Mb & Hp & Hs).
  apply (car_bound b ltac:(lia) (M + 1)); [lia| |exact Hc].
  intros t Ht. unfold zseq. cbn [Z.abs]. nia.
Qed.

(* top_phase over limbs that hold 0: the digits of the carry *)
Lemma top_zero (re : nat) (r : list Z) (c : Z) :
  (forall i, (i < re)%nat -> nthZ r i = 0) -> Z.abs c <= M + 1 ->
  let out := fst (top_phase wd false b 0 re (r, c)) in
  length out = length r /\
  forall i, nthZ out i =
    if (Nat.ltb i re && Nat.ltb i (length r))%bool then dig b zseq c (re - 1 - i) else nthZ r i.
Proof.
  intros Hr0 Hc. cbv zeta. unfold top_phase.
  match goal with |- context [fold_left ?f _ _] => set (body := f) end.
  pose proof (fold_left_seq_ind body (fun j (s : list Z * Z) =>
    ((j < re)%nat -> snd s = car b zseq c j) /\ length (fst s) = length r /\
    forall i, nthZ (fst s) i =
      if (Nat.leb (re - j) i && Nat.ltb i re && Nat.ltb i (length r))%bool
      then dig b zseq c (re - 1 - i) else nthZ r i) re (r, c)) as HI.
  destruct HI as (_ & I2 & I3).
  - cbn [fst snd]. split; [reflexivity|]. split; [reflexivity|].
    intros i. natb; try reflexivity; lia.
  - intros j [r' c'] Hj (Ic & Il & In). unfold body. cbn [fst snd] in *.
    specialize (Ic Hj). subst c'.
    assert (Hcj : Z.abs (car b zseq c j) <= M + 1) by (apply car_zseq_slack; exact Hc).
    assert (Er : nthZ r' (re - j - 1) = 0).
    { rewrite In. natb; try lia; apply Hr0; lia. }
    rewrite Er.
    assert (Edig : wrap b (car b zseq c j) = dig b zseq c j).
    { unfold dig, zseq. rewrite Z.add_0_l. reflexivity. }
    destruct (Nat.eqb_spec j (re - 1)) as [E|E].
    + unfold final_step_assign. rewrite final_core_zero by exact Hcj. cbn [fst snd].
      split; [intros; lia|]. split; [rewrite upd_length; exact Il|].
      intros i. rewrite nth_upd, Il, In, Edig.
      destruct (Nat.eqb_spec i (re - j - 1)) as [Ei|Ei].
      * subst i. natb; try lia; try reflexivity.
        replace (re - 1 - (re - j - 1))%nat with j by lia. reflexivity.
      * cbn [andb]. natb; try lia; reflexivity.
    + unfold middle_step_assign. rewrite middle_core_zero by exact Hcj. cbn [fst snd].
      split; [intros _; rewrite car_S; unfold zseq at 1; rewrite Z.add_0_l; reflexivity|].
      split; [rewrite upd_length; exact Il|].
      intros i. rewrite nth_upd, Il, In, Edig.
      destruct (Nat.eqb_spec i (re - j - 1)) as [Ei|Ei].
      * subst i. natb; try lia; try reflexivity.
        replace (re - 1 - (re - j - 1))%nat with j by lia. reflexivity.
      * cbn [andb]. natb; try lia; reflexivity.
  - split; [exact I2|]. intros i. rewrite I3. natb; try reflexivity; lia.
Qed.

End ZeroLimb.

(* ---------- gapbits_phase ---------- *)

Section GapBits.
Variable wd : Z.
Hypothesis Hwd : 34 <= wd.

Let M := 2 ^ (wd - 2).

Lemma M_pos : 0 < M.
Proof. unfold M. apply pow2_pos; lia. Qed.

(* one chunk: a carry-only middle step of radix t over a zero limb *)
Lemma chunk_step (t c : Z) : 1 <= t <= 32 -> Z.abs c <= M ->
  middle_step_carry_only wd t 0 0 c = bdiv t c /\ Z.abs (bdiv t c) <= M.
Proof.
  intros Ht Hc. pose proof M_pos as HM. unfold middle_step_carry_only.
  rewrite (mcW wd t ltac:(lia) 0 0 c ltac:(lia)); [|fold M; cbn [Z.abs]; lia|exact Hc].
  cbn [snd]. rewrite Z.mul_0_l, Z.add_0_l. split; [reflexivity|].
  replace c with (0 + c) by lia. apply bdiv_chain; [lia|lia| |exact Hc].
  cbn [Z.abs]. pose proof (pow2_pos (t - 1) ltac:(lia)). nia.
Qed.

(* the general run: c = S + 2^g c' with |S| <= 2^g - 1 (mixed-radix balanced digits) *)
Lemma gapbits_chain : forall (fuel : nat) (g c : Z), 0 <= g <= 32 * Z.of_nat fuel -> Z.abs c <= M ->
  let c' := gapbits_phase wd fuel g c in
  exists S, c = S + 2 ^ g * c' /\ Z.abs S <= 2 ^ g - 1 /\ Z.abs c' <= M /\ (c = 0 -> c' = 0).
Proof.
  induction fuel as [|f IH]; intros g c Hg Hc; cbv zeta.
  - assert (g = 0) by lia. subst g. cbn [gapbits_phase]. exists 0.
    change (2 ^ 0) with 1. split; [lia|]. split; [cbn; lia|]. split; [exact Hc|auto].
  - cbn [gapbits_phase]. destruct (Z.eqb_spec g 0) as [E|E].
    + subst g. exists 0. change (2 ^ 0) with 1. split; [lia|]. split; [cbn; lia|]. split; [exact Hc|auto].
    + set (t := Z.min g 32).
      assert (Ht : 1 <= t <= 32 /\ t <= g) by (unfold t; lia).
      destruct (chunk_step t c ltac:(lia) Hc) as [Es Hb]. rewrite Es.
      destruct (IH (g - t) (bdiv t c) ltac:(lia) Hb) as (S1 & E1 & B1 & B2 & B3). cbv zeta in E1, B1, B2, B3.
      set (c' := gapbits_phase wd f (g - t) (bdiv t c)) in *.
      pose proof (wrap_bdiv t c ltac:(lia)) as Hdec.
      pose proof (wrap_range t c ltac:(lia)) as Hdr.
      exists (wrap t c + 2 ^ t * S1).
      assert (Eg : 2 ^ g = 2 ^ t * 2 ^ (g - t)) by (rewrite <- pow2_add by lia; f_equal; lia).
      split; [rewrite Eg; rewrite <- Hdec at 1; rewrite E1 at 1; ring|].
      split; [rewrite Eg; apply pieces_bound; [lia|lia|exact Hdr|exact B1]|].
      split; [exact B2|].
      intros E0. apply B3. subst c. apply bdiv_zero. lia.
Qed.

(* k chunks of 32 bits = k steps of the radix-2^32 chain over zero limbs *)
Lemma gapbits_full : forall (fuel k : nat) (c : Z), (k <= fuel)%nat -> Z.abs c <= M ->
  gapbits_phase wd fuel (32 * Z.of_nat k) c = car 32 zseq c k.
Proof.
  induction fuel as [|f IH]; intros k c Hk Hc.
  - assert (k = 0%nat) by lia. subst k. reflexivity.
  - destruct k as [|k]; [reflexivity|].
    cbn [gapbits_phase]. destruct (Z.eqb_spec (32 * Z.of_nat (S k)) 0) as [E|_]; [lia|].
    replace (Z.min (32 * Z.of_nat (S k)) 32) with 32 by lia.
    destruct (chunk_step 32 c ltac:(lia) Hc) as [Es Hb]. rewrite Es.
    replace (32 * Z.of_nat (S k) - 32) with (32 * Z.of_nat k) by lia.
    rewrite IH by (auto; lia). rewrite car_zseq_S. reflexivity.
Qed.

(* a carry within the headroom vanishes after kc chunks of 32 bits when 32 (kc - 1) >= wd - 2 *)
Lemma gapbits_vanish (fuel kc : nat) (c : Z) : (1 <= kc <= fuel)%nat -> wd - 2 <= 32 * (Z.of_nat kc - 1) ->
  Z.abs c <= M -> gapbits_phase wd fuel (32 * Z.of_nat kc) c = 0.
Proof.
  intros Hk Hcap Hc. rewrite gapbits_full by (auto; lia).
  replace kc with (S (kc - 1)) by lia. rewrite car_S. unfold zseq at 1. rewrite Z.add_0_l.
  assert (Hs : Z.abs (car 32 zseq c (kc - 1)) <= 1).
  { apply (car_zseq_small_w 32 ltac:(lia) (kc - 1) (wd - 2) c ltac:(lia)); [|exact Hc].
    unfold zn. rewrite Nat2Z.inj_sub by lia. change (Z.of_nat 1) with 1. lia. }
  set (x := car 32 zseq c (kc - 1)) in *. unfold bdiv.
  change (2 ^ (32 - 1)) with 2147483648. change (2 ^ 32) with 4294967296.
  apply Z.div_small. lia.
Qed.

(* the capped run used by the cross-radix routines: capbits = 32 kc *)
Lemma gapbits_spec (kc : nat) (G c : Z) : (1 <= kc <= 8)%nat -> wd - 2 <= 32 * (Z.of_nat kc - 1) ->
  0 <= G -> Z.abs c <= M ->
  let c' := gapbits_phase wd 8 (Z.min G (32 * Z.of_nat kc)) c in
  exists S, c = S + 2 ^ G * c' /\ Z.abs S <= 2 ^ G - 1 /\ Z.abs c' <= M /\ (c = 0 -> c' = 0).
Proof.
  intros Hk Hcap HG Hc. cbv zeta. pose proof M_pos as HM.
  destruct (Z_le_gt_dec G (32 * Z.of_nat kc)) as [Hle|Hgt].
  - rewrite Z.min_l by lia. apply gapbits_chain; [lia|exact Hc].
  - rewrite Z.min_r by lia. rewrite gapbits_vanish by (auto; lia).
    exists c. split; [lia|]. split; [|split; [cbn [Z.abs]; lia|auto]].
    assert (2 ^ (wd - 2) <= 2 ^ (G - 1)) by (apply pow2_le_mono; lia).
    pose proof (pow2_split G ltac:(lia)). pose proof (pow2_pos (G - 1) ltac:(lia)). fold M in H. lia.
Qed.

End GapBits.
