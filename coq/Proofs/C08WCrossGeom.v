(* C08, cross-radix normalisation at any word width: the rounding right shift znx_mul_power_of_two(-take). *)
From PV Require Import Base.MachineInt Model.Znx Model.Limbs Model.C08Oracle
  Proofs.ZnxDigit Proofs.C08Steps Proofs.C08Chain Proofs.C08Loops Proofs.C08Value Proofs.C08CrossInner
  Proofs.C08CrossGeom Proofs.C08WCrossInner.
Open Scope Z_scope.

Lemma mp2_roundW (wd take x : Z) : 3 <= wd -> 1 <= take <= wd - 2 -> Z.abs x <= 2 ^ (wd - 2) ->
  exists rho, x = rho + 2 ^ take * mul_power_of_two wd (- take) x /\ 2 * Z.abs rho <= 2 ^ take /\
              (x mod 2 ^ take = 0 -> rho = 0).
Proof.
  intros Hwd Ht Hx. unfold mul_power_of_two.
  destruct (Z.eqb_spec (- take) 0) as [E|_]; [lia|].
  destruct (Z.ltb_spec 0 (- take)) as [E|_]; [lia|].
  cbv zeta. replace (- - take) with take by lia.
  set (h := 2 ^ (take - 1)).
  assert (Hh : 0 < h) by (apply pow2_pos; lia).
  assert (H2 : 2 ^ take = 2 * h) by (apply pow2_split; lia).
  pose proof (pow_wd1 wd Hwd) as Hw1.
  assert (Hw2 : 2 ^ (wd - 2) = 2 * 2 ^ (wd - 3)).
  { replace (wd - 3) with (wd - 2 - 1) by lia. apply pow2_split; lia. }
  assert (Hh61 : h <= 2 ^ (wd - 3)) by (apply pow2_le_mono; lia).
  set (M := 2 ^ (wd - 2)) in *. set (M2 := 2 ^ (wd - 3)) in *.
  assert (HM : 0 < M2) by (apply pow2_pos; lia).
  set (sb := Z.land (asr x (wd - 1)) 1).
  assert (Hsb : (0 <= x /\ sb = 0) \/ (x < 0 /\ sb = 1)).
  { unfold sb, asr. rewrite Hw1.
    destruct (Z_lt_le_dec x 0) as [Hn|Hp].
    - right. split; [exact Hn|]. replace (x / (2 * M)) with (-1).
      + reflexivity.
      + apply (Z.div_unique x (2 * M) (-1) (x + 2 * M)); lia.
    - left. split; [exact Hp|]. rewrite Z.div_small by lia. reflexivity. }
  assert (Eshl : shl wd 1 (take - 1) = h).
  { unfold shl. rewrite Z.mul_1_l. apply wrap_id; [lia|]. unfold in_range. rewrite Hw1. fold h. lia. }
  rewrite Eshl.
  assert (Ebias : wsub wd h sb = h - sb).
  { unfold wsub. apply wrap_id; [lia|]. unfold in_range. rewrite Hw1. lia. }
  rewrite Ebias.
  assert (Eadd : wadd wd x (h - sb) = x + (h - sb)).
  { unfold wadd. apply wrap_id; [lia|]. unfold in_range. rewrite Hw1. lia. }
  rewrite Eadd. unfold asr. rewrite H2.
  pose proof (Z.div_mod (x + (h - sb)) (2 * h) ltac:(lia)) as Hdm.
  pose proof (Z.mod_pos_bound (x + (h - sb)) (2 * h) ltac:(lia)) as Hmb.
  set (q := (x + (h - sb)) / (2 * h)) in *. set (m := (x + (h - sb)) mod (2 * h)) in *.
  exists (m - h + sb). split; [lia|]. split; [lia|].
  intros Hdiv. apply Z.mod_divide in Hdiv; [|lia]. destruct Hdiv as [k Hk].
  assert (Hq : q = k).
  { unfold q. symmetry. apply (Z.div_unique (x + (h - sb)) (2 * h) k (h - sb)); lia. }
  lia.
Qed.
