(* C12 - glwe_tensor_relinearize and glwe_tensor_square_apply: the declared size suffices on ring degrees that are multiples of 8.
   Every statement mentions the GENERATED formulas. *)
From PV Require Import Base.MachineInt Model.C12Scratch Gen.C12TmpBytes_gen Model.C12Trees
  Proofs.C12Arena Proofs.C12Hal Proofs.C12Core Proofs.C12KeySwitch Proofs.C12More Proofs.C12Conv Proofs.C12Ggsw.
Open Scope Z_scope.

Section Tensor.
  Variables fam n : Z.
  Hypothesis Hf : is_fam fam.
  Hypothesis Hn0 : 0 <= n.
  Hypothesis Hn8 : n mod 8 = 0.

  (* ---------------------------------------------------------------------------------------------- *)
  Lemma suffices_glwe_tensor_relinearize (res a tsk : infos) (tsk_size : Z) :
    wf_infos res -> wf_infos a -> wf_infos tsk -> 0 <= tsk_size <= i_size tsk ->
    run_takes (tree_glwe_tensor_relinearize fam n res a tsk tsk_size) (0, glwe_tensor_relinearize_tmp_bytes fam n res a tsk) <> None.
  Proof using Hf Hn0 Hn8.
    intros Hr Ha Ht Hts.
    assert (Htb : 1 <= i_base2k tsk) by (destruct Ht; lia).
    assert (Htr : 0 <= i_rank tsk) by (destruct Ht as (_&_&?&_); lia).
    assert (Hti : 0 <= i_rank_in tsk) by (destruct Ht as (_&_&_&?&_); lia).
    assert (Hrr : 0 <= i_rank res) by (destruct Hr as (_&_&?&_); lia).
    assert (Hmk : 0 <= i_size a * i_base2k a) by (destruct Ha as (?&?&_); nia).
    set (ads := div_ceil (i_size a * i_base2k a) (i_base2k tsk)).
    assert (Ha0 : 0 <= ads) by (apply div_ceil_nonneg; lia).
    destruct (gglwe_product_spec fam n Hf Hn0 Hn8 tsk_size ads tsk Ht Ha0) as [Ap Dp].
    rewrite (product_res_indep fam n Hf Hn0 Hn8 tsk_size (i_size res)) in Dp.
    pose proof (aligned_need_nonneg _ Ap).
    destruct (callee_big_normalize fam n Hf Hn0 Hn8) as [Ab Db]. destruct (callee_normalize fam n Hf Hn0 Hn8) as [An Dn].
    pose proof (nn_norm fam n Hf Hn0 Hn8). pose proof (nn_bnorm fam n Hf Hn0 Hn8).
    pose proof (al_dft fam n Hf Hn0 Hn8 (i_rank_in tsk) ads Hti Ha0) as HD1.
    pose proof (al_vec_znx fam n Hf Hn0 Hn8 1 ads ltac:(lia) Ha0) as HV.
    pose proof (al_dft fam n Hf Hn0 Hn8 (i_rank tsk + 1) tsk_size ltac:(lia) ltac:(lia)) as HD2.
    pose proof (dft_mono fam n Hf Hn0 Hn8 (i_rank tsk + 1) (i_size tsk) tsk_size ltac:(lia) ltac:(lia)) as HDm.
    apply aligned_suffices; unfold tree_glwe_tensor_relinearize, glwe_tensor_relinearize_tmp_bytes; cbv zeta; fold ads.
    - destruct (negb (i_base2k a =? i_base2k tsk)); cbn [aligned_tree]; unfold ALIGN; intuition; lia.
    - destruct (negb (i_base2k a =? i_base2k tsk)); cbn [demand persist]; rewrite ?Db, ?Dn; destruct_loops; lia.
  Qed.

  (* ---------------------------------------------------------------------------------------------- *)
  (* the convolution callees: aligned, and their need grows with the number of limbs of the result *)
  Lemma cnv_prepare_self_facts (a : Z) : 0 <= a ->
    aligned_tree (t_cnv_prepare_self fam n a a) /\ demand (t_cnv_prepare_self fam n a a) = api_cnv_prepare_self_tmp_bytes fam n a a.
  Proof using Hf Hn0 Hn8.
    intros Ha. pose proof (al_dft fam n Hf Hn0 Hn8 1 (Z.min a a) ltac:(lia) ltac:(lia)) as HD.
    unfold t_cnv_prepare_self. revert HD. autounfold with c12gen.
    destruct Hf as [-> | ->]; cbn [Z.eqb aligned_tree demand]; unfold ALIGN; lia.
  Qed.

  Lemma cnv_apply_facts (off rs rs' a : Z) : 1 <= a -> 0 <= rs' <= rs ->
    aligned_tree (t_cnv_apply_dft fam rs' a a) /\ demand (t_cnv_apply_dft fam rs' a a) <= api_cnv_apply_dft_tmp_bytes fam n off rs a a.
  Proof using Hf Hn0 Hn8.
    intros Ha Hrs. unfold t_cnv_apply_dft, take_words. autounfold with c12gen.
    destruct Hf as [-> | ->]; cbn [Z.eqb aligned_tree demand]; unfold ALIGN; lia.
  Qed.

  Lemma cnv_pairwise_facts (off rs rs' a : Z) : 1 <= a -> 0 <= rs' <= rs ->
    aligned_tree (t_cnv_pairwise_apply_dft fam rs' a a) /\
    demand (t_cnv_pairwise_apply_dft fam rs' a a) <= api_cnv_pairwise_apply_dft_tmp_bytes fam n rs off a a.
  Proof using Hf Hn0 Hn8.
    intros Ha Hrs. unfold t_cnv_pairwise_apply_dft, take_words. autounfold with c12gen.
    destruct Hf as [-> | ->]; cbn [Z.eqb aligned_tree demand]; unfold ALIGN.
    - lia.
    - repeat match goal with |- context [?x =? 0] => destruct (Z.eqb_spec x 0) end; cbn [orb]; lia.
  Qed.

  Lemma al_cnv_left (c s : Z) : 0 <= c -> 0 <= s ->
    0 <= hal_bytes_of_cnv_pvec_left fam n c s /\ hal_bytes_of_cnv_pvec_left fam n c s mod 64 = 0.
  Proof using Hf Hn0 Hn8. intros. autounfold with c12gen. unfold size_of_scalar_prep. assert (0 <= n * c * s) by nn. destruct Hf as [-> | ->]; cbn [Z.eqb]; lia. Qed.
  Lemma al_cnv_right (c s : Z) : 0 <= c -> 0 <= s ->
    0 <= hal_bytes_of_cnv_pvec_right fam n c s /\ hal_bytes_of_cnv_pvec_right fam n c s mod 64 = 0.
  Proof using Hf Hn0 Hn8. intros. autounfold with c12gen. unfold size_of_scalar_prep. assert (0 <= n * c * s) by nn. destruct Hf as [-> | ->]; cbn [Z.eqb]; lia. Qed.

  (* the number of limbs the operation takes for res_dft is at most the worst case the size query assumes *)
  Lemma limb_bound_le_worst (full full' rs rb ib off : Z) : 1 <= ib -> 0 <= rs * rb -> 0 <= full' <= full ->
    0 <= limb_bound_with_offset full' rs rb ib off <= normalize_input_limb_bound_worst_case full rs rb ib.
  Proof.
    intros Hib Hrs Hfull. unfold limb_bound_with_offset, normalize_input_limb_bound_worst_case, normalize_input_limb_bound.
    pose proof (Z.mod_pos_bound off ib ltac:(lia)) as Hm.
    pose proof (div_ceil_mono (rs * rb + (ib - 1)) (rs * rb + off mod ib) ib Hib ltac:(lia)).
    pose proof (div_ceil_nonneg (rs * rb + off mod ib) ib ltac:(lia) Hib). lia.
  Qed.

  Lemma suffices_glwe_tensor_square_apply (res a : infos) (cnv_offset : Z) :
    wf_infos res -> wf_infos a -> 1 <= i_size a -> 0 <= cnv_offset -> cnv_offset_hi cnv_offset (i_base2k a) <= 2 * i_size a ->
    run_takes (tree_glwe_tensor_square_apply fam n res a cnv_offset) (0, glwe_tensor_square_apply_tmp_bytes fam n res a) <> None.
  Proof using Hf Hn0 Hn8.
    intros Hr Ha Has Hc Hhi.
    assert (Hab : 1 <= i_base2k a) by (destruct Ha; lia).
    assert (Hrr : 0 <= i_rank res) by (destruct Hr as (_&_&?&_); lia).
    assert (Hrs : 0 <= i_size res) by (destruct Hr as (_&?&_); lia).
    assert (Hrb : 0 <= i_size res * i_base2k res) by (destruct Hr as (?&?&_); nia).
    assert (Hhi0 : 0 <= cnv_offset_hi cnv_offset (i_base2k a)) by (unfold cnv_offset_hi; destruct (cnv_offset <? i_base2k a); lia).
    set (W := normalize_input_limb_bound_worst_case (2 * i_size a) (i_size res) (i_base2k res) (i_base2k a)).
    set (dsz := limb_bound_with_offset (2 * i_size a - cnv_offset_hi cnv_offset (i_base2k a)) (i_size res) (i_base2k res) (i_base2k a)
                  (cnv_offset_lo cnv_offset (i_base2k a))).
    assert (Hd : 0 <= dsz <= W) by (apply limb_bound_le_worst; lia).
    destruct (cnv_prepare_self_facts (i_size a) ltac:(lia)) as [Aps Dps].
    destruct (cnv_apply_facts (i_size a) W dsz (i_size a) Has Hd) as [Aap Dap].
    destruct (cnv_pairwise_facts (i_size a) W dsz (i_size a) Has Hd) as [Apw Dpw].
    pose proof (aligned_need_nonneg _ Aps). pose proof (aligned_need_nonneg _ Aap). pose proof (aligned_need_nonneg _ Apw).
    destruct (callee_big_normalize fam n Hf Hn0 Hn8) as [Ab Db]. pose proof (nn_bnorm fam n Hf Hn0 Hn8).
    pose proof (al_cnv_left (i_rank res + 1) (i_size a) ltac:(lia) ltac:(lia)) as HL.
    pose proof (al_cnv_right (i_rank res + 1) (i_size a) ltac:(lia) ltac:(lia)) as HR.
    pose proof (al_vec_znx fam n Hf Hn0 Hn8 (i_rank res + 1) (i_size res) ltac:(lia) Hrs) as HV.
    pose proof (al_dft fam n Hf Hn0 Hn8 1 dsz ltac:(lia) ltac:(lia)) as HD.
    pose proof (dft_mono fam n Hf Hn0 Hn8 1 W dsz ltac:(lia) ltac:(lia)) as HDm.
    apply aligned_suffices; unfold tree_glwe_tensor_square_apply, glwe_tensor_square_apply_tmp_bytes; cbv zeta; fold dsz; fold W.
    - cbn [aligned_tree]. unfold ALIGN. intuition; lia.
    - cbn [demand persist]. rewrite Db, Dps in *. destruct_loops; lia.
  Qed.
End Tensor.
