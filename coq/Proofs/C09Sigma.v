(* C09 items 3-4: the running-index automorphism loop is the Galois map sigma_g : X -> X^g,
   every position is written exactly once, and sigma_g o sigma_h = sigma_{gh}. *)
From Coq Require Import Znumtheory Zpow_facts.
From PV Require Import Base.MachineInt Model.Znx Model.Limbs Model.Ring Model.Poly
  Proofs.C09Lists Proofs.C09Ring.
Open Scope Z_scope.

(* ---------- arithmetic of units mod 2n ---------- *)
Lemma gcd2n_odd g n : Z.gcd g (2 * n) = 1 -> Z.odd g = true.
Proof.
  intros Hg. destruct (Z.odd g) eqn:Ho; auto. exfalso.
  assert (He : Z.even g = true) by (rewrite <- Z.negb_odd, Ho; reflexivity).
  apply Z.even_spec in He. destruct He as [m Hm].
  assert (Hd : (2 | Z.gcd g (2 * n))).
  { apply Z.gcd_greatest; [exists m; lia | exists n; lia]. }
  rewrite Hg in Hd. destruct Hd as [c Hc]. lia.
Qed.

Lemma gcd2n_gcdn g n : Z.gcd g (2 * n) = 1 -> Z.gcd g n = 1.
Proof.
  intros Hg. apply Zgcd_1_rel_prime. apply Zgcd_1_rel_prime in Hg.
  apply rel_prime_sym. apply (rel_prime_div (2 * n) g n); [apply rel_prime_sym; auto|].
  exists 2; lia.
Qed.

Lemma odd_pow2_coprime g m : 0 <= m -> Z.odd g = true -> Z.gcd g (2 * 2 ^ m) = 1.
Proof.
  intros Hm Ho. apply Zgcd_1_rel_prime.
  replace (2 * 2 ^ m) with (2 ^ (m + 1)) by (rewrite Z.pow_add_r by lia; lia).
  apply rel_prime_Zpower_r; [lia|].
  apply bezout_rel_prime.
  apply Zodd_bool_iff in Ho. apply Zodd_ex_iff in Ho.
  destruct Ho as [k Hk]. apply (Bezout_intro g 2 1 1 (- k)). lia.
Qed.

Lemma gcd_mul_2n g h n : Z.gcd g (2 * n) = 1 -> Z.gcd h (2 * n) = 1 -> Z.gcd (g * h) (2 * n) = 1.
Proof.
  intros Hg Hh. apply Zgcd_1_rel_prime. apply Zgcd_1_rel_prime in Hg, Hh.
  apply rel_prime_sym. apply rel_prime_mult; apply rel_prime_sym; auto.
Qed.

Lemma mod_2n_mod_n x n : 0 < n -> (x mod (2 * n)) mod n = x mod n.
Proof. intros Hn. symmetry. apply Zmod_div_mod; try lia. exists 2; lia. Qed.

(* multiplication by g (coprime to n) is injective on [0,n) modulo n *)
Lemma mul_inj_mod g n j1 j2 :
  0 < n -> Z.gcd g n = 1 -> 0 <= j1 < n -> 0 <= j2 < n ->
  (j1 * g) mod n = (j2 * g) mod n -> j1 = j2.
Proof.
  intros Hn Hg H1 H2 Heq.
  assert (Hd : (n | (j1 - j2) * g)).
  { apply Z.mod_divide; [lia|].
    replace ((j1 - j2) * g) with (j1 * g - j2 * g) by ring.
    rewrite Zminus_mod, Heq, Z.sub_diag. apply Z.mod_0_l; lia. }
  rewrite Z.mul_comm in Hd.
  apply Gauss in Hd; [|apply rel_prime_sym, Zgcd_1_rel_prime; auto].
  destruct Hd as [c Hc].
  assert (Hc0 : c = 0).
  { destruct (Z_lt_le_dec c 1); destruct (Z_lt_le_dec (-1) c); try lia; nia. }
  subst c. lia.
Qed.

(* znx_automorphism_onto with the modulus made a parameter (convertible to the model) *)
Definition onto_gen (w n2 nn p2 : Z) (r0 a : list Z) : list Z :=
  match a with
  | [] => r0
  | a0 :: rest =>
    fst (fold_left (fun (s : list Z * Z) ai =>
      let '(r, k) := s in
      let k' := (k + p2) mod n2 in
      (if k' <? nn then upd r (Z.to_nat k') ai else upd r (Z.to_nat (k' - nn)) (wneg w ai), k'))
      rest (upd r0 0 a0, 0))
  end.

Section Sigma.
Variable w : Z.
Variable g : Z.
Variable a : list Z.
Local Notation n := (Z.of_nat (length a)).

Definition sg_e (j : nat) : Z := (Z.of_nat j * g) mod (2 * n).
Definition sg_pos (j : nat) : nat := Z.to_nat (if sg_e j <? n then sg_e j else sg_e j - n).
Definition sg_val (j : nat) : Z := if sg_e j <? n then nthZ a j else wneg w (nthZ a j).

Lemma sg_e_bound j : 0 < n -> 0 <= sg_e j < 2 * n.
Proof. intros; unfold sg_e; apply Z.mod_pos_bound; lia. Qed.

Lemma sg_pos_mod j : 0 < n -> Z.of_nat (sg_pos j) = (Z.of_nat j * g) mod n.
Proof.
  intros Hn. unfold sg_pos. pose proof (sg_e_bound j Hn) as Hb.
  rewrite <- (mod_2n_mod_n (Z.of_nat j * g) n Hn). fold (sg_e j).
  destruct (Z.ltb_spec (sg_e j) n).
  - rewrite Z2Nat.id by lia. symmetry; apply Z.mod_small; lia.
  - rewrite Z2Nat.id by lia. apply (Z.mod_unique_pos (sg_e j) n 1); lia.
Qed.

Lemma sg_pos_lt j : 0 < n -> (sg_pos j < length a)%nat.
Proof.
  intros Hn. pose proof (sg_pos_mod j Hn) as H.
  pose proof (Z.mod_pos_bound (Z.of_nat j * g) n Hn) as Hb. rewrite <- H in Hb. lia.
Qed.

Lemma sg_pos_inj j1 j2 :
  Z.gcd g n = 1 -> (j1 < length a)%nat -> (j2 < length a)%nat -> sg_pos j1 = sg_pos j2 -> j1 = j2.
Proof.
  intros Hg H1 H2 Heq. assert (Hn : 0 < n) by lia.
  apply Nat2Z.inj. apply (mul_inj_mod g n); auto; try lia.
  rewrite <- !sg_pos_mod by auto. rewrite Heq. reflexivity.
Qed.

(* sigma as a fold of independent writes *)
Lemma sigma_fold :
  sigma w g a = fold_upd sg_pos sg_val (seq 0 (length a)) (zeros (length a)).
Proof.
  unfold sigma, fold_upd. cbv zeta. apply fold_left_ext_in. intros r j _.
  unfold sg_pos, sg_val, sg_e. destruct (_ <? _); reflexivity.
Qed.

(* the running index k_j = (j * g) mod 2n *)
Lemma step_e j : 0 < n -> (sg_e j + g mod (2 * n)) mod (2 * n) = sg_e (S j).
Proof.
  intros Hn. unfold sg_e. rewrite <- Zplus_mod. f_equal. lia.
Qed.

Lemma onto_loop (rest : list Z) : forall (j0 : nat) (r : list Z),
  0 < n ->
  (forall i, (i < length rest)%nat -> nthZ rest i = nthZ a (S j0 + i)) ->
  fold_left (fun (s : list Z * Z) ai =>
      let '(r, k) := s in
      let k' := (k + g mod (2 * n)) mod (2 * n) in
      (if k' <? n then upd r (Z.to_nat k') ai else upd r (Z.to_nat (k' - n)) (wneg w ai), k'))
    rest (r, sg_e j0)
  = (fold_upd sg_pos sg_val (seq (S j0) (length rest)) r, sg_e (j0 + length rest)).
Proof.
  induction rest as [|x rest IH]; intros j0 r Hn Hnth.
  - cbn [fold_left length seq fold_upd]. rewrite Nat.add_0_r. reflexivity.
  - cbn [fold_left length seq]. cbv zeta. rewrite step_e by auto.
    assert (Hx : x = nthZ a (S j0)).
    { specialize (Hnth 0%nat ltac:(cbn [length]; lia)). rewrite Nat.add_0_r in Hnth. exact Hnth. }
    replace (if sg_e (S j0) <? n then upd r (Z.to_nat (sg_e (S j0))) x
             else upd r (Z.to_nat (sg_e (S j0) - n)) (wneg w x))
      with (upd r (sg_pos (S j0)) (sg_val (S j0)))
      by (unfold sg_pos, sg_val; rewrite Hx; destruct (_ <? _); reflexivity).
    rewrite IH; auto.
    + unfold fold_upd. cbn [fold_left]. f_equal. f_equal. lia.
    + intros i Hi. specialize (Hnth (S i) ltac:(cbn [length]; lia)).
      unfold nthZ in *. cbn [nth] in Hnth. rewrite Hnth. f_equal. lia.
Qed.

Lemma onto_fold r0 :
  (0 < length a)%nat ->
  znx_automorphism_onto w g r0 a = fold_upd sg_pos sg_val (seq 0 (length a)) r0.
Proof.
  intros Hlen. assert (Hn : 0 < n) by lia.
  change (znx_automorphism_onto w g r0 a) with (onto_gen w (2 * n) n (g mod (2 * n)) r0 a).
  assert (Hgen : forall l, l = a ->
     onto_gen w (2 * n) n (g mod (2 * n)) r0 l = fold_upd sg_pos sg_val (seq 0 (length l)) r0).
  2: apply Hgen; reflexivity.
  intros l El. destruct l as [|a0 rest]; [rewrite <- El in Hlen; cbn [length] in Hlen; lia|].
  unfold onto_gen.
  assert (H0 : sg_e 0 = 0) by (unfold sg_e; cbn [Z.of_nat]; rewrite Z.mul_0_l; apply Z.mod_0_l; lia).
  rewrite <- H0 at 1.
  assert (Hnth : forall i, (i < length rest)%nat -> nthZ rest i = nthZ a (1 + i))
    by (intros i Hi; rewrite <- El; reflexivity).
  pose proof (onto_loop rest 0 (upd r0 0 a0) Hn Hnth) as HL. cbv zeta in HL. rewrite HL. clear HL.
  cbn [fst length seq]. unfold fold_upd. cbn [fold_left]. f_equal.
    unfold sg_pos, sg_val. rewrite H0. rewrite <- El.
    destruct (Z.ltb_spec 0 n); [|lia]. reflexivity.
Qed.

Lemma fold_all_hit r0 :
  Z.gcd g n = 1 -> length r0 = length a ->
  forall j, (j < length a)%nat ->
  nthZ (fold_upd sg_pos sg_val (seq 0 (length a)) r0) (sg_pos j) = sg_val j.
Proof.
  intros Hg Hl j Hj. assert (Hn : 0 < n) by lia.
  apply fold_upd_hit.
  - apply inj_seq_NoDup. intros; apply sg_pos_inj; auto.
  - apply in_seq; lia.
  - rewrite Hl. apply sg_pos_lt; auto.
Qed.

Lemma sg_pos_onto t :
  Z.gcd g n = 1 -> (t < length a)%nat -> exists j, (j < length a)%nat /\ sg_pos j = t.
Proof.
  intros Hg Ht. assert (Hn : 0 < n) by lia.
  apply inj_seq_onto; auto.
  - intros; apply sg_pos_lt; auto.
  - intros; apply sg_pos_inj; auto.
Qed.

(* the final content does not depend on the initial content *)
Lemma fold_indep r0 r1 :
  Z.gcd g n = 1 -> length r0 = length a -> length r1 = length a ->
  fold_upd sg_pos sg_val (seq 0 (length a)) r0 = fold_upd sg_pos sg_val (seq 0 (length a)) r1.
Proof.
  intros Hg H0 H1. apply nthZ_ext.
  - rewrite !fold_upd_length. lia.
  - intros t Ht. rewrite fold_upd_length, H0 in Ht.
    destruct (sg_pos_onto t Hg Ht) as [j [Hj <-]].
    rewrite !fold_all_hit by auto. reflexivity.
Qed.

Lemma sigma_length : length (sigma w g a) = length a.
Proof. rewrite sigma_fold, fold_upd_length. apply repeat_length. Qed.

Lemma sigma_nth j :
  Z.gcd g n = 1 -> (j < length a)%nat -> nthZ (sigma w g a) (sg_pos j) = sg_val j.
Proof.
  intros Hg Hj. rewrite sigma_fold. apply fold_all_hit; auto. apply repeat_length.
Qed.

Theorem automorphism_is_sigma_gcd r0 :
  Z.gcd g n = 1 -> length r0 = length a ->
  znx_automorphism_onto w g r0 a = sigma w g a.
Proof.
  intros Hg Hl.
  destruct (Nat.eq_dec (length a) 0) as [H0|H0].
  { destruct a; [|discriminate]. destruct r0; [|discriminate]. reflexivity. }
  rewrite onto_fold by lia. rewrite sigma_fold.
  apply fold_indep; auto. apply repeat_length.
Qed.

Lemma sigma_range :
  1 <= w -> Z.gcd g n = 1 -> Forall (in_range w) a -> Forall (in_range w) (sigma w g a).
Proof.
  intros Hw Hg Hr. apply Forall_of_nthZ. intros t Ht. rewrite sigma_length in Ht.
  destruct (sg_pos_onto t Hg Ht) as [j [Hj <-]].
  rewrite sigma_nth by auto. unfold sg_val.
  destruct (_ <? _); [apply Forall_nthZ; auto | apply wneg_range; auto].
Qed.

(* coefficient j of a sits at exponent j*g of sigma_g a *)
Lemma ext_sigma_small j :
  1 <= w -> Z.gcd g n = 1 -> Forall (in_range w) a -> (j < length a)%nat ->
  ext w (sigma w g a) (Z.of_nat j * g) = nthZ a j.
Proof.
  intros Hw Hg Hr Hj. assert (Hn : 0 < n) by lia.
  pose proof (sigma_nth j Hg Hj) as Hs.
  pose proof (sg_pos_lt j Hn) as Hp.
  pose proof (sg_e_bound j Hn) as Hb.
  pose proof (Z.div_mod (Z.of_nat j * g) (2 * n) ltac:(lia)) as Hdm. fold (sg_e j) in Hdm.
  set (Q := (Z.of_nat j * g) / (2 * n)) in *. clearbody Q.
  unfold sg_pos, sg_val in *.
  destruct (Z.ltb_spec (sg_e j) n) as [Hlt|Hge].
  - rewrite (ext_at_nat w (sigma w g a) _ (0 + 2 * Q) (Z.to_nat (sg_e j)))
      by (rewrite sigma_length; lia).
    rewrite even_add_mul2. cbn [Z.even]. exact Hs.
  - rewrite (ext_at_nat w (sigma w g a) _ (1 + 2 * Q) (Z.to_nat (sg_e j - n)))
      by (rewrite sigma_length; lia).
    rewrite even_add_mul2. cbn [Z.even]. rewrite Hs.
    apply wneg_involutive; auto. apply Forall_nthZ; auto.
Qed.

(* sigma_g a (X^g) = a (X) on the whole extension *)
Lemma ext_sigma k :
  1 <= w -> Z.gcd g (2 * n) = 1 -> Forall (in_range w) a -> (0 < length a)%nat ->
  ext w (sigma w g a) (k * g) = ext w a k.
Proof.
  intros Hw Hg2 Hr Hlen. assert (Hn : 0 < n) by lia.
  pose proof (gcd2n_odd g n Hg2) as Hodd. pose proof (gcd2n_gcdn g n Hg2) as Hg.
  destruct (exp_decomp n k Hn) as [q [j [Hk Hj]]].
  rewrite (ext_at_nat w a k q j) by lia.
  replace (k * g) with (Z.of_nat j * g + (q * g) * Z.of_nat (length (sigma w g a)))
    by (rewrite sigma_length; subst k; ring).
  rewrite ext_shift; auto.
  - rewrite ext_sigma_small by (auto; lia).
    rewrite Z.even_mul. rewrite <- (Z.negb_odd g), Hodd. cbn [negb]. rewrite Bool.orb_false_r.
    reflexivity.
  - apply sigma_range; auto.
  - rewrite sigma_length; auto.
Qed.

End Sigma.

Lemma ext_period_n w (b : list Z) (n k s : Z) :
  (0 < length b)%nat -> Z.of_nat (length b) = n -> ext w b (k + s * (2 * n)) = ext w b k.
Proof. intros Hl <-. apply ext_period; auto. Qed.

(* ---------- item 4 ---------- *)
Theorem sigma_compose_gcd w g h a :
  1 <= w -> Z.gcd g (2 * Z.of_nat (length a)) = 1 -> Z.gcd h (2 * Z.of_nat (length a)) = 1 ->
  Forall (in_range w) a ->
  sigma w g (sigma w h a) = sigma w (g * h) a.
Proof.
  intros Hw Hg Hh Hr. set (n := Z.of_nat (length a)) in *.
  destruct (Nat.eq_dec (length a) 0) as [H0|H0].
  { destruct a; [|discriminate]. reflexivity. }
  assert (Hn : 0 < n) by (unfold n; lia).
  pose proof (gcd_mul_2n g h n Hg Hh) as Hgh.
  assert (Hb : Bezout (g * h) (2 * n) 1) by (apply rel_prime_bezout, Zgcd_1_rel_prime; auto).
  destruct Hb as [u v Huv].
  assert (Hlh : length (sigma w h a) = length a) by apply sigma_length.
  apply (ext_inj w); [rewrite !sigma_length; reflexivity|].
  intros k.
  assert (Hk1 : k = (k * u * h) * g + (k * v) * (2 * n)).
  { transitivity (k * (u * (g * h) + v * (2 * n))); [rewrite Huv; ring | ring]. }
  assert (Hk2 : k = (k * u) * (g * h) + (k * v) * (2 * n)).
  { transitivity (k * (u * (g * h) + v * (2 * n))); [rewrite Huv; ring | ring]. }
  transitivity (ext w a (k * u)).
  - rewrite Hk1 at 1.
    rewrite (ext_period_n w _ n) by (rewrite ?sigma_length; auto; lia).
    rewrite ext_sigma; auto.
    + apply ext_sigma; auto; lia.
    + rewrite Hlh; exact Hg.
    + apply sigma_range; auto; apply gcd2n_gcdn; auto.
    + lia.
  - symmetry. rewrite Hk2 at 1.
    rewrite (ext_period_n w _ n) by (rewrite ?sigma_length; auto; lia).
    apply ext_sigma; auto; lia.
Qed.

Theorem sigma_1 w a : sigma w 1 a = a.
Proof.
  destruct (Nat.eq_dec (length a) 0) as [H0|H0].
  { destruct a; [|discriminate]. reflexivity. }
  set (n := Z.of_nat (length a)). assert (Hn : 0 < n) by (unfold n; lia).
  assert (Hg : Z.gcd 1 n = 1) by apply Z.gcd_1_l.
  apply nthZ_ext; [apply sigma_length|].
  intros i Hi. rewrite sigma_length in Hi.
  assert (He : sg_e 1 a i = Z.of_nat i).
  { unfold sg_e. rewrite Z.mul_1_r. apply Z.mod_small. lia. }
  assert (Hp : sg_pos 1 a i = i).
  { unfold sg_pos. rewrite He. fold n. destruct (Z.ltb_spec (Z.of_nat i) n); lia. }
  rewrite <- Hp at 1. rewrite sigma_nth by auto.
  unfold sg_val. rewrite He. fold n. destruct (Z.ltb_spec (Z.of_nat i) n); [reflexivity|lia].
Qed.

(* sigma only depends on g mod 2n *)
Lemma sigma_mod w g a : sigma w (g mod (2 * Z.of_nat (length a))) a = sigma w g a.
Proof.
  destruct (Nat.eq_dec (length a) 0) as [H0|H0].
  { destruct a; [|discriminate]. reflexivity. }
  unfold sigma. cbv zeta. apply fold_left_ext_in. intros r j _.
  rewrite Z.mul_mod_idemp_r by lia. reflexivity.
Qed.

Lemma sigma_congr w g h a :
  g mod (2 * Z.of_nat (length a)) = h mod (2 * Z.of_nat (length a)) -> sigma w g a = sigma w h a.
Proof. intros H. rewrite <- (sigma_mod w g), <- (sigma_mod w h), H. reflexivity. Qed.

(* g * h = 1 mod 2n: sigma_h undoes sigma_g *)
Theorem sigma_inverse_gcd w g h a :
  1 <= w -> Z.gcd g (2 * Z.of_nat (length a)) = 1 ->
  (g * h) mod (2 * Z.of_nat (length a)) = 1 ->
  Forall (in_range w) a ->
  sigma w h (sigma w g a) = a.
Proof.
  intros Hw Hg Hinv Hr.
  destruct (Nat.eq_dec (length a) 0) as [H0|H0].
  { destruct a; [|discriminate]. reflexivity. }
  set (n := Z.of_nat (length a)) in *. assert (Hn : 0 < n) by (unfold n; lia).
  assert (Hh : Z.gcd h (2 * n) = 1).
  { apply Zgcd_1_rel_prime. apply bezout_rel_prime.
    pose proof (Z.div_mod (g * h) (2 * n) ltac:(lia)) as Hd. rewrite Hinv in Hd.
    apply (Bezout_intro h (2 * n) 1 g (- ((g * h) / (2 * n)))). lia. }
  rewrite sigma_compose_gcd by auto.
  rewrite (sigma_congr w (h * g) 1 a).
  - apply sigma_1.
  - fold n. rewrite (Z.mul_comm h g), Hinv. symmetry. apply Z.mod_small. lia.
Qed.

(* ---------- the power-of-two forms used by the library (n = 2^m, g odd) ---------- *)
Theorem automorphism_is_sigma w g m r0 a :
  0 <= m -> Z.of_nat (length a) = 2 ^ m -> Z.odd g = true -> length r0 = length a ->
  znx_automorphism_onto w g r0 a = sigma w g a.
Proof.
  intros Hm Hn Ho Hl. apply automorphism_is_sigma_gcd; auto.
  apply gcd2n_gcdn. rewrite Hn. apply odd_pow2_coprime; auto.
Qed.

Theorem sigma_characterisation w g m a j :
  1 <= w -> 0 <= m -> Z.of_nat (length a) = 2 ^ m -> Z.odd g = true ->
  Forall (in_range w) a -> (j < length a)%nat ->
  ext w (sigma w g a) (Z.of_nat j * g) = nthZ a j.
Proof.
  intros Hw Hm Hn Ho Hr Hj. apply ext_sigma_small; auto.
  apply gcd2n_gcdn. rewrite Hn. apply odd_pow2_coprime; auto.
Qed.

Theorem sigma_compose w g h m a :
  1 <= w -> 0 <= m -> Z.of_nat (length a) = 2 ^ m -> Z.odd g = true -> Z.odd h = true ->
  Forall (in_range w) a ->
  sigma w g (sigma w h a) = sigma w (g * h) a.
Proof.
  intros Hw Hm Hn Hg Hh Hr. apply sigma_compose_gcd; auto; rewrite Hn; apply odd_pow2_coprime; auto.
Qed.

Theorem sigma_inverse w g h m a :
  1 <= w -> 0 <= m -> Z.of_nat (length a) = 2 ^ m -> Z.odd g = true ->
  (g * h) mod (2 * 2 ^ m) = 1 -> Forall (in_range w) a ->
  sigma w h (sigma w g a) = a.
Proof.
  intros Hw Hm Hn Hg Hinv Hr. apply sigma_inverse_gcd; auto; rewrite Hn; auto.
  apply odd_pow2_coprime; auto.
Qed.
