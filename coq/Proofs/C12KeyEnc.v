(* C12 - encryption of gadget ciphertexts (GGLWE, GGSW) and of the evaluation keys built on them: the declared size suffices on
   ring degrees that are multiples of 8.  Every statement mentions the GENERATED formulas. *)
From PV Require Import Base.MachineInt Model.C12Scratch Gen.C12TmpBytes_gen Model.C12Trees
  Proofs.C12Arena Proofs.C12Hal Proofs.C12Core Proofs.C12KeySwitch Proofs.C12More Proofs.C12Conv.
Open Scope Z_scope.

Lemma pairs_facts (r : Z) : 0 <= r -> 1 <= GLWESecretTensor_pairs r /\ GLWESecretTensor_pairs r <= GLWESecretTensor_pairs (GLWESecretTensor_pairs r).
Proof.
  intros Hr. unfold GLWESecretTensor_pairs. change (2 ^ 1) with 2.
  set (p := Z.max ((r + 1) * r / 2) 1). assert (Hp : 1 <= p) by (unfold p; lia). split; [exact Hp|].
  assert (p <= (p + 1) * p / 2); [|lia].
  apply Z.div_le_lower_bound; [lia|]. nia.
Qed.


Section KeyEnc.
  Variables fam n : Z.
  Hypothesis Hf : is_fam fam.
  Hypothesis Hn0 : 0 <= n.
  Hypothesis Hn8 : n mod 8 = 0.

  (* glwe_encrypt_sk in (aligned, demand) form *)
  Lemma enc_sk_spec (glwe : infos) : 0 <= i_size glwe ->
    aligned_tree (tree_glwe_encrypt_sk fam n glwe) /\
    demand (tree_glwe_encrypt_sk fam n glwe) <= glwe_encrypt_sk_tmp_bytes fam n glwe /\
    0 <= glwe_encrypt_sk_tmp_bytes fam n glwe.
  Proof using Hf Hn0 Hn8.
    intros Hs. destruct (enc_sk_internal_spec fam n Hf Hn0 Hn8 (i_size glwe) (i_rank glwe + 1) false Hs) as [Hal Hd].
    pose proof (al_vec_znx fam n Hf Hn0 Hn8 1 (i_size glwe) ltac:(lia) Hs) as Hvz.
    pose proof (al_dft fam n Hf Hn0 Hn8 1 (i_size glwe) ltac:(lia) Hs) as Hdft.
    pose proof (nn_norm fam n Hf Hn0 Hn8). pose proof (nn_bnorm fam n Hf Hn0 Hn8).
    unfold tree_glwe_encrypt_sk. unfold glwe_encrypt_sk_tmp_bytes in *. cbv zeta in *. split; [|split].
    - cbn [aligned_tree]. split; [lia | exact Hal].
    - cbn [demand persist]. lia.
    - lia.
  Qed.

  Lemma plaintext_bytes_eq (res : infos) : wf_infos res -> i_n res = n ->
    GLWEPlaintext_bytes_of_from_infos res = VecZnx_bytes_of n 1 (i_size res).
  Proof using Hf Hn0 Hn8.
    intros (Hb & Hs & _) Hn. unfold GLWEPlaintext_bytes_of_from_infos, GLWEPlaintext_bytes_of, i_max_k. rewrite Hn. f_equal.
    apply div_ceil_mul; lia.
  Qed.

  Lemma gglwe_encrypt_spec (res : infos) : wf_infos res -> i_n res = n ->
    aligned_tree (tree_gglwe_encrypt_sk fam n res) /\
    demand (tree_gglwe_encrypt_sk fam n res) <= gglwe_encrypt_sk_tmp_bytes fam n res /\
    0 <= gglwe_encrypt_sk_tmp_bytes fam n res.
  Proof using Hf Hn0 Hn8.
    intros Hr Hn. assert (Hs : 0 <= i_size res) by (destruct Hr as (_&?&_); lia).
    destruct (enc_sk_spec res Hs) as (Ae & De & Ne). pose proof (aligned_need_nonneg _ Ae).
    destruct (callee_normalize fam n Hf Hn0 Hn8) as [An Dn]. pose proof (nn_norm fam n Hf Hn0 Hn8).
    pose proof (al_vec_znx fam n Hf Hn0 Hn8 1 (i_size res) ltac:(lia) Hs) as Hvz.
    unfold tree_gglwe_encrypt_sk, gglwe_encrypt_sk_tmp_bytes. cbv zeta. rewrite (plaintext_bytes_eq res Hr Hn). split; [|split].
    - cbn [aligned_tree]. unfold ALIGN. intuition; lia.
    - cbn [demand persist]. rewrite Dn. destruct_loops; lia.
    - lia.
  Qed.

  Lemma suffices_gglwe_encrypt_sk (res : infos) : wf_infos res -> i_n res = n ->
    run_takes (tree_gglwe_encrypt_sk fam n res) (0, gglwe_encrypt_sk_tmp_bytes fam n res) <> None.
  Proof using Hf Hn0 Hn8. intros Hr Hn. destruct (gglwe_encrypt_spec res Hr Hn) as (A & D & _). apply aligned_suffices; auto. Qed.

  Lemma suffices_ggsw_encrypt_sk (res : infos) : wf_infos res -> i_n res = n ->
    run_takes (tree_ggsw_encrypt_sk fam n res) (0, ggsw_encrypt_sk_tmp_bytes fam n res) <> None.
  Proof using Hf Hn0 Hn8.
    intros Hr Hn. assert (Hs : 0 <= i_size res) by (destruct Hr as (_&?&_); lia).
    destruct (enc_sk_internal_spec fam n Hf Hn0 Hn8 (i_size res) (i_rank res + 1) false Hs) as [A0 D0].
    destruct (enc_sk_internal_spec fam n Hf Hn0 Hn8 (i_size res) (i_rank res + 1) true Hs) as [A1 D1].
    pose proof (aligned_need_nonneg _ A0). pose proof (aligned_need_nonneg _ A1).
    destruct (callee_normalize fam n Hf Hn0 Hn8) as [An Dn]. pose proof (nn_norm fam n Hf Hn0 Hn8). pose proof (nn_bnorm fam n Hf Hn0 Hn8).
    pose proof (al_vec_znx fam n Hf Hn0 Hn8 1 (i_size res) ltac:(lia) Hs) as Hvz.
    pose proof (al_dft fam n Hf Hn0 Hn8 1 (i_size res) ltac:(lia) Hs) as Hdft.
    apply aligned_suffices; unfold tree_ggsw_encrypt_sk, ggsw_encrypt_sk_tmp_bytes, glwe_encrypt_sk_tmp_bytes; cbv zeta;
      rewrite (plaintext_bytes_eq res Hr Hn).
    - cbn [aligned_tree]. unfold ALIGN. intuition; lia.
    - cbn [demand persist]. rewrite Dn. destruct_loops; lia.
  Qed.

  (* ---------------------------------------------------------------------------------------------- *)
  (* the evaluation keys: temporaries for the secrets, then gglwe_encrypt_sk *)
  Lemma suffices_glwe_switching_key_encrypt_sk (res : infos) : wf_infos res -> i_n res = n ->
    run_takes (tree_glwe_switching_key_encrypt_sk fam n res) (0, glwe_switching_key_encrypt_sk_tmp_bytes fam n res) <> None.
  Proof using Hf Hn0 Hn8.
    intros Hr Hn. destruct (gglwe_encrypt_spec res Hr Hn) as (A & D & N0). pose proof (aligned_need_nonneg _ A).
    pose proof (al_scalar_znx fam n Hf Hn0 Hn8 (i_rank_in res) ltac:(destruct Hr as (_&_&_&?&_); lia)).
    pose proof (al_scalar_znx fam n Hf Hn0 Hn8 1 ltac:(lia)).
    pose proof (al_svp fam n Hf Hn0 Hn8 (i_rank res) ltac:(destruct Hr as (_&_&?&_); lia)).
    apply aligned_suffices; unfold tree_glwe_switching_key_encrypt_sk, glwe_switching_key_encrypt_sk_tmp_bytes,
      glwe_secret_prepared_bytes_of_from_infos, glwe_secret_prepared_bytes_of; cbv zeta.
    - cbn [aligned_tree]. unfold ALIGN. intuition; lia.
    - cbn [demand persist]. lia.
  Qed.

  Lemma switching_key_spec (res : infos) : wf_infos res -> i_n res = n ->
    aligned_tree (tree_glwe_switching_key_encrypt_sk fam n res) /\
    demand (tree_glwe_switching_key_encrypt_sk fam n res) <= glwe_switching_key_encrypt_sk_tmp_bytes fam n res.
  Proof using Hf Hn0 Hn8.
    intros Hr Hn. destruct (gglwe_encrypt_spec res Hr Hn) as (A & D & N0). pose proof (aligned_need_nonneg _ A).
    pose proof (al_scalar_znx fam n Hf Hn0 Hn8 (i_rank_in res) ltac:(destruct Hr as (_&_&_&?&_); lia)).
    pose proof (al_scalar_znx fam n Hf Hn0 Hn8 1 ltac:(lia)).
    pose proof (al_svp fam n Hf Hn0 Hn8 (i_rank res) ltac:(destruct Hr as (_&_&?&_); lia)).
    unfold tree_glwe_switching_key_encrypt_sk, glwe_switching_key_encrypt_sk_tmp_bytes,
      glwe_secret_prepared_bytes_of_from_infos, glwe_secret_prepared_bytes_of; cbv zeta. split.
    - cbn [aligned_tree]. unfold ALIGN. intuition; lia.
    - cbn [demand persist]. lia.
  Qed.

  Lemma suffices_glwe_automorphism_key_encrypt_sk (res : infos) : wf_infos res -> i_n res = n ->
    run_takes (tree_glwe_automorphism_key_encrypt_sk fam n res) (0, glwe_automorphism_key_encrypt_sk_tmp_bytes fam n res) <> None.
  Proof using Hf Hn0 Hn8.
    intros Hr Hn. destruct (gglwe_encrypt_spec res Hr Hn) as (A & D & N0). pose proof (aligned_need_nonneg _ A).
    pose proof (al_scalar_znx fam n Hf Hn0 Hn8 (i_rank res) ltac:(destruct Hr as (_&_&?&_); lia)).
    pose proof (al_svp fam n Hf Hn0 Hn8 (i_rank res) ltac:(destruct Hr as (_&_&?&_); lia)).
    apply aligned_suffices; unfold tree_glwe_automorphism_key_encrypt_sk, glwe_automorphism_key_encrypt_sk_tmp_bytes,
      glwe_secret_prepared_bytes_of_from_infos, glwe_secret_prepared_bytes_of, GLWESecret_bytes_of_from_infos, GLWESecret_bytes_of;
      cbv zeta; rewrite Hn.
    - cbn [aligned_tree]. unfold ALIGN. intuition; lia.
    - cbn [demand persist]. lia.
  Qed.

  Lemma suffices_lwe_switching_key_encrypt_sk (res : infos) : wf_infos res -> i_n res = n ->
    run_takes (tree_lwe_switching_key_encrypt_sk fam n res) (0, lwe_switching_key_encrypt_sk_tmp_bytes fam n res) <> None.
  Proof using Hf Hn0 Hn8.
    intros Hr Hn. destruct (switching_key_spec res Hr Hn) as (A & D). pose proof (aligned_need_nonneg _ A).
    destruct (callee_automorphism_assign fam n Hf Hn0 Hn8) as [Aa Da]. pose proof (aligned_need_nonneg _ Aa).
    pose proof (al_scalar_znx fam n Hf Hn0 Hn8 1 ltac:(lia)).
    apply aligned_suffices; unfold tree_lwe_switching_key_encrypt_sk, lwe_switching_key_encrypt_sk_tmp_bytes, GLWESecret_bytes_of; cbv zeta.
    - cbn [aligned_tree]. unfold ALIGN. intuition; lia.
    - cbn [demand persist]. rewrite Da in *. lia.
  Qed.

  (* the formula reserves for rank_in secrets, the code takes one (the LWE secret viewed as a rank-1 GLWE secret) *)
  Lemma suffices_glwe_to_lwe_key_encrypt_sk (res : infos) : wf_infos res -> i_n res = n -> 1 <= i_rank_in res ->
    run_takes (tree_glwe_to_lwe_key_encrypt_sk fam n res) (0, glwe_to_lwe_key_encrypt_sk_tmp_bytes fam n res) <> None.
  Proof using Hf Hn0 Hn8.
    intros Hr Hn Hri. destruct (gglwe_encrypt_spec res Hr Hn) as (A & D & N0). pose proof (aligned_need_nonneg _ A).
    destruct (callee_automorphism_assign fam n Hf Hn0 Hn8) as [Aa Da]. pose proof (aligned_need_nonneg _ Aa).
    pose proof (al_scalar_znx fam n Hf Hn0 Hn8 1 ltac:(lia)). pose proof (al_svp fam n Hf Hn0 Hn8 1 ltac:(lia)).
    assert (hal_bytes_of_svp_ppol fam n 1 <= hal_bytes_of_svp_ppol fam n (i_rank_in res)).
    { autounfold with c12gen. unfold size_of_scalar_prep. assert (n * 1 <= n * i_rank_in res) by (apply Z.mul_le_mono_nonneg_l; lia).
      destruct Hf as [-> | ->]; cbn [Z.eqb]; lia. }
    assert (ScalarZnx_bytes_of n 1 <= ScalarZnx_bytes_of n (i_rank_in res)).
    { unfold ScalarZnx_bytes_of. assert (n * 1 <= n * i_rank_in res) by (apply Z.mul_le_mono_nonneg_l; lia). lia. }
    apply aligned_suffices; unfold tree_glwe_to_lwe_key_encrypt_sk, glwe_to_lwe_key_encrypt_sk_tmp_bytes,
      glwe_secret_prepared_bytes_of, GLWESecret_bytes_of; cbv zeta.
    - cbn [aligned_tree]. unfold ALIGN. intuition; lia.
    - cbn [demand persist]. rewrite Da in *. lia.
  Qed.

  Lemma suffices_lwe_to_glwe_key_encrypt_sk (res : infos) : wf_infos res -> i_n res = n -> 1 <= i_rank_in res ->
    run_takes (tree_lwe_to_glwe_key_encrypt_sk fam n res) (0, lwe_to_glwe_key_encrypt_sk_tmp_bytes fam n res) <> None.
  Proof using Hf Hn0 Hn8.
    intros Hr Hn Hri. destruct (gglwe_encrypt_spec res Hr Hn) as (A & D & N0). pose proof (aligned_need_nonneg _ A).
    destruct (callee_automorphism_assign fam n Hf Hn0 Hn8) as [Aa Da]. pose proof (aligned_need_nonneg _ Aa).
    pose proof (al_scalar_znx fam n Hf Hn0 Hn8 1 ltac:(lia)).
    assert (ScalarZnx_bytes_of n 1 <= ScalarZnx_bytes_of n (i_rank_in res)).
    { unfold ScalarZnx_bytes_of. assert (n * 1 <= n * i_rank_in res) by (apply Z.mul_le_mono_nonneg_l; lia). lia. }
    apply aligned_suffices; unfold tree_lwe_to_glwe_key_encrypt_sk, lwe_to_glwe_key_encrypt_sk_tmp_bytes, GLWESecret_bytes_of; cbv zeta.
    - cbn [aligned_tree]. unfold ALIGN. intuition; lia.
    - cbn [demand persist]. rewrite Da in *. lia.
  Qed.

  (* ---------------------------------------------------------------------------------------------- *)
  (* the tensor of the secret and the two keys built on it *)
  Lemma tensor_prepare_spec (rank : Z) : 0 <= rank ->
    aligned_tree (tree_glwe_secret_tensor_prepare fam n rank) /\
    demand (tree_glwe_secret_tensor_prepare fam n rank) <= glwe_secret_tensor_prepare_tmp_bytes fam n rank /\
    0 <= glwe_secret_tensor_prepare_tmp_bytes fam n rank.
  Proof using Hf Hn0 Hn8.
    intros Hr. destruct (callee_big_normalize fam n Hf Hn0 Hn8) as [Ab Db]. pose proof (nn_bnorm fam n Hf Hn0 Hn8).
    pose proof (al_svp fam n Hf Hn0 Hn8 rank Hr). pose proof (al_dft fam n Hf Hn0 Hn8 rank 1 Hr ltac:(lia)).
    pose proof (al_big fam n Hf Hn0 Hn8 1 1 ltac:(lia) ltac:(lia)). pose proof (al_dft fam n Hf Hn0 Hn8 1 1 ltac:(lia) ltac:(lia)).
    unfold tree_glwe_secret_tensor_prepare, glwe_secret_tensor_prepare_tmp_bytes, glwe_secret_prepared_bytes_of. cbv zeta. split; [|split].
    - cbn [aligned_tree]. unfold ALIGN. intuition; lia.
    - cbn [demand persist]. rewrite Db. destruct_loops; lia.
    - lia.
  Qed.

  Lemma scalar_znx_mono (c c' : Z) : c' <= c -> ScalarZnx_bytes_of n c' <= ScalarZnx_bytes_of n c.
  Proof using Hf Hn0 Hn8. intros. unfold ScalarZnx_bytes_of. assert (n * c' <= n * c) by (apply Z.mul_le_mono_nonneg_l; lia). lia. Qed.

  Lemma suffices_glwe_tensor_key_encrypt_sk (res : infos) : wf_infos res -> i_n res = n ->
    run_takes (tree_glwe_tensor_key_encrypt_sk fam n res) (0, glwe_tensor_key_encrypt_sk_tmp_bytes fam n res) <> None.
  Proof using Hf Hn0 Hn8.
    intros Hr Hn. assert (Hrr : 0 <= i_rank res) by (destruct Hr as (_&_&?&_); lia).
    destruct (pairs_facts (i_rank res) Hrr) as [Hp1 Hp2].
    assert (Wt : wf_infos (tensor_key_layout res) /\ i_n (tensor_key_layout res) = n).
    { destruct Hr as (Hb & Hs & Hrk & Hri & Hdn & Hds). split; [|exact Hn].
      unfold wf_infos, tensor_key_layout, mk_gglwe_layout; cbn [i_base2k i_size i_rank i_rank_in i_dnum i_dsize].
      pose proof (div_ceil_nonneg (i_max_k res) (i_base2k res) ltac:(unfold i_max_k; nia) Hb). lia. }
    destruct Wt as [Wt Nt].
    destruct (gglwe_encrypt_spec (tensor_key_layout res) Wt Nt) as (A & D & N0). pose proof (aligned_need_nonneg _ A).
    destruct (tensor_prepare_spec (i_rank res) Hrr) as (Ap & Dp & Np). pose proof (aligned_need_nonneg _ Ap).
    pose proof (al_svp fam n Hf Hn0 Hn8 (i_rank res) Hrr).
    pose proof (al_scalar_znx fam n Hf Hn0 Hn8 (GLWESecretTensor_pairs (i_rank res)) ltac:(lia)).
    pose proof (scalar_znx_mono _ _ Hp2).
    apply aligned_suffices; unfold tree_glwe_tensor_key_encrypt_sk, glwe_tensor_key_encrypt_sk_tmp_bytes, glwe_secret_prepared_bytes_of,
      GLWESecretTensor_bytes_of_from_infos, GLWESecretTensor_bytes_of; cbv zeta; fold (tensor_key_layout res); rewrite Hn.
    - cbn [aligned_tree]. unfold ALIGN. intuition; lia.
    - cbn [demand persist]. lia.
  Qed.

  Lemma suffices_gglwe_to_ggsw_key_encrypt_sk (res : infos) : wf_infos res -> i_n res = n ->
    run_takes (tree_gglwe_to_ggsw_key_encrypt_sk fam n res) (0, gglwe_to_ggsw_key_encrypt_sk_tmp_bytes fam n res) <> None.
  Proof using Hf Hn0 Hn8.
    intros Hr Hn. assert (Hrr : 0 <= i_rank res) by (destruct Hr as (_&_&?&_); lia).
    destruct (pairs_facts (i_rank res) Hrr) as [Hp1 Hp2].
    destruct (gglwe_encrypt_spec res Hr Hn) as (A & D & N0). pose proof (aligned_need_nonneg _ A).
    destruct (tensor_prepare_spec (i_rank res) Hrr) as (Ap & Dp & Np). pose proof (aligned_need_nonneg _ Ap).
    pose proof (al_svp fam n Hf Hn0 Hn8 (i_rank res) Hrr).
    pose proof (al_scalar_znx fam n Hf Hn0 Hn8 (GLWESecretTensor_pairs (i_rank res)) ltac:(lia)).
    pose proof (al_scalar_znx fam n Hf Hn0 Hn8 (i_rank res) Hrr).
    pose proof (scalar_znx_mono _ _ Hp2).
    apply aligned_suffices; unfold tree_gglwe_to_ggsw_key_encrypt_sk, gglwe_to_ggsw_key_encrypt_sk_tmp_bytes, glwe_secret_prepared_bytes_of,
      GLWESecretTensor_bytes_of_from_infos, GLWESecretTensor_bytes_of, GLWESecret_bytes_of; cbv zeta; rewrite Hn.
    - cbn [aligned_tree]. unfold ALIGN. intuition; lia.
    - cbn [demand persist]. destruct_loops; lia.
  Qed.
End KeyEnc.
