(* C10: the SIMD loop skeleton (span = n >> 2 chunks of 4 lanes + scalar tail) computes exactly the map of the
   scalar kernel over the whole slice: nothing skipped, nothing processed twice, for every length. *)
From PV Require Import Base.MachineInt Model.Znx Model.C10AvxLanes.
Open Scope Z_scope.

(* ---------- loop skeleton ---------- *)
Lemma shiftr2_div4 (n : nat) : Nat.shiftr n 2 = (n / 4)%nat.
Proof. rewrite Nat.shiftr_div_pow2. reflexivity. Qed.
Lemma shiftl2_mul4 (n : nat) : Nat.shiftl n 2 = (4 * n)%nat.
Proof. rewrite Nat.shiftl_mul_pow2. change (2 ^ 2)%nat with 4%nat. lia. Qed.

Section Simd.
Context {A B : Type}.

Lemma simd_main_firstn (lane_f scalar_f : A -> B) :
  (forall x, lane_f x = scalar_f x) ->
  forall (span : nat) (l : list A), (4 * span <= length l)%nat ->
  simd_main lane_f span l = map scalar_f (firstn (4 * span) l).
Proof.
  intros Heq. induction span as [|s IH]; intros l Hl.
  - reflexivity.
  - replace (4 * S s)%nat with (S (S (S (S (4 * s))))) in * by lia.
    destruct l as [|a0 [|a1 [|a2 [|a3 r]]]]; cbn [length] in Hl; try lia.
    cbn [simd_main firstn map]. rewrite !Heq. rewrite IH by lia. reflexivity.
Qed.

(* the index set [0,n) is split into 4*[0,span) and the tail, nothing lost, nothing twice *)
Lemma simd_loop_split (l : list A) :
  let n := length l in let span := Nat.shiftr n 2 in
  l = firstn (4 * span) l ++ skipn (Nat.shiftl span 2) l /\
  length (firstn (4 * span) l) = (4 * span)%nat /\
  length (skipn (Nat.shiftl span 2) l) = (n mod 4)%nat /\
  (n mod 4 < 4)%nat /\ (4 * span + n mod 4 = n)%nat.
Proof.
  cbv zeta. rewrite shiftr2_div4, shiftl2_mul4.
  pose proof (Nat.div_mod (length l) 4 ltac:(lia)) as Hdm.
  pose proof (Nat.mod_upper_bound (length l) 4 ltac:(lia)) as Hm.
  set (q := (length l / 4)%nat) in *. set (r := (length l mod 4)%nat) in *.
  repeat split.
  - symmetry; apply firstn_skipn.
  - apply firstn_length_le; lia.
  - rewrite skipn_length. lia.
  - exact Hm.
  - lia.
Qed.

Theorem simd_loop_partition (lane_f scalar_f : A -> B) (l : list A) :
  (forall x, lane_f x = scalar_f x) ->
  simd_map lane_f scalar_f l = map scalar_f l.
Proof.
  intros Heq. unfold simd_map.
  destruct (simd_loop_split l) as (Hsplit & Hlen1 & Hlen2 & Hm & Hsum). cbv zeta in *.
  set (span := Nat.shiftr (length l) 2) in *.
  rewrite (simd_main_firstn lane_f scalar_f Heq) by lia.
  destruct (Nat.eqb_spec (length l mod 4) 0) as [Hz|Hnz].
  - rewrite app_nil_r. rewrite firstn_all2 by lia. reflexivity.
  - rewrite <- map_app. rewrite <- Hsplit. reflexivity.
Qed.

Lemma simd_map_length (lane_f scalar_f : A -> B) (l : list A) :
  (forall x, lane_f x = scalar_f x) -> length (simd_map lane_f scalar_f l) = length l.
Proof. intros Heq. rewrite simd_loop_partition by exact Heq. apply map_length. Qed.
End Simd.
