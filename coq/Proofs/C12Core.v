(* C12 - poulpy-core operations: the declared size suffices (or does not: refutations with the side condition
   under which it does).  Every statement mentions the GENERATED formulas of Gen/C12TmpBytes_gen.v. *)
From PV Require Import Base.MachineInt Model.C12Scratch Gen.C12TmpBytes_gen Model.C12Trees Proofs.C12Arena Proofs.C12Hal.
Open Scope Z_scope.

(* admissible layout descriptions: every field a natural number, base2k and dsize positive *)
Definition wf_infos (i : infos) : Prop :=
  1 <= i_base2k i /\ 0 <= i_size i /\ 0 <= i_rank i /\ 0 <= i_rank_in i /\ 0 <= i_dnum i /\ 1 <= i_dsize i.

Ltac destruct_loops :=
  repeat match goal with
         | |- context [match ?n with O => _ | S _ => _ end] => destruct n
         | H : context [match ?n with O => _ | S _ => _ end] |- _ => destruct n
         end.

Lemma div_ceil_nonneg (a b : Z) : 0 <= a -> 1 <= b -> 0 <= div_ceil a b.
Proof. intros. unfold div_ceil. apply Z.div_pos; lia. Qed.

Lemma div_ceil_mono (a a' b : Z) : a' <= a -> 1 <= b -> div_ceil a' b <= div_ceil a b.
Proof. intros. unfold div_ceil. apply Z.div_le_mono; lia. Qed.

(* ceil(size * b / b) = size *)
Lemma div_ceil_mul (s b : Z) : 1 <= b -> div_ceil (s * b) b = s.
Proof. intros. unfold div_ceil. replace (s * b + b - 1) with (b - 1 + s * b) by lia. rewrite Z.div_add by lia. rewrite Z.div_small; lia. Qed.

Lemma demand_seq_scoped_le (l : list tree) (B : Z) :
  0 <= B -> (forall t, In t l -> demand t <= B) -> demand (seq_scoped l) <= B /\ persist (seq_scoped l) = 0.
Proof.
  intros HB. induction l as [|t l IH]; intros H; cbn [seq_scoped fold_right demand persist]; [lia|].
  destruct IH as [IH1 IH2]; [intros; apply H; right; auto|].
  fold (seq_scoped l). pose proof (H t (or_introl eq_refl)). lia.
Qed.

Lemma aligned_seq_scoped (l : list tree) : (forall t, In t l -> aligned_tree t) -> aligned_tree (seq_scoped l).
Proof.
  induction l as [|t l IH]; intros H; cbn [seq_scoped fold_right aligned_tree]; auto.
  split; [apply H; left; auto | apply IH; intros; apply H; right; auto].
Qed.

Lemma in_zrange (k x : Z) : In x (zrange k) -> 0 <= x < k.
Proof.
  unfold zrange, nat_of. intros H. apply in_map_iff in H. destruct H as (i & <- & Hi). apply in_seq in Hi. lia.
Qed.

(* ================================================================================================ *)
(* operations that loop over single HAL takes on the whole window: true for every n *)
Lemma need_loop_take (b k : Z) (c : nat) : 0 <= k <= b ->
  run_takes (Seq (Need b) (Loop c (Take k))) (0, b) <> None.
Proof.
  intros Hk. apply fail_kind_run_takes. cbn [fail_kind run_tree]. unfold avail; cbn [fst snd]. change (pad_of 0) with 0.
  destruct (Z.leb_spec b (Z.max 0 (b - 0))); [|lia]. destruct c; [reflexivity|].
  unfold take, avail; cbn [fst snd]. change (pad_of 0) with 0. destruct (Z.leb_spec k (Z.max 0 (b - 0))); [reflexivity|lia].
Qed.

Lemma need_scoped_take (b k : Z) : 0 <= k <= b -> run_takes (Seq (Need b) (Scoped (Take k))) (0, b) <> None.
Proof.
  intros Hk. apply fail_kind_run_takes. cbn [fail_kind run_tree]. unfold avail; cbn [fst snd]. change (pad_of 0) with 0.
  destruct (Z.leb_spec b (Z.max 0 (b - 0))); [|lia].
  unfold take, avail; cbn [fst snd]. change (pad_of 0) with 0. destruct (Z.leb_spec k (Z.max 0 (b - 0))); [reflexivity|lia].
Qed.

Section AnyN.
  Variables fam n : Z.
  Hypothesis Hf : is_fam fam.
  Hypothesis Hn : 0 <= n.

  Lemma suffices_gglwe_prepare (key : infos) : run_takes (tree_gglwe_prepare fam n key) (0, gglwe_prepare_tmp_bytes fam n key) <> None.
  Proof using Hf Hn.
    unfold tree_gglwe_prepare, t_vmp_prepare, take_words. autounfold with c12gen. cbv zeta.
    destruct Hf as [-> | ->]; cbn [Z.eqb]; apply need_scoped_take; lia.
  Qed.
  Lemma suffices_ggsw_prepare (g : infos) : run_takes (tree_ggsw_prepare fam n g) (0, ggsw_prepare_tmp_bytes fam n g) <> None.
  Proof using Hf Hn.
    unfold tree_ggsw_prepare, t_vmp_prepare, take_words. autounfold with c12gen. cbv zeta.
    destruct Hf as [-> | ->]; cbn [Z.eqb]; apply need_scoped_take; lia.
  Qed.

  Lemma suffices_glwe_normalize (res : infos) :
    run_takes (tree_glwe_normalize fam n res) (0, glwe_normalize_tmp_bytes fam n) <> None.
  Proof using Hf Hn.
    unfold tree_glwe_normalize, t_glwe_normalize, t_vec_znx_normalize, take_words. apply need_loop_take.
    autounfold with c12gen. lia.
  Qed.
  Lemma suffices_glwe_rsh (res : infos) : run_takes (tree_glwe_rsh fam n res) (0, glwe_shift_tmp_bytes fam n) <> None.
  Proof using Hf Hn. unfold tree_glwe_rsh, t_vec_znx_rsh, take_words. apply need_loop_take. autounfold with c12gen. lia. Qed.
  Lemma suffices_glwe_lsh (res : infos) : run_takes (tree_glwe_lsh fam n res) (0, glwe_shift_tmp_bytes fam n) <> None.
  Proof using Hf Hn. unfold tree_glwe_lsh, t_vec_znx_lsh, take_words. apply need_loop_take. autounfold with c12gen. lia. Qed.
  Lemma suffices_glwe_rotate_assign (res : infos) :
    run_takes (tree_glwe_rotate_assign fam n res) (0, glwe_rotate_tmp_bytes fam n) <> None.
  Proof using Hf Hn. unfold tree_glwe_rotate_assign, t_vec_znx_rotate_assign, take_words. apply need_loop_take. autounfold with c12gen. lia. Qed.

  (* LWE: one-coefficient plaintext (8 * size bytes), then the 64-aligned normalisation scratch; the formula rounds the
     first level up to DEFAULTALIGN (fix 936bfd3; before it the call failed whenever size was not a multiple of 8) *)
  Lemma lwe_tree_ok (b1 sz : Z) : 0 <= sz -> b1 = next_multiple_of (8 * sz) 64 + 24 * n ->
    run_takes (Seq (Need b1) (Seq (Take (8 * sz)) (Scoped (Take (24 * n / 8 * 8))))) (0, b1) <> None.
  Proof using Hf Hn.
    intros Hs ->. unfold next_multiple_of. rewrite <- fail_kind_run_takes. cbn [fail_kind run_tree]. unfold avail; cbn [fst snd]. change (pad_of 0) with 0.
    set (B := (8 * sz + 64 - 1) / 64 * 64 + 24 * n).
    assert (HB : 8 * sz + 24 * n <= B) by (unfold B; lia).
    destruct (Z.leb_spec B (Z.max 0 (B - 0))); [|lia].
    unfold take, avail; cbn [fst snd]. change (pad_of 0) with 0.
    destruct (Z.leb_spec (8 * sz) (Z.max 0 (B - 0))); [|lia].
    cbn [fst snd]. unfold pad_of, ALIGN.
    match goal with |- context [?a <=? ?b] => destruct (Z.leb_spec a b) end; [reflexivity|]. unfold B in *. lia.
  Qed.

  Lemma suffices_lwe_encrypt_sk (lwe : infos) : 0 <= i_size lwe ->
    run_takes (tree_lwe_encrypt_sk fam n lwe) (0, lwe_encrypt_sk_tmp_bytes fam n lwe) <> None.
  Proof using Hf Hn.
    intros Hs. unfold tree_lwe_encrypt_sk, t_vec_znx_normalize, take_words. autounfold with c12gen. cbv zeta. unfold gen_DEFAULTALIGN.
    replace (1 * 1 * i_size lwe * 8) with (8 * i_size lwe) by lia. replace (3 * n * 8) with (24 * n) by lia.
    apply lwe_tree_ok; auto.
  Qed.
  Lemma suffices_lwe_decrypt (lwe : infos) : 0 <= i_size lwe ->
    run_takes (tree_lwe_decrypt fam n lwe) (0, lwe_decrypt_tmp_bytes fam n lwe) <> None.
  Proof using Hf Hn.
    intros Hs. unfold tree_lwe_decrypt, t_vec_znx_normalize, take_words. autounfold with c12gen. cbv zeta. unfold gen_DEFAULTALIGN.
    replace (1 * 1 * i_size lwe * 8) with (8 * i_size lwe) by lia. replace (3 * n * 8) with (24 * n) by lia.
    apply lwe_tree_ok; auto.
  Qed.
End AnyN.

(* ================================================================================================ *)
(* nested operations: ring degrees that are multiples of 8 (every power of two >= 8) *)
Section Aligned.
  Variables fam n : Z.
  Hypothesis Hf : is_fam fam.
  Hypothesis Hn0 : 0 <= n.
  Hypothesis Hn8 : n mod 8 = 0.

  Let c_norm := callee_normalize fam n Hf Hn0 Hn8.
  Let c_bnorm := callee_big_normalize fam n Hf Hn0 Hn8.
  Let nn1 := nn_norm fam n Hf Hn0 Hn8.
  Let nn2 := nn_bnorm fam n Hf Hn0 Hn8.

  (* ---- glwe_encrypt_sk *)
  Lemma enc_sk_internal_spec (size cols : Z) (flag : bool) : 0 <= size ->
    aligned_tree (t_glwe_encrypt_sk_internal fam n size cols flag) /\
    demand (t_glwe_encrypt_sk_internal fam n size cols flag) <=
      VecZnx_bytes_of n 1 size +
      Z.max (VecZnx_bytes_of n 1 size + hal_bytes_of_vec_znx_dft fam n 1 size +
               Z.max (if flag then hal_vec_znx_normalize_tmp_bytes fam n else 0) (hal_vec_znx_big_normalize_tmp_bytes fam n))
            (hal_vec_znx_normalize_tmp_bytes fam n).
  Proof.
    intros Hs. unfold t_glwe_encrypt_sk_internal.
    pose proof (al_vec_znx fam n Hf Hn0 Hn8 1 size ltac:(lia) Hs) as Hvz.
    pose proof (al_dft fam n Hf Hn0 Hn8 1 size ltac:(lia) Hs) as Hdft.
    destruct c_norm as [An Dn]. destruct c_bnorm as [Ab Db]. pose proof nn1. pose proof nn2.
    split.
    - cbn [aligned_tree]. unfold ALIGN. destruct flag; cbn [aligned_tree]; intuition.
    - cbn [demand persist]. destruct flag; cbn [demand persist]; rewrite ?Dn, ?Db; destruct_loops; lia.
  Qed.

  Lemma suffices_glwe_encrypt_sk (glwe : infos) : 0 <= i_size glwe ->
    run_takes (tree_glwe_encrypt_sk fam n glwe) (0, glwe_encrypt_sk_tmp_bytes fam n glwe) <> None.
  Proof.
    intros Hs. destruct (enc_sk_internal_spec (i_size glwe) (i_rank glwe + 1) false Hs) as [Hal Hd].
    pose proof (al_vec_znx fam n Hf Hn0 Hn8 1 (i_size glwe) ltac:(lia) Hs) as Hvz.
    pose proof (al_dft fam n Hf Hn0 Hn8 1 (i_size glwe) ltac:(lia) Hs) as Hdft.
    destruct c_norm as [An Dn]. destruct c_bnorm as [Ab Db].
    assert (0 <= hal_vec_znx_normalize_tmp_bytes fam n) by (autounfold with c12gen; lia).
    assert (0 <= hal_vec_znx_big_normalize_tmp_bytes fam n) by (autounfold with c12gen; destruct Hf as [-> | ->]; cbn [Z.eqb]; lia).
    apply aligned_suffices.
    - unfold tree_glwe_encrypt_sk. cbn [aligned_tree]. split; [|exact Hal]. unfold glwe_encrypt_sk_tmp_bytes. cbv zeta. lia.
    - unfold tree_glwe_encrypt_sk. cbn [demand persist]. unfold glwe_encrypt_sk_tmp_bytes in *. cbv zeta in *. lia.
  Qed.

  (* ---- glwe_decrypt *)
  Lemma suffices_glwe_decrypt (glwe : infos) : 0 <= i_size glwe -> 0 <= i_rank glwe ->
    run_takes (tree_glwe_decrypt fam n glwe) (0, glwe_decrypt_tmp_bytes fam n glwe) <> None.
  Proof using Hf Hn0 Hn8.
    intros Hs Hr.
    pose proof (al_big fam n Hf Hn0 Hn8 1 (i_size glwe) ltac:(lia) Hs) as Hbig.
    pose proof (al_dft fam n Hf Hn0 Hn8 1 (i_size glwe) ltac:(lia) Hs) as Hdft.
    destruct c_bnorm as [Ab Db]. pose proof nn2.
    apply aligned_suffices; unfold tree_glwe_decrypt, glwe_decrypt_tmp_bytes; cbv zeta.
    - cbn [aligned_tree]. unfold ALIGN. intuition; lia.
    - cbn [demand persist]. rewrite Db. destruct_loops; lia.
  Qed.

  (* ---- glwe_encrypt_pk (pk of the same size as the ciphertext) *)
  Lemma suffices_glwe_encrypt_pk (res : infos) : 0 <= i_size res -> 0 <= i_rank res ->
    run_takes (tree_glwe_encrypt_pk fam n res (i_size res)) (0, glwe_encrypt_pk_tmp_bytes fam n res) <> None.
  Proof using Hf Hn0 Hn8.
    intros Hs Hr.
    pose proof (al_big fam n Hf Hn0 Hn8 1 (i_size res) ltac:(lia) Hs) as Hbig.
    pose proof (al_dft fam n Hf Hn0 Hn8 1 (i_size res) ltac:(lia) Hs) as Hdft.
    pose proof (al_svp fam n Hf Hn0 Hn8 1 ltac:(lia)) as Hsvp.
    pose proof (al_scalar_znx fam n Hf Hn0 Hn8 1 ltac:(lia)) as Hsz.
    destruct c_bnorm as [Ab Db]. pose proof nn2.
    apply aligned_suffices; unfold tree_glwe_encrypt_pk, glwe_encrypt_pk_tmp_bytes; cbv zeta.
    - cbn [aligned_tree]. unfold ALIGN. intuition; lia.
    - cbn [demand persist]. rewrite Db. destruct_loops; lia.
  Qed.
End Aligned.

(* ---- refutations (witnesses replayed on the implementation by the harness) *)
(* below 8 the containers themselves are not multiples of 64 bytes *)
Lemma suffices_glwe_encrypt_sk_small_n_refuted :
  exists fam n glwe, is_fam fam /\ pow2 n /\ 1 <= i_size glwe /\ 1 <= i_rank glwe /\
    run_takes (tree_glwe_encrypt_sk fam n glwe) (0, glwe_encrypt_sk_tmp_bytes fam n glwe) = None.
Proof.
  exists 0, 2, (mkInfos 2 17 1 1 1 0 1).
  split; [left; reflexivity|]. split; [exists 1; split; [lia|reflexivity]|]. split; [cbn; lia|]. split; [cbn; lia|].
  vm_compute; reflexivity.
Qed.
