(* C08, cross-radix normalisation, offset >= 0: arithmetic helpers for the entry invariant of the outer iterations. *)
From PV Require Import Base.MachineInt Model.Znx Model.Limbs Model.C08Oracle
  Proofs.ZnxDigit Proofs.C08Steps Proofs.C08Chain Proofs.C08Loops Proofs.C08Value Proofs.C08Normalize
  Proofs.C08Shift Proofs.C08CrossInner Proofs.C08CrossGeom Proofs.C08CrossOuter.
Open Scope Z_scope.

Lemma rnd_bound (take abw an rho rnd : Z) : 1 <= take < abw -> in_range abw an ->
  an = rho + 2 ^ take * rnd -> 2 * Z.abs rho <= 2 ^ take -> Z.abs rnd <= 2 ^ (abw - take).
Proof.
  intros Ht [A1 A2] E Hr.
  assert (Eab : 2 ^ (abw - 1) = 2 ^ (take - 1) * 2 ^ (abw - take)) by (rewrite <- pow2_add by lia; f_equal; lia).
  pose proof (pow2_split take ltac:(lia)) as Hs. pose proof (pow2_pos (take - 1) ltac:(lia)) as Hp.
  pose proof (pow2_pos (abw - take) ltac:(lia)) as Hq.
  set (T := 2 ^ (take - 1)) in *. set (Q := 2 ^ (abw - take)) in *. set (K := Z.abs rnd).
  destruct (Z_le_gt_dec K Q) as [|Hgt]; auto. exfalso.
  assert (H1 : Z.abs (2 ^ take * rnd) <= Z.abs an + Z.abs rho) by lia.
  rewrite Z.abs_mul, (Z.abs_eq (2 ^ take)) in H1 by lia. fold K in H1.
  assert (H2 : (2 * T) * (Q + 1) <= (2 * T) * K) by (apply Z.mul_le_mono_nonneg_l; lia).
  rewrite Hs in H1. nia.
Qed.

Lemma drop_bound (Pa T Dlow rho : Z) : 0 < Pa -> 2 <= T -> Z.abs Dlow <= Pa - 1 -> 2 * Z.abs rho <= T ->
  Z.abs (Dlow + Pa * rho) <= Pa * T.
Proof.
  intros HP HT HD Hr.
  assert (Z.abs (Pa * rho) = Pa * Z.abs rho) by (rewrite Z.abs_mul, (Z.abs_eq Pa) by lia; reflexivity).
  nia.
Qed.

Lemma small_g (k ab x lsh : Z) : 0 <= k -> 1 <= ab -> 0 <= x -> (k + 1) * ab + x <= lsh -> lsh < ab -> False.
Proof. intros; nia. Qed.

(* The lemmas on the outer iterations (digit_step, next_entry, first_take, first_outer, outer_final, final_value) are
   proved for every word width in Proofs/C08WCrossLoop.v (same names with the suffix W); nothing else used the
   width-64 copies, which were removed to keep this file fast to compile. *)
