(* C09, big-accumulator family (Model/C09Big.v): proofs.
   1. the limb loops of ntt120/vec_znx_big.rs (w = 128), modelled loop by loop, ARE Ring.v's size-rule definitions at
      w = 128 (n_*_eq): the two families share one vector-level semantics;
   2. every operation, at both widths, computes the exact wrapped linear map  wrap_w (ca * x + cb * y)  limb by limb with
      the size rule (missing operand limbs contribute 0, limbs beyond res_size are ignored), automorphisms are sigma_p:
      big_col_exact; lifted to the flat buffers with read-back of the selected column and frame: run_c09_big_exact;
      the oracle accepts the model's output: oracle_accepts_model;
   3. ring laws on big vectors (x - y = x + (-y), a - b = -(b - a), sub_negate_assign = negate after sub_assign,
      negate twice = identity mod 2^w, commutativity, (r + a) - a = r), for any width and for the NTT120 loops;
   4. the two widths: FFT64 words = NTT120 words reduced mod 2^64 (linear operations, any 64-bit operands), and equal
      inside the common domain (words in [-2^61, 2^61)), automorphisms included. *)
From Coq Require Import Znumtheory.
From PV Require Import Base.MachineInt Model.Znx Model.Limbs Model.Flat Model.Ring Model.Poly Model.C09Big
  Proofs.C09Lists Proofs.C09Ring Proofs.C09Sigma Proofs.C09Switch Proofs.C09Size Proofs.C11Frame Proofs.C11Read.
From Coq Require Import Arith PeanoNat List Bool.
Open Scope Z_scope.


(* ---------- the loop combinator ---------- *)
Lemma wr_length lo hi f r : length (wr lo hi f r) = length r.
Proof. unfold wr. rewrite map_length, combine_length, seq_length. apply Nat.min_id. Qed.

Lemma lnth_wr lo hi f r j : (j < length r)%nat ->
  lnth (wr lo hi f r) j = if Nat.leb lo j && Nat.ltb j hi then f j (lnth r j) else lnth r j.
Proof.
  intros Hj. unfold lnth, wr.
  set (g := fun q : nat * list Z => if Nat.leb lo (fst q) && Nat.ltb (fst q) hi then f (fst q) (snd q) else snd q).
  rewrite (nth_indep _ [] (g (O, []))) by (rewrite map_length, combine_length, seq_length, Nat.min_id; exact Hj).
  rewrite map_nth. rewrite combine_nth by apply seq_length.
  rewrite seq_nth by exact Hj. unfold g. cbn [fst snd Nat.add]. reflexivity.
Qed.



Ltac open_wr j Hj :=
  repeat (rewrite lnth_wr by (repeat rewrite wr_length; exact Hj)).

(* decide the comparisons one at a time, closing the impossible branches at once (keeps the case tree linear) *)
Ltac cmp_cases :=
  repeat (match goal with
          | |- context [Nat.leb ?a ?b] => destruct (Nat.leb_spec a b)
          | |- context [Nat.ltb ?a ?b] => destruct (Nat.ltb_spec a b)
          end; try (exfalso; lia));
  cbn [andb]; try reflexivity; try lia.

Ltac loops_eq_build :=
  apply limbs_ext; [repeat rewrite wr_length; rewrite build_length; reflexivity|];
  let j := fresh "j" in let Hj := fresh "Hj" in
  intros j Hj; repeat rewrite wr_length in Hj;
  rewrite lnth_build by exact Hj; open_wr j Hj; cmp_cases.

Theorem n_from_small_eq n a r0 : n_from_small n a r0 = vec_unary n (fun l => l) a r0.
Proof. unfold n_from_small, vec_unary, k_from_small. cbv zeta. loops_eq_build. Qed.

Theorem n_add_into_eq n a b r0 : n_add_into n a b r0 = vec_add 128 n a b r0.
Proof.
  unfold n_add_into, vec_add, k_add. cbv zeta.
  destruct (Nat.leb_spec (length a) (length b)); loops_eq_build.
Qed.


Theorem n_add_assign_eq a r0 : n_add_assign a r0 = vec_add_assign 128 a r0.
Proof. unfold n_add_assign, vec_add_assign, k_add. loops_eq_build. Qed.

Theorem n_add_small_into_eq n a b r0 : n_add_small_into n a b r0 = vec_add 128 n a b r0.
Proof. unfold n_add_small_into, vec_add, k_add, k_from_small. cbv zeta. loops_eq_build. Qed.

Theorem n_sub_eq n a b r0 : n_sub n a b r0 = vec_sub 128 n a b r0.
Proof.
  unfold n_sub, vec_sub, k_sub, k_neg. cbv zeta.
  destruct (Nat.leb_spec (length b) (length a)); loops_eq_build.
Qed.

Theorem n_sub_assign_eq a r0 : n_sub_assign a r0 = vec_sub_assign 128 a r0.
Proof. unfold n_sub_assign, vec_sub_assign, k_sub. loops_eq_build. Qed.

Theorem n_sub_negate_assign_eq a r0 : n_sub_negate_assign a r0 = vec_sub_negate_assign 128 a r0.
Proof. unfold n_sub_negate_assign, vec_sub_negate_assign, k_sub, k_neg. cbv zeta. loops_eq_build. Qed.

Theorem n_sub_small_a_eq n a b r0 : n_sub_small_a n a b r0 = vec_sub 128 n a b r0.
Proof. unfold n_sub_small_a, vec_sub, k_sub, k_neg, k_from_small. cbv zeta. loops_eq_build. Qed.

Theorem n_sub_small_b_eq n a b r0 : n_sub_small_b n a b r0 = vec_sub 128 n a b r0.
Proof. unfold n_sub_small_b, vec_sub, k_sub, k_neg. cbv zeta. loops_eq_build. Qed.

Theorem n_negate_eq n a r0 : n_negate n a r0 = vec_unary n (vneg 128) a r0.
Proof. unfold n_negate, vec_unary, k_neg. cbv zeta. loops_eq_build. Qed.

Lemma wr_all f (r : limbs) : wr 0 (length r) (fun _ l => f l) r = map f r.
Proof.
  apply limbs_ext; [rewrite wr_length, map_length; reflexivity|].
  intros j Hj. rewrite wr_length in Hj. rewrite lnth_wr by exact Hj.
  destruct (Nat.leb_spec 0 j); [|lia]. destruct (Nat.ltb_spec j (length r)); [|lia]. cbn [andb].
  unfold lnth. rewrite (nth_indep (map f r) [] (f [])) by (rewrite map_length; exact Hj).
  rewrite map_nth. reflexivity.
Qed.

Theorem n_negate_assign_eq r0 : n_negate_assign r0 = vec_unary_assign (vneg 128) r0.
Proof. unfold n_negate_assign, vec_unary_assign, k_neg. apply wr_all. Qed.

Theorem n_automorphism_eq n p a r0 : n_automorphism n p a r0 = vec_automorphism 128 n p a r0.
Proof. unfold n_automorphism, vec_automorphism. cbv zeta. loops_eq_build. Qed.

Theorem n_automorphism_assign_map p r0 :
  n_automorphism_assign p r0 = map (fun l => znx_automorphism_onto 128 p l l) r0.
Proof. unfold n_automorphism_assign. apply (wr_all (fun l => znx_automorphism_onto 128 p l l)). Qed.

Theorem n_automorphism_assign_sigma (n : nat) (m p : Z) r0 :
  0 <= m -> Z.of_nat n = 2 ^ m -> Z.odd p = true -> limbs_len n r0 ->
  n_automorphism_assign p r0 = map (sigma 128 p) r0.
Proof.
  intros Hm Hn Ho Hr. rewrite n_automorphism_assign_map.
  apply map_ext_in. intros l Hl.
  destruct (In_nth r0 l [] Hl) as [j [Hj <-]].
  apply (automorphism_is_sigma 128 p m); auto.
  change (nth j r0 []) with (lnth r0 j). rewrite (Hr j Hj). exact Hn.
Qed.


(* ---------- the word-level specification ---------- *)
Lemma lin_spec_length w n rsz ca cb x y : length (lin_spec w n rsz ca cb x y) = rsz.
Proof. unfold lin_spec. apply map_seq_length. Qed.

Lemma lin_spec_limb w n rsz ca cb x y j : (j < rsz)%nat ->
  lnth (lin_spec w n rsz ca cb x y) j = map (fun i => wrap w (ca * oword x j i + cb * oword y j i)) (seq 0 n).
Proof.
  intros Hj. unfold lnth, lin_spec.
  exact (nth_map_seq (fun j => map (fun i => wrap w (ca * oword x j i + cb * oword y j i)) (seq 0 n)) [] rsz j Hj).
Qed.

Lemma lin_intro w n rsz ca cb x y (L : limbs) :
  length L = rsz ->
  (forall j, (j < rsz)%nat -> length (lnth L j) = n /\
     forall i, (i < n)%nat -> nthZ (lnth L j) i = wrap w (ca * oword x j i + cb * oword y j i)) ->
  L = lin_spec w n rsz ca cb x y.
Proof.
  intros Hl H. apply limbs_ext; [rewrite lin_spec_length; exact Hl|].
  intros j Hj. rewrite Hl in Hj. rewrite lin_spec_limb by exact Hj.
  destruct (H j Hj) as [Hn Hw].
  apply nthZ_ext; [rewrite map_seq_length; exact Hn|].
  intros i Hi. rewrite Hn in Hi. rewrite nthZ_map_seq by exact Hi. apply Hw; exact Hi.
Qed.

Lemma oword_lnth x j i : oword x j i = if Nat.ltb j (length x) then nthZ (lnth x j) i else 0.
Proof. reflexivity. Qed.
Lemma oword_nil j i : oword [] j i = 0.
Proof. unfold oword. cbn [length]. destruct (Nat.ltb_spec j 0); [lia|reflexivity]. Qed.

(* one limb *)
Lemma vadd_len w (a b : list Z) n : length a = n -> length b = n -> length (vadd w a b) = n.
Proof. intros Ha Hb. unfold vadd. rewrite map2_length; congruence. Qed.
Lemma vsub_len w (a b : list Z) n : length a = n -> length b = n -> length (vsub w a b) = n.
Proof. intros Ha Hb. unfold vsub. rewrite map2_length; congruence. Qed.
Lemma vneg_len w (a : list Z) n : length a = n -> length (vneg w a) = n.
Proof. intros Ha. unfold vneg. rewrite map_length. exact Ha. Qed.
Lemma nthZ_vadd w (a b : list Z) n i : length a = n -> length b = n -> (i < n)%nat ->
  nthZ (vadd w a b) i = wrap w (nthZ a i + nthZ b i).
Proof. intros Ha Hb Hi. unfold vadd. rewrite nthZ_map2 by (congruence || lia). reflexivity. Qed.
Lemma nthZ_vsub w (a b : list Z) n i : length a = n -> length b = n -> (i < n)%nat ->
  nthZ (vsub w a b) i = wrap w (nthZ a i - nthZ b i).
Proof. intros Ha Hb Hi. unfold vsub. rewrite nthZ_map2 by (congruence || lia). reflexivity. Qed.
Lemma nthZ_vneg w (a : list Z) n i : length a = n -> (i < n)%nat -> nthZ (vneg w a) i = wrap w (- nthZ a i).
Proof. intros Ha Hi. unfold vneg. rewrite nthZ_map by lia. reflexivity. Qed.
Lemma zlimb_len n : length (zlimb n) = n.
Proof. apply zeros_length. Qed.
Lemma nthZ_zlimb n i : nthZ (zlimb n) i = 0.
Proof. apply nthZ_zeros. Qed.
Lemma wrap_0 w : 1 <= w -> wrap w 0 = 0.
Proof. intros Hw. apply wrap_id; auto. apply in_range_0; auto. Qed.

Lemma wf_len w n l j : limbs_wf w n l -> (j < length l)%nat -> length (lnth l j) = n.
Proof. intros H Hj. apply (H j Hj). Qed.
Lemma wf_rng w n l j i : limbs_wf w n l -> (j < length l)%nat -> (i < n)%nat -> in_range w (nthZ (lnth l j) i).
Proof. intros H Hj Hi. destruct (H j Hj) as [Hn Hr]. apply Forall_nthZ; auto. lia. Qed.

Ltac cmp_cases_keep :=
  repeat match goal with
  | |- context [Nat.leb ?a ?b] => destruct (Nat.leb_spec a b)
  | |- context [Nat.ltb ?a ?b] => destruct (Nat.ltb_spec a b)
  end; cbn [andb]; try lia.

(* solve one limb of `op = lin_spec`: j is fixed, the comparisons have been decided *)
Ltac wf_side := first [ eapply wf_len; [eassumption | lia] | apply zlimb_len | lia ].
Ltac limb_len :=
  first [ apply vadd_len; wf_side | apply vsub_len; wf_side | apply vneg_len; wf_side | wf_side ].
Ltac limb_word w n Hw :=
  let i := fresh "i" in let Hi := fresh "Hi" in intros i Hi;
  rewrite ?oword_nil; rewrite ?oword_lnth; cmp_cases_keep;
  first [ rewrite (nthZ_vadd w _ _ n) by first [ wf_side | exact Hi ]
        | rewrite (nthZ_vsub w _ _ n) by first [ wf_side | exact Hi ]
        | rewrite (nthZ_vneg w _ n) by first [ wf_side | exact Hi ]
        | rewrite nthZ_zlimb
        | idtac ];
  first [ f_equal; ring
        | symmetry; match goal with |- wrap _ ?e = 0 => replace e with 0 by ring end; apply wrap_0; exact Hw
        | symmetry; match goal with |- wrap _ ?e = ?x => replace e with x by ring end;
          apply wrap_id; [exact Hw|]; eapply wf_rng; [eassumption | lia | exact Hi] ].
Ltac limb_solve w n Hw := split; [ limb_len | limb_word w n Hw ].

Section Spec.
Variable w : Z.
Variable n : nat.
Hypothesis Hw : 1 <= w.

Ltac start :=
  apply lin_intro; [rewrite build_length; reflexivity|];
  let j := fresh "j" in let Hj := fresh "Hj" in
  intros j Hj; rewrite lnth_build by exact Hj; cmp_cases_keep.

Theorem vec_add_lin a b r0 : limbs_wf w n a -> limbs_wf w n b ->
  vec_add w n a b r0 = lin_spec w n (length r0) 1 1 a b.
Proof.
  intros Ha Hb. unfold vec_add. cbv zeta. start.
  all: limb_solve w n Hw.
Qed.

Theorem vec_sub_lin a b r0 : limbs_wf w n a -> limbs_wf w n b ->
  vec_sub w n a b r0 = lin_spec w n (length r0) 1 (-1) a b.
Proof. intros Ha Hb. unfold vec_sub. cbv zeta. start. all: limb_solve w n Hw. Qed.

Theorem vec_add_assign_lin a r0 : limbs_wf w n a -> limbs_wf w n r0 ->
  vec_add_assign w a r0 = lin_spec w n (length r0) 1 1 r0 a.
Proof. intros Ha Hr. unfold vec_add_assign. start. all: limb_solve w n Hw. Qed.

Theorem vec_sub_assign_lin a r0 : limbs_wf w n a -> limbs_wf w n r0 ->
  vec_sub_assign w a r0 = lin_spec w n (length r0) 1 (-1) r0 a.
Proof. intros Ha Hr. unfold vec_sub_assign. start. all: limb_solve w n Hw. Qed.

Theorem vec_sub_negate_assign_lin a r0 : limbs_wf w n a -> limbs_wf w n r0 ->
  vec_sub_negate_assign w a r0 = lin_spec w n (length r0) 1 (-1) a r0.
Proof. intros Ha Hr. unfold vec_sub_negate_assign. start. all: limb_solve w n Hw. Qed.

Theorem vec_negate_lin a r0 : limbs_wf w n a ->
  vec_unary n (vneg w) a r0 = lin_spec w n (length r0) (-1) 0 a [].
Proof. intros Ha. unfold vec_unary. start. all: limb_solve w n Hw. Qed.

Theorem vec_copy_lin a r0 : limbs_wf w n a ->
  vec_unary n (fun l => l) a r0 = lin_spec w n (length r0) 1 0 a [].
Proof. intros Ha. unfold vec_unary. start. all: limb_solve w n Hw. Qed.

Theorem vec_negate_assign_lin r0 : limbs_wf w n r0 ->
  vec_unary_assign (vneg w) r0 = lin_spec w n (length r0) (-1) 0 r0 [].
Proof.
  intros Hr. unfold vec_unary_assign.
  apply lin_intro; [apply map_length|].
  intros j Hj. unfold lnth. rewrite (nth_indep (map (vneg w) r0) [] (vneg w [])) by (rewrite map_length; exact Hj).
  rewrite map_nth. change (nth j r0 []) with (lnth r0 j). limb_solve w n Hw.
Qed.
End Spec.


Theorem vec_automorphism_olimb w n m p a r0 :
  1 <= w -> 0 <= m -> Z.of_nat n = 2 ^ m -> Z.odd p = true -> limbs_len n a -> limbs_len n r0 ->
  vec_automorphism w n p a r0 = map (fun j => sigma w p (olimb n a j)) (seq 0 (length r0)).
Proof. intros. rewrite (vec_automorphism_size_rule w n m p a r0) by assumption. reflexivity. Qed.

Definition big_codes : list Z :=
  [9101; 9102; 9103; 9104; 9105; 9106; 9107; 9108; 9109; 9110; 9111; 9112; 9113; 9114; 9115; 9116].

(* Galois automorphisms: ring degree a power of two, odd exponent *)
Definition auto_ok (code : Z) (n : nat) (p : Z) : Prop :=
  code = 9115 \/ code = 9116 -> exists m, 0 <= m /\ Z.of_nat n = 2 ^ m /\ Z.odd p = true.

Ltac code_cases Hin tac :=
  cbn [In] in Hin;
  repeat (destruct Hin as [Hc | Hin]; [subst; tac |]);
  try contradiction.

Theorem big_col_exact w code n p fill al bl r0 :
  In code big_codes -> w = 64 \/ w = 128 ->
  ((1 <= big_arity code)%nat -> limbs_wf w n al) -> (big_arity code = 2%nat -> limbs_wf w n bl) ->
  limbs_wf w n r0 -> auto_ok code n p ->
  big_col w code n p fill al bl r0 = big_expect w code n p al bl r0.
Proof.
  intros Hin Hw Ha Hb Hr Hauto. unfold big_codes in Hin.
  assert (Hw1 : 1 <= w) by (destruct Hw; subst; lia).
  destruct Hw as [-> | ->].
  - (* FFT64 family: Ring.v at w = 64 *)
    code_cases Hin ltac:(
      cbv beta iota zeta delta [big_col big_expect Z.eqb Pos.eqb];
      try specialize (Ha ltac:(cbv; lia)); try specialize (Hb ltac:(reflexivity));
      first [ rewrite (vec_copy_lin 64 n) by assumption
            | rewrite (vec_add_lin 64 n) by assumption
            | rewrite (vec_sub_lin 64 n) by assumption
            | rewrite (vec_add_assign_lin 64 n) by assumption
            | rewrite (vec_sub_assign_lin 64 n) by assumption
            | rewrite (vec_sub_negate_assign_lin 64 n) by assumption
            | rewrite (vec_negate_lin 64 n) by assumption
            | rewrite (vec_negate_assign_lin 64 n) by assumption
            | idtac ]; try reflexivity).
    + destruct (Hauto ltac:(left; reflexivity)) as (m & Hm & Hn & Ho).
      rewrite (vec_automorphism_olimb 64 n m) by eauto using limbs_wf_len. reflexivity.
    + destruct (Hauto ltac:(right; reflexivity)) as (m & Hm & Hn & Ho).
      rewrite (vec_automorphism_assign_spec 64 n m) by (eauto using limbs_wf_len, repeat_length). reflexivity.
  - (* NTT120 family: the loops of ntt120/vec_znx_big.rs *)
    code_cases Hin ltac:(
      cbv beta iota zeta delta [big_col big_expect Z.eqb Pos.eqb];
      try specialize (Ha ltac:(cbv; lia)); try specialize (Hb ltac:(reflexivity));
      rewrite ?n_from_small_eq, ?n_add_into_eq, ?n_add_assign_eq, ?n_add_small_into_eq, ?n_sub_eq, ?n_sub_assign_eq,
              ?n_sub_negate_assign_eq, ?n_sub_small_a_eq, ?n_sub_small_b_eq, ?n_negate_eq, ?n_negate_assign_eq,
              ?n_automorphism_eq;
      first [ rewrite (vec_copy_lin 128 n) by assumption
            | rewrite (vec_add_lin 128 n) by assumption
            | rewrite (vec_sub_lin 128 n) by assumption
            | rewrite (vec_add_assign_lin 128 n) by assumption
            | rewrite (vec_sub_assign_lin 128 n) by assumption
            | rewrite (vec_sub_negate_assign_lin 128 n) by assumption
            | rewrite (vec_negate_lin 128 n) by assumption
            | rewrite (vec_negate_assign_lin 128 n) by assumption
            | idtac ]; try reflexivity).
    + destruct (Hauto ltac:(left; reflexivity)) as (m & Hm & Hn & Ho).
      rewrite (vec_automorphism_olimb 128 n m) by eauto using limbs_wf_len. reflexivity.
    + destruct (Hauto ltac:(right; reflexivity)) as (m & Hm & Hn & Ho).
      rewrite (n_automorphism_assign_sigma n m) by eauto using limbs_wf_len. reflexivity.
Qed.


Lemma lin_spec_limbs_len w n rsz ca cb x y : Forall (fun l => length l = n) (lin_spec w n rsz ca cb x y).
Proof.
  unfold lin_spec. apply Forall_forall. intros l Hl. apply in_map_iff in Hl. destruct Hl as [j [<- _]].
  apply map_seq_length.
Qed.

Lemma olimb_length n l j : limbs_len n l -> length (olimb n l j) = n.
Proof.
  intros H. unfold olimb. destruct (Nat.ltb_spec j (length l)) as [Hj|Hj].
  - exact (H j Hj).
  - apply repeat_length.
Qed.

Lemma big_expect_shape w code n p al bl r0 l :
  (code = 9115 -> limbs_len n al) -> limbs_len n r0 ->
  big_expect w code n p al bl r0 = Some l ->
  length l = length r0 /\ Forall (fun x => length x = n) l.
Proof.
  intros Ha Hr H. unfold big_expect in H.
  repeat match type of H with
  | match ?c with _ => _ end = Some _ => destruct c; try discriminate H
  end;
  inversion H; subst l; clear H;
  try (split; [apply lin_spec_length | apply lin_spec_limbs_len]).
  - split; [apply map_seq_length|].
    apply Forall_forall. intros x Hx. apply in_map_iff in Hx. destruct Hx as [j [<- _]].
    rewrite sigma_length. apply olimb_length; exact (Ha eq_refl).
  - split; [apply map_length|].
    apply Forall_forall. intros x Hx. apply in_map_iff in Hx. destruct Hx as [y [<- Hy]].
    rewrite sigma_length. destruct (In_nth r0 y [] Hy) as [j [Hj <-]]. exact (Hr j Hj).
Qed.

Lemma bget_length s d : length (bget s d) = s_size s.
Proof. apply col_limbs_length. Qed.

(* the words of limbs [0,size) of column col: the set left untouched is its complement *)
Definition big_in_col (s : shape) (idx : nat) : bool := in_col (s_n s) (s_cols s) (s_size s) (s_col s) idx.

Theorem run_c09_big_exact code ps vs outs :
  let w := big_w (bp ps 0) in
  let rs := bshp ps 0 in let sa := bshp ps 1 in let sb := bshp ps 2 in
  let res := bv vs 0 in let al := bget sa (bv vs 1) in let bl := bget sb (bv vs 2) in
  In code big_codes -> (0 < s_n rs)%nat ->
  ((1 <= big_arity code)%nat -> limbs_wf w (s_n rs) al) -> (big_arity code = 2%nat -> limbs_wf w (s_n rs) bl) ->
  limbs_wf w (s_n rs) (bget rs res) -> auto_ok code (s_n rs) (bex ps 1) ->
  run_c09_big code ps vs = Some outs ->
  exists l res',
    outs = [res'] /\
    (* exact ring map with the size rule, on every limb of the selected column *)
    big_expect w code (s_n rs) (bex ps 1) al bl (bget rs res) = Some l /\ bget rs res' = l /\
    (* frame *)
    length res' = length res /\
    forall idx d, big_in_col rs idx = false -> nth idx res' d = nth idx res d.
Proof.
  intros w rs sa sb res al bl Hin Hn Ha Hb Hr Hauto H.
  unfold run_c09_big in H. fold w rs sa sb res in H. cbv zeta in H.
  destruct (shape_ok rs res) eqn:Hs; [|discriminate H]. cbn [andb] in H.
  destruct (_ && _); [|discriminate H].
  fold al bl in H.
  assert (Hw : w = 64 \/ w = 128) by (unfold w, big_w; destruct (3 <=? bp ps 0); auto).
  rewrite (big_col_exact w code (s_n rs) (bex ps 1) (bex ps 2) al bl (bget rs res) Hin Hw Ha Hb Hr Hauto) in H.
  destruct (big_expect w code (s_n rs) (bex ps 1) al bl (bget rs res)) as [l|] eqn:El; [|discriminate H].
  inversion H; subst outs; clear H.
  assert (Hal : code = 9115 -> limbs_len (s_n rs) al)
    by (intros ->; apply (limbs_wf_len w); apply Ha; cbv; lia).
  destruct (big_expect_shape _ _ _ _ _ _ _ _ Hal (limbs_wf_len _ _ _ Hr) El) as [Hl Hf].
  rewrite bget_length in Hl.
  destruct (shape_ok_facts rs res Hs) as (Hc & Hsz & Hlen).
  assert (Hfit : (s_n rs * s_cols rs * s_size rs <= length res)%nat)
    by (rewrite Hlen; apply Nat.mul_le_mono_l; exact Hsz).
  exists l, (bput rs res l). split; [reflexivity|]. split; [reflexivity|]. split.
  - unfold bget, bput. apply write_col_read; assumption.
  - unfold bput, big_in_col. apply write_col_frame; try assumption. lia.
Qed.


(* ---------- word arithmetic modulo 2^w ---------- *)
Lemma wrap_neg_wrap w z : 1 <= w -> wrap w (- wrap w z) = wrap w (- z).
Proof.
  intros Hw. destruct (wrap_exists w z Hw) as [q Hq]. rewrite Hq.
  apply wrap_eq_mod; auto.
  replace (- (z - q * 2 ^ w)) with (- z + q * 2 ^ w) by ring.
  apply Z_mod_plus_full.
Qed.

Lemma wneg_involutive w x : 1 <= w -> in_range w x -> wneg w (wneg w x) = x.
Proof.
  intros Hw Hx. unfold wneg. rewrite wrap_neg_wrap by auto.
  replace (- - x) with x by ring. apply wrap_id; auto.
Qed.

Lemma wsub_as_wadd_wneg w x y : 1 <= w -> wsub w x y = wadd w x (wneg w y).
Proof. intros Hw. unfold wsub, wadd, wneg. rewrite wrap_wrap_add_r by auto. f_equal; ring. Qed.

Lemma wsub_antisym w x y : 1 <= w -> wsub w x y = wneg w (wsub w y x).
Proof. intros Hw. unfold wsub, wneg. rewrite wrap_neg_wrap by auto. f_equal; ring. Qed.

Lemma wadd_comm w x y : wadd w x y = wadd w y x.
Proof. unfold wadd. f_equal; ring. Qed.

Lemma wadd_wsub_cancel w r a : 1 <= w -> in_range w r -> wsub w (wadd w r a) a = r.
Proof.
  intros Hw Hr. unfold wsub, wadd.
  replace (wrap w (r + a) - a) with (wrap w (r + a) + (- a)) by ring.
  rewrite wrap_wrap_add_l by auto. replace (r + a + - a) with r by ring. apply wrap_id; auto.
Qed.

(* ---------- one limb (no length hypothesis: map2 truncates both sides alike) ---------- *)
Lemma vsub_as_vadd_vneg w (a b : list Z) : 1 <= w -> vsub w a b = vadd w a (vneg w b).
Proof.
  intros Hw. unfold vsub, vadd, vneg, map2. revert b.
  induction a as [|x a IH]; intros [|y b]; cbn [combine map fst snd]; try reflexivity.
  rewrite IH. f_equal. apply wsub_as_wadd_wneg; auto.
Qed.

Lemma vsub_antisym w (a b : list Z) : 1 <= w -> vsub w a b = vneg w (vsub w b a).
Proof.
  intros Hw. unfold vsub, vneg, map2. revert b.
  induction a as [|x a IH]; intros [|y b]; cbn [combine map fst snd]; try reflexivity.
  rewrite IH. f_equal. apply wsub_antisym; auto.
Qed.

Lemma vadd_comm w (a b : list Z) : vadd w a b = vadd w b a.
Proof.
  unfold vadd, map2. revert b.
  induction a as [|x a IH]; intros [|y b]; cbn [combine map fst snd]; try reflexivity.
  rewrite IH. f_equal. apply wadd_comm.
Qed.

Lemma vneg_involutive w (a : list Z) : 1 <= w -> Forall (in_range w) a -> vneg w (vneg w a) = a.
Proof.
  intros Hw H. unfold vneg. induction H as [|x a Hx _ IH]; cbn [map]; [reflexivity|].
  rewrite IH. f_equal. apply wneg_involutive; auto.
Qed.

Lemma vadd_vsub_cancel w (r a : list Z) : 1 <= w -> length r = length a -> Forall (in_range w) r ->
  vsub w (vadd w r a) a = r.
Proof.
  intros Hw Hl H. unfold vsub, vadd, map2. revert a Hl.
  induction H as [|x r Hx _ IH]; intros [|y a] Hl; cbn [combine map fst snd]; try reflexivity; try discriminate.
  rewrite IH by (cbn [length] in Hl; lia). f_equal. apply wadd_wsub_cancel; auto.
Qed.

Lemma lnth_map (f : list Z -> list Z) (l : limbs) j : (j < length l)%nat -> lnth (map f l) j = f (lnth l j).
Proof.
  intros Hj. unfold lnth. rewrite (nth_indep (map f l) [] (f [])) by (rewrite map_length; exact Hj).
  apply map_nth.
Qed.

Ltac law_start :=
  apply limbs_ext; [rewrite ?map_length, ?build_length; reflexivity|];
  let j := fresh "j" in let Hj := fresh "Hj" in
  intros j Hj; rewrite ?map_length, ?build_length in Hj;
  rewrite ?lnth_map by (rewrite ?build_length; exact Hj);
  rewrite ?lnth_build by exact Hj.

Section Laws.
Variable w : Z.
Hypothesis Hw : 1 <= w.

(* x - y = x + (-y) on vectors: sub = add_into of the negated operand *)
Theorem vec_sub_as_add_negate n a b rb r0 : length rb = length b ->
  vec_sub w n a b r0 = vec_add w n a (vec_unary n (vneg w) b rb) r0.
Proof.
  intros Hl. unfold vec_sub, vec_add, vec_unary. rewrite build_length, Hl.
  apply build_ext. intros j Hj. cmp_cases_keep.
  - rewrite lnth_build by lia. destruct (Nat.ltb_spec j (length b)); [|lia]. apply vsub_as_vadd_vneg; auto.
  - rewrite lnth_build by lia. destruct (Nat.ltb_spec j (length b)); [|lia]. reflexivity.
  - reflexivity.
  - rewrite lnth_build by lia. destruct (Nat.ltb_spec j (length b)); [|lia]. apply vsub_as_vadd_vneg; auto.
  - reflexivity.
  - reflexivity.
Qed.

(* a - b = -(b - a): sub_small_b a b = negate (sub_small_a b a), sub a b = negate (sub b a) *)
Theorem vec_sub_antisym n a b r0 : limbs_wf w n a ->
  vec_sub w n a b r0 = map (vneg w) (vec_sub w n b a r0).
Proof.
  intros Ha. unfold vec_sub. law_start. cmp_cases_keep.
  all: try (apply vsub_antisym; exact Hw).
  all: try reflexivity.
  all: try (symmetry; apply vneg_involutive; [exact Hw|]; destruct (Ha j ltac:(lia)) as [_ Hr]; exact Hr).
  all: symmetry; apply vneg_zeros; exact Hw.
Qed.

(* sub_negate_assign = negate_assign after sub_assign *)
Theorem vec_sub_negate_assign_as_negate a r0 :
  vec_sub_negate_assign w a r0 = vec_unary_assign (vneg w) (vec_sub_assign w a r0).
Proof.
  unfold vec_sub_negate_assign, vec_sub_assign, vec_unary_assign. law_start. cmp_cases_keep.
  - apply vsub_antisym; exact Hw.
  - reflexivity.
Qed.

(* negate twice is the identity modulo 2^w *)
Theorem vec_negate_assign_involutive n r0 : limbs_wf w n r0 ->
  vec_unary_assign (vneg w) (vec_unary_assign (vneg w) r0) = r0.
Proof.
  intros Hr. unfold vec_unary_assign. rewrite map_map.
  apply limbs_ext; [apply map_length|]. intros j Hj. rewrite map_length in Hj.
  rewrite (lnth_map (fun x => vneg w (vneg w x))) by exact Hj.
  apply vneg_involutive; [exact Hw|]. apply (Hr j Hj).
Qed.

Theorem vec_add_comm n a b r0 : vec_add w n a b r0 = vec_add w n b a r0.
Proof.
  unfold vec_add. apply build_ext. intros j Hj. cmp_cases_keep; try reflexivity; try apply vadd_comm.
Qed.

(* (res + a) - a = res *)
Theorem vec_add_sub_assign_cancel n a r0 : limbs_len n a -> limbs_wf w n r0 ->
  vec_sub_assign w a (vec_add_assign w a r0) = r0.
Proof.
  intros Ha Hr. unfold vec_sub_assign, vec_add_assign. rewrite build_length.
  apply limbs_ext; [apply build_length|]. intros j Hj. rewrite build_length in Hj.
  rewrite lnth_build by exact Hj. rewrite lnth_build by exact Hj.
  destruct (Nat.ltb_spec j (length a)); [|reflexivity].
  destruct (Hr j Hj) as [Hn Hrg].
  apply vadd_vsub_cancel; auto. rewrite Hn. symmetry. apply (Ha j); assumption.
Qed.
End Laws.

(* ---------- the same laws on the NTT120 loops ---------- *)
Theorem n_sub_as_add_negate n a b rb r0 : length rb = length b ->
  n_sub n a b r0 = n_add_into n a (n_negate n b rb) r0.
Proof. intros. rewrite n_sub_eq, n_add_into_eq, n_negate_eq. apply vec_sub_as_add_negate; [lia|assumption]. Qed.

Theorem n_sub_small_b_as_negate_sub_small_a n a b r0 : limbs_wf 128 n a ->
  n_sub_small_b n a b r0 = n_negate_assign (n_sub_small_a n b a r0).
Proof.
  intros. rewrite n_sub_small_b_eq, n_sub_small_a_eq, n_negate_assign_eq.
  apply vec_sub_antisym; [lia|assumption].
Qed.

Theorem n_sub_antisym n a b r0 : limbs_wf 128 n a ->
  n_sub n a b r0 = n_negate_assign (n_sub n b a r0).
Proof. intros. rewrite !n_sub_eq, n_negate_assign_eq. apply vec_sub_antisym; [lia|assumption]. Qed.

Theorem n_sub_negate_assign_as_negate a r0 :
  n_sub_negate_assign a r0 = n_negate_assign (n_sub_assign a r0).
Proof.
  rewrite n_sub_negate_assign_eq, n_sub_assign_eq, n_negate_assign_eq.
  apply vec_sub_negate_assign_as_negate. lia.
Qed.

Theorem n_negate_assign_involutive n r0 : limbs_wf 128 n r0 -> n_negate_assign (n_negate_assign r0) = r0.
Proof. intros. rewrite !n_negate_assign_eq. apply (vec_negate_assign_involutive 128 ltac:(lia) n). assumption. Qed.

Theorem n_add_into_comm n a b r0 : n_add_into n a b r0 = n_add_into n b a r0.
Proof. rewrite !n_add_into_eq. apply vec_add_comm. Qed.

Theorem n_add_sub_assign_cancel n a r0 : limbs_len n a -> limbs_wf 128 n r0 ->
  n_sub_assign a (n_add_assign a r0) = r0.
Proof. intros. rewrite n_sub_assign_eq, n_add_assign_eq. apply (vec_add_sub_assign_cancel 128 ltac:(lia) n); assumption. Qed.


(* ---------- the two widths ---------- *)
Lemma wrap64_wrap128 z : wrap 64 (wrap 128 z) = wrap 64 z.
Proof.
  destruct (wrap_exists 128 z ltac:(lia)) as [q Hq]. rewrite Hq.
  apply wrap_eq_mod; [lia|].
  replace (z - q * 2 ^ 128) with (z + (- q * 2 ^ 64) * 2 ^ 64) by (change (2 ^ 128) with (2 ^ 64 * 2 ^ 64); ring).
  apply Z_mod_plus_full.
Qed.

(* Z/2^128 -> Z/2^64 is a ring map: the FFT64 result is the NTT120 result reduced modulo 2^64 *)
Theorem lin_spec_reduce n rsz ca cb x y :
  map (map (wrap 64)) (lin_spec 128 n rsz ca cb x y) = lin_spec 64 n rsz ca cb x y.
Proof.
  unfold lin_spec. rewrite map_map. apply map_ext. intros j. rewrite map_map. apply map_ext. intros i.
  apply wrap64_wrap128.
Qed.

(* the common domain of the two families: every word in [-2^61, 2^61) *)
Definition limbs_dom (n : nat) (l : limbs) : Prop := limbs_wf 62 n l.

Lemma in_range_62_64 x : in_range 62 x -> in_range 64 x.
Proof. unfold in_range. change (2 ^ (62 - 1)) with (2 ^ 61). change (2 ^ (64 - 1)) with (2 ^ 63). lia. Qed.
Lemma in_range_62_128 x : in_range 62 x -> in_range 128 x.
Proof. unfold in_range. change (2 ^ (62 - 1)) with (2 ^ 61). change (2 ^ (128 - 1)) with (2 ^ 127). lia. Qed.

Lemma limbs_dom_wf64 n l : limbs_dom n l -> limbs_wf 64 n l.
Proof.
  intros H j Hj. destruct (H j Hj) as [Hn Hr]. split; [exact Hn|].
  eapply Forall_impl; [|exact Hr]. apply in_range_62_64.
Qed.
Lemma limbs_dom_wf128 n l : limbs_dom n l -> limbs_wf 128 n l.
Proof.
  intros H j Hj. destruct (H j Hj) as [Hn Hr]. split; [exact Hn|].
  eapply Forall_impl; [|exact Hr]. apply in_range_62_128.
Qed.

Lemma oword_dom n l j i : limbs_dom n l -> in_range 62 (oword l j i).
Proof.
  intros H. unfold oword. destruct (Nat.ltb_spec j (length l)) as [Hj|Hj].
  - destruct (H j Hj) as [Hn Hr]. change (nth j l []) with (lnth l j).
    destruct (Nat.lt_ge_cases i (length (lnth l j))) as [Hi|Hi].
    + apply Forall_nthZ; assumption.
    + rewrite nthZ_overflow by exact Hi. apply in_range_0; lia.
  - apply in_range_0; lia.
Qed.

Lemma wrap_both x : in_range 64 x -> wrap 128 x = wrap 64 x.
Proof.
  intros H. rewrite (wrap_id 64) by (lia || exact H). apply wrap_id; [lia|].
  revert H. unfold in_range. change (2 ^ (64 - 1)) with (2 ^ 63). change (2 ^ (128 - 1)) with (2 ^ 127). lia.
Qed.

Theorem lin_spec_agree n rsz ca cb x y :
  -1 <= ca <= 1 -> -1 <= cb <= 1 -> limbs_dom n x -> limbs_dom n y ->
  lin_spec 128 n rsz ca cb x y = lin_spec 64 n rsz ca cb x y.
Proof.
  intros Hca Hcb Hx Hy. unfold lin_spec. apply map_ext. intros j. apply map_ext. intros i.
  apply wrap_both.
  pose proof (oword_dom n x j i Hx) as H1. pose proof (oword_dom n y j i Hy) as H2.
  revert H1 H2. unfold in_range. change (2 ^ (62 - 1)) with (2 ^ 61). change (2 ^ (64 - 1)) with (2 ^ 63).
  intros H1 H2.
  assert (Ea : ca = -1 \/ ca = 0 \/ ca = 1) by lia. assert (Eb : cb = -1 \/ cb = 0 \/ cb = 1) by lia.
  destruct Ea as [Ea|[Ea|Ea]]; destruct Eb as [Eb|[Eb|Eb]]; subst ca cb; lia.
Qed.

Lemma limbs_dom_nil n : limbs_dom n [].
Proof. intros j Hj. cbn [length] in Hj. lia. Qed.

Lemma wneg_both x : in_range 62 x -> wneg 128 x = wneg 64 x.
Proof.
  intros H. unfold wneg. apply wrap_both. revert H. unfold in_range.
  change (2 ^ (62 - 1)) with (2 ^ 61). change (2 ^ (64 - 1)) with (2 ^ 63). lia.
Qed.

Lemma sigma_agree p (l : list Z) : Forall (in_range 62) l -> sigma 128 p l = sigma 64 p l.
Proof.
  intros H. unfold sigma. apply fold_left_ext_in. intros r j Hj.
  assert (E : wneg 128 (nthZ l j) = wneg 64 (nthZ l j)).
  { apply in_seq in Hj. apply wneg_both. apply Forall_nthZ; [exact H|lia]. }
  rewrite E. reflexivity.
Qed.

Lemma olimb_dom n l j : limbs_dom n l -> Forall (in_range 62) (olimb n l j).
Proof.
  intros H. unfold olimb. destruct (Nat.ltb_spec j (length l)) as [Hj|Hj].
  - apply (H j Hj).
  - apply Forall_forall. intros x Hx. apply repeat_spec in Hx. subst x. apply in_range_0; lia.
Qed.

Theorem big_expect_agree code n p al bl r0 :
  ((1 <= big_arity code)%nat -> limbs_dom n al) -> (big_arity code = 2%nat -> limbs_dom n bl) -> limbs_dom n r0 ->
  In code big_codes ->
  big_expect 128 code n p al bl r0 = big_expect 64 code n p al bl r0.
Proof.
  intros Ha Hb Hr Hin. unfold big_codes in Hin.
  code_cases Hin ltac:(
    cbv beta iota zeta delta [big_expect];
    try specialize (Ha ltac:(cbv; lia)); try specialize (Hb ltac:(reflexivity));
    try (f_equal; apply lin_spec_agree; auto using limbs_dom_nil; lia)).
  - f_equal. apply map_ext. intros j. apply sigma_agree. apply olimb_dom; assumption.
  - f_equal. apply map_ext_in. intros l Hl. apply sigma_agree.
    destruct (In_nth r0 l [] Hl) as [j [Hj <-]]. apply (Hr j Hj).
Qed.

(* inside the common domain the FFT64 and the NTT120 routines return the same words *)
Theorem big_families_agree code n p fill fill' al bl r0 :
  In code big_codes ->
  ((1 <= big_arity code)%nat -> limbs_dom n al) -> (big_arity code = 2%nat -> limbs_dom n bl) -> limbs_dom n r0 ->
  auto_ok code n p ->
  big_col 128 code n p fill al bl r0 = big_col 64 code n p fill' al bl r0.
Proof.
  intros Hin Ha Hb Hr Hauto.
  rewrite (big_col_exact 128 code n p fill al bl r0) by
    (auto using limbs_dom_wf128; intros; apply limbs_dom_wf128; auto).
  rewrite (big_col_exact 64 code n p fill' al bl r0) by
    (auto using limbs_dom_wf64; intros; apply limbs_dom_wf64; auto).
  apply big_expect_agree; assumption.
Qed.

(* outside it (any 64-bit operands) the FFT64 words are the NTT120 words reduced modulo 2^64, for every operation
   that is a linear map (all but the automorphisms, which only permute and negate) *)
Definition big_lin_codes : list Z :=
  [9101; 9102; 9103; 9104; 9105; 9106; 9107; 9108; 9109; 9110; 9111; 9112; 9113; 9114].

Lemma wf64_wf128 n l : limbs_wf 64 n l -> limbs_wf 128 n l.
Proof.
  intros H j Hj. destruct (H j Hj) as [Hn Hr]. split; [exact Hn|].
  eapply Forall_impl; [|exact Hr]. intros x. unfold in_range.
  change (2 ^ (64 - 1)) with (2 ^ 63). change (2 ^ (128 - 1)) with (2 ^ 127). lia.
Qed.

Theorem big_fft64_is_ntt120_reduced code n p fill fill' al bl r0 :
  In code big_lin_codes ->
  ((1 <= big_arity code)%nat -> limbs_wf 64 n al) -> (big_arity code = 2%nat -> limbs_wf 64 n bl) -> limbs_wf 64 n r0 ->
  option_map (map (map (wrap 64))) (big_col 128 code n p fill al bl r0) = big_col 64 code n p fill' al bl r0.
Proof.
  intros Hin Ha Hb Hr.
  assert (Hin' : In code big_codes) by (unfold big_lin_codes in Hin; unfold big_codes; cbn [In] in *; intuition).
  assert (Hauto : auto_ok code n p).
  { intros [E|E]; subst code; unfold big_lin_codes in Hin; cbn [In] in Hin; exfalso; intuition discriminate. }
  rewrite (big_col_exact 128 code n p fill al bl r0) by
    (auto using wf64_wf128; intros; apply wf64_wf128; auto).
  rewrite (big_col_exact 64 code n p fill' al bl r0) by auto.
  unfold big_lin_codes in Hin.
  code_cases Hin ltac:(cbv beta iota zeta delta [big_expect option_map]; f_equal; apply lin_spec_reduce).
Qed.


(* ---------- the oracle accepts what the model computes ---------- *)
Lemma beq_list_refl a : beq_list a a = true.
Proof.
  unfold beq_list. rewrite Nat.eqb_refl. cbn [andb].
  induction a as [|x a IH]; cbn [combine forallb fst snd]; [reflexivity|].
  rewrite Z.eqb_refl. exact IH.
Qed.

Lemma frame_ok_intro n cols size col : forall (a b : list Z) idx,
  length a = length b ->
  (forall i d, (i < length a)%nat -> in_col n cols size col (idx + i) = false -> nth i a d = nth i b d) ->
  frame_ok n cols size col idx a b = true.
Proof.
  induction a as [|x a IH]; intros [|y b] idx Hl H; cbn [length] in Hl; try discriminate; [reflexivity|].
  cbn [frame_ok]. apply andb_true_intro. split.
  - destruct (Nat.eqb _ col && Nat.ltb _ size) eqn:E; [reflexivity|]. cbn [orb].
    apply Z.eqb_eq. apply (H O 0); [cbn [length]; lia|].
    rewrite Nat.add_0_r. exact E.
  - apply IH; [lia|]. intros i d Hi Hc. apply (H (S i) d); [cbn [length]; lia|].
    rewrite Nat.add_succ_r. exact Hc.
Qed.

Lemma forallb_combine_refl (l : limbs) : forallb (fun q => beq_list (fst q) (snd q)) (combine l l) = true.
Proof. induction l as [|x l IH]; cbn [combine forallb fst snd]; [reflexivity|]. rewrite beq_list_refl. exact IH. Qed.

Theorem oracle_accepts_model code ps vs outs :
  let w := big_w (bp ps 0) in
  let rs := bshp ps 0 in let sa := bshp ps 1 in let sb := bshp ps 2 in
  let res := bv vs 0 in let al := bget sa (bv vs 1) in let bl := bget sb (bv vs 2) in
  In code big_codes -> (0 < s_n rs)%nat ->
  ((1 <= big_arity code)%nat -> limbs_wf w (s_n rs) al) -> (big_arity code = 2%nat -> limbs_wf w (s_n rs) bl) ->
  limbs_wf w (s_n rs) (bget rs res) -> auto_ok code (s_n rs) (bex ps 1) ->
  run_c09_big code ps vs = Some outs ->
  oracle_c09_big code ps vs outs = 1.
Proof.
  intros w rs sa sb res al bl Hin Hn Ha Hb Hr Hauto H.
  destruct (run_c09_big_exact code ps vs outs Hin Hn Ha Hb Hr Hauto H) as (l & res' & -> & El & Eg & Hlen & Hfr).
  unfold oracle_c09_big. cbv zeta. change (bv [res'] 0) with res'.
  unfold w, rs, sa, sb, res, al, bl in El, Eg. rewrite El, Eg.
  rewrite forallb_combine_refl.
  assert (Hl : length l = s_size (bshp ps 0)) by (rewrite <- Eg; apply bget_length).
  rewrite Hl, Nat.eqb_refl.
  rewrite frame_ok_intro; [reflexivity|symmetry; exact Hlen|].
  intros i d Hi Hc. symmetry. apply Hfr. exact Hc.
Qed.
