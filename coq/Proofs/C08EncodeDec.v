(* C08 encoding, level 2: the decoders are the exact Horner value of the limbs wrapped to the word, and the round trip
   encode -> decode returns the balanced representative of the value modulo 2^k. *)
From PV Require Import Base.MachineInt Model.Znx Model.Limbs Model.C08Encode Proofs.ZnxDigit Proofs.C08Steps
  Proofs.C08EncodeSpec Proofs.C08EncodeCoef.
Open Scope Z_scope.

(* x / 2^r rounded to nearest, ties away from zero (r = 0: no division) *)
Definition rdiv (x r : Z) : Z :=
  if r =? 0 then x else
  let q := Z.quot x (2 ^ r) in let m := Z.rem x (2 ^ r) in
  if 2 * Z.abs m >=? 2 ^ r then q + Z.sgn x else q.

(* exact (unbounded) value returned by the decoders at precision k *)
Definition dec_exact (b k : Z) (l : list Z) : Z :=
  let size := enc_size b k in let krem := enc_krem b k in
  e_lval b (firstn (size - 1) l) * 2 ^ (b - krem) + rdiv (nthZ l (size - 1)) krem.

Lemma efold_ext {S T : Type} (f g : S -> T -> S) (l : list T) (s0 : S) :
  (forall s j, In j l -> f s j = g s j) -> fold_left f l s0 = fold_left g l s0.
Proof.
  revert s0; induction l as [|h t IH]; intros s0 Hfg; [reflexivity|].
  cbn [fold_left]. rewrite Hfg by (left; reflexivity). apply IH. intros; apply Hfg; right; auto.
Qed.

Lemma wrap_mul_wrap (w Y c x : Z) : 1 <= w -> wrap w (wrap w Y * c + x) = wrap w (Y * c + x).
Proof.
  intros Hw. destruct (wrap_exists w Y Hw) as [q Hq]. rewrite Hq.
  replace ((Y - q * 2 ^ w) * c + x) with (Y * c + x + 2 ^ w * (- q * c)) by ring.
  apply wrap_add_mul; auto.
Qed.

Lemma firstn_snoc (l : list Z) (m : nat) : (m < length l)%nat -> firstn (S m) l = firstn m l ++ [nthZ l m].
Proof.
  revert m; induction l as [|x t IH]; intros m Hm; [cbn in Hm; lia|].
  destruct m as [|m]; [reflexivity|]. cbn [length] in Hm.
  change (firstn (S (S m)) (x :: t)) with (x :: firstn (S m) t).
  rewrite IH by lia. reflexivity.
Qed.

(* the plain Horner loop of the decoders *)
Lemma horner_fold (w b : Z) (l : list Z) (m : nat) : 1 <= w -> (m < length l)%nat -> in_range w (nthZ l 0) ->
  fold_left (fun y i => wadd w (shl w y b) (nthZ l i)) (seq 1 m) (nthZ l 0) = wrap w (e_lval b (firstn (S m) l)).
Proof.
  intros Hw Hm H0. induction m as [|m IH].
  - cbn [seq fold_left]. destruct l as [|x t]; [cbn in Hm; lia|].
    cbn [firstn]. unfold e_lval. cbn [fold_left nthZ nth]. rewrite Z.mul_0_l, Z.add_0_l.
    symmetry. apply wrap_id; auto.
  - rewrite seq_S, fold_left_app. cbn [fold_left]. rewrite IH by lia.
    replace (1 + m)%nat with (S m) by lia.
    rewrite (firstn_snoc l (S m)) by lia. rewrite lval_app1.
    unfold wadd, shl. rewrite wrap_wrap_add_l by auto. apply wrap_mul_wrap; auto.
Qed.

(* ---------- rounded division by a power of two ---------- *)

Lemma rem_facts (x r : Z) : 0 <= r ->
  x = 2 ^ r * Z.quot x (2 ^ r) + Z.rem x (2 ^ r) /\ Z.abs (Z.rem x (2 ^ r)) < 2 ^ r /\ 0 <= Z.rem x (2 ^ r) * x.
Proof.
  intros Hr. pose proof (pow2_pos r Hr) as Hp.
  split; [apply Z.quot_rem'|]. split.
  - pose proof (Z.rem_bound_abs x (2 ^ r) ltac:(lia)). lia.
  - apply Z.rem_sign_mul. lia.
Qed.

Lemma div_round_pow2 (w x r : Z) : 64 <= w -> 1 <= r <= 62 -> in_range 64 x ->
  e_div_round w x (shl w 1 r) = rdiv x r /\ in_range 64 (rdiv x r).
Proof.
  intros Hw Hr [Hx1 Hx2].
  destruct (rem_facts x r ltac:(lia)) as (Eq & Hm & Hs).
  pose proof (pow2_pos r ltac:(lia)) as Hp.
  assert (H2r : 2 <= 2 ^ r). { replace 2 with (2 ^ 1) at 1 by reflexivity. apply Z.pow_le_mono_r; lia. }
  assert (Hr62 : 2 ^ r <= 2 ^ 62) by (apply Z.pow_le_mono_r; lia).
  assert (H63 : 2 ^ 63 <= 2 ^ (w - 1)) by (apply Z.pow_le_mono_r; lia).
  change (2 ^ (64 - 1)) with (2 ^ 63) in *.
  assert (E63 : 2 ^ 63 = 2 * 2 ^ 62) by reflexivity.
  assert (Es : shl w 1 r = 2 ^ r).
  { unfold shl. rewrite Z.mul_1_l. apply wrap_id; [lia|]. unfold in_range. lia. }
  set (q := Z.quot x (2 ^ r)) in *. set (m := Z.rem x (2 ^ r)) in *.
  assert (Hq : Z.abs q * 2 <= 2 ^ 63) by nia.
  assert (Hrd : in_range 64 (rdiv x r)).
  { unfold rdiv. destruct (Z.eqb_spec r 0); [lia|]. fold q m. cbv zeta.
    unfold in_range. change (2 ^ (64 - 1)) with (2 ^ 63).
    destruct (2 * Z.abs m >=? 2 ^ r); lia. }
  split; [|exact Hrd].
  unfold e_div_round, rdiv. rewrite Es. fold q m. cbv zeta.
  destruct (Z.eqb_spec r 0); [lia|].
  assert (Ea : wabs w m = Z.abs m).
  { unfold wabs. apply wrap_id; [lia|]. unfold in_range. lia. }
  assert (Eb : wabs w (2 ^ r) = 2 ^ r).
  { unfold wabs. rewrite Z.abs_eq by lia. apply wrap_id; [lia|]. unfold in_range. lia. }
  assert (Em : wmul w 2 (Z.abs m) = 2 * Z.abs m).
  { unfold wmul. apply wrap_id; [lia|]. unfold in_range. lia. }
  rewrite Ea, Eb, Em.
  destruct (2 * Z.abs m >=? 2 ^ r); [|reflexivity].
  assert (Esg : Z.sgn (2 ^ r) = 1) by (apply Z.sgn_pos; lia).
  rewrite Esg. unfold wmul, wadd. rewrite Z.mul_1_r.
  assert (Hsg : -1 <= Z.sgn x <= 1) by (destruct x; cbn; lia).
  rewrite (wrap_id w (Z.sgn x)) by (try lia; unfold in_range; lia).
  apply wrap_id; [lia|]. unfold in_range. lia.
Qed.

Lemma rdiv_exact (d r : Z) : 0 <= r -> rdiv (d * 2 ^ r) r = d.
Proof.
  intros Hr. unfold rdiv. destruct (Z.eqb_spec r 0) as [E|E].
  - subst r. rewrite Z.pow_0_r. lia.
  - pose proof (pow2_pos r Hr) as Hp. cbv zeta.
    rewrite Z.quot_mul, Z.rem_mul by lia. cbn [Z.abs]. rewrite Z.mul_0_r.
    destruct (Z.geb_spec 0 (2 ^ r)); [lia|reflexivity].
Qed.

Lemma rdiv_0 (x : Z) : rdiv x 0 = x.
Proof. reflexivity. Qed.

(* ---------- the decoders ---------- *)

Section D.
Variables w b : Z.
Hypothesis Hw : 64 <= w.
Hypothesis Hb : 1 <= b <= 62.

Lemma in_range_64_w (x : Z) : in_range 64 x -> in_range w x.
Proof. apply in_range_weaken. lia. Qed.

(* decode_vec_i64 (w = 64) / decode_vec_i128 (w = 128): exact value, wrapped *)
Theorem dec_vec_spec (k : Z) (l : list Z) : 1 <= k -> (enc_size b k <= length l)%nat ->
  Forall (in_range 64) l -> dec_vec w b k l = wrap w (dec_exact b k l).
Proof.
  intros Hk Hlen Hl.
  destruct (enc_params b k ltac:(lia) Hk) as (Esz & Hr & Hs1).
  assert (Hnth : forall i, in_range 64 (nthZ l i)).
  { intros i. unfold nthZ. destruct (Nat.lt_ge_cases i (length l)) as [Hi|Hi].
    - rewrite Forall_forall in Hl. apply Hl. apply nth_In. exact Hi.
    - rewrite nth_overflow by exact Hi. unfold in_range. cbn. lia. }
  unfold dec_vec, dec_exact. cbv zeta.
  set (size := enc_size b k) in *. set (krem := enc_krem b k) in *.
  pose proof (Z.mod_pos_bound k b ltac:(lia)) as Hmb.
  assert (Ekrem : krem = (b - k mod b) mod b) by reflexivity.
  destruct (Z.ltb_spec k b) as [Hlt|Hge].
  - (* a single partial limb *)
    assert (Ekm : k mod b = k) by (apply Z.mod_small; lia).
    rewrite Ekm in *.
    assert (Ek : krem = b - k) by (rewrite Ekrem; apply Z.mod_small; lia).
    assert (Es : size = 1%nat) by nia.
    rewrite Es. cbn [Nat.sub firstn]. unfold e_lval at 1. cbn [fold_left]. rewrite Z.mul_0_l, Z.add_0_l.
    destruct (div_round_pow2 w (nthZ l 0) (b - k) Hw ltac:(lia) (Hnth 0%nat)) as [E Hrg].
    rewrite E, Ek. symmetry. apply wrap_id; [lia|]. apply in_range_64_w. exact Hrg.
  - destruct (Z.eq_dec (k mod b) 0) as [E0|E0].
    + (* whole limbs only *)
      assert (Ek : krem = 0) by (rewrite Ekrem, E0, Z.sub_0_r; apply Z.mod_same; lia).
      rewrite Ek, Z.sub_0_r, rdiv_0.
      rewrite (efold_ext _ (fun y i => wadd w (shl w y b) (nthZ l i))).
      * rewrite horner_fold; [|lia|lia|apply in_range_64_w; apply Hnth].
        replace (S (size - 1)) with size by lia.
        replace size with (S (size - 1)) at 1 by lia.
        rewrite firstn_snoc by lia. rewrite lval_app1. reflexivity.
      * intros y i _. unfold dec_step. rewrite E0, Z.sub_0_r, Z.eqb_refl. cbn [negb].
        rewrite andb_false_r. reflexivity.
    + (* the last limb is partial *)
      assert (Ek : krem = b - k mod b) by (rewrite Ekrem; apply Z.mod_small; lia).
      assert (Hs2 : (2 <= size)%nat) by nia.
      replace (size - 1)%nat with (S (size - 2)) at 1 by lia.
      rewrite seq_S, fold_left_app. cbn [fold_left].
      rewrite (efold_ext _ (fun y i => wadd w (shl w y b) (nthZ l i))).
      * rewrite horner_fold; [|lia|lia|apply in_range_64_w; apply Hnth].
        replace (1 + (size - 2))%nat with (size - 1)%nat by lia.
        replace (S (size - 2)) with (size - 1)%nat by lia.
        unfold dec_step. rewrite Nat.eqb_refl.
        destruct (Z.eqb_spec (b - k mod b) b) as [Ebad|_]; [lia|]. cbn [negb andb].
        replace ((b - (b - k mod b)) mod b) with (k mod b) by (symmetry; rewrite Z.mod_small; lia).
        destruct (div_round_pow2 w (nthZ l (size - 1)) (b - k mod b) Hw ltac:(lia) (Hnth (size - 1)%nat)) as [E Hrg].
        rewrite E, Ek. replace (b - (b - k mod b)) with (k mod b) by lia.
        unfold wadd, shl. rewrite wrap_wrap_add_l by lia. apply wrap_mul_wrap. lia.
      * intros y i Hi. apply in_seq in Hi. unfold dec_step.
        destruct (Nat.eqb_spec i (size - 1)) as [Ebad|_]; [lia|]. reflexivity.
Qed.

End D.

(* decode_coeff_i64 computes the same as decode_vec_i64 *)
Theorem dec_coeff_vec (b k : Z) (l : list Z) : 1 <= b <= 62 -> 1 <= k -> (enc_size b k <= length l)%nat ->
  Forall (in_range 64) l -> dec_coeff_i64 b k l = dec_vec 64 b k l.
Proof.
  intros Hb Hk Hlen Hl.
  destruct (enc_params b k ltac:(lia) Hk) as (Esz & Hr & Hs1).
  assert (Hnth : forall i, in_range 64 (nthZ l i)).
  { intros i. unfold nthZ. destruct (Nat.lt_ge_cases i (length l)) as [Hi|Hi].
    - rewrite Forall_forall in Hl. apply Hl. apply nth_In. exact Hi.
    - rewrite nth_overflow by exact Hi. unfold in_range. cbn. lia. }
  unfold dec_coeff_i64, dec_vec. cbv zeta.
  set (size := enc_size b k) in *.
  pose proof (Z.mod_pos_bound k b ltac:(lia)) as Hmb.
  replace size with (S (size - 1)) at 1 by lia.
  cbn [seq fold_left].
  destruct (Z.ltb_spec k b) as [Hlt|Hge].
  - assert (Es : size = 1%nat) by nia.
    rewrite Es. cbn [Nat.sub seq fold_left]. unfold dec_step. cbn [Nat.sub Nat.eqb].
    rewrite Z.mod_small by lia.
    destruct (Z.eqb_spec (b - k) b) as [Ebad|_]; [lia|]. cbn [negb andb].
    destruct (div_round_pow2 64 (nthZ l 0) (b - k) ltac:(lia) ltac:(lia) (Hnth 0%nat)) as [E Hrg].
    rewrite E. unfold wadd, shl. rewrite Z.mul_0_l, wrap_zero by lia. rewrite Z.add_0_l.
    apply wrap_id; [lia|exact Hrg].
  - f_equal. unfold dec_step.
    assert (Hf : (Nat.eqb 0 (size - 1) && negb (b - k mod b =? b))%bool = false).
    { destruct (Nat.eqb_spec 0%nat (size - 1)%nat) as [E1|]; [|reflexivity].
      assert (Es : size = 1%nat) by lia. rewrite Es in Esz.
      assert (k = b) by (unfold enc_krem in *; nia). subst k. rewrite Z.mod_same by lia.
      rewrite Z.sub_0_r, Z.eqb_refl. reflexivity. }
    rewrite Hf. unfold wadd, shl. rewrite Z.mul_0_l, wrap_zero by lia. rewrite Z.add_0_l.
    apply wrap_id; [lia|apply Hnth].
Qed.

(* ---------- round trip ---------- *)

(* balanced representative of V modulo 2^k for `size` limbs of radix 2^b *)
Definition enc_rep (b k V : Z) : Z :=
  let k' := b - enc_krem b k in
  wrap k' V + 2 ^ k' * lvalr b (ldigs b (enc_size b k - 1) (bdiv k' V)).

Lemma nthZ_app_r (l1 l2 : list Z) (i : nat) : nthZ (l1 ++ l2) (length l1 + i) = nthZ l2 i.
Proof. unfold nthZ. rewrite app_nth2_plus. reflexivity. Qed.

Lemma dec_exact_enc_spec (b k : Z) (a_size : nat) (V : Z) : 1 <= b -> 1 <= k ->
  dec_exact b k (enc_spec b k a_size V) = enc_rep b k V.
Proof.
  intros Hb Hk. destruct (enc_params b k Hb Hk) as (Esz & Hr & Hs1).
  unfold dec_exact, enc_spec, enc_rep. cbv zeta.
  set (size := enc_size b k) in *. set (krem := enc_krem b k) in *.
  set (hi := rev (ldigs b (size - 1) (bdiv (b - krem) V))).
  assert (El : length hi = (size - 1)%nat) by (unfold hi; rewrite rev_length, ldigs_length; reflexivity).
  rewrite <- El at 1. rewrite firstn_app, firstn_all, Nat.sub_diag. cbn [firstn]. rewrite app_nil_r.
  replace (size - 1)%nat with (length hi + 0)%nat at 1 by lia.
  rewrite nthZ_app_r. cbn [app nthZ nth].
  rewrite rdiv_exact by lia. unfold hi. rewrite lval_rev. ring.
Qed.

Lemma enc_spec_length (b k : Z) (a_size : nat) (V : Z) : (1 <= enc_size b k <= a_size)%nat ->
  length (enc_spec b k a_size V) = a_size.
Proof.
  intros H. unfold enc_spec. cbv zeta. rewrite !app_length, rev_length, ldigs_length. cbn [length].
  unfold zeros. rewrite repeat_length. lia.
Qed.

Lemma Forall_app_intro {A} (P : A -> Prop) (l1 l2 : list A) : Forall P l1 -> Forall P l2 -> Forall P (l1 ++ l2).
Proof. intros H1 H2. apply Forall_app. split; assumption. Qed.

Lemma enc_spec_in_range (b k : Z) (a_size : nat) (V : Z) : 1 <= b <= 62 -> 1 <= k ->
  Forall (in_range 64) (enc_spec b k a_size V).
Proof.
  intros Hb Hk. destruct (enc_params b k ltac:(lia) Hk) as (Esz & Hr & Hs1).
  unfold enc_spec. cbv zeta. apply Forall_app_intro; [|apply Forall_app_intro].
  - apply Forall_rev. eapply Forall_impl; [|apply (ldigs_balanced b); lia].
    intros x Hx. apply (in_range_weaken b 64); [lia|exact Hx].
  - constructor; [|constructor]. apply (in_range_weaken b 64); [lia|].
    apply shifted_digit_range; [lia|]. apply wrap_range; lia.
  - apply Forall_zeros. unfold in_range. cbn. lia.
Qed.

(* the representative: congruent to V modulo 2^k, inside [enc_lo, enc_hi], equal to V when V is inside *)
Lemma enc_lo_glo (b k : Z) : enc_lo b k = glo b (enc_size b k - 1) * 2 ^ (b - enc_krem b k) - 2 ^ (b - enc_krem b k - 1).
Proof. unfold enc_lo. cbv zeta. rewrite lval_repeat. unfold glo. ring. Qed.

Lemma pow_k_split (b k : Z) : 1 <= b -> 1 <= k ->
  2 ^ k = 2 ^ (b - enc_krem b k) * 2 ^ (Z.of_nat (enc_size b k - 1) * b).
Proof.
  intros Hb Hk. destruct (enc_params b k Hb Hk) as (Esz & Hr & Hs1).
  assert (Em : Z.of_nat (enc_size b k - 1) = Z.of_nat (enc_size b k) - 1) by lia.
  rewrite Em. rewrite <- Z.pow_add_r by nia. f_equal. nia.
Qed.

Lemma enc_hi_ghi (b k : Z) : 1 <= b -> 1 <= k ->
  enc_hi b k = ghi b (enc_size b k - 1) * 2 ^ (b - enc_krem b k) + 2 ^ (b - enc_krem b k - 1) - 1.
Proof.
  intros Hb Hk. destruct (enc_params b k Hb Hk) as (Esz & Hr & Hs1).
  unfold enc_hi. rewrite enc_lo_glo. rewrite (pow_k_split b k Hb Hk).
  pose proof (ghi_glo b (enc_size b k - 1) Hb) as Hg.
  pose proof (pow2_split (b - enc_krem b k) ltac:(lia)) as Hs. nia.
Qed.

Lemma enc_rep_congr (b k V : Z) : 1 <= b -> 1 <= k -> (enc_rep b k V - V) mod 2 ^ k = 0.
Proof.
  intros Hb Hk. destruct (enc_params b k Hb Hk) as (Esz & Hr & Hs1).
  unfold enc_rep. cbv zeta. set (k' := b - enc_krem b k). set (m := (enc_size b k - 1)%nat).
  pose proof (ldigs_value b m (bdiv k' V) Hb) as Hv.
  pose proof (wrap_bdiv k' V ltac:(unfold k'; lia)) as Hd.
  rewrite (pow_k_split b k Hb Hk). fold k' m.
  replace (wrap k' V + 2 ^ k' * lvalr b (ldigs b m (bdiv k' V)) - V)
    with (- bdivn b m (bdiv k' V) * (2 ^ k' * 2 ^ (Z.of_nat m * b))) by nia.
  apply Z_mod_mult.
Qed.

Lemma enc_rep_range (b k V : Z) : 1 <= b -> 1 <= k -> enc_lo b k <= enc_rep b k V <= enc_hi b k.
Proof.
  intros Hb Hk. destruct (enc_params b k Hb Hk) as (Esz & Hr & Hs1).
  rewrite enc_lo_glo, enc_hi_ghi by auto. unfold enc_rep. cbv zeta.
  set (k' := b - enc_krem b k). set (m := (enc_size b k - 1)%nat).
  pose proof (lvalr_range b (ldigs b m (bdiv k' V)) Hb (ldigs_balanced b m _ Hb)) as Hrg.
  rewrite ldigs_length in Hrg.
  pose proof (wrap_range k' V ltac:(unfold k'; lia)) as [Hw1 Hw2].
  pose proof (pow2_pos k' ltac:(unfold k'; lia)). nia.
Qed.

Lemma enc_rep_fits (b k V : Z) : 1 <= b -> 1 <= k -> enc_lo b k <= V <= enc_hi b k -> enc_rep b k V = V.
Proof.
  intros Hb Hk. destruct (enc_params b k Hb Hk) as (Esz & Hr & Hs1).
  rewrite enc_lo_glo, enc_hi_ghi by auto. unfold enc_rep. cbv zeta.
  set (k' := b - enc_krem b k). set (m := (enc_size b k - 1)%nat). intros HV.
  pose proof (wrap_range k' V ltac:(unfold k'; lia)) as [Hw1 Hw2].
  pose proof (wrap_bdiv k' V ltac:(unfold k'; lia)) as Hd.
  pose proof (pow2_pos k' ltac:(unfold k'; lia)) as Hp.
  pose proof (pow2_split k' ltac:(unfold k'; lia)) as Hs.
  rewrite fits_exact; [lia|exact Hb|]. split; nia.
Qed.

(* uniqueness of the representative *)
Lemma rep_unique (k lo x y : Z) : 0 <= k -> lo <= x <= lo + 2 ^ k - 1 -> lo <= y <= lo + 2 ^ k - 1 ->
  (x - y) mod 2 ^ k = 0 -> x = y.
Proof.
  intros Hk Hx Hy Hm. pose proof (pow2_pos k Hk) as Hp.
  apply Z.mod_divide in Hm; [|lia]. destruct Hm as [q Hq]. assert (q = 0) by nia. lia.
Qed.

(* |v| < 2^(k-2) fits, for every radix b >= 2 *)
Lemma small_fits (b k v : Z) : 2 <= b -> 1 <= k -> 4 * Z.abs v < 2 ^ k -> enc_lo b k <= v <= enc_hi b k.
Proof.
  intros Hb Hk Hv. destruct (enc_params b k ltac:(lia) Hk) as (Esz & Hr & Hs1).
  rewrite enc_lo_glo, enc_hi_ghi by lia.
  set (k' := b - enc_krem b k) in *. set (m := (enc_size b k - 1)%nat) in *.
  pose proof (geom_third b m Hb) as Hh. pose proof (glo_third b m ltac:(lia)) as Hl.
  pose proof (pow_k_split b k ltac:(lia) Hk) as Hk2. fold k' m in Hk2.
  pose proof (pow2_pos k' ltac:(unfold k'; lia)) as Hp.
  pose proof (pow2_split k' ltac:(unfold k'; lia)) as Hs.
  pose proof (pow2_pos (k' - 1) ltac:(unfold k'; lia)) as Hp1.
  pose proof (pow_nb_pos b m ltac:(lia)) as Hpm.
  split; nia.
Qed.

Lemma enc_lo_le (b k : Z) : 1 <= b -> 1 <= k -> enc_lo b k <= - 2 ^ (k - 1) /\ enc_hi b k < 2 ^ (k - 1).
Proof.
  intros Hb Hk. destruct (enc_params b k Hb Hk) as (Esz & Hr & Hs1).
  assert (Hlo : enc_lo b k <= - 2 ^ (k - 1)).
  { rewrite enc_lo_glo. set (k' := b - enc_krem b k) in *. set (m := (enc_size b k - 1)%nat) in *.
    pose proof (pow_k_split b k Hb Hk) as Hk2. fold k' m in Hk2.
    pose proof (pow2_split k ltac:(lia)) as Hsk.
    pose proof (pow2_pos k' ltac:(unfold k'; lia)) as Hp.
    pose proof (pow2_split k' ltac:(unfold k'; lia)) as Hs.
    pose proof (pow2_pos (k' - 1) ltac:(unfold k'; lia)) as Hp1.
    destruct m as [|m'] eqn:Em.
    - unfold glo. cbn [geom]. change (Z.of_nat 0) with 0 in Hk2. rewrite Z.mul_0_l, Z.pow_0_r in Hk2. nia.
    - pose proof (geom_ge_pow b m' ltac:(lia)) as Hg. unfold glo.
      pose proof (pow2_split b Hb) as Hsb. pose proof (pow2_pos (b - 1) ltac:(lia)) as Hpb.
      rewrite pow_nb in Hk2 by lia. pose proof (pow_nb_pos b m' ltac:(lia)) as Hpm. nia. }
  split; [exact Hlo|]. unfold enc_hi. pose proof (pow2_split k ltac:(lia)). lia.
Qed.
