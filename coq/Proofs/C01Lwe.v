(* C01, LWE: lwe_encrypt_sk followed by lwe_decrypt. *)
From PV Require Import Base.MachineInt Model.Znx Model.Limbs Model.Flat Model.C08Oracle Model.EncModel
  Proofs.EncValue Proofs.EncLists Proofs.C01Sk.
Open Scope Z_scope.

(* the in-place normaliser keeps the value exactly (nothing is truncated) and returns balanced digits: C08 *)
Definition normalize_assign_value_ok_dom (D : Z -> Prop) : Prop :=
  forall b r, D b -> Forall (fun x => Z.abs x <= 2 ^ 62) r ->
    let out := normalize_assign 64 b r in
    length out = length r /\ Forall (in_range b) out /\
    forall P, zn (length r) * b <= P -> tor_abs P (val_scaled P b out - val_scaled P b r) = 0.
Definition normalize_assign_value_ok (R : Z) : Prop := normalize_assign_value_ok_dom (fun x => 1 <= x <= R).

(* |<a, s>| <= |s|_1 * max|a| *)
Lemma fold_add_acc (l : list Z) (acc : Z) : fold_left Z.add l acc = acc + fold_left Z.add l 0.
Proof. revert acc. induction l as [|x l IH]; intros acc; cbn [fold_left]; [lia|]. rewrite IH, (IH (0 + x)). lia. Qed.

Lemma lwe_dot_bound (B : Z) : 0 <= B -> forall (a s : list Z), Forall (fun x => Z.abs x <= B) a ->
  Z.abs (lwe_dot a s) <= norm1 s * B.
Proof.
  intros HB. unfold lwe_dot, map2. induction a as [|x a IH]; intros s Ha.
  - cbn. pose proof (norm1_nonneg s). nia.
  - destruct s as [|y s]; [cbn; lia|].
    inversion Ha; subst. cbn [combine map fold_left fst snd]. rewrite fold_add_acc.
    specialize (IH s H2). cbn [norm1 fold_right]. fold (norm1 s). nia.
Qed.

Section Lwe.
Variables b pb : Z.
Variable Dm : Z -> Prop.
Variables size psize : nat.
Variable nk : Z.
Hypothesis normalize_value_ok_small : normalize_value_ok_dom Dm (fun rb ab => normalize 64 rb ab 0) (2 ^ 62).
Hypothesis normalize_assign_ok : normalize_assign_value_ok_dom Dm.
Hypothesis Hb : Dm b.
Hypothesis Hpb : Dm pb.
Hypothesis Hb_pos : 1 <= b.
Hypothesis Hpb_pos : 1 <= pb.
Variables D E M : Z.

Theorem lwe_roundtrip (pt s : list Z) (a : list (list Z)) (e : Z) (body d : list Z) :
  (forall j, Z.abs (lwe_dot (nth j a []) s) <= D) -> Z.abs e <= E -> bnd M pt ->
  D + E + M <= 2 ^ 62 -> D + 2 ^ (b - 1) <= 2 ^ 62 ->
  lwe_enc_body b size nk pt s a e = Some body ->
  lwe_dec b pb size psize s a body = Some d ->
  let ell := target_limb nk b in
  (ell < size)%nat /\ length body = size /\ Forall (in_range b) body /\ length d = psize /\
  forall P, zn size * b <= P -> zn psize * pb <= P -> 1 <= P ->
    (exists q, lval P b size body + sumz (fun j => lwe_dot (nth j a []) s * wt P b j) size
               = lval P b size pt + e * wt P b ell + q * 2 ^ P) /\
    tor_abs P (val_scaled P pb d - val_scaled P b (firstn size pt) - e * wt P b ell) <= 2 ^ (P - zn psize * pb).
Proof.
  intros Hd He Hm Hh1 Hh2 Henc Hdec. cbv zeta.
  pose proof (pow2_pos (b - 1) ltac:(lia)) as Hp.
  assert (HD : 0 <= D) by (specialize (Hd O); lia).
  assert (HE : 0 <= E) by lia. assert (HM : 0 <= M) by (specialize (Hm O); lia).
  unfold lwe_enc_body in Henc.
  destruct (Nat.leb size (target_limb nk b)) eqn:Hl; [discriminate|]. apply Nat.leb_gt in Hl.
  set (ell := target_limb nk b) in *.
  set (msz := Nat.min size (length pt)) in Henc.
  set (tmp := lmk size (fun j => wrap 64 ((if Nat.ltb j msz then nthZ pt j else 0) - lwe_dot (nth j a []) s))) in Henc.
  assert (Ltmp : length tmp = size) by apply lmk_length.
  assert (Ntmp : forall j, (j < size)%nat -> nthZ tmp j = nthZ pt j - lwe_dot (nth j a []) s).
  { intros j Hj. unfold tmp. rewrite nth_lmk by lia.
    assert (Ept : (if Nat.ltb j msz then nthZ pt j else 0) = nthZ pt j).
    { destruct (Nat.ltb_spec j msz); [reflexivity|]. rewrite nthZ_beyond by (unfold msz in *; lia). reflexivity. }
    rewrite Ept. apply wrap_small; [lia|]. specialize (Hd j). specialize (Hm j). lia. }
  assert (Btmp : bnd (M + D) tmp).
  { intros j. destruct (Nat.lt_ge_cases j size).
    - rewrite Ntmp by lia. specialize (Hd j). specialize (Hm j). lia.
    - rewrite nthZ_beyond by lia. lia. }
  destruct (l_add_at_nowrap 64 ltac:(lia) ell e tmp E _ He Btmp ltac:(lia)) as (L1 & N1 & B1).
  set (c1 := l_add_at 64 ell e tmp) in *.
  assert (HF1 : Forall (fun x => Z.abs x <= 2 ^ 62) c1).
  { apply Forall_of_bnd. eapply bnd_weaken; [|exact B1]. lia. }
  destruct (normalize_assign_ok b c1 Hb HF1) as (Lb & Rb & Vb).
  assert (Hbody : normalize_assign 64 b c1 = body) by (injection Henc as Hx; exact Hx). cbv zeta in Lb, Rb, Vb. rewrite Hbody in Lb, Rb, Vb.
  assert (Bb : bnd (2 ^ (b - 1)) body) by (apply bnd_in_range; [lia|exact Rb]).
  (* decryption *)
  unfold lwe_dec in Hdec.
  set (acc := lmk size (fun j => wrap 64 (nthZ body j + lwe_dot (nth j a []) s))) in Hdec.
  assert (Lacc : length acc = size) by apply lmk_length.
  assert (Nacc : forall j, (j < size)%nat -> nthZ acc j = nthZ body j + lwe_dot (nth j a []) s).
  { intros j Hj. unfold acc. rewrite nth_lmk by lia. apply wrap_small; [lia|]. specialize (Hd j). specialize (Bb j). lia. }
  assert (HFa : Forall (fun x => Z.abs x <= 2 ^ 62) acc).
  { apply Forall_of_bnd. intros j. destruct (Nat.lt_ge_cases j size).
    - rewrite Nacc by lia. specialize (Hd j). specialize (Bb j). lia.
    - rewrite nthZ_beyond by lia. lia. }
  destruct (normalize_value_ok_small pb b acc (zeros psize) d Hpb Hb HFa Hdec) as (Ld & _ & Vd).
  rewrite zeros_length in Ld.
  split; [exact Hl|]. split; [rewrite Lb, L1; exact Ltmp|]. split; [exact Rb|]. split; [exact Ld|].
  intros P HP HPp HP1.
  assert (V1 : lval P b size c1 = lval P b size pt - sumz (fun j => lwe_dot (nth j a []) s * wt P b j) size + e * wt P b ell).
  { unfold lval. rewrite <- (sumz_single e (wt P b) ell size Hl). rewrite <- sumz_sub, <- sumz_add.
    apply sumz_ext. intros j Hj. unfold c1. rewrite N1 by lia. rewrite Ntmp by lia. lia. }
  specialize (Vb P ltac:(rewrite L1, Ltmp; lia)).
  destruct (tor_abs_zero_cong P _ HP1 Vb) as [qb Hqb].
  rewrite !val_scaled_lval, Lb, L1, Ltmp in Hqb.
  assert (Hphase : lval P b size body + sumz (fun j => lwe_dot (nth j a []) s * wt P b j) size
                   = lval P b size pt + e * wt P b ell + qb * 2 ^ P) by lia.
  split; [exists qb; exact Hphase|].
  assert (Va : lval P b size acc = lval P b size body + sumz (fun j => lwe_dot (nth j a []) s * wt P b j) size).
  { unfold lval. rewrite <- sumz_add. apply sumz_ext. intros j Hj. rewrite Nacc by lia. lia. }
  destruct (Vd P ltac:(rewrite zeros_length; lia) ltac:(rewrite Lacc; lia)) as [Un _].
  rewrite zeros_length in Un. rewrite (val_scaled_lval P b acc), Lacc in Un.
  rewrite lval_firstn.
  replace (val_scaled P pb d - lval P b size pt - e * wt P b ell)
    with ((val_scaled P pb d - lval P b size acc) + qb * 2 ^ P) by lia.
  rewrite tor_abs_shift by lia. exact Un.
Qed.

End Lwe.

(* in the form pinned by Props/C01.v *)
Lemma lwe_roundtrip_value :
  forall (b pb R : Z) (size psize : nat) (nk D E M : Z),
  normalize_value_ok (fun rb ab => normalize 64 rb ab 0) (2 ^ 62) R ->
  normalize_assign_value_ok R ->
  1 <= b <= R -> 1 <= pb <= R ->
  forall (pt s : list Z) (a : list (list Z)) (e : Z) (body d : list Z),
  (forall j, Z.abs (lwe_dot (nth j a []) s) <= D) -> Z.abs e <= E -> bnd M pt ->
  D + E + M <= 2 ^ 62 -> D + 2 ^ (b - 1) <= 2 ^ 62 ->
  lwe_enc_body b size nk pt s a e = Some body ->
  lwe_dec b pb size psize s a body = Some d ->
  length d = psize /\
  forall P, zn size * b <= P -> zn psize * pb <= P -> 1 <= P ->
    tor_abs P (val_scaled P pb d - val_scaled P b (firstn size pt) - e * wt P b (target_limb nk b)) <= 2 ^ (P - zn psize * pb).
Proof.
  intros b pb R size psize nk D E M H1 H2 H3 H4 pt s a e body d A1 A2 A3 A4 A5 A6 A7.
  destruct (lwe_roundtrip b pb (fun x => 1 <= x <= R) size psize nk H1 H2 H3 H4 (proj1 H3) D E M pt s a e body d A1 A2 A3 A4 A5 A6 A7) as (_ & _ & _ & L & V).
  split; [exact L|]. intros P Q1 Q2 Q3. apply (V P Q1 Q2 Q3).
Qed.
