(* C12 - GGSW row expansion and the operations built on it (ggsw_from_gglwe, ggsw_keyswitch, ggsw_automorphism): the declared
   size suffices on ring degrees that are multiples of 8.  Every statement mentions the GENERATED formulas. *)
From PV Require Import Base.MachineInt Model.C12Scratch Gen.C12TmpBytes_gen Model.C12Trees
  Proofs.C12Arena Proofs.C12Hal Proofs.C12Core Proofs.C12KeySwitch Proofs.C12More Proofs.C12Conv.
Open Scope Z_scope.

Section Ggsw.
  Variables fam n : Z.
  Hypothesis Hf : is_fam fam.
  Hypothesis Hn0 : 0 <= n.
  Hypothesis Hn8 : n mod 8 = 0.

  Lemma product_res_indep (rs rs' s : Z) (key : infos) :
    gglwe_product_dft_tmp_bytes fam n rs s key = gglwe_product_dft_tmp_bytes fam n rs' s key.
  Proof using Hf Hn0 Hn8.
    unfold gglwe_product_dft_tmp_bytes. cbv zeta.
    destruct (i_dsize key =? 1); rewrite (vmp_bytes_res_indep fam n Hf Hn0 Hn8 rs rs'); reflexivity.
  Qed.

  Lemma expand_rows_spec (res tsk : infos) : wf_infos res -> wf_infos tsk -> i_rank res = i_rank_in tsk ->
    aligned_tree (t_ggsw_expand_rows fam n res tsk) /\
    demand (t_ggsw_expand_rows fam n res tsk) <= ggsw_expand_rows_tmp_bytes fam n res tsk /\
    0 <= ggsw_expand_rows_tmp_bytes fam n res tsk.
  Proof using Hf Hn0 Hn8.
    intros Hr Ht Hrk.
    assert (Htb : 1 <= i_base2k tsk) by (destruct Ht; lia).
    assert (Hts : 0 <= i_size tsk) by (destruct Ht as (_&?&_); lia).
    assert (Hrr : 0 <= i_rank res) by (destruct Hr as (_&_&?&_); lia).
    assert (Hmk : 0 <= i_max_k res) by (destruct Hr as (?&?&_); unfold i_max_k; nia).
    set (a_size := div_ceil (i_max_k res) (i_base2k tsk)).
    assert (Ha0 : 0 <= a_size) by (apply div_ceil_nonneg; lia).
    destruct (gglwe_product_spec fam n Hf Hn0 Hn8 (i_size tsk) a_size tsk Ht Ha0) as [Ap Dp].
    rewrite (product_res_indep (i_size tsk) (i_size res)) in Dp.
    pose proof (aligned_need_nonneg _ Ap).
    destruct (callee_big_normalize fam n Hf Hn0 Hn8) as [Ab Db]. destruct (callee_normalize fam n Hf Hn0 Hn8) as [An Dn].
    pose proof (nn_norm fam n Hf Hn0 Hn8). pose proof (nn_bnorm fam n Hf Hn0 Hn8).
    pose proof (al_dft fam n Hf Hn0 Hn8 (i_rank res) a_size Hrr Ha0) as HD1.
    pose proof (al_vec_znx fam n Hf Hn0 Hn8 1 a_size ltac:(lia) Ha0) as HV.
    pose proof (al_dft fam n Hf Hn0 Hn8 (i_rank res + 1) (i_size tsk) ltac:(lia) Hts) as HD2.
    unfold t_ggsw_expand_rows, ggsw_expand_rows_tmp_bytes. cbv zeta. fold a_size.
    replace (i_rank res + 1 - 1) with (i_rank res) by lia. rewrite Hrk in *.
    split; [|split].
    - destruct (i_base2k res =? i_base2k tsk); cbn [aligned_tree]; unfold ALIGN; intuition; lia.
    - destruct (i_base2k res =? i_base2k tsk); cbn [demand persist]; rewrite ?Db, ?Dn; destruct_loops; lia.
    - destruct (i_base2k res =? i_base2k tsk); lia.
  Qed.

  Lemma suffices_ggsw_from_gglwe (res tsk : infos) : wf_infos res -> wf_infos tsk -> i_rank res = i_rank_in tsk ->
    run_takes (tree_ggsw_from_gglwe fam n res tsk) (0, ggsw_from_gglwe_tmp_bytes fam n res tsk) <> None.
  Proof using Hf Hn0 Hn8.
    intros Hr Ht Hrk. destruct (expand_rows_spec res tsk Hr Ht Hrk) as (A & D & N0).
    apply aligned_suffices; unfold tree_ggsw_from_gglwe, ggsw_from_gglwe_tmp_bytes; cbv zeta.
    - cbn [aligned_tree]. split; [lia | exact A].
    - cbn [demand persist]. lia.
  Qed.

  (* rows first (each on the whole scratch), then the expansion (on the whole scratch) *)
  Lemma rows_then_expand (F : Z) (k : nat) (row ex : tree) :
    aligned_tree row -> aligned_tree ex -> demand row <= F -> demand ex <= F ->
    run_takes (Seq (Need F) (Seq (Loop k (Scoped row)) (Scoped ex))) (0, F) <> None.
  Proof using Hf Hn0 Hn8.
    intros Ar Ae Dr De. pose proof (aligned_need_nonneg _ Ar). pose proof (aligned_need_nonneg _ Ae).
    apply aligned_suffices.
    - cbn [aligned_tree]. intuition; lia.
    - cbn [demand persist]. destruct k; lia.
  Qed.

  Lemma suffices_ggsw_keyswitch (res a key tsk : infos) :
    wf_infos res -> wf_infos a -> wf_infos key -> wf_infos tsk -> i_n a = n -> i_rank a = i_rank_in key -> i_rank res = i_rank_in tsk ->
    run_takes (tree_ggsw_keyswitch fam n res a key tsk) (0, ggsw_keyswitch_tmp_bytes fam n res a key tsk) <> None.
  Proof using Hf Hn0 Hn8.
    intros Hr Ha Hk Ht Hn Hrk Hrt.
    destruct (expand_rows_spec res tsk Hr Ht Hrt) as (Ae & De & _).
    destruct (keyswitch_spec fam n Hf Hn0 Hn8 res a key Hr Ha Hk Hn Hrk) as (Ar & Dr & _).
    unfold tree_ggsw_keyswitch. apply rows_then_expand; auto; unfold ggsw_keyswitch_tmp_bytes; lia.
  Qed.

  Lemma suffices_ggsw_automorphism (res a key tsk : infos) :
    wf_infos res -> wf_infos a -> wf_infos key -> wf_infos tsk -> i_n a = n -> i_rank a = i_rank_in key -> i_rank res = i_rank_in tsk ->
    run_takes (tree_ggsw_automorphism fam n res a key tsk) (0, ggsw_automorphism_tmp_bytes fam n res a key tsk) <> None.
  Proof using Hf Hn0 Hn8.
    intros Hr Ha Hk Ht Hn Hrk Hrt.
    destruct (expand_rows_spec res tsk Hr Ht Hrt) as (Ae & De & _).
    destruct (automorphism_spec fam n Hf Hn0 Hn8 res a key Hr Ha Hk Hn Hrk) as (Ar & Dr).
    unfold tree_ggsw_automorphism. apply rows_then_expand; auto; unfold ggsw_automorphism_tmp_bytes; lia.
  Qed.
End Ggsw.
