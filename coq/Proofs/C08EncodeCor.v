(* C08 encoding: the corollaries pinned in Props/C08Encode.v. *)
From PV Require Import Base.MachineInt Model.Znx Model.Limbs Model.Flat Model.C08Encode Proofs.ZnxDigit Proofs.C08Steps
  Proofs.C08EncodeSpec Proofs.C08EncodeCoef Proofs.C08EncodeDec Proofs.C08EncodeMain Proofs.C08EncodeFlat
  Proofs.C08EncodeRun.
Open Scope Z_scope.

(* what a result r in the representable range, congruent to v modulo 2^k, is at the boundary values *)
Lemma boundary_generic (b k r v : Z) : 1 <= b -> 1 <= k ->
  enc_lo b k <= r <= enc_hi b k -> (r - v) mod 2 ^ k = 0 ->
  (v = 2 ^ (k - 1) -> r = - 2 ^ (k - 1)) /\
  (v = - 2 ^ (k - 1) -> r = - 2 ^ (k - 1)) /\
  (v = 2 ^ (k - 1) - 1 -> r = if Nat.eqb (enc_size b k) 1 then 2 ^ (k - 1) - 1 else - 2 ^ (k - 1) - 1).
Proof.
  intros Hb Hk Hr Hm.
  destruct (enc_params b k Hb Hk) as (Esz & Hkr & Hs1).
  pose proof (enc_lo_le b k Hb Hk) as [Hlo Hhi].
  pose proof (enc_hi_nonneg b k Hb Hk) as Hh0.
  pose proof (pow2_pos k ltac:(lia)) as Hpk. pose proof (pow2_split k ltac:(lia)) as Hsk.
  pose proof (pow2_pos (k - 1) ltac:(lia)) as Hpk1.
  assert (Hshift : forall y, v - y = 2 ^ k -> (r - y) mod 2 ^ k = 0).
  { intros y Hy. replace (r - y) with ((r - v) + 2 ^ k) by lia.
    apply mod0_add; [lia|exact Hm|apply Z_mod_same_full]. }
  unfold enc_hi in *.
  split; [|split].
  - intros ->. apply (rep_unique k (enc_lo b k)); [lia|lia|lia|]. apply Hshift. lia.
  - intros ->. apply (rep_unique k (enc_lo b k)); [lia|lia|lia|exact Hm].
  - intros ->. destruct (Nat.eqb_spec (enc_size b k) 1) as [E1|E1].
    + destruct (enc_range_size1 b k Hb Hk E1) as [El Eh]. unfold enc_hi in Eh.
      apply (rep_unique k (enc_lo b k)); [lia|lia|lia|exact Hm].
    + destruct (enc_lo_size2 b k Hb Hk ltac:(lia)) as [Hl2 _].
      apply (rep_unique k (enc_lo b k)); [lia|lia|lia|]. apply Hshift. lia.
Qed.

Lemma pow_in_range (w k : Z) : 1 <= k <= w - 1 ->
  in_range w (2 ^ (k - 1)) /\ in_range w (- 2 ^ (k - 1)) /\ in_range w (2 ^ (k - 1) - 1).
Proof.
  intros Hk. pose proof (pow2_pos (k - 1) ltac:(lia)).
  assert (2 * 2 ^ (k - 1) <= 2 ^ (w - 1)).
  { rewrite <- pow2_split by lia. apply Z.pow_le_mono_r; lia. }
  unfold in_range. lia.
Qed.

Lemma enc_range_facts (b k : Z) : 1 <= b -> 1 <= k ->
  enc_hi b k = enc_lo b k + 2 ^ k - 1 /\ enc_lo b k <= - 2 ^ (k - 1) /\ 0 <= enc_hi b k < 2 ^ (k - 1) /\
  (enc_size b k = 1%nat -> enc_lo b k = - 2 ^ (k - 1) /\ enc_hi b k = 2 ^ (k - 1) - 1) /\
  ((2 <= enc_size b k)%nat -> enc_lo b k <= - 2 ^ (k - 1) - 1 /\ enc_hi b k < 2 ^ (k - 1) - 1).
Proof.
  intros Hb Hk. split; [reflexivity|]. destruct (enc_lo_le b k Hb Hk) as [A B].
  split; [exact A|]. split; [split; [apply enc_hi_nonneg; auto|exact B]|].
  split; [apply enc_range_size1; auto|apply enc_lo_size2; auto].
Qed.

Section Cor.
Variable b : Z.
Hypothesis Hb : 1 <= b <= 62.

(* ---------- exact round trips ---------- *)

Theorem rt_i64_fits (k : Z) (a_size : nat) (v : Z) : 1 <= k <= Z.of_nat a_size * b -> in_range 64 v ->
  enc_fits b k v = true -> dec_vec 64 b k (enc_i64 b k a_size v) = v.
Proof.
  intros Hk Hv Hf. destruct (rt_i64 b Hb k a_size v Hk Hv) as (_ & _ & _ & H). apply H.
  unfold enc_fits in Hf. apply andb_prop in Hf as [H1 H2]. lia.
Qed.

Theorem rt_i128_fits (k : Z) (a_size : nat) (v : Z) : 1 <= k <= Z.of_nat a_size * b -> in_range 128 v ->
  enc_fits b k v = true -> dec_vec 128 b k (enc_i128 b k a_size v) = v.
Proof.
  intros Hk Hv Hf. destruct (rt_i128 b Hb k a_size v Hk Hv) as (_ & _ & _ & H). apply H.
  unfold enc_fits in Hf. apply andb_prop in Hf as [H1 H2]. lia.
Qed.

Theorem rt_coeff_fits (k : Z) (a_size : nat) (v : Z) : 1 <= k <= Z.of_nat a_size * b -> in_range 64 v ->
  enc_fits b k v = true -> dec_coeff_i64 b k (enc_i64 b k a_size v) = v.
Proof.
  intros Hk Hv Hf. destruct (rt_coeff b Hb k a_size v Hk Hv) as (_ & _ & _ & H). apply H.
  unfold enc_fits in Hf. apply andb_prop in Hf as [H1 H2]. lia.
Qed.

Lemma small_enc_fits (k v : Z) : 2 <= b -> 1 <= k -> 4 * Z.abs v < 2 ^ k -> enc_fits b k v = true.
Proof.
  intros Hb2 Hk Hv. destruct (small_fits b k v Hb2 Hk Hv) as [H1 H2].
  unfold enc_fits. apply andb_true_intro. split; apply Z.leb_le; assumption.
Qed.

Theorem rt_i64_small (k : Z) (a_size : nat) (v : Z) : 2 <= b -> 1 <= k <= Z.of_nat a_size * b -> in_range 64 v ->
  4 * Z.abs v < 2 ^ k -> dec_vec 64 b k (enc_i64 b k a_size v) = v.
Proof. intros H2 Hk Hv Hs. apply rt_i64_fits; auto. apply small_enc_fits; auto; lia. Qed.

Theorem rt_i128_small (k : Z) (a_size : nat) (v : Z) : 2 <= b -> 1 <= k <= Z.of_nat a_size * b -> in_range 128 v ->
  4 * Z.abs v < 2 ^ k -> dec_vec 128 b k (enc_i128 b k a_size v) = v.
Proof. intros H2 Hk Hv Hs. apply rt_i128_fits; auto. apply small_enc_fits; auto; lia. Qed.

Theorem rt_coeff_small (k : Z) (a_size : nat) (v : Z) : 2 <= b -> 1 <= k <= Z.of_nat a_size * b -> in_range 64 v ->
  4 * Z.abs v < 2 ^ k -> dec_coeff_i64 b k (enc_i64 b k a_size v) = v.
Proof. intros H2 Hk Hv Hs. apply rt_coeff_fits; auto. apply small_enc_fits; auto; lia. Qed.

(* ---------- boundaries ---------- *)

Theorem rt_i64_boundary (k : Z) (a_size : nat) : 1 <= k <= Z.of_nat a_size * b -> k <= 63 ->
  let rt := fun v => dec_vec 64 b k (enc_i64 b k a_size v) in
  rt (2 ^ (k - 1)) = - 2 ^ (k - 1) /\ rt (- 2 ^ (k - 1)) = - 2 ^ (k - 1) /\
  rt (2 ^ (k - 1) - 1) = if Nat.eqb (enc_size b k) 1 then 2 ^ (k - 1) - 1 else - 2 ^ (k - 1) - 1.
Proof.
  intros Hk Hk63. cbv zeta. destruct (pow_in_range 64 k ltac:(lia)) as (R1 & R2 & R3).
  split; [|split].
  - destruct (rt_i64 b Hb k a_size _ Hk R1) as (_ & _ & H & _). destruct (H Hk63) as [Hr Hm].
    destruct (boundary_generic b k _ _ ltac:(lia) ltac:(lia) Hr Hm) as (B1 & B2 & B3). apply B1. reflexivity.
  - destruct (rt_i64 b Hb k a_size _ Hk R2) as (_ & _ & H & _). destruct (H Hk63) as [Hr Hm].
    destruct (boundary_generic b k _ _ ltac:(lia) ltac:(lia) Hr Hm) as (B1 & B2 & B3). apply B2. reflexivity.
  - destruct (rt_i64 b Hb k a_size _ Hk R3) as (_ & _ & H & _). destruct (H Hk63) as [Hr Hm].
    destruct (boundary_generic b k _ _ ltac:(lia) ltac:(lia) Hr Hm) as (B1 & B2 & B3). apply B3. reflexivity.
Qed.

Theorem rt_i128_boundary (k : Z) (a_size : nat) : 1 <= k <= Z.of_nat a_size * b -> k <= 127 ->
  let rt := fun v => dec_vec 128 b k (enc_i128 b k a_size v) in
  rt (2 ^ (k - 1)) = - 2 ^ (k - 1) /\ rt (- 2 ^ (k - 1)) = - 2 ^ (k - 1) /\
  rt (2 ^ (k - 1) - 1) = if Nat.eqb (enc_size b k) 1 then 2 ^ (k - 1) - 1 else - 2 ^ (k - 1) - 1.
Proof.
  intros Hk Hk127. cbv zeta. destruct (pow_in_range 128 k ltac:(lia)) as (R1 & R2 & R3).
  split; [|split].
  - destruct (rt_i128 b Hb k a_size _ Hk R1) as (_ & _ & H & _). destruct (H Hk127) as [Hr Hm].
    destruct (boundary_generic b k _ _ ltac:(lia) ltac:(lia) Hr Hm) as (B1 & B2 & B3). apply B1. reflexivity.
  - destruct (rt_i128 b Hb k a_size _ Hk R2) as (_ & _ & H & _). destruct (H Hk127) as [Hr Hm].
    destruct (boundary_generic b k _ _ ltac:(lia) ltac:(lia) Hr Hm) as (B1 & B2 & B3). apply B2. reflexivity.
  - destruct (rt_i128 b Hb k a_size _ Hk R3) as (_ & _ & H & _). destruct (H Hk127) as [Hr Hm].
    destruct (boundary_generic b k _ _ ltac:(lia) ltac:(lia) Hr Hm) as (B1 & B2 & B3). apply B3. reflexivity.
Qed.

Theorem rt_coeff_boundary (k : Z) (a_size : nat) : 1 <= k <= Z.of_nat a_size * b -> k <= 63 ->
  let rt := fun v => dec_coeff_i64 b k (enc_i64 b k a_size v) in
  rt (2 ^ (k - 1)) = - 2 ^ (k - 1) /\ rt (- 2 ^ (k - 1)) = - 2 ^ (k - 1) /\
  rt (2 ^ (k - 1) - 1) = if Nat.eqb (enc_size b k) 1 then 2 ^ (k - 1) - 1 else - 2 ^ (k - 1) - 1.
Proof.
  intros Hk Hk63. cbv zeta. destruct (pow_in_range 64 k ltac:(lia)) as (R1 & R2 & R3).
  rewrite !(dec_coeff_enc b Hb) by auto. apply rt_i64_boundary; auto.
Qed.

(* ---------- what is written ---------- *)

Theorem enc_i64_digits (k : Z) (a_size : nat) (v : Z) : 1 <= k <= Z.of_nat a_size * b -> in_range 64 v ->
  let l := enc_i64 b k a_size v in let size := enc_size b k in
  length l = a_size /\ Forall (in_range b) (firstn size l) /\ skipn size l = zeros (a_size - size) /\
  nthZ l (size - 1) mod 2 ^ enc_krem b k = 0.
Proof.
  intros Hk Hv. cbv zeta. rewrite (enc_i64_spec b Hb k a_size v Hk Hv).
  destruct (enc_spec_shape b Hb k a_size v Hk) as (A & B & C & D & _).
  auto.
Qed.

Theorem enc_i128_digits (k : Z) (a_size : nat) (v : Z) : 1 <= k <= Z.of_nat a_size * b -> in_range 128 v ->
  let l := enc_i128 b k a_size v in let size := enc_size b k in
  length l = a_size /\ Forall (in_range b) (firstn size l) /\ skipn size l = zeros (a_size - size) /\
  nthZ l (size - 1) mod 2 ^ enc_krem b k = 0.
Proof.
  intros Hk Hv. cbv zeta. rewrite (enc_i128_spec b Hb k a_size v Hk Hv).
  destruct (enc_spec_shape b Hb k a_size v Hk) as (A & B & C & D & _).
  auto.
Qed.

(* the limbs hold v / 2^k on the torus (as integers: v * 2^krem modulo 2^(size b)) *)
Theorem enc_i64_value (k : Z) (a_size : nat) (v : Z) : 1 <= k <= Z.of_nat a_size * b -> in_range 64 v ->
  (e_lval b (firstn (enc_size b k) (enc_i64 b k a_size v)) - v * 2 ^ enc_krem b k)
    mod 2 ^ (Z.of_nat (enc_size b k) * b) = 0.
Proof.
  intros Hk Hv. rewrite (enc_i64_spec b Hb k a_size v Hk Hv). apply (enc_spec_value_congr b Hb); auto.
Qed.

Theorem enc_i128_value (k : Z) (a_size : nat) (v : Z) : 1 <= k <= Z.of_nat a_size * b -> in_range 128 v ->
  (e_lval b (firstn (enc_size b k) (enc_i128 b k a_size v)) - v * 2 ^ enc_krem b k)
    mod 2 ^ (Z.of_nat (enc_size b k) * b) = 0.
Proof.
  intros Hk Hv. rewrite (enc_i128_spec b Hb k a_size v Hk Hv). apply (enc_spec_value_congr b Hb); auto.
Qed.

End Cor.

(* ---------- end to end on flat buffers: everything fits => the decoded vector is the input ---------- *)

Lemma map_id_in {A} (f : A -> A) (l : list A) : (forall x, In x l -> f x = x) -> map f l = l.
Proof. intros H. rewrite <- (map_id l) at 2. apply map_ext_in. exact H. Qed.

Theorem flat_rt_i64 (ps buf data : list Z) :
  let s := e_shape ps in let b := e_p ps 10 in let k := e_p ps 11 in
  1 <= b <= 62 -> 1 <= k <= Z.of_nat (s_size s) * b -> e_ok s buf = true -> length data = s_n s ->
  Forall (fun v => in_range 64 v /\ enc_fits b k v = true) data ->
  exists buf', run_c08_enc 8301 ps [buf; data] = Some [buf'; data] /\ length buf' = length buf /\
    (forall idx d, e_in_col (s_n s) (s_cols s) (s_size s) (s_col s) idx = false -> nth idx buf' d = nth idx buf d) /\
    e_coeffs s buf' = map (enc_i64 b k (s_size s)) data.
Proof.
  intros s b k Hb Hk Hok Hd Hf.
  destruct (run_8301 ps buf Hb Hk Hok data Hd) as (buf' & R & L & F & C).
  { eapply Forall_impl; [|exact Hf]. intros v [H _]. exact H. }
  exists buf'. split; [|auto]. rewrite R. do 3 f_equal.
  apply map_id_in. intros v Hv. rewrite Forall_forall in Hf. destruct (Hf v Hv) as [H1 H2].
  apply rt_i64_fits; auto.
Qed.

Theorem flat_rt_i128 (ps buf data : list Z) :
  let s := e_shape ps in let b := e_p ps 10 in let k := e_p ps 11 in
  1 <= b <= 62 -> 1 <= k <= Z.of_nat (s_size s) * b -> e_ok s buf = true -> length data = s_n s ->
  Forall (fun v => in_range 128 v /\ enc_fits b k v = true) data ->
  exists buf', run_c08_enc 8302 ps [buf; data] = Some [buf'; data] /\ length buf' = length buf /\
    (forall idx d, e_in_col (s_n s) (s_cols s) (s_size s) (s_col s) idx = false -> nth idx buf' d = nth idx buf d) /\
    e_coeffs s buf' = map (enc_i128 b k (s_size s)) data.
Proof.
  intros s b k Hb Hk Hok Hd Hf.
  destruct (run_8302 ps buf Hb Hk Hok data Hd) as (buf' & R & L & F & C).
  { eapply Forall_impl; [|exact Hf]. intros v [H _]. exact H. }
  exists buf'. split; [|auto]. rewrite R. do 3 f_equal.
  apply map_id_in. intros v Hv. rewrite Forall_forall in Hf. destruct (Hf v Hv) as [H1 H2].
  apply rt_i128_fits; auto.
Qed.

Theorem flat_rt_coeff (ps buf : list Z) (v : Z) :
  let s := e_shape ps in let b := e_p ps 10 in let k := e_p ps 11 in let idx := Z.to_nat (e_p ps 12) in
  1 <= b <= 62 -> 1 <= k <= Z.of_nat (s_size s) * b -> e_ok s buf = true -> (idx < s_n s)%nat ->
  in_range 64 v -> enc_fits b k v = true ->
  exists buf', run_c08_enc 8303 ps [buf; [v]] = Some [buf'; [v]] /\ length buf' = length buf /\
    (forall pos d, e_in_col (s_n s) (s_cols s) (s_size s) (s_col s) pos = false \/ (pos mod s_n s)%nat <> idx ->
       nth pos buf' d = nth pos buf d) /\
    nth idx (e_coeffs s buf') [] = enc_i64 b k (s_size s) v.
Proof.
  intros s b k idx Hb Hk Hok Hi Hv Hf.
  destruct (run_8303 ps buf Hb Hk Hok v Hi Hv) as (buf' & R & L & F & C).
  exists buf'. split; [|auto]. rewrite R. do 4 f_equal. apply rt_coeff_fits; auto.
Qed.
