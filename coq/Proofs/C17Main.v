(* C17 - the statements pinned in Props/C17.v that collect several lemmas. *)
From PV Require Import Base.MachineInt Model.Znx Model.Limbs Model.Ring Model.Flat Model.C12Scratch
  Model.C17Mem Model.C17Ops Model.C17Run Proofs.C17Bounds Proofs.C17Total Proofs.C17Compact.
From Coq Require Import Arith PeanoNat.
Open Scope Z_scope.

Lemma constructors_establish_inv :
  (forall n cols size w, 0 <= n -> 0 <= cols -> 0 <= size -> 0 < w -> wf_v (v_alloc n cols size w) /\ Inv (v_alloc n cols size w)) /\
  (forall n cols size w len v, 0 <= n -> 0 <= cols -> 0 <= size -> 0 < w -> v_from_bytes n cols size w len = Some v -> wf_v v /\ Inv v) /\
  (forall v new_size, wf_v v -> Inv v -> 0 <= new_size ->
      wf_v (v_realloc v new_size) /\ Inv (v_realloc v new_size) /\ v_size (v_realloc v new_size) = new_size) /\
  (forall v, Inv v -> Inv (v_to_ref v) /\ v_to_ref v = v) /\
  (forall v w_big, wf_v v -> Inv v -> 0 < w_big <= v_w v -> Inv (v_into_big v w_big)) /\
  (forall v, Inv (v_as_scalar v)) /\
  (forall n rows cin cout size w, 0 <= n -> 0 <= rows -> 0 <= cin -> 0 <= cout -> 0 <= size -> 0 < w ->
      wf_m (m_alloc n rows cin cout size w) /\ InvM (m_alloc n rows cin cout size w)) /\
  (forall n rows cin cout size w len m, m_from_bytes n rows cin cout size w len = Some m -> InvM m) /\
  (forall len n cols size w, Inv (v_from_data len n cols size w) <-> n * cols * size * w <= len).
Proof.
  split; [intros; apply alloc_inv; assumption|].
  split; [intros n cols size w len v Hn Hc Hs Hw E; exact (from_bytes_inv n cols size w len v Hn Hc Hs Hw E)|].
  split; [intros; apply realloc_inv; assumption|].
  split; [intros; apply to_ref_inv; assumption|].
  split; [intros; apply into_big_inv; assumption|].
  split; [intros; apply as_scalar_inv|].
  split; [intros; apply mat_alloc_inv; assumption|].
  split; [intros; eapply mat_from_bytes_inv; eassumption|].
  intros; apply from_data_inv_iff.
Qed.

Lemma op_total_limbs (w b off k : Z) (a r0 : list Z) (ov : bool) :
  normalize_inter_c w b off a r0 = Some (normalize_inter w b off a r0) /\
  normalize_assign_c w b r0 = Some (normalize_assign w b r0) /\
  lsh_assign_c w b k r0 = Some (lsh_assign w b k r0) /\
  lsh_c w ov b k a r0 = Some (lsh w ov b k a r0) /\
  lsh_sub_c w b k a r0 = Some (lsh_sub w b k a r0) /\
  rsh_assign_c w b k r0 = Some (rsh_assign w b k r0) /\
  rsh_c w ov b k a r0 = Some (rsh w ov b k a r0) /\
  rsh_sub_c w b k a r0 = Some (rsh_sub w b k a r0).
Proof.
  split; [apply normalize_inter_total|]. split; [apply normalize_assign_total|]. split; [apply lsh_assign_total|].
  split; [apply lsh_total|]. split; [apply lsh_sub_total|]. split; [apply rsh_assign_total|].
  split; [apply rsh_total | apply rsh_sub_total].
Qed.

Lemma op_total_vec (w : Z) (n : nat) (p : Z) (f : list Z -> list Z) (a b r0 : limbs) :
  vec_add_c w n a b r0 = Some (vec_add w n a b r0) /\
  vec_sub_c w n a b r0 = Some (vec_sub w n a b r0) /\
  vec_add_assign_c w a r0 = Some (vec_add_assign w a r0) /\
  vec_sub_assign_c w a r0 = Some (vec_sub_assign w a r0) /\
  vec_sub_negate_assign_c w a r0 = Some (vec_sub_negate_assign w a r0) /\
  vec_unary_c n f a r0 = Some (vec_unary n f a r0) /\
  vec_automorphism_c w n p a r0 = Some (vec_automorphism w n p a r0) /\
  vec_switch_ring_c n a r0 = Some (vec_switch_ring n a r0).
Proof.
  split; [apply vec_add_total|]. split; [apply vec_sub_total|]. split; [apply vec_add_assign_total|].
  split; [apply vec_sub_assign_total|]. split; [apply vec_sub_negate_assign_total|]. split; [apply vec_unary_total|].
  split; [apply vec_automorphism_total | apply vec_switch_ring_total].
Qed.

Lemma checked_access_rejects (l : list Z) (i x : Z) :
  i < 0 \/ Z.of_nat (length l) <= i -> getc l i = None /\ updc l i x = None.
Proof. intros; split; [apply getc_out | apply updc_out]; assumption. Qed.

Lemma flat_in_bounds (s : shape) (data : list Z) (j : nat) :
  shape_ok s data = true -> (j < s_size s)%nat ->
  (s_n s * (j * s_cols s + s_col s) + s_n s <= length data)%nat /\
  length (limb_at (s_n s) (s_cols s) data (s_col s) j) = s_n s /\
  forall l, length (write_limb (s_n s) (s_cols s) data (s_col s) j l) = length data.
Proof.
  intros H Hj. pose proof (shape_ok_facts s data H) as (_ & Hs & _).
  pose proof (flat_limb_in_bounds s data j H ltac:(lia)) as Hb. unfold flat_off in Hb.
  split; [exact Hb|]. split; [apply flat_limb_at_full; assumption|]. intros l; apply write_limb_length; exact Hb.
Qed.

Lemma ring_kernel_indices :
  (forall n_in n_out t, (0 < n_out)%nat -> (n_out <= n_in)%nat -> (t < n_out)%nat -> (switch_down_ix n_in n_out t < n_in)%nat) /\
  (forall n_in n_out t, (0 < n_in)%nat -> (n_in <= n_out)%nat -> (t < n_in)%nat -> (switch_up_ix n_in n_out t < n_out)%nat) /\
  (forall n p i, 0 < n -> 0 <= auto_ix n p i < n) /\
  (forall len, 0 <= len -> 0 <= simd_main_last len <= len /\ len - simd_main_last len < 4).
Proof.
  split; [intros; apply switch_down_in_bounds; assumption|].
  split; [intros; apply switch_up_in_bounds; assumption|].
  split; [intros; apply auto_ix_in_bounds; assumption|].
  intros; apply simd_partition; assumption.
Qed.

Lemma compact_blocks_safe (n nb k c k' c' : Z) :
  0 < n -> 0 <= k < nb -> 0 <= k' < nb -> 0 <= c < n -> 0 <= c' < n ->
  (0 <= cb_src n k c /\ cb_src n k c + 4 <= 4 * n * nb /\ 0 <= cb_dst n k c /\ cb_dst n k c + 2 <= 2 * n * nb) /\
  (cb_before k c k' c' -> cb_dst n k c + 2 <= cb_src n k' c') /\
  (k < k' -> cb_dst n k c + 2 <= 4 * n * k') /\
  (cb_src n k c < cb_dst n k c + 2 -> k = 0 /\ c = 0).
Proof.
  intros Hn Hk Hk' Hc Hc'.
  split; [apply compact_in_bounds; assumption|].
  split; [intros H; apply compact_write_before_later_src; try assumption; lia|].
  split; [intros H; apply compact_block_intact; try assumption; lia|].
  intros H. apply (compact_self_overlap_only_first n k c Hn); try assumption; lia.
Qed.

Lemma mutants_refuted :
  (exists a r0, vec_copy_bad_c a r0 = None) /\
  (exists len, 0 <= len /\ simd_main_last len - 4 < 0) /\
  (exists v s, wf_v v /\ Inv v /\ 0 <= s /\ ~ Inv (mkV (v_n v) (v_cols v) s (v_max v) (v_len v) (v_w v))) /\
  (exists k off len win rest, take_bad k (off, len) = Some (win, rest) /\ 0 < snd rest /\ off + len < fst rest + snd rest).
Proof.
  split; [exact vec_copy_bad_refuted|]. split; [exact simd_tail_bad_refuted|].
  split; [exact set_size_unchecked_refuted | exact take_bad_refuted].
Qed.
