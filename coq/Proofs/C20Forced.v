(* C20 — the schedules the harness forces through the yield hook (Model.C20Threads.forced_sched: any policy number,
   any random stream) are complete executions of the small-step system: every decision picks a worker that still has
   an item, and after `total w` decisions nothing is pending.  Hence every forced record is an instance of the
   schedules quantified over by any_schedule_eq_sequential / each_item_once. *)
From PV Require Import Base.MachineInt Model.C20Threads Proofs.C20Partition Proofs.C20Sched.
From Coq Require Import Arith PeanoNat Permutation.
Local Open Scope nat_scope.

(* ---------- pick returns a live worker ---------- *)
Lemma hd_In (l : list nat) : l <> [] -> In (hd 0 l) l.
Proof. destruct l; [congruence|]. intros _. left. reflexivity. Qed.

Lemma last_In (l : list nat) : l <> [] -> In (last l 0) l.
Proof.
  induction l as [|a l IH]; [congruence|]. intros _.
  destruct l as [|b l]; [left; reflexivity|]. right. apply IH. discriminate.
Qed.

Lemma rnd_In (l : list nat) (q : Z) : l <> [] -> In (nth (Z.to_nat (q mod Z.of_nat (length l))) l (hd 0 l)) l.
Proof.
  intros Hl. apply nth_In.
  assert (0 < length l) by (destruct l; [congruence|cbn [length]; lia]).
  pose proof (Z.mod_pos_bound q (Z.of_nat (length l)) ltac:(lia)). lia.
Qed.

Lemma find_In (P : nat -> bool) (l : list nat) t : find P l = Some t -> In t l.
Proof. intros H. apply find_some in H. tauto. Qed.

Lemma existsb_eqb_In (x : nat) (l : list nat) : existsb (Nat.eqb x) l = true -> In x l.
Proof. intros H. apply existsb_exists in H. destruct H as (y & Hy & He). apply Nat.eqb_eq in He. subst. exact Hy. Qed.

Lemma pick_in_live (policy : Z) (n : nat) (live : list nat) (last : option nat) (k : nat) (r : Z) :
  live <> [] -> In (pick policy n live last k r) live.
Proof.
  intros Hl. pose proof (hd_In _ Hl) as Hh. pose proof (last_In _ Hl) as Hla.
  pose proof (fun q => rnd_In live q Hl) as Hr.
  unfold pick.
  repeat match goal with
         | |- In (match ?x with _ => _ end) _ => destruct x eqn:?
         | |- In (if ?b then _ else _) _ => destruct b eqn:?
         end;
    try exact Hh; try exact Hla; try apply Hr;
    try (eapply find_In; eassumption);
    try (apply in_rev; eapply find_In; eassumption);
    try (apply existsb_eqb_In; assumption);
    try (apply andb_prop in Heqb; destruct Heqb as [He _]; apply existsb_eqb_In; exact He).
Qed.

(* ---------- live_threads ---------- *)
Lemma live_threads_In (rem : list nat) t : In t (live_threads rem) <-> t < length rem /\ 0 < nth t rem 0.
Proof.
  unfold live_threads. rewrite filter_In, in_seq, Nat.ltb_lt. lia.
Qed.

Lemma live_threads_nil (rem : list nat) : live_threads rem = [] -> forall t, nth t rem 0 = 0.
Proof.
  intros H t. destruct (Nat.lt_ge_cases t (length rem)) as [Hlt|Hge].
  - destruct (nth t rem 0) eqn:E; [reflexivity|].
    assert (In t (live_threads rem)) by (apply live_threads_In; lia). rewrite H in *. contradiction.
  - apply nth_overflow. exact Hge.
Qed.

Lemma dec_nth_map_length {X : Type} (p : list (list X)) : forall t x r,
  nth_error p t = Some (x :: r) -> map (@length X) (set_nth t r p) = dec_nth t (map (@length X) p).
Proof.
  unfold dec_nth. induction p as [|l p IH]; intros t x r H; [destruct t; discriminate|].
  destruct t as [|t]; cbn [nth_error] in H.
  - inversion H; subst. reflexivity.
  - cbn [set_nth map nth]. f_equal. apply IH with x. exact H.
Qed.

Section Forced.
Variables V Sc : Type.
Variable g : nat -> Sc -> V * Sc.
Notation state := (state V Sc).
Notation step := (step V Sc g).
Notation exec := (exec V Sc g).
Notation finished := (finished V Sc).

Lemma lens_zero_finished (p : list (list item)) :
  (forall t, nth t (map (@length item) p) 0 = 0) -> forallb (fun l => match l with [] => true | _ => false end) p = true.
Proof.
  induction p as [|l p IH]; intros H; [reflexivity|]. cbn [forallb].
  pose proof (H 0) as H0. cbn [map nth] in H0. destruct l; [|discriminate]. cbn [andb].
  apply IH. intros t. exact (H (S t)).
Qed.

Lemma live_step (p : list (list item)) t :
  In t (live_threads (map (@length item) p)) -> exists x r, nth_error p t = Some (x :: r).
Proof.
  intros H. apply live_threads_In in H. destruct H as [Hlt Hpos]. rewrite map_length in Hlt.
  destruct (nth_error p t) as [l|] eqn:E; [|apply nth_error_None in E; lia].
  pose proof (nth_error_nth _ _ 0 (map_nth_error (@length item) _ _ E)) as Hn. rewrite Hn in Hpos.
  destruct l as [|x r]; [cbn [length] in Hpos; lia|]. exists x, r. reflexivity.
Qed.

Lemma policy_sched_complete (policy : Z) (n : nat) (fuel : nat) : forall (st : state) last k rs,
  total (pend V Sc st) <= fuel ->
  exists st', exec (policy_sched fuel policy n (map (@length item) (pend V Sc st)) last k rs) st = Some st'
              /\ finished st' = true.
Proof.
  induction fuel as [|fuel IH]; intros st last k rs Ht.
  - exists st. split; [reflexivity|]. unfold C20Threads.finished.
    apply lens_zero_finished. intros t.
    unfold total in Ht. assert (Hc : concat (pend V Sc st) = []) by (destruct (concat (pend V Sc st)); [reflexivity|cbn [length] in Ht; lia]).
    destruct (Nat.lt_ge_cases t (length (map (@length item) (pend V Sc st)))) as [Hlt|Hge]; [|apply nth_overflow; exact Hge].
    rewrite map_length in Hlt.
    destruct (nth_error (pend V Sc st) t) as [l|] eqn:E; [|apply nth_error_None in E; lia].
    rewrite (nth_error_nth _ _ 0 (map_nth_error (@length item) _ _ E)).
    destruct l as [|x r]; [reflexivity|].
    pose proof (Permutation_length (set_nth_perm _ _ _ _ E)) as Hl. rewrite Hc in Hl. discriminate.
  - cbn [policy_sched].
    destruct (live_threads (map (@length item) (pend V Sc st))) as [|a live] eqn:El.
    + exists st. split; [reflexivity|]. apply lens_zero_finished. apply live_threads_nil. exact El.
    + set (t := pick policy n (a :: live) last k (hd 0%Z rs)).
      assert (Hin : In t (live_threads (map (@length item) (pend V Sc st)))).
      { rewrite El. apply pick_in_live. discriminate. }
      destruct (live_step _ _ Hin) as (x & r & En).
      assert (Hs : exists st1, step t st = Some st1 /\ pend V Sc st1 = set_nth t r (pend V Sc st)).
      { unfold C20Threads.step. rewrite En. eexists. split; reflexivity. }
      destruct Hs as (st1 & Hs & Hp).
      pose proof (Permutation_length (set_nth_perm _ _ _ _ En)) as Hl. cbn [length] in Hl.
      destruct (IH st1 (Some t) (S k) (tl rs)) as (st' & He & Hf).
      { unfold total in *. rewrite Hp. lia. }
      exists st'. split; [|exact Hf]. cbn [C20Threads.exec]. rewrite Hs.
      rewrite <- (dec_nth_map_length _ _ _ _ En), <- Hp. exact He.
Qed.

Lemma forced_sched_complete (policy : Z) (rs : list Z) (w : list (list item)) (init : nat -> V) (scr0 : nat -> Sc) :
  exists st, run_mt V Sc g (Some w) init scr0 (forced_sched policy rs w) = Some st.
Proof.
  destruct (policy_sched_complete policy (length w) (total w) (init_state V Sc w init scr0) None 0 rs (le_n _))
    as (st' & He & Hf).
  exists st'. unfold run_mt, forced_sched. cbn [pend init_state] in He. rewrite He, Hf. reflexivity.
Qed.

End Forced.

(* ---------- the two entry points under a forced schedule ---------- *)
Section ForcedEntry.
Variables V Sc : Type.
Variable g : nat -> Sc -> V * Sc.
Variable f : nat -> V.
Hypothesis Hg : forall i s, fst (g i s) = f i.
Variable zero : V.

Lemma eval_forced (policy : Z) (rs : list Z) (threads out_len output_size : nat) (init : nat -> V) (scr0 : nat -> Sc) :
  1 <= threads -> 1 <= output_size <= out_len ->
  exists w st o,
    eval_work threads output_size = Some w /\
    run_mt V Sc g (Some w) init scr0 (forced_sched policy rs w) = Some st /\
    eval_mt V Sc g zero threads out_len output_size init scr0 (forced_sched policy rs w) = Some o /\
    forall j, o j = if j <? output_size then f j else if j <? out_len then zero else init j.
Proof.
  intros Ht Ho.
  destruct (eval_work threads output_size) as [w|] eqn:Ew.
  - destruct (forced_sched_complete V Sc g policy rs w init scr0) as (st & Hr).
    assert (He : eval_mt V Sc g zero threads out_len output_size init scr0 (forced_sched policy rs w)
                 = Some (zero_range V zero output_size (out_len - output_size) (outs V Sc st))).
    { unfold eval_mt. rewrite Ew, Hr. destruct (out_len <? output_size) eqn:E; [apply Nat.ltb_lt in E; lia|reflexivity]. }
    exists w, st, (zero_range V zero output_size (out_len - output_size) (outs V Sc st)).
    split; [reflexivity|]. split; [exact Hr|]. split; [exact He|].
    apply (eval_mt_closed V Sc g f Hg zero _ _ _ _ _ _ _ He).
  - exfalso. destruct (eval_schedule_exists V Sc g zero threads out_len output_size init scr0 Ht Ho) as (sched & o & H).
    unfold eval_mt in H. rewrite Ew in H. destruct (out_len <? output_size); discriminate.
Qed.

Lemma prepare_forced (policy : Z) (rs : list Z) (threads bits start count : nat) (init : nat -> V) (scr0 : nat -> Sc) :
  1 <= threads -> 1 <= count -> start + count <= bits ->
  exists w st o,
    prepare_work threads bits start count = Some w /\
    run_mt V Sc g (Some w) init scr0 (forced_sched policy rs w) = Some st /\
    prepare_mt V Sc g zero threads bits start count init scr0 (forced_sched policy rs w) = Some o /\
    forall j, o j = if (start <=? j) && (j <? start + count) then f j else if j <? bits then zero else init j.
Proof.
  intros Ht Hc Hb.
  destruct (prepare_work threads bits start count) as [w|] eqn:Ew.
  - destruct (forced_sched_complete V Sc g policy rs w init scr0) as (st & Hr).
    assert (He : exists o, prepare_mt V Sc g zero threads bits start count init scr0 (forced_sched policy rs w) = Some o).
    { unfold prepare_mt. rewrite Ew, Hr. eexists. reflexivity. }
    destruct He as (o & He).
    exists w, st, o. split; [reflexivity|]. split; [exact Hr|]. split; [exact He|].
    apply (prepare_mt_closed V Sc g f Hg zero _ _ _ _ _ _ _ _ He).
  - exfalso. destruct (prepare_schedule_exists V Sc g zero threads bits start count init scr0 Ht Hc Hb) as (sched & o & H).
    unfold prepare_mt in H. rewrite Ew in H. discriminate.
Qed.

End ForcedEntry.
