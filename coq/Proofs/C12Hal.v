(* C12 - HAL operations: the declared size suffices (single takes, and the two-level vmp_apply_dft),
   and the facts about HAL callees that the poulpy-core proofs use.
   Every statement mentions the GENERATED formulas of Gen/C12TmpBytes_gen.v. *)
From PV Require Import Base.MachineInt Model.C12Scratch Gen.C12TmpBytes_gen Model.C12Trees Proofs.C12Arena.
Open Scope Z_scope.

Definition pow2 (n : Z) : Prop := exists e, 0 <= e /\ n = 2 ^ e.
Definition is_fam (fam : Z) : Prop := fam = 0 \/ fam = 1.

Lemma pow2_pos (n : Z) : pow2 n -> 1 <= n.
Proof. intros (e & He & ->). pose proof (Z.pow_pos_nonneg 2 e ltac:(lia) He). lia. Qed.

Lemma pow2_ge8 (n : Z) : pow2 n -> 8 <= n -> n mod 8 = 0.
Proof.
  intros (e & He & ->) H8.
  destruct (Z_lt_le_dec e 3) as [Hlt|Hge].
  - assert (e = 0 \/ e = 1 \/ e = 2) as [->|[->| ->]] by lia; cbn in H8; lia.
  - replace e with (3 + (e - 3)) by lia. rewrite Z.pow_add_r by lia.
    change (2 ^ 3) with 8. rewrite Z.mul_comm, Z.mod_mul; lia.
Qed.

(* ------------------------------------------------------------------------------------------------ *)
(* a single take of at most the whole window, at the start of a 64-aligned window *)
Lemma single_take (k b : Z) : k <= b -> 0 <= b -> run_takes (Take k) (0, b) <> None.
Proof.
  intros Hk Hb. unfold run_takes; cbn [run_tree]. unfold take, avail; cbn [fst snd].
  change (pad_of 0) with 0. destruct (Z.leb_spec k (Z.max 0 (b - 0))); [congruence|lia].
Qed.

Lemma take_words_le (w b : Z) : 0 < w -> 0 <= b -> 0 <= b / w * w <= b.
Proof.
  intros Hw Hb. pose proof (Z.mul_div_le b w Hw) as H1. pose proof (Z.div_pos b w Hb Hw) as H2.
  rewrite (Z.mul_comm (b / w) w). split; [apply Z.mul_nonneg_nonneg; lia | exact H1].
Qed.

Lemma single_take_words (w b : Z) : 0 < w -> 0 <= b -> run_takes (take_words w b) (0, b) <> None.
Proof. intros Hw Hb. unfold take_words. apply single_take; [apply take_words_le|]; auto. Qed.

Ltac fam_cases Hf := destruct Hf as [-> | ->]; cbn [Z.eqb].

(* non-negativity of products / min, for the size formulas *)
Ltac nn := repeat first [ apply Z.mul_nonneg_nonneg | apply Z.add_nonneg_nonneg | apply Z.min_glb | lia ].

(* ------------------------------------------------------------------------------------------------ *)
(* HAL theorems: run_takes (tree_Op shape) (0, tmp_bytes_Op shape) <> None, for EVERY n >= 0 (no alignment
   needed: one take from the start of the window) *)
Section HalSingle.
  Variables fam n : Z.
  Hypothesis Hf : is_fam fam.
  Hypothesis Hn : 0 <= n.

  Lemma suffices_vec_znx_normalize : run_takes (t_vec_znx_normalize n) (0, hal_vec_znx_normalize_tmp_bytes fam n) <> None.
  Proof using Hf Hn. autounfold with c12gen. apply single_take_words; lia. Qed.
  Lemma suffices_vec_znx_rsh : run_takes (t_vec_znx_rsh n) (0, hal_vec_znx_rsh_tmp_bytes fam n) <> None.
  Proof using Hf Hn. autounfold with c12gen. apply single_take_words; lia. Qed.
  Lemma suffices_vec_znx_lsh : run_takes (t_vec_znx_lsh n) (0, hal_vec_znx_lsh_tmp_bytes fam n) <> None.
  Proof using Hf Hn. autounfold with c12gen. apply single_take_words; lia. Qed.
  Lemma suffices_vec_znx_rotate_assign : run_takes (t_vec_znx_rotate_assign n) (0, hal_vec_znx_rotate_assign_tmp_bytes fam n) <> None.
  Proof using Hf Hn. autounfold with c12gen. apply single_take_words; lia. Qed.
  Lemma suffices_vec_znx_automorphism_assign :
    run_takes (t_vec_znx_automorphism_assign n) (0, hal_vec_znx_automorphism_assign_tmp_bytes fam n) <> None.
  Proof using Hf Hn. autounfold with c12gen. apply single_take_words; lia. Qed.
  Lemma suffices_vec_znx_mul_xp_minus_one_assign :
    run_takes (t_vec_znx_mul_xp_minus_one_assign n) (0, hal_vec_znx_mul_xp_minus_one_assign_tmp_bytes fam n) <> None.
  Proof using Hf Hn. autounfold with c12gen. apply single_take_words; lia. Qed.
  Lemma suffices_vec_znx_split_ring : run_takes (t_vec_znx_split_ring n) (0, hal_vec_znx_split_ring_tmp_bytes fam n) <> None.
  Proof using Hf Hn. autounfold with c12gen. apply single_take_words; lia. Qed.
  Lemma suffices_vec_znx_merge_rings : run_takes (t_vec_znx_merge_rings n) (0, hal_vec_znx_merge_rings_tmp_bytes fam n) <> None.
  Proof using Hf Hn. autounfold with c12gen. apply single_take_words; lia. Qed.

  Lemma suffices_vec_znx_big_normalize : run_takes (t_big_normalize fam n) (0, hal_vec_znx_big_normalize_tmp_bytes fam n) <> None.
  Proof using Hf Hn. unfold t_big_normalize. autounfold with c12gen. fam_cases Hf; apply single_take_words; lia. Qed.
  Lemma suffices_vec_znx_big_automorphism_assign :
    run_takes (t_big_automorphism_assign fam n) (0, hal_vec_znx_big_automorphism_assign_tmp_bytes fam n) <> None.
  Proof using Hf Hn. unfold t_big_automorphism_assign. autounfold with c12gen. fam_cases Hf; apply single_take_words; lia. Qed.
  Lemma suffices_vec_znx_idft_apply : run_takes (t_idft_apply fam n) (0, hal_vec_znx_idft_apply_tmp_bytes fam n) <> None.
  Proof using Hf Hn.
    unfold t_idft_apply. autounfold with c12gen. fam_cases Hf; [vm_compute; congruence | apply single_take_words; lia].
  Qed.
  Lemma suffices_vmp_prepare (rows cols_in cols_out size : Z) :
    run_takes (t_vmp_prepare fam n) (0, hal_vmp_prepare_tmp_bytes fam n rows cols_in cols_out size) <> None.
  Proof using Hf Hn. unfold t_vmp_prepare. autounfold with c12gen. fam_cases Hf; apply single_take_words; lia. Qed.

  Lemma suffices_vmp_apply_dft_to_dft (res_size a_size rows cols_in cols_out size : Z) :
    0 <= a_size -> 0 <= rows -> 0 <= cols_in ->
    run_takes (t_vmp_apply_dft_to_dft fam a_size rows cols_in)
              (0, hal_vmp_apply_dft_to_dft_tmp_bytes fam n res_size a_size rows cols_in cols_out size) <> None.
  Proof using Hf Hn.
    intros Ha Hr Hc. unfold t_vmp_apply_dft_to_dft. autounfold with c12gen.
    assert (0 <= Z.min a_size rows * cols_in) by nn.
    fam_cases Hf; apply single_take_words; lia.
  Qed.

  (* convolution; the size queries are called as the API documents them: (cnv_offset, res_size, a_size, b_size) *)
  Lemma suffices_cnv_prepare_left (rs a : Z) : 0 <= rs -> 0 <= a ->
    run_takes (t_cnv_prepare_left fam n rs a) (0, api_cnv_prepare_left_tmp_bytes fam n rs a) <> None.
  Proof using Hf Hn.
    intros. unfold t_cnv_prepare_left. autounfold with c12gen.
    assert (0 <= n * 1 * Z.min rs a) by nn.
    fam_cases Hf; cbn [Z.eqb]; apply single_take; lia.
  Qed.
  Lemma suffices_cnv_prepare_right (rs a : Z) : 0 <= rs -> 0 <= a ->
    run_takes (t_cnv_prepare_right fam n rs a) (0, api_cnv_prepare_right_tmp_bytes fam n rs a) <> None.
  Proof using Hf Hn.
    intros. unfold t_cnv_prepare_right. autounfold with c12gen.
    assert (0 <= n * 1 * Z.min rs a) by nn.
    fam_cases Hf; cbn [Z.eqb]; [apply single_take; lia | apply single_take_words; lia].
  Qed.
  Lemma suffices_cnv_prepare_self (rs a : Z) : 0 <= rs -> 0 <= a ->
    run_takes (t_cnv_prepare_self fam n rs a) (0, api_cnv_prepare_self_tmp_bytes fam n rs a) <> None.
  Proof using Hf Hn.
    intros. unfold t_cnv_prepare_self. autounfold with c12gen.
    assert (0 <= n * 1 * Z.min rs a) by nn.
    fam_cases Hf; cbn [Z.eqb]; apply single_take; lia.
  Qed.
  Lemma suffices_cnv_apply_dft (cnv_offset rs a b : Z) : 0 <= rs -> 1 <= a -> 1 <= b ->
    run_takes (t_cnv_apply_dft fam rs a b) (0, api_cnv_apply_dft_tmp_bytes fam n cnv_offset rs a b) <> None.
  Proof using Hf Hn.
    intros. unfold t_cnv_apply_dft. autounfold with c12gen.
    fam_cases Hf; cbn [Z.eqb]; [apply single_take_words; lia | apply single_take; lia].
  Qed.
  Lemma suffices_cnv_by_const_apply (cnv_offset rs a b : Z) : 0 <= rs -> 1 <= a -> 1 <= b ->
    run_takes (t_cnv_by_const_apply fam rs a b) (0, api_cnv_by_const_apply_tmp_bytes fam n cnv_offset rs a b) <> None.
  Proof using Hf Hn.
    intros. unfold t_cnv_by_const_apply. autounfold with c12gen.
    fam_cases Hf; cbn [Z.eqb]; [apply single_take_words; lia | apply single_take; lia].
  Qed.
End HalSingle.

(* cnv_pairwise_apply_dft: the size query takes (res_size, cnv_offset, a_size, b_size) *)
Lemma suffices_cnv_pairwise_apply_dft (fam n cnv_offset rs a b : Z) :
  is_fam fam -> 0 <= n -> 0 <= rs -> 1 <= a -> 1 <= b ->
  run_takes (t_cnv_pairwise_apply_dft fam rs a b) (0, api_cnv_pairwise_apply_dft_tmp_bytes fam n rs cnv_offset a b) <> None.
Proof.
  intros Hf Hn Hrs Ha Hb. unfold t_cnv_pairwise_apply_dft. autounfold with c12gen.
  destruct Hf as [-> | ->]; cbn [Z.eqb].
  - apply single_take_words; lia.
  - repeat match goal with |- context [?x =? 0] => destruct (Z.eqb_spec x 0) end; cbn [orb]; apply single_take; lia.
Qed.

(* ------------------------------------------------------------------------------------------------ *)
(* callee facts used by the core proofs: on n = 0 mod 8 every HAL callee is an aligned tree whose demand is
   its declared size *)
Section Callee.
  Variables fam n : Z.
  Hypothesis Hf : is_fam fam.
  Hypothesis Hn0 : 0 <= n.
  Hypothesis Hn8 : n mod 8 = 0.

  Lemma callee_normalize :
    aligned_tree (t_vec_znx_normalize n) /\ demand (t_vec_znx_normalize n) = hal_vec_znx_normalize_tmp_bytes fam n.
  Proof using Hf Hn0 Hn8. unfold t_vec_znx_normalize, take_words. autounfold with c12gen. cbn [aligned_tree demand]. unfold ALIGN. lia. Qed.
  Lemma callee_rsh : aligned_tree (t_vec_znx_rsh n) /\ demand (t_vec_znx_rsh n) = hal_vec_znx_rsh_tmp_bytes fam n.
  Proof using Hf Hn0 Hn8. unfold t_vec_znx_rsh, take_words. autounfold with c12gen. cbn [aligned_tree demand]. unfold ALIGN. lia. Qed.
  Lemma callee_lsh : aligned_tree (t_vec_znx_lsh n) /\ demand (t_vec_znx_lsh n) = hal_vec_znx_lsh_tmp_bytes fam n.
  Proof using Hf Hn0 Hn8. unfold t_vec_znx_lsh, take_words. autounfold with c12gen. cbn [aligned_tree demand]. unfold ALIGN. lia. Qed.
  Lemma callee_rotate_assign :
    aligned_tree (t_vec_znx_rotate_assign n) /\ demand (t_vec_znx_rotate_assign n) = hal_vec_znx_rotate_assign_tmp_bytes fam n.
  Proof using Hf Hn0 Hn8. unfold t_vec_znx_rotate_assign, take_words. autounfold with c12gen. cbn [aligned_tree demand]. unfold ALIGN. lia. Qed.
  Lemma callee_automorphism_assign :
    aligned_tree (t_vec_znx_automorphism_assign n) /\
    demand (t_vec_znx_automorphism_assign n) = hal_vec_znx_automorphism_assign_tmp_bytes fam n.
  Proof using Hf Hn0 Hn8. unfold t_vec_znx_automorphism_assign, take_words. autounfold with c12gen. cbn [aligned_tree demand]. unfold ALIGN. lia. Qed.
  Lemma callee_big_normalize :
    aligned_tree (t_big_normalize fam n) /\ demand (t_big_normalize fam n) = hal_vec_znx_big_normalize_tmp_bytes fam n.
  Proof using Hf Hn0 Hn8.
    unfold t_big_normalize, take_words. autounfold with c12gen.
    destruct Hf as [-> | ->]; cbn [Z.eqb aligned_tree demand]; unfold ALIGN; lia.
  Qed.
  Lemma callee_big_automorphism_assign :
    aligned_tree (t_big_automorphism_assign fam n) /\
    demand (t_big_automorphism_assign fam n) = hal_vec_znx_big_automorphism_assign_tmp_bytes fam n.
  Proof using Hf Hn0 Hn8.
    unfold t_big_automorphism_assign, take_words. autounfold with c12gen.
    destruct Hf as [-> | ->]; cbn [Z.eqb aligned_tree demand]; unfold ALIGN; lia.
  Qed.
  Lemma callee_vmp (res_size a_size rows cols_in cols_out size : Z) :
    0 <= a_size -> 0 <= rows -> 0 <= cols_in ->
    aligned_tree (t_vmp_apply_dft_to_dft fam a_size rows cols_in) /\
    demand (t_vmp_apply_dft_to_dft fam a_size rows cols_in)
      = hal_vmp_apply_dft_to_dft_tmp_bytes fam n res_size a_size rows cols_in cols_out size.
  Proof using Hf Hn0 Hn8.
    intros Ha Hr Hc. unfold t_vmp_apply_dft_to_dft, take_words. autounfold with c12gen.
    assert (0 <= Z.min a_size rows * cols_in) by nn.
    destruct Hf as [-> | ->]; cbn [Z.eqb aligned_tree demand]; unfold ALIGN; lia.
  Qed.
End Callee.

(* the size of a vmp scratch is monotone in the number of input limbs *)
Lemma vmp_bytes_mono (fam n rs a a' rows ci co size : Z) :
  is_fam fam -> a' <= a -> 0 <= ci ->
  hal_vmp_apply_dft_to_dft_tmp_bytes fam n rs a' rows ci co size <= hal_vmp_apply_dft_to_dft_tmp_bytes fam n rs a rows ci co size.
Proof.
  intros Hf Ha Hc. autounfold with c12gen.
  assert (Z.min a' rows * ci <= Z.min a rows * ci) by (apply Z.mul_le_mono_nonneg_r; lia).
  destruct Hf as [-> | ->]; cbn [Z.eqb]; lia.
Qed.

(* byte sizes of the polynomial containers are multiples of 64 when n is a multiple of 8 *)
Section Bytes.
  Variables fam n : Z.
  Hypothesis Hf : is_fam fam.
  Hypothesis Hn0 : 0 <= n.
  Hypothesis Hn8 : n mod 8 = 0.

  Lemma al_vec_znx (c s : Z) : 0 <= c -> 0 <= s -> 0 <= VecZnx_bytes_of n c s /\ VecZnx_bytes_of n c s mod 64 = 0.
  Proof using Hf Hn0 Hn8. intros. unfold VecZnx_bytes_of. assert (0 <= n * c * s) by nn. lia. Qed.
  Lemma al_scalar_znx (c : Z) : 0 <= c -> 0 <= ScalarZnx_bytes_of n c /\ ScalarZnx_bytes_of n c mod 64 = 0.
  Proof using Hf Hn0 Hn8. intros. unfold ScalarZnx_bytes_of. assert (0 <= n * c) by nn. lia. Qed.
  Lemma al_dft (c s : Z) : 0 <= c -> 0 <= s ->
    0 <= hal_bytes_of_vec_znx_dft fam n c s /\ hal_bytes_of_vec_znx_dft fam n c s mod 64 = 0.
  Proof using Hf Hn0 Hn8. intros. autounfold with c12gen. assert (0 <= n * c * s) by nn. destruct Hf as [-> | ->]; cbn [Z.eqb]; lia. Qed.
  Lemma al_big (c s : Z) : 0 <= c -> 0 <= s ->
    0 <= hal_bytes_of_vec_znx_big fam n c s /\ hal_bytes_of_vec_znx_big fam n c s mod 64 = 0.
  Proof using Hf Hn0 Hn8. intros. autounfold with c12gen. assert (0 <= n * c * s) by nn. destruct Hf as [-> | ->]; cbn [Z.eqb]; lia. Qed.
  Lemma al_svp (c : Z) : 0 <= c -> 0 <= hal_bytes_of_svp_ppol fam n c /\ hal_bytes_of_svp_ppol fam n c mod 64 = 0.
  Proof using Hf Hn0 Hn8. intros. autounfold with c12gen. assert (0 <= n * c) by nn. destruct Hf as [-> | ->]; cbn [Z.eqb]; lia. Qed.
  Lemma nn_norm : 0 <= hal_vec_znx_normalize_tmp_bytes fam n.
  Proof using Hf Hn0 Hn8. autounfold with c12gen. lia. Qed.
  Lemma nn_bnorm : 0 <= hal_vec_znx_big_normalize_tmp_bytes fam n.
  Proof using Hf Hn0 Hn8. autounfold with c12gen. destruct Hf as [-> | ->]; cbn [Z.eqb]; lia. Qed.
  (* sizes grow with the number of limbs *)
  Lemma dft_mono (c s s' : Z) : 0 <= c -> s' <= s -> hal_bytes_of_vec_znx_dft fam n c s' <= hal_bytes_of_vec_znx_dft fam n c s.
  Proof using Hf Hn0 Hn8.
    intros. autounfold with c12gen. assert (n * c * s' <= n * c * s) by (apply Z.mul_le_mono_nonneg_l; [nn|lia]).
    destruct Hf as [-> | ->]; cbn [Z.eqb]; lia.
  Qed.
  Lemma big_mono (c s s' : Z) : 0 <= c -> s' <= s -> hal_bytes_of_vec_znx_big fam n c s' <= hal_bytes_of_vec_znx_big fam n c s.
  Proof using Hf Hn0 Hn8.
    intros. autounfold with c12gen. assert (n * c * s' <= n * c * s) by (apply Z.mul_le_mono_nonneg_l; [nn|lia]).
    destruct Hf as [-> | ->]; cbn [Z.eqb]; lia.
  Qed.
End Bytes.
