(* C07 part B: the bbb accumulator (q120b x q120b) and the q120b add/sub/negate congruences. *)
From PV Require Import Base.MachineInt Model.C07Ntt120 Proofs.C07Ntt Proofs.C07Lazy.
From Coq Require Import Znumtheory.
Open Scope Z_scope.

(* ---------------- q120b add / sub / negate (arithmetic.rs add_bbb_ref, prim.rs NttSub / NttNegate) ---------------- *)
Section AddSub.
Variable q : Z.
Hypothesis Hq : 0 < q < 2 ^ 30.          (* Primes29 / Primes30: Q[k] << 33 < 2^63 *)

Lemma qshift_val : qshift q = q * 2 ^ 33 /\ 0 < q * 2 ^ 33 < 2 ^ 63.
Proof.
  unfold qshift, q_shift. change (2 ^ 30) with 1073741824 in Hq. change (2 ^ 33) with 8589934592.
  change (2 ^ 63) with 9223372036854775808.
  rewrite u64_id by (change (2 ^ 64) with 18446744073709551616; lia). lia.
Qed.

Lemma mod_qs_congr x : (x mod (q * 2 ^ 33)) mod q = x mod q.
Proof.
  destruct qshift_val as [_ Hs]. symmetry. apply Zmod_div_mod; [lia|lia|]. exists (2 ^ 33). ring.
Qed.

Theorem add_bbb_congr x y :
  add_bbb_k q x y mod q = (x + y) mod q /\ 0 <= add_bbb_k q x y < 2 * qshift q /\ 2 * qshift q < 2 ^ 64.
Proof.
  destruct qshift_val as [E Hs]. unfold add_bbb_k. rewrite E.
  pose proof (Z.mod_pos_bound x (q * 2 ^ 33) ltac:(lia)) as Hx. pose proof (Z.mod_pos_bound y (q * 2 ^ 33) ltac:(lia)) as Hy.
  change (2 ^ 63) with 9223372036854775808 in *. change (2 ^ 64) with 18446744073709551616 in *.
  rewrite u64_id by (change (2 ^ 64) with 18446744073709551616; lia).
  split; [|lia].
  rewrite Z.add_mod, !mod_qs_congr, <- Z.add_mod by lia. reflexivity.
Qed.

Theorem sub_bbb_congr x y :
  sub_bbb_k q x y mod q = (x - y) mod q /\ 0 <= sub_bbb_k q x y < 2 * qshift q.
Proof.
  destruct qshift_val as [E Hs]. unfold sub_bbb_k. rewrite E.
  pose proof (Z.mod_pos_bound x (q * 2 ^ 33) ltac:(lia)) as Hx. pose proof (Z.mod_pos_bound y (q * 2 ^ 33) ltac:(lia)) as Hy.
  change (2 ^ 63) with 9223372036854775808 in *.
  rewrite (u64_id (q * 2 ^ 33 - _)) by (change (2 ^ 64) with 18446744073709551616; lia).
  rewrite u64_id by (change (2 ^ 64) with 18446744073709551616; lia).
  split; [|lia].
  replace (x mod (q * 2 ^ 33) + (q * 2 ^ 33 - y mod (q * 2 ^ 33))) with (x mod (q * 2 ^ 33) - y mod (q * 2 ^ 33) + 2 ^ 33 * q) by ring.
  rewrite Z.mod_add by lia.
  rewrite Zminus_mod, !mod_qs_congr, <- Zminus_mod. reflexivity.
Qed.

Theorem neg_b_congr x : neg_b_k q x mod q = (- x) mod q /\ 0 < neg_b_k q x <= qshift q.
Proof.
  destruct qshift_val as [E Hs]. unfold neg_b_k. rewrite E.
  pose proof (Z.mod_pos_bound x (q * 2 ^ 33) ltac:(lia)) as Hx.
  change (2 ^ 63) with 9223372036854775808 in *.
  rewrite u64_id by (change (2 ^ 64) with 18446744073709551616; lia).
  split; [|lia].
  replace (q * 2 ^ 33 - x mod (q * 2 ^ 33)) with (0 - x mod (q * 2 ^ 33) + 2 ^ 33 * q) by ring.
  rewrite Z.mod_add by lia. rewrite Zminus_mod, mod_qs_congr, <- Zminus_mod. reflexivity.
Qed.
End AddSub.

(* add_bbb_ref is generic in the prime set and documents "fits in 64 bits provided the inputs satisfy x, y < Q[k] << 33".
   For Primes31, Q[k] << 33 is just below 2^64: the u64 addition wraps and the residue is lost. *)
Theorem add_bbb_primes31_refuted : exists x y,
  let q := qk primes31 0 in
  0 <= x < qshift q /\ 0 <= y < qshift q /\ add_bbb_k q x y mod q <> (x + y) mod q.
Proof.
  exists (qshift (qk primes31 0) - 1), (qshift (qk primes31 0) - 1). vm_compute. repeat split; discriminate.
Qed.

(* ---------------- bbb: q120b x q120b ---------------- *)
Definition parts_z (p : Z * Z) : Z * Z * Z * Z :=
  let xl := fst p mod 2 ^ 32 in let xh := fst p / 2 ^ 32 in
  let yl := snd p mod 2 ^ 32 in let yh := snd p / 2 ^ 32 in
  let a := xl * yl in let b := xl * yh in let c := xh * yl in let d := xh * yh in
  (a mod 2 ^ 32, a / 2 ^ 32 + b mod 2 ^ 32 + c mod 2 ^ 32, b / 2 ^ 32 + c / 2 ^ 32 + d mod 2 ^ 32, d / 2 ^ 32).
Definition P1 (p : Z * Z) := fst (fst (fst (parts_z p))).
Definition P2 (p : Z * Z) := snd (fst (fst (parts_z p))).
Definition P3 (p : Z * Z) := snd (fst (parts_z p)).
Definition P4 (p : Z * Z) := snd (parts_z p).
Definition pair_ok (p : Z * Z) : Prop := 0 <= fst p < 2 ^ 64 /\ 0 <= snd p < 2 ^ 64.

Lemma halves x : 0 <= x < 2 ^ 64 -> is_u32 (x mod 2 ^ 32) /\ is_u32 (x / 2 ^ 32) /\ x mod 2 ^ 32 + 2 ^ 32 * (x / 2 ^ 32) = x.
Proof.
  intros H. unfold is_u32. change (2 ^ 64) with (2 ^ 32 * 2 ^ 32) in H. change (2 ^ 32) with 4294967296 in *.
  pose proof (Z.mod_pos_bound x 4294967296 ltac:(lia)). pose proof (Z.div_mod x 4294967296 ltac:(lia)).
  assert (x / 4294967296 < 4294967296) by (apply Z.div_lt_upper_bound; lia).
  pose proof (Z.div_pos x 4294967296). lia.
Qed.

Lemma bbb_parts_ok p : pair_ok p ->
  bbb_parts p = parts_z p /\
  0 <= P1 p <= 2 ^ 32 - 1 /\ 0 <= P2 p <= 3 * (2 ^ 32 - 1) /\ 0 <= P3 p <= 3 * (2 ^ 32 - 1) /\ 0 <= P4 p <= 2 ^ 32 - 2 /\
  P1 p + 2 ^ 32 * P2 p + 2 ^ 64 * P3 p + 2 ^ 96 * P4 p = fst p * snd p.
Proof.
  intros [Hx Hy]. destruct (halves _ Hx) as (Xl & Xh & Ex). destruct (halves _ Hy) as (Yl & Yh & Ey).
  unfold P1, P2, P3, P4, bbb_parts, parts_z. cbv zeta. cbn [fst snd].
  set (xl := fst p mod 2 ^ 32) in *. set (xh := fst p / 2 ^ 32) in *.
  set (yl := snd p mod 2 ^ 32) in *. set (yh := snd p / 2 ^ 32) in *.
  pose proof (mul_u32_bound _ _ Xl Yl) as Ba. pose proof (mul_u32_bound _ _ Xl Yh) as Bb.
  pose proof (mul_u32_bound _ _ Xh Yl) as Bc. pose proof (mul_u32_bound _ _ Xh Yh) as Bd.
  pose proof (hi32_bound _ Ba) as Ha. pose proof (hi32_bound _ Bb) as Hb.
  pose proof (hi32_bound _ Bc) as Hc. pose proof (hi32_bound _ Bd) as Hd.
  assert (M : 0 < 2 ^ 32) by reflexivity.
  pose proof (Z.mod_pos_bound (xl * yl) _ M) as La. pose proof (Z.mod_pos_bound (xl * yh) _ M) as Lb.
  pose proof (Z.mod_pos_bound (xh * yl) _ M) as Lc. pose proof (Z.mod_pos_bound (xh * yh) _ M) as Ld.
  pose proof (split32 (xl * yl) ltac:(lia)) as Sa. pose proof (split32 (xl * yh) ltac:(lia)) as Sb.
  pose proof (split32 (xh * yl) ltac:(lia)) as Sc. pose proof (split32 (xh * yh) ltac:(lia)) as Sd.
  set (a := xl * yl) in *. set (b := xl * yh) in *. set (c := xh * yl) in *. set (d := xh * yh) in *.
  assert (E64 : 2 ^ 64 = 2 ^ 32 * 2 ^ 32) by reflexivity. assert (E96 : 2 ^ 96 = 2 ^ 32 * 2 ^ 32 * 2 ^ 32) by reflexivity.
  set (al := a mod 2 ^ 32) in *. set (ah := a / 2 ^ 32) in *. set (bl := b mod 2 ^ 32) in *. set (bh := b / 2 ^ 32) in *.
  set (cl := c mod 2 ^ 32) in *. set (ch := c / 2 ^ 32) in *. set (dl := d mod 2 ^ 32) in *. set (dh := d / 2 ^ 32) in *.
  assert (T : 2 ^ 32 = 4294967296) by reflexivity.
  rewrite (u64_id a), (u64_id b), (u64_id c), (u64_id d) by (rewrite E64; nia).
  fold al ah bl bh cl ch dl dh.
  rewrite (u64_id (ah + bl)), (u64_id (bh + ch)) by (rewrite E64; nia).
  rewrite (u64_id (ah + bl + cl)), (u64_id (bh + ch + dl)) by (rewrite E64; nia).
  split; [reflexivity|].
  repeat split; lia.
Qed.

Lemma mul_bound a b A B : 0 <= a <= A -> 0 <= b <= B -> 0 <= a * b <= A * B.
Proof. intros Ha Hb. split; [apply Z.mul_nonneg_nonneg; lia|apply Z.mul_le_mono_nonneg; lia]. Qed.

(* low/high split of an accumulator and its recombination with reduced powers of two *)
Lemma collapse_congr q h s pl ph w : 0 < q -> 0 <= h ->
  pl mod q = w mod q -> ph mod q = (w * 2 ^ h) mod q ->
  ((s mod 2 ^ h) * pl + (s / 2 ^ h) * ph) mod q = (s * w) mod q.
Proof.
  intros Hq Hh Hl Hhh. pose proof (pow2_pos h Hh) as Hp.
  rewrite (Z.div_mod s (2 ^ h)) at 3 by lia.
  rewrite Z.add_mod, <- (Z.mul_mod_idemp_r (s mod 2 ^ h)), Hl, <- (Z.mul_mod_idemp_r (s / 2 ^ h)), Hhh by lia.
  rewrite !Z.mul_mod_idemp_r, <- Z.add_mod by lia. f_equal. ring.
Qed.

Definition bbb_dot (xy : list (Z * Z)) : Z := lsum (map (fun p => fst p * snd p) xy).

Section Bbb.
Variables (h q : Z) (xy : list (Z * Z)).
Hypothesis Hh : 20 <= h <= 28.          (* the f64 search of BbbMeta::new returns 24 for the three prime sets *)
Hypothesis Hq : 2 ^ 15 <= q < 2 ^ 31.
Hypothesis Hell : Z.of_nat (length xy) <= bbb_max_ell.
Hypothesis Hok : forall p, In p xy -> pair_ok p.

Let s1 := lsum (map P1 xy).
Let s2 := lsum (map P2 xy).
Let s3 := lsum (map P3 xy).
Let s4 := lsum (map P4 xy).

Lemma bbb_acc_bounds : 0 <= s1 <= 10000 * (2 ^ 32 - 1) /\ 0 <= s2 <= 10000 * (3 * (2 ^ 32 - 1)) /\
                       0 <= s3 <= 10000 * (3 * (2 ^ 32 - 1)) /\ 0 <= s4 <= 10000 * (2 ^ 32 - 2).
Proof.
  unfold bbb_max_ell in Hell.
  assert (L1 : 0 <= s1 <= Z.of_nat (length (map P1 xy)) * (2 ^ 32 - 1)) by (apply lsum_bounds, in_map_bound; intros p Hp; apply (bbb_parts_ok p (Hok p Hp))).
  assert (L2 : 0 <= s2 <= Z.of_nat (length (map P2 xy)) * (3 * (2 ^ 32 - 1))) by (apply lsum_bounds, in_map_bound; intros p Hp; apply (bbb_parts_ok p (Hok p Hp))).
  assert (L3 : 0 <= s3 <= Z.of_nat (length (map P3 xy)) * (3 * (2 ^ 32 - 1))) by (apply lsum_bounds, in_map_bound; intros p Hp; apply (bbb_parts_ok p (Hok p Hp))).
  assert (L4 : 0 <= s4 <= Z.of_nat (length (map P4 xy)) * (2 ^ 32 - 2)) by (apply lsum_bounds, in_map_bound; intros p Hp; apply (bbb_parts_ok p (Hok p Hp))).
  rewrite map_length in *. change (2 ^ 32) with 4294967296 in *. nia.
Qed.

Lemma bbb_sums_exact :
  let ps := map bbb_parts xy in
  sum64 (map (fun p => fst (fst (fst p))) ps) = s1 /\ sum64 (map (fun p => snd (fst (fst p))) ps) = s2 /\
  sum64 (map (fun p => snd (fst p)) ps) = s3 /\ sum64 (map (fun p => snd p) ps) = s4.
Proof.
  cbv zeta. destruct bbb_acc_bounds as (B1 & B2 & B3 & B4).
  assert (E : map bbb_parts xy = map parts_z xy) by (apply map_ext_in; intros p Hp; apply (bbb_parts_ok p (Hok p Hp))).
  rewrite E, !map_map.
  change (map (fun x => fst (fst (fst (parts_z x)))) xy) with (map P1 xy).
  change (map (fun x => snd (fst (fst (parts_z x)))) xy) with (map P2 xy).
  change (map (fun x => snd (fst (parts_z x))) xy) with (map P3 xy).
  change (map (fun x => snd (parts_z x)) xy) with (map P4 xy).
  change (2 ^ 32) with 4294967296 in *.
  repeat split; apply sum64_exact;
    try (intros t Ht; apply in_map_iff in Ht as (p & <- & Hp); apply (bbb_parts_ok p (Hok p Hp)));
    change (2 ^ 64) with 18446744073709551616; fold s1 s2 s3 s4; lia.
Qed.

Definition bbb_exact : Z :=
  let w32 := 2 ^ 32 mod q in
  let w32h := (w32 * 2 ^ h) mod q in
  let w64 := (w32 * w32) mod q in
  let w64h := (w64 * 2 ^ h) mod q in
  let w96 := (w64 * w32) mod q in
  let w96h := (w96 * 2 ^ h) mod q in
  s1 mod 2 ^ h + s1 / 2 ^ h * 2 ^ h + s2 mod 2 ^ h * w32 + s2 / 2 ^ h * w32h +
  s3 mod 2 ^ h * w64 + s3 / 2 ^ h * w64h + s4 mod 2 ^ h * w96 + s4 / 2 ^ h * w96h.

Theorem lazy_budget_bbb : bbb_k h q xy = bbb_exact /\ 0 <= bbb_exact < 2 ^ 63.
Proof.
  destruct bbb_acc_bounds as (B1 & B2 & B3 & B4). destruct bbb_sums_exact as (S1 & S2 & S3 & S4).
  unfold bbb_k. cbv zeta. rewrite S1, S2, S3, S4. unfold bbb_exact, pow2_mod. cbv zeta.
  assert (Hq' : 0 < q) by (change (2 ^ 15) with 32768 in Hq; lia).
  assert (H2h : 2 ^ 20 <= 2 ^ h <= 2 ^ 28) by (split; apply Z.pow_le_mono_r; lia).
  change (2 ^ 20) with 1048576 in H2h. change (2 ^ 28) with 268435456 in H2h.
  change (2 ^ 31) with 2147483648 in Hq. change (2 ^ 15) with 32768 in Hq. change (2 ^ 32) with 4294967296 in B1, B2, B3, B4.
  set (H := 2 ^ h) in *.
  assert (T64 : 2 ^ 64 = 18446744073709551616) by reflexivity.
  rewrite (u64_id H) by lia.
  set (w32 := 2 ^ 32 mod q). pose proof (Z.mod_pos_bound (2 ^ 32) q Hq') as W32. fold w32 in W32.
  assert (W32H : 0 <= w32 * H < 2 ^ 64) by nia. rewrite (u64_id (w32 * H)) by exact W32H.
  assert (W32W : 0 <= w32 * w32 < 2 ^ 64) by nia. rewrite (u64_id (w32 * w32)) by exact W32W.
  set (w32h := (w32 * H) mod q). pose proof (Z.mod_pos_bound (w32 * H) q Hq') as W32h. fold w32h in W32h.
  set (w64 := (w32 * w32) mod q). pose proof (Z.mod_pos_bound (w32 * w32) q Hq') as W64. fold w64 in W64.
  assert (W64H : 0 <= w64 * H < 2 ^ 64) by nia. rewrite (u64_id (w64 * H)) by exact W64H.
  assert (W64W : 0 <= w64 * w32 < 2 ^ 64) by nia. rewrite (u64_id (w64 * w32)) by exact W64W.
  set (w64h := (w64 * H) mod q). pose proof (Z.mod_pos_bound (w64 * H) q Hq') as W64h. fold w64h in W64h.
  set (w96 := (w64 * w32) mod q). pose proof (Z.mod_pos_bound (w64 * w32) q Hq') as W96. fold w96 in W96.
  assert (W96H : 0 <= w96 * H < 2 ^ 64) by nia. rewrite (u64_id (w96 * H)) by exact W96H.
  set (w96h := (w96 * H) mod q). pose proof (Z.mod_pos_bound (w96 * H) q Hq') as W96h. fold w96h in W96h.
  assert (HH : 0 < H) by lia.
  pose proof (Z.mod_pos_bound s1 H HH) as L1. pose proof (Z.mod_pos_bound s2 H HH) as L2.
  pose proof (Z.mod_pos_bound s3 H HH) as L3. pose proof (Z.mod_pos_bound s4 H HH) as L4.
  assert (D : forall s, 0 <= s <= 128849018850000 -> 0 <= s / H <= 122879999).
  { intros s Hs. split; [apply Z.div_pos; lia|].
    apply Z.le_trans with (s / 1048576); [apply Z.div_le_compat_l; lia|].
    apply Z.le_trans with (128849018850000 / 1048576); [apply Z.div_le_mono; lia|]. vm_compute; discriminate. }
  pose proof (D s1 ltac:(lia)) as D1. pose proof (D s2 ltac:(lia)) as D2.
  pose proof (D s3 ltac:(lia)) as D3. pose proof (D s4 ltac:(lia)) as D4.
  assert (D1' : 0 <= s1 / H * H <= s1) by (pose proof (Z.div_mod s1 H ltac:(lia)); lia).
  set (l1 := s1 mod H) in *. set (h1 := s1 / H) in *. set (l2 := s2 mod H) in *. set (h2 := s2 / H) in *.
  set (l3 := s3 mod H) in *. set (h3 := s3 / H) in *. set (l4 := s4 mod H) in *. set (h4 := s4 / H) in *.
  assert (A2 : 0 <= l2 * w32 <= 268435456 * 2147483648) by (apply mul_bound; lia).
  assert (A3 : 0 <= h2 * w32h <= 122879999 * 2147483648) by (apply mul_bound; lia).
  assert (A4 : 0 <= l3 * w64 <= 268435456 * 2147483648) by (apply mul_bound; lia).
  assert (A5 : 0 <= h3 * w64h <= 122879999 * 2147483648) by (apply mul_bound; lia).
  assert (A6 : 0 <= l4 * w96 <= 268435456 * 2147483648) by (apply mul_bound; lia).
  assert (A7 : 0 <= h4 * w96h <= 122879999 * 2147483648) by (apply mul_bound; lia).
  change (2 ^ 63) with 9223372036854775808.
  rewrite (u64_id (h1 * H)), (u64_id (l2 * w32)), (u64_id (h2 * w32h)), (u64_id (l3 * w64)),
          (u64_id (h3 * w64h)), (u64_id (l4 * w96)), (u64_id (h4 * w96h)) by (rewrite T64; lia).
  rewrite (u64_id (l1 + h1 * H)) by (rewrite T64; lia).
  rewrite (u64_id (l1 + h1 * H + l2 * w32)) by (rewrite T64; lia).
  rewrite (u64_id (l1 + h1 * H + l2 * w32 + h2 * w32h)) by (rewrite T64; lia).
  rewrite (u64_id (l1 + h1 * H + l2 * w32 + h2 * w32h + l3 * w64)) by (rewrite T64; lia).
  rewrite (u64_id (l1 + h1 * H + l2 * w32 + h2 * w32h + l3 * w64 + h3 * w64h)) by (rewrite T64; lia).
  rewrite (u64_id (l1 + h1 * H + l2 * w32 + h2 * w32h + l3 * w64 + h3 * w64h + l4 * w96)) by (rewrite T64; lia).
  rewrite u64_id by (rewrite T64; lia).
  split; [reflexivity|lia].
Qed.

Theorem bbb_congr : bbb_k h q xy mod q = bbb_dot xy mod q.
Proof.
  destruct lazy_budget_bbb as [-> _]. unfold bbb_exact. cbv zeta.
  assert (Hq' : 0 < q) by (change (2 ^ 15) with 32768 in Hq; lia).
  assert (Hqn : q <> 0) by lia.
  assert (Hh0 : 0 <= h) by lia.
  assert (E : bbb_dot xy = s1 * 1 + s2 * 2 ^ 32 + s3 * 2 ^ 64 + s4 * 2 ^ 96).
  { unfold bbb_dot, s1, s2, s3, s4.
    rewrite (lsum_map_ext (fun p => fst p * snd p) (fun p => (P1 p + 2 ^ 32 * P2 p) + (2 ^ 64 * P3 p + 2 ^ 96 * P4 p)))
      by (intros p Hp; destruct (bbb_parts_ok p (Hok p Hp)) as (_ & _ & _ & _ & _ & Hid); lia).
    rewrite (lsum_map_add (fun p => P1 p + 2 ^ 32 * P2 p)), (lsum_map_add P1), (lsum_map_add (fun p => 2 ^ 64 * P3 p)).
    rewrite !lsum_map_scale. ring. }
  rewrite E. clear E Hok Hell Hh.
  set (w32 := 2 ^ 32 mod q). set (w64 := (w32 * w32) mod q). set (w96 := (w64 * w32) mod q).
  assert (C32 : w32 mod q = 2 ^ 32 mod q) by (unfold w32; apply Z.mod_mod; exact Hqn).
  assert (C64 : w64 mod q = 2 ^ 64 mod q).
  { unfold w64. rewrite Z.mod_mod by exact Hqn. unfold w32. rewrite <- Z.mul_mod by exact Hqn. reflexivity. }
  assert (C96 : w96 mod q = 2 ^ 96 mod q).
  { unfold w96. rewrite Z.mod_mod by exact Hqn. rewrite Z.mul_mod, C64, C32, <- Z.mul_mod by exact Hqn. reflexivity. }
  assert (K1 : (s1 mod 2 ^ h * 1 + s1 / 2 ^ h * 2 ^ h) mod q = (s1 * 1) mod q).
  { apply collapse_congr; [exact Hq'|exact Hh0|reflexivity|f_equal; ring]. }
  assert (K2 : (s2 mod 2 ^ h * w32 + s2 / 2 ^ h * ((w32 * 2 ^ h) mod q)) mod q = (s2 * 2 ^ 32) mod q).
  { apply collapse_congr; [exact Hq'|exact Hh0|exact C32|].
    rewrite Z.mod_mod by exact Hqn. rewrite Z.mul_mod, C32, <- Z.mul_mod by exact Hqn. reflexivity. }
  assert (K3 : (s3 mod 2 ^ h * w64 + s3 / 2 ^ h * ((w64 * 2 ^ h) mod q)) mod q = (s3 * 2 ^ 64) mod q).
  { apply collapse_congr; [exact Hq'|exact Hh0|exact C64|].
    rewrite Z.mod_mod by exact Hqn. rewrite Z.mul_mod, C64, <- Z.mul_mod by exact Hqn. reflexivity. }
  assert (K4 : (s4 mod 2 ^ h * w96 + s4 / 2 ^ h * ((w96 * 2 ^ h) mod q)) mod q = (s4 * 2 ^ 96) mod q).
  { apply collapse_congr; [exact Hq'|exact Hh0|exact C96|].
    rewrite Z.mod_mod by exact Hqn. rewrite Z.mul_mod, C96, <- Z.mul_mod by exact Hqn. reflexivity. }
  rewrite Z.mul_1_r in K1.
  replace (s1 mod 2 ^ h + s1 / 2 ^ h * 2 ^ h + s2 mod 2 ^ h * w32 + s2 / 2 ^ h * ((w32 * 2 ^ h) mod q) +
           s3 mod 2 ^ h * w64 + s3 / 2 ^ h * ((w64 * 2 ^ h) mod q) + s4 mod 2 ^ h * w96 + s4 / 2 ^ h * ((w96 * 2 ^ h) mod q))
     with ((s1 mod 2 ^ h + s1 / 2 ^ h * 2 ^ h) + (s2 mod 2 ^ h * w32 + s2 / 2 ^ h * ((w32 * 2 ^ h) mod q)) +
           (s3 mod 2 ^ h * w64 + s3 / 2 ^ h * ((w64 * 2 ^ h) mod q)) + (s4 mod 2 ^ h * w96 + s4 / 2 ^ h * ((w96 * 2 ^ h) mod q))) by ring.
  rewrite add4_mod, K1, K2, K3, K4, <- add4_mod by exact Hq'. reflexivity.
Qed.
End Bbb.

(* the generated constants lie in the domains of the budget theorems *)
Lemma generated_in_budget_domain : forall ps, In ps three_sets ->
  bbc_h_lo <= ps_bbc_h ps < bbc_h_hi /\ 20 <= ps_bbb_h ps <= 28 /\
  forall k, (k < 4)%nat -> 2 ^ 15 <= qk ps k < 2 ^ 31.
Proof.
  intros ps Hin.
  assert (Hc : (bbc_h_lo <=? ps_bbc_h ps) && (ps_bbc_h ps <? bbc_h_hi) && (20 <=? ps_bbb_h ps) && (ps_bbb_h ps <=? 28) &&
               forallb (fun k => (2 ^ 15 <=? qk ps k) && (qk ps k <? 2 ^ 31)) (seq 0 4) = true)
    by (cbn [In three_sets] in Hin; destruct Hin as [<-|[<-|[<-|[]]]]; vm_compute; reflexivity).
  apply andb_prop in Hc as [Hc Hall]. apply andb_prop in Hc as [Hc H4]. apply andb_prop in Hc as [Hc H3].
  apply andb_prop in Hc as [H1 H2].
  apply Z.leb_le in H1. apply Z.ltb_lt in H2. apply Z.leb_le in H3. apply Z.leb_le in H4.
  split; [lia|]. split; [lia|].
  intros k Hk. rewrite forallb_forall in Hall. specialize (Hall k ltac:(apply in_seq; lia)).
  apply andb_prop in Hall as [A B]. apply Z.leb_le in A. apply Z.ltb_lt in B. lia.
Qed.
