(* C14: mod_switch_2n (range and rounding in the first branch, refutation of the rule in the second) and set_xai_plus_y. *)
From PV Require Import Base.MachineInt Model.Znx Model.Limbs Model.Ring Model.Poly Model.C14Lut Model.C14Spec
  Model.C14Blind Model.C14Run Model.C14Oracle.
From PV Require Import Proofs.C09Lists Proofs.C09Ring.
Open Scope Z_scope.

Lemma ms_log2n_pow2 t : 1 <= t -> ms_log2n (2 ^ t) = t + 1.
Proof.
  intros Ht. unfold ms_log2n, bitlen.
  assert (Hp : 2 <= 2 ^ t).
  { replace 2 with (2 ^ 1) at 1 by reflexivity. apply Z.pow_le_mono_r; lia. }
  destruct (Z.leb_spec (2 ^ t - 1) 0); [lia|].
  replace (2 ^ t - 1) with (Z.pred (2 ^ t)) by lia. rewrite Z.log2_pred_pow2 by lia. lia.
Qed.

(* (x + 2^(k-1)) >> k is x / 2^k rounded to nearest, ties up *)
Lemma div_round_by_pow2_spec x k : 1 <= k <= 62 -> Z.abs x <= 2 ^ 62 ->
  div_round_by_pow2 x k = (x + 2 ^ (k - 1)) / 2 ^ k.
Proof.
  intros Hk Hx. unfold div_round_by_pow2, asr, wadd, shl.
  assert (H1 : 0 < 2 ^ (k - 1) <= 2 ^ 61) by (split; [apply pow2_pos; lia | apply Z.pow_le_mono_r; lia]).
  assert (H62 : 2 ^ 62 = 2 * 2 ^ 61) by reflexivity.
  assert (H63 : 2 ^ (64 - 1) = 4 * 2 ^ 61) by reflexivity.
  rewrite Z.mul_1_l.
  rewrite (wrap_id 64 (2 ^ (k - 1))) by (unfold in_range; lia).
  rewrite wrap_id by (unfold in_range; lia). reflexivity.
Qed.

Lemma round_bounds (sx d : Z) : 1 <= d ->
  let r := (sx + 2 ^ (d - 1)) / 2 ^ d in
  Z.abs (r * 2 ^ d - sx) <= 2 ^ (d - 1).
Proof.
  intros Hd r. pose proof (pow2_split d Hd) as Hs. pose proof (pow2_pos (d - 1) ltac:(lia)) as Hp.
  pose proof (Z.div_mod (sx + 2 ^ (d - 1)) (2 ^ d) ltac:(lia)) as Hdm.
  pose proof (Z.mod_pos_bound (sx + 2 ^ (d - 1)) (2 ^ d) ltac:(lia)) as Hmb.
  fold r in Hdm. lia.
Qed.

(* ---- the integer a column of limbs denotes ---- *)
Lemma limbs_int_app b l d : limbs_int b (l ++ [d]) = limbs_int b l * 2 ^ b + d.
Proof. unfold limbs_int. rewrite fold_left_app. reflexivity. Qed.

Lemma firstn_succ_nth (l : list Z) j : (j < length l)%nat -> firstn (S j) l = firstn j l ++ [nthZ l j].
Proof.
  revert j. induction l as [|h t IH]; intros j Hj; cbn [length] in Hj; [lia|].
  destruct j as [|j]; [reflexivity|]. cbn [firstn app]. unfold nthZ. cbn [nth]. f_equal. apply IH. lia.
Qed.

Lemma limbs_int_bound b (l : list Z) : 1 <= b ->
  Forall (fun d => Z.abs d <= 2 ^ (b - 1)) l -> Z.abs (limbs_int b l) <= 2 ^ (Z.of_nat (length l) * b) - 1.
Proof.
  intros Hb. induction l as [|d t IH] using rev_ind; intros H.
  - cbn. lia.
  - apply Forall_app in H. destruct H as [Ht Hd]. inversion Hd as [|? ? Hd1 _]; subst.
    rewrite limbs_int_app, app_length. cbn [length]. specialize (IH Ht).
    replace (Z.of_nat (length t + 1) * b) with (Z.of_nat (length t) * b + b) by lia.
    rewrite Z.pow_add_r by lia.
    pose proof (pow2_split b Hb) as Hs. pose proof (pow2_pos (b - 1) ltac:(lia)) as Hp.
    pose proof (pow2_pos (Z.of_nat (length t) * b) ltac:(lia)) as Hq.
    set (V := limbs_int b t) in *. set (P := 2 ^ (Z.of_nat (length t) * b)) in *. set (H2 := 2 ^ (b - 1)) in *.
    assert (Z.abs (V * 2 ^ b) <= (P - 1) * 2 ^ b) by (rewrite Z.abs_mul, (Z.abs_eq (2 ^ b)) by lia; nia).
    lia.
Qed.

Lemma Forall_firstn_g {A} (P : A -> Prop) (k : nat) (l : list A) : Forall P l -> Forall P (firstn k l).
Proof.
  revert k; induction l as [|h t IH]; intros [|k] H; cbn [firstn]; auto.
  inversion H; subst. constructor; auto.
Qed.

Section ModSwitch.
Variables (t b : Z) (left : bool) (ls : list (list Z)) (w : nat).
Hypothesis Ht : 1 <= t <= 61.
Hypothesis Hb : 1 <= b <= 62.
Hypothesis Hne : (0 < length ls)%nat.
Hypothesis Hw : Forall (fun l : list Z => length l = w) ls.
Hypothesis Hnorm : Forall (Forall (in_range b)) ls.        (* every limb is a balanced digit *)

Let sg (x : Z) : Z := if left then - x else x.
Let sg64 (x : Z) : Z := if left then wneg 64 x else x.
Let col (i : nat) : list Z := map (fun l => sg (nthZ l i)) ls.
Let step (res : list Z) (j : nat) : list Z := map2 (fun x y => wadd 64 (shl 64 y b) (sg64 x)) (nth j ls []) res.
Let res1 : list Z := if left then map (wneg 64) (nth 0 ls []) else nth 0 ls [].

Lemma limb_len j : (j < length ls)%nat -> length (nth j ls []) = w.
Proof. intros Hj. rewrite Forall_forall in Hw. apply Hw. apply nth_In. exact Hj. Qed.
Lemma limb_range j i : (j < length ls)%nat -> (i < w)%nat -> in_range b (nthZ (nth j ls []) i).
Proof.
  intros Hj Hi. rewrite Forall_forall in Hnorm. pose proof (Hnorm _ (nth_In ls [] Hj)) as H.
  apply Forall_nthZ; [exact H | rewrite limb_len; auto].
Qed.
Lemma sg64_exact j i : (j < length ls)%nat -> (i < w)%nat -> sg64 (nthZ (nth j ls []) i) = sg (nthZ (nth j ls []) i).
Proof.
  intros Hj Hi. unfold sg64, sg. destruct left; [|reflexivity].
  pose proof (limb_range j i Hj Hi) as [H1 H2].
  assert (2 ^ (b - 1) <= 2 ^ 61) by (apply Z.pow_le_mono_r; lia).
  unfold wneg. apply wrap_id; [lia|]. unfold in_range. assert (2 ^ (64 - 1) = 4 * 2 ^ 61) by reflexivity. lia.
Qed.
Lemma col_length i : length (col i) = length ls.
Proof. apply map_length. Qed.
Lemma col_nth i j : (j < length ls)%nat -> nthZ (col i) j = sg (nthZ (nth j ls []) i).
Proof. intros Hj. unfold col, nthZ at 1. rewrite (nth_indep _ 0 (sg (nthZ [] i))) by (rewrite map_length; auto). rewrite (map_nth (fun l => sg (nthZ l i))). reflexivity. Qed.
Lemma col_digits i : (i < w)%nat -> Forall (fun d => Z.abs d <= 2 ^ (b - 1)) (col i).
Proof.
  intros Hi. apply Forall_of_nthZ. intros j Hj. rewrite col_length in Hj. rewrite col_nth by auto.
  pose proof (limb_range j i Hj Hi) as [H1 H2]. unfold sg. destruct left; lia.
Qed.

Lemma fold_acc (k : nat) : (k < length ls)%nat -> (Z.of_nat k + 1) * b <= 62 ->
  length (fold_left step (seq 1 k) res1) = w /\
  forall i, (i < w)%nat -> nthZ (fold_left step (seq 1 k) res1) i = limbs_int b (firstn (S k) (col i)).
Proof.
  induction k as [|k IH]; intros Hk Hkb.
  - cbn [seq fold_left]. split.
    + unfold res1. destruct left; rewrite ?map_length; apply limb_len; auto.
    + intros i Hi. rewrite firstn_succ_nth by (rewrite col_length; auto). cbn [firstn app].
      rewrite col_nth by auto. unfold limbs_int. cbn [fold_left]. rewrite Z.mul_0_l, Z.add_0_l.
      rewrite <- sg64_exact by auto. unfold res1, sg64. destruct left; [|reflexivity].
      apply nthZ_map. rewrite limb_len; auto.
  - destruct (IH ltac:(lia) ltac:(lia)) as [HL HV].
    rewrite seq_S, fold_left_app. cbn [fold_left Nat.add].
    set (r := fold_left step (seq 1 k) res1) in *.
    assert (Hll : length (nth (S k) ls []) = w) by (apply limb_len; auto).
    split; [unfold step, map2; rewrite map_length, combine_length; lia|].
    intros i Hi. unfold step, map2.
    set (h := fun p : Z * Z => wadd 64 (shl 64 (snd p) b) (sg64 (fst p))).
    unfold nthZ at 1. rewrite (nth_indep _ 0 (h (0, 0))) by (rewrite map_length, combine_length; lia).
    rewrite (map_nth h). rewrite combine_nth by lia. unfold h. cbn [fst snd].
    fold (nthZ (nth (S k) ls []) i). fold (nthZ r i).
    rewrite HV by auto. rewrite sg64_exact by auto.
    rewrite (firstn_succ_nth (col i) (S k)) by (rewrite col_length; auto).
    rewrite limbs_int_app, col_nth by auto.
    set (V := limbs_int b (firstn (S k) (col i))).
    assert (HVb : Z.abs V <= 2 ^ (Z.of_nat (S k) * b) - 1).
    { pose proof (limbs_int_bound b (firstn (S k) (col i)) ltac:(lia)
                    ltac:(apply Forall_firstn_g; apply col_digits; auto)) as H.
      rewrite firstn_length, col_length in H. replace (Nat.min (S k) (length ls)) with (S k) in H by lia. exact H. }
    pose proof (limb_range (S k) i Hk Hi) as [Hd1 Hd2].
    set (d := sg (nthZ (nth (S k) ls []) i)).
    assert (Hd : Z.abs d <= 2 ^ (b - 1)) by (unfold d, sg; destruct left; lia).
    assert (Hb61 : 2 ^ (b - 1) <= 2 ^ 61) by (apply Z.pow_le_mono_r; lia).
    assert (Hp : 2 ^ (Z.of_nat (S k) * b) * 2 ^ b <= 2 ^ 62).
    { rewrite <- Z.pow_add_r by lia. apply Z.pow_le_mono_r; lia. }
    pose proof (pow2_pos b ltac:(lia)) as Hpb. pose proof (pow2_pos (Z.of_nat (S k) * b) ltac:(lia)) as Hpk.
    assert (HVs : Z.abs (V * 2 ^ b) <= 2 ^ 62 - 1) by (rewrite Z.abs_mul, (Z.abs_eq (2 ^ b)) by lia; nia).
    assert (H62 : 2 ^ 62 = 2 * 2 ^ 61) by reflexivity. assert (H63 : 2 ^ (64 - 1) = 4 * 2 ^ 61) by reflexivity.
    unfold wadd, shl. rewrite (wrap_id 64 (V * 2 ^ b)) by (unfold in_range; lia).
    apply wrap_id; [lia|]. unfold in_range. lia.
Qed.

Let size := Z.min (div_ceil (t + 1) b) (Z.of_nat (length ls)).
Let tot := size * b.
Hypothesis Htot : tot <= 62.

Lemma size_pos : 1 <= size <= Z.of_nat (length ls).
Proof.
  unfold size, div_ceil. assert (1 <= (t + 1 + b - 1) / b) by (apply Z.div_le_lower_bound; lia). lia.
Qed.

(* both branches: the first `size` limbs, direction sign applied, are rounded to t = log2(2N ext) bits (ties up);
   a ciphertext with fewer limbs than t bits is zero-extended *)
Theorem mod_switch_rounds :
  exists res, mod_switch_2n (2 ^ t) b left ls = Some res /\ length res = w /\
    forall i, (i < w)%nat ->
      let A := limbs_int b (firstn (Z.to_nat size) (col i)) in
      nthZ res i = (if t <? tot then (A + 2 ^ (tot - t - 1)) / 2 ^ (tot - t) else A * 2 ^ (t - tot)) /\
      Z.abs (nthZ res i * 2 ^ tot - A * 2 ^ t) <= 2 ^ (tot - 1) /\
      Z.abs (nthZ res i) <= 2 ^ t.
Proof.
  pose proof size_pos as Hsz.
  assert (Hfinal : forall (acc : list Z), length acc = w ->
            (forall i, (i < w)%nat -> nthZ acc i = limbs_int b (firstn (Z.to_nat size) (col i))) ->
            let res := if t <? tot then map (fun x => div_round_by_pow2 x (tot - t)) acc else map (fun x => shl 64 x (t - tot)) acc in
            length res = w /\ forall i, (i < w)%nat ->
              let A := limbs_int b (firstn (Z.to_nat size) (col i)) in
              nthZ res i = (if t <? tot then (A + 2 ^ (tot - t - 1)) / 2 ^ (tot - t) else A * 2 ^ (t - tot)) /\
              Z.abs (nthZ res i * 2 ^ tot - A * 2 ^ t) <= 2 ^ (tot - 1) /\
              Z.abs (nthZ res i) <= 2 ^ t).
  { intros acc Hl Hv. cbv zeta. split; [destruct (t <? tot); rewrite map_length; exact Hl|].
    intros i Hi. set (A := limbs_int b (firstn (Z.to_nat size) (col i))).
    assert (HA : Z.abs A <= 2 ^ tot - 1).
    { pose proof (limbs_int_bound b (firstn (Z.to_nat size) (col i)) ltac:(lia)
                    ltac:(apply Forall_firstn_g; apply col_digits; auto)) as H.
      rewrite firstn_length, col_length in H.
      replace (Z.of_nat (Nat.min (Z.to_nat size) (length ls)) * b) with tot in H by (unfold tot; lia). exact H. }
    assert (Htp : 2 ^ tot <= 2 ^ 62) by (apply Z.pow_le_mono_r; lia).
    assert (Htot1 : 1 <= tot) by (unfold tot; nia).
    pose proof (pow2_pos tot ltac:(lia)) as Hpt.
    destruct (Z.ltb_spec t tot) as [Hlt|Hge].
    - rewrite nthZ_map by (rewrite Hl; auto). rewrite Hv by auto. fold A.
      rewrite div_round_by_pow2_spec by lia.
      replace (tot - t - 1) with ((tot - t) - 1) by lia.
      split; [reflexivity|].
      pose proof (round_bounds A (tot - t) ltac:(lia)) as Hr. cbv zeta in Hr.
      set (r := (A + 2 ^ (tot - t - 1)) / 2 ^ (tot - t)) in *.
      assert (E1 : 2 ^ tot = 2 ^ (tot - t) * 2 ^ t) by (rewrite <- Z.pow_add_r by lia; f_equal; lia).
      assert (E2 : 2 ^ (tot - 1) = 2 ^ (tot - t - 1) * 2 ^ t) by (rewrite <- Z.pow_add_r by lia; f_equal; lia).
      pose proof (pow2_pos t ltac:(lia)) as Hp2.
      pose proof (pow2_pos (tot - t) ltac:(lia)) as Hpd. pose proof (pow2_split (tot - t) ltac:(lia)) as Hsd.
      replace (tot - t - 1) with ((tot - t) - 1) in * by lia.
      split.
      + rewrite E1, E2. replace (r * (2 ^ (tot - t) * 2 ^ t) - A * 2 ^ t) with ((r * 2 ^ (tot - t) - A) * 2 ^ t) by ring.
        rewrite Z.abs_mul, (Z.abs_eq (2 ^ t)) by lia. nia.
      + rewrite E1 in HA. set (D := 2 ^ (tot - t)) in *. set (T := 2 ^ t) in *. set (Hh := 2 ^ (tot - t - 1)) in *.
        assert (Z.abs (r * D) <= D * T - 1 + Hh) by lia.
        rewrite Z.abs_mul, (Z.abs_eq D) in H by lia. nia.
    - rewrite nthZ_map by (rewrite Hl; auto). rewrite Hv by auto. fold A.
      assert (E1 : 2 ^ t = 2 ^ (t - tot) * 2 ^ tot) by (rewrite <- Z.pow_add_r by lia; f_equal; lia).
      pose proof (pow2_pos (t - tot) ltac:(lia)) as Hp2.
      assert (Ht61 : 2 ^ t <= 2 ^ 61) by (apply Z.pow_le_mono_r; lia).
      assert (HAs : Z.abs (A * 2 ^ (t - tot)) <= 2 ^ 61) by (rewrite Z.abs_mul, (Z.abs_eq (2 ^ (t - tot))) by lia; nia).
      unfold shl. rewrite wrap_id by (unfold in_range; assert (2 ^ (64 - 1) = 4 * 2 ^ 61) by reflexivity; lia).
      split; [reflexivity|]. split.
      + replace (A * 2 ^ (t - tot) * 2 ^ tot - A * 2 ^ t) with 0 by (rewrite E1; ring).
        cbn [Z.abs]. pose proof (pow2_pos (tot - 1) ltac:(lia)). lia.
      + rewrite Z.abs_mul, (Z.abs_eq (2 ^ (t - tot))) by lia. rewrite E1. nia. }
  unfold mod_switch_2n. cbv zeta. rewrite ms_log2n_pow2 by lia.
  destruct (Nat.eqb_spec (length ls) 0); [lia|].
  replace (t + 1 - 1) with t by lia.
  destruct (Z.ltb_spec (t + 1) b) as [Hbr|Hbr].
  - (* first branch: one limb *)
    assert (Hs1 : size = 1).
    { unfold size, div_ceil. replace ((t + 1 + b - 1) / b) with 1; [lia|].
      apply (Z.div_unique_pos (t + 1 + b - 1) b 1 t); lia. }
    assert (Htb : tot = b) by (unfold tot; lia).
    destruct (fold_acc 0 ltac:(lia) ltac:(lia)) as [HL HV]. cbn [seq fold_left] in HL, HV.
    pose proof (Hfinal res1 HL ltac:(intros i Hi; rewrite Hs1; apply HV; exact Hi)) as HF. cbv zeta in HF.
    fold res1. replace (b - t) with (tot - t) by lia.
    revert HF. destruct (Z.ltb_spec t tot) as [_|Hbad]; [|lia]. intros HF.
    eexists. split; [reflexivity|]. exact HF.
  - set (k := (Z.to_nat size - 1)%nat).
    assert (Hk : (k < length ls)%nat) by (unfold k; lia).
    destruct (fold_acc k Hk ltac:(unfold k, tot in *; lia)) as [HL HV].
    fold size. fold k. fold res1. fold tot.
    change (fun (res : list Z) (i : nat) => map2 (fun x y : Z => wadd 64 (shl 64 y b) (if left then wneg 64 x else x)) (nth i ls []) res) with step.
    pose proof (Hfinal (fold_left step (seq 1 k) res1) HL
                  ltac:(intros i Hi; replace (Z.to_nat size) with (S k) by (unfold k; lia); apply HV; exact Hi)) as HF.
    cbv zeta in HF. eexists. split; [reflexivity|]. exact HF.
Qed.

End ModSwitch.

(* ------------------------------------------------------------------ set_xai_plus_y *)
Lemma nthZ_zeros' s u : nthZ (zeros s) u = 0.
Proof. unfold zeros. revert u; induction s as [|s IH]; intros [|u]; cbn [repeat]; try reflexivity. unfold nthZ in *. cbn [nth]. apply IH. Qed.
Lemma zeros_length s : length (zeros s) = s.
Proof. apply repeat_length. Qed.

Section Xai.
Variables (m : Z) (ai y : Z).
Hypothesis Hm : 0 <= m.
Let n := 2 ^ m.
Let nn := Z.to_nat n.
Hypothesis Hai : 0 <= ai < 2 * n.

Lemma n_posZ : 0 < n. Proof. apply pow2_pos. exact Hm. Qed.

Lemma xai_index_val : xai_index n ai = Z.to_nat (if ai <? n then ai else ai - n).
Proof.
  unfold xai_index. destruct (Z.ltb_spec ai n); [reflexivity|]. f_equal.
  replace (n - 1) with (Z.ones m) by (rewrite Z.ones_equiv; unfold n; lia).
  rewrite Z.land_ones by exact Hm. fold n. apply Z.mod_small. lia.
Qed.

(* coefficient j of X^ai in Z[X]/(X^n+1) *)
Lemma monomial_coeff (j : nat) : (j < nn)%nat ->
  nthZ (monomial_mul 64 ai (upd (zeros nn) 0 1)) j =
  if ai <? n then (if Z.of_nat j =? ai then 1 else 0) else (if Z.of_nat j =? ai - n then -1 else 0).
Proof.
  intros Hj. pose proof n_posZ as Hn.
  set (e0 := upd (zeros nn) 0 1).
  assert (Hl : length e0 = nn) by (unfold e0; rewrite upd_length; apply zeros_length).
  assert (He0 : forall r : nat, nthZ e0 r = if Nat.eqb r 0 then 1 else 0).
  { intros r. unfold e0. destruct (Nat.eqb_spec r 0) as [->|Hr].
    - apply nthZ_upd_eq. rewrite zeros_length. unfold nn. lia.
    - rewrite nthZ_upd_neq by lia. apply nthZ_zeros'. }
  rewrite monomial_mul_nth by (rewrite Hl; auto).
  assert (Hnn : Z.of_nat nn = n) by (unfold nn; lia).
  assert (Hw1 : wneg 64 1 = -1) by reflexivity.
  assert (Hw0 : wneg 64 0 = 0) by reflexivity.
  destruct (Z.ltb_spec ai n).
  - destruct (Z.leb_spec ai (Z.of_nat j)).
    + rewrite (ext_at_nat 64 e0 _ 0 (j - Z.to_nat ai)) by (rewrite Hl; lia). cbn [Z.even]. rewrite He0.
      destruct (Z.eqb_spec (Z.of_nat j) ai); destruct (Nat.eqb_spec (j - Z.to_nat ai) 0); try lia; first [exact Hw1 | exact Hw0 | reflexivity].
    + rewrite (ext_at_nat 64 e0 _ (-1) (j + nn - Z.to_nat ai)) by (rewrite Hl; lia). cbn [Z.even]. rewrite He0.
      destruct (Z.eqb_spec (Z.of_nat j) ai); destruct (Nat.eqb_spec (j + nn - Z.to_nat ai) 0); try lia; first [exact Hw1 | exact Hw0 | reflexivity].
  - destruct (Z.leb_spec (ai - n) (Z.of_nat j)).
    + rewrite (ext_at_nat 64 e0 _ (-1) (j + nn - Z.to_nat ai)) by (rewrite Hl; lia). cbn [Z.even]. rewrite He0.
      destruct (Z.eqb_spec (Z.of_nat j) (ai - n)); destruct (Nat.eqb_spec (j + nn - Z.to_nat ai) 0); try lia; first [exact Hw1 | exact Hw0 | reflexivity].
    + rewrite (ext_at_nat 64 e0 _ (-2) (j + nn + nn - Z.to_nat ai)) by (rewrite Hl; lia). cbn [Z.even]. rewrite He0.
      destruct (Z.eqb_spec (Z.of_nat j) (ai - n)); destruct (Nat.eqb_spec (j + nn + nn - Z.to_nat ai) 0); try lia; first [exact Hw1 | exact Hw0 | reflexivity].
Qed.

(* starting from the all-zero buffer (the invariant the function restores): the polynomial handed to svp_prepare is
   X^ai + y (y added to the constant coefficient with a wrapping add), and the buffer is all zero again afterwards *)
Theorem xai_plus_y_poly :
  let r := set_xai_plus_y n ai y (zeros nn) in
  length (fst r) = nn /\ snd r = zeros nn /\
  forall j, (j < nn)%nat ->
    nthZ (fst r) j = if Nat.eqb j 0 then wadd 64 (nthZ (monomial_mul 64 ai (upd (zeros nn) 0 1)) 0) y
                     else nthZ (monomial_mul 64 ai (upd (zeros nn) 0 1)) j.
Proof.
  cbv zeta. unfold set_xai_plus_y. cbv zeta. cbn [fst snd].
  rewrite xai_index_val. pose proof n_posZ as Hn.
  set (idx := Z.to_nat (if ai <? n then ai else ai - n)).
  set (v := if ai <? n then 1 else -1).
  assert (Hidx : (idx < nn)%nat) by (unfold idx, nn; destruct (Z.ltb_spec ai n); lia).
  assert (Hnn0 : (0 < nn)%nat) by (unfold nn; lia).
  set (raw1 := upd (zeros nn) idx v).
  assert (Hl1 : length raw1 = nn) by (unfold raw1; rewrite upd_length; apply zeros_length).
  assert (Hraw1 : forall j, (j < nn)%nat -> nthZ raw1 j = nthZ (monomial_mul 64 ai (upd (zeros nn) 0 1)) j).
  { intros j Hj. rewrite monomial_coeff by auto. unfold raw1, v, idx.
    destruct (Z.ltb_spec ai n).
    - destruct (Z.eqb_spec (Z.of_nat j) ai).
      + replace (Z.to_nat ai) with j by lia. apply nthZ_upd_eq. rewrite zeros_length; auto.
      + rewrite nthZ_upd_neq by lia. apply nthZ_zeros'.
    - destruct (Z.eqb_spec (Z.of_nat j) (ai - n)).
      + replace (Z.to_nat (ai - n)) with j by lia. apply nthZ_upd_eq. rewrite zeros_length; auto.
      + rewrite nthZ_upd_neq by lia. apply nthZ_zeros'. }
  split; [rewrite upd_length; exact Hl1|]. split.
  - apply nthZ_ext; [rewrite !upd_length, Hl1, zeros_length; reflexivity|].
    intros j Hj. rewrite !upd_length, Hl1 in Hj. rewrite nthZ_zeros'.
    destruct (Nat.eq_dec j 0) as [->|Hj0]; [apply nthZ_upd_eq; rewrite !upd_length, Hl1; auto|].
    rewrite nthZ_upd_neq by lia.
    destruct (Nat.eq_dec j idx) as [->|Hji]; [apply nthZ_upd_eq; rewrite upd_length, Hl1; auto|].
    rewrite nthZ_upd_neq by lia. rewrite nthZ_upd_neq by lia.
    unfold raw1. rewrite nthZ_upd_neq by lia. apply nthZ_zeros'.
  - intros j Hj. destruct (Nat.eqb_spec j 0) as [->|Hj0].
    + rewrite nthZ_upd_eq by (rewrite Hl1; auto). rewrite Hraw1 by auto. reflexivity.
    + rewrite nthZ_upd_neq by lia. apply Hraw1; auto.
Qed.

End Xai.
