(* C14: mod_switch_2n (range and rounding in the first branch, refutation of the rule in the second) and set_xai_plus_y. *)
From PV Require Import Base.MachineInt Model.Znx Model.Limbs Model.Ring Model.Poly Model.C14Lut Model.C14Spec
  Model.C14Blind Model.C14Run Model.C14Oracle.
From PV Require Import Proofs.C09Lists Proofs.C09Ring.
Open Scope Z_scope.

Lemma ms_log2n_pow2 t : 1 <= t -> ms_log2n (2 ^ t) = t + 1.
Proof.
  intros Ht. unfold ms_log2n, bitlen.
  assert (Hp : 2 <= 2 ^ t).
  { replace 2 with (2 ^ 1) at 1 by reflexivity. apply Z.pow_le_mono_r; lia. }
  destruct (Z.leb_spec (2 ^ t - 1) 0); [lia|].
  replace (2 ^ t - 1) with (Z.pred (2 ^ t)) by lia. rewrite Z.log2_pred_pow2 by lia. lia.
Qed.

(* (x + 2^(k-1)) >> k is x / 2^k rounded to nearest, ties up *)
Lemma div_round_by_pow2_spec x k : 1 <= k <= 62 -> Z.abs x <= 2 ^ 62 ->
  div_round_by_pow2 x k = (x + 2 ^ (k - 1)) / 2 ^ k.
Proof.
  intros Hk Hx. unfold div_round_by_pow2, asr, wadd, shl.
  assert (H1 : 0 < 2 ^ (k - 1) <= 2 ^ 61) by (split; [apply pow2_pos; lia | apply Z.pow_le_mono_r; lia]).
  assert (H62 : 2 ^ 62 = 2 * 2 ^ 61) by reflexivity.
  assert (H63 : 2 ^ (64 - 1) = 4 * 2 ^ 61) by reflexivity.
  rewrite Z.mul_1_l.
  rewrite (wrap_id 64 (2 ^ (k - 1))) by (unfold in_range; lia).
  rewrite wrap_id by (unfold in_range; lia). reflexivity.
Qed.

Lemma round_bounds (sx d : Z) : 1 <= d ->
  let r := (sx + 2 ^ (d - 1)) / 2 ^ d in
  Z.abs (r * 2 ^ d - sx) <= 2 ^ (d - 1).
Proof.
  intros Hd r. pose proof (pow2_split d Hd) as Hs. pose proof (pow2_pos (d - 1) ltac:(lia)) as Hp.
  pose proof (Z.div_mod (sx + 2 ^ (d - 1)) (2 ^ d) ltac:(lia)) as Hdm.
  pose proof (Z.mod_pos_bound (sx + 2 ^ (d - 1)) (2 ^ d) ltac:(lia)) as Hmb.
  fold r in Hdm. lia.
Qed.

Section FirstBranch.
Variables (t b : Z) (left : bool) (l0 : list Z) (rest : list (list Z)).
Hypothesis Ht : 1 <= t.
Hypothesis Hb : t + 1 < b <= 62.
Hypothesis Hnorm : Forall (in_range b) l0.      (* the first limb is a balanced digit *)

Let n2 := 2 ^ t.
Let d := b - t.

Theorem mod_switch_first_branch :
  exists res, mod_switch_2n n2 b left (l0 :: rest) = Some res /\ length res = length l0 /\
    forall i, (i < length l0)%nat ->
      let sx := if left then - nthZ l0 i else nthZ l0 i in
      nthZ res i = (sx + 2 ^ (d - 1)) / 2 ^ d /\
      Z.abs (nthZ res i * 2 ^ d - sx) <= 2 ^ (d - 1) /\
      - 2 ^ (t - 1) <= nthZ res i <= 2 ^ (t - 1).
Proof.
  unfold mod_switch_2n. cbv zeta. unfold n2. rewrite ms_log2n_pow2 by exact Ht.
  cbn [nth length Nat.eqb].
  destruct (Z.ltb_spec (t + 1) b); [|lia].
  replace (b - (t + 1 - 1)) with d by (unfold d; lia).
  eexists. split; [reflexivity|]. split; [destruct left; rewrite ?map_length; reflexivity|].
  intros i Hi. set (sx := if left then - nthZ l0 i else nthZ l0 i).
  assert (Hx : in_range b (nthZ l0 i)) by (apply Forall_nthZ; auto).
  unfold in_range in Hx.
  assert (Hb62 : 2 ^ (b - 1) <= 2 ^ 61) by (apply Z.pow_le_mono_r; lia).
  assert (H62 : 2 ^ 62 = 2 * 2 ^ 61) by reflexivity.
  assert (Hsx : Z.abs sx <= 2 ^ (b - 1)) by (unfold sx; destruct left; lia).
  assert (Hval : nthZ (map (fun x => div_round_by_pow2 x d) (if left then map (wneg 64) l0 else l0)) i
                 = (sx + 2 ^ (d - 1)) / 2 ^ d).
  { rewrite nthZ_map by (destruct left; rewrite ?map_length; auto).
    assert (Hin : nthZ (if left then map (wneg 64) l0 else l0) i = sx).
    { unfold sx. destruct left; [|reflexivity]. rewrite nthZ_map by auto.
      unfold wneg. apply wrap_id; [lia|]. unfold in_range.
      assert (2 ^ (64 - 1) = 4 * 2 ^ 61) by reflexivity. lia. }
    rewrite Hin. apply div_round_by_pow2_spec; [unfold d; lia | lia]. }
  rewrite Hval. split; [reflexivity|]. split; [apply round_bounds; unfold d; lia|].
  assert (Hd1 : 1 <= d) by (unfold d; lia).
  pose proof (pow2_split d Hd1) as Hs. pose proof (pow2_pos (d - 1) ltac:(lia)) as Hp.
  assert (Hbt : 2 ^ (b - 1) = 2 ^ (t - 1) * 2 ^ d).
  { rewrite <- Z.pow_add_r by lia. f_equal. unfold d. lia. }
  pose proof (pow2_pos (t - 1) ltac:(lia)) as Hpt.
  split.
  - apply Z.div_le_lower_bound; [lia|]. nia.
  - apply Z.lt_succ_r. apply Z.div_lt_upper_bound; [lia|]. nia.
Qed.

End FirstBranch.

(* the rule the oracle checks (Model/C14Oracle.v: ms_ok), for every radix *)
Definition mod_switch_rule_full : Prop :=
  forall (n2 b : Z) (left : bool) (ls : list (list Z)) (res : list Z),
    normalized_limbs b ls = true -> mod_switch_2n n2 b left ls = Some res -> ms_ok n2 b left ls res = true.

(* false in the second branch: 2N*ext = 16, radix 5 (= log2(16) + 1), limb -8 (torus value -1/4), Right:
   the result is -8 (torus -1/2 on Z_16) instead of -4 *)
Theorem mod_switch_small_radix_refuted :
  exists (n2 b : Z) (left : bool) (ls : list (list Z)) (res : list Z),
    normalized_limbs b ls = true /\ mod_switch_2n n2 b left ls = Some res /\ ms_ok n2 b left ls res = false.
Proof. exists 16, 5, false, [[-8; 0]], [-8; 0]. vm_compute. auto. Qed.

(* ------------------------------------------------------------------ set_xai_plus_y *)
Lemma nthZ_zeros' s u : nthZ (zeros s) u = 0.
Proof. unfold zeros. revert u; induction s as [|s IH]; intros [|u]; cbn [repeat]; try reflexivity. unfold nthZ in *. cbn [nth]. apply IH. Qed.
Lemma zeros_length s : length (zeros s) = s.
Proof. apply repeat_length. Qed.

Section Xai.
Variables (m : Z) (ai y : Z).
Hypothesis Hm : 0 <= m.
Let n := 2 ^ m.
Let nn := Z.to_nat n.
Hypothesis Hai : 0 <= ai < 2 * n.

Lemma n_posZ : 0 < n. Proof. apply pow2_pos. exact Hm. Qed.

Lemma xai_index_val : xai_index n ai = Z.to_nat (if ai <? n then ai else ai - n).
Proof.
  unfold xai_index. destruct (Z.ltb_spec ai n); [reflexivity|]. f_equal.
  replace (n - 1) with (Z.ones m) by (rewrite Z.ones_equiv; unfold n; lia).
  rewrite Z.land_ones by exact Hm. fold n. apply Z.mod_small. lia.
Qed.

(* coefficient j of X^ai in Z[X]/(X^n+1) *)
Lemma monomial_coeff (j : nat) : (j < nn)%nat ->
  nthZ (monomial_mul 64 ai (upd (zeros nn) 0 1)) j =
  if ai <? n then (if Z.of_nat j =? ai then 1 else 0) else (if Z.of_nat j =? ai - n then -1 else 0).
Proof.
  intros Hj. pose proof n_posZ as Hn.
  set (e0 := upd (zeros nn) 0 1).
  assert (Hl : length e0 = nn) by (unfold e0; rewrite upd_length; apply zeros_length).
  assert (He0 : forall r : nat, nthZ e0 r = if Nat.eqb r 0 then 1 else 0).
  { intros r. unfold e0. destruct (Nat.eqb_spec r 0) as [->|Hr].
    - apply nthZ_upd_eq. rewrite zeros_length. unfold nn. lia.
    - rewrite nthZ_upd_neq by lia. apply nthZ_zeros'. }
  rewrite monomial_mul_nth by (rewrite Hl; auto).
  assert (Hnn : Z.of_nat nn = n) by (unfold nn; lia).
  assert (Hw1 : wneg 64 1 = -1) by reflexivity.
  assert (Hw0 : wneg 64 0 = 0) by reflexivity.
  destruct (Z.ltb_spec ai n).
  - destruct (Z.leb_spec ai (Z.of_nat j)).
    + rewrite (ext_at_nat 64 e0 _ 0 (j - Z.to_nat ai)) by (rewrite Hl; lia). cbn [Z.even]. rewrite He0.
      destruct (Z.eqb_spec (Z.of_nat j) ai); destruct (Nat.eqb_spec (j - Z.to_nat ai) 0); try lia; first [exact Hw1 | exact Hw0 | reflexivity].
    + rewrite (ext_at_nat 64 e0 _ (-1) (j + nn - Z.to_nat ai)) by (rewrite Hl; lia). cbn [Z.even]. rewrite He0.
      destruct (Z.eqb_spec (Z.of_nat j) ai); destruct (Nat.eqb_spec (j + nn - Z.to_nat ai) 0); try lia; first [exact Hw1 | exact Hw0 | reflexivity].
  - destruct (Z.leb_spec (ai - n) (Z.of_nat j)).
    + rewrite (ext_at_nat 64 e0 _ (-1) (j + nn - Z.to_nat ai)) by (rewrite Hl; lia). cbn [Z.even]. rewrite He0.
      destruct (Z.eqb_spec (Z.of_nat j) (ai - n)); destruct (Nat.eqb_spec (j + nn - Z.to_nat ai) 0); try lia; first [exact Hw1 | exact Hw0 | reflexivity].
    + rewrite (ext_at_nat 64 e0 _ (-2) (j + nn + nn - Z.to_nat ai)) by (rewrite Hl; lia). cbn [Z.even]. rewrite He0.
      destruct (Z.eqb_spec (Z.of_nat j) (ai - n)); destruct (Nat.eqb_spec (j + nn + nn - Z.to_nat ai) 0); try lia; first [exact Hw1 | exact Hw0 | reflexivity].
Qed.

(* starting from the all-zero buffer (the invariant the function restores): the polynomial handed to svp_prepare is
   X^ai + y (y added to the constant coefficient with a wrapping add), and the buffer is all zero again afterwards *)
Theorem xai_plus_y_poly :
  let r := set_xai_plus_y n ai y (zeros nn) in
  length (fst r) = nn /\ snd r = zeros nn /\
  forall j, (j < nn)%nat ->
    nthZ (fst r) j = if Nat.eqb j 0 then wadd 64 (nthZ (monomial_mul 64 ai (upd (zeros nn) 0 1)) 0) y
                     else nthZ (monomial_mul 64 ai (upd (zeros nn) 0 1)) j.
Proof.
  cbv zeta. unfold set_xai_plus_y. cbv zeta. cbn [fst snd].
  rewrite xai_index_val. pose proof n_posZ as Hn.
  set (idx := Z.to_nat (if ai <? n then ai else ai - n)).
  set (v := if ai <? n then 1 else -1).
  assert (Hidx : (idx < nn)%nat) by (unfold idx, nn; destruct (Z.ltb_spec ai n); lia).
  assert (Hnn0 : (0 < nn)%nat) by (unfold nn; lia).
  set (raw1 := upd (zeros nn) idx v).
  assert (Hl1 : length raw1 = nn) by (unfold raw1; rewrite upd_length; apply zeros_length).
  assert (Hraw1 : forall j, (j < nn)%nat -> nthZ raw1 j = nthZ (monomial_mul 64 ai (upd (zeros nn) 0 1)) j).
  { intros j Hj. rewrite monomial_coeff by auto. unfold raw1, v, idx.
    destruct (Z.ltb_spec ai n).
    - destruct (Z.eqb_spec (Z.of_nat j) ai).
      + replace (Z.to_nat ai) with j by lia. apply nthZ_upd_eq. rewrite zeros_length; auto.
      + rewrite nthZ_upd_neq by lia. apply nthZ_zeros'.
    - destruct (Z.eqb_spec (Z.of_nat j) (ai - n)).
      + replace (Z.to_nat (ai - n)) with j by lia. apply nthZ_upd_eq. rewrite zeros_length; auto.
      + rewrite nthZ_upd_neq by lia. apply nthZ_zeros'. }
  split; [rewrite upd_length; exact Hl1|]. split.
  - apply nthZ_ext; [rewrite !upd_length, Hl1, zeros_length; reflexivity|].
    intros j Hj. rewrite !upd_length, Hl1 in Hj. rewrite nthZ_zeros'.
    destruct (Nat.eq_dec j 0) as [->|Hj0]; [apply nthZ_upd_eq; rewrite !upd_length, Hl1; auto|].
    rewrite nthZ_upd_neq by lia.
    destruct (Nat.eq_dec j idx) as [->|Hji]; [apply nthZ_upd_eq; rewrite upd_length, Hl1; auto|].
    rewrite nthZ_upd_neq by lia. rewrite nthZ_upd_neq by lia.
    unfold raw1. rewrite nthZ_upd_neq by lia. apply nthZ_zeros'.
  - intros j Hj. destruct (Nat.eqb_spec j 0) as [->|Hj0].
    + rewrite nthZ_upd_eq by (rewrite Hl1; auto). rewrite Hraw1 by auto. reflexivity.
    + rewrite nthZ_upd_neq by lia. apply Hraw1; auto.
Qed.

End Xai.
