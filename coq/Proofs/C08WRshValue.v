(* C08, level 3, width-generic: value theorems of the accumulating right shifts (rsh add / sub) at any word width w
   with w - 2 <= 63 b.  Port of Proofs/C08RshValue.v (which fixes w = 64). *)
From PV Require Import Base.MachineInt Model.Znx Model.Limbs Model.C08Oracle
  Proofs.ZnxDigit Proofs.C08Steps Proofs.C08Chain Proofs.C08Loops Proofs.C08Value Proofs.C08Normalize
  Proofs.C08Shift Proofs.C08Rsh Proofs.C08ShiftValue
  Proofs.C08WChain Proofs.C08WLoops Proofs.C08WNormalize Proofs.C08WShift Proofs.C08WRsh Proofs.C08WShiftValue.
Open Scope Z_scope.

Section RshValue.
Variable w : Z.
Variable b : Z.
Hypothesis Hb : 1 <= b <= w - 2.
Hypothesis Hcap : w - 2 <= 63 * b.

Local Notation hrw := (Forall (fun x => Z.abs x <= 2 ^ (w - 2))).

Let Hb1 : 1 <= b. Proof. lia. Qed.

(* the top phase re-normalises  x_0 .. x_{re-1}  plus the incoming carry, modulo 1 *)
Lemma top_valueW (x u : nat -> Z) (c : Z) (re : nat) (P : Z) :
  (forall t, (t < re)%nat -> u t = x (re - 1 - t)%nat) -> zn re * b <= P ->
  sumn re (fun i => dig b u c (re - 1 - i) * wt P b i)
  = sumn re (fun i => x i * wt P b i) + c * 2 ^ (P - zn re * b) - 2 ^ P * car b u c re.
Proof.
  intros Hu HP. set (E := P - zn re * b).
  assert (HE : 0 <= E) by (unfold E; lia).
  assert (Hwt : forall i, (i < re)%nat -> wt P b i = 2 ^ (E + (zn re - zn i - 1) * b)).
  { intros i Hi. unfold wt, E. f_equal. ring. }
  assert (E1 : sumn re (fun i => dig b u c (re - 1 - i) * wt P b i)
               = 2 ^ E * sumn re (fun t => dig b u c t * 2 ^ (zn t * b))).
  { rewrite <- (window_rev b Hb1 (dig b u c) re E HE). apply sumn_ext. intros i Hi.
    rewrite Hwt by auto. reflexivity. }
  assert (E2 : sumn re (fun i => x i * wt P b i) = 2 ^ E * sumn re (fun t => u t * 2 ^ (zn t * b))).
  { rewrite <- (window_rev b Hb1 u re E HE). apply sumn_ext. intros i Hi.
    rewrite Hwt, Hu by lia. replace (re - 1 - (re - 1 - i))%nat with i by lia. reflexivity. }
  pose proof (chain_sum b Hb1 u c re) as HC.
  assert (EP : 2 ^ P = 2 ^ E * 2 ^ (zn re * b)).
  { rewrite <- Z.pow_add_r by (unfold zn in *; nia). f_equal. unfold E. ring. }
  rewrite E1, E2, EP. nia.
Qed.

Lemma utop_false_x (r0 : list Z) (re : nat) (t : nat) : (t < re)%nat ->
  utop false 0 r0 re t = nthZ r0 (re - 1 - t).
Proof.
  intros Ht. unfold utop. destruct (Nat.ltb_spec t re); [|lia].
  rewrite Z.pow_0_r, Z.mul_1_r. f_equal. lia.
Qed.

Lemma utop_true_x (l : Z) (r0 : list Z) (re : nat) (t : nat) : (t < re)%nat ->
  utop true l r0 re t = (fun _ : nat => 0) (re - 1 - t)%nat.
Proof.
  intros Ht. unfold utop. destruct (Nat.ltb_spec t re); [|lia]. apply Z.mul_0_l.
Qed.

(* out = [re-normalised (r0_top + c3')] ++ [r0_i + s * window_i]  against  r0 + s * window,
   when the window's own top part comes from the carry c3 *)
Lemma rsh_fused_valueW (P lsh s c3' : Z) (a r0 out : list Z) (steps : nat) :
  let re := Nat.min (length r0) steps in
  let T := zn (length a) + zn steps in
  length out = length r0 ->
  (forall i, (i < length r0)%nat ->
     nthZ out i = if Nat.ltb i re then dig b (utop false 0 r0 re) c3' (re - 1 - i)
                  else nthZ r0 i + s * dgz b (vin a lsh) (T - 1 - zn i)) ->
  zn (length r0) * b <= P ->
  exists Z0, val_scaled P b out
    = val_scaled P b r0 + s * dval P b (vin a lsh) T (length out)
      + (c3' - s * ctop b lsh a (steps - re)) * 2 ^ (P - zn re * b) + 2 ^ P * Z0.
Proof.
  intros re T L N HP.
  set (gap := (steps - re)%nat). set (c3 := ctop b lsh a gap).
  assert (Hre : (re <= length r0)%nat) by (unfold re; lia).
  assert (HPre : zn re * b <= P) by (unfold zn in *; nia).
  rewrite (val_scaled_ext P b out _ ltac:(rewrite L; exact N)), (val_scaled_sumn P b r0). unfold dval.
  rewrite L. replace (length r0) with (re + (length r0 - re))%nat by lia.
  rewrite !sumn_add.
  (* top parts *)
  assert (Etop : sumn re (fun i => (if Nat.ltb i re then dig b (utop false 0 r0 re) c3' (re - 1 - i)
                     else nthZ r0 i + s * dgz b (vin a lsh) (T - 1 - zn i)) * wt P b i)
                 = sumn re (fun i => dig b (utop false 0 r0 re) c3' (re - 1 - i) * wt P b i)).
  { apply sumn_ext. intros i Hi. destruct (Nat.ltb_spec i re); [reflexivity|lia]. }
  rewrite Etop, (top_valueW (nthZ r0) (utop false 0 r0 re) c3' re P (utop_false_x r0 re) HPre).
  assert (Ewin : sumn re (fun i => dgz b (vin a lsh) (T - 1 - zn i) * wt P b i)
                 = sumn re (fun i => dig b (utop true 0 r0 re) c3 (re - 1 - i) * wt P b i)).
  { apply sumn_ext. intros i Hi. unfold c3. rewrite (top_zero_window b lsh 0 a r0 re gap i Hi).
    f_equal. f_equal. unfold T, gap, re, zn in *. lia. }
  rewrite Ewin, (top_valueW (fun _ => 0) (utop true 0 r0 re) c3 re P (utop_true_x 0 r0 re) HPre).
  rewrite (sumn_zero re (fun i => 0 * wt P b i)) by (intros; apply Z.mul_0_l).
  (* low parts *)
  assert (Elow : sumn (length r0 - re) (fun t => (if Nat.ltb (re + t) re
                     then dig b (utop false 0 r0 re) c3' (re - 1 - (re + t))
                     else nthZ r0 (re + t) + s * dgz b (vin a lsh) (T - 1 - zn (re + t))) * wt P b (re + t))
                 = sumn (length r0 - re) (fun t => nthZ r0 (re + t) * wt P b (re + t))
                   + s * sumn (length r0 - re) (fun t => dgz b (vin a lsh) (T - 1 - zn (re + t)) * wt P b (re + t))).
  { rewrite <- sumn_scale, <- sumn_plus. apply sumn_ext. intros t Ht.
    destruct (Nat.ltb_spec (re + t) re); [lia|]. ring. }
  rewrite Elow.
  exists (s * car b (utop true 0 r0 re) c3 re - car b (utop false 0 r0 re) c3' re).
  fold gap c3. ring.
Qed.

Lemma val_nilW (P : Z) : val_scaled P b [] = 0.
Proof. reflexivity. Qed.

(* ---------- rsh<false>: res += a * 2^-k ---------- *)

Theorem rsh_add_valueW (k : Z) (a r0 : list Z) : 0 <= k -> hrw a -> hrw r0 ->
  let out := rsh w false b k a r0 in
  length out = length r0 /\
  forall P, zn (length r0) * b + zn (length a) * b + k <= P ->
    let D := tor_abs P (val_scaled P b out - val_scaled P b r0 - val_scaled (P - k) b a) in
    D <= 2 ^ (P - zn (length r0) * b) /\ (zn (length a) * b + k <= zn (length r0) * b -> D = 0).
Proof.
  intros Hk Ha Hr. apply hrlw_of_Forall in Ha. apply hrlw_of_Forall in Hr. cbv zeta.
  destruct (rsh_nthW w b Hb Hcap false k a r0 Hk Ha ltac:(intros; exact Hr)) as [L N]. cbv zeta in N.
  destruct (off_negW w b Hb k Hk) as [Eo Hl].
  set (steps := fst (rsh_params b k)) in *. set (lsh := snd (rsh_params b k)) in *.
  split; [exact L|]. intros P HP.
  destruct (rsh_fused_valueW P lsh 1 (ctop b lsh a (steps - Nat.min (length r0) steps)) a r0
              (rsh w false b k a r0) steps L
              ltac:(intros i Hi; rewrite N by exact Hi;
                    destruct (Nat.ltb i (Nat.min (length r0) steps)); [reflexivity|ring])
              ltac:(unfold zn in *; nia)) as [Z0 HZ].
  pose proof (variant_value b P (- zn steps) lsh 1 1 a r0 (rsh w false b k a r0) Hb1 Hl
                ltac:(left; reflexivity)) as HV.
  cbv zeta in HV. rewrite L, Eo in HV.
  replace (val_scaled P b (rsh w false b k a r0) - val_scaled P b r0 - val_scaled (P - k) b a)
    with (val_scaled P b (rsh w false b k a r0) - 1 * val_scaled P b r0 - 1 * val_scaled (P + - k) b a)
    by (replace (P + - k) with (P - k) by lia; ring).
  destruct HV as [H1 H2].
  - exists Z0. rewrite HZ, L. replace (zn (length a) - - zn steps) with (zn (length a) + zn steps) by ring. ring.
  - lia.
  - split; [exact H1|]. intros Hx. apply H2. lia.
Qed.

(* ---------- rsh_sub: res -= a * 2^-k ---------- *)

Theorem rsh_sub_valueW (k : Z) (a r0 : list Z) : 0 <= k -> hrw a -> hrw r0 ->
  let out := rsh_sub w b k a r0 in
  length out = length r0 /\
  forall P, zn (length r0) * b + zn (length a) * b + k <= P ->
    let D := tor_abs P (val_scaled P b out - val_scaled P b r0 + val_scaled (P - k) b a) in
    D <= 2 ^ (P - zn (length r0) * b) /\ (zn (length a) * b + k <= zn (length r0) * b -> D = 0).
Proof.
  intros Hk Ha Hr. apply hrlw_of_Forall in Ha. apply hrlw_of_Forall in Hr. cbv zeta.
  destruct (rsh_sub_nthW w b Hb Hcap k a r0 Hk Ha Hr) as [L N]. cbv zeta in N.
  destruct (off_negW w b Hb k Hk) as [Eo Hl].
  set (steps := fst (rsh_params b k)) in *. set (lsh := snd (rsh_params b k)) in *.
  set (out := rsh_sub w b k a r0) in *.
  set (re := Nat.min (length r0) steps) in *.
  set (gap := (steps - re)%nat) in *.
  set (c := car b (vin a lsh) 0 (length a)) in *.
  set (c3' := car b zseq (- c) gap) in *.
  split; [exact L|]. intros P HP.
  assert (HP0 : 0 <= P) by (unfold zn in *; nia).
  destruct (rsh_fused_valueW P lsh (-1) c3' a r0 out steps L
              ltac:(intros i Hi; rewrite N by exact Hi; fold re;
                    destruct (Nat.ltb i re); [reflexivity|ring])
              ltac:(unfold zn in *; nia)) as [Z0 HZ].
  fold re gap in HZ.
  replace (val_scaled P b out - val_scaled P b r0 + val_scaled (P - k) b a)
    with (val_scaled P b out - 1 * val_scaled P b r0 - -1 * val_scaled (P + - k) b a)
    by (replace (P + - k) with (P - k) by lia; ring).
  destruct (Nat.eq_dec gap 0) as [Hg|Hg].
  - (* the negated carry enters the top phase unchanged *)
    pose proof (variant_value b P (- zn steps) lsh 1 (-1) a r0 out Hb1 Hl ltac:(right; reflexivity)) as HV.
    cbv zeta in HV. rewrite L, Eo in HV.
    destruct HV as [H1 H2].
    + exists Z0. rewrite HZ, L.
      replace (zn (length a) - - zn steps) with (zn (length a) + zn steps) by ring.
      assert (Ec : c3' - -1 * ctop b lsh a gap = 0).
      { unfold c3', ctop. rewrite Hg, Nat.add_0_r. cbn [car]. fold c. ring. }
      rewrite Ec. ring.
    + lia.
    + split; [exact H1|]. intros Hx. apply H2. lia.
  - (* steps > |r0|: everything of a and the gap digits of -c are dropped *)
    assert (Hre : re = length r0) by (unfold gap, re in *; lia).
    assert (Hst : (length r0 < steps)%nat) by (unfold gap, re in *; lia).
    split.
    2:{ intros Hx. exfalso. unfold zn in *. nia. }
    destruct (Nat.eq_dec (length r0) 0) as [Hz|Hz].
    { rewrite Hz. change (zn 0) with 0. rewrite Z.mul_0_l, Z.sub_0_r. apply tor_abs_le_unit; auto. }
    set (A := zn (length a)) in *. set (R := zn (length r0)) in *.
    set (T := A + zn steps). set (E := P - T * b).
    assert (HE : 0 <= E) by (unfold E, T, A, R, zn in *; nia).
    (* exact value of a * 2^-k *)
    pose proof (val_scaled_vin b P (- zn steps) lsh a Hb1 ltac:(lia)) as HA.
    replace (zn (length a) - - zn steps) with T in HA by (unfold T, A; ring).
    fold E in HA. specialize (HA HE). rewrite Eo in HA.
    (* the two chains *)
    pose proof (chain_sum b Hb1 (vin a lsh) 0 (length a)) as HC1. fold c in HC1.
    fold (ival b (vin a lsh) (length a)) in HC1.
    pose proof (chain_sum b Hb1 zseq (- c) gap) as HC2. fold c3' in HC2.
    rewrite (sumn_zero gap (fun t => zseq t * 2 ^ (zn t * b))) in HC2 by (intros; apply Z.mul_0_l).
    set (Dlow := sumn (length a) (fun t => dig b (vin a lsh) 0 t * 2 ^ (zn t * b))) in *.
    set (G := sumn gap (fun t => dig b zseq (- c) t * 2 ^ (zn t * b))) in *.
    pose proof (digits_small b Hb1 (dig b (vin a lsh) 0) (length a) ltac:(intros; apply dig_range; auto)) as HD1.
    pose proof (digits_small b Hb1 (dig b zseq (- c)) gap ltac:(intros; apply dig_range; auto)) as HD2.
    fold Dlow in HD1. fold G in HD2. fold A in HD1, HC1.
    (* window of the overwrite form is irrelevant here: eliminate it through the top carry *)
    assert (Hdv : dval P b (vin a lsh) (A + zn steps) (length out)
                  = ctop b lsh a gap * 2 ^ (P - zn re * b)
                    - 2 ^ P * car b (utop true 0 r0 re) (ctop b lsh a gap) re).
    { unfold dval. rewrite L, <- Hre.
      rewrite (sumn_ext re _ (fun i => dig b (utop true 0 r0 re) (ctop b lsh a gap) (re - 1 - i) * wt P b i)).
      - rewrite (top_valueW (fun _ => 0) (utop true 0 r0 re) (ctop b lsh a gap) re P (utop_true_x 0 r0 re))
          by (unfold zn in *; nia).
        rewrite (sumn_zero re (fun i => 0 * wt P b i)) by (intros; apply Z.mul_0_l). ring.
      - intros i Hi. rewrite (top_zero_window b lsh 0 a r0 re gap i Hi).
        f_equal. f_equal. unfold gap, re, zn in *. lia. }
    set (U := 2 ^ (P - zn re * b)) in *.
    assert (EU : U = 2 ^ E * (2 ^ (A * b) * 2 ^ (zn gap * b))).
    { unfold U. rewrite <- !Z.pow_add_r by (unfold A, zn in *; nia). f_equal.
      unfold E, T, A, gap, re, zn in *. nia. }
    assert (Hpa : 0 < 2 ^ (A * b)) by (apply pow2_pos; unfold A, zn; nia).
    assert (Hpg : 0 < 2 ^ (zn gap * b)) by (apply pow2_pos; unfold zn; nia).
    assert (HpE : 0 < 2 ^ E) by (apply pow2_pos; auto).
    set (delta := 2 ^ E * (Dlow - 2 ^ (A * b) * G)).
    replace (val_scaled P b out - 1 * val_scaled P b r0 - -1 * val_scaled (P + - k) b a)
      with (delta + 2 ^ P * (Z0 + car b (utop true 0 r0 re) (ctop b lsh a gap) re)).
    2:{ rewrite HZ, Hdv, HA. fold U. unfold delta. rewrite EU. nia. }
    rewrite tor_abs_add_mul by auto.
    pose proof (tor_abs_le P delta HP0) as Hle.
    assert (Hd : Z.abs delta <= U).
    { unfold delta. rewrite Z.abs_mul, (Z.abs_eq (2 ^ E)) by lia. rewrite EU.
      apply Z.mul_le_mono_nonneg_l; [lia|].
      assert (Z.abs (Dlow - 2 ^ (A * b) * G) <= Z.abs Dlow + 2 ^ (A * b) * Z.abs G).
      { rewrite <- (Z.abs_eq (2 ^ (A * b))) at 2 by lia. rewrite <- Z.abs_mul. lia. }
      nia. }
    replace (P - R * b) with (P - zn re * b) by (rewrite Hre; reflexivity). fold U. lia.
Qed.

End RshValue.
