(* C11, read-back: after write_col the selected column holds exactly the written limbs (each padded / cut to n words),
   so "every limb of the selected column is written" = the column of the result IS the op's column function. *)
From PV Require Import Base.MachineInt Model.Znx Model.Limbs Model.Flat Proofs.C11Frame.
From Coq Require Import Arith PeanoNat List.
Open Scope nat_scope.

(* what write_limb stores for a limb l: the first n words of l, zero-extended *)
Definition pad (n : nat) (l : list Z) : list Z := firstn n (l ++ zeros n).

Lemma pad_length n l : length (pad n l) = n.
Proof. apply firstn_pad_length. Qed.

Lemma pad_id n l : length l = n -> pad n l = l.
Proof.
  intros H. unfold pad. rewrite firstn_app, H, Nat.sub_diag, firstn_O, app_nil_r.
  apply firstn_all2. lia.
Qed.

Lemma map_pad_id n (limbs : list (list Z)) :
  Forall (fun l => length l = n) limbs -> map (pad n) limbs = limbs.
Proof.
  induction 1 as [|l ls Hl _ IH]; [reflexivity|].
  cbn [map]. rewrite IH, (pad_id n l Hl). reflexivity.
Qed.

Lemma c11_nth_map_seq (A : Type) (f : nat -> A) (d : A) (m i : nat) :
  i < m -> nth i (map f (seq 0 m)) d = f i.
Proof.
  intros Hi. rewrite (nth_indep _ d (f 0)) by (rewrite map_length, seq_length; exact Hi).
  rewrite map_nth, seq_nth by exact Hi. reflexivity.
Qed.

Lemma write_at_nth_inside (data l : list Z) off i d :
  off + length l <= length data -> i < length l ->
  nth (off + i) (write_at data off l) d = nth i l d.
Proof.
  intros Hlen Hi. unfold write_at.
  rewrite app_nth2 by (rewrite firstn_length; lia).
  rewrite firstn_length, Nat.min_l by lia.
  replace (off + i - off) with i by lia.
  apply app_nth1. exact Hi.
Qed.

Lemma write_limb_nth_inside n cols data col j l i d :
  n * (j * cols + col) + n <= length data -> i < n ->
  nth (n * (j * cols + col) + i) (write_limb n cols data col j l) d = nth i (pad n l) d.
Proof.
  intros Hlen Hi. unfold write_limb. fold (pad n l).
  apply write_at_nth_inside; rewrite pad_length; lia.
Qed.

Lemma write_limb_nth_below n cols data col j l idx d :
  n * (j * cols + col) + n <= length data -> idx < n * (j * cols + col) ->
  nth idx (write_limb n cols data col j l) d = nth idx data d.
Proof.
  intros Hlen Hi. unfold write_limb. apply write_at_nth_outside.
  - rewrite firstn_pad_length. lia.
  - left. exact Hi.
Qed.

Definition wstep (n cols col : nat) (s : list Z * nat) (l : list Z) : list Z * nat :=
  (write_limb n cols (fst s) col (snd s) l, S (snd s)).

Lemma write_col_fold n cols data col limbs :
  write_col n cols data col limbs = fst (fold_left (wstep n cols col) limbs (data, 0)).
Proof. reflexivity. Qed.

Lemma limb_fits n cols size col j (data : list Z) :
  col < cols -> j < size -> n * cols * size <= length data -> n * (j * cols + col) + n <= length data.
Proof. intros Hc Hj Hd. assert (j * cols + col + 1 <= cols * size) by nia. nia. Qed.

Lemma wfold_length n cols col size (limbs : list (list Z)) :
  forall data j0, col < cols -> j0 + length limbs <= size -> n * cols * size <= length data ->
  length (fst (fold_left (wstep n cols col) limbs (data, j0))) = length data.
Proof.
  induction limbs as [|l limbs IH]; intros data j0 Hc Hsz Hd; cbn [fold_left length] in *; [reflexivity|].
  unfold wstep at 2. cbn [fst snd].
  assert (Hfit : n * (j0 * cols + col) + n <= length data) by (apply (limb_fits n cols size); lia).
  rewrite IH; [apply write_limb_length; exact Hfit|exact Hc|lia|].
  rewrite write_limb_length by exact Hfit. exact Hd.
Qed.

(* the writes of limbs j0, j0+1, ... never touch a word below the start of limb j0 *)
Lemma wfold_below n cols col size (limbs : list (list Z)) :
  forall data j0 idx d, col < cols -> j0 + length limbs <= size -> n * cols * size <= length data ->
  idx < n * (j0 * cols + col) ->
  nth idx (fst (fold_left (wstep n cols col) limbs (data, j0))) d = nth idx data d.
Proof.
  induction limbs as [|l limbs IH]; intros data j0 idx d Hc Hsz Hd Hi; cbn [fold_left length] in *; [reflexivity|].
  unfold wstep at 2. cbn [fst snd].
  assert (Hfit : n * (j0 * cols + col) + n <= length data) by (apply (limb_fits n cols size); lia).
  rewrite IH; [apply write_limb_nth_below; assumption|exact Hc|lia| |nia].
  rewrite write_limb_length by exact Hfit. exact Hd.
Qed.

Lemma wfold_inside n cols col size (limbs : list (list Z)) :
  forall data j0 k i d, col < cols -> j0 + length limbs <= size -> n * cols * size <= length data ->
  k < length limbs -> i < n ->
  nth (n * ((j0 + k) * cols + col) + i) (fst (fold_left (wstep n cols col) limbs (data, j0))) d
  = nth i (pad n (nth k limbs [])) d.
Proof.
  induction limbs as [|l limbs IH]; intros data j0 k i d Hc Hsz Hd Hk Hi; cbn [fold_left length] in *; [lia|].
  unfold wstep at 2. cbn [fst snd].
  assert (Hfit : n * (j0 * cols + col) + n <= length data) by (apply (limb_fits n cols size); lia).
  assert (Hd' : n * cols * size <= length (write_limb n cols data col j0 l))
    by (rewrite write_limb_length by exact Hfit; exact Hd).
  destruct k as [|k].
  - rewrite Nat.add_0_r. cbn [nth].
    rewrite (wfold_below n cols col size limbs) by (try assumption; try lia; nia).
    apply write_limb_nth_inside; assumption.
  - replace (j0 + S k) with (S j0 + k) by lia. cbn [nth].
    apply IH; try assumption; lia.
Qed.

Lemma limb_at_length n cols data col j :
  n * (j * cols + col) + n <= length data -> length (limb_at n cols data col j) = n.
Proof. intros H. unfold limb_at. rewrite firstn_length, skipn_length. lia. Qed.

Lemma limb_at_nth n cols data col j i d :
  i < n -> nth i (limb_at n cols data col j) d = nth (n * (j * cols + col) + i) data d.
Proof. intros Hi. unfold limb_at. rewrite nth_firstn_lt' by exact Hi. apply nth_skipn'. Qed.

Lemma col_limbs_length n cols size data col : length (col_limbs n cols size data col) = size.
Proof. unfold col_limbs. rewrite map_length, seq_length. reflexivity. Qed.

Lemma col_limbs_nth n cols size data col j :
  j < size -> nth j (col_limbs n cols size data col) [] = limb_at n cols data col j.
Proof. intros Hj. unfold col_limbs. apply c11_nth_map_seq. exact Hj. Qed.

(* READ-BACK, general form: no hypothesis on the limb lengths *)
Theorem write_col_read_pad n cols size col data (limbs : list (list Z)) :
  col < cols -> length limbs = size -> n * cols * size <= length data ->
  col_limbs n cols size (write_col n cols data col limbs) col = map (pad n) limbs.
Proof.
  intros Hc Hl Hd.
  apply (nth_ext _ _ [] []); [rewrite col_limbs_length, map_length; lia|].
  intros j Hj. rewrite col_limbs_length in Hj. rewrite col_limbs_nth by exact Hj.
  rewrite (nth_indep (map (pad n) limbs) [] (pad n [])) by (rewrite map_length; lia).
  rewrite map_nth. rewrite write_col_fold.
  assert (Hlen : length (fst (fold_left (wstep n cols col) limbs (data, 0))) = length data)
    by (apply (wfold_length n cols col size); lia).
  apply (nth_ext _ _ 0%Z 0%Z).
  - rewrite limb_at_length, pad_length; [reflexivity|]. rewrite Hlen. apply (limb_fits n cols size); lia.
  - intros i Hi. rewrite limb_at_length in Hi by (rewrite Hlen; apply (limb_fits n cols size); lia).
    rewrite limb_at_nth by exact Hi.
    apply (wfold_inside n cols col size limbs data 0 j i 0%Z); lia.
Qed.

(* READ-BACK as asked: limbs of n words are read back unchanged *)
Theorem write_col_read n cols size col data (limbs : list (list Z)) :
  col < cols -> length limbs = size -> Forall (fun l => length l = n) limbs ->
  n * cols * size <= length data ->
  col_limbs n cols size (write_col n cols data col limbs) col = limbs.
Proof.
  intros Hc Hl Hn Hd. rewrite (write_col_read_pad n cols size col data limbs Hc Hl Hd).
  apply map_pad_id. exact Hn.
Qed.

(* columns other than the written one read back as before (consequence of the frame theorem) *)
Lemma in_col_other n cols size col col' j i :
  0 < n -> col' < cols -> col' <> col -> i < n ->
  in_col n cols size col (n * (j * cols + col') + i) = false.
Proof.
  intros Hn Hc Hne Hi. unfold in_col.
  rewrite (in_range_limb n cols col' j) by lia.
  rewrite Nat.add_comm, Nat.mod_add by lia. rewrite Nat.mod_small by lia.
  destruct (Nat.eqb_spec col' col); [contradiction|reflexivity].
Qed.

Theorem write_col_other_col n cols size col col' data (limbs : list (list Z)) k :
  0 < n -> col < cols -> col' < cols -> col' <> col -> length limbs <= size -> n * cols * size <= length data ->
  n * cols * k <= length data ->
  col_limbs n cols k (write_col n cols data col limbs) col' = col_limbs n cols k data col'.
Proof.
  intros Hn Hc Hc' Hne Hl Hd Hk.
  destruct (write_col_frame n cols col size data limbs Hn Hc Hl Hd) as [Hlen Hfr].
  unfold col_limbs. apply map_ext_in. intros j Hj. apply in_seq in Hj.
  assert (Hfit : n * (j * cols + col') + n <= length data) by (apply (limb_fits n cols k); lia).
  apply (nth_ext _ _ 0%Z 0%Z).
  - rewrite !limb_at_length; [reflexivity|exact Hfit|rewrite Hlen; exact Hfit].
  - intros i Hi. rewrite limb_at_length in Hi by (rewrite Hlen; exact Hfit).
    rewrite !limb_at_nth by exact Hi. apply Hfr. apply in_col_other; assumption.
Qed.
