(* C08, cross-radix normalisation with a non-negative offset: the value theorem (w = 64).
   The proof is done once for every word width in Proofs/C08WCrossTheorem.v (`normalize_cross_c_value_pos`);
   this file keeps the width-64 statement under its name, as an instance. *)
From PV Require Import Base.MachineInt Model.Znx Model.Limbs Model.C08Oracle
  Proofs.ZnxDigit Proofs.C08Steps Proofs.C08Chain Proofs.C08Loops Proofs.C08Value Proofs.C08Normalize
  Proofs.C08Shift Proofs.C08ShiftValue Proofs.C08CrossInner Proofs.C08CrossGeom Proofs.C08CrossOuter
  Proofs.C08CrossLoop Proofs.C08CrossMain Proofs.C08WCrossTheorem.
Open Scope Z_scope.

Section Thm.
Variables rb ab : Z.
Hypothesis Hrb : 1 <= rb <= 62.
Hypothesis Hab : 1 <= ab <= 62.

Theorem normalize_cross_value (off : Z) (a r0 : list Z) : 0 <= off -> hr62 a ->
  exists out, normalize_cross 64 rb ab off a r0 = Some out /\ length out = length r0 /\
    forall P, zn (length r0) * rb + zn (length a) * ab + off <= P ->
      let D := tor_abs P (val_scaled P rb out - val_scaled (P + off) ab a) in
      D <= 2 ^ (P - zn (length r0) * rb) /\ (zn (length a) * ab - off <= zn (length r0) * rb -> D = 0).
Proof.
  intros Hoff Ha. rewrite normalize_cross_is_c128.
  exact (normalize_cross_c_value_pos 64 128 rb ab Hrb Hab off a r0 Hoff Ha).
Qed.

End Thm.
