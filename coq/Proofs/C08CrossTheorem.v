(* C08, cross-radix normalisation with a non-negative offset: the value theorem. *)
From PV Require Import Base.MachineInt Model.Znx Model.Limbs Model.C08Oracle
  Proofs.ZnxDigit Proofs.C08Steps Proofs.C08Chain Proofs.C08Loops Proofs.C08Value Proofs.C08Normalize
  Proofs.C08Shift Proofs.C08ShiftValue Proofs.C08CrossInner Proofs.C08CrossGeom Proofs.C08CrossOuter
  Proofs.C08CrossLoop Proofs.C08CrossMain.
Open Scope Z_scope.

Section Thm.
Variables rb ab : Z.
Hypothesis Hrb : 1 <= rb <= 62.
Hypothesis Hab : 1 <= ab <= 62.

Theorem normalize_cross_value (off : Z) (a r0 : list Z) : 0 <= off -> hr62 a ->
  exists out, normalize_cross 64 rb ab off a r0 = Some out /\ length out = length r0 /\
    forall P, zn (length r0) * rb + zn (length a) * ab + off <= P ->
      let D := tor_abs P (val_scaled P rb out - val_scaled (P + off) ab a) in
      D <= 2 ^ (P - zn (length r0) * rb) /\ (zn (length a) * ab - off <= zn (length r0) * rb -> D = 0).
Proof.
  intros Hoff Ha. apply hrl_of_Forall in Ha.
  unfold normalize_cross.
  destruct (split_offset ab off) as [lsh lo] eqn:Esp.
  rewrite (split_offset_spec ab off ltac:(lia)) in Esp.
  assert (Hl : 0 <= lsh < ab) by (injection Esp as <- _; apply Z.mod_pos_bound; lia).
  assert (Hlo : 0 <= lo) by (injection Esp as _ <-; apply Z.div_pos; lia).
  assert (Eoff : lo * ab + lsh = off).
  { injection Esp as <- <-. pose proof (Z.div_mod off ab ltac:(lia)). lia. }
  clear Esp.
  set (rsz := length r0). set (asz := length a).
  set (res_start := Z.to_nat (div_ceil (clampZ (zn asz * ab - lo * ab) 0 (zn rsz * rb)) rb)).
  set (a_start := Z.to_nat (div_ceil (clampZ (zn rsz * rb + lo * ab) 0 (zn asz * ab)) ab)).
  set (take := (zn asz * ab - clampZ (zn rsz * rb + lo * ab) 0 (zn asz * ab)) mod ab).
  set (m := (zn rsz * rb - clampZ (zn asz * ab - lo * ab) 0 (zn rsz * rb)) mod rb).
  set (a_end := Z.to_nat (clampZ (lo * ab) 0 (zn asz * ab) / ab)).
  assert (Hloab : 0 <= lo * ab) by (apply Z.mul_nonneg_nonneg; lia).
  assert (HRrb : 0 <= zn rsz * rb) by (apply Z.mul_nonneg_nonneg; unfold zn; lia).
  assert (Eend : Z.to_nat (clampZ (- lo * ab) 0 (zn rsz * rb) / rb) = 0%nat).
  { unfold clampZ. replace (Z.max 0 (Z.min (- lo * ab) (zn rsz * rb))) with 0 by lia. reflexivity. }
  rewrite Eend. clear Eend.
  destruct (Nat.eqb_spec res_start 0) as [Ers0|Ers0].
  - (* nothing of a reaches res *)
    exists (zeros rsz). split; [reflexivity|]. split; [apply zeros_length|].
    intros P HP. rewrite <- Eoff in HP |- *.
    apply (zero_value rb ab Hrb Hab P lo lsh a rsz Hl Hlo); [|fold asz; lia].
    apply (res_start_zero rb ab lo asz rsz); [lia|lia|lia|exact Ers0].
  - pose proof (cross_geom rb ab lo asz rsz ltac:(lia) ltac:(lia) Hlo) as G. cbv zeta in G.
    fold res_start a_start take m a_end in G.
    destruct (G Ers0) as (z & g & Hz & Hg & Hzg & HloA & Hgeo & Hast & Eaend & Hmid & Eg & Htake & Hm & Hrs & Ez & Htk & Hzp).
    clear G. clearbody res_start a_start take m a_end.
    cbn [c_res c_anorm c_acarry c_rcarry c_atake c_racc c_rlimb].
    assert (Hab1 : 1 <= ab) by lia.
    set (a_out := (asz - a_start)%nat) in *.
    rewrite (carry_phase_car ab Hab lsh a asz a_out Hl Ha).
    pose proof (car_low ab lsh a a_out ltac:(unfold a_out, asz; lia)) as CL. fold asz in CL. rewrite CL. clear CL.
    set (ac0 := car ab (vin a lsh) 0 a_out).
    assert (Hac0 : Z.abs ac0 <= 2 ^ 62) by (apply (car_vin_hr ab Hab); auto).
    pose proof (chain_sum ab Hab1 (vin a lsh) 0 a_out) as HC. rewrite Z.add_0_r in HC. fold ac0 in HC.
    change (sumn a_out (fun t => vin a lsh t * 2 ^ (zn t * ab))) with (Lval ab a lsh a_out) in HC.
    pose proof (digits_small ab Hab1 (dig ab (vin a lsh) 0) a_out ltac:(intros; apply dig_range; auto)) as HD.
    set (Dlow := sumn a_out (fun t => dig ab (vin a lsh) 0 t * 2 ^ (zn t * ab))) in *.
    assert (H0 : a_out = 0%nat -> ac0 = 0 /\ Dlow = 0).
    { intros E. unfold ac0, Dlow. rewrite E. split; reflexivity. }
    clearbody ac0 Dlow.
    set (fuel := (Z.to_nat ab + Z.to_nat rb + 4)%nat).
    assert (Hfuel : ab <= Z.of_nat fuel) by (unfold fuel; lia). clearbody fuel.
    set (s0 := {| c_res := zeros rsz; c_anorm := 0; c_acarry := ac0; c_rcarry := 0; c_atake := 0;
                  c_racc := rb; c_rlimb := (res_start - 1)%nat |}).
    assert (Hlo' : 0 <= lo < zn (length a)) by (fold asz; lia).
    assert (Hgeo' : (zn (length a) - lo) * ab = zn rsz * rb + g - z) by (fold asz; exact Hgeo).
    match goal with |- context [fold_left ?f (seq 0 ?n) ?init] =>
      pose proof (fold_left_seq_ind f (fun j (acc : cstate * bool * bool) =>
        snd acc = false /\
        (snd (fst acc) = true -> Final rb ab a lsh rsz z g (c_res (fst (fst acc)))) /\
        (snd (fst acc) = false ->
           (j = 0%nat /\ fst (fst acc) = s0) \/
           ((1 <= j)%nat /\ Outer rb ab a lsh rsz z g (a_out + j) (fst (fst acc))))) n init) as HI
    end.
    destruct HI as (I1 & I2 & I3).
    + cbn [fst snd]. split; [reflexivity|]. split; [discriminate|]. intros _. left. split; reflexivity.
    + intros j [[s brk] bad] Hj (Ibad & Ibrk & Inb). cbn [fst snd] in Ibad, Ibrk, Inb. subst bad.
      destruct brk; cbn [orb].
      * cbn [fst snd]. split; [reflexivity|]. split; [intros _; apply Ibrk; reflexivity|discriminate].
      * specialize (Inb eq_refl). clear Ibrk.
        replace (a_start - j - 1)%nat with (length a - 1 - (a_out + j))%nat by (unfold a_out, asz in *; lia).
        set (t := (a_out + j)%nat).
        assert (Ht : (t < length a)%nat) by (unfold t, a_out, asz in *; lia).
        assert (Htl : zn t + 1 <= zn (length a) - lo) by (unfold t, a_out, asz, zn in *; lia).
        (* common ending: from the entry invariant of the actual inner-loop state *)
        assert (Hfin : forall st,
          Entry rb ab a lsh rsz z g t st ->
          let r := cross_inner 64 fuel rb ab (length a - 1 - t) st in
          let acc' := let (s3, c) := r in
                      match c with InnerDone => (s3, false, false) | OuterBreak => (s3, true, false)
                                 | Fuel => (s3, false, true) end in
          snd acc' = false /\
          (snd (fst acc') = true -> Final rb ab a lsh rsz z g (c_res (fst (fst acc')))) /\
          (snd (fst acc') = false ->
             (S j = 0%nat /\ fst (fst acc') = s0) \/
             ((1 <= S j)%nat /\ Outer rb ab a lsh rsz z g (a_out + S j) (fst (fst acc'))))).
        { intros st HE. cbv zeta.
          destruct (entry_step rb ab Hrb Hab a lsh Hl rsz z g lo Hz Hg Hzg Hlo' Hgeo' t st fuel HE Ht Htl Hfuel)
            as (C1 & C2 & C3). cbv zeta in C1, C2, C3.
          destruct (cross_inner 64 fuel rb ab (length a - 1 - t) st) as [s3 [| |]]; cbn [fst snd] in *.
          - split; [reflexivity|]. split; [discriminate|]. intros _. right. split; [lia|].
            replace (a_out + S j)%nat with (S t) by (unfold t; lia). apply C2. reflexivity.
          - split; [reflexivity|]. split; [intros _; apply C3; reflexivity|discriminate].
          - exfalso. apply C1. reflexivity. }
        destruct Inb as [[Ej Es]|[Hj1 HO]].
        -- (* first iteration *)
           subst j s.
           assert (Et : t = a_out) by (unfold t; lia). clearbody t. subst t.
           cbn [Nat.eqb]. unfold s0. cbn [c_res c_anorm c_acarry c_rcarry c_atake c_racc c_rlimb].
           destruct (Z.eqb_spec take 0) as [Et0|Et0]; cbn [negb].
           ++ assert (Eg0 : g = zn a_out * ab) by (rewrite Eg, Et0; ring).
              destruct (Z.eqb_spec m 0) as [Em0|Em0]; cbn [negb].
              ** pose proof (first_outer rb ab Hab a lsh Hl rsz z g Hz Hg a_out res_start 0 rb ac0 Dlow 0 0
                   Hrs ltac:(lia) ltac:(lia) ltac:(rewrite <- Ez, Em0; ring) Eg0 HC HD Hac0
                   ltac:(intros E; apply H0; exact E)) as HO0.
                 pose proof (next_entry rb ab Hrb Hab a Ha lsh Hl rsz z g Hz Hg a_out _ HO0 Ht) as HE.
                 cbv zeta in HE. cbn [c_res c_anorm c_acarry c_rcarry c_atake c_racc c_rlimb] in HE.
                 destruct (middle_step 64 true ab lsh 0 (nthZ a (length a - 1 - a_out)) ac0) as [an ac].
                 cbn [fst snd] in HE. apply (Hfin _ HE).
              ** pose proof (first_outer rb ab Hab a lsh Hl rsz z g Hz Hg a_out res_start m (rb - m) ac0 Dlow 0 0
                   Hrs Hm eq_refl Ez Eg0 HC HD Hac0 ltac:(intros E; apply H0; exact E)) as HO0.
                 pose proof (next_entry rb ab Hrb Hab a Ha lsh Hl rsz z g Hz Hg a_out _ HO0 Ht) as HE.
                 cbv zeta in HE. cbn [c_res c_anorm c_acarry c_rcarry c_atake c_racc c_rlimb] in HE.
                 destruct (middle_step 64 true ab lsh 0 (nthZ a (length a - 1 - a_out)) ac0) as [an ac].
                 cbn [fst snd] in HE. apply (Hfin _ HE).
           ++ destruct (Htk Et0) as [Ez0 Ers]. subst res_start.
              pose proof (first_take rb ab Hrb Hab a Ha lsh Hl rsz z g Hg a_out take ac0 Dlow
                   ltac:(lia) Ez0 Eg ltac:(lia) Ht HC HD Hac0 H0) as HE.
              cbv zeta in HE.
              destruct (middle_step 64 true ab lsh 0 (nthZ a (length a - 1 - a_out)) ac0) as [an ac].
              cbn [fst snd] in HE. apply (Hfin _ HE).
        -- (* later iterations *)
           destruct (Nat.eqb_spec j 0) as [|_]; [lia|].
           pose proof (next_entry rb ab Hrb Hab a Ha lsh Hl rsz z g Hz Hg t s HO Ht) as HE.
           cbv zeta in HE.
           destruct (middle_step 64 true ab lsh 0 (nthZ a (length a - 1 - t)) (c_acarry s)) as [an ac].
           cbn [fst snd] in HE. apply (Hfin _ HE).
    + destruct (fold_left _ (seq 0 (a_start - a_end)) (s0, false, false)) as [[s brk] bad].
      cbn [fst snd] in I1, I2, I3. subst bad. cbn [Nat.eqb].
      assert (HF : Final rb ab a lsh rsz z g (c_res s)).
      { destruct brk; [apply I2; reflexivity|].
        destruct (I3 eq_refl) as [[E _]|[_ HO]]; [lia|].
        apply (outer_final rb ab Hab a lsh rsz z g Hz Hg lo (a_out + (a_start - a_end)) s Hlo Hgeo'); [|exact HO].
        unfold a_out, asz, zn in *. lia. }
      exists (c_res s). split; [reflexivity|]. split; [apply HF|].
      intros P HP. rewrite <- Eoff in HP |- *.
      apply (final_value rb ab Hrb Hab a lsh Hl rsz z g Hz Hg Hzg lo P (c_res s) Hlo Hgeo' ltac:(lia) HF).
      fold asz. exact HP.
Qed.

End Thm.
