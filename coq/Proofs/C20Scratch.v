(* C20 — the per-thread scratch windows produced by Scratch::split_mut.
   Every window is 64-byte aligned, has the requested length, lies inside the arena, and the windows are laid
   out one after the other (hence pairwise disjoint); what the arena must provide for the split not to panic. *)
From PV Require Import Base.MachineInt Model.C20Threads.
Open Scope Z_scope.

Lemma align_offset_range (a : Z) : 0 <= align_offset a < 64.
Proof. unfold align_offset, DEFAULTALIGN. lia. Qed.

Lemma align_offset_aligned (a : Z) : (a + align_offset a) mod 64 = 0.
Proof. unfold align_offset, DEFAULTALIGN. lia. Qed.

Lemma take_spec (addr len take : Z) (w r : Z * Z) :
  0 <= len -> 1 <= take ->
  take_slice_aligned addr len take = Some (w, r) ->
  fst w mod 64 = 0 /\ snd w = take /\ addr <= fst w /\ fst w + take = fst r /\
  fst r + snd r = addr + len /\ 0 <= snd r.
Proof.
  intros Hlen Htake H. unfold take_slice_aligned in H.
  pose proof (align_offset_range addr) as Ho.
  pose proof (align_offset_aligned addr) as Ha.
  destruct (take <=? Z.max 0 (len - align_offset addr)) eqn:E; [|discriminate].
  inversion H; subst; clear H. cbn [fst snd].
  apply Z.leb_le in E. repeat split; try lia; exact Ha.
Qed.

(* windows laid out left to right inside [lo, hi): the shape every successful split has *)
Fixpoint laid_out (lo hi take : Z) (ws : list (Z * Z)) : Prop :=
  match ws with
  | [] => True
  | w :: r => lo <= fst w /\ fst w mod 64 = 0 /\ snd w = take /\ fst w + take <= hi /\ laid_out (fst w + take) hi take r
  end.

Lemma split_loop_spec (n : nat) : forall addr len take ws r,
  0 <= len -> 1 <= take ->
  split_loop n addr len take = Some (ws, r) ->
  length ws = n /\ laid_out addr (fst r) take ws /\ addr <= fst r /\ fst r + snd r = addr + len /\ 0 <= snd r.
Proof.
  induction n as [|n IH]; intros addr len take ws r Hlen Htake H; cbn [split_loop] in H.
  - inversion H; subst; cbn [fst snd laid_out length]. repeat split; lia.
  - destruct (take_slice_aligned addr len take) as [[w [addr' len']]|] eqn:Et; [|discriminate].
    destruct (split_loop n addr' len' take) as [[ws' r']|] eqn:Es; [|discriminate].
    inversion H; subst; clear H.
    destruct (take_spec _ _ _ _ _ Hlen Htake Et) as (Hal & Hsz & Hlo & Hnext & Hend & Hrem).
    cbn [fst snd] in *.
    destruct (IH _ _ _ _ _ Hrem Htake Es) as (Hn & Hlay & Hle & Hend' & Hrem').
    cbn [length laid_out]. rewrite Hn. repeat split; try lia.
    rewrite Hnext. exact Hlay.
Qed.

Lemma laid_out_weaken (ws : list (Z * Z)) : forall lo hi hi' take,
  hi <= hi' -> laid_out lo hi take ws -> laid_out lo hi' take ws.
Proof.
  induction ws as [|w ws IH]; intros lo hi hi' take Hh H; cbn [laid_out] in *; auto.
  destruct H as (H1 & H2 & H3 & H4 & H5). repeat split; try lia; auto. eapply IH; eauto.
Qed.

Lemma laid_out_nth (ws : list (Z * Z)) : forall lo hi take i,
  1 <= take -> laid_out lo hi take ws -> (i < length ws)%nat ->
  lo <= fst (nth i ws (0, 0)) /\ fst (nth i ws (0, 0)) mod 64 = 0 /\ snd (nth i ws (0, 0)) = take /\
  fst (nth i ws (0, 0)) + take <= hi.
Proof.
  induction ws as [|w ws IH]; intros lo hi take i Ht H Hi; cbn [length] in Hi; [lia|].
  cbn [laid_out] in H. destruct H as (H1 & H2 & H3 & H4 & H5).
  destruct i as [|i]; cbn [nth].
  - repeat split; auto.
  - assert (Hi' : (i < length ws)%nat) by lia.
    destruct (IH _ _ _ _ Ht H5 Hi') as (A & B & C & D). repeat split; auto; lia.
Qed.

Lemma laid_out_ordered (ws : list (Z * Z)) : forall lo hi take i j,
  1 <= take -> laid_out lo hi take ws -> (i < j)%nat -> (j < length ws)%nat ->
  fst (nth i ws (0, 0)) + take <= fst (nth j ws (0, 0)).
Proof.
  induction ws as [|w ws IH]; intros lo hi take i j Ht H Hij Hj; cbn [length] in Hj; [lia|].
  cbn [laid_out] in H. destruct H as (H1 & H2 & H3 & H4 & H5).
  destruct j as [|j]; [lia|]. destruct i as [|i]; cbn [nth].
  - assert (Hj' : (j < length ws)%nat) by lia.
    destruct (laid_out_nth _ _ _ _ _ Ht H5 Hj') as (A & _). lia.
  - eapply IH; eauto; lia.
Qed.

(* the main statement: shape of every successful split *)
Lemma scratch_windows_disjoint :
  forall (addr len per : Z) (threads : nat) (ws : list (Z * Z)) (rest : Z * Z),
    0 <= len -> 1 <= per ->
    split_mut addr len threads per = Some (ws, rest) ->
    length ws = threads /\
    (forall i, (i < threads)%nat ->
       let w := nth i ws (0, 0) in
       fst w mod 64 = 0 /\ snd w = per /\ addr <= fst w /\ fst w + snd w <= addr + len) /\
    (forall i j, (i < j)%nat -> (j < threads)%nat ->
       fst (nth i ws (0, 0)) + snd (nth i ws (0, 0)) <= fst (nth j ws (0, 0))) /\
    (forall i, (i < threads)%nat -> fst (nth i ws (0, 0)) + snd (nth i ws (0, 0)) <= fst rest) /\
    addr <= fst rest /\ 0 <= snd rest /\ fst rest + snd rest = addr + len.
Proof.
  intros addr len per threads ws rest Hlen Hper H. unfold split_mut in H.
  destruct (Z.of_nat threads * per <=? available addr len); [|discriminate].
  destruct (split_loop_spec _ _ _ _ _ _ Hlen Hper H) as (Hn & Hlay & Hle & Hend & Hrem).
  split; [exact Hn|]. split; [|split; [|split]].
  - intros i Hi. cbn zeta. rewrite <- Hn in Hi.
    destruct (laid_out_nth _ _ _ _ _ Hper Hlay Hi) as (A & B & C & D). repeat split; auto; lia.
  - intros i j Hij Hj. rewrite <- Hn in Hj.
    assert (Hi : (i < length ws)%nat) by lia.
    destruct (laid_out_nth _ _ _ _ _ Hper Hlay Hi) as (_ & _ & C & _). rewrite C.
    eapply laid_out_ordered; eauto.
  - intros i Hi. rewrite <- Hn in Hi.
    destruct (laid_out_nth _ _ _ _ _ Hper Hlay Hi) as (_ & _ & C & D). lia.
  - repeat split; lia.
Qed.

(* --- when does the split succeed? ------------------------------------------------------------- *)
Lemma available_after_take (addr len per : Z) :
  0 <= len -> 0 <= per -> round64 per <= available addr len ->
  exists w addr' len',
    take_slice_aligned addr len per = Some (w, (addr', len')) /\ 0 <= len' /\
    available addr' len' = available addr len - round64 per.
Proof.
  intros Hlen Hper Hav. unfold take_slice_aligned, available, round64, align_offset, DEFAULTALIGN in *.
  destruct (per <=? Z.max 0 (len - (- addr) mod 64)) eqn:E.
  - eexists _, _, _. split; [reflexivity|]. apply Z.leb_le in E. split; [lia|]. lia.
  - apply Z.leb_gt in E. lia.
Qed.

Lemma split_loop_enough (n : nat) : forall addr len per,
  0 <= len -> 0 <= per -> Z.of_nat n * round64 per <= available addr len ->
  exists ws r, split_loop n addr len per = Some (ws, r).
Proof.
  induction n as [|n IH]; intros addr len per Hlen Hper Hav; cbn [split_loop].
  - eexists _, _; reflexivity.
  - assert (Hr : 0 <= round64 per) by (unfold round64, DEFAULTALIGN; lia).
    assert (H1 : round64 per <= available addr len) by nia.
    destruct (available_after_take _ _ _ Hlen Hper H1) as (w & addr' & len' & Et & Hl' & Hav').
    rewrite Et.
    destruct (IH addr' len' per Hl' Hper ltac:(nia)) as (ws & r & Es). rewrite Es.
    eexists _, _; reflexivity.
Qed.

Lemma round64_ge (x : Z) : x <= round64 x.
Proof. unfold round64, DEFAULTALIGN. lia. Qed.

Lemma round64_id (x : Z) : x mod 64 = 0 -> round64 x = x.
Proof. unfold round64, DEFAULTALIGN. lia. Qed.

(* an arena with threads * round64(per_thread) available bytes is enough *)
Lemma split_mut_enough (addr len per : Z) (threads : nat) :
  0 <= len -> 0 <= per -> Z.of_nat threads * round64 per <= available addr len ->
  exists ws r, split_mut addr len threads per = Some (ws, r).
Proof.
  intros Hlen Hper Hav. unfold split_mut.
  pose proof (round64_ge per).
  assert (Z.of_nat threads * per <= available addr len) by nia.
  destruct (Z.of_nat threads * per <=? available addr len) eqn:E; [|apply Z.leb_gt in E; lia].
  apply split_loop_enough; auto.
Qed.

(* the assertion the code makes (available >= threads * per_thread) is enough when per_thread is a multiple of 64 *)
Lemma split_mut_assert_enough_aligned (addr len per : Z) (threads : nat) :
  0 <= len -> 0 <= per -> per mod 64 = 0 -> Z.of_nat threads * per <= available addr len ->
  exists ws r, split_mut addr len threads per = Some (ws, r).
Proof.
  intros Hlen Hper Hal Hav. apply split_mut_enough; auto. rewrite round64_id; auto.
Qed.

(* ... and it is NOT enough otherwise: the assertion passes, the second take panics *)
Lemma split_mut_assert_not_enough :
  exists addr len per threads,
    0 <= len /\ 1 <= per /\ Z.of_nat threads * per <= available addr len /\
    split_loop threads addr len per = None /\ split_mut addr len threads per = None.
Proof. exists 0, 16, 8, 2%nat. vm_compute. repeat split; congruence. Qed.

(* zero-length windows can be reported OUTSIDE an arena shorter than its alignment offset
   (take_slice_aligned computes ptr.add(aligned_offset) before knowing that it is in bounds) *)
Lemma zero_len_window_outside :
  exists addr len ws r, split_mut addr len 1 0 = Some (ws, r) /\ addr + len < fst (nth 0 ws (0, 0)).
Proof. exists 1, 10. eexists _, _. split; [vm_compute; reflexivity|]. vm_compute. reflexivity. Qed.
