(* C08, cross-radix normalisation with a negative offset: bit geometry, the value of the top phase over zero
   limbs, the torus statement from the final invariant, and the change of the scaling exponent P. *)
From PV Require Import Base.MachineInt Model.Znx Model.Limbs Model.C08Oracle
  Proofs.ZnxDigit Proofs.C08Steps Proofs.C08Chain Proofs.C08Loops Proofs.C08Value Proofs.C08Normalize
  Proofs.C08Shift Proofs.C08CrossInner Proofs.C08CrossGeom Proofs.C08CrossOuter Proofs.C08CrossLoop Proofs.C08CrossMain
  Proofs.C08WChain Proofs.C08WLoops Proofs.C08WCrossInner.
Open Scope Z_scope.

(* ---------- bit geometry for a negative limb offset lo, when the stream overlaps res ---------- *)

Lemma cross_geom_neg (rb ab lo : Z) (asz rsz : nat) : 1 <= rb -> 1 <= ab -> lo < 0 ->
  let a_tot := zn asz * ab in let r_tot := zn rsz * rb in
  let res_start_bit := clampZ (a_tot - lo * ab) 0 r_tot in
  let a_start_bit := clampZ (r_tot + lo * ab) 0 a_tot in
  let a_end_bit := clampZ (lo * ab) 0 a_tot in
  let res_end_bit := clampZ (- lo * ab) 0 r_tot in
  let res_start := Z.to_nat (div_ceil res_start_bit rb) in
  let a_start := Z.to_nat (div_ceil a_start_bit ab) in
  let a_end := Z.to_nat (a_end_bit / ab) in
  let res_end := Z.to_nat (res_end_bit / rb) in
  let take := (a_tot - a_start_bit) mod ab in
  let m := (r_tot - res_start_bit) mod rb in
  - lo * ab < r_tot -> (1 <= asz)%nat ->
  exists z g, 0 <= z /\ 0 <= g /\ (z = 0 \/ g = 0) /\
    (zn asz - lo) * ab = r_tot + g - z /\
    (1 <= a_start <= asz)%nat /\ a_end = 0%nat /\
    g = zn (asz - a_start) * ab + take /\ 0 <= take < ab /\ 0 <= m < rb /\
    (1 <= res_start <= rsz)%nat /\ (zn rsz - zn res_start) * rb + m = z /\
    (take <> 0 -> z = 0 /\ res_start = rsz) /\ (0 < z -> (asz - a_start = 0)%nat) /\
    res_end = Z.to_nat ((- lo * ab) / rb).
Proof.
  intros Hrb Hab Hlo a_tot r_tot res_start_bit a_start_bit a_end_bit res_end_bit res_start a_start a_end res_end
    take m HEr HA1.
  assert (Dat : a_tot = zn asz * ab) by reflexivity.
  assert (Drt : r_tot = zn rsz * rb) by reflexivity.
  assert (Drsb : res_start_bit = clampZ (a_tot - lo * ab) 0 r_tot) by reflexivity.
  assert (Dasb : a_start_bit = clampZ (r_tot + lo * ab) 0 a_tot) by reflexivity.
  assert (Daeb : a_end_bit = clampZ (lo * ab) 0 a_tot) by reflexivity.
  assert (Dreb : res_end_bit = clampZ (- lo * ab) 0 r_tot) by reflexivity.
  assert (Drs : res_start = Z.to_nat (div_ceil res_start_bit rb)) by reflexivity.
  assert (Das : a_start = Z.to_nat (div_ceil a_start_bit ab)) by reflexivity.
  assert (Dae : a_end = Z.to_nat (a_end_bit / ab)) by reflexivity.
  assert (Dre : res_end = Z.to_nat (res_end_bit / rb)) by reflexivity.
  assert (Dtk : take = (a_tot - a_start_bit) mod ab) by reflexivity.
  assert (Dm : m = (r_tot - res_start_bit) mod rb) by reflexivity.
  clearbody a_tot r_tot res_start_bit a_start_bit a_end_bit res_end_bit res_start a_start a_end res_end take m.
  set (A := zn asz) in *. set (R := zn rsz) in *.
  assert (HA : 1 <= A) by (unfold A, zn; lia). assert (HR : 0 <= R) by (unfold R, zn; lia).
  assert (EA : A = zn asz) by reflexivity. assert (ER : R = zn rsz) by reflexivity.
  clearbody A R.
  set (EE := - lo * ab) in *.
  assert (HEE : 1 <= EE).
  { unfold EE. assert (1 * 1 <= (- lo) * ab) by (apply Z.mul_le_mono_nonneg; lia). lia. }
  assert (Eloab : lo * ab = - EE) by (unfold EE; ring).
  clearbody EE. rewrite Eloab in *.
  assert (HAab : 1 <= a_tot).
  { rewrite Dat. assert (1 * 1 <= A * ab) by (apply Z.mul_le_mono_nonneg; lia). lia. }
  set (Ta := a_tot - - EE) in *.
  assert (HTa : 0 < Ta) by (unfold Ta; clear - HAab HEE; lia).
  assert (Hrt : 0 < r_tot) by (clear - HEr HEE; lia).
  assert (ETa : Ta = (A - lo) * ab) by (unfold Ta; rewrite Dat; rewrite Z.mul_sub_distr_r, Eloab; ring).
  assert (Eend : a_end = 0%nat).
  { rewrite Dae, Daeb. unfold clampZ. replace (Z.max 0 (Z.min (- EE) a_tot)) with 0 by (clear - HAab HEE; lia). reflexivity. }
  assert (Erend : res_end = Z.to_nat (EE / rb)).
  { rewrite Dre, Dreb. unfold clampZ. replace (Z.max 0 (Z.min EE r_tot)) with EE by (clear - HEr HEE; lia). reflexivity. }
  clear Dae Daeb Dre Dreb.
  assert (HR1 : 1 <= R).
  { destruct (Z_le_gt_dec R 0) as [H0|]; [|lia]. assert (R = 0) by lia. rewrite Drt, H in Hrt. lia. }
  destruct (Z_le_gt_dec r_tot Ta) as [Htr|Hex].
  - (* truncation: the stream reaches below the bottom of res *)
    set (p0 := Ta - r_tot). assert (Hp0 : 0 <= p0) by (unfold p0; lia).
    assert (Ers : res_start_bit = R * rb).
    { rewrite Drsb. unfold clampZ. clear - Htr Hrt Drt. lia. }
    assert (Eas : a_start_bit = r_tot + - EE).
    { rewrite Dasb. unfold clampZ. unfold Ta in Htr. clear - Htr HEr. lia. }
    assert (Etake : take = p0 mod ab) by (rewrite Dtk, Eas; f_equal; unfold p0, Ta; ring).
    clear Drsb Dasb Dtk.
    pose proof (Z.div_mod p0 ab ltac:(lia)) as Hdm. pose proof (Z.mod_pos_bound p0 ab ltac:(lia)) as Hmb.
    assert (Hq : 0 <= p0 / ab) by (apply Z.div_pos; lia).
    set (q := p0 / ab) in *. rewrite <- Etake in Hdm, Hmb. clearbody q. clear Etake.
    assert (Hqab : 0 <= q * ab) by (apply Z.mul_nonneg_nonneg; lia).
    assert (EAs : div_ceil a_start_bit ab = A - q).
    { rewrite Eas. replace (r_tot + - EE) with ((A - q) * ab - take) by (unfold p0, Ta in *; clear - Hdm Dat; lia).
      apply div_ceil_mul_sub; lia. }
    assert (HqA : q < A).
    { destruct (Z_lt_le_dec q A) as [|Hge]; [assumption|]. exfalso.
      assert (A * ab <= q * ab) by (apply Z.mul_le_mono_nonneg_r; lia).
      unfold p0, Ta in *. clear - H Hdm Hmb Dat HEr. lia. }
    assert (ERs : div_ceil res_start_bit rb = R).
    { rewrite Ers. replace (R * rb) with (R * rb - 0) by ring. apply div_ceil_mul_sub; lia. }
    assert (Em : m = 0).
    { rewrite Dm, Ers, Drt, Z.sub_diag. apply Z.mod_0_l. lia. }
    assert (Eastart : zn a_start = A - q) by (rewrite Das, EAs; unfold zn; rewrite Z2Nat.id by lia; reflexivity).
    assert (Erstart : zn res_start = R) by (rewrite Drs, ERs; unfold zn; rewrite Z2Nat.id by lia; reflexivity).
    clear Das Drs Dm EAs ERs Eas Ers.
    exists 0, p0. split; [lia|]. split; [exact Hp0|]. split; [left; reflexivity|].
    split; [unfold p0; lia|].
    split; [unfold zn in *; lia|]. split; [exact Eend|].
    split.
    { replace (zn (asz - a_start)) with q by (unfold zn in *; lia). lia. }
    split; [exact Hmb|]. split; [rewrite Em; lia|].
    split; [unfold zn in *; lia|]. split; [rewrite Erstart, Em; ring|].
    split; [intros _; split; [reflexivity|unfold zn in *; lia]|]. split; [intros Hf; lia|exact Erend].
  - (* exact: the stream ends above the bottom of res, res has zz zero bits at the bottom *)
    set (zz := r_tot - Ta). assert (Hzz : 0 < zz) by (unfold zz; lia).
    assert (Ers : res_start_bit = Ta).
    { rewrite Drsb. unfold clampZ. clear - Hex HTa. lia. }
    assert (Eas : a_start_bit = A * ab).
    { rewrite Dasb. unfold clampZ. unfold Ta in Hex. clear - Hex HAab Dat. lia. }
    assert (Etake : take = 0).
    { rewrite Dtk, Eas, Dat, Z.sub_diag. apply Z.mod_0_l. lia. }
    assert (EAs : div_ceil a_start_bit ab = A).
    { rewrite Eas. replace (A * ab) with (A * ab - 0) by ring. apply div_ceil_mul_sub; lia. }
    assert (Em : m = zz mod rb) by (rewrite Dm, Ers; reflexivity).
    clear Drsb Dasb Dtk Dm.
    pose proof (Z.div_mod zz rb ltac:(lia)) as Hdm. pose proof (Z.mod_pos_bound zz rb ltac:(lia)) as Hmb.
    assert (Hq : 0 <= zz / rb) by (apply Z.div_pos; lia).
    set (q := zz / rb) in *. rewrite <- Em in Hdm, Hmb. clearbody q. clear Em.
    assert (Hqrb : 0 <= q * rb) by (apply Z.mul_nonneg_nonneg; lia).
    assert (ERs : div_ceil res_start_bit rb = R - q).
    { rewrite Ers. replace Ta with ((R - q) * rb - m) by (unfold zz in *; clear - Hdm Drt; lia).
      apply div_ceil_mul_sub; lia. }
    assert (HqR : q < R).
    { destruct (Z_lt_le_dec q R) as [|Hge]; [assumption|]. exfalso.
      assert (R * rb <= q * rb) by (apply Z.mul_le_mono_nonneg_r; lia).
      unfold zz in *. clear - H Hdm Hmb HTa Drt. lia. }
    assert (Eastart : zn a_start = A) by (rewrite Das, EAs; unfold zn; rewrite Z2Nat.id by lia; reflexivity).
    assert (Erstart : zn res_start = R - q) by (rewrite Drs, ERs; unfold zn; rewrite Z2Nat.id by lia; reflexivity).
    clear Das Drs EAs ERs Eas Ers.
    exists zz, 0. split; [lia|]. split; [lia|]. split; [right; reflexivity|].
    split; [unfold zz; lia|].
    split; [unfold zn in *; lia|]. split; [exact Eend|].
    split.
    { replace (zn (asz - a_start)) with 0 by (unfold zn in *; lia). lia. }
    split; [lia|]. split; [exact Hmb|].
    split; [unfold zn in *; lia|]. split; [rewrite Erstart; lia|].
    split; [intros Hne; lia|]. split; [intros _; unfold zn in *; lia|exact Erend].
Qed.

(* no overlap (or an empty a): nothing of a is repacked *)
Lemma cross_geom_neg_none (rb ab lo : Z) (asz rsz : nat) : 1 <= rb -> 1 <= ab -> lo < 0 -> (1 <= rsz)%nat ->
  zn rsz * rb <= - lo * ab \/ asz = 0%nat ->
  Z.to_nat (div_ceil (clampZ (zn rsz * rb + lo * ab) 0 (zn asz * ab)) ab) = 0%nat /\
  Z.to_nat (clampZ (lo * ab) 0 (zn asz * ab) / ab) = 0%nat /\
  Z.to_nat (div_ceil (clampZ (zn asz * ab - lo * ab) 0 (zn rsz * rb)) rb) <> 0%nat /\
  (zn rsz * rb <= - lo * ab -> Z.to_nat (clampZ (- lo * ab) 0 (zn rsz * rb) / rb) = rsz) /\
  (Z.to_nat (clampZ (- lo * ab) 0 (zn rsz * rb) / rb) <= rsz)%nat.
Proof.
  intros Hrb Hab Hlo HR Hcase.
  set (EE := - lo * ab) in *.
  assert (HEE : 1 <= EE).
  { unfold EE. assert (1 * 1 <= (- lo) * ab) by (apply Z.mul_le_mono_nonneg; lia). lia. }
  assert (Eloab : lo * ab = - EE) by (unfold EE; ring).
  clearbody EE. rewrite Eloab.
  assert (HRrb : 1 <= zn rsz * rb).
  { assert (1 * 1 <= zn rsz * rb) by (apply Z.mul_le_mono_nonneg; unfold zn; lia). lia. }
  assert (HAab : 0 <= zn asz * ab) by (apply Z.mul_nonneg_nonneg; unfold zn; lia).
  set (rt := zn rsz * rb) in *. set (at_ := zn asz * ab) in *.
  assert (Hfloor : (Z.to_nat (clampZ EE 0 rt / rb) <= rsz)%nat).
  { assert (clampZ EE 0 rt / rb <= zn rsz).
    { apply Z.div_le_upper_bound; [lia|]. unfold clampZ, rt. lia. }
    unfold zn in *. lia. }
  split; [|split; [|split; [|split; [|exact Hfloor]]]].
  - assert (E0 : clampZ (rt + - EE) 0 at_ = 0).
    { unfold clampZ. destruct Hcase as [Hc|Hc]; [lia|]. unfold at_. rewrite Hc. change (zn 0) with 0. lia. }
    rewrite E0. unfold div_ceil. rewrite Z.div_small by lia. reflexivity.
  - unfold clampZ. replace (Z.max 0 (Z.min (- EE) at_)) with 0 by lia. reflexivity.
  - set (x := clampZ (at_ - - EE) 0 rt).
    assert (Hx : 1 <= x) by (unfold x, clampZ; lia). clearbody x.
    assert (1 <= div_ceil x rb) by (unfold div_ceil; apply Z.div_le_lower_bound; lia).
    lia.
  - intros Hge. unfold clampZ. replace (Z.max 0 (Z.min EE rt)) with rt by lia.
    unfold rt. rewrite Z.div_mul by lia. unfold zn. lia.
Qed.

(* ---------- the value of res after the top phase over zero limbs ---------- *)

Lemma Vres_top (rb : Z) (rsz re : nat) (r out : list Z) (c : Z) : 1 <= rb -> (re <= rsz)%nat ->
  length r = rsz -> length out = rsz -> (forall i, (i < re)%nat -> nthZ r i = 0) ->
  (forall i, nthZ out i = if (Nat.ltb i re && Nat.ltb i (length r))%bool then dig rb zseq c (re - 1 - i) else nthZ r i) ->
  Vres rb rsz out = Vres rb rsz r + 2 ^ ((zn rsz - zn re) * rb) * (c - 2 ^ (zn re * rb) * car rb zseq c re).
Proof.
  intros Hrb Hre Lr Lo Hz Hn. unfold Vres.
  assert (Esplit : forall f, sumn rsz f = sumn re f + sumn (rsz - re) (fun t => f (re + t)%nat)).
  { intros f. replace rsz with (re + (rsz - re))%nat at 1 by lia. apply sumn_add. }
  rewrite !Esplit.
  set (E := (zn rsz - zn re) * rb).
  assert (HE : 0 <= E) by (unfold E; apply Z.mul_nonneg_nonneg; unfold zn; lia).
  assert (E2 : sumn (rsz - re) (fun t => nthZ out (re + t) * 2 ^ ((zn rsz - 1 - zn (re + t)) * rb))
             = sumn (rsz - re) (fun t => nthZ r (re + t) * 2 ^ ((zn rsz - 1 - zn (re + t)) * rb))).
  { apply sumn_ext. intros t Ht. rewrite Hn. destruct (Nat.ltb_spec (re + t) re); [lia|]. reflexivity. }
  rewrite E2.
  assert (E1 : sumn re (fun i => nthZ r i * 2 ^ ((zn rsz - 1 - zn i) * rb)) = 0).
  { apply sumn_zero. intros t Ht. rewrite Hz by exact Ht. apply Z.mul_0_l. }
  rewrite E1.
  assert (E3 : sumn re (fun i => nthZ out i * 2 ^ ((zn rsz - 1 - zn i) * rb))
             = 2 ^ E * sumn re (fun t => dig rb zseq c t * 2 ^ (zn t * rb))).
  { rewrite <- (window_rev rb Hrb (dig rb zseq c) re E HE). apply sumn_ext. intros i Hi. rewrite Hn, Lr.
    destruct (Nat.ltb_spec i re); [|lia]. destruct (Nat.ltb_spec i rsz); [|lia]. cbn [andb].
    f_equal. f_equal. unfold E. ring. }
  rewrite E3.
  pose proof (chain_sum rb Hrb zseq c re) as HC.
  assert (E4 : sumn re (fun t => zseq t * 2 ^ (zn t * rb)) = 0).
  { apply sumn_zero. intros t Ht. unfold zseq. apply Z.mul_0_l. }
  rewrite E4 in HC.
  replace (sumn re (fun t => dig rb zseq c t * 2 ^ (zn t * rb))) with (c - 2 ^ (zn re * rb) * car rb zseq c re) by lia.
  ring.
Qed.

(* ---------- change of the scaling exponent ---------- *)

Lemma val_scaled_scale (P k b : Z) (l : list Z) : 0 <= k -> zn (length l) * b <= P -> 0 <= b ->
  val_scaled (P + k) b l = 2 ^ k * val_scaled P b l.
Proof.
  intros Hk HP Hb. rewrite !val_scaled_sumn, <- sumn_scale. apply sumn_ext. intros i Hi. unfold wt.
  replace (P + k - (zn i + 1) * b) with (k + (P - (zn i + 1) * b)) by ring.
  assert (0 <= P - (zn i + 1) * b).
  { assert ((zn i + 1) * b <= zn (length l) * b) by (apply Z.mul_le_mono_nonneg_r; unfold zn; lia). lia. }
  rewrite pow2_add by lia. ring.
Qed.

Lemma tor_abs_scale (P k x : Z) : 1 <= P -> 0 <= k -> tor_abs (P + k) (2 ^ k * x) = 2 ^ k * tor_abs P x.
Proof.
  intros HP Hk. unfold tor_abs. rewrite (Z.mul_comm (2 ^ k) x), wrap_mul_pow2 by lia.
  pose proof (pow2_pos k Hk). rewrite Z.abs_mul, (Z.abs_eq (2 ^ k)) by lia. ring.
Qed.

(* the statement at P + k gives the statement at P *)
Lemma value_scale_down (P k rb ab off : Z) (rsz : nat) (a out : list Z) : 1 <= P -> 0 <= k -> 0 <= rb -> 0 <= ab ->
  length out = rsz -> zn rsz * rb <= P -> zn (length a) * ab <= P + off ->
  (let D := tor_abs (P + k) (val_scaled (P + k) rb out - val_scaled (P + k + off) ab a) in
   D <= 2 ^ (P + k - zn rsz * rb) /\ (zn (length a) * ab - off <= zn rsz * rb -> D = 0)) ->
  let D := tor_abs P (val_scaled P rb out - val_scaled (P + off) ab a) in
  D <= 2 ^ (P - zn rsz * rb) /\ (zn (length a) * ab - off <= zn rsz * rb -> D = 0).
Proof.
  intros HP Hk Hrb Hab Lo HPr HPa H. cbv zeta in *.
  rewrite (val_scaled_scale P k rb out Hk ltac:(rewrite Lo; exact HPr) Hrb) in H.
  replace (P + k + off) with (P + off + k) in H by ring.
  rewrite (val_scaled_scale (P + off) k ab a Hk HPa Hab) in H.
  rewrite <- Z.mul_sub_distr_l, tor_abs_scale in H by lia.
  replace (P + k - zn rsz * rb) with (k + (P - zn rsz * rb)) in H by ring.
  rewrite pow2_add in H by lia.
  pose proof (pow2_pos k Hk) as Hpk. destruct H as [H1 H2].
  set (D := tor_abs P (val_scaled P rb out - val_scaled (P + off) ab a)) in *.
  split.
  - apply (Z.mul_le_mono_pos_l _ _ (2 ^ k)); [exact Hpk|exact H1].
  - intros Hx. specialize (H2 Hx). nia.
Qed.
